(* C04 specification: an independent transcription of the validation rules of the GraphQL
   specification (section 5; October 2021 text plus the OneOf input objects and the
   CollectSubscriptionFields wording of the September 2025 edition) over ONE selected operation and
   the fragments it reaches.  Rules about definitions that normalisation discards (unused
   fragments, other operations, operation-name uniqueness, lone anonymous operation) are outside.

   Shape: the document is first flattened into "sites" (every typed selection node, every
   argument list with the definitions it is checked against, every directive list with its
   location, ...) and every rule is a [forallb] over the relevant sites.  [checks] lists the rule
   families with their verdicts; [spec_valid_b] is their conjunction and [spec_report] the failing
   families (used by the driver to classify disagreements). *)
From Coq Require Import List NArith Bool.
From Gv Require Import lib.Bytes lib.Json lib.Gql lib.Exec.
Import ListNotations.
Open Scope N_scope.

Definition n_schema : name := [95;95;115;99;104;101;109;97].  (* __schema *)
Definition n_type : name := [95;95;116;121;112;101].  (* __type *)
Definition n_Schema : name := [95;95;83;99;104;101;109;97].  (* __Schema *)
Definition n_Type : name := [95;95;84;121;112;101].  (* __Type *)
Definition n_String : name := [83;116;114;105;110;103].  (* String *)
Definition n_name : name := [110;97;109;101].  (* name *)
Definition n_Int : name := [73;110;116].  (* Int *)
Definition n_Float : name := [70;108;111;97;116].  (* Float *)
Definition n_Boolean : name := [66;111;111;108;101;97;110].  (* Boolean *)
Definition n_ID : name := [73;68].  (* ID *)
Definition n_oneOf : name := [111;110;101;79;102].  (* oneOf *)
Definition n_Entity : name := [95;69;110;116;105;116;121].  (* _Entity *)
Definition loc_QUERY : name := [81;85;69;82;89].
Definition loc_MUTATION : name := [77;85;84;65;84;73;79;78].
Definition loc_SUBSCRIPTION : name := [83;85;66;83;67;82;73;80;84;73;79;78].
Definition loc_FIELD : name := [70;73;69;76;68].
Definition loc_FRAGMENT_DEFINITION : name := [70;82;65;71;77;69;78;84;95;68;69;70;73;78;73;84;73;79;78].
Definition loc_FRAGMENT_SPREAD : name := [70;82;65;71;77;69;78;84;95;83;80;82;69;65;68].
Definition loc_INLINE_FRAGMENT : name := [73;78;76;73;78;69;95;70;82;65;71;77;69;78;84].
Definition loc_VARIABLE_DEFINITION : name := [86;65;82;73;65;66;76;69;95;68;69;70;73;78;73;84;73;79;78].

(* ---- rule families ---- *)
Inductive rule :=
| R_operation          (* the selected operation exists and its root type is an object type of the schema *)
| R_field_exists       (* 5.3.1 field selections exist on the parent type *)
| R_leaf_shape         (* 5.3.3 leaf field selections *)
| R_arg_known          (* 5.4.1 argument names (fields and directives) *)
| R_arg_unique         (* 5.4.2 argument uniqueness *)
| R_arg_required       (* 5.4.2.1 required arguments of fields *)
| R_dir_arg_required   (* 5.4.2.1 required arguments of directives *)
| R_value              (* 5.6.1-5.6.4 values of correct type, input object field names / uniqueness / required fields, oneOf *)
| R_var_position       (* 5.8.5 all variable usages are allowed *)
| R_frag_known         (* 5.5.2.1 fragment spread target defined *)
| R_frag_unique        (* 5.5.1.1 fragment name uniqueness (of reached names) *)
| R_frag_type          (* 5.5.1.2/5.5.1.3 fragment spread type existence, fragments on composite types *)
| R_frag_cycle         (* 5.5.2.2 fragment spreads must not form cycles *)
| R_spread_possible    (* 5.5.2.3 fragment spread is possible *)
| R_merge              (* 5.3.2 field selection merging *)
| R_var_unique         (* 5.8.1 variable uniqueness *)
| R_var_input_type     (* 5.8.2 variables are input types *)
| R_var_default_const  (* default values are constant (the grammar's Value[Const]) *)
| R_var_default_value  (* 5.6.1 default values are of the variable's type *)
| R_var_defined        (* 5.8.3 all variable uses defined *)
| R_var_used           (* 5.8.4 all variables used *)
| R_dir_known          (* 5.7.1 directives are defined *)
| R_dir_location       (* 5.7.2 directives are in valid locations *)
| R_dir_unique         (* 5.7.3 directives are unique per location *)
| R_subscription_single          (* 5.2.3.1 single root field *)
| R_subscription_introspection.  (* 5.2.3.1 ... which is not an introspection field *)

(* ---- small list helpers ---- *)
Fixpoint nodup_names (l : list name) : bool :=
  match l with [] => true | x :: r => negb (mem_bytes x r) && nodup_names r end.
Fixpoint count_name (x : name) (l : list name) : nat :=
  match l with [] => O | y :: r => ((if bytes_eqb x y then 1 else 0) + count_name x r)%nat end.
Fixpoint find_iv (n : name) (l : list inputvalue_def) : option inputvalue_def :=
  match l with [] => None | d :: r => if bytes_eqb n (iv_name d) then Some d else find_iv n r end.
Fixpoint find_var (n : name) (l : list vardef) : option vardef :=
  match l with [] => None | d :: r => if bytes_eqb n (vd_name d) then Some d else find_var n r end.
Fixpoint find_dir (n : name) (l : list directive_def) : option directive_def :=
  match l with [] => None | d :: r => if bytes_eqb n (dd_name d) then Some d else find_dir n r end.
Fixpoint forall_pairs {A} (f : A -> A -> bool) (l : list A) : bool :=
  match l with [] => true | x :: r => forallb (f x) r && forall_pairs f r end.
Definition is_nil {A} (l : list A) : bool := match l with [] => true | _ => false end.
Definition is_some {A} (o : option A) : bool := match o with Some _ => true | None => false end.

(* ---- selection accessors ---- *)
Definition sel_is_field (s : selection) : bool := match s with SField _ _ _ _ _ => true | _ => false end.
Definition sel_fname (s : selection) : name := match s with SField _ n _ _ _ => n | _ => [] end.
Definition sel_args (s : selection) : list argument := match s with SField _ _ a _ _ => a | _ => [] end.
Definition sel_dirs (s : selection) : list directive :=
  match s with SField _ _ _ d _ => d | SInline _ d _ => d | SSpread _ d => d end.
Definition sel_subs (s : selection) : list selection :=
  match s with SField _ _ _ _ ss => ss | SInline _ _ ss => ss | SSpread _ _ => [] end.

(* every selection at any depth (untyped) *)
Fixpoint unodes (s : selection) : list selection :=
  s :: match s with
       | SField _ _ _ _ ss => flat_map unodes ss
       | SInline _ _ ss => flat_map unodes ss
       | SSpread _ _ => []
       end.
Definition spreads_of (sels : list selection) : list name :=
  flat_map (fun s => match s with SSpread n _ => [n] | _ => [] end) (flat_map unodes sels).

(* variables occurring in a value *)
Fixpoint value_vars (v : value) : list name :=
  match v with
  | VVar n => [n]
  | VList items => flat_map value_vars items
  | VObj fields =>
    (fix go (l : list (name * value)) : list name :=
       match l with [] => [] | (_, x) :: r => value_vars x ++ go r end) fields
  | _ => []
  end.
Definition args_vars (a : list argument) : list name := flat_map (fun kv => value_vars (snd kv)) a.
Definition dirs_vars (ds : list directive) : list name := flat_map (fun d => args_vars (d_args d)) ds.

(* structural equality of values; input object fields compared as sets of (unique) members *)
Fixpoint value_eqb (a b : value) {struct a} : bool :=
  match a, b with
  | VVar x, VVar y => bytes_eqb x y
  | VInt x, VInt y => bytes_eqb x y
  | VFloat x, VFloat y => bytes_eqb x y
  | VStr x bx, VStr y by_ => bytes_eqb x y && Bool.eqb bx by_
  | VBool x, VBool y => Bool.eqb x y
  | VNull, VNull => true
  | VEnum x, VEnum y => bytes_eqb x y
  | VList x, VList y =>
    (fix go (x y : list value) : bool :=
       match x, y with
       | [], [] => true
       | p :: x', q :: y' => value_eqb p q && go x' y'
       | _, _ => false
       end) x y
  | VObj x, VObj y =>
    Nat.eqb (length x) (length y) &&
    (fix go (x : list (name * value)) : bool :=
       match x with
       | [] => true
       | (k, p) :: x' =>
         (fix look (y : list (name * value)) : bool :=
            match y with
            | [] => false
            | (k', q) :: y' => if bytes_eqb k k' then value_eqb p q else look y'
            end) y && go x'
       end) x
  | _, _ => false
  end.
(* identical sets of arguments *)
Definition args_same (a b : list argument) : bool :=
  Nat.eqb (length a) (length b) &&
  forallb (fun kv => match assoc (fst kv) b with Some w => value_eqb (snd kv) w | None => false end) a.

(* Int literal within the 32 bit signed range *)
Definition int32_ok (raw : bytes) : bool :=
  match raw with
  | 45 :: ds => negb (is_nil ds) && forallb is_digit ds && (dec_value ds <=? 2147483648)
  | ds => negb (is_nil ds) && forallb is_digit ds && (dec_value ds <=? 2147483647)
  end.

(* AreTypesCompatible(variableType, locationType) *)
Fixpoint types_compatible (v l : ty) {struct v} : bool :=
  match l with
  | TNonNull l' => match v with TNonNull v' => types_compatible v' l' | _ => false end
  | _ =>
    match v with
    | TNonNull v' => types_compatible v' l
    | TList v' => match l with TList l' => types_compatible v' l' | _ => false end
    | TNamed a => match l with TNamed b => bytes_eqb a b | _ => false end
    end
  end.
Definition is_nonnull (t : ty) : bool := match t with TNonNull _ => true | _ => false end.
Definition has_nonnull_default (vd : vardef) : bool :=
  match vd_default vd with Some VNull => false | Some _ => true | None => false end.
(* IsVariableUsageAllowed *)
Definition var_allowed (vd : vardef) (loc : ty) (loc_has_default : bool) : bool :=
  match loc with
  | TNonNull l' =>
    if is_nonnull (vd_type vd) then types_compatible (vd_type vd) loc
    else (has_nonnull_default vd || loc_has_default) && types_compatible (vd_type vd) l'
  | _ => types_compatible (vd_type vd) loc
  end.

(* SameResponseShape, the wrapper part: unwrap non-null / list in lockstep *)
Fixpoint shape_ty (a b : ty) : option (name * name) :=
  match a, b with
  | TNonNull a', TNonNull b' => shape_ty a' b'
  | TList a', TList b' => shape_ty a' b'
  | TNamed x, TNamed y => Some (x, y)
  | _, _ => None
  end.

Section Spec.
  Variable S : schema.
  Variable frags : list fragment.       (* all fragment definitions of the document *)
  Variable vars : list vardef.          (* the selected operation's variable definitions *)

  Definition kind (n : name) : option type_kind := kind_of S n.
  Definition is_composite (n : name) : bool :=
    match kind n with Some KObject | Some KInterface | Some KUnion => true | _ => false end.
  Definition is_leaf (n : name) : bool :=
    match kind n with Some KScalar | Some KEnum => true | _ => false end.
  Definition is_input (n : name) : bool :=
    match kind n with Some KScalar | Some KEnum | Some KInputObject => true | _ => false end.
  Definition is_object (n : name) : bool :=
    match kind n with Some KObject => true | _ => false end.

  (* GetPossibleTypes *)
  Definition possible_types (n : name) : list name :=
    match find_type n (s_types S) with
    | Some t =>
      match td_kind t with
      | KObject => [n]
      | KInterface =>
        map td_name (filter (fun o => match td_kind o with
                                      | KObject => mem_bytes n (td_implements o)
                                      | _ => false
                                      end) (s_types S))
      | KUnion => td_members t
      | _ => []
      end
    | None => []
    end.
  Definition overlap (a b : name) : bool :=
    existsb (fun x => mem_bytes x (possible_types b)) (possible_types a).

  (* field definitions, including the meta fields *)
  Definition typename_def : field_def :=
    {| fd_name := s_typename; fd_args := []; fd_type := TNonNull (TNamed n_String); fd_dirs := [] |}.
  Definition schema_meta_def : field_def :=
    {| fd_name := n_schema; fd_args := []; fd_type := TNonNull (TNamed n_Schema); fd_dirs := [] |}.
  Definition type_meta_def : field_def :=
    {| fd_name := n_type;
       fd_args := [{| iv_name := n_name; iv_type := TNonNull (TNamed n_String); iv_default := None; iv_dirs := [] |}];
       fd_type := TNamed n_Type; fd_dirs := [] |}.
  Definition lookup_field (parent fname : name) : option field_def :=
    if bytes_eqb fname s_typename then (if is_composite parent then Some typename_def else None)
    else
      match find_type parent (s_types S) with
      | Some td =>
        match td_kind td with
        | KObject =>
          match find_field fname (td_fields td) with
          | Some fd => Some fd
          | None =>
            if bytes_eqb parent (s_query S) then
              if bytes_eqb fname n_schema then Some schema_meta_def
              else if bytes_eqb fname n_type then Some type_meta_def
              else None
            else None
          end
        | KInterface => find_field fname (td_fields td)
        | _ => None
        end
      | None => None
      end.

  (* ---- values ---- *)
  Definition is_oneof (td : type_def) : bool :=
    existsb (fun d => bytes_eqb (d_name d) n_oneOf) (td_dirs td).
  Definition iv_required (d : inputvalue_def) : bool :=
    is_nonnull (iv_type d) && negb (is_some (iv_default d)).

  (* [vp = false]: "values of correct type" (variables are not looked at);
     [vp = true]: "variable usages allowed" (literal leaves are not looked at).
     [ld]: the location has a default value. *)
  Fixpoint value_ok (vp : bool) (v : value) : ty -> bool -> bool :=
    fix on_ty (t : ty) (ld : bool) {struct t} : bool :=
      match v with
      | VVar x =>
        if vp then match find_var x vars with Some vd => var_allowed vd t ld | None => true end
        else true
      | _ =>
        match t with
        | TNonNull t' => match v with VNull => vp | _ => on_ty t' false end
        | TList t' =>
          match v with
          | VNull => true
          | VList items =>
            (fix go (l : list value) : bool :=
               match l with [] => true | x :: r => value_ok vp x t' false && go r end) items
          | _ => on_ty t' false
          end
        | TNamed n =>
          match v with
          | VNull => true
          | _ =>
            match kind n with
            | Some KScalar =>
              vp ||
              (if bytes_eqb n n_Int then match v with VInt r => int32_ok r | _ => false end
               else if bytes_eqb n n_Float then match v with VInt _ | VFloat _ => true | _ => false end
               else if bytes_eqb n n_String then match v with VStr _ _ => true | _ => false end
               else if bytes_eqb n n_Boolean then match v with VBool _ => true | _ => false end
               else if bytes_eqb n n_ID then match v with VStr _ _ | VInt _ => true | _ => false end
               else true)
            | Some KEnum =>
              vp ||
              match v, find_type n (s_types S) with
              | VEnum e, Some td => mem_bytes e (map ev_name (td_enum_values td))
              | _, _ => false
              end
            | Some KInputObject =>
              match v, find_type n (s_types S) with
              | VObj fields, Some td =>
                let defs := td_input_fields td in
                (vp || nodup_names (map fst fields)) &&
                (fix go (l : list (name * value)) : bool :=
                   match l with
                   | [] => true
                   | (k, x) :: r =>
                     match find_iv k defs with
                     | Some d => value_ok vp x (iv_type d) (is_some (iv_default d))
                     | None => vp
                     end && go r
                   end) fields &&
                (vp || forallb (fun d => negb (iv_required d) || mem_bytes (iv_name d) (map fst fields)) defs) &&
                (if is_oneof td then
                   match fields with
                   | [(_, x)] =>
                     match x with
                     | VNull => vp
                     | VVar y => if vp then match find_var y vars with
                                            | Some vd => is_nonnull (vd_type vd)
                                            | None => true
                                            end
                                 else true
                     | _ => true
                     end
                   | _ => vp
                   end
                 else true)
              | _, _ => vp
              end
            | _ => vp
            end
          end
        end
      end.

  (* ---- argument lists against their definitions ---- *)
  Definition argsite := (list inputvalue_def * list argument)%type.
  Definition args_known (st : argsite) : bool :=
    forallb (fun kv => is_some (find_iv (fst kv) (fst st))) (snd st).
  Definition args_unique (st : argsite) : bool := nodup_names (map fst (snd st)).
  Definition args_required (st : argsite) : bool :=
    forallb (fun d => negb (iv_required d) ||
                      match assoc (iv_name d) (snd st) with
                      | Some VNull => false
                      | Some _ => true
                      | None => false
                      end) (fst st).
  Definition args_values (vp : bool) (st : argsite) : bool :=
    forallb (fun kv => match find_iv (fst kv) (fst st) with
                       | Some d => value_ok vp (snd kv) (iv_type d) (is_some (iv_default d))
                       | None => true
                       end) (snd st).

  (* ---- typed nodes ---- *)
  Definition inline_type (parent : name) (cond : option name) : name :=
    match cond with Some c => c | None => parent end.
  Fixpoint nodes (parent : name) (s : selection) : list (name * selection) :=
    (parent, s) ::
    match s with
    | SField _ fname _ _ sels =>
      match lookup_field parent fname with
      | Some fd => flat_map (nodes (named_of (fd_type fd))) sels
      | None => []
      end
    | SInline cond _ sels => flat_map (nodes (inline_type parent cond)) sels
    | SSpread _ _ => []
    end.

  Definition node_field_exists (nd : name * selection) : bool :=
    match snd nd with
    | SField _ fname _ _ _ => is_some (lookup_field (fst nd) fname)
    | _ => true
    end.
  Definition node_leaf_shape (nd : name * selection) : bool :=
    match snd nd with
    | SField _ fname _ _ sels =>
      match lookup_field (fst nd) fname with
      | Some fd =>
        let t := named_of (fd_type fd) in
        if is_leaf t then is_nil sels
        else if is_composite t then negb (is_nil sels)
        else false
      | None => true
      end
    | _ => true
    end.
  Definition node_frag_type (nd : name * selection) : bool :=
    match snd nd with
    | SInline (Some c) _ _ => is_composite c
    | _ => true
    end.
  Definition node_spread_possible (nd : name * selection) : bool :=
    match snd nd with
    | SInline (Some c) _ _ => overlap (fst nd) c
    | SSpread n _ => match find_frag n frags with Some fr => overlap (fst nd) (fr_type fr) | None => true end
    | _ => true
    end.
  Definition node_argsite (nd : name * selection) : list argsite :=
    match snd nd with
    | SField _ fname args _ _ =>
      match lookup_field (fst nd) fname with Some fd => [(fd_args fd, args)] | None => [] end
    | _ => []
    end.

  (* ---- directives ---- *)
  Definition dirsite := (name * list directive)%type.   (* location, directives *)
  Definition sel_loc (s : selection) : name :=
    match s with SField _ _ _ _ _ => loc_FIELD | SInline _ _ _ => loc_INLINE_FRAGMENT | SSpread _ _ => loc_FRAGMENT_SPREAD end.
  Definition dirs_known (st : dirsite) : bool :=
    forallb (fun d => is_some (find_dir (d_name d) (s_directives S))) (snd st).
  Definition dirs_location (st : dirsite) : bool :=
    forallb (fun d => match find_dir (d_name d) (s_directives S) with
                      | Some dd => mem_bytes (fst st) (dd_locations dd)
                      | None => true
                      end) (snd st).
  Definition dirs_unique (st : dirsite) : bool :=
    forallb (fun d => match find_dir (d_name d) (s_directives S) with
                      | Some dd => dd_repeatable dd || Nat.leb (count_name (d_name d) (map d_name (snd st))) 1
                      | None => true
                      end) (snd st).
  Definition dirsite_argsites (st : dirsite) : list argsite :=
    flat_map (fun d => match find_dir (d_name d) (s_directives S) with
                       | Some dd => [(dd_args dd, d_args d)]
                       | None => []
                       end) (snd st).

  (* ---- reachable fragments ---- *)
  Fixpoint reach (fuel : nat) (todo seen : list name) : list name :=
    match fuel with
    | O => seen
    | Datatypes.S f =>
      match todo with
      | [] => seen
      | n :: rest =>
        if mem_bytes n seen then reach f rest seen
        else match find_frag n frags with
             | Some fr => reach f (spreads_of (fr_sels fr) ++ rest) (n :: seen)
             | None => reach f rest (n :: seen)
             end
      end
    end.
  Definition frag_defs (names : list name) : list fragment :=
    flat_map (fun n => match find_frag n frags with Some fr => [fr] | None => [] end) names.
  (* closure check (translation validation of [reach]: fails only if the fuel was insufficient) *)
  Definition closed_b (root : list selection) (R : list name) : bool :=
    forallb (fun m => mem_bytes m R) (spreads_of root) &&
    forallb (fun fr => forallb (fun m => mem_bytes m R) (spreads_of (fr_sels fr))) (frag_defs R).

  (* ---- field selection merging ---- *)
  Definition fieldctx := (name * selection)%type.       (* parent type, field selection *)
  Fixpoint collect (fuel : nat) (parent : name) (sels : list selection) {struct fuel} : option (list fieldctx) :=
    match sels with
    | [] => Some []
    | s :: rest =>
      match fuel with
      | O => None
      | Datatypes.S f =>
        let here :=
          match s with
          | SField _ _ _ _ _ => Some [(parent, s)]
          | SInline cond _ sub => collect f (inline_type parent cond) sub
          | SSpread n _ =>
            match find_frag n frags with
            | Some fr => collect f (fr_type fr) (fr_sels fr)
            | None => Some []
            end
          end in
        match here, collect f parent rest with
        | Some a, Some b => Some (a ++ b)
        | _, _ => None
        end
      end
    end.
  Definition fc_key (x : fieldctx) : name := sel_key (snd x).
  Definition fc_type (x : fieldctx) : option ty :=
    match lookup_field (fst x) (sel_fname (snd x)) with Some fd => Some (fd_type fd) | None => None end.
  (* the fields selected below x (None: out of fuel); nothing below a field that does not exist *)
  Definition fc_sub (cf : nat) (x : fieldctx) : option (list fieldctx) :=
    match fc_type x with
    | Some t => collect cf (named_of t) (sel_subs (snd x))
    | None => Some []
    end.
  Definition same_key (x y : fieldctx) : bool := bytes_eqb (fc_key x) (fc_key y).

  Section Merge.
    Variable cf : nat.     (* fuel for [collect] *)
    (* SameResponseShape *)
    Fixpoint shape_ok (fuel : nat) (x y : fieldctx) : bool :=
      match fuel with
      | O => false
      | Datatypes.S f =>
        match fc_type x, fc_type y with
        | Some ta, Some tb =>
          match shape_ty ta tb with
          | None => false
          | Some (na, nb) =>
            if is_leaf na || is_leaf nb then bytes_eqb na nb
            else
              match fc_sub cf x, fc_sub cf y with
              | Some cx, Some cy =>
                forall_pairs (fun p q => negb (same_key p q) || shape_ok f p q) (cx ++ cy)
              | _, _ => false
              end
          end
        | _, _ => true
        end
      end.
    Definition forced (x y : fieldctx) : bool :=
      bytes_eqb (fst x) (fst y) || negb (is_object (fst x)) || negb (is_object (fst y)).
    (* FieldsInSetCanMerge *)
    Fixpoint pairs_ok (fuel : nat) (l : list fieldctx) : bool :=
      match fuel with
      | O => is_nil l
      | Datatypes.S f =>
        forall_pairs (fun x y =>
          negb (same_key x y) ||
          (shape_ok (Datatypes.S f) x y &&
           (negb (forced x y) ||
            (bytes_eqb (sel_fname (snd x)) (sel_fname (snd y)) &&
             args_same (sel_args (snd x)) (sel_args (snd y)) &&
             match fc_sub cf x, fc_sub cf y with
             | Some cx, Some cy => pairs_ok f (cx ++ cy)
             | _, _ => false
             end)))) l
      end.
    (* the rule applied to the set and to every selection set below it *)
    Fixpoint merge_ok (fuel : nat) (l : list fieldctx) : bool :=
      match fuel with
      | O => is_nil l
      | Datatypes.S f =>
        pairs_ok (Datatypes.S f) l &&
        forallb (fun x => match fc_sub cf x with Some cx => merge_ok f cx | None => false end) l
      end.
  End Merge.

  (* ---- subscription root ---- *)
  Definition starts_with_uu (n : name) : bool :=
    match n with 95 :: 95 :: _ => true | _ => false end.
End Spec.

(* ---- the whole check ---- *)
Definition op_loc (k : opkind) : name :=
  match k with OpQuery => loc_QUERY | OpMutation => loc_MUTATION | OpSubscription => loc_SUBSCRIPTION end.

Record ctx := {
  cx_op : operation; cx_root : name; cx_frags : list fragment;
  cx_reached : list name;                     (* names of the fragments the operation reaches (incl. undefined ones) *)
  cx_fuel : nat }.

Definition mk_ctx (S : schema) (d : document) (opname : option name) : option ctx :=
  match pick_op d opname with
  | None => None
  | Some o =>
    match root_type S (op_kind o) with
    | None => None
    | Some rt =>
      let fuel := Datatypes.S (Datatypes.S (doc_size d + doc_size d)) in
      Some {| cx_op := o; cx_root := rt; cx_frags := doc_frags d;
              cx_reached := reach (doc_frags d) fuel (spreads_of (op_sels o)) [];
              cx_fuel := fuel |}
    end
  end.

Section Checks.
  Variable S : schema.
  Variable c : ctx.
  Let o := cx_op c.
  Let fr := cx_frags c.
  Let vs := op_vars o.
  Let rdefs := frag_defs fr (cx_reached c).

  (* typed nodes of the operation and of every reached fragment *)
  Definition all_nodes : list (name * selection) :=
    flat_map (nodes S (cx_root c)) (op_sels o) ++
    flat_map (fun f => flat_map (nodes S (fr_type f)) (fr_sels f)) rdefs.
  (* every selection, typed or not *)
  Definition all_unodes : list selection :=
    flat_map unodes (op_sels o) ++ flat_map (fun f => flat_map unodes (fr_sels f)) rdefs.
  Definition all_dirsites : list dirsite :=
    (op_loc (op_kind o), op_dirs o) ::
    map (fun vd => (loc_VARIABLE_DEFINITION, vd_dirs vd)) vs ++
    map (fun f => (loc_FRAGMENT_DEFINITION, fr_dirs f)) rdefs ++
    map (fun s => (sel_loc s, sel_dirs s)) all_unodes.
  Definition field_argsites : list argsite := flat_map (node_argsite S) all_nodes.
  Definition dir_argsites : list argsite := flat_map (dirsite_argsites S) all_dirsites.
  Definition all_argsites : list argsite := field_argsites ++ dir_argsites.
  Definition used_vars : list name :=
    dirs_vars (op_dirs o) ++ flat_map (fun f => dirs_vars (fr_dirs f)) rdefs ++
    flat_map (fun s => args_vars (sel_args s) ++ dirs_vars (sel_dirs s)) all_unodes.
  Definition root_fields : option (list fieldctx) := collect fr (cx_fuel c) (cx_root c) (op_sels o).

  Definition checks : list (rule * bool) :=
    [ (R_operation, is_object S (cx_root c));
      (R_field_exists, forallb (node_field_exists S) all_nodes);
      (R_leaf_shape, forallb (node_leaf_shape S) all_nodes);
      (R_arg_known, forallb args_known all_argsites);
      (R_arg_unique, forallb args_unique all_argsites);
      (R_arg_required, forallb args_required field_argsites);
      (R_dir_arg_required, forallb args_required dir_argsites);
      (R_value, forallb (args_values S vs false) all_argsites);
      (R_var_position, forallb (args_values S vs true) all_argsites);
      (R_frag_known, forallb (fun n => is_some (find_frag n fr)) (cx_reached c) &&
                     closed_b fr (op_sels o) (cx_reached c));
      (R_frag_unique, forallb (fun n => Nat.leb (count_name n (map fr_name fr)) 1) (cx_reached c));
      (R_frag_type, forallb (fun f => is_composite S (fr_type f)) rdefs && forallb (node_frag_type S) all_nodes);
      (R_frag_cycle, forallb (fun f => negb (mem_bytes (fr_name f)
                                             (reach fr (cx_fuel c) (spreads_of (fr_sels f)) []))) rdefs);
      (R_spread_possible, forallb (node_spread_possible S fr) all_nodes);
      (R_merge, match root_fields with
                | Some l => merge_ok S fr (cx_fuel c) (cx_fuel c) l
                | None => false
                end);
      (R_var_unique, nodup_names (map vd_name vs));
      (R_var_input_type, forallb (fun vd => is_input S (named_of (vd_type vd))) vs);
      (R_var_default_const, forallb (fun vd => match vd_default vd with
                                               | Some dv => is_nil (value_vars dv)
                                               | None => true
                                               end) vs);
      (R_var_default_value, forallb (fun vd => match vd_default vd with
                                               | Some dv => value_ok S [] false dv (vd_type vd) false
                                               | None => true
                                               end) vs);
      (R_var_defined, forallb (fun n => is_some (find_var n vs)) used_vars);
      (R_var_used, forallb (fun vd => mem_bytes (vd_name vd) used_vars) vs);
      (R_dir_known, forallb (dirs_known S) all_dirsites);
      (R_dir_location, forallb (dirs_location S) all_dirsites);
      (R_dir_unique, forallb (dirs_unique S) all_dirsites);
      (R_subscription_single,
       match op_kind o with
       | OpSubscription =>
         match root_fields with
         | Some (x :: l) => forallb (same_key x) l
         | _ => false
         end
       | _ => true
       end);
      (R_subscription_introspection,
       match op_kind o with
       | OpSubscription =>
         match root_fields with
         | Some l => negb (existsb (fun x => starts_with_uu (sel_fname (snd x))) l)
         | None => true
         end
       | _ => true
       end) ].
End Checks.

Definition spec_report (S : schema) (d : document) (opname : option name) : list rule :=
  match mk_ctx S d opname with
  | None => [R_operation]
  | Some c => map fst (filter (fun rb => negb (snd rb)) (checks S c))
  end.
Definition spec_valid_b (S : schema) (d : document) (opname : option name) : bool :=
  match mk_ctx S d opname with
  | None => false
  | Some c => forallb snd (checks S c)
  end.

(* ---- side conditions of the execution-safety theorem ----
   Validation presupposes a valid schema (spec section 3).  [schema_wf_b] is the part of schema
   validity execution safety depends on: implementing types have the fields of their interfaces
   with covariant (sub)types and list the interfaces transitively, only object and interface types
   implement, union members are object types, and no type is called _Entity (the reference
   executor treats that name as "any entity").  [universe_wf_b]: every entity of the data universe
   has an object type of the schema and every root type has its root entity. *)
Definition subtype_b (S : schema) (n n' : name) : bool :=
  bytes_eqb n n' ||
  match find_type n' (s_types S), find_type n (s_types S) with
  | Some t', Some t =>
    match td_kind t' with
    | KInterface => mem_bytes n' (td_implements t)
    | KUnion => mem_bytes n (td_members t')
    | _ => false
    end
  | _, _ => false
  end.
Definition implements_ok (S : schema) (t : type_def) : bool :=
  forallb (fun i =>
    match find_type i (s_types S) with
    | Some ti =>
      match td_kind ti with
      | KInterface =>
        forallb (fun f => match find_field (fd_name f) (td_fields t) with
                          | Some g => subtype_b S (named_of (fd_type g)) (named_of (fd_type f))
                          | None => false
                          end) (td_fields ti) &&
        forallb (fun i' => mem_bytes i' (td_implements t)) (td_implements ti)
      | _ => false
      end
    | None => false
    end) (td_implements t).
Definition type_wf (S : schema) (t : type_def) : bool :=
  match td_kind t with
  | KObject | KInterface => implements_ok S t
  | KUnion =>
    is_nil (td_implements t) &&
    forallb (fun m => match find_type m (s_types S) with
                      | Some tm => match td_kind tm with KObject => true | _ => false end
                      | None => false
                      end) (td_members t)
  | _ => is_nil (td_implements t)
  end.
Definition schema_wf_b (S : schema) : bool :=
  forallb (type_wf S) (s_types S) && negb (is_some (find_type n_Entity (s_types S))).
Definition schema_roots (S : schema) : list name :=
  s_query S :: match s_mutation S with Some m => [m] | None => [] end ++
  match s_subscription S with Some m => [m] | None => [] end.
Definition universe_wf_b (S : schema) (U : universe) : bool :=
  forallb (fun e => match find_type (en_type e) (s_types S) with
                    | Some t => match td_kind t with KObject => true | _ => false end
                    | None => false
                    end) U &&
  forallb (fun rt => is_some (find_entity U rt [])) (schema_roots S).
