(* C04 proofs, part 8: directive lists in the normaliser's merge / de-duplication step.
   ast.DirectiveSetsAreEqual matches every left directive with a DISTINCT equal right one
   (directives may be repeatable); the model's [go_dirs_eqb_multiset] does the same.  Whenever the
   step merges two selections (or drops a leaf field as a duplicate) their directive lists are
   therefore equal as multisets -- [dirs_matched]: some permutation of the right list is pointwise
   equal to the left list -- so no directive application disappears without an equal one
   surviving.  The set-semantics variant (seeded regression C04-m7) is refuted: it equates
   [@t(k:1), @t(k:1)] with [@t(k:1), @t(k:"x")], and the merge step built on it turns spec-invalid
   documents into spec-valid ones before validation. *)
From Coq Require Import List NArith Bool Permutation.
From Gv Require Import lib.Bytes lib.Json lib.Gql lib.Exec C04.Spec C04.Model C04.ProofsBasic C04.ProofsRefute C04.ProofsOverlap.
Import ListNotations.
Open Scope N_scope.

(* pairwise-distinct matching: b can be reordered so that it is pointwise equal to a *)
Definition dirs_matched (Q : quirks) (a b : list directive) : Prop :=
  exists p, Permutation b p /\ Forall2 (fun x y => go_dir_eqb Q x y = true) a p.

Lemma remove_first_perm : forall Q d l l',
  remove_first Q d l = Some l' -> exists x, go_dir_eqb Q d x = true /\ Permutation l (x :: l').
Proof.
  intros Q d. induction l as [|y r IH]; intros l' H; simpl in H; [discriminate|].
  destruct (go_dir_eqb Q d y) eqn:E.
  - inversion H; subst. exists y. split; auto.
  - destruct (remove_first Q d r) as [r'|] eqn:Er; [|discriminate]. inversion H; subst.
    destruct (IH r' eq_refl) as [x [Hx Hp]]. exists x. split; auto.
    eapply Permutation_trans. apply perm_skip. exact Hp. apply perm_swap.
Qed.

Lemma multiset_matched : forall Q a b, go_dirs_eqb_multiset Q a b = true -> dirs_matched Q a b.
Proof.
  intros Q. induction a as [|d a IH]; intros b H; simpl in H.
  - destruct b; [|discriminate]. exists []. split; constructor.
  - destruct (remove_first Q d b) as [b'|] eqn:Er; [|discriminate].
    destruct (remove_first_perm Q d b b' Er) as [x [Hx Hp]].
    destruct (IH b' H) as [p [Hp' HF]].
    exists (x :: p). split.
    + eapply Permutation_trans. exact Hp. apply perm_skip. exact Hp'.
    + constructor; auto.
Qed.

Lemma go_dirs_eqb_go : forall a b, go_dirs_eqb go_quirks a b = go_dirs_eqb_multiset go_quirks a b.
Proof. reflexivity. Qed.

Lemma dirs_matched_length : forall Q a b, dirs_matched Q a b -> length a = length b.
Proof.
  intros Q a b [p [Hp HF]]. rewrite (Permutation_length Hp). clear Hp.
  induction HF; simpl; [reflexivity | f_equal; assumption].
Qed.

(* every application on the right is equal to an application on the left *)
Lemma dirs_matched_covers : forall Q a b, dirs_matched Q a b ->
  forall y, In y b -> exists x, In x a /\ go_dir_eqb Q x y = true.
Proof.
  intros Q a b [p [Hp HF]] y Hy. apply (Permutation_in _ Hp) in Hy. clear Hp.
  induction HF; simpl in *; [contradiction|].
  destruct Hy as [Hy|Hy].
  - subst. exists x. auto.
  - destruct (IHHF Hy) as [x0 [H1 H2]]. exists x0. auto.
Qed.

(* the merge step: fields with sub-selections, inline fragments *)
Lemma fixed_merge_requires_equal_directives : forall x y,
  can_merge go_quirks true x y = true -> dirs_matched go_quirks (sel_dirs x) (sel_dirs y).
Proof.
  intros x y H. destruct x as [a n args dirs ss|c dirs ss|n dirs]; destruct y as [a' n' args' dirs' ss'|c' dirs' ss'|n' dirs'];
    simpl in H; try discriminate; try (destruct ss; discriminate).
  - destruct ss; try discriminate. destruct ss'; try discriminate.
    apply andb_true_iff in H. destruct H as [_ H]. apply multiset_matched. exact H.
  - apply andb_true_iff in H. destruct H as [_ H]. apply multiset_matched. exact H.
Qed.

(* the de-duplication step: leaf fields *)
Lemma fixed_dedup_requires_equal_directives : forall x y,
  leaf_equal go_quirks x y = true -> dirs_matched go_quirks (sel_dirs x) (sel_dirs y).
Proof.
  intros x y H. destruct x as [a n args dirs ss|c dirs ss|n dirs]; destruct y as [a' n' args' dirs' ss'|c' dirs' ss'|n' dirs'];
    simpl in H; try discriminate; try (destruct ss; discriminate).
  destruct ss; try discriminate. destruct ss'; try discriminate.
  apply andb_true_iff in H. destruct H as [_ H]. apply multiset_matched. exact H.
Qed.

Lemma fixed_merge_loses_no_directive : forall x y,
  can_merge go_quirks true x y = true \/ leaf_equal go_quirks x y = true ->
  length (sel_dirs x) = length (sel_dirs y) /\
  forall d', In d' (sel_dirs y) -> exists d, In d (sel_dirs x) /\ go_dir_eqb go_quirks d d' = true.
Proof.
  intros x y H.
  assert (M : dirs_matched go_quirks (sel_dirs x) (sel_dirs y)).
  { destruct H; [apply fixed_merge_requires_equal_directives|apply fixed_dedup_requires_equal_directives]; assumption. }
  split. exact (dirs_matched_length _ _ _ M). exact (dirs_matched_covers _ _ _ M).
Qed.

(* what "equal" means for two applications: the same directive, the same argument names, equal values *)
Lemma dir_eq_sound_proof : forall d d', go_dir_eqb go_quirks d d' = true ->
  d_name d = d_name d' /\ length (d_args d) = length (d_args d') /\
  forall k, match assoc k (d_args d), assoc k (d_args d') with
            | Some v, Some w => go_value_eqb v w = true
            | None, None => True
            | _, _ => False
            end.
Proof.
  intros d d' H. unfold go_dir_eqb in H. apply andb_true_iff in H. destruct H as [Hn Ha].
  split. apply bytes_eqb_eq. exact Hn. apply args_byname_sound_proof. exact Ha.
Qed.

(* ---- the set-semantics variant ---- *)
Definition n_t : name := [116].
Definition ak : name := [107].
Definition arg_k : inputvalue_def := {| iv_name := ak; iv_type := TNonNull (TNamed n_Int); iv_default := None; iv_dirs := [] |}.
(* S0 + directive @t(k: Int!) repeatable on FIELD | INLINE_FRAGMENT *)
Definition S2 : schema :=
  {| s_query := s_query S0; s_mutation := None; s_subscription := None; s_types := s_types S0;
     s_directives := [ {| dd_name := n_t; dd_args := [arg_k]; dd_locations := [loc_FIELD; loc_INLINE_FRAGMENT]; dd_repeatable := true |} ] |}.
Definition t_ok : directive := {| d_name := n_t; d_args := [(ak, VInt [49])] |}.                 (* @t(k: 1) *)
Definition t_bad : directive := {| d_name := n_t; d_args := [(ak, VStr [120] false)] |}.         (* @t(k: "x") *)
Definition dfld (n : name) (dirs : list directive) (ss : list selection) : selection := SField None n [] dirs ss.

(* { i { id @t(k:1) @t(k:1)  id @t(k:1) @t(k:"x") } }              (leaf: field de-duplication) *)
Definition w_dirs_leaf : document :=
  [mk_query [] [fld fi [] [dfld fid [t_ok; t_ok] []; dfld fid [t_ok; t_bad] []]]].
(* { i @t(k:1) @t(k:1) { id }  i @t(k:"x") @t(k:1) { id } }         (field with selections: merging) *)
Definition w_dirs_composite : document :=
  [mk_query [] [dfld fi [t_ok; t_ok] [fld fid [] []]; dfld fi [t_bad; t_ok] [fld fid [] []]]].
(* { i { ... on A @t(k:1) @t(k:1) { b }  ... on A @t(k:1) @t(k:"x") { c } } }   (inline fragments) *)
Definition w_dirs_inline : document :=
  [mk_query [] [fld fi [] [SInline (Some nA) [t_ok; t_ok] [fld fb [] []]; SInline (Some nA) [t_ok; t_bad] [fld fc [] []]]]].
(* the same selections with equal multisets: { i { id @t(k:1) @t(k:1)  id @t(k:1) @t(k:1) } } *)
Definition w_dirs_equal : document :=
  [mk_query [] [fld fi [] [dfld fid [t_ok; t_ok] []; dfld fid [t_ok; t_ok] []]]].

Lemma S2_wf : schema_wf_b S2 = true.
Proof. vm_compute. reflexivity. Qed.

Lemma set_variant_not_matching :
  go_dirs_eqb set_quirks [t_ok; t_ok] [t_ok; t_bad] = true /\
  go_dirs_eqb go_quirks [t_ok; t_ok] [t_ok; t_bad] = false /\
  ~ dirs_matched go_quirks [t_ok; t_ok] [t_ok; t_bad].
Proof.
  split; [vm_compute; reflexivity|]. split; [vm_compute; reflexivity|].
  intros [p [Hp HF]].
  assert (Hb : In t_bad p) by (apply (Permutation_in _ Hp); simpl; auto).
  inversion HF as [|x1 y1 l1 l1' H1 HF1]; subst. inversion HF1 as [|x2 y2 l2 l2' H2 HF2]; subst. inversion HF2; subst.
  simpl in Hb. destruct Hb as [Hb|[Hb|Hb]]; try contradiction; subst.
  - vm_compute in H1. discriminate.
  - vm_compute in H2. discriminate.
Qed.

Lemma merge_dirs_as_set_refuted_proof :
  forall d, In d [w_dirs_leaf; w_dirs_composite; w_dirs_inline] ->
    spec_report S2 d None = [R_value] /\                            (* the specification rejects d: @t(k: "x") *)
    spec_valid_b S2 (merge_fields_dirs_as_set d) None = true /\      (* the set variant hides the bad application *)
    merge_fields d = d /\                                            (* the model of the code leaves d alone ... *)
    spec_report S2 (merge_fields d) None = [R_value].                (* ... so the error reaches the validator *)
Proof.
  intros d H. simpl in H.
  repeat (destruct H as [H|H]; [subst d; vm_compute; repeat split; reflexivity|]). contradiction.
Qed.

Lemma merge_dirs_as_set_refuted_full :
  (exists a b, go_dirs_eqb set_quirks a b = true /\ go_dirs_eqb go_quirks a b = false /\
     ~ exists p, Permutation b p /\ Forall2 (fun d d' => go_dir_eqb go_quirks d d' = true) a p) /\
  forall d, In d [w_dirs_leaf; w_dirs_composite; w_dirs_inline] ->
    spec_report S2 d None = [R_value] /\
    spec_valid_b S2 (merge_fields_dirs_as_set d) None = true /\
    merge_fields d = d /\ spec_report S2 (merge_fields d) None = [R_value].
Proof.
  split.
  - exists [t_ok; t_ok], [t_ok; t_bad]. exact set_variant_not_matching.
  - exact merge_dirs_as_set_refuted_proof.
Qed.

(* equal multisets are still merged / de-duplicated *)
Lemma merge_equal_dirs_witness :
  spec_valid_b S2 w_dirs_equal None = true /\
  merge_fields w_dirs_equal = [mk_query [] [fld fi [] [dfld fid [t_ok; t_ok] []]]].
Proof. vm_compute. split; reflexivity. Qed.
