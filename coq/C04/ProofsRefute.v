(* C04 proofs, part 6: witnesses.  The historical refutation (normalisation before a156714 merged
   fields with different arguments, turning a spec-invalid document into a spec-valid one), the
   behaviour of the repaired merge step on it, and non-trivial examples for the hypotheses of the
   theorems. *)
From Coq Require Import List NArith Bool.
From Gv Require Import lib.Bytes lib.Json lib.Gql lib.Exec C04.Spec C04.Model C04.ProofsBasic.
Import ListNotations.
Open Scope N_scope.

Definition nQuery : name := [81;117;101;114;121].
Definition nA : name := [65].
Definition nB : name := [66].
Definition nI : name := [73].
Definition fa : name := [97].
Definition fb : name := [98].
Definition fc : name := [99].
Definition fi : name := [105].
Definition ax : name := [120].
Definition fid : name := [105;100].

Definition mk_fd (n : name) (args : list inputvalue_def) (t : ty) : field_def :=
  {| fd_name := n; fd_args := args; fd_type := t; fd_dirs := [] |}.
Definition mk_obj (n : name) (impl : list name) (fs : list field_def) : type_def :=
  {| td_kind := KObject; td_name := n; td_implements := impl; td_fields := fs; td_members := [];
     td_enum_values := []; td_input_fields := []; td_dirs := [] |}.
Definition mk_iface (n : name) (fs : list field_def) : type_def :=
  {| td_kind := KInterface; td_name := n; td_implements := []; td_fields := fs; td_members := [];
     td_enum_values := []; td_input_fields := []; td_dirs := [] |}.
Definition arg_x : inputvalue_def := {| iv_name := ax; iv_type := TNamed n_Int; iv_default := None; iv_dirs := [] |}.

(* type Query { a(x: Int): A  i: I }  interface I { id: ID }
   type A implements I { b: Int c: Int id: ID }  type B implements I { id: ID b: Int } *)
Definition S0 : schema :=
  {| s_query := nQuery; s_mutation := None; s_subscription := None;
     s_types := [ mk_obj nQuery [] [mk_fd fa [arg_x] (TNamed nA); mk_fd fi [] (TNamed nI)];
                  mk_iface nI [mk_fd fid [] (TNamed n_ID)];
                  mk_obj nA [nI] [mk_fd fb [] (TNamed n_Int); mk_fd fc [] (TNamed n_Int); mk_fd fid [] (TNamed n_ID)];
                  mk_obj nB [nI] [mk_fd fid [] (TNamed n_ID); mk_fd fb [] (TNamed n_Int)] ];
     s_directives := [] |}.

Definition fld (n : name) (args : list argument) (ss : list selection) : selection := SField None n args [] ss.
Definition mk_query (vars : list vardef) (sels : list selection) : definition :=
  DOp {| op_kind := OpQuery; op_name := None; op_vars := vars; op_dirs := []; op_sels := sels |}.

(* { a(x:1){b} a(x:2){c} } *)
Definition witness : document :=
  [mk_query [] [fld fa [(ax, VInt [49])] [fld fb [] []]; fld fa [(ax, VInt [50])] [fld fc [] []]]].
(* { a(x:1){b c} } *)
Definition witness_merged : document :=
  [mk_query [] [fld fa [(ax, VInt [49])] [fld fb [] []; fld fc [] []]]].

Lemma witness_invalid : spec_valid_b S0 witness None = false.
Proof. vm_compute. reflexivity. Qed.
Lemma witness_rule : spec_report S0 witness None = [R_merge].
Proof. vm_compute. reflexivity. Qed.
Lemma prefix_merges_witness : merge_fields_ignoring_args witness = witness_merged.
Proof. vm_compute. reflexivity. Qed.
Lemma merged_witness_valid : spec_valid_b S0 witness_merged None = true.
Proof. vm_compute. reflexivity. Qed.
Lemma fixed_keeps_witness : merge_fields witness = witness.
Proof. vm_compute. reflexivity. Qed.

Lemma accept_iff_valid_refuted_prefix_proof :
  exists S d, spec_valid_b S (merge_fields_ignoring_args d) None = true /\ spec_valid_b S d None = false.
Proof.
  exists S0, witness. split.
  - rewrite prefix_merges_witness. apply merged_witness_valid.
  - apply witness_invalid.
Qed.

(* the current (repaired) admission sequence still accepts the witness: the repaired merge step
   leaves it alone, and the validator's FieldSelectionMerging rule, which compares names and
   arguments of scalar-typed fields only, finds nothing wrong with two [a] fields of type A *)
Lemma overlap_rule_accepts_witness : go_overlap_ok S0 (merge_fields witness) = true.
Proof. vm_compute. reflexivity. Qed.
Lemma accept_iff_valid_refuted_proof :
  exists S d, go_overlap_ok S (merge_fields d) = true /\ spec_valid_b S d None = false.
Proof. exists S0, witness. split. apply overlap_rule_accepts_witness. apply witness_invalid. Qed.
(* ... while a conflict between scalar-typed fields is caught by the model of the rule *)
Definition leaf_conflict : document :=
  [mk_query [] [fld fa [] [SField (Some [122]) fb [] [] []; SField (Some [122]) fc [] [] []]]].
Lemma overlap_rule_rejects_leaf_conflict :
  go_overlap_ok S0 (merge_fields leaf_conflict) = false /\ spec_valid_b S0 leaf_conflict None = false.
Proof. vm_compute. split; reflexivity. Qed.

(* the repaired step never merges two fields whose argument lists differ *)
Lemma fixed_merge_requires_equal_arguments : forall a n args dirs ss a' n' args' dirs' ss',
  can_merge true (SField a n args dirs ss) (SField a' n' args' dirs' ss') = true ->
  go_args_eqb args args' = true.
Proof.
  intros. simpl in H. destruct ss; try discriminate. destruct ss'; try discriminate.
  apply andb_true_iff in H. destruct H as [H _]. apply andb_true_iff in H. destruct H as [_ H]. auto.
Qed.

(* ---- a non-trivial valid operation: variables, a fragment on an interface, overlapping fields ----
   query($v: Int = 1) { a(x: $v) { b ...F } i { ...F ... on A { c } ... on B { b } } a(x: $v) { c } }
   fragment F on I { id } *)
Definition nF : name := [70].
Definition vv : name := [118].
Definition example_doc : document :=
  [ mk_query [{| vd_name := vv; vd_type := TNamed n_Int; vd_default := Some (VInt [49]); vd_dirs := [] |}]
      [ fld fa [(ax, VVar vv)] [fld fb [] []; SSpread nF []];
        fld fi [] [SSpread nF []; SInline (Some nA) [] [fld fc [] []]; SInline (Some nB) [] [fld fb [] []]];
        fld fa [(ax, VVar vv)] [fld fc [] []] ];
    DFrag {| fr_name := nF; fr_type := nI; fr_dirs := []; fr_sels := [fld fid [] []] |} ].
Definition U0 : universe :=
  [ {| en_type := nQuery; en_key := []; en_fields := [(fa, FRef nA [49]); (fi, FRef nB [50])] |};
    {| en_type := nA; en_key := [49]; en_fields := [(fb, FSc (JNum [55])); (fid, FSc (JStr [49]))] |};
    {| en_type := nB; en_key := [50]; en_fields := [(fid, FSc (JStr [50]))] |} ].

Lemma example_valid : spec_valid_b S0 example_doc None = true.
Proof. vm_compute. reflexivity. Qed.
Lemma example_schema_wf : schema_wf_b S0 = true.
Proof. vm_compute. reflexivity. Qed.
Lemma example_universe_wf : universe_wf_b S0 U0 = true.
Proof. vm_compute. reflexivity. Qed.
Lemma example_executes :
  rs_errs (execute_default S0 U0 Mono example_doc None (JObj [])) = [].
Proof. vm_compute. reflexivity. Qed.
