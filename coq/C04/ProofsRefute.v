(* C04 proofs, part 6: witnesses.  The historical refutation (normalisation before a156714 merged
   fields with different arguments, turning a spec-invalid document into a spec-valid one), the
   behaviour of the repaired merge step on it, and non-trivial examples for the hypotheses of the
   theorems. *)
From Coq Require Import List NArith Bool.
From Gv Require Import lib.Bytes lib.Json lib.Gql lib.Exec C04.Spec C04.Model C04.ProofsBasic.
Import ListNotations.
Open Scope N_scope.

Definition nQuery : name := [81;117;101;114;121].
Definition nA : name := [65].
Definition nB : name := [66].
Definition nI : name := [73].
Definition fa : name := [97].
Definition fb : name := [98].
Definition fc : name := [99].
Definition fi : name := [105].
Definition ax : name := [120].
Definition fid : name := [105;100].

Definition mk_fd (n : name) (args : list inputvalue_def) (t : ty) : field_def :=
  {| fd_name := n; fd_args := args; fd_type := t; fd_dirs := [] |}.
Definition mk_obj (n : name) (impl : list name) (fs : list field_def) : type_def :=
  {| td_kind := KObject; td_name := n; td_implements := impl; td_fields := fs; td_members := [];
     td_enum_values := []; td_input_fields := []; td_dirs := [] |}.
Definition mk_iface (n : name) (fs : list field_def) : type_def :=
  {| td_kind := KInterface; td_name := n; td_implements := []; td_fields := fs; td_members := [];
     td_enum_values := []; td_input_fields := []; td_dirs := [] |}.
Definition arg_x : inputvalue_def := {| iv_name := ax; iv_type := TNamed n_Int; iv_default := None; iv_dirs := [] |}.

(* type Query { a(x: Int): A  i: I }  interface I { id: ID }
   type A implements I { b: Int c: Int id: ID }  type B implements I { id: ID b: Int } *)
Definition S0 : schema :=
  {| s_query := nQuery; s_mutation := None; s_subscription := None;
     s_types := [ mk_obj nQuery [] [mk_fd fa [arg_x] (TNamed nA); mk_fd fi [] (TNamed nI)];
                  mk_iface nI [mk_fd fid [] (TNamed n_ID)];
                  mk_obj nA [nI] [mk_fd fb [] (TNamed n_Int); mk_fd fc [] (TNamed n_Int); mk_fd fid [] (TNamed n_ID)];
                  mk_obj nB [nI] [mk_fd fid [] (TNamed n_ID); mk_fd fb [] (TNamed n_Int)] ];
     s_directives := [] |}.

Definition fld (n : name) (args : list argument) (ss : list selection) : selection := SField None n args [] ss.
Definition mk_query (vars : list vardef) (sels : list selection) : definition :=
  DOp {| op_kind := OpQuery; op_name := None; op_vars := vars; op_dirs := []; op_sels := sels |}.

(* { a(x:1){b} a(x:2){c} } *)
Definition witness : document :=
  [mk_query [] [fld fa [(ax, VInt [49])] [fld fb [] []]; fld fa [(ax, VInt [50])] [fld fc [] []]]].
(* { a(x:1){b c} } *)
Definition witness_merged : document :=
  [mk_query [] [fld fa [(ax, VInt [49])] [fld fb [] []; fld fc [] []]]].

Lemma witness_invalid : spec_valid_b S0 witness None = false.
Proof. vm_compute. reflexivity. Qed.
Lemma witness_rule : spec_report S0 witness None = [R_merge].
Proof. vm_compute. reflexivity. Qed.
Lemma prefix_merges_witness : merge_fields_ignoring_args witness = witness_merged.
Proof. vm_compute. reflexivity. Qed.
Lemma merged_witness_valid : spec_valid_b S0 witness_merged None = true.
Proof. vm_compute. reflexivity. Qed.
Lemma fixed_keeps_witness : merge_fields witness = witness.
Proof. vm_compute. reflexivity. Qed.

Lemma accept_iff_valid_refuted_prefix_proof :
  exists S d, spec_valid_b S (merge_fields_ignoring_args d) None = true /\ spec_valid_b S d None = false.
Proof.
  exists S0, witness. split.
  - rewrite prefix_merges_witness. apply merged_witness_valid.
  - apply witness_invalid.
Qed.

(* the admission sequence as it was after a156714 and before the repairs of the rule still
   accepted the witness: the repaired merge step left it alone, and the validator's
   FieldSelectionMerging rule, which compared names and arguments of scalar-typed fields only,
   found nothing wrong with two [a] fields of type A *)
Lemma overlap_rule_accepted_witness : go_overlap_ok_pre_repair S0 (norm_doc old_quirks true witness) = true.
Proof. vm_compute. reflexivity. Qed.
Lemma accept_iff_valid_refuted_pre_repair_proof :
  exists S d, go_overlap_ok_pre_repair S (norm_doc old_quirks true d) = true /\ spec_valid_b S d None = false.
Proof. exists S0, witness. split. apply overlap_rule_accepted_witness. apply witness_invalid. Qed.
(* the repaired rule (work/c04_fix_composite-fields-not-compared.patch) rejects it *)
Lemma overlap_fixed_rejects_witness_proof : go_overlap_ok S0 (merge_fields witness) = false.
Proof. vm_compute. reflexivity. Qed.
(* ... and a conflict between scalar-typed fields was and is caught by the model of the rule *)
Definition leaf_conflict : document :=
  [mk_query [] [fld fa [] [SField (Some [122]) fb [] [] []; SField (Some [122]) fc [] [] []]]].
Lemma overlap_rule_rejects_leaf_conflict :
  go_overlap_ok S0 (merge_fields leaf_conflict) = false /\
  go_overlap_ok_pre_repair S0 (merge_fields leaf_conflict) = false /\
  spec_valid_b S0 leaf_conflict None = false.
Proof. vm_compute. repeat split; reflexivity. Qed.

(* the repaired step never merges two fields whose argument lists differ *)
Lemma fixed_merge_requires_equal_arguments : forall a n args dirs ss a' n' args' dirs' ss',
  can_merge go_quirks true (SField a n args dirs ss) (SField a' n' args' dirs' ss') = true ->
  go_args_eqb go_quirks args args' = true.
Proof.
  intros. simpl in H. destruct ss; try discriminate. destruct ss'; try discriminate.
  apply andb_true_iff in H. destruct H as [H _]. apply andb_true_iff in H. destruct H as [_ H]. auto.
Qed.

(* ---- one witness per repaired defect of the rule: spec-invalid, accepted by the rule as it was
   (after the merge step of that time), rejected by the repaired rule ----
   schema { ... }  type Query { a(x: Int): A  b(x: Int): A  s: String  e: E  f(x: Int, y: Int): Int  i: I }
   interface I { id: ID }  type A implements I { b: Int c: Int id: ID n: I a(x: Int): A as: [A] }
   type B implements I { id: ID n: I o: B }  enum E { X }   (+ __typename: String! on every type) *)
Definition nE : name := [69].
Definition fs : name := [115].
Definition fe : name := [101].
Definition ff : name := [102].
Definition fn : name := [110].
Definition ay : name := [121].
Definition kz : name := [122].
Definition n_Str : name := [83;116;114;105;110;103].
Definition arg_y : inputvalue_def := {| iv_name := ay; iv_type := TNamed n_Int; iv_default := None; iv_dirs := [] |}.
Definition tn_fd : field_def := mk_fd s_typename [] (TNonNull (TNamed n_Str)).
Definition mk_enum (n : name) (vs : list name) : type_def :=
  {| td_kind := KEnum; td_name := n; td_implements := []; td_fields := []; td_members := [];
     td_enum_values := map (fun v => {| ev_name := v; ev_dirs := [] |}) vs; td_input_fields := []; td_dirs := [] |}.
Definition S1 : schema :=
  {| s_query := nQuery; s_mutation := None; s_subscription := None;
     s_types := [ mk_obj nQuery [] [mk_fd fa [arg_x] (TNamed nA); mk_fd fb [arg_x] (TNamed nA); mk_fd fs [] (TNamed n_Str);
                                    mk_fd fe [] (TNamed nE); mk_fd ff [arg_x; arg_y] (TNamed n_Int); mk_fd fi [] (TNamed nI); tn_fd];
                  mk_iface nI [mk_fd fid [] (TNamed n_ID); tn_fd];
                  mk_obj nA [nI] [mk_fd fb [] (TNamed n_Int); mk_fd fc [] (TNamed n_Int); mk_fd fid [] (TNamed n_ID);
                                  mk_fd fn [] (TNamed nI); mk_fd fa [arg_x] (TNamed nA);
                                  mk_fd [97;115] [] (TList (TNamed nA)); tn_fd];
                  mk_obj nB [nI] [mk_fd fid [] (TNamed n_ID); mk_fd fn [] (TNamed nI); mk_fd [111] [] (TNamed nB); tn_fd];
                  mk_enum nE [[88]] ];
     s_directives := [] |}.
Definition al (k n : name) (args : list argument) (ss : list selection) : selection := SField (Some k) n args [] ss.
(* { z: __typename z: s } *)
Definition w_typename : document := [mk_query [] [al kz s_typename [] []; al kz fs [] []]].
(* { z: e z: s } *)
Definition w_enum : document := [mk_query [] [al kz fe [] []; al kz fs [] []]].
(* { z: a{b} z: b{b} } *)
Definition w_names : document := [mk_query [] [al kz fa [] [fld fb [] []]; al kz fb [] [fld fb [] []]]].
(* { z: s z: a{b} } *)
Definition w_leaf_composite : document := [mk_query [] [al kz fs [] []; al kz fa [] [fld fb [] []]]].
(* { i { ... on B { z: n{id} } ... on A { z: a(x:1){id} z: a(x:2){id} } } }: the first A field met a requirement
   of another type kind (interface I) and was not recorded, so the second was never compared with it *)
Definition w_dropped : document :=
  [mk_query [] [fld fi [] [SInline (Some nB) [] [al kz fn [] [fld fid [] []]];
                           SInline (Some nA) [] [al kz fa [(ax, VInt [49])] [fld fid [] []];
                                                 al kz fa [(ax, VInt [50])] [fld fid [] []]]]]].
(* { i { ... on A { z: as{id} } ... on B { z: o{id} } } }: [A] and B under one response name *)
Definition w_shape : document :=
  [mk_query [] [fld fi [] [SInline (Some nA) [] [al kz [97;115] [] [fld fid [] []]];
                           SInline (Some nB) [] [al kz [111] [] [fld fid [] []]]]]].
(* { f(x:1, y:2) f(y:2, x:1) }: spec-VALID, rejected by the positional argument comparison *)
Definition w_args : document :=
  [mk_query [] [fld ff [(ax, VInt [49]); (ay, VInt [50])] []; fld ff [(ay, VInt [50]); (ax, VInt [49])] []]].

Definition pre_repair_accepts (d : document) : bool := go_overlap_ok_pre_repair S1 (norm_doc old_quirks true d).
Definition repaired_accepts (d : document) : bool := go_overlap_ok S1 (merge_fields d).

Lemma S1_wf : schema_wf_b S1 = true.
Proof. vm_compute. reflexivity. Qed.
Lemma overlap_pre_repair_refuted_proof :
  forall d, In d [witness; w_typename; w_enum; w_names; w_leaf_composite; w_dropped; w_shape] ->
    pre_repair_accepts d = true /\ spec_report S1 d None = [R_merge].
Proof.
  intros d H. simpl in H.
  repeat (destruct H as [H|H]; [subst d; vm_compute; split; reflexivity|]). contradiction.
Qed.
Lemma overlap_fixed_rejects_witnesses_proof :
  forall d, In d [witness; w_typename; w_enum; w_names; w_leaf_composite; w_dropped; w_shape] -> repaired_accepts d = false.
Proof.
  intros d H. simpl in H.
  repeat (destruct H as [H|H]; [subst d; vm_compute; reflexivity|]). contradiction.
Qed.
Lemma args_order_pre_repair_refuted_proof :
  pre_repair_accepts w_args = false /\ spec_valid_b S1 w_args None = true.
Proof. vm_compute. split; reflexivity. Qed.
Lemma args_order_fixed_accepts_proof :
  repaired_accepts w_args = true /\
  merge_fields w_args = [mk_query [] [fld ff [(ax, VInt [49]); (ay, VInt [50])] []]].
Proof. vm_compute. split; reflexivity. Qed.

(* ---- a non-trivial valid operation: variables, a fragment on an interface, overlapping fields ----
   query($v: Int = 1) { a(x: $v) { b ...F } i { ...F ... on A { c } ... on B { b } } a(x: $v) { c } }
   fragment F on I { id } *)
Definition nF : name := [70].
Definition vv : name := [118].
Definition example_doc : document :=
  [ mk_query [{| vd_name := vv; vd_type := TNamed n_Int; vd_default := Some (VInt [49]); vd_dirs := [] |}]
      [ fld fa [(ax, VVar vv)] [fld fb [] []; SSpread nF []];
        fld fi [] [SSpread nF []; SInline (Some nA) [] [fld fc [] []]; SInline (Some nB) [] [fld fb [] []]];
        fld fa [(ax, VVar vv)] [fld fc [] []] ];
    DFrag {| fr_name := nF; fr_type := nI; fr_dirs := []; fr_sels := [fld fid [] []] |} ].
Definition U0 : universe :=
  [ {| en_type := nQuery; en_key := []; en_fields := [(fa, FRef nA [49]); (fi, FRef nB [50])] |};
    {| en_type := nA; en_key := [49]; en_fields := [(fb, FSc (JNum [55])); (fid, FSc (JStr [49]))] |};
    {| en_type := nB; en_key := [50]; en_fields := [(fid, FSc (JStr [50]))] |} ].

Lemma example_valid : spec_valid_b S0 example_doc None = true.
Proof. vm_compute. reflexivity. Qed.
Lemma example_schema_wf : schema_wf_b S0 = true.
Proof. vm_compute. reflexivity. Qed.
Lemma example_universe_wf : universe_wf_b S0 U0 = true.
Proof. vm_compute. reflexivity. Qed.
Lemma example_executes :
  rs_errs (execute_default S0 U0 Mono example_doc None (JObj [])) = [].
Proof. vm_compute. reflexivity. Qed.
