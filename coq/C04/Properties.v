(* C04 property theorems.  Only statements here; proofs are in Proofs*.v. *)
From Coq Require Import List NArith Bool.
From Gv Require Import lib.Bytes lib.Json lib.Gql lib.Exec C04.Spec C04.Model
  C04.ProofsBasic C04.ProofsFlat C04.ProofsMerge C04.ProofsExec C04.ProofsTop C04.ProofsRefute.
Import ListNotations.

(* (1) The transcription means something: an operation that passes [spec_valid_b] never makes the
   reference executor report a static error, for every well-formed schema, every universe typed
   by the schema, every variables object and every fuel.  (The two introspection root fields are
   excepted because lib/Exec.v does not implement them; XOutOfFuel / XErr may occur.) *)
Theorem spec_valid_exec_safe : forall (S : schema) (U : universe) (d : document) (op : option name)
    (supplied : json) (fuel : nat),
  schema_wf_b S = true -> universe_wf_b S U = true -> spec_valid_b S d op = true ->
  forall r, In (XInvalid r) (rs_errs (execute fuel S U Mono d op supplied)) -> r = n_schema \/ r = n_type.
Proof. exact spec_valid_exec_safe_proof. Qed.
Print Assumptions spec_valid_exec_safe.

(* (2) The fragments a valid operation reaches are defined, on composite types, and closed under
   spreading. *)
Theorem spec_valid_fragment_closed : forall (S : schema) (d : document) (op : option name),
  spec_valid_b S d op = true ->
  exists c, mk_ctx S d op = Some c /\
    (forall m, In m (spreads_of (op_sels (cx_op c))) -> In m (cx_reached c)) /\
    (forall n, In n (cx_reached c) ->
       exists fr, find_frag n (doc_frags d) = Some fr /\ is_composite S (fr_type fr) = true /\
                  forall m, In m (spreads_of (fr_sels fr)) -> In m (cx_reached c)).
Proof. exact spec_valid_fragment_closed_proof. Qed.
Print Assumptions spec_valid_fragment_closed.

(* (3) Historical refutation (the code before a156714): the normaliser's merge step, which
   ignored arguments, maps the spec-INVALID { a(x:1){b} a(x:2){c} } to the spec-VALID
   { a(x:1){b c} }; whatever validator runs after it must accept. *)
Theorem accept_iff_valid_refuted_prefix :
  exists S d, spec_valid_b S (merge_fields_ignoring_args d) None = true /\ spec_valid_b S d None = false.
Proof. exact accept_iff_valid_refuted_prefix_proof. Qed.
Print Assumptions accept_iff_valid_refuted_prefix.

(* (3') The property itself is still refuted on the CURRENT code (after a156714): the model of the
   two steps that decide the witness -- the repaired merge step and the validator's
   FieldSelectionMerging rule, both tied to the Go code by correspondence (corr:C04/merge,
   corr:C04/overlap) -- accepts { a(x:1){b} a(x:2){c} }, which the specification rejects (the rule
   never compares names or arguments of fields whose type is not a scalar). *)
Theorem accept_iff_valid_refuted :
  exists S d, go_overlap_ok S (merge_fields d) = true /\ spec_valid_b S d None = false.
Proof. exact accept_iff_valid_refuted_proof. Qed.
Print Assumptions accept_iff_valid_refuted.

(* (4) The repaired merge step merges two fields only when their argument lists are equal, and
   leaves the witness untouched (so the conflict reaches the validator). *)
Theorem merge_fixed_requires_equal_arguments : forall a n args dirs ss a' n' args' dirs' ss',
  can_merge true (SField a n args dirs ss) (SField a' n' args' dirs' ss') = true ->
  go_args_eqb args args' = true.
Proof. exact fixed_merge_requires_equal_arguments. Qed.
Print Assumptions merge_fixed_requires_equal_arguments.

Theorem merge_fixed_keeps_witness : merge_fields witness = witness /\ spec_report S0 witness None = [R_merge].
Proof. exact (conj fixed_keeps_witness witness_rule). Qed.
Print Assumptions merge_fixed_keeps_witness.

(* the hypotheses of (1) are satisfiable by a non-trivial operation (variables, a fragment on an
   interface spread in two places, overlapping fields) which then runs without any error *)
Example spec_valid_exec_safe_nontrivial :
  schema_wf_b S0 = true /\ universe_wf_b S0 U0 = true /\ spec_valid_b S0 example_doc None = true /\
  rs_errs (execute_default S0 U0 Mono example_doc None (JObj [])) = [].
Proof. exact (conj example_schema_wf (conj example_universe_wf (conj example_valid example_executes))). Qed.
