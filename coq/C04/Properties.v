(* C04 property theorems.  Only statements here; proofs are in Proofs*.v. *)
From Coq Require Import List NArith Bool Permutation.
From Gv Require Import lib.Bytes lib.Json lib.Gql lib.Exec C04.Spec C04.Model
  C04.ProofsBasic C04.ProofsFlat C04.ProofsMerge C04.ProofsExec C04.ProofsTop C04.ProofsRefute C04.ProofsOverlap C04.ProofsDirs.
Import ListNotations.

(* (1) The transcription means something: an operation that passes [spec_valid_b] never makes the
   reference executor report a static error, for every well-formed schema, every universe typed
   by the schema, every variables object and every fuel.  (The two introspection root fields are
   excepted because lib/Exec.v does not implement them; XOutOfFuel / XErr may occur.) *)
Theorem spec_valid_exec_safe : forall (S : schema) (U : universe) (d : document) (op : option name)
    (supplied : json) (fuel : nat),
  schema_wf_b S = true -> universe_wf_b S U = true -> spec_valid_b S d op = true ->
  forall r, In (XInvalid r) (rs_errs (execute fuel S U Mono d op supplied)) -> r = n_schema \/ r = n_type.
Proof. exact spec_valid_exec_safe_proof. Qed.
Print Assumptions spec_valid_exec_safe.

(* (2) The fragments a valid operation reaches are defined, on composite types, and closed under
   spreading. *)
Theorem spec_valid_fragment_closed : forall (S : schema) (d : document) (op : option name),
  spec_valid_b S d op = true ->
  exists c, mk_ctx S d op = Some c /\
    (forall m, In m (spreads_of (op_sels (cx_op c))) -> In m (cx_reached c)) /\
    (forall n, In n (cx_reached c) ->
       exists fr, find_frag n (doc_frags d) = Some fr /\ is_composite S (fr_type fr) = true /\
                  forall m, In m (spreads_of (fr_sels fr)) -> In m (cx_reached c)).
Proof. exact spec_valid_fragment_closed_proof. Qed.
Print Assumptions spec_valid_fragment_closed.

(* (3) Historical refutation (the code before a156714): the normaliser's merge step, which
   ignored arguments, maps the spec-INVALID { a(x:1){b} a(x:2){c} } to the spec-VALID
   { a(x:1){b c} }; whatever validator runs after it must accept. *)
Theorem accept_iff_valid_refuted_prefix :
  exists S d, spec_valid_b S (merge_fields_ignoring_args d) None = true /\ spec_valid_b S d None = false.
Proof. exact accept_iff_valid_refuted_prefix_proof. Qed.
Print Assumptions accept_iff_valid_refuted_prefix.

(* (3') Historical refutations (the code after a156714 and before the repairs
   work/c04_fix_{typename-excluded-from-merging,enum-fields-not-compared,composite-fields-not-compared,
   leaf-vs-composite-not-compared,requirement-dropped-after-kind-mismatch,
   composite-shape-of-unrelated-types-unchecked}.patch): the model of the
   two steps that decided the witness -- the merge step and the validator's FieldSelectionMerging
   rule AS THEY WERE ([old_quirks]) -- accepted { a(x:1){b} a(x:2){c} }, which the specification
   rejects, and likewise one witness for each of the other defects of the rule. *)
Theorem accept_iff_valid_refuted_pre_repair :
  exists S d, go_overlap_ok_pre_repair S (norm_doc old_quirks true d) = true /\ spec_valid_b S d None = false.
Proof. exact accept_iff_valid_refuted_pre_repair_proof. Qed.
Print Assumptions accept_iff_valid_refuted_pre_repair.

Theorem overlap_pre_repair_refuted :
  forall d, In d [witness; w_typename; w_enum; w_names; w_leaf_composite; w_dropped; w_shape] ->
    pre_repair_accepts d = true /\ spec_report S1 d None = [R_merge].
Proof. exact overlap_pre_repair_refuted_proof. Qed.
Print Assumptions overlap_pre_repair_refuted.

(* (3'') The repaired rule ([go_quirks], tied to the Go code by corr:C04/overlap) rejects every one
   of these witnesses ... *)
Theorem overlap_fixed_rejects_witnesses :
  forall d, In d [witness; w_typename; w_enum; w_names; w_leaf_composite; w_dropped; w_shape] -> repaired_accepts d = false.
Proof. exact overlap_fixed_rejects_witnesses_proof. Qed.
Print Assumptions overlap_fixed_rejects_witnesses.

(* ... and, for every schema and every selection set: a field that passes a step of the repaired
   rule has been compared by name and arguments with every recorded field of the same response
   path and key whose parent type can be the same object, *)
Theorem overlap_fixed_step_compares : forall S path encl s fd key st st',
  enter_field go_quirks S path encl s fd key st = Some st' ->
  forall r, In r (reqs st) ->
    path_eqb (rq_path r) path = true -> bytes_eqb (rq_key r) key = true ->
    potentially_same S (rq_encl r) encl = true ->
    same_field go_quirks (rq_sel r) s = true.
Proof. exact enter_field_fixed_compares_proof. Qed.
Print Assumptions overlap_fixed_step_compares.

(* it is recorded and nothing is forgotten (before the repair a field that met a requirement of
   another type kind was not recorded), *)
Theorem overlap_fixed_step_records : forall S path encl s fd key st st',
  enter_field go_quirks S path encl s fd key st = Some st' ->
  forall r, In r (reqs st') <->
            In r (reqs st) \/ r = {| rq_path := path; rq_key := key; rq_sel := s; rq_ty := fd_type fd; rq_encl := encl |}.
Proof. exact enter_field_fixed_records_proof. Qed.
Print Assumptions overlap_fixed_step_records.

(* a field of a leaf type (scalar or enum) and a field with a selection set never share a response
   path and key, *)
Theorem overlap_fixed_step_classes : forall S path encl s fd key st st',
  enter_field go_quirks S path encl s fd key st = Some st' ->
  forall r, In r (if is_leaf_kind go_quirks (gkind S (named_of (fd_type fd))) then snd st else fst st) ->
    path_eqb (rq_path r) path && bytes_eqb (rq_key r) key = false.
Proof. exact enter_field_fixed_classes_proof. Qed.
Print Assumptions overlap_fixed_step_classes.

(* and over the whole walk: two sibling fields with one response key, on a parent type that can be
   one object, that pass the repaired rule are the same field with equal arguments, whatever their
   type and whatever stands between them. *)
Theorem overlap_fixed_siblings : forall S path encl l st st',
  ov_sels go_quirks S path encl l st = Some st' ->
  potentially_same S encl encl = true ->
  forall l1 l2 l3 a n args dirs ss a' n' args' dirs' ss',
    l = l1 ++ SField a n args dirs ss :: l2 ++ SField a' n' args' dirs' ss' :: l3 ->
    response_name a n = response_name a' n' ->
    rule_field_def S encl n <> None -> rule_field_def S encl n' <> None ->
    n = n' /\ go_args_eqb go_quirks args args' = true.
Proof. exact overlap_fixed_siblings_proof. Qed.
Print Assumptions overlap_fixed_siblings.

(* (3+) Arguments are a set (work/c04_fix_args-order-sensitive.patch): the repaired comparison
   accepts every permutation of uniquely named arguments and nothing that differs in a name or a value; the positional
   comparison of the old code is refuted by { f(x:1, y:2) f(y:2, x:1) }, a spec-valid document
   the old rule rejected and the repaired one accepts (normalisation now de-duplicates it). *)
Theorem args_eq_permutation : forall a b,
  NoDup (map fst a) -> Permutation a b -> go_args_eqb go_quirks a b = true.
Proof. exact args_byname_perm_proof. Qed.
Print Assumptions args_eq_permutation.

Theorem args_eq_sound : forall a b, go_args_eqb go_quirks a b = true ->
  length a = length b /\
  forall k, match assoc k a, assoc k b with
            | Some v, Some w => go_value_eqb v w = true
            | None, None => True
            | _, _ => False
            end.
Proof. exact args_byname_sound_proof. Qed.
Print Assumptions args_eq_sound.

Theorem args_eq_positional_refuted :
  (exists a b, Permutation a b /\ go_args_eqb old_quirks a b = false) /\
  pre_repair_accepts w_args = false /\ spec_valid_b S1 w_args None = true /\ repaired_accepts w_args = true.
Proof.
  split. exact args_positional_refuted_proof.
  split. exact (proj1 args_order_pre_repair_refuted_proof).
  split. exact (proj2 args_order_pre_repair_refuted_proof). exact (proj1 args_order_fixed_accepts_proof).
Qed.
Print Assumptions args_eq_positional_refuted.

(* (4) The repaired merge step merges two fields only when their argument lists are equal, and
   leaves the witness untouched (so the conflict reaches the validator). *)
Theorem merge_fixed_requires_equal_arguments : forall a n args dirs ss a' n' args' dirs' ss',
  can_merge go_quirks true (SField a n args dirs ss) (SField a' n' args' dirs' ss') = true ->
  go_args_eqb go_quirks args args' = true.
Proof. exact fixed_merge_requires_equal_arguments. Qed.
Print Assumptions merge_fixed_requires_equal_arguments.

Theorem merge_fixed_keeps_witness : merge_fields witness = witness /\ spec_report S0 witness None = [R_merge].
Proof. exact (conj fixed_keeps_witness witness_rule). Qed.
Print Assumptions merge_fixed_keeps_witness.

(* (4') ... and only when their directive lists are equal as MULTISETS: some permutation of the
   absorbed selection's list is pointwise equal (same directive, same argument names, equal values:
   [dir_eq_sound]) to the surviving selection's list -- directives may be repeatable, every
   application is matched with a distinct one.  For fields with sub-selections and inline fragments
   (mergeInlineFragmentSelections) and for leaf fields (deduplicateFields).  Hence every
   application that disappears with a merged / dropped selection has an equal application that
   survives and is validated. *)
Theorem merge_fixed_requires_equal_directives : forall x y,
  can_merge go_quirks true x y = true ->
  exists p, Permutation (sel_dirs y) p /\ Forall2 (fun d d' => go_dir_eqb go_quirks d d' = true) (sel_dirs x) p.
Proof. exact fixed_merge_requires_equal_directives. Qed.
Print Assumptions merge_fixed_requires_equal_directives.

Theorem dedup_fixed_requires_equal_directives : forall x y,
  leaf_equal go_quirks x y = true ->
  exists p, Permutation (sel_dirs y) p /\ Forall2 (fun d d' => go_dir_eqb go_quirks d d' = true) (sel_dirs x) p.
Proof. exact fixed_dedup_requires_equal_directives. Qed.
Print Assumptions dedup_fixed_requires_equal_directives.

Theorem merge_fixed_loses_no_directive : forall x y,
  can_merge go_quirks true x y = true \/ leaf_equal go_quirks x y = true ->
  length (sel_dirs x) = length (sel_dirs y) /\
  forall d', In d' (sel_dirs y) -> exists d, In d (sel_dirs x) /\ go_dir_eqb go_quirks d d' = true.
Proof. exact fixed_merge_loses_no_directive. Qed.
Print Assumptions merge_fixed_loses_no_directive.

Theorem dir_eq_sound : forall d d', go_dir_eqb go_quirks d d' = true ->
  d_name d = d_name d' /\ length (d_args d) = length (d_args d') /\
  forall k, match assoc k (d_args d), assoc k (d_args d') with
            | Some v, Some w => go_value_eqb v w = true
            | None, None => True
            | _, _ => False
            end.
Proof. exact dir_eq_sound_proof. Qed.
Print Assumptions dir_eq_sound.

(* (4'') The set-semantics variant of the comparison (equal length, every left directive equal to
   SOME right one; seeded regression C04-m7, never the code of /repo) is refuted: it equates
   [@t(k:1), @t(k:1)] with [@t(k:1), @t(k:"x")], which no pairwise matching does, and the merge step
   built on it maps three spec-INVALID documents -- a leaf field, a field with selections, an inline
   fragment, each followed by a near-duplicate with one ill-typed application of the repeatable
   @t(k: Int!) -- to spec-VALID ones, so whatever validator runs afterwards accepts them; the model
   of the code leaves them untouched and the error reaches the validator. *)
Theorem merge_dirs_as_set_refuted :
  (exists a b, go_dirs_eqb set_quirks a b = true /\ go_dirs_eqb go_quirks a b = false /\
     ~ exists p, Permutation b p /\ Forall2 (fun d d' => go_dir_eqb go_quirks d d' = true) a p) /\
  forall d, In d [w_dirs_leaf; w_dirs_composite; w_dirs_inline] ->
    spec_report S2 d None = [R_value] /\
    spec_valid_b S2 (merge_fields_dirs_as_set d) None = true /\
    merge_fields d = d /\ spec_report S2 (merge_fields d) None = [R_value].
Proof. exact merge_dirs_as_set_refuted_full. Qed.
Print Assumptions merge_dirs_as_set_refuted.

(* the hypotheses of (4') are satisfiable: selections with equal directive multisets ARE merged *)
Example merge_equal_directives_nontrivial :
  schema_wf_b S2 = true /\ spec_valid_b S2 w_dirs_equal None = true /\
  merge_fields w_dirs_equal = [mk_query [] [fld fi [] [dfld fid [t_ok; t_ok] []]]] /\
  leaf_equal go_quirks (dfld fid [t_ok; t_ok] []) (dfld fid [t_ok; t_ok] []) = true.
Proof. split. exact S2_wf. split. exact (proj1 merge_equal_dirs_witness). split. exact (proj2 merge_equal_dirs_witness). vm_compute. reflexivity. Qed.

(* the hypotheses of the walk theorem are satisfiable by a non-trivial selection set *)
Example overlap_fixed_siblings_nontrivial :
  potentially_same S1 nQuery nQuery = true /\
  rule_field_def S1 nQuery fa <> None /\ rule_field_def S1 nQuery s_typename <> None /\
  exists st', ov_sels go_quirks S1 [[113;117;101;114;121]] nQuery
                [al kz fa [(ax, VInt [49])] [fld fb [] []]; fld fs [] []; al kz fa [(ax, VInt [49])] [fld fc [] []]] ([], []) = Some st'.
Proof. vm_compute. repeat split; try discriminate. eexists. reflexivity. Qed.

(* the hypotheses of (1) are satisfiable by a non-trivial operation (variables, a fragment on an
   interface spread in two places, overlapping fields) which then runs without any error *)
Example spec_valid_exec_safe_nontrivial :
  schema_wf_b S0 = true /\ universe_wf_b S0 U0 = true /\ spec_valid_b S0 example_doc None = true /\
  rs_errs (execute_default S0 U0 Mono example_doc None (JObj [])) = [].
Proof. exact (conj example_schema_wf (conj example_universe_wf (conj example_valid example_executes))). Qed.
