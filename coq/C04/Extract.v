From Gv Require Import lib.Bytes lib.Json lib.Gql lib.Exec lib.ExtractAnchor C04.Model C04.Spec.
Require Import ExtrOcamlBasic.
Extraction Language OCaml.
Extraction "model.ml" extraction_anchor json_eqb spec_valid_b spec_report merge_fields merge_fields_ignoring_args go_overlap_ok.
