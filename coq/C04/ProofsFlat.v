(* C04 proofs, part 2: [good_b] (what execution needs from the per-node rules), [collect] versus
   the executor's [flatten], and [group]. *)
From Coq Require Import List NArith Bool Lia.
From Gv Require Import lib.Bytes lib.Json lib.Gql lib.Exec C04.Spec C04.ProofsBasic.
Import ListNotations.
Open Scope N_scope.

Section Flat.
  Variable S : schema.
  Variable frags : list fragment.
  Variable vars : list (bytes * json).
  Variable R : list name.           (* fragment names the operation reaches *)

  (* the per-node facts execution relies on: fields exist, their type is a leaf or a composite
     type, type conditions are composite, spreads name reached fragments *)
  Fixpoint good_b (p : name) (s : selection) : bool :=
    match s with
    | SField _ f _ _ sels =>
      match lookup_field S p f with
      | Some fd =>
        let t := named_of (fd_type fd) in
        (is_leaf S t || is_composite S t) && forallb (good_b t) sels
      | None => false
      end
    | SInline cond _ sels =>
      match cond with Some c => is_composite S c | None => true end &&
      forallb (good_b (inline_type p cond)) sels
    | SSpread n _ => mem_bytes n R
    end.

  Hypothesis HR : forall n, mem_bytes n R = true ->
    exists fr, find_frag n frags = Some fr /\ forallb (good_b (fr_type fr)) (fr_sels fr) = true.

  (* ---- contributions of single selections to [collect] ---- *)
  Definition contrib (p : name) (s : selection) (c : list fieldctx) : Prop :=
    exists f, collect frags f p [s] = Some c.

  Lemma collect_cons : forall fc p s rest L,
    collect frags fc p (s :: rest) = Some L ->
    exists f a b, fc = Datatypes.S f /\ collect frags (Datatypes.S f) p [s] = Some (a ++ []) /\
                  collect frags f p rest = Some b /\ L = a ++ b.
  Proof.
    intros. destruct fc; simpl in H; try discriminate.
    match type of H with match ?h with _ => _ end = _ => destruct h as [a|] eqn:Eh end; try discriminate.
    destruct (collect frags fc p rest) as [b|] eqn:Er; try discriminate.
    inversion H; subst. exists fc, a, b. repeat split; auto.
    simpl. rewrite Eh. destruct fc; simpl; auto.
  Qed.

  Lemma collect_contrib : forall sels fc p L,
    collect frags fc p sels = Some L ->
    forall s, In s sels -> exists c, contrib p s c /\ incl c L.
  Proof.
    induction sels; intros fc p L H s Hin; simpl in Hin; try contradiction.
    destruct (collect_cons _ _ _ _ _ H) as [f [a0 [b [E1 [E2 [E3 E4]]]]]]. subst.
    destruct Hin as [Hin|Hin].
    - subst. exists (a0 ++ []). split. exists (Datatypes.S f). auto.
      rewrite app_nil_r. apply incl_appl. apply incl_refl.
    - destruct (IHsels _ _ _ E3 _ Hin) as [c [C1 C2]]. exists c. split; auto.
      apply incl_appr. auto.
  Qed.

  Lemma contrib_field : forall p a n args dirs ss c,
    contrib p (SField a n args dirs ss) c -> c = [(p, SField a n args dirs ss)].
  Proof.
    intros. destruct H as [f H]. destruct f; simpl in H; try discriminate.
    destruct f; simpl in H; inversion H; auto.
  Qed.
  Lemma contrib_inline : forall p cond dirs sub c,
    contrib p (SInline cond dirs sub) c ->
    exists f, collect frags f (inline_type p cond) sub = Some c.
  Proof.
    intros. destruct H as [f H]. destruct f; simpl in H; try discriminate.
    destruct (collect frags f (inline_type p cond) sub) as [a|] eqn:E; try discriminate.
    assert (collect frags f p [] = Some []) by (destruct f; auto). rewrite H0 in H.
    inversion H. rewrite app_nil_r. eauto.
  Qed.
  Lemma contrib_spread : forall p n dirs c fr,
    contrib p (SSpread n dirs) c -> find_frag n frags = Some fr ->
    exists f, collect frags f (fr_type fr) (fr_sels fr) = Some c.
  Proof.
    intros. destruct H as [f H]. destruct f; simpl in H; try discriminate. rewrite H0 in H.
    destruct (collect frags f (fr_type fr) (fr_sels fr)) as [a|] eqn:E; try discriminate.
    assert (collect frags f p [] = Some []) by (destruct f; auto). rewrite H1 in H.
    inversion H. rewrite app_nil_r. eauto.
  Qed.

  (* ---- flatten ---- *)
  Definition tagged_ok (objty : name) (L : list fieldctx) (PS : list (name * selection)) : Prop :=
    forall p s, In (p, s) PS ->
      good_b p s = true /\ type_applies S objty p = true /\ exists c, contrib p s c /\ incl c L.

  Lemma tagged_sub : forall objty L t sub c0 f0,
    forallb (good_b t) sub = true -> type_applies S objty t = true ->
    collect frags f0 t sub = Some c0 -> incl c0 L ->
    tagged_ok objty L (map (pair t) sub).
  Proof.
    intros. intros p s Hin. apply in_map_iff in Hin. destruct Hin as [x [E Hx]]. inversion E; subst.
    split. eapply forallb_In; eauto. split; auto.
    destruct (collect_contrib _ _ _ _ H1 _ Hx) as [c [C1 C2]]. exists c. split; auto.
    eapply incl_tran; eauto.
  Qed.
  Lemma map_snd_pair : forall (t : name) (l : list selection), map snd (map (pair t) l) = l.
  Proof. induction l; simpl; congruence. Qed.

  Definition flat_field_ok (objty : name) (L : list fieldctx) (s : selection) : Prop :=
    exists p', In (p', s) L /\ type_applies S objty p' = true /\ good_b p' s = true /\ sel_is_field s = true.

  Lemma flatten_tagged : forall fx objty L PS,
    tagged_ok objty L PS ->
    match flatten S frags vars fx objty (map snd PS) with
    | FlatOk fl => forall s, In s fl -> flat_field_ok objty L s
    | FlatBad e => e = XOutOfFuel
    end.
  Proof.
    induction fx; intros objty L PS Hok; simpl; auto.
    destruct PS as [|[p s] rest]; simpl.
    { intros s H; contradiction. }
    assert (Hrest : tagged_ok objty L rest).
    { intros p0 s0 Hin. apply Hok. right; auto. }
    destruct (Hok p s (or_introl eq_refl)) as [Hg [Ha [c [Hc Hincl]]]].
    pose proof (IHfx objty L rest Hrest) as IHrest.
    assert (Hhere :
      match (match s with
             | SField _ _ _ dirs _ => if included vars dirs then FlatOk [s] else FlatOk []
             | SInline cond dirs sub =>
               if negb (included vars dirs) then FlatOk []
               else match cond with
                    | None => flatten S frags vars fx objty sub
                    | Some c =>
                      match kind_of S c with
                      | None => if bytes_eqb c [95;69;110;116;105;116;121] then flatten S frags vars fx objty sub
                                else FlatBad (XInvalid c)
                      | Some _ => if type_applies S objty c then flatten S frags vars fx objty sub else FlatOk []
                      end
                    end
             | SSpread n dirs =>
               if negb (included vars dirs) then FlatOk []
               else match find_frag n frags with
                    | None => FlatBad (XInvalid n)
                    | Some fr => if type_applies S objty (fr_type fr) then flatten S frags vars fx objty (fr_sels fr) else FlatOk []
                    end
             end) with
      | FlatOk fl => forall s0, In s0 fl -> flat_field_ok objty L s0
      | FlatBad e => e = XOutOfFuel
      end).
    { destruct s as [a n args dirs ss | cond dirs sub | n dirs].
      - apply contrib_field in Hc. subst c.
        destruct (included vars dirs); intros s0 H0; simpl in H0; try contradiction.
        destruct H0; try contradiction. subst s0. exists p. repeat split; auto.
        apply Hincl. left; auto.
      - destruct (negb (included vars dirs)). { intros s0 H0; contradiction. }
        simpl in Hg. apply andb_true_iff in Hg. destruct Hg as [Hg1 Hg2].
        destruct (contrib_inline _ _ _ _ _ Hc) as [f0 Hf0].
        destruct cond as [c0|].
        + unfold is_composite, kind in Hg1. destruct (kind_of S c0) eqn:K; try discriminate.
          destruct (type_applies S objty c0) eqn:TA. 2:{ intros s0 H0; contradiction. }
          pose proof (IHfx objty L (map (pair c0) sub)) as IH. rewrite map_snd_pair in IH.
          apply IH. eapply tagged_sub; eauto.
        + pose proof (IHfx objty L (map (pair p) sub)) as IH. rewrite map_snd_pair in IH.
          apply IH. eapply tagged_sub; eauto.
      - destruct (negb (included vars dirs)). { intros s0 H0; contradiction. }
        simpl in Hg. destruct (HR _ Hg) as [fr [Hfr Hgood]]. rewrite Hfr.
        destruct (contrib_spread _ _ _ _ _ Hc Hfr) as [f0 Hf0].
        destruct (type_applies S objty (fr_type fr)) eqn:TA. 2:{ intros s0 H0; contradiction. }
        pose proof (IHfx objty L (map (pair (fr_type fr)) (fr_sels fr))) as IH. rewrite map_snd_pair in IH.
        apply IH. eapply tagged_sub; eauto. }
    match goal with |- match (match ?h with _ => _ end) with _ => _ end => destruct h as [l1|e1] end; auto.
    destruct (flatten S frags vars fx objty (map snd rest)) as [l2|e2]; auto.
    intros s0 H0. apply in_app_or in H0. destruct H0; auto.
  Qed.

  (* ---- group ---- *)
  Definition sub_of (x : selection) : list selection :=
    match x with SField _ _ _ _ ss => ss | _ => [] end.

  Lemma group_spec : forall g fl k s subs,
    In (k, s, subs) (group g fl) ->
    k = sel_key s /\ exists ms, In s ms /\ subs = flat_map sub_of ms /\
      forall m, In m ms -> In m fl /\ bytes_eqb (sel_key m) k = true.
  Proof.
    induction g; intros fl k s subs H; simpl in H; try contradiction.
    destruct fl as [|s0 rest]; simpl in H; try contradiction.
    destruct H as [H|H].
    - inversion H; subst. split; auto.
      exists (s :: filter (fun x => bytes_eqb (sel_key x) (sel_key s)) rest). split. left; auto.
      split; auto. intros m Hm. destruct Hm as [Hm|Hm].
      + subst. split. left; auto. apply bytes_eqb_refl.
      + apply filter_In in Hm. destruct Hm. split; auto. right; auto.
    - destruct (IHg _ _ _ _ H) as [E [ms [M1 [M2 M3]]]]. split; auto.
      exists ms. repeat split; auto.
      + destruct (M3 _ H0) as [X _]. apply filter_In in X. destruct X. right; auto.
      + destruct (M3 _ H0); auto.
  Qed.
End Flat.
