(* C04 proofs, part 7: the repaired FieldSelectionMerging rule and the repaired argument
   comparison ([go_quirks]).  What the repairs guarantee, for every schema and document:
   - arguments are compared as a set: any permutation of an argument list is equal to it;
   - a field that passes [enter_field] has been compared, by name and arguments, with every
     recorded field of the same response path and key whose parent type can be the same object;
     a leaf field and a field with a selection set never share a response path and key; the field
     is recorded afterwards;
   - requirements are never forgotten during the walk, hence two sibling fields of one selection
     set with the same response key that pass the rule are the same field with equal arguments. *)
From Coq Require Import List NArith Bool Arith Permutation.
From Gv Require Import lib.Bytes lib.Json lib.Gql lib.Exec C04.Spec C04.Model C04.ProofsBasic.
Import ListNotations.
Open Scope N_scope.

(* ---- nested induction on values ---- *)
Section ValueInd.
  Variable P : value -> Prop.
  Hypothesis Hvar : forall n, P (VVar n).
  Hypothesis Hint : forall r, P (VInt r).
  Hypothesis Hfloat : forall r, P (VFloat r).
  Hypothesis Hstr : forall r bl, P (VStr r bl).
  Hypothesis Hbool : forall x, P (VBool x).
  Hypothesis Hnull : P VNull.
  Hypothesis Henum : forall n, P (VEnum n).
  Hypothesis Hlist : forall l, Forall P l -> P (VList l).
  Hypothesis Hobj : forall fs, Forall (fun kv => P (snd kv)) fs -> P (VObj fs).
  Fixpoint value_ind' (v : value) : P v :=
    match v with
    | VVar n => Hvar n
    | VInt r => Hint r
    | VFloat r => Hfloat r
    | VStr r bl => Hstr r bl
    | VBool x => Hbool x
    | VNull => Hnull
    | VEnum n => Henum n
    | VList l => Hlist l ((fix go (l : list value) : Forall P l :=
                             match l with [] => Forall_nil _ | x :: r => Forall_cons _ (value_ind' x) (go r) end) l)
    | VObj fs => Hobj fs ((fix go (fs : list (name * value)) : Forall (fun kv => P (snd kv)) fs :=
                             match fs with [] => Forall_nil _ | kv :: r => Forall_cons _ (value_ind' (snd kv)) (go r) end) fs)
    end.
End ValueInd.

Lemma go_value_eqb_refl : forall v, go_value_eqb v v = true.
Proof.
  induction v using value_ind'; simpl; try apply bytes_eqb_refl; auto.
  - rewrite bytes_eqb_refl. destruct bl; reflexivity.
  - destruct x; reflexivity.
  - induction H; auto. rewrite H. simpl. exact IHForall.
  - induction H; auto. destruct x as [k v]. simpl in H. rewrite bytes_eqb_refl, H. simpl. exact IHForall.
Qed.

Lemma go_arg_eqb_refl : forall x, go_arg_eqb x x = true.
Proof. intros [k v]. unfold go_arg_eqb. simpl. rewrite bytes_eqb_refl, go_value_eqb_refl. reflexivity. Qed.

(* the repaired comparison: the order of (uniquely named) arguments is irrelevant *)
Lemma assoc_in_nodup : forall (l : list argument) k v, NoDup (map fst l) -> In (k, v) l -> assoc k l = Some v.
Proof.
  induction l as [|[k' v'] l IH]; simpl; intros k v ND Hin; [contradiction|].
  inversion ND as [|? ? Hn ND']; subst.
  destruct Hin as [E|Hin].
  - inversion E; subst. rewrite bytes_eqb_refl. reflexivity.
  - destruct (bytes_eqb k k') eqn:Ek.
    + apply bytes_eqb_eq in Ek. subst k'. exfalso. apply Hn. apply in_map_iff. exists (k, v). auto.
    + apply IH; assumption.
Qed.

Lemma args_contained_perm : forall a b,
  NoDup (map fst b) -> (forall x, In x a -> In x b) -> go_args_contained a b = true.
Proof.
  intros a b NDb Hin. unfold go_args_contained. apply forallb_forall. intros [k v] Hx. cbn [fst snd].
  rewrite (assoc_in_nodup b k v NDb (Hin _ Hx)). apply go_value_eqb_refl.
Qed.
Lemma args_byname_perm_proof : forall a b,
  NoDup (map fst a) -> Permutation a b -> go_args_eqb go_quirks a b = true.
Proof.
  intros a b ND HP. change (go_args_eqb go_quirks a b) with (go_args_eqb_byname a b). unfold go_args_eqb_byname.
  assert (PL : @length argument a = @length argument b) by (apply Permutation_length; exact HP).
  rewrite PL, Nat.eqb_refl. cbn [andb].
  assert (NDb : NoDup (map fst b)).
  { eapply Permutation_NoDup; [|exact ND]. apply Permutation_map. exact HP. }
  rewrite (args_contained_perm a b NDb) by (intros x Hx; eapply Permutation_in; eauto).
  rewrite (args_contained_perm b a ND) by (intros x Hx; eapply Permutation_in; [apply Permutation_sym; exact HP|exact Hx]).
  reflexivity.
Qed.

(* ... and it is not weaker than it has to be: equal lists have the same length and look every
   name up to the same value (None on both sides, or equal values) *)
Lemma assoc_in : forall (l : list argument) k v, assoc k l = Some v -> exists k', In (k', v) l /\ bytes_eqb k k' = true.
Proof.
  induction l as [|[k' v'] l IH]; simpl; intros k v E; [discriminate|].
  destruct (bytes_eqb k k') eqn:Ek.
  - inversion E; subst. exists k'. split; [left; reflexivity|exact Ek].
  - destruct (IH _ _ E) as [k2 [H1 H2]]. exists k2. split; [right; exact H1|exact H2].
Qed.
Lemma args_contained_assoc : forall a b, go_args_contained a b = true ->
  forall k v, assoc k a = Some v -> exists w, assoc k b = Some w /\ go_value_eqb v w = true.
Proof.
  intros a b H k v E. destruct (assoc_in a k v E) as [k' [Hin Hk]]. apply bytes_eqb_eq in Hk. subst k'.
  unfold go_args_contained in H. rewrite forallb_forall in H. specialize (H _ Hin). cbn [fst snd] in H.
  destruct (assoc k b) as [w|]; [|discriminate]. exists w. auto.
Qed.
Lemma args_byname_sound_proof : forall a b, go_args_eqb go_quirks a b = true ->
  length a = length b /\
  forall k, match assoc k a, assoc k b with
            | Some v, Some w => go_value_eqb v w = true
            | None, None => True
            | _, _ => False
            end.
Proof.
  intros a b H. change (go_args_eqb go_quirks a b) with (go_args_eqb_byname a b) in H. unfold go_args_eqb_byname in H.
  apply andb_true_iff in H. destruct H as [H HB]. apply andb_true_iff in H. destruct H as [HL HF]. split.
  - apply Nat.eqb_eq. exact HL.
  - intro k. destruct (assoc k a) as [v|] eqn:Ea.
    + destruct (args_contained_assoc a b HF k v Ea) as [w [Eb Hv]]. rewrite Eb. exact Hv.
    + destruct (assoc k b) as [w|] eqn:Eb; [|exact I].
      destruct (args_contained_assoc b a HB k w Eb) as [v [Ea' _]]. congruence.
Qed.

(* the code before the repair compared position by position *)
Lemma args_positional_refuted_proof :
  exists a b, Permutation a b /\ go_args_eqb old_quirks a b = false.
Proof.
  exists [([120], VInt [49]); ([121], VInt [50])], [([121], VInt [50]); ([120], VInt [49])].
  split. apply perm_swap. vm_compute. reflexivity.
Qed.

(* ---- one step of the rule ---- *)
Definition reqs (st : ovstate) : list req := fst st ++ snd st.

Lemma path_eqb_refl : forall p, path_eqb p p = true.
Proof. induction p; simpl; auto. rewrite bytes_eqb_refl. exact IHp. Qed.

Lemma flat_equal_same_field : forall Q x y, flat_equal Q x y = true -> same_field Q x y = true.
Proof.
  intros Q x y H. destruct x as [a n args d ss| |]; try discriminate. destruct ss; try discriminate.
  destruct y as [a' n' args' d' ss'| |]; try discriminate. destruct ss'; try discriminate.
  simpl in *. apply andb_true_iff in H. destruct H as [H Ha]. apply andb_true_iff in H. destruct H as [Hn _].
  rewrite Hn, Ha. reflexivity.
Qed.

Section Step.
  Variable S : schema.
  Variables (path : list name) (encl : name) (s : selection) (fd : field_def) (key : name).
  Let me := {| rq_path := path; rq_key := key; rq_sel := s; rq_ty := fd_type fd; rq_encl := encl |}.

  (* every field that passes is recorded, nothing is forgotten *)
  Lemma enter_field_fixed_records_proof : forall st st',
    enter_field go_quirks S path encl s fd key st = Some st' ->
    forall r, In r (reqs st') <-> In r (reqs st) \/ r = me.
  Proof.
    intros st st' H r. unfold enter_field in H. simpl in H.
    destruct (is_leaf_kind go_quirks (gkind S (named_of (fd_type fd)))).
    - destruct (existsb _ (snd st)); try discriminate.
      destruct (forallb _ (fst st)); try discriminate. inversion H; subst; clear H.
      unfold reqs. simpl. repeat rewrite in_app_iff. simpl. fold me. intuition.
    - destruct (existsb _ (fst st)); try discriminate.
      destruct (forallb _ (snd st)); try discriminate. inversion H; subst; clear H.
      unfold reqs. simpl. repeat rewrite in_app_iff. simpl. fold me. intuition.
  Qed.

  (* a field that passes was compared with every recorded field of the same response path and key
     whose parent type can be the same object: same name, equal arguments *)
  Lemma enter_field_fixed_compares_proof : forall st st',
    enter_field go_quirks S path encl s fd key st = Some st' ->
    forall r, In r (reqs st) ->
      path_eqb (rq_path r) path = true -> bytes_eqb (rq_key r) key = true ->
      potentially_same S (rq_encl r) encl = true ->
      same_field go_quirks (rq_sel r) s = true.
  Proof.
    intros st st' H r Hin Hp Hk Hps. unfold enter_field in H. simpl in H.
    unfold reqs in Hin. apply in_app_or in Hin.
    destruct (is_leaf_kind go_quirks (gkind S (named_of (fd_type fd)))).
    - destruct (existsb _ (snd st)) eqn:Ex; try discriminate.
      destruct (forallb _ (fst st)) eqn:Fa; try discriminate.
      destruct Hin as [Hin|Hin].
      + rewrite forallb_forall in Fa. specialize (Fa _ Hin). rewrite Hp, Hk, Hps in Fa. simpl in Fa.
        apply andb_true_iff in Fa. destruct Fa as [Fa _]. apply flat_equal_same_field. exact Fa.
      + exfalso. assert (existsb (fun r0 => path_eqb (rq_path r0) path && bytes_eqb (rq_key r0) key) (snd st) = true).
        { apply existsb_exists. exists r. rewrite Hp, Hk. auto. }
        congruence.
    - destruct (existsb _ (fst st)) eqn:Ex; try discriminate.
      destruct (forallb _ (snd st)) eqn:Fa; try discriminate.
      destruct Hin as [Hin|Hin].
      + exfalso. assert (existsb (fun r0 => path_eqb (rq_path r0) path && bytes_eqb (rq_key r0) key) (fst st) = true).
        { apply existsb_exists. exists r. rewrite Hp, Hk. auto. }
        congruence.
      + rewrite forallb_forall in Fa. specialize (Fa _ Hin). rewrite Hp, Hk, Hps in Fa. simpl in Fa.
        apply andb_true_iff in Fa. destruct Fa as [_ Fa]. exact Fa.
  Qed.

  (* a leaf field and a field with a selection set never share a response path and key *)
  Lemma enter_field_fixed_classes_proof : forall st st',
    enter_field go_quirks S path encl s fd key st = Some st' ->
    forall r, In r (if is_leaf_kind go_quirks (gkind S (named_of (fd_type fd))) then snd st else fst st) ->
      path_eqb (rq_path r) path && bytes_eqb (rq_key r) key = false.
  Proof.
    intros st st' H r Hin. unfold enter_field in H. simpl in H.
    destruct (is_leaf_kind go_quirks (gkind S (named_of (fd_type fd)))).
    - destruct (existsb _ (snd st)) eqn:Ex; try discriminate.
      destruct (path_eqb (rq_path r) path && bytes_eqb (rq_key r) key) eqn:E; auto.
      exfalso. assert (existsb (fun r0 => path_eqb (rq_path r0) path && bytes_eqb (rq_key r0) key) (snd st) = true).
      { apply existsb_exists. exists r. auto. } congruence.
    - destruct (existsb _ (fst st)) eqn:Ex; try discriminate.
      destruct (path_eqb (rq_path r) path && bytes_eqb (rq_key r) key) eqn:E; auto.
      exfalso. assert (existsb (fun r0 => path_eqb (rq_path r0) path && bytes_eqb (rq_key r0) key) (fst st) = true).
      { apply existsb_exists. exists r. auto. } congruence.
  Qed.
End Step.

(* for every setting of the flags a step only ever adds requirements *)
Lemma enter_field_mono : forall Q S path encl s fd key st st',
  enter_field Q S path encl s fd key st = Some st' -> incl (reqs st) (reqs st').
Proof.
  intros Q S path encl s fd key st st' H. unfold enter_field in H.
  destruct (is_leaf_kind Q (gkind S (named_of (fd_type fd)))).
  - destruct (negb (q_leaf_vs_composite Q) && existsb _ (snd st)); try discriminate.
    destruct (forallb _ (fst st)); try discriminate. inversion H; subst; clear H.
    unfold reqs. simpl. intros r Hr. apply in_app_or in Hr. repeat rewrite in_app_iff. intuition.
  - destruct (negb (q_leaf_vs_composite Q) && existsb _ (fst st)); try discriminate.
    destruct (forallb _ (snd st)); try discriminate.
    destruct (q_kind_mismatch_dropped Q && existsb _ (snd st)); inversion H; subst; clear H.
    + apply incl_refl.
    + unfold reqs. simpl. intros r Hr. apply in_app_or in Hr. repeat rewrite in_app_iff. intuition.
Qed.

(* ---- the walk ---- *)
Section Walk.
  Variable Q : quirks.
  Variable S : schema.

  (* the local walk of [ov_sel] is [ov_sels] *)
  Lemma walk_eq : forall l path encl st,
    (fix walk (path : list name) (encl : name) (l : list selection) (st : ovstate) {struct l} : option ovstate :=
       match l with
       | [] => Some st
       | x :: r => match ov_sel Q S path encl x st with Some st' => walk path encl r st' | None => None end
       end) path encl l st = ov_sels Q S path encl l st.
  Proof. induction l; intros; simpl; auto; destruct (ov_sel Q S path encl a st); auto. Qed.

  Lemma ov_sel_field : forall path encl a fname args dirs sels st,
    ov_sel Q S path encl (SField a fname args dirs sels) st =
    let s := SField a fname args dirs sels in
    let key := response_name a fname in
    if bytes_eqb fname s_typename then
      match (if q_typename_skipped Q then None else typename_field S encl) with
      | None => ov_sels Q S (path ++ [key]) [83;116;114;105;110;103] sels st
      | Some fd =>
        match enter_field Q S path encl s fd key st with
        | None => None
        | Some st' => ov_sels Q S (path ++ [key]) [83;116;114;105;110;103] sels st'
        end
      end
    else
      match go_field S encl fname with
      | None => None
      | Some fd =>
        match enter_field Q S path encl s fd key st with
        | None => None
        | Some st' => ov_sels Q S (path ++ [key]) (named_of (fd_type fd)) sels st'
        end
      end.
  Proof.
    intros. reflexivity.
  Qed.

  Lemma ov_sel_inline : forall path encl c dirs sels st,
    ov_sel Q S path encl (SInline c dirs sels) st =
    ov_sels Q S path (match c with Some c => c | None => encl end) sels st.
  Proof. intros. reflexivity. Qed.

  Lemma ov_sels_mono_of : forall l,
    Forall (fun s => forall path encl st st', ov_sel Q S path encl s st = Some st' -> incl (reqs st) (reqs st')) l ->
    forall path encl st st', ov_sels Q S path encl l st = Some st' -> incl (reqs st) (reqs st').
  Proof.
    induction 1; simpl; intros path encl st st' E.
    - inversion E. apply incl_refl.
    - destruct (ov_sel Q S path encl x st) eqn:E1; try discriminate.
      eapply incl_tran. eapply H; eauto. eapply IHForall; eauto.
  Qed.

  (* requirements are never forgotten *)
  Lemma ov_sel_mono : forall s path encl st st',
    ov_sel Q S path encl s st = Some st' -> incl (reqs st) (reqs st').
  Proof.
    induction s using selection_ind'; intros path encl st st' E.
    - rewrite ov_sel_field in E. cbv zeta in E.
      destruct (bytes_eqb n s_typename).
      + destruct (if q_typename_skipped Q then None else typename_field S encl).
        * destruct (enter_field Q S path encl (SField a n args dirs sels) f (response_name a n) st) eqn:E1; try discriminate.
          eapply incl_tran. eapply enter_field_mono; eauto. eapply ov_sels_mono_of; eauto.
        * eapply ov_sels_mono_of; eauto.
      + destruct (go_field S encl n); try discriminate.
        destruct (enter_field Q S path encl (SField a n args dirs sels) f (response_name a n) st) eqn:E1; try discriminate.
        eapply incl_tran. eapply enter_field_mono; eauto. eapply ov_sels_mono_of; eauto.
    - rewrite ov_sel_inline in E. eapply ov_sels_mono_of; eauto.
    - simpl in E. inversion E. apply incl_refl.
  Qed.

  Lemma ov_sels_mono : forall l path encl st st',
    ov_sels Q S path encl l st = Some st' -> incl (reqs st) (reqs st').
  Proof.
    intros l. apply ov_sels_mono_of. apply Forall_forall. intros s _. apply ov_sel_mono.
  Qed.

  Lemma ov_sels_app : forall l1 l2 path encl st st',
    ov_sels Q S path encl (l1 ++ l2) st = Some st' ->
    exists st1, ov_sels Q S path encl l1 st = Some st1 /\ ov_sels Q S path encl l2 st1 = Some st'.
  Proof.
    induction l1; simpl; intros l2 path encl st st' E.
    - exists st. auto.
    - destruct (ov_sel Q S path encl a st) eqn:E1; try discriminate.
      apply IHl1 in E. exact E.
  Qed.
End Walk.

(* the field definition the repaired rule uses for a field selection *)
Definition rule_field_def (S : schema) (encl fname : name) : option field_def :=
  if bytes_eqb fname s_typename then typename_field S encl else go_field S encl fname.

(* two sibling fields with the same response key, on a parent type that can be one object, that
   pass the repaired rule are the same field with equal arguments -- whatever their type and
   whatever stands between them.  (A __typename selection takes part when the schema defines the
   meta field for the parent type; asttransform adds it to every type but the subscription root.) *)
Theorem overlap_fixed_siblings_proof : forall S path encl l st st',
  ov_sels go_quirks S path encl l st = Some st' ->
  potentially_same S encl encl = true ->
  forall l1 l2 l3 a n args dirs ss a' n' args' dirs' ss',
    l = l1 ++ SField a n args dirs ss :: l2 ++ SField a' n' args' dirs' ss' :: l3 ->
    response_name a n = response_name a' n' ->
    rule_field_def S encl n <> None -> rule_field_def S encl n' <> None ->
    n = n' /\ go_args_eqb go_quirks args args' = true.
Proof.
  intros S path encl l st st' E Hps l1 l2 l3 a n args dirs ss a' n' args' dirs' ss' Hl Hk Hd Hd'.
  subst l.
  apply ov_sels_app in E. destruct E as [st1 [_ E]]. cbn [ov_sels] in E.
  destruct (ov_sel go_quirks S path encl (SField a n args dirs ss) st1) as [st2|] eqn:Ex; try discriminate.
  apply ov_sels_app in E. destruct E as [st3 [E23 E]]. cbn [ov_sels] in E.
  destruct (ov_sel go_quirks S path encl (SField a' n' args' dirs' ss') st3) as [st4|] eqn:Ey; try discriminate.
  clear E.
  (* x is recorded in st2 *)
  set (x := SField a n args dirs ss) in *.
  assert (Hx : exists fd, In {| rq_path := path; rq_key := response_name a n; rq_sel := x; rq_ty := fd_type fd; rq_encl := encl |} (reqs st2)).
  { unfold x in Ex. rewrite ov_sel_field in Ex. cbv zeta in Ex. unfold rule_field_def in Hd.
    destruct (bytes_eqb n s_typename).
    - simpl in Ex. destruct (typename_field S encl) as [fd|]; try congruence.
      destruct (enter_field go_quirks S path encl (SField a n args dirs ss) fd (response_name a n) st1) as [stx|] eqn:E1; try discriminate.
      exists fd. eapply ov_sels_mono; eauto.
      eapply enter_field_fixed_records_proof; eauto.
    - destruct (go_field S encl n) as [fd|]; try congruence.
      destruct (enter_field go_quirks S path encl (SField a n args dirs ss) fd (response_name a n) st1) as [stx|] eqn:E1; try discriminate.
      exists fd. eapply ov_sels_mono; eauto.
      eapply enter_field_fixed_records_proof; eauto. }
  destruct Hx as [fdx Hx].
  assert (Hx3 : In {| rq_path := path; rq_key := response_name a n; rq_sel := x; rq_ty := fd_type fdx; rq_encl := encl |} (reqs st3)).
  { eapply ov_sels_mono; eauto. }
  (* y is compared with it *)
  assert (Hsf : same_field go_quirks x (SField a' n' args' dirs' ss') = true).
  { rewrite ov_sel_field in Ey. cbv zeta in Ey. unfold rule_field_def in Hd'.
    destruct (bytes_eqb n' s_typename).
    - simpl in Ey. destruct (typename_field S encl) as [fd|]; try congruence.
      destruct (enter_field go_quirks S path encl (SField a' n' args' dirs' ss') fd (response_name a' n') st3) as [sty|] eqn:E1; try discriminate.
      eapply (enter_field_fixed_compares_proof S path encl _ fd _ st3 sty E1 _ Hx3); simpl.
      + apply path_eqb_refl.
      + rewrite Hk. apply bytes_eqb_refl.
      + exact Hps.
    - destruct (go_field S encl n') as [fd|]; try congruence.
      destruct (enter_field go_quirks S path encl (SField a' n' args' dirs' ss') fd (response_name a' n') st3) as [sty|] eqn:E1; try discriminate.
      eapply (enter_field_fixed_compares_proof S path encl _ fd _ st3 sty E1 _ Hx3); simpl.
      + apply path_eqb_refl.
      + rewrite Hk. apply bytes_eqb_refl.
      + exact Hps. }
  unfold x in Hsf. simpl in Hsf. apply andb_true_iff in Hsf. destruct Hsf as [Hn Ha].
  split. apply bytes_eqb_eq. exact Hn. exact Ha.
Qed.
