(* C04 proofs, part 3: what the field-merging rule gives execution: fields of one response key
   whose parent types force it have the same field name, recursively for the merged
   sub-selections.  [J n L] is the membership-based closure of that fact; it follows from
   [merge_ok]. *)
From Coq Require Import List NArith Bool Lia.
From Gv Require Import lib.Bytes lib.Json lib.Gql lib.Exec C04.Spec C04.ProofsBasic.
Import ListNotations.
Open Scope N_scope.

Lemma forall_pairs_In : forall {A} (f : A -> A -> bool) l,
  forall_pairs f l = true -> forall x y, In x l -> In y l -> x = y \/ f x y = true \/ f y x = true.
Proof.
  induction l; simpl; intros H x y Hx Hy; try contradiction.
  apply andb_true_iff in H. destruct H as [H1 H2].
  destruct Hx as [Hx|Hx]; destruct Hy as [Hy|Hy]; subst.
  - left; auto.
  - right; left. eapply forallb_In; eauto.
  - right; right. eapply forallb_In; eauto.
  - apply IHl; auto.
Qed.

Section Merge.
  Variable S : schema.
  Variable frags : list fragment.
  Variable cf : nat.

  Definition fsub (x : fieldctx) (c : list fieldctx) : Prop := fc_sub S frags cf x = Some c.
  Definition name_eq (x y : fieldctx) : bool := bytes_eqb (sel_fname (snd x)) (sel_fname (snd y)).

  Fixpoint J (n : nat) (L : list fieldctx) : Prop :=
    match n with
    | O => L = []
    | Datatypes.S m =>
      forall x y, In x L -> In y L -> same_key x y = true -> forced S x y = true ->
        name_eq x y = true /\ exists cx cy, fsub x cx /\ fsub y cy /\ J m (cx ++ cy)
    end.

  Lemma J_incl : forall n L L', (forall z, In z L' -> In z L) -> J n L -> J n L'.
  Proof.
    destruct n; simpl; intros.
    - subst. destruct L' as [|z0 L']; auto. exfalso. apply (H z0). left; auto.
    - apply H0; auto.
  Qed.

  Lemma same_key_sym : forall x y, same_key x y = same_key y x.
  Proof. intros. unfold same_key. apply bytes_eqb_sym. Qed.
  Lemma forced_sym : forall x y, forced S x y = forced S y x.
  Proof.
    intros. unfold forced. rewrite (bytes_eqb_sym (fst x) (fst y)).
    destruct (bytes_eqb (fst y) (fst x)); simpl; auto. apply orb_comm.
  Qed.
  Lemma name_eq_sym : forall x y, name_eq x y = name_eq y x.
  Proof. intros. unfold name_eq. apply bytes_eqb_sym. Qed.

  Definition self_ok (n : nat) (L : list fieldctx) : Prop :=
    forall z, In z L -> exists cz, fsub z cz /\ merge_ok S frags cf (pred n) cz = true.

  Lemma merge_ok_self : forall n L, merge_ok S frags cf n L = true -> self_ok n L.
  Proof.
    intros n L H z Hz. destruct n; simpl in *.
    - destruct L; simpl in *; try discriminate. contradiction.
    - apply andb_true_iff in H. destruct H as [_ H].
      pose proof (forallb_In _ _ _ H Hz) as Hx. simpl in Hx.
      destruct (fc_sub S frags cf z) eqn:E; try discriminate. eauto.
  Qed.
  Lemma merge_ok_pairs : forall n L, merge_ok S frags cf n L = true -> pairs_ok S frags cf n L = true.
  Proof.
    destruct n; simpl; intros; auto. apply andb_true_iff in H. destruct H; auto.
  Qed.

  Lemma pairs_self_J : forall n L, pairs_ok S frags cf n L = true -> self_ok n L -> J n L.
  Proof.
    induction n; intros L Hp Hs.
    - simpl in *. destruct L; simpl in *; auto; discriminate.
    - simpl. intros x y Hx Hy Hk Hf.
      assert (Hself : forall z cz, In z L -> fsub z cz -> J n cz).
      { intros z cz Hz Hcz. destruct (Hs z Hz) as [cz' [E1 E2]]. unfold fsub in *. rewrite Hcz in E1.
        inversion E1; subst cz'. simpl in E2. apply IHn. apply merge_ok_pairs; auto. apply merge_ok_self; auto. }
      assert (Hselfsub : forall z cz, In z L -> fsub z cz -> self_ok n cz).
      { intros z cz Hz Hcz. destruct (Hs z Hz) as [cz' [E1 E2]]. unfold fsub in *. rewrite Hcz in E1.
        inversion E1; subst cz'. simpl in E2. apply merge_ok_self; auto. }
      assert (Hpair : forall a b, In a L -> In b L -> same_key a b = true -> forced S a b = true ->
                (negb (same_key a b) ||
                 (shape_ok S frags cf (Datatypes.S n) a b &&
                  (negb (forced S a b) ||
                   (bytes_eqb (sel_fname (snd a)) (sel_fname (snd b)) &&
                    args_same (sel_args (snd a)) (sel_args (snd b)) &&
                    match fc_sub S frags cf a, fc_sub S frags cf b with
                    | Some cx, Some cy => pairs_ok S frags cf n (cx ++ cy)
                    | _, _ => false
                    end)))) = true ->
                name_eq a b = true /\ exists cx cy, fsub a cx /\ fsub b cy /\ J n (cx ++ cy)).
      { intros a b Ha Hb Hk' Hf' H. rewrite Hk', Hf' in H. simpl in H.
        apply andb_true_iff in H. destruct H as [_ H].
        apply andb_true_iff in H. destruct H as [H H3]. apply andb_true_iff in H. destruct H as [H1 _].
        split; auto.
        destruct (fc_sub S frags cf a) as [cx|] eqn:Ea; try discriminate.
        destruct (fc_sub S frags cf b) as [cy|] eqn:Eb; try discriminate.
        exists cx, cy. repeat split; auto. apply IHn; auto.
        intros z Hz. apply in_app_or in Hz. destruct Hz as [Hz|Hz].
        - apply (Hselfsub a cx Ha Ea z Hz).
        - apply (Hselfsub b cy Hb Eb z Hz). }
      simpl in Hp.
      destruct (forall_pairs_In _ _ Hp x y Hx Hy) as [E|[E|E]].
      + subst y. split. unfold name_eq. apply bytes_eqb_refl.
        destruct (Hs x Hx) as [cx [E1 E2]]. exists cx, cx. repeat split; auto.
        eapply J_incl. 2: apply (Hself x cx Hx E1).
        intros z Hz. apply in_app_or in Hz. destruct Hz; auto.
      + apply Hpair; auto.
      + rewrite same_key_sym in Hk. rewrite forced_sym in Hf.
        destruct (Hpair y x Hy Hx Hk Hf E) as [N [cy [cx [F1 [F2 F3]]]]].
        split. rewrite name_eq_sym; auto. exists cx, cy. repeat split; auto.
        eapply J_incl. 2: apply F3. intros z Hz. apply in_app_or in Hz. apply in_or_app. tauto.
  Qed.

  Lemma merge_ok_J : forall n L, merge_ok S frags cf n L = true -> J n L.
  Proof.
    intros. apply pairs_self_J. apply merge_ok_pairs; auto. apply merge_ok_self; auto.
  Qed.

  (* the invariant for the union of the sub-selections of one group *)
  Lemma J_union : forall m (cs : list (list fieldctx)),
    (forall a b, In a cs -> In b cs -> J m (a ++ b)) -> J m (concat cs).
  Proof.
    destruct m; simpl; intros cs H.
    - induction cs; simpl; auto.
      assert (a = []). { pose proof (H a a (or_introl eq_refl) (or_introl eq_refl)) as X. destruct a; auto; discriminate. }
      subst. simpl. apply IHcs. intros. apply H; right; auto.
    - intros x y Hx Hy Hk Hf. apply in_concat in Hx. apply in_concat in Hy.
      destruct Hx as [a [Ha Hxa]]. destruct Hy as [b [Hb Hyb]].
      apply (H a b Ha Hb x y); auto; apply in_or_app; auto.
  Qed.
End Merge.
