(* C04 proofs, part 1: byte-string equality, the nested induction principle for selections, lookups,
   subtyping and [type_applies]. *)
From Coq Require Import List NArith Bool Lia.
From Gv Require Import lib.Bytes lib.Json lib.Gql lib.Exec C04.Spec.
Import ListNotations.
Open Scope N_scope.

Lemma bytes_eqb_refl : forall a, bytes_eqb a a = true.
Proof. induction a; simpl; auto. rewrite N.eqb_refl. auto. Qed.
Lemma bytes_eqb_eq : forall a b, bytes_eqb a b = true -> a = b.
Proof.
  induction a; destruct b; simpl; intros; try discriminate; auto.
  apply andb_true_iff in H. destruct H. apply N.eqb_eq in H. subst. f_equal. auto.
Qed.
Lemma bytes_eqb_sym : forall a b, bytes_eqb a b = bytes_eqb b a.
Proof.
  induction a; destruct b; simpl; auto. rewrite N.eqb_sym. rewrite IHa. auto.
Qed.
Lemma mem_bytes_In : forall x l, mem_bytes x l = true -> In x l.
Proof.
  induction l; simpl; intros; try discriminate.
  apply orb_true_iff in H. destruct H; auto. left. symmetry. apply bytes_eqb_eq. auto.
Qed.
Lemma In_mem_bytes : forall x l, In x l -> mem_bytes x l = true.
Proof.
  induction l; simpl; intros; try contradiction.
  destruct H. subst. rewrite bytes_eqb_refl. auto. rewrite IHl; auto. apply orb_true_r.
Qed.

(* nested induction principle *)
Section SelInd.
  Variable P : selection -> Prop.
  Hypothesis Hf : forall a n args dirs sels, Forall P sels -> P (SField a n args dirs sels).
  Hypothesis Hi : forall c dirs sels, Forall P sels -> P (SInline c dirs sels).
  Hypothesis Hs : forall n dirs, P (SSpread n dirs).
  Fixpoint selection_ind' (s : selection) : P s :=
    match s with
    | SField a n args dirs sels =>
      Hf a n args dirs sels ((fix go (l : list selection) : Forall P l :=
                                match l with [] => Forall_nil _ | x :: r => Forall_cons _ (selection_ind' x) (go r) end) sels)
    | SInline c dirs sels =>
      Hi c dirs sels ((fix go (l : list selection) : Forall P l :=
                         match l with [] => Forall_nil _ | x :: r => Forall_cons _ (selection_ind' x) (go r) end) sels)
    | SSpread n dirs => Hs n dirs
    end.
End SelInd.

Lemma find_type_In : forall n ts t, find_type n ts = Some t -> In t ts /\ td_name t = n.
Proof.
  induction ts; simpl; intros; try discriminate.
  destruct (bytes_eqb n (td_name a)) eqn:E.
  - inversion H; subst. split; auto. symmetry. apply bytes_eqb_eq. auto.
  - destruct (IHts _ H). auto.
Qed.
Lemma find_field_name : forall n fs f, find_field n fs = Some f -> fd_name f = n /\ In f fs.
Proof.
  induction fs; simpl; intros; try discriminate.
  destruct (bytes_eqb n (fd_name a)) eqn:E.
  - inversion H; subst. split; auto. symmetry. apply bytes_eqb_eq. auto.
  - destruct (IHfs _ H). auto.
Qed.
Lemma find_entity_In : forall U t k e, find_entity U t k = Some e -> In e U /\ en_type e = t.
Proof.
  induction U; simpl; intros; try discriminate.
  destruct (bytes_eqb (en_type a) t && bytes_eqb (en_key a) k) eqn:E.
  - inversion H; subst. apply andb_true_iff in E. destruct E. split; auto. apply bytes_eqb_eq; auto.
  - destruct (IHU _ _ _ H). auto.
Qed.

Lemma forallb_In : forall {A} (f : A -> bool) l x, forallb f l = true -> In x l -> f x = true.
Proof. intros. rewrite forallb_forall in H. auto. Qed.

(* ---- well-formed schema facts ---- *)
Section Wf.
  Variable S : schema.
  Hypothesis Hwf : schema_wf_b S = true.

  Lemma wf_type : forall n t, find_type n (s_types S) = Some t -> type_wf S t = true.
  Proof.
    intros. unfold schema_wf_b in Hwf. apply andb_true_iff in Hwf. destruct Hwf as [H1 _].
    destruct (find_type_In _ _ _ H). eapply forallb_In; eauto.
  Qed.
  Lemma wf_no_entity : find_type n_Entity (s_types S) = None.
  Proof.
    unfold schema_wf_b in Hwf. apply andb_true_iff in Hwf. destruct Hwf as [_ H2].
    destruct (find_type n_Entity (s_types S)); simpl in H2; auto; discriminate.
  Qed.

  (* an object implementing an interface has each of its fields, with a subtype *)
  Lemma wf_implements_field : forall o to i ti f fd,
    find_type o (s_types S) = Some to -> mem_bytes i (td_implements to) = true ->
    find_type i (s_types S) = Some ti -> find_field f (td_fields ti) = Some fd ->
    exists g, find_field f (td_fields to) = Some g /\ subtype_b S (named_of (fd_type g)) (named_of (fd_type fd)) = true.
  Proof.
    intros o to i ti f fd Ho Hm Hi Hf.
    pose proof (wf_type _ _ Ho) as W. unfold type_wf in W.
    assert (Himp : implements_ok S to = true).
    { destruct (td_kind to); auto; try (apply andb_true_iff in W; destruct W as [W _]);
        destruct (td_implements to); simpl in *; try discriminate. }
    unfold implements_ok in Himp. apply mem_bytes_In in Hm.
    pose proof (forallb_In _ _ _ Himp Hm) as Hx. simpl in Hx. rewrite Hi in Hx.
    destruct (td_kind ti); try discriminate.
    apply andb_true_iff in Hx. destruct Hx as [Hx _].
    destruct (find_field_name _ _ _ Hf) as [Hn Hin].
    pose proof (forallb_In _ _ _ Hx Hin) as Hy. simpl in Hy. rewrite Hn in Hy.
    destruct (find_field f (td_fields to)); try discriminate. eauto.
  Qed.
  Lemma wf_implements_interface : forall o to i ti,
    find_type o (s_types S) = Some to -> mem_bytes i (td_implements to) = true ->
    find_type i (s_types S) = Some ti -> td_kind ti = KInterface.
  Proof.
    intros o to i ti Ho Hm Hi.
    pose proof (wf_type _ _ Ho) as W. unfold type_wf in W.
    assert (Himp : implements_ok S to = true).
    { destruct (td_kind to); auto; try (apply andb_true_iff in W; destruct W as [W _]);
        destruct (td_implements to); simpl in *; try discriminate. }
    unfold implements_ok in Himp. apply mem_bytes_In in Hm.
    pose proof (forallb_In _ _ _ Himp Hm) as Hx. simpl in Hx. rewrite Hi in Hx.
    destruct (td_kind ti); try discriminate. auto.
  Qed.
  Lemma wf_implements_trans : forall o to i ti i',
    find_type o (s_types S) = Some to -> mem_bytes i (td_implements to) = true ->
    find_type i (s_types S) = Some ti -> mem_bytes i' (td_implements ti) = true ->
    mem_bytes i' (td_implements to) = true.
  Proof.
    intros o to i ti i' Ho Hm Hi Hm'.
    pose proof (wf_type _ _ Ho) as W. unfold type_wf in W.
    assert (Himp : implements_ok S to = true).
    { destruct (td_kind to); auto; try (apply andb_true_iff in W; destruct W as [W _]);
        destruct (td_implements to); simpl in *; try discriminate. }
    unfold implements_ok in Himp. apply mem_bytes_In in Hm.
    pose proof (forallb_In _ _ _ Himp Hm) as Hx. simpl in Hx. rewrite Hi in Hx.
    destruct (td_kind ti); try discriminate.
    apply andb_true_iff in Hx. destruct Hx as [_ Hx].
    apply mem_bytes_In in Hm'. apply (forallb_In _ _ _ Hx Hm').
  Qed.
  Lemma wf_implementer_kind : forall o to i,
    find_type o (s_types S) = Some to -> mem_bytes i (td_implements to) = true ->
    td_kind to = KObject \/ td_kind to = KInterface.
  Proof.
    intros o to i Ho Hm. pose proof (wf_type _ _ Ho) as W. unfold type_wf in W.
    destruct (td_kind to); auto; try (apply andb_true_iff in W; destruct W as [W _]);
      destruct (td_implements to); simpl in *; discriminate.
  Qed.
  Lemma wf_union_member : forall u tu m,
    find_type u (s_types S) = Some tu -> td_kind tu = KUnion -> mem_bytes m (td_members tu) = true ->
    exists tm, find_type m (s_types S) = Some tm /\ td_kind tm = KObject.
  Proof.
    intros u tu m Hu Hk Hm. pose proof (wf_type _ _ Hu) as W. unfold type_wf in W. rewrite Hk in W.
    apply andb_true_iff in W. destruct W as [_ W]. apply mem_bytes_In in Hm.
    pose proof (forallb_In _ _ _ W Hm) as Hx. simpl in Hx.
    destruct (find_type m (s_types S)); try discriminate. destruct (td_kind t) eqn:E; try discriminate. eauto.
  Qed.

  (* a concrete type that applies to n also applies to every supertype of n *)
  Lemma type_applies_trans : forall et n n',
    type_applies S et n = true -> subtype_b S n n' = true -> type_applies S et n' = true.
  Proof.
    intros et n n' Ha Hs. unfold subtype_b in Hs. apply orb_true_iff in Hs. destruct Hs as [Hs|Hs].
    { apply bytes_eqb_eq in Hs. subst. auto. }
    destruct (find_type n' (s_types S)) as [t'|] eqn:En'; try discriminate.
    destruct (find_type n (s_types S)) as [t|] eqn:En; try discriminate.
    unfold type_applies in *. apply orb_true_iff in Ha. destruct Ha as [Ha|Ha].
    { apply bytes_eqb_eq in Ha. subst et. rewrite En'. apply orb_true_iff. right.
      destruct (td_kind t') eqn:K; try discriminate; auto. rewrite En. auto. }
    rewrite En in Ha. rewrite En'. apply orb_true_iff. right.
    destruct (td_kind t') eqn:K'; try discriminate.
    - (* n' interface, n implements n' *)
      destruct (td_kind t) eqn:K; try discriminate.
      + (* n interface: et implements n *)
        destruct (find_type et (s_types S)) as [o|] eqn:Eo; try discriminate.
        eapply wf_implements_trans; eauto.
      + (* n union cannot implement *)
        pose proof (wf_type _ _ En) as W. unfold type_wf in W. rewrite K in W.
        apply andb_true_iff in W. destruct W as [W _]. destruct (td_implements t); simpl in *; discriminate.
    - (* n' union with member n: n is an object *)
      destruct (wf_union_member _ _ _ En' K' Hs) as [tm [E1 E2]]. rewrite En in E1. inversion E1; subst tm.
      rewrite E2 in Ha. discriminate.
  Qed.
End Wf.
