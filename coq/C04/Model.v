(* C04 model: the only part of the Go side that is modelled (everything else is compared with
   the specification directly): the normaliser's field merging pass
   (astnormalization/inline_fragment_selection_merging.go, mergeInlineFragmentSelections) followed
   by the leaf de-duplication pass (field_deduplication.go), preceded by removeSelfAliasing, on
   fragment-free, directive-free documents.  [cmp_args = false] is the code before the repair
   (fieldsCanMerge compares name, alias and directives only); [cmp_args = true] the repaired one
   (work/c04_fix_merge.patch).  No proofs here. *)
From Coq Require Import List NArith Bool.
From Gv Require Import lib.Bytes lib.Gql lib.Exec.
Import ListNotations.
Open Scope N_scope.

(* ast.Document.ValuesAreEqual: positional everywhere *)
Fixpoint go_value_eqb (a b : value) {struct a} : bool :=
  match a, b with
  | VVar x, VVar y => bytes_eqb x y
  | VInt x, VInt y => bytes_eqb x y
  | VFloat x, VFloat y => bytes_eqb x y
  | VStr x bx, VStr y by_ => bytes_eqb x y && Bool.eqb bx by_
  | VBool x, VBool y => Bool.eqb x y
  | VNull, VNull => true
  | VEnum x, VEnum y => bytes_eqb x y
  | VList x, VList y =>
    (fix go (x y : list value) : bool :=
       match x, y with
       | [], [] => true
       | p :: x', q :: y' => go_value_eqb p q && go x' y'
       | _, _ => false
       end) x y
  | VObj x, VObj y =>
    (fix go (x y : list (name * value)) : bool :=
       match x, y with
       | [], [] => true
       | (k, p) :: x', (k', q) :: y' => bytes_eqb k k' && go_value_eqb p q && go x' y'
       | _, _ => false
       end) x y
  | _, _ => false
  end.
(* ArgumentSetsAreEquals: same length, pairwise equal in order *)
Fixpoint go_args_eqb (a b : list argument) : bool :=
  match a, b with
  | [], [] => true
  | (k, v) :: a', (k', w) :: b' => bytes_eqb k k' && go_value_eqb v w && go_args_eqb a' b'
  | _, _ => false
  end.
Definition go_dir_eqb (a b : directive) : bool :=
  bytes_eqb (d_name a) (d_name b) && go_args_eqb (d_args a) (d_args b).
(* DirectiveSetsAreEqual: equal as multisets (greedy matching) *)
Fixpoint remove_first (d : directive) (l : list directive) : option (list directive) :=
  match l with
  | [] => None
  | x :: r => if go_dir_eqb d x then Some r
              else match remove_first d r with Some r' => Some (x :: r') | None => None end
  end.
Fixpoint go_dirs_eqb (a b : list directive) : bool :=
  match a with
  | [] => match b with [] => true | _ => false end
  | d :: a' => match remove_first d b with Some b' => go_dirs_eqb a' b' | None => false end
  end.
Definition alias_bytes (a : option name) : name := match a with Some x => x | None => [] end.

Section Merge.
  Variable cmp_args : bool.

  (* fieldsCanMerge / fragmentsCanBeMerged; only selections of the same kind merge, fields only
     when both have sub-selections *)
  Definition can_merge (x y : selection) : bool :=
    match x, y with
    | SField a n args dirs (_ :: _ as sx), SField a' n' args' dirs' (_ :: _) =>
      bytes_eqb n n' && bytes_eqb (alias_bytes a) (alias_bytes a') &&
      (negb cmp_args || go_args_eqb args args') && go_dirs_eqb dirs dirs'
    | SInline c dirs _, SInline c' dirs' _ =>
      bytes_eqb (alias_bytes c) (alias_bytes c') && go_dirs_eqb dirs dirs'
    | _, _ => false
    end.
  Definition absorb_sel (x y : selection) : selection :=
    match x, y with
    | SField a n args dirs sx, SField _ _ _ _ sy => SField a n args dirs (sx ++ sy)
    | SInline c dirs sx, SInline _ _ sy => SInline c dirs (sx ++ sy)
    | _, _ => x
    end.
  (* the left selection absorbs every later selection it can merge with (merging changes neither
     side's name, alias, arguments or directives, so the restart-after-each-merge loop of the
     visitor computes exactly this) *)
  Fixpoint absorb (x : selection) (rest : list selection) : selection * list selection :=
    match rest with
    | [] => (x, [])
    | y :: r =>
      if can_merge x y then absorb (absorb_sel x y) r
      else let '(x', r') := absorb x r in (x', y :: r')
    end.
  Fixpoint merge_level (fuel : nat) (l : list selection) : list selection :=
    match fuel with
    | O => l
    | Datatypes.S f =>
      match l with
      | [] => []
      | x :: r => let '(x', r') := absorb x r in x' :: merge_level f r'
      end
    end.
  Fixpoint merge_sels (fuel : nat) (l : list selection) : list selection :=
    match fuel with
    | O => l
    | Datatypes.S f =>
      map (fun s => match s with
                    | SField a n args dirs ss => SField a n args dirs (merge_sels f ss)
                    | SInline c dirs ss => SInline c dirs (merge_sels f ss)
                    | SSpread _ _ => s
                    end) (merge_level (length l) l)
    end.
End Merge.

(* removeSelfAliasing *)
Fixpoint unalias (s : selection) : selection :=
  match s with
  | SField a n args dirs ss =>
    SField (match a with Some x => if bytes_eqb x n then None else a | None => None end) n args dirs (map unalias ss)
  | SInline c dirs ss => SInline c dirs (map unalias ss)
  | SSpread _ _ => s
  end.

(* deduplicateFields: a later leaf field that is flat-equal (name, alias, arguments in order,
   directive multiset) to an earlier leaf field is removed *)
Definition leaf_equal (x y : selection) : bool :=
  match x, y with
  | SField a n args dirs [], SField a' n' args' dirs' [] =>
    bytes_eqb n n' && bytes_eqb (alias_bytes a) (alias_bytes a') && go_args_eqb args args' && go_dirs_eqb dirs dirs'
  | _, _ => false
  end.
Fixpoint dedup_level (fuel : nat) (l : list selection) : list selection :=
  match fuel with
  | O => l
  | Datatypes.S f =>
    match l with
    | [] => []
    | x :: r => x :: dedup_level f (filter (fun y => negb (leaf_equal x y)) r)
    end
  end.
Fixpoint dedup_sels (fuel : nat) (l : list selection) : list selection :=
  match fuel with
  | O => l
  | Datatypes.S f =>
    map (fun s => match s with
                  | SField a n args dirs ss => SField a n args dirs (dedup_sels f ss)
                  | SInline c dirs ss => SInline c dirs (dedup_sels f ss)
                  | SSpread _ _ => s
                  end) (dedup_level (length l) l)
  end.

Definition norm_sels (cmp_args : bool) (l : list selection) : list selection :=
  let fuel := Datatypes.S (sels_size l) in
  dedup_sels fuel (merge_sels cmp_args fuel (map unalias l)).
Definition norm_doc (cmp_args : bool) (d : document) : document :=
  map (fun df => match df with
                 | DOp o => DOp {| op_kind := op_kind o; op_name := op_name o; op_vars := op_vars o;
                                   op_dirs := op_dirs o; op_sels := norm_sels cmp_args (op_sels o) |}
                 | DFrag f => DFrag f
                 end) d.
(* the repaired code and the code before the repair *)
Definition merge_fields : document -> document := norm_doc true.
Definition merge_fields_ignoring_args : document -> document := norm_doc false.
