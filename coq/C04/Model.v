(* C04 model: the only part of the Go side that is modelled (everything else is compared with
   the specification directly): the normaliser's field merging pass
   (astnormalization/inline_fragment_selection_merging.go, mergeInlineFragmentSelections) followed
   by the leaf de-duplication pass (field_deduplication.go), preceded by removeSelfAliasing, on
   fragment-free documents (directives without execution meaning are compared as
   ast.DirectiveSetsAreEqual does: as multisets).  [cmp_args = false] is the code before the repair
   (fieldsCanMerge compares name, alias and directives only); [cmp_args = true] the repaired one
   (work/c04_fix_merge.patch).  The defects repaired afterwards (work/c04_fix_*.patch) are kept as
   flags of a [quirks] record: [old_quirks] is the code as it was at a156714, [go_quirks] the
   repaired code the correspondence check runs against.  No proofs here. *)
From Coq Require Import List NArith Bool.
From Gv Require Import lib.Bytes lib.Gql lib.Exec.
Import ListNotations.
Open Scope N_scope.

(* ast.Document.ValuesAreEqual: positional everywhere *)
Fixpoint go_value_eqb (a b : value) {struct a} : bool :=
  match a, b with
  | VVar x, VVar y => bytes_eqb x y
  | VInt x, VInt y => bytes_eqb x y
  | VFloat x, VFloat y => bytes_eqb x y
  | VStr x bx, VStr y by_ => bytes_eqb x y && Bool.eqb bx by_
  | VBool x, VBool y => Bool.eqb x y
  | VNull, VNull => true
  | VEnum x, VEnum y => bytes_eqb x y
  | VList x, VList y =>
    (fix go (x y : list value) : bool :=
       match x, y with
       | [], [] => true
       | p :: x', q :: y' => go_value_eqb p q && go x' y'
       | _, _ => false
       end) x y
  | VObj x, VObj y =>
    (fix go (x y : list (name * value)) : bool :=
       match x, y with
       | [], [] => true
       | (k, p) :: x', (k', q) :: y' => bytes_eqb k k' && go_value_eqb p q && go x' y'
       | _, _ => false
       end) x y
  | _, _ => false
  end.
(* the defects of the admission sequence that were repaired after a156714, one flag each
   ([true] = the defect is present) *)
Record quirks := {
  q_args_positional : bool;        (* ArgumentSetsAreEquals compared position by position *)
  q_typename_skipped : bool;       (* FieldSelectionMerging returned at once for __typename *)
  q_enum_nonscalar : bool;         (* ... filed enum-typed fields under the non-scalar requirements *)
  q_composite_uncompared : bool;   (* ... never compared name/arguments of fields with a selection set *)
  q_leaf_vs_composite : bool;      (* ... never compared a leaf field with a field with a selection set *)
  q_kind_mismatch_dropped : bool;  (* ... did not record a field whose type kind differed from a requirement's *)
  q_shape_unrelated : bool;        (* ... did not compare the list / non-null wrappers of unrelated composite types *)
  q_dirs_as_set : bool             (* DirectiveSetsAreEqual compares directive lists as SETS (equal length, every left
                                      directive occurs somewhere on the right).  Never the code of /repo: the variant
                                      exists for the refutation [merge_dirs_as_set_refuted] (seeded regression C04-m7) *)
}.
Definition old_quirks : quirks :=
  {| q_args_positional := true; q_typename_skipped := true; q_enum_nonscalar := true;
     q_composite_uncompared := true; q_leaf_vs_composite := true; q_kind_mismatch_dropped := true;
     q_shape_unrelated := true; q_dirs_as_set := false |}.
Definition go_quirks : quirks :=
  {| q_args_positional := false; q_typename_skipped := false; q_enum_nonscalar := false;
     q_composite_uncompared := false; q_leaf_vs_composite := false; q_kind_mismatch_dropped := false;
     q_shape_unrelated := false; q_dirs_as_set := false |}.
(* the repaired code with directive lists compared as sets *)
Definition set_quirks : quirks :=
  {| q_args_positional := false; q_typename_skipped := false; q_enum_nonscalar := false;
     q_composite_uncompared := false; q_leaf_vs_composite := false; q_kind_mismatch_dropped := false;
     q_shape_unrelated := false; q_dirs_as_set := true |}.

Definition go_arg_eqb (x y : argument) : bool :=
  bytes_eqb (fst x) (fst y) && go_value_eqb (snd x) (snd y).
(* ArgumentSetsAreEquals before the repair: same length, pairwise equal in order *)
Fixpoint go_args_eqb_positional (a b : list argument) : bool :=
  match a, b with
  | [], [] => true
  | x :: a', y :: b' => go_arg_eqb x y && go_args_eqb_positional a' b'
  | _, _ => false
  end.
(* ArgumentSetsAreEquals (work/c04_fix_args-order-sensitive.patch): same length and, in both
   directions, every argument is equal in value to the FIRST argument of its name on the other
   side (argumentsAreContainedIn, slices.IndexFunc) *)
Definition go_args_contained (a b : list argument) : bool :=
  forallb (fun x => match assoc (fst x) b with Some w => go_value_eqb (snd x) w | None => false end) a.
Definition go_args_eqb_byname (a b : list argument) : bool :=
  Nat.eqb (length a) (length b) && go_args_contained a b && go_args_contained b a.

Section Quirks.
Variable Q : quirks.

Definition go_args_eqb (a b : list argument) : bool :=
  if q_args_positional Q then go_args_eqb_positional a b else go_args_eqb_byname a b.
Definition go_dir_eqb (a b : directive) : bool :=
  bytes_eqb (d_name a) (d_name b) && go_args_eqb (d_args a) (d_args b).
(* DirectiveSetsAreEqual: equal as multisets -- every left directive is matched with a DISTINCT
   right one (the matched[j] bookkeeping of the Go loop: the first right directive that is equal
   and not yet taken) and the lengths agree *)
Fixpoint remove_first (d : directive) (l : list directive) : option (list directive) :=
  match l with
  | [] => None
  | x :: r => if go_dir_eqb d x then Some r
              else match remove_first d r with Some r' => Some (x :: r') | None => None end
  end.
Fixpoint go_dirs_eqb_multiset (a b : list directive) : bool :=
  match a with
  | [] => match b with [] => true | _ => false end
  | d :: a' => match remove_first d b with Some b' => go_dirs_eqb_multiset a' b' | None => false end
  end.
(* the set-semantics variant: equal length and every left directive equal to SOME right one *)
Definition go_dirs_eqb_set (a b : list directive) : bool :=
  Nat.eqb (length a) (length b) && forallb (fun d => existsb (go_dir_eqb d) b) a.
Definition go_dirs_eqb (a b : list directive) : bool :=
  if q_dirs_as_set Q then go_dirs_eqb_set a b else go_dirs_eqb_multiset a b.
Definition alias_bytes (a : option name) : name := match a with Some x => x | None => [] end.

Section Merge.
  Variable cmp_args : bool.

  (* fieldsCanMerge / fragmentsCanBeMerged; only selections of the same kind merge, fields only
     when both have sub-selections *)
  Definition can_merge (x y : selection) : bool :=
    match x, y with
    | SField a n args dirs (_ :: _ as sx), SField a' n' args' dirs' (_ :: _) =>
      bytes_eqb n n' && bytes_eqb (alias_bytes a) (alias_bytes a') &&
      (negb cmp_args || go_args_eqb args args') && go_dirs_eqb dirs dirs'
    | SInline c dirs _, SInline c' dirs' _ =>
      bytes_eqb (alias_bytes c) (alias_bytes c') && go_dirs_eqb dirs dirs'
    | _, _ => false
    end.
  Definition absorb_sel (x y : selection) : selection :=
    match x, y with
    | SField a n args dirs sx, SField _ _ _ _ sy => SField a n args dirs (sx ++ sy)
    | SInline c dirs sx, SInline _ _ sy => SInline c dirs (sx ++ sy)
    | _, _ => x
    end.
  (* the left selection absorbs every later selection it can merge with (merging changes neither
     side's name, alias, arguments or directives, so the restart-after-each-merge loop of the
     visitor computes exactly this) *)
  Fixpoint absorb (x : selection) (rest : list selection) : selection * list selection :=
    match rest with
    | [] => (x, [])
    | y :: r =>
      if can_merge x y then absorb (absorb_sel x y) r
      else let '(x', r') := absorb x r in (x', y :: r')
    end.
  Fixpoint merge_level (fuel : nat) (l : list selection) : list selection :=
    match fuel with
    | O => l
    | Datatypes.S f =>
      match l with
      | [] => []
      | x :: r => let '(x', r') := absorb x r in x' :: merge_level f r'
      end
    end.
  Fixpoint merge_sels (fuel : nat) (l : list selection) : list selection :=
    match fuel with
    | O => l
    | Datatypes.S f =>
      map (fun s => match s with
                    | SField a n args dirs ss => SField a n args dirs (merge_sels f ss)
                    | SInline c dirs ss => SInline c dirs (merge_sels f ss)
                    | SSpread _ _ => s
                    end) (merge_level (length l) l)
    end.
End Merge.

(* removeSelfAliasing *)
Fixpoint unalias (s : selection) : selection :=
  match s with
  | SField a n args dirs ss =>
    SField (match a with Some x => if bytes_eqb x n then None else a | None => None end) n args dirs (map unalias ss)
  | SInline c dirs ss => SInline c dirs (map unalias ss)
  | SSpread _ _ => s
  end.

(* deduplicateFields: a later leaf field that is flat-equal (name, alias, arguments in order,
   directive multiset) to an earlier leaf field is removed *)
Definition leaf_equal (x y : selection) : bool :=
  match x, y with
  | SField a n args dirs [], SField a' n' args' dirs' [] =>
    bytes_eqb n n' && bytes_eqb (alias_bytes a) (alias_bytes a') && go_args_eqb args args' && go_dirs_eqb dirs dirs'
  | _, _ => false
  end.
Fixpoint dedup_level (fuel : nat) (l : list selection) : list selection :=
  match fuel with
  | O => l
  | Datatypes.S f =>
    match l with
    | [] => []
    | x :: r => x :: dedup_level f (filter (fun y => negb (leaf_equal x y)) r)
    end
  end.
Fixpoint dedup_sels (fuel : nat) (l : list selection) : list selection :=
  match fuel with
  | O => l
  | Datatypes.S f =>
    map (fun s => match s with
                  | SField a n args dirs ss => SField a n args dirs (dedup_sels f ss)
                  | SInline c dirs ss => SInline c dirs (dedup_sels f ss)
                  | SSpread _ _ => s
                  end) (dedup_level (length l) l)
  end.

Definition norm_sels (cmp_args : bool) (l : list selection) : list selection :=
  let fuel := Datatypes.S (sels_size l) in
  dedup_sels fuel (merge_sels cmp_args fuel (map unalias l)).
Definition norm_doc (cmp_args : bool) (d : document) : document :=
  map (fun df => match df with
                 | DOp o => DOp {| op_kind := op_kind o; op_name := op_name o; op_vars := op_vars o;
                                   op_dirs := op_dirs o; op_sels := norm_sels cmp_args (op_sels o) |}
                 | DFrag f => DFrag f
                 end) d.

(* ---- the validator's FieldSelectionMerging rule (operation_rule_field_selection_merging.go),
   as it runs on the normalised document: one walk in document order keeping "requirements" keyed
   by (path of response keys without inline fragments, response key).  Scalar-typed fields are
   compared with FieldsAreEqualFlat when their enclosing types can be the same object; for every
   other field type the types are compared -- only when the two field TYPES are "potentially the
   same object" (objects of one name, interfaces) -- and, since the repair, name and arguments when
   the enclosing types can be the same object.  [None] = the rule reports an error.  The flags of
   [Q] switch the repaired defects back on (see [quirks]). *)
Section Overlap.
  Variable S : schema.

  Definition gkind (n : name) : option type_kind := kind_of S n.
  Definition go_implements (o i : name) : bool :=
    match find_type o (s_types S) with
    | Some t => match td_kind t with
                | KObject | KInterface => mem_bytes i (td_implements t)
                | _ => false
                end
    | None => false
    end.
  (* NodeImplementsInterfaceFields: o has a field of every name i has *)
  Definition go_has_fields (o i : name) : bool :=
    match find_type o (s_types S), find_type i (s_types S) with
    | Some to, Some ti =>
      forallb (fun f => match find_field (fd_name f) (td_fields to) with Some _ => true | None => false end) (td_fields ti)
    | _, _ => false
    end.
  Definition go_member (o u : name) : bool :=
    match find_type u (s_types S) with Some t => mem_bytes o (td_members t) | None => false end.
  Definition potentially_same (a b : name) : bool :=
    match gkind a, gkind b with
    | Some KInterface, Some KInterface => true
    | Some KInterface, Some KObject => go_implements b a
    | Some KObject, Some KInterface => go_implements a b
    | Some KObject, Some KObject => bytes_eqb a b
    | _, _ => false
    end.
  Definition kind_eqb (a b : option type_kind) : bool :=
    match a, b with
    | None, None => true
    | Some KScalar, Some KScalar | Some KObject, Some KObject | Some KInterface, Some KInterface
    | Some KUnion, Some KUnion | Some KEnum, Some KEnum | Some KInputObject, Some KInputObject => true
    | _, _ => false
    end.
  (* TypesAreCompatibleDeep *)
  Fixpoint go_types_compat (l r : ty) : bool :=
    match l, r with
    | TNamed a, TNamed b =>
      if bytes_eqb a b then true
      else if kind_eqb (gkind a) (gkind b) then false
      else match gkind a, gkind b with
           | Some KInterface, Some KObject => go_has_fields b a
           | Some KObject, Some KInterface => go_has_fields a b
           | Some KUnion, Some KObject => go_member b a
           | Some KObject, Some KUnion => go_member a b
           | _, _ => false
           end
    | TList a, TList b => go_types_compat a b
    | TNonNull a, TNonNull b => go_types_compat a b
    | _, _ => false
    end.
  (* sameTypeWrappers (work/c04_fix_composite-shape-of-unrelated-types-unchecked.patch): the same lists
     and non-nulls around whatever named types *)
  Fixpoint same_wrappers (l r : ty) : bool :=
    match l, r with
    | TNamed _, TNamed _ => true
    | TList a, TList b => same_wrappers a b
    | TNonNull a, TNonNull b => same_wrappers a b
    | _, _ => false
    end.
  (* FieldsAreEqualFlat(left, right, false) without @stream *)
  Definition flat_equal (x y : selection) : bool :=
    match x, y with
    | SField a n args _ [], SField a' n' args' _ [] =>
      bytes_eqb n n' && bytes_eqb (alias_bytes a) (alias_bytes a') && go_args_eqb args args'
    | _, _ => false
    end.

  Record req := { rq_path : list name; rq_key : name; rq_sel : selection; rq_ty : ty; rq_encl : name }.
  Definition ovstate := (list req * list req)%type.      (* scalar, non-scalar requirements *)
  Fixpoint path_eqb (a b : list name) : bool :=
    match a, b with
    | [], [] => true
    | x :: a', y :: b' => bytes_eqb x y && path_eqb a' b'
    | _, _ => false
    end.
  Definition go_field (encl fname : name) : option field_def :=
    match find_type encl (s_types S) with
    | Some td => match td_kind td with
                 | KObject | KInterface => find_field fname (td_fields td)
                 | _ => None
                 end
    | None => None
    end.
  (* the leaf branch of EnterField: scalars, and (work/c04_fix_enum-fields-not-compared.patch) enums *)
  Definition is_leaf_kind (k : option type_kind) : bool :=
    match k with Some KScalar => true | Some KEnum => negb (q_enum_nonscalar Q) | _ => false end.
  (* name and arguments of two fields, whatever their selections
     (work/c04_fix_composite-fields-not-compared.patch) *)
  Definition same_field (x y : selection) : bool :=
    match x, y with
    | SField _ n args _ _, SField _ n' args' _ _ => bytes_eqb n n' && go_args_eqb args args'
    | _, _ => false
    end.
  (* the definition the rule finds for __typename: the meta field asttransform.TypeNameVisitor adds
     to every object type except the subscription root (present in [S] when it was added), to
     every interface and to every union (whose fields the schema dump does not carry) *)
  Definition typename_fd : field_def :=
    {| fd_name := s_typename; fd_args := []; fd_type := TNonNull (TNamed [83;116;114;105;110;103]); fd_dirs := [] |}.
  Definition typename_field (encl : name) : option field_def :=
    match find_type encl (s_types S) with
    | Some td => match td_kind td with
                 | KObject | KInterface => find_field s_typename (td_fields td)
                 | KUnion => Some typename_fd
                 | _ => None
                 end
    | None => None
    end.

  Definition enter_field (path : list name) (encl : name) (s : selection) (fd : field_def) (key : name) (st : ovstate)
    : option ovstate :=
    let fty := fd_type fd in
    let tn := named_of fty in
    let me := {| rq_path := path; rq_key := key; rq_sel := s; rq_ty := fty; rq_encl := encl |} in
    let same r := path_eqb (rq_path r) path && bytes_eqb (rq_key r) key in
    if is_leaf_kind (gkind tn) then
      (* work/c04_fix_leaf-vs-composite-not-compared.patch: the name is taken by a field with selections *)
      if negb (q_leaf_vs_composite Q) && existsb same (snd st) then None else
      (* (a leaf field whose type kind differs from a requirement's never passes the type
         comparison, so the "different kind: not recorded" exit of the Go loop is dead here) *)
      if forallb (fun r =>
            negb (same r) ||
            ((negb (potentially_same (rq_encl r) encl) || flat_equal (rq_sel r) s) &&
             go_types_compat (rq_ty r) fty)) (fst st)
      then Some (fst st ++ [me], snd st) else None
    else
      if negb (q_leaf_vs_composite Q) && existsb same (fst st) then None else
      if forallb (fun r =>
            negb (same r) ||
            ((if potentially_same (named_of (rq_ty r)) tn then go_types_compat (rq_ty r) fty
              else q_shape_unrelated Q || same_wrappers (rq_ty r) fty) &&
             (q_composite_uncompared Q || negb (potentially_same (rq_encl r) encl) || same_field (rq_sel r) s))) (snd st)
      then
        (* work/c04_fix_requirement-dropped-after-kind-mismatch.patch: every field is recorded now *)
        if q_kind_mismatch_dropped Q &&
           existsb (fun r => same r && negb (kind_eqb (gkind (named_of (rq_ty r))) (gkind tn))) (snd st)
        then Some st else Some (fst st, snd st ++ [me])
      else None.

  Fixpoint ov_sel (path : list name) (encl : name) (s : selection) (st : ovstate) {struct s} : option ovstate :=
    let walk :=
      fix walk (path : list name) (encl : name) (l : list selection) (st : ovstate) : option ovstate :=
        match l with
        | [] => Some st
        | x :: r => match ov_sel path encl x st with Some st' => walk path encl r st' | None => None end
        end in
    match s with
    | SField a fname _ _ sels =>
      let key := response_name a fname in
      if bytes_eqb fname s_typename then
        (* work/c04_fix_typename-excluded-from-merging.patch: compared like any other leaf field when
           the schema defines the meta field *)
        match (if q_typename_skipped Q then None else typename_field encl) with
        | None => walk (path ++ [key]) [83;116;114;105;110;103] sels st
        | Some fd =>
          match enter_field path encl s fd key st with
          | None => None
          | Some st' => walk (path ++ [key]) [83;116;114;105;110;103] sels st'
          end
        end
      else
        match go_field encl fname with
        | None => None
        | Some fd =>
          match enter_field path encl s fd key st with
          | None => None
          | Some st' => walk (path ++ [key]) (named_of (fd_type fd)) sels st'
          end
        end
    | SInline cond _ sels => walk path (match cond with Some c => c | None => encl end) sels st
    | SSpread _ _ => Some st
    end.
  Fixpoint ov_sels (path : list name) (encl : name) (l : list selection) (st : ovstate) : option ovstate :=
    match l with
    | [] => Some st
    | x :: r => match ov_sel path encl x st with Some st' => ov_sels path encl r st' | None => None end
    end.
  Definition op_root_name (k : opkind) : name :=
    match k with
    | OpQuery => [113;117;101;114;121]
    | OpMutation => [109;117;116;97;116;105;111;110]
    | OpSubscription => [115;117;98;115;99;114;105;112;116;105;111;110]
    end.
  (* every operation and every fragment definition still present is walked with fresh requirements *)
  Definition overlap_ok (d : document) : bool :=
    forallb (fun o => match root_type S (op_kind o) with
                      | Some rt => match ov_sels [op_root_name (op_kind o)] rt (op_sels o) ([], []) with
                                   | Some _ => true | None => false end
                      | None => false
                      end) (doc_ops d) &&
    forallb (fun f => match gkind (fr_type f) with
                      | Some _ => match ov_sels [fr_type f] (fr_type f) (fr_sels f) ([], []) with
                                  | Some _ => true | None => false end
                      | None => false
                      end) (doc_frags d).
End Overlap.
End Quirks.

(* the normaliser's merge step: the repaired code and the code before a156714 *)
Definition merge_fields : document -> document := norm_doc go_quirks true.
(* the merge step if directive lists were compared as sets (not the code of /repo) *)
Definition merge_fields_dirs_as_set : document -> document := norm_doc set_quirks true.
Definition merge_fields_ignoring_args : document -> document := norm_doc old_quirks false.
(* the validator's FieldSelectionMerging rule: the repaired code (tied to Go by corr:C04/overlap)
   and the rule as it was at a156714 *)
Definition go_overlap_ok : schema -> document -> bool := overlap_ok go_quirks.
Definition go_overlap_ok_pre_repair : schema -> document -> bool := overlap_ok old_quirks.
