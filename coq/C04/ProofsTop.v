(* C04 proofs, part 5: from [spec_valid_b] to the hypotheses of the execution invariant. *)
From Coq Require Import List NArith Bool Lia.
From Gv Require Import lib.Bytes lib.Json lib.Gql lib.Exec C04.Spec C04.ProofsBasic C04.ProofsFlat C04.ProofsMerge C04.ProofsExec.
Import ListNotations.
Open Scope N_scope.

Lemma check_true : forall (l : list (rule * bool)) r b, forallb snd l = true -> In (r, b) l -> b = true.
Proof. intros. pose proof (forallb_In _ _ _ H H0). auto. Qed.

Lemma spreads_of_app : forall a b, spreads_of (a ++ b) = spreads_of a ++ spreads_of b.
Proof. intros. unfold spreads_of. rewrite flat_map_app. rewrite flat_map_app. auto. Qed.
Lemma spreads_of_cons : forall s r, spreads_of (s :: r) = spreads_of [s] ++ spreads_of r.
Proof. intros. apply (spreads_of_app [s] r). Qed.
Lemma spreads_of_field : forall a n args d ss, spreads_of [SField a n args d ss] = spreads_of ss.
Proof. intros. unfold spreads_of. simpl. rewrite app_nil_r. auto. Qed.
Lemma spreads_of_inline : forall c d ss, spreads_of [SInline c d ss] = spreads_of ss.
Proof. intros. unfold spreads_of. simpl. rewrite app_nil_r. auto. Qed.
Lemma spreads_of_In : forall sels s m, In s sels -> In m (spreads_of [s]) -> In m (spreads_of sels).
Proof.
  induction sels; simpl; intros; try contradiction. rewrite spreads_of_cons. apply in_or_app.
  destruct H. subst; auto. right. eapply IHsels; eauto.
Qed.

Section Top.
  Variable S : schema.
  Variable frags : list fragment.
  Variable R : list name.

  Definition node_ok (nd : name * selection) : bool :=
    node_field_exists S nd && node_leaf_shape S nd && node_frag_type S nd.

  Lemma good_of_nodes : forall s p,
    (forall nd, In nd (nodes S p s) -> node_ok nd = true) ->
    (forall m, In m (spreads_of [s]) -> mem_bytes m R = true) ->
    good_b S R p s = true.
  Proof.
    induction s using selection_ind'; intros p Hn Hs.
    - simpl. pose proof (Hn (p, SField a n args dirs sels)) as H0. simpl in H0.
      assert (X : node_ok (p, SField a n args dirs sels) = true) by (apply H0; left; auto).
      unfold node_ok, node_field_exists, node_leaf_shape, node_frag_type in X. simpl in X.
      destruct (lookup_field S p n) as [fd|] eqn:El; simpl in X; try discriminate.
      rewrite andb_true_r in X.
      apply andb_true_iff. split.
      + destruct (is_leaf S (named_of (fd_type fd))); auto. simpl.
        destruct (is_composite S (named_of (fd_type fd))); auto.
      + apply forallb_forall. intros x Hx. rewrite Forall_forall in H. apply H; auto.
        * intros nd Hnd. apply Hn. simpl. rewrite El. right. apply in_flat_map. exists x. auto.
        * intros m Hm. apply Hs. rewrite spreads_of_field. eapply spreads_of_In; eauto.
    - simpl. pose proof (Hn (p, SInline c dirs sels)) as H0. simpl in H0.
      assert (X : node_ok (p, SInline c dirs sels) = true) by (apply H0; left; auto).
      unfold node_ok, node_field_exists, node_leaf_shape, node_frag_type in X. simpl in X.
      apply andb_true_iff. split.
      + destruct c; auto.
      + apply forallb_forall. intros x Hx. rewrite Forall_forall in H. apply H; auto.
        * intros nd Hnd. apply Hn. simpl. right. apply in_flat_map. exists x. auto.
        * intros m Hm. apply Hs. rewrite spreads_of_inline. eapply spreads_of_In; eauto.
    - simpl. apply Hs. unfold spreads_of. simpl. left; auto.
  Qed.

  Lemma good_list : forall sels p,
    (forall nd, In nd (flat_map (nodes S p) sels) -> node_ok nd = true) ->
    (forall m, In m (spreads_of sels) -> mem_bytes m R = true) ->
    forallb (good_b S R p) sels = true.
  Proof.
    intros. apply forallb_forall. intros x Hx. apply good_of_nodes.
    - intros. apply H. apply in_flat_map. exists x; auto.
    - intros. apply H0. eapply spreads_of_In; eauto.
  Qed.
End Top.

Lemma is_object_objk : forall S rt, is_object S rt = true ->
  exists td, find_type rt (s_types S) = Some td /\ td_kind td = KObject.
Proof.
  intros. unfold is_object, kind, kind_of in H. destruct (builtin_scalar rt); try discriminate.
  destruct (find_type rt (s_types S)) as [td|]; try discriminate.
  destruct (td_kind td) eqn:K; try discriminate. eauto.
Qed.

Lemma root_in_roots : forall S k rt, root_type S k = Some rt -> In rt (schema_roots S).
Proof.
  intros. unfold schema_roots. destruct k; simpl in H.
  - inversion H. left; auto.
  - rewrite H. right. apply in_or_app. left. left; auto.
  - rewrite H. right. apply in_or_app. right. left; auto.
Qed.

Lemma frag_defs_In : forall frags names n fr,
  In n names -> find_frag n frags = Some fr -> In fr (frag_defs frags names).
Proof.
  intros. unfold frag_defs. apply in_flat_map. exists n. split; auto. rewrite H0. left; auto.
Qed.

Lemma mk_ctx_inv : forall S d op c, mk_ctx S d op = Some c ->
  pick_op d op = Some (cx_op c) /\ root_type S (op_kind (cx_op c)) = Some (cx_root c) /\
  cx_frags c = doc_frags d.
Proof.
  intros S d op c H. unfold mk_ctx in H.
  destruct (pick_op d op) as [o|]; try discriminate.
  destruct (root_type S (op_kind o)) as [rt|] eqn:Er; try discriminate.
  inversion H; subst; simpl. auto.
Qed.

Theorem spec_valid_exec_safe_proof : forall S U d op supplied fuel,
  schema_wf_b S = true -> universe_wf_b S U = true -> spec_valid_b S d op = true ->
  NoInv (rs_errs (execute fuel S U Mono d op supplied)).
Proof.
  intros S U d op supplied fuel Hwf HUw Hv.
  unfold spec_valid_b in Hv. destruct (mk_ctx S d op) as [c|] eqn:Ec; try discriminate.
  destruct (mk_ctx_inv _ _ _ _ Ec) as [Eo [Er Efr]]. clear Ec.
  unfold execute. rewrite Eo, Er.
  remember (cx_op c) as o. remember (cx_root c) as rt. remember (cx_reached c) as Rn. remember (cx_fuel c) as fu.
  assert (Hck : forall r b, In (r, b) (checks S c) -> b = true) by (intros; eapply check_true; eauto).
  clear Hv.
  unfold universe_wf_b in HUw. apply andb_true_iff in HUw. destruct HUw as [HU1 HU2].
  assert (HU : forall e, In e U -> exists td, find_type (en_type e) (s_types S) = Some td /\ td_kind td = KObject).
  { intros e He. pose proof (forallb_In _ _ _ HU1 He) as X. cbv beta in X.
    destruct (find_type (en_type e) (s_types S)) as [td|]; try discriminate.
    destruct (td_kind td) eqn:K; try discriminate. eauto. }
  pose proof (forallb_In _ _ _ HU2 (root_in_roots _ _ _ Er)) as Hroot. cbv beta in Hroot.
  destruct (find_entity U rt []) as [root|] eqn:Eroot; try discriminate. clear Hroot HU1 HU2.
  (* the individual checks *)
  assert (C_op : is_object S rt = true).
  { subst rt. eapply Hck. unfold checks. left. reflexivity. }
  assert (C_fe : forallb (node_field_exists S) (all_nodes S c) = true).
  { eapply Hck. unfold checks. right; left. reflexivity. }
  assert (C_ls : forallb (node_leaf_shape S) (all_nodes S c) = true).
  { eapply Hck. unfold checks. do 2 right; left. reflexivity. }
  assert (C_fk : forallb (fun n => is_some (find_frag n (cx_frags c))) (cx_reached c) &&
                 closed_b (cx_frags c) (op_sels (cx_op c)) (cx_reached c) = true).
  { eapply Hck. unfold checks. do 9 right; left. reflexivity. }
  assert (C_ft : forallb (fun f => is_composite S (fr_type f)) (frag_defs (cx_frags c) (cx_reached c)) &&
                 forallb (node_frag_type S) (all_nodes S c) = true).
  { eapply Hck. unfold checks. do 11 right; left. reflexivity. }
  assert (C_mg : match root_fields c with
                 | Some l => merge_ok S (cx_frags c) (cx_fuel c) (cx_fuel c) l
                 | None => false
                 end = true).
  { eapply Hck. unfold checks. do 14 right; left. reflexivity. }
  clear Hck.
  unfold root_fields in C_mg. unfold all_nodes in *.
  rewrite Efr in *. rewrite <- Heqo, <- Heqrt, <- HeqRn, <- Heqfu in *.
  apply andb_true_iff in C_fk. destruct C_fk as [C_fk C_cl].
  apply andb_true_iff in C_ft. destruct C_ft as [_ C_ft].
  unfold closed_b in C_cl. apply andb_true_iff in C_cl. destruct C_cl as [C_cl1 C_cl2].
  assert (Hnode : forall nd,
            In nd (flat_map (nodes S rt) (op_sels o) ++
                   flat_map (fun f => flat_map (nodes S (fr_type f)) (fr_sels f)) (frag_defs (doc_frags d) Rn)) ->
            node_ok S nd = true).
  { intros nd Hnd. unfold node_ok.
    rewrite (forallb_In _ _ _ C_fe Hnd), (forallb_In _ _ _ C_ls Hnd), (forallb_In _ _ _ C_ft Hnd). auto. }
  assert (HR : forall n, mem_bytes n Rn = true ->
            exists fr, find_frag n (doc_frags d) = Some fr /\
                       forallb (good_b S Rn (fr_type fr)) (fr_sels fr) = true).
  { intros n Hn. apply mem_bytes_In in Hn.
    pose proof (forallb_In _ _ _ C_fk Hn) as X. cbv beta in X.
    destruct (find_frag n (doc_frags d)) as [fr|] eqn:Ef; try discriminate.
    exists fr. split; auto.
    pose proof (frag_defs_In _ _ _ _ Hn Ef) as Hin.
    apply good_list.
    - intros nd Hnd. apply Hnode. apply in_or_app. right. apply in_flat_map. exists fr. auto.
    - intros m Hm. pose proof (forallb_In _ _ _ C_cl2 Hin) as Y. cbv beta in Y.
      apply (forallb_In _ _ _ Y Hm). }
  assert (Hgood : forallb (good_b S Rn rt) (op_sels o) = true).
  { apply good_list.
    - intros nd Hnd. apply Hnode. apply in_or_app. left. auto.
    - intros m Hm. apply (forallb_In _ _ _ C_cl1 Hm). }
  destruct (collect (doc_frags d) fu rt (op_sels o)) as [l|] eqn:Ecol; try discriminate.
  pose proof (merge_ok_J S (doc_frags d) fu fu l C_mg) as HJ.
  destruct (exec_noinv S U (doc_frags d)
              (effective_vars o match supplied with JObj m => m | _ => [] end) Rn fu Hwf HU HR fuel) as [PS_ _].
  assert (Htag : tagged_ok S (doc_frags d) Rn rt l (map (pair rt) (op_sels o))).
  { eapply tagged_sub; eauto. unfold type_applies. rewrite bytes_eqb_refl. auto. apply incl_refl. }
  pose proof (PS_ rt {| ov_ent := root; ov_repr := None |} (map (pair rt) (op_sels o)) [] fu l
                  (is_object_objk _ _ C_op) Htag HJ) as X.
  rewrite map_snd_pair in X. cbv zeta.
  destruct (exec_sels S U (doc_frags d) (effective_vars o match supplied with JObj m => m | _ => [] end) Mono fuel rt
              {| ov_ent := root; ov_repr := None |} (op_sels o) []) as [r errs].
  exact X.
Qed.

(* the reached fragment set of a valid operation: every name is defined, on a composite type, and
   the set is closed under the spreads of the operation and of its members *)
Theorem spec_valid_fragment_closed_proof : forall S d op,
  spec_valid_b S d op = true ->
  exists c, mk_ctx S d op = Some c /\
    (forall m, In m (spreads_of (op_sels (cx_op c))) -> In m (cx_reached c)) /\
    (forall n, In n (cx_reached c) ->
       exists fr, find_frag n (doc_frags d) = Some fr /\ is_composite S (fr_type fr) = true /\
                  forall m, In m (spreads_of (fr_sels fr)) -> In m (cx_reached c)).
Proof.
  intros S d op Hv. unfold spec_valid_b in Hv. destruct (mk_ctx S d op) as [c|] eqn:Ec; try discriminate.
  exists c. split; auto.
  destruct (mk_ctx_inv _ _ _ _ Ec) as [_ [_ Efr]].
  assert (Hck : forall r b, In (r, b) (checks S c) -> b = true) by (intros; eapply check_true; eauto).
  assert (C_fk : forallb (fun n => is_some (find_frag n (cx_frags c))) (cx_reached c) &&
                 closed_b (cx_frags c) (op_sels (cx_op c)) (cx_reached c) = true).
  { eapply Hck. unfold checks. do 9 right; left. reflexivity. }
  assert (C_ft : forallb (fun f => is_composite S (fr_type f)) (frag_defs (cx_frags c) (cx_reached c)) &&
                 forallb (node_frag_type S) (all_nodes S c) = true).
  { eapply Hck. unfold checks. do 11 right; left. reflexivity. }
  rewrite Efr in *.
  apply andb_true_iff in C_fk. destruct C_fk as [C_fk C_cl].
  apply andb_true_iff in C_ft. destruct C_ft as [C_ft _].
  unfold closed_b in C_cl. apply andb_true_iff in C_cl. destruct C_cl as [C_cl1 C_cl2].
  split.
  - intros m Hm. apply mem_bytes_In. apply (forallb_In _ _ _ C_cl1 Hm).
  - intros n Hn. pose proof (forallb_In _ _ _ C_fk Hn) as X. cbv beta in X.
    destruct (find_frag n (doc_frags d)) as [fr|] eqn:Ef; try discriminate.
    exists fr. split; auto.
    pose proof (frag_defs_In _ _ _ _ Hn Ef) as Hin. split.
    + apply (forallb_In _ _ _ C_ft Hin).
    + intros m Hm. apply mem_bytes_In. pose proof (forallb_In _ _ _ C_cl2 Hin) as Y. cbv beta in Y.
      apply (forallb_In _ _ _ Y Hm).
Qed.
