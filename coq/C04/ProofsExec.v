(* C04 proofs, part 4: a spec-valid operation never makes the reference executor report a static
   error (XInvalid), except for the two introspection root fields it does not implement. *)
From Coq Require Import List NArith Bool Lia.
From Gv Require Import lib.Bytes lib.Json lib.Gql lib.Exec C04.Spec C04.ProofsBasic C04.ProofsFlat C04.ProofsMerge.
Import ListNotations.
Open Scope N_scope.

Definition NoInv (errs : list xerr) : Prop :=
  forall r, In (XInvalid r) errs -> r = n_schema \/ r = n_type.
Lemma NoInv_nil : NoInv []. Proof. intros r H; contradiction. Qed.
Lemma NoInv_xerr : forall p, NoInv [XErr p].
Proof. intros p r H. simpl in H. destruct H as [H|H]; [discriminate H|contradiction]. Qed.
Lemma NoInv_fuel : NoInv [XOutOfFuel].
Proof. intros r H. simpl in H. destruct H as [H|H]; [discriminate H|contradiction]. Qed.
Lemma NoInv_app : forall a b, NoInv a -> NoInv b -> NoInv (a ++ b).
Proof. intros a b Ha Hb r H. apply in_app_or in H. destruct H; auto. Qed.
#[export] Hint Resolve NoInv_nil NoInv_xerr NoInv_fuel NoInv_app : noinv.

Lemma fold_left_inv : forall {A B} (P : A -> Prop) (g : A -> B -> A) l a,
  P a -> (forall a b, In b l -> P a -> P (g a b)) -> P (fold_left g l a).
Proof.
  induction l; simpl; intros; [assumption|]. apply IHl. apply H0; auto. intros. apply H0; auto.
Qed.

Section Exec.
  Variable S : schema.
  Variable U : universe.
  Variable frags : list fragment.
  Variable vars : list (bytes * json).
  Variable R : list name.
  Variable cf : nat.

  Hypothesis Hwf : schema_wf_b S = true.
  Hypothesis HU : forall e, In e U -> exists td, find_type (en_type e) (s_types S) = Some td /\ td_kind td = KObject.
  Hypothesis HR : forall n, mem_bytes n R = true ->
    exists fr, find_frag n frags = Some fr /\ forallb (good_b S R (fr_type fr)) (fr_sels fr) = true.

  Notation xsels := (exec_sels S U frags vars Mono).
  Notation xfield := (exec_field S U frags vars Mono).
  Notation xcomplete := (complete S U frags vars Mono).

  Definition go_groups (f : nat) (objty : name) (ov : oval) (path : list pel) :=
    fix go (gs : list (name * selection * list selection)) : option (list (bytes * json)) * list xerr :=
      match gs with
      | [] => (Some [], [])
      | (key, s, subs) :: rest =>
        let r := xfield f objty ov key s subs (path ++ [PN key]) in
        if c_viol r then (None, c_errs r)
        else
          let '(o, e2) := go rest in
          (match o with Some l => Some ((key, c_json r) :: l) | None => None end, c_errs r ++ e2)
      end.

  Lemma exec_sels_S : forall f objty ov sels path,
    xsels (Datatypes.S f) objty ov sels path =
    match flatten S frags vars (Datatypes.S f) objty sels with
    | FlatBad e => (None, [e])
    | FlatOk fl => go_groups f objty ov path (group (Datatypes.S (length fl)) fl)
    end.
  Proof. reflexivity. Qed.

  Lemma exec_field_S : forall f objty ov key a fname args dirs ss subs path,
    xfield (Datatypes.S f) objty ov key (SField a fname args dirs ss) subs path =
    if bytes_eqb fname s_typename then {| c_json := JStr objty; c_errs := []; c_viol := false |}
    else
      match find_type objty (s_types S) with
      | None => {| c_json := JNull; c_errs := [XInvalid objty]; c_viol := true |}
      | Some td =>
        match find_field fname (td_fields td) with
        | None => {| c_json := JNull; c_errs := [XInvalid fname]; c_viol := true |}
        | Some fd =>
          let cargs := coerce_args S vars (fd_args fd) args in
          let fv := match assoc fname (en_fields (ov_ent ov)) with Some v => v | None => FSc JNull end in
          xcomplete f (fd_type fd) ov fname cargs fv subs path
        end
      end.
  Proof. reflexivity. Qed.

  Lemma leaf_value_noinv : forall ov fname args fv path, NoInv (c_errs (leaf_value Mono ov fname args fv path)).
  Proof.
    intros. destruct fv; simpl; auto with noinv.
    match goal with |- context [if ?c then _ else _] => destruct c end; simpl; auto with noinv.
  Qed.

  Definition objk (o : name) : Prop :=
    exists td, find_type o (s_types S) = Some td /\ td_kind td = KObject.

  (* ---- what a good field selection means on the concrete object type ---- *)
  Lemma field_on_object : forall objty td p a fname args dirs ss,
    find_type objty (s_types S) = Some td -> td_kind td = KObject ->
    type_applies S objty p = true ->
    good_b S R p (SField a fname args dirs ss) = true ->
    bytes_eqb fname s_typename = false ->
    exists fd', lookup_field S p fname = Some fd' /\
      match find_field fname (td_fields td) with
      | None => fname = n_schema \/ fname = n_type
      | Some fd => subtype_b S (named_of (fd_type fd)) (named_of (fd_type fd')) = true
      end.
  Proof.
    intros objty td p a fname args dirs ss Ho Hk Ha Hg Hn. simpl in Hg.
    destruct (lookup_field S p fname) as [fd'|] eqn:El; try discriminate.
    exists fd'. split; auto.
    unfold lookup_field in El. rewrite Hn in El.
    destruct (find_type p (s_types S)) as [tdp|] eqn:Ep; try discriminate.
    unfold type_applies in Ha. rewrite Ep in Ha. apply orb_true_iff in Ha.
    destruct (td_kind tdp) eqn:Kp; try discriminate.
    - (* p is an object type: objty = p *)
      destruct Ha as [Ha|Ha]; try discriminate. apply bytes_eqb_eq in Ha. subst p.
      rewrite Ho in Ep. inversion Ep; subst tdp.
      destruct (find_field fname (td_fields td)) as [fd|] eqn:Ef.
      + inversion El; subst. unfold subtype_b. rewrite bytes_eqb_refl. auto.
      + destruct (bytes_eqb objty (s_query S)); try discriminate.
        destruct (bytes_eqb fname n_schema) eqn:E1. left. apply bytes_eqb_eq; auto.
        destruct (bytes_eqb fname n_type) eqn:E2. right. apply bytes_eqb_eq; auto. discriminate.
    - (* p is an interface *)
      destruct Ha as [Ha|Ha].
      + apply bytes_eqb_eq in Ha. subst p. rewrite Ho in Ep. inversion Ep; subst tdp. congruence.
      + rewrite Ho in Ha.
        destruct (wf_implements_field S Hwf _ _ _ _ _ _ Ho Ha Ep El) as [g [G1 G2]].
        rewrite G1. auto.
  Qed.

  Lemma forced_of_applies : forall objty p q s1 s2,
    type_applies S objty p = true -> type_applies S objty q = true ->
    forced S (p, s1) (q, s2) = true.
  Proof.
    intros. unfold forced. simpl.
    destruct (is_object S p) eqn:Op; simpl; [|rewrite orb_true_r; auto].
    destruct (is_object S q) eqn:Oq; simpl; [|apply orb_true_r].
    repeat rewrite orb_false_r.
    assert (X : forall t, is_object S t = true -> type_applies S objty t = true -> objty = t).
    { intros t Ht Hta. unfold is_object, kind, kind_of in Ht.
      destruct (builtin_scalar t); try discriminate.
      destruct (find_type t (s_types S)) as [tt|] eqn:Et; try discriminate.
      destruct (td_kind tt) eqn:Kt; try discriminate.
      unfold type_applies in Hta. rewrite Et, Kt in Hta. rewrite orb_false_r in Hta. apply bytes_eqb_eq; auto. }
    rewrite <- (X p Op H). rewrite <- (X q Oq H0). apply bytes_eqb_refl.
  Qed.

  Lemma complete_S : forall f t ov fname cargs fv subs path,
    xcomplete (Datatypes.S f) t ov fname cargs fv subs path =
    match t with
    | TNonNull t' =>
      let r := xcomplete f t' ov fname cargs fv subs path in
      match c_json r with
      | JNull => {| c_json := JNull;
                    c_errs := match c_errs r with [] => [XErr path] | e => e end;
                    c_viol := true |}
      | _ => r
      end
    | TList t' =>
      match fv with
      | FLst items =>
        let '(out, errs, viol, _) :=
          fold_left (fun acc it =>
            let '(out, errs, viol, i) := acc in
            let r := xcomplete f t' ov fname cargs it subs (path ++ [PI i]) in
            (out ++ [c_json r], errs ++ c_errs r, viol || c_viol r, i + 1)) items ([], [], false, 0) in
        if viol then cnull errs else {| c_json := JArr out; c_errs := errs; c_viol := false |}
      | FSc JNull | FNullRef => cnull []
      | FSc (JArr js) => xcomplete f t ov fname cargs (FLst (map FSc js)) subs path
      | _ => cnull [XErr path]
      end
    | TNamed n =>
      match kind_of S n with
      | Some KScalar | Some KEnum => leaf_value Mono ov fname cargs fv path
      | Some KObject | Some KInterface | Some KUnion | None =>
        let target :=
          match fv with
          | FRef t' k => match find_entity U t' k with Some e => Some (Some e) | None => None end
          | FLookup t' a =>
            match assoc a cargs with
            | Some j => Some (find_entity U t' (json_key_string j))
            | None => Some None
            end
          | FNullRef | FSc JNull => Some None
          | _ => None
          end in
        match target with
        | None => cnull [XErr path]
        | Some None => cnull []
        | Some (Some e) =>
          if negb (match kind_of S n with None => bytes_eqb n [95;69;110;116;105;116;121] | _ => possible S n (en_type e) end)
          then cnull [XErr path]
          else
            let '(o, errs) := xsels f (en_type e) {| ov_ent := e; ov_repr := None |} subs path in
            match o with
            | Some l => {| c_json := JObj l; c_errs := errs; c_viol := false |}
            | None => cnull errs
            end
        end
      | Some KInputObject => cnull [XInvalid n]
      end
    end.
  Proof. reflexivity. Qed.

  (* ---- the three statements proved together by induction on the fuel ---- *)
  Definition P_sels (f : nat) : Prop :=
    forall objty ov PS path n L,
      objk objty -> tagged_ok S frags R objty L PS -> J S frags cf n L ->
      NoInv (snd (xsels f objty ov (map snd PS) path)).
  Definition P_field (f : nat) : Prop :=
    forall objty ov key s ms path n L,
      objk objty -> In s ms ->
      (forall m, In m ms -> flat_field_ok S R objty L m /\ bytes_eqb (sel_key m) key = true) ->
      J S frags cf n L ->
      NoInv (c_errs (xfield f objty ov key s (flat_map sub_of ms) path)).
  Definition P_complete (f : nat) : Prop :=
    forall t ov fname cargs fv PS path n L,
      (forall et, objk et -> type_applies S et (named_of t) = true -> tagged_ok S frags R et L PS) ->
      J S frags cf n L ->
      (is_leaf S (named_of t) || is_composite S (named_of t)) = true ->
      NoInv (c_errs (xcomplete f t ov fname cargs fv (map snd PS) path)).

  Lemma P_complete_step : forall f, P_sels f -> P_complete f -> P_complete (Datatypes.S f).
  Proof.
    intros f IHs IHc t ov fname cargs fv PS path n L Htag HJ Hkind.
    rewrite complete_S. destruct t as [nm|t'|t'].
    - (* named *)
      simpl in Hkind, Htag.
      unfold is_leaf, is_composite, kind in Hkind.
      destruct (kind_of S nm) as [k|] eqn:K; simpl in Hkind; try discriminate.
      assert (Hcomp : forall (kk : type_kind), NoInv (c_errs
        (let target :=
          match fv with
          | FRef t' k => match find_entity U t' k with Some e => Some (Some e) | None => None end
          | FLookup t' a =>
            match assoc a cargs with
            | Some j => Some (find_entity U t' (json_key_string j))
            | None => Some None
            end
          | FNullRef | FSc JNull => Some None
          | _ => None
          end in
        match target with
        | None => cnull [XErr path]
        | Some None => cnull []
        | Some (Some e) =>
          if negb (possible S nm (en_type e))
          then cnull [XErr path]
          else
            let '(o, errs) := xsels f (en_type e) {| ov_ent := e; ov_repr := None |} (map snd PS) path in
            match o with
            | Some l => {| c_json := JObj l; c_errs := errs; c_viol := false |}
            | None => cnull errs
            end
        end))).
      { intros _.
        assert (Hent : forall e, In e U -> NoInv (c_errs
          (if negb (possible S nm (en_type e))
           then cnull [XErr path]
           else
             let '(o, errs) := xsels f (en_type e) {| ov_ent := e; ov_repr := None |} (map snd PS) path in
             match o with
             | Some l => {| c_json := JObj l; c_errs := errs; c_viol := false |}
             | None => cnull errs
             end))).
        { intros e He. destruct (possible S nm (en_type e)) eqn:Ps; simpl; auto with noinv.
          unfold possible in Ps. apply orb_true_iff in Ps.
          assert (Hta : type_applies S (en_type e) nm = true).
          { destruct Ps as [Ps|Ps]; auto. apply bytes_eqb_eq in Ps. subst nm.
            pose proof (wf_no_entity S Hwf) as NE. unfold n_Entity in NE.
            unfold kind_of in K. simpl in K. rewrite NE in K. discriminate. }
          pose proof (IHs (en_type e) {| ov_ent := e; ov_repr := None |} PS path n L (HU e He)
                          (Htag (en_type e) (HU e He) Hta) HJ) as X.
          destruct (xsels f (en_type e) {| ov_ent := e; ov_repr := None |} (map snd PS) path) as [o errs].
          simpl in X. destruct o; simpl; auto. }
        destruct fv; simpl; auto with noinv.
        - destruct j; simpl; auto with noinv.
        - destruct (find_entity U t key) as [e|] eqn:Ef; simpl; auto with noinv.
          apply Hent. apply (find_entity_In _ _ _ _ Ef).
        - destruct (assoc arg cargs); simpl; auto with noinv.
          destruct (find_entity U t (json_key_string j)) as [e|] eqn:Ef; simpl; auto with noinv.
          apply Hent. apply (find_entity_In _ _ _ _ Ef). }
      destruct k; try discriminate; try apply leaf_value_noinv; apply (Hcomp KObject).
    - (* list *)
      simpl in Hkind, Htag.
      destruct fv; simpl; auto with noinv.
      + destruct j; simpl; auto with noinv.
        apply (IHc (TList t') ov fname cargs (FLst (map FSc items)) PS path n L); auto.
      + match goal with |- context [fold_left ?g ?l ?a] =>
          assert (X : NoInv (snd (fst (fst (fold_left g l a))))) end.
        { apply (fold_left_inv (fun acc : list json * list xerr * bool * N => NoInv (snd (fst (fst acc))))).
          - simpl; auto with noinv.
          - intros acc it Hit Hacc. destruct acc as [[[out errs] viol] i]. simpl in *.
            apply NoInv_app; auto. apply (IHc t' ov fname cargs it PS (path ++ [PI i]) n L); auto. }
        match goal with |- context [fold_left ?g ?l ?a] => destruct (fold_left g l a) as [[[out errs] viol] i] end.
        simpl in X. destruct viol; simpl; auto.
    - (* non-null *)
      simpl in Hkind, Htag.
      pose proof (IHc t' ov fname cargs fv PS path n L Htag HJ Hkind) as X.
      simpl. destruct (c_json (xcomplete f t' ov fname cargs fv (map snd PS) path)); auto.
      simpl. destruct (c_errs (xcomplete f t' ov fname cargs fv (map snd PS) path)); auto with noinv.
  Qed.

  (* ---- groups ---- *)
  Lemma go_groups_noinv : forall f objty ov path gs,
    (forall k s subs, In (k, s, subs) gs -> NoInv (c_errs (xfield f objty ov k s subs (path ++ [PN k])))) ->
    NoInv (snd (go_groups f objty ov path gs)).
  Proof.
    induction gs as [|[[k s] subs] rest]; intros H; simpl; auto with noinv.
    pose proof (H k s subs (or_introl eq_refl)) as X.
    destruct (c_viol (xfield f objty ov k s subs (path ++ [PN k]))); simpl; auto.
    assert (Y : NoInv (snd (go_groups f objty ov path rest))).
    { apply IHrest. intros. apply H. right; auto. }
    destruct (go_groups f objty ov path rest) as [o e2]. simpl in *. apply NoInv_app; auto.
  Qed.

  Lemma P_sels_step : forall f, P_field f -> P_sels (Datatypes.S f).
  Proof.
    intros f IHf objty ov PS path n L Hobj Htag HJ. rewrite exec_sels_S.
    pose proof (flatten_tagged S frags vars R HR (Datatypes.S f) objty L PS Htag) as Hfl.
    destruct (flatten S frags vars (Datatypes.S f) objty (map snd PS)) as [fl|e].
    2:{ subst e. simpl. auto with noinv. }
    apply go_groups_noinv. intros k s subs Hin.
    destruct (group_spec _ _ _ _ _ Hin) as [Ek [ms [M1 [M2 M3]]]]. subst subs.
    apply (IHf objty ov k s ms (path ++ [PN k]) n L); auto.
    intros m Hm. destruct (M3 m Hm). split; auto.
  Qed.

  (* ---- the data of the members of one group ---- *)
  Definition mdata (objty : name) (L : list fieldctx) (m : selection) (d : name * field_def * list fieldctx) : Prop :=
    In (fst (fst d), m) L /\ type_applies S objty (fst (fst d)) = true /\
    good_b S R (fst (fst d)) m = true /\ sel_is_field m = true /\
    lookup_field S (fst (fst d)) (sel_fname m) = Some (snd (fst d)) /\
    collect frags cf (named_of (fd_type (snd (fst d)))) (sub_of m) = Some (snd d).

  Lemma fsub_of_mdata : forall objty L m d, mdata objty L m d -> fsub S frags cf (fst (fst d), m) (snd d).
  Proof.
    intros objty L m [[p fd] c] [H1 [H2 [H3 [H4 [H5 H6]]]]]. simpl in *.
    unfold fsub, fc_sub, fc_type. simpl. rewrite H5.
    destruct m; simpl in *; try discriminate. auto.
  Qed.

  Lemma one_mdata : forall objty L n m,
    flat_field_ok S R objty L m -> J S frags cf (Datatypes.S n) L -> exists d, mdata objty L m d.
  Proof.
    intros objty L n m [p [H1 [H2 [H3 H4]]]] HJ.
    destruct m as [a fn args dirs ss| |]; simpl in H4; try discriminate.
    pose proof H3 as Hg. simpl in Hg. destruct (lookup_field S p fn) as [fd|] eqn:El; try discriminate.
    simpl in HJ.
    destruct (HJ (p, SField a fn args dirs ss) (p, SField a fn args dirs ss) H1 H1) as [_ [cx [cy [F1 _]]]].
    { unfold same_key. apply bytes_eqb_refl. }
    { eapply forced_of_applies; eauto. }
    unfold fsub, fc_sub, fc_type in F1. simpl in F1. rewrite El in F1.
    exists (p, fd, cx). unfold mdata. simpl. repeat split; auto.
  Qed.

  Lemma all_mdata : forall objty L n ms,
    (forall m, In m ms -> flat_field_ok S R objty L m) -> J S frags cf (Datatypes.S n) L ->
    exists ds, Forall2 (mdata objty L) ms ds.
  Proof.
    induction ms; intros H HJ.
    - exists []. constructor.
    - destruct (one_mdata objty L n a (H a (or_introl eq_refl)) HJ) as [d Hd].
      assert (X : forall m, In m ms -> flat_field_ok S R objty L m) by (intros; apply H; right; auto).
      destruct (IHms X HJ) as [ds Hds].
      exists (d :: ds). constructor; auto.
  Qed.

  Fixpoint mk_PS (ms : list selection) (ds : list (name * field_def * list fieldctx)) : list (name * selection) :=
    match ms, ds with
    | m :: ms', d :: ds' => map (pair (named_of (fd_type (snd (fst d))))) (sub_of m) ++ mk_PS ms' ds'
    | _, _ => []
    end.
  Lemma map_snd_mk_PS : forall objty L ms ds, Forall2 (mdata objty L) ms ds ->
    map snd (mk_PS ms ds) = flat_map sub_of ms.
  Proof.
    induction 1; simpl; auto. rewrite map_app. rewrite map_snd_pair. congruence.
  Qed.
  Lemma mk_PS_In : forall objty L ms ds, Forall2 (mdata objty L) ms ds ->
    forall q s', In (q, s') (mk_PS ms ds) ->
    exists m d, In m ms /\ In d ds /\ mdata objty L m d /\ q = named_of (fd_type (snd (fst d))) /\ In s' (sub_of m).
  Proof.
    induction 1; simpl; intros q s' Hin; try contradiction.
    apply in_app_or in Hin. destruct Hin as [Hin|Hin].
    - apply in_map_iff in Hin. destruct Hin as [z [E Hz]]. inversion E; subst.
      exists x, y. split; [left; auto|]. split; [left; auto|]. split; [auto|]. split; auto.
    - destruct (IHForall2 _ _ Hin) as [m [d [A [B [C [D E]]]]]]. exists m, d.
      split; [right; auto|]. split; [right; auto|]. split; [auto|]. split; auto.
  Qed.
  Lemma Forall2_In_r : forall {A B} (P : A -> B -> Prop) l1 l2, Forall2 P l1 l2 ->
    forall b, In b l2 -> exists a, In a l1 /\ P a b.
  Proof.
    induction 1; simpl; intros; try contradiction. destruct H1.
    - subst. exists x. auto.
    - destruct (IHForall2 _ H1) as [a [X Y]]. exists a. auto.
  Qed.

  Lemma subtype_kind : forall n n', subtype_b S n n' = true ->
    (is_leaf S n' || is_composite S n') = true -> (is_leaf S n || is_composite S n) = true.
  Proof.
    intros n n' Hs Hk. unfold subtype_b in Hs. apply orb_true_iff in Hs. destruct Hs as [Hs|Hs].
    { apply bytes_eqb_eq in Hs. subst. auto. }
    destruct (find_type n' (s_types S)) as [t'|] eqn:En'; try discriminate.
    destruct (find_type n (s_types S)) as [t|] eqn:En; try discriminate.
    unfold is_leaf, is_composite, kind, kind_of. destruct (builtin_scalar n); auto. rewrite En.
    destruct (td_kind t') eqn:K'; try discriminate.
    - destruct (wf_implementer_kind S Hwf _ _ _ En Hs) as [X|X]; rewrite X; auto.
    - destruct (wf_union_member S Hwf _ _ _ En' K' Hs) as [tm [E1 E2]]. rewrite En in E1. inversion E1; subst. rewrite E2. auto.
  Qed.

  Lemma P_field_step : forall f, P_complete f -> P_field (Datatypes.S f).
  Proof.
    intros f IHc objty ov key s ms path n L Hobj Hs Hms HJ.
    destruct (Hms s Hs) as [[p [L1 [L2 [L3 L4]]]] Hkey].
    destruct s as [a fname args dirs ss| |]; simpl in L4; try discriminate.
    rewrite exec_field_S. destruct (bytes_eqb fname s_typename) eqn:Etn. { simpl. auto with noinv. }
    destruct Hobj as [td [Ho Hk]]. rewrite Ho.
    destruct (field_on_object objty td p a fname args dirs ss Ho Hk L2 L3 Etn) as [fd' [El Hf]].
    destruct (find_field fname (td_fields td)) as [fd|] eqn:Ef.
    2:{ simpl. intros r Hr. destruct Hr as [Hr|Hr]; try contradiction. inversion Hr; subst; auto. }
    cbv zeta.
    destruct n as [|n'].
    { simpl in HJ. subst L. contradiction. }
    destruct (all_mdata objty L n' ms (fun m Hm => proj1 (Hms m Hm)) HJ) as [ds Hds].
    rewrite <- (map_snd_mk_PS objty L ms ds Hds).
    (* every member has the same field name *)
    assert (Hname : forall m d, In m ms -> mdata objty L m d -> sel_fname m = fname).
    { intros m d Hm [D1 [D2 _]]. simpl in HJ.
      destruct (HJ (p, SField a fname args dirs ss) (fst (fst d), m) L1 D1) as [N _].
      - unfold same_key, fc_key. simpl snd. destruct (Hms m Hm) as [_ K2].
        apply bytes_eqb_eq in Hkey. apply bytes_eqb_eq in K2. rewrite Hkey, K2. apply bytes_eqb_refl.
      - eapply forced_of_applies; eauto.
      - unfold name_eq in N. simpl in N. symmetry. apply bytes_eqb_eq. auto. }
    apply (IHc (fd_type fd) ov fname _ _ (mk_PS ms ds) path n' (concat (map snd ds))).
    - (* the merged sub-selections are well-formed on every possible runtime type *)
      intros et Het Hta q s' Hin.
      destruct (mk_PS_In objty L ms ds Hds q s' Hin) as [m [d [M1 [M2 [M3 [M4 M5]]]]]].
      pose proof (Hname m d M1 M3) as Hn.
      destruct d as [[pm fdm] cm]. destruct M3 as [D1 [D2 [D3 [D4 [D5 D6]]]]]. simpl in *. subst q.
      destruct m as [am fnm argsm dirsm ssm| |]; simpl in D4; try discriminate.
      simpl in Hn. subst fnm. simpl in M5, D6, D5.
      split.
      + simpl in D3. rewrite D5 in D3. apply andb_true_iff in D3. destruct D3 as [_ D3].
        eapply forallb_In; eauto.
      + split.
        * destruct (field_on_object objty td pm am fname argsm dirsm ssm Ho Hk D2 D3 Etn) as [fd'' [El' Hf']].
          rewrite Ef in Hf'. rewrite D5 in El'. inversion El'; subst fd''.
          eapply type_applies_trans; eauto.
        * destruct (collect_contrib frags _ _ _ _ D6 _ M5) as [c' [C1 C2]].
          exists c'. split; auto. eapply incl_tran; eauto.
          intros z Hz. apply in_concat. exists cm. split; auto.
          apply in_map_iff. exists (pm, fdm, cm). split; auto.
    - (* merging invariant for the union *)
      apply J_union. intros ca cb Ha Hb.
      apply in_map_iff in Ha. destruct Ha as [da [Ea Ha]]. apply in_map_iff in Hb. destruct Hb as [db [Eb Hb]].
      destruct (Forall2_In_r _ _ _ Hds _ Ha) as [ma [Ma Da]].
      destruct (Forall2_In_r _ _ _ Hds _ Hb) as [mb [Mb Db]].
      pose proof (fsub_of_mdata _ _ _ _ Da) as Fa. pose proof (fsub_of_mdata _ _ _ _ Db) as Fb.
      simpl in HJ.
      destruct Da as [A1 [A2 _]]. destruct Db as [B1 [B2 _]].
      destruct (HJ (fst (fst da), ma) (fst (fst db), mb) A1 B1) as [_ [cx [cy [F1 [F2 F3]]]]].
      + unfold same_key, fc_key. simpl snd.
        destruct (Hms ma Ma) as [_ K1]. destruct (Hms mb Mb) as [_ K2].
        apply bytes_eqb_eq in K1. apply bytes_eqb_eq in K2. rewrite K1, K2. apply bytes_eqb_refl.
      + eapply forced_of_applies; eauto.
      + unfold fsub in *. rewrite Fa in F1. rewrite Fb in F2. inversion F1; inversion F2; subst. auto.
    - (* the field's type is a leaf or a composite type *)
      simpl in Hf. eapply subtype_kind; eauto.
      simpl in L3. rewrite El in L3. apply andb_true_iff in L3. destruct L3; auto.
  Qed.

  Theorem exec_noinv : forall f, P_sels f /\ P_field f /\ P_complete f.
  Proof.
    induction f.
    - repeat split.
      + intros objty ov PS path n L _ _ _. simpl. auto with noinv.
      + intros objty ov key s ms path n L _ _ _ _. simpl. auto with noinv.
      + intros t ov fname cargs fv PS path n L _ _ _. simpl. auto with noinv.
    - destruct IHf as [A [B C]]. repeat split.
      + apply P_sels_step; auto.
      + apply P_field_step; auto.
      + apply P_complete_step; auto.
  Qed.
End Exec.
