(* C05 history: the lexer and printer functions that the repairs replaced, kept verbatim so that the
   refutations found on the unrepaired code stay machine-checked:
     c05_fix_rt-nul-in-string                 readRune consumed a NUL byte, so a string / block string / comment
                                              ended at it but lexing went on behind it
     c15_fix_block-quote-next-to-whitespace   readBlockString: a quote did not reset whitespaceCount and neither a
                                              quote nor a backslash set reachedFirstNonWhitespace
     c05_fix_rt-block-string-edge             ast.PrintValue wrote a block string's content between the delimiters
                                              as it is
   Everything else (types, the small scanners, the parser) is shared with the current model. *)
From Gv Require Import lib.Bytes lib.Gql C05.Lex C05.Parse C05.Print.
Open Scope N_scope.

Module V0.
(* ------------------------------------------------------------------ lexer.go before the repairs *)
(* readRune: at the end of input returns EOF (0) without moving; a NUL byte also reads as EOF
   but IS consumed *)
Definition read_rune (c : cur) : byte * cur :=
  match c_rest c with
  | [] => (0, c)
  | r :: t =>
    if r =? r_lf then (r, {| c_rest := t; c_pos := c_pos c + 1; c_line := c_line c + 1; c_col := 1 |})
    else (r, {| c_rest := t; c_pos := c_pos c + 1; c_line := c_line c; c_col := c_col c + 1 |})
  end.

(* readComment, after the '#' was read and SetEnd called once.  [e] is the current end marker. *)
Fixpoint comment_loop (l : bytes) (pos line col : N) (e : endm) : cur * endm :=
  match l with
  | [] => ({| c_rest := []; c_pos := pos; c_line := line; c_col := col |}, e)
  | r :: t =>
    let c' := snd (read_rune {| c_rest := l; c_pos := pos; c_line := line; c_col := col |}) in
    if r =? 0 then (c', e)
    else if (r =? r_cr) || (r =? r_lf) then
      (if peek_nonws t =? r_hash then comment_loop t (c_pos c') (c_line c') (c_col c') e else (c', e))
    else comment_loop t (c_pos c') (c_line c') (c_col c') (u32 (c_pos c'), c_line c', c_col c')
  end.

(* readSingleLineString, after SetStart *)
Fixpoint sstring_loop (l : bytes) (pos line col : N) (escaped : bool) : cur * endm :=
  match l with
  | [] => ({| c_rest := []; c_pos := pos; c_line := line; c_col := col |}, (u32 pos, line, col))
  | r :: t =>
    let c' := snd (read_rune {| c_rest := l; c_pos := pos; c_line := line; c_col := col |}) in
    if (r =? r_space) || (r =? r_tab) then sstring_loop t (c_pos c') (c_line c') (c_col c') false
    else if r =? 0 then (c', (u32 (c_pos c'), c_line c', c_col c'))
    else if (r =? r_quote) || (r =? r_cr) || (r =? r_lf) then
      (if escaped then sstring_loop t (c_pos c') (c_line c') (c_col c') false
       else (c', (sub32 (c_pos c') 1, c_line c', c_col c')))
    else if r =? r_backslash then sstring_loop t (c_pos c') (c_line c') (c_col c') (negb escaped)
    else sstring_loop t (c_pos c') (c_line c') (c_col c') false
  end.

(* readBlockString, after SetStart.  Returns the cursor, the raw end marker (before the
   [End -= whitespaceCount] adjustment), leadingWhitespaceToken and whitespaceCount. *)
Fixpoint bstring_loop (l : bytes) (pos line col : N) (escaped : bool) (qc ws : N) (reached : bool) (lead : N)
  : cur * endm * N * N :=
  match l with
  | [] => ({| c_rest := []; c_pos := pos; c_line := line; c_col := col |}, (u32 pos, line, col), lead, ws)
  | r :: t =>
    let c' := snd (read_rune {| c_rest := l; c_pos := pos; c_line := line; c_col := col |}) in
    let p' := c_pos c' in let l' := c_line c' in let k' := c_col c' in
    if (r =? r_space) || (r =? r_tab) || (r =? r_cr) || (r =? r_lf) then
      bstring_loop t p' l' k' false 0 (ws + 1) reached lead
    else if r =? 0 then (c', (u32 p', l', k'), lead, ws)
    else if r =? r_quote then
      (if escaped then bstring_loop t p' l' k' false qc ws reached lead
       else if qc + 1 =? 3 then (c', (sub32 p' 3, l', k'), lead, ws)
       else bstring_loop t p' l' k' escaped (qc + 1) ws reached lead)
    else if r =? r_backslash then bstring_loop t p' l' k' (negb escaped) 0 0 reached lead
    else if reached then bstring_loop t p' l' k' false 0 0 true lead
    else bstring_loop t p' l' k' false 0 0 true ws
  end.

(* Lexer.Read *)
Definition read (c0 : cur) : token * cur :=
  let c := skip_ws (c_rest c0) (c_pos c0) (c_line c0) (c_col c0) in
  let s := u32 (c_pos c) in let ls := c_line c in let cs := c_col c in
  let '(r, c1) := read_rune c in
  match single_kind r with
  | Some k => (mk_tok k s ls cs (here c1), c1)
  | None =>
    if r =? r_hash then
      let '(c2, e) := comment_loop (c_rest c1) (c_pos c1) (c_line c1) (c_col c1) (here c1) in
      (mk_tok KComment s ls cs e, c2)
    else if r =? r_quote then
      if peek_two c1 r_quote r_quote then
        (* swallowAmount(2): two quotes, never newlines *)
        let c2 := adv c1 (skipn 2 (c_rest c1)) (c_pos c1 + 2) (c_col c1 + 2) in
        let '(c3, (en, le, ce), lead, ws) :=
          bstring_loop (c_rest c2) (c_pos c2) (c_line c2) (c_col c2) false 0 0 false 0 in
        ({| t_kind := KBlockString;
            t_start := add32 (u32 (c_pos c2)) (u32 lead); t_end := sub32 en (u32 ws);
            t_ls := c_line c2; t_cs := sub32 (c_col c2) 3; t_le := le; t_ce := ce |}, c3)
      else
        let '(c2, e) := sstring_loop (c_rest c1) (c_pos c1) (c_line c1) (c_col c1) false in
        (mk_tok KString (u32 (c_pos c1)) (c_line c1) (sub32 (c_col c1) 1) e, c2)
    else if r =? r_dot then
      if peek_two c1 r_dot r_dot then
        let c2 := adv c1 (skipn 2 (c_rest c1)) (c_pos c1 + 2) (c_col c1 + 2) in
        (mk_tok KSpread s ls cs (here c2), c2)
      else (mk_tok KDot s ls cs (here c1), c1)
    else if is_digit r then
      let '(l1, p1, k1) := digits_run (c_rest c1) (c_pos c1) (c_col c1) in
      let c2 := adv c1 l1 p1 k1 in
      let r2 := peek c2 in
      let has_exp := (r2 =? r_exp_lower) || (r2 =? r_exp_upper) in
      if (r2 =? r_dot) || has_exp then
        (* r2 is a real byte here (not the end), and not a newline *)
        let c3 := adv c2 (tl (c_rest c2)) (c_pos c2 + 1) (c_col c2 + 1) in
        let c4 := read_float has_exp c3 in
        (mk_tok KFloat s ls cs (here c4), c4)
      else (mk_tok KInteger s ls cs (here c2), c2)
    else
      let '(l1, p1, k1) := ident_run (c_rest c1) (c_pos c1) (c_col c1) in
      let c2 := adv c1 l1 p1 k1 in
      (mk_tok KIdent s ls cs (here c2), c2)
  end.

(* Tokenizer.Tokenize: Read until the EOF keyword (the end of input or a NUL byte outside a
   string/comment).  [None] = out of fuel; [tokenize_total] shows it never happens. *)
Fixpoint tokenize_fuel (fuel : nat) (c : cur) : option (list token) :=
  match fuel with
  | O => None
  | S f =>
    let '(t, c') := read c in
    if kind_eqb (t_kind t) KEof then Some []
    else match tokenize_fuel f c' with
         | Some ts => Some (t :: ts)
         | None => None
         end
  end.
Definition tokenize (b : bytes) : option (list token) := tokenize_fuel (S (length b)) (init b).


Definition lex (b : bytes) : option (list ptoken) :=
  match tokenize b with
  | Some ts => Some (map (ptoken_of b) ts)
  | None => None
  end.
Definition parse_bytes (b : bytes) : res document :=
  match lex b with
  | Some ts => parse (strip ts)
  | None => Oof
  end.

(* ------------------------------------------------------------------ astprinter / ast.PrintValue before the repair *)
(* ast.PrintValue *)
Fixpoint print_value (v : value) : bytes :=
  match v with
  | VVar n => 36 :: n
  | VInt raw => raw
  | VFloat raw => raw
  | VStr raw false => s_quote ++ raw ++ s_quote
  | VStr raw true => s_quote3 ++ raw ++ s_quote3
  | VBool true => s_true
  | VBool false => s_false
  | VNull => s_null
  | VEnum n => n
  | VList items => [91] ++ join [44] (map print_value items) ++ [93]
  | VObj fields =>
    [123] ++ join [44] (map (fun kv => fst kv ++ s_colon_sp ++ print_value (snd kv)) fields) ++ [125]
  end.

(* ast.PrintType *)
Fixpoint print_type (t : ty) : bytes :=
  match t with
  | TNamed n => n
  | TList t' => [91] ++ print_type t' ++ [93]
  | TNonNull t' => print_type t' ++ [33]
  end.

(* EnterArgument / LeaveArgument over the arguments of a field or directive *)
Definition print_args (args : list argument) : bytes :=
  match args with
  | [] => []
  | _ => [40] ++ join s_comma_sp (map (fun a => fst a ++ s_colon_sp ++ print_value (snd a)) args) ++ [41]
  end.

(* EnterDirective .. LeaveDirective: [after_last] is what LeaveDirective writes after the last one *)
Fixpoint print_dirs (ds : list directive) (after_last : bytes) : bytes :=
  match ds with
  | [] => []
  | [d] => [64] ++ d_name d ++ print_args (d_args d) ++ after_last
  | d :: r => [64] ++ d_name d ++ print_args (d_args d) ++ sp ++ print_dirs r after_last
  end.

Definition nonempty {A} (l : list A) : bool := match l with [] => false | _ => true end.

Fixpoint repeat_bytes (n : nat) (i : bytes) : bytes := match n with O => [] | S m => i ++ repeat_bytes m i end.
(* writeIndented at selection-set nesting [depth] *)
Definition indent_of (ind : option bytes) (depth : nat) : bytes :=
  match ind with None => [] | Some i => repeat_bytes depth i end.
(* separator written between selections *)
Definition sel_sep (ind : option bytes) : bytes := match ind with None => sp | Some _ => nl end.

(* [depth] = number of enclosing selection sets of the selection being printed; [after] = there
   are selections after this one in its set *)
Fixpoint print_sel (ind : option bytes) (depth : nat) (after : bool) (s : selection) : bytes :=
  let selset (sels : list selection) : bytes :=
    [123] ++ (match ind with None => [] | Some _ => nl end)
    ++ (fix go (l : list selection) : bytes :=
          match l with
          | [] => []
          | [x] => print_sel ind (S depth) false x
          | x :: r => print_sel ind (S depth) true x ++ go r
          end) sels
    ++ (match ind with None => [] | Some _ => nl end) ++ indent_of ind depth ++ [125] in
  match s with
  | SField alias fname args dirs sels =>
    indent_of ind depth
    ++ (match alias with Some a => a ++ s_colon_sp ++ fname | None => fname end)
    ++ (if negb (nonempty args) && (nonempty sels || nonempty dirs) then sp else [])
    ++ print_args args
    ++ print_dirs dirs (if nonempty sels then sp else if after then sel_sep ind else [])
    ++ (if nonempty sels then selset sels else [])
    ++ (if after then (if negb (nonempty sels) && nonempty dirs then [] else sel_sep ind) else [])
  | SInline tc dirs sels =>
    indent_of ind depth ++ s_spread
    ++ (match tc with
        | Some t => sp ++ s_on ++ sp ++ t ++ sp
        | None => if nonempty dirs then sp else []
        end)
    ++ print_dirs dirs (match ind with None => if after then sp else [] | Some _ => sp end)
    ++ (if nonempty sels then selset sels else [])
    ++ (if after then sel_sep ind else [])
  | SSpread fr dirs =>
    indent_of ind depth ++ s_spread ++ fr
    ++ (if nonempty dirs then sp else [])
    ++ print_dirs dirs (match ind with None => if after then sp else [] | Some _ => [] end)
    ++ (if after then sel_sep ind else [])
  end.

(* the selection set of a definition (depth 0: its closing brace is not indented) *)
Definition print_selset (ind : option bytes) (depth : nat) (sels : list selection) : bytes :=
  [123] ++ (match ind with None => [] | Some _ => nl end)
  ++ (fix go (l : list selection) : bytes :=
        match l with
        | [] => []
        | [x] => print_sel ind (S depth) false x
        | x :: r => print_sel ind (S depth) true x ++ go r
        end) sels
  ++ (match ind with None => [] | Some _ => nl end) ++ indent_of ind depth ++ [125].

(* EnterVariableDefinition .. LeaveVariableDefinition *)
Fixpoint print_vardefs_from (first : bool) (vs : list vardef) : bytes :=
  match vs with
  | [] => []
  | v :: r =>
    let last := negb (nonempty r) in
    (if first then [40] else [])
    ++ [36] ++ vd_name v ++ s_colon_sp ++ print_type (vd_type v)
    ++ (match vd_default v with Some dv => sp ++ [61] ++ sp ++ print_value dv | None => [] end)
    ++ (if nonempty (vd_dirs v) then sp else [])
    ++ print_dirs (vd_dirs v) (if last then sp else [])
    ++ (if last then [41] else s_comma_sp)
    ++ print_vardefs_from false r
  end.

Definition def_sep (ind : option bytes) : bytes := match ind with None => sp | Some _ => nl ++ nl end.

Definition print_def (ind : option bytes) (last : bool) (d : definition) : bytes :=
  match d with
  | DOp o =>
    let has_name := match op_name o with Some _ => true | None => false end in
    let has_vars := nonempty (op_vars o) in
    (match op_kind o with
     | OpQuery => if has_name || has_vars || nonempty (op_dirs o) then s_query else []
     | OpMutation => s_mutation
     | OpSubscription => s_subscription
     end)
    ++ (match op_name o with Some n => sp ++ n ++ (if has_vars then [] else sp) | None => [] end)
    ++ print_vardefs_from true (op_vars o)
    ++ print_dirs (op_dirs o) sp
    ++ (if nonempty (op_sels o) then print_selset ind 0 (op_sels o) else [])
    ++ (if last then [] else def_sep ind)
  | DFrag f =>
    s_fragment ++ sp ++ fr_name f ++ sp ++ s_on ++ sp ++ fr_type f ++ sp
    ++ print_dirs (fr_dirs f) sp
    ++ (if nonempty (fr_sels f) then print_selset ind 0 (fr_sels f) else [])
    ++ (if last then [] else def_sep ind)
  end.

Fixpoint print_doc (ind : option bytes) (d : document) : bytes :=
  match d with
  | [] => []
  | [x] => print_def ind true x
  | x :: r => print_def ind false x ++ print_doc ind r
  end.

Definition print (d : document) : bytes := print_doc None d.

End V0.
