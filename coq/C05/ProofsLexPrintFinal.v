(* C05, lexical half of the round trip: the concrete relation "these bytes lex to these expected
   tokens" ([LXc]), its composition rules and primitives (instantiating the abstract printer proofs of
   ProofsLexPrintVal / ProofsLexPrintSel), and the assembly:
     parse_bytes b = Ok d r  ->  lex_print_ok_b ind d = true
   for inputs and prints shorter than 2^32 and a white-space indent. *)
From Gv Require Import lib.Bytes lib.Gql C05.Lex C05.Parse C05.Limits C05.Print C05.Spec C05.Tokens
  C05.ProofsLex C05.ProofsLimits C05.ProofsLexPrintDefs C05.ProofsLexPrintLex C05.ProofsLexPrintBlock C05.ProofsLexPrintRead
  C05.ProofsLexPrintParse C05.ProofsLexPrintVal C05.ProofsLexPrintSel C05.ProofsFinal.
From Coq Require Import Lia ZifyN ZifyNat ZifyBool PeanoNat.
Open Scope N_scope.

(* ---- a sequence of reads, with explicit white-space steps ---- *)
Definition ws_step (c : cur) : cur :=
  match c_rest c with
  | [] => c
  | r :: t => if r =? r_lf then mkc t (c_pos c + 1) (c_line c + 1) 1 else mkc t (c_pos c + 1) (c_line c) (c_col c + 1)
  end.

Inductive Reads : cur -> list token -> cur -> Prop :=
| R_nil : forall c, Reads c [] c
| R_ws : forall c r t ts c', c_rest c = r :: t -> is_ws r = true -> Reads (ws_step c) ts c' -> Reads c ts c'
| R_tok : forall c t c1 ts c', read c = (t, c1) -> kind_eqb (t_kind t) KEof = false -> Reads c1 ts c' -> Reads c (t :: ts) c'.

Lemma Reads_trans : forall c a c1, Reads c a c1 -> forall b c2, Reads c1 b c2 -> Reads c (a ++ b) c2.
Proof.
  induction 1; intros b0 c2 H2.
  - exact H2.
  - eapply R_ws; eauto.
  - cbn [app]. eapply R_tok; eauto.
Qed.

Lemma read_ws_step : forall c r t, c_rest c = r :: t -> is_ws r = true -> read c = read (ws_step c).
Proof.
  intros c r t Hc Hw. unfold read, ws_step. rewrite Hc. cbn [skip_ws]. rewrite Hw.
  destruct (r =? r_lf); reflexivity.
Qed.

(* Tokenize as a relation *)
Definition TK (c : cur) (ts : list token) : Prop := exists fuel, tokenize_fuel fuel c = Some ts.
Lemma TK_read_eq : forall c c' ts, read c = read c' -> TK c' ts -> TK c ts.
Proof.
  intros c c' ts He [f Hf]. exists f. destruct f as [|f]; [discriminate Hf|].
  cbn [tokenize_fuel] in *. rewrite He. exact Hf.
Qed.
Lemma TK_Reads : forall c a c1, Reads c a c1 -> forall ts, TK c1 ts -> TK c (a ++ ts).
Proof.
  induction 1; intros ts0 Ht.
  - exact Ht.
  - eapply TK_read_eq; [eapply read_ws_step; eassumption|]. apply IHReads. exact Ht.
  - destruct (IHReads _ Ht) as [f Hf]. exists (S f). cbn [tokenize_fuel app]. rewrite H, H0, Hf. reflexivity.
Qed.
Lemma TK_det : forall f1 c a, tokenize_fuel f1 c = Some a -> forall f2 b, tokenize_fuel f2 c = Some b -> a = b.
Proof.
  induction f1 as [|f1 IH]; intros c a H1 f2 b H2; [discriminate H1|].
  destruct f2 as [|f2]; [discriminate H2|]. cbn [tokenize_fuel] in *.
  destruct (read c) as [t c']. destruct (kind_eqb (t_kind t) KEof).
  - inj H1. inj H2. reflexivity.
  - destruct (tokenize_fuel f1 c') as [a'|] eqn:E1; [|discriminate H1].
    destruct (tokenize_fuel f2 c') as [b'|] eqn:E2; [|discriminate H2].
    inj H1. inj H2. f_equal. eapply IH; eassumption.
Qed.

(* ---- matches ---- *)
Lemma matches_app : forall ea pa eb pb, matches ea pa -> matches eb pb -> matches (ea ++ eb) (pa ++ pb).
Proof.
  induction ea as [|e ea IH]; intros pa eb pb Ha Hb.
  - cbn in Ha. subst pa. exact Hb.
  - destruct e as [k l|n|k raw]; cbn [matches app] in *.
    + destruct pa as [|t pa]; [contradiction|]. destruct Ha as (H1 & H2 & H3). cbn [app]. auto.
    + destruct pa as [|d [|v pa]]; try contradiction. destruct Ha as (H1 & H2 & H3 & H4 & H5). cbn [app]. auto 6.
    + destruct pa as [|d [|v pa]]; try contradiction. destruct Ha as (H1 & H2 & H3 & H4 & H5). cbn [app]. auto 6.
Qed.

Lemma kind_eqb_refl : forall k, kind_eqb k k = true.
Proof. intro k. apply kind_eqb_eq. reflexivity. Qed.
Lemma bytes_eqb_refl : forall a, bytes_eqb a a = true.
Proof. induction a as [|x a IH]; [reflexivity|]. cbn [bytes_eqb]. rewrite N.eqb_refl, IH. reflexivity. Qed.

Lemma matches_b_complete : forall es ts, matches es ts -> matches_b es ts = true.
Proof.
  induction es as [|e es IH]; intros ts H.
  - cbn in H. subst ts. reflexivity.
  - destruct e as [k l|n|k raw]; cbn [matches matches_b] in *.
    + destruct ts as [|t r]; [contradiction|]. destruct H as (H1 & H2 & H3). rewrite H1, H2, kind_eqb_refl, bytes_eqb_refl, (IH _ H3). reflexivity.
    + destruct ts as [|d [|v r]]; try contradiction. destruct H as (H1 & H2 & H3 & H4 & H5).
      rewrite H1, H2, H3, H4, !kind_eqb_refl, bytes_eqb_refl, N.eqb_refl, (IH _ H5). reflexivity.
    + destruct ts as [|d [|v r]]; try contradiction. destruct H as (H1 & H2 & H3 & H4 & H5).
      rewrite H1, H2, H3, H4, !kind_eqb_refl, bytes_eqb_refl, N.eqb_refl, (IH _ H5). reflexivity.
Qed.

Lemma strip_nocomm : forall b ts, nocomm ts -> strip (map (ptoken_of b) ts) = map (ptoken_of b) ts.
Proof.
  induction ts as [|t r IH]; intro H; [reflexivity|]. inversion H; subst.
  cbn [map strip]. unfold ptoken_of at 1. cbn [pk]. rewrite H2. rewrite IH by assumption. reflexivity.
Qed.

(* ---- cursors inside a buffer ---- *)
Lemma at_buf_bound : forall b c, at_buf b c -> c_pos c + len (c_rest c) = len b.
Proof. intros b c [Hr Hp]. rewrite Hr. unfold len in *. rewrite skipn_length. unfold bytes, byte in *. rewrite Nat2N.inj_sub, N2Nat.id. lia. Qed.

Lemma at_buf_app : forall b l rest pos line col line' col',
  at_buf b (mkc (l ++ rest) pos line col) -> at_buf b (mkc rest (pos + len l) line' col').
Proof.
  intros b l rest pos line col line' col' H. pose proof (at_buf_bound _ _ H) as Hb. destruct H as [Hr Hp].
  cbn [mkc c_rest c_pos] in *. rewrite len_app in Hb. unfold at_buf. cbn [mkc c_rest c_pos]. split; [|lia].
  replace (N.to_nat (pos + len l)) with (length l + N.to_nat pos)%nat by (unfold len, bytes, byte in *; lia).
  rewrite skipn_plus. rewrite <- Hr. rewrite skipn_app, skipn_all, Nat.sub_diag. reflexivity.
Qed.

Lemma slice_lemma : forall b pos (pre lit post : bytes),
  skipn (N.to_nat pos) b = pre ++ lit ++ post -> slice b (pos + len pre) (pos + len pre + len lit) = lit.
Proof.
  intros b pos pre lit post H. unfold slice.
  replace (N.to_nat (pos + len pre)) with (length pre + N.to_nat pos)%nat by (unfold len, bytes, byte in *; lia).
  rewrite skipn_plus, H. rewrite skipn_app, skipn_all, Nat.sub_diag. cbn [app skipn].
  replace (pos + len pre + len lit - (pos + len pre)) with (len lit) by lia. apply firstn_len_app.
Qed.

(* ---- the concrete relation ---- *)
Definition LXc (g : bool) (l : bytes) (es : list etok) : Prop :=
  forall b rest pos line col, len b < two32 -> (g = true -> sd rest = true) ->
    at_buf b (mkc (l ++ rest) pos line col) ->
    exists ts1 line' col',
      Reads (mkc (l ++ rest) pos line col) ts1 (mkc rest (pos + len l) line' col')
      /\ matches es (map (ptoken_of b) ts1) /\ nocomm ts1.

Lemma LXc_nil : LXc false [] [].
Proof.
  intros b rest pos line col Hb _ Hat. exists [], line, col. cbn [app]. rewrite len_nil, N.add_0_r.
  split; [apply R_nil|]. split; [reflexivity|constructor].
Qed.

Lemma LXc_weak : forall l es, LXc false l es -> LXc true l es.
Proof. intros l es H b rest pos line col Hb _ Hat. apply H; [exact Hb|intro X; discriminate X|exact Hat]. Qed.

Lemma sd_app_ne : forall (a b : bytes), a <> [] -> sd (a ++ b) = sd a.
Proof. intros a b H. destruct a; [contradiction|reflexivity]. Qed.

Lemma LXc_app : forall ga gb a b ea eb, LXc ga a ea -> LXc gb b eb -> (ga = true -> sd b = true) ->
  LXc (gb || (ga && isnil b)) (a ++ b) (ea ++ eb).
Proof.
  intros ga gb a b0 ea eb Ha Hb Hc b rest pos line col HL Hg Hat.
  rewrite <- app_assoc in *.
  assert (Hga : ga = true -> sd (b0 ++ rest) = true).
  { intro E. destruct b0 as [|x b1].
    - cbn [app]. apply Hg. rewrite E. cbn. apply Bool.orb_true_r.
    - cbn [app sd]. specialize (Hc E). exact Hc. }
  destruct (Ha b (b0 ++ rest) pos line col HL Hga Hat) as (t1 & l1 & c1 & R1 & M1 & N1).
  assert (Hgb : gb = true -> sd rest = true).
  { intro E. apply Hg. rewrite E. reflexivity. }
  pose proof (at_buf_app b a (b0 ++ rest) pos line col l1 c1 Hat) as Hat2.
  destruct (Hb b rest (pos + len a) l1 c1 HL Hgb Hat2) as (t2 & l2 & c2 & R2 & M2 & N2).
  exists (t1 ++ t2), l2, c2. split.
  - rewrite len_app, N.add_assoc. eapply Reads_trans; eassumption.
  - split; [rewrite map_app; apply matches_app; assumption|apply Forall_app; split; assumption].
Qed.

Lemma LXc_ws : forall w, forallb is_ws w = true -> LXc false w [].
Proof.
  intros w Hw b rest pos line col HL _ Hat. clear Hat.
  revert pos line col. induction w as [|r w IH]; intros pos line col.
  - exists [], line, col. cbn [app]. rewrite len_nil, N.add_0_r. split; [apply R_nil|]. split; [reflexivity|constructor].
  - cbn [forallb] in Hw. apply andb_prop in Hw. destruct Hw as [H1 H2].
    destruct (r =? r_lf) eqn:E.
    + destruct (IH H2 (pos + 1) (line + 1) 1) as (ts & l' & c' & R & M & Nc).
      exists ts, l', c'. split; [|split; assumption].
      eapply R_ws; [reflexivity|exact H1|]. unfold ws_step. cbn [app mkc c_rest c_pos c_line c_col]. rewrite E.
      rewrite len_cons. replace (pos + (len w + 1)) with (pos + 1 + len w) by lia. exact R.
    + destruct (IH H2 (pos + 1) line (col + 1)) as (ts & l' & c' & R & M & Nc).
      exists ts, l', c'. split; [|split; assumption].
      eapply R_ws; [reflexivity|exact H1|]. unfold ws_step. cbn [app mkc c_rest c_pos c_line c_col]. rewrite E.
      rewrite len_cons. replace (pos + (len w + 1)) with (pos + 1 + len w) by lia. exact R.
Qed.

(* ---- single-rune tokens ---- *)
Lemma single_kind_props : forall c k, single_kind c = Some k -> (c =? 0) = false ->
  is_ws c = false /\ kind_eqb k KEof = false /\ kind_eqb k KComment = false.
Proof.
  intros c k H H0. unfold single_kind, single_rune_table in H. cbn [assoc_byte] in H. rewrite H0 in H.
  repeat match type of H with (if ?b then _ else _) = _ =>
    let E := fresh "E" in destruct b eqn:E; [apply N.eqb_eq in E; subst c; inj H; repeat split; reflexivity|] end.
  discriminate H.
Qed.

(* one read of a single-rune token *)
Lemma read_single : forall c k rest pos line col, single_kind c = Some k -> (c =? 0) = false ->
  read (mkc (c :: rest) pos line col) =
  (mk_tok k (u32 pos) line col (u32 (pos + 1), line, col + 1), mkc rest (pos + 1) line (col + 1)).
Proof.
  intros c k rest pos line col Hk H0. destruct (single_kind_props c k Hk H0) as (Hws & _ & _).
  rd_head Hws H0. rewrite Hk. unfold here. cbn [c_pos c_line c_col]. reflexivity.
Qed.

Lemma LXc_punct : forall c k, single_kind c = Some k -> (c =? 0) = false -> LXc false [c] [ET k [c]].
Proof.
  intros c k Hk H0 b rest pos line col HL _ Hat.
  destruct (single_kind_props c k Hk H0) as (Hws & He & Hc).
  pose proof (at_buf_bound _ _ Hat) as Hbd. cbn [mkc c_rest c_pos app] in Hbd. rewrite len_cons in Hbd.
  eexists [_], line, (col + 1). split; [|split].
  - cbn [app]. eapply R_tok; [apply (read_single c k); assumption|exact He|].
    unfold len. cbn [length]. apply R_nil.
  - cbn [map matches]. unfold ptoken_of. cbn [pk plit mk_tok t_kind]. split; [reflexivity|]. split; [|reflexivity].
    unfold tok_lit. cbn [t_start t_end mk_tok]. rewrite !u32_id by lia.
    destruct Hat as [Hr _]. cbn [mkc c_rest c_pos app] in Hr.
    pose proof (slice_lemma b pos [] [c] rest (eq_sym Hr)) as Hs. rewrite len_nil, N.add_0_r in Hs.
    unfold len in Hs. cbn [length] in Hs. exact Hs.
  - constructor; [exact Hc|constructor].
Qed.

Lemma LXc_spread : LXc false s_spread [e_spread].
Proof.
  intros b rest pos line col HL _ Hat.
  pose proof (at_buf_bound _ _ Hat) as Hbd. unfold s_spread in *. cbn [mkc c_rest c_pos app] in Hbd. rewrite !len_cons in Hbd.
  eexists [_], line, (col + 1 + 2). split; [|split].
  - cbn [app]. eapply R_tok; [| |apply R_nil].
    + assert (Hws : is_ws 46 = false) by reflexivity. assert (H0 : (46 =? 0) = false) by reflexivity.
      rd_head Hws H0. change (single_kind 46) with (@None kind). change (46 =? r_hash) with false.
      change (46 =? r_quote) with false. change (46 =? r_dot) with true. cbv iota.
      unfold peek_two. cbn [c_rest]. change ((46 =? r_dot) && (46 =? r_dot)) with true. cbv iota.
      unfold adv. cbn [c_rest c_pos c_line c_col skipn]. unfold mkc. apply f_equal2; [reflexivity|].
      f_equal. unfold len. cbn [length]. lia.
    + reflexivity.
  - cbn [map matches]. unfold ptoken_of. cbn [pk plit]. split; [reflexivity|]. split; [|reflexivity].
    unfold tok_lit, mk_tok, here, adv. cbn [t_start t_end c_pos]. rewrite !u32_id by lia.
    destruct Hat as [Hr _]. cbn [mkc c_rest c_pos app] in Hr.
    pose proof (slice_lemma b pos [] [46;46;46] rest (eq_sym Hr)) as Hs. rewrite len_nil, N.add_0_r in Hs.
    unfold len in Hs. cbn [length] in Hs. replace (pos + 1 + 2) with (pos + 3) by lia. exact Hs.
  - constructor; [reflexivity|constructor].
Qed.

(* ---- tokens with a literal: from [relex] ---- *)
Definition lit_kind (k : kind) : Prop := k = KIdent \/ k = KInteger \/ k = KFloat \/ k = KString \/ k = KBlockString.
Lemma lit_kind_props : forall k, lit_kind k -> kind_eqb k KEof = false /\ kind_eqb k KComment = false.
Proof. intros k H. destruct H as [H|[H|[H|[H|H]]]]; subst k; split; reflexivity. Qed.

(* one read, from relex, inside a buffer *)
Lemma relex_read : forall k lit pre post, lit_kind k -> relex k lit ->
  text_of k lit = pre ++ lit ++ post -> len pre = lit_off k ->
  forall b rest pos line col, len b < two32 -> sd rest = true ->
    at_buf b (mkc (text_of k lit ++ rest) pos line col) ->
    exists t line' col',
      read (mkc (text_of k lit ++ rest) pos line col) = (t, mkc rest (pos + len (text_of k lit)) line' col')
      /\ pk (ptoken_of b t) = k /\ plit (ptoken_of b t) = lit /\ (lit_off k = 0 -> t_cs t = col)
      /\ kind_eqb (t_kind t) KEof = false /\ kind_eqb (t_kind t) KComment = false.
Proof.
  intros k lit pre post Hk Hre Htx Hpre b rest pos line col HL Hsd Hat.
  pose proof (at_buf_bound _ _ Hat) as Hbd. cbn [mkc c_rest c_pos] in Hbd.
  destruct (Hre rest pos line col Hsd ltac:(lia)) as (t & l' & c' & Hr & Hkind & Hs & He & Hcs).
  exists t, l', c'. split; [exact Hr|]. unfold ptoken_of. cbn [pk plit].
  destruct (lit_kind_props k Hk) as [K1 K2]. rewrite Hkind. repeat split; try assumption.
  unfold tok_lit. rewrite Hs, He. rewrite <- Hpre.
  destruct Hat as [Hrr _]. cbn [mkc c_rest c_pos] in Hrr. rewrite Htx in Hrr. rewrite <- !app_assoc in Hrr.
  apply (slice_lemma b pos pre lit (post ++ rest)). symmetry. exact Hrr.
Qed.

Lemma LXc_relex : forall k lit pre post, lit_kind k -> relex k lit ->
  text_of k lit = pre ++ lit ++ post -> len pre = lit_off k -> LXc true (text_of k lit) [ET k lit].
Proof.
  intros k lit pre post Hk Hre Htx Hpre b rest pos line col HL Hg Hat.
  destruct (relex_read k lit pre post Hk Hre Htx Hpre b rest pos line col HL (Hg eq_refl) Hat)
    as (t & l' & c' & Hr & H1 & H2 & _ & H4 & H5).
  exists [t], l', c'. split; [eapply R_tok; [exact Hr|exact H4|apply R_nil]|].
  split; [cbn [map matches]; auto|constructor; [exact H5|constructor]].
Qed.

Lemma LXc_name : forall n, relex KIdent n -> LXc true n [e_name n].
Proof.
  intros n H. apply (LXc_relex KIdent n [] []); [left; reflexivity|exact H|cbn [text_of app]; rewrite app_nil_r; reflexivity|reflexivity].
Qed.
Lemma LXc_str : forall raw, relex KString raw -> LXc true (s_quote ++ raw ++ s_quote) [ET KString raw].
Proof.
  intros raw H. apply (LXc_relex KString raw s_quote s_quote); [right; right; right; left; reflexivity|exact H|reflexivity|reflexivity].
Qed.
Lemma LXc_bstr : forall raw, relex KBlockString raw -> LXc true (print_block_string raw) [ET KBlockString raw].
Proof.
  intros raw H.
  apply (LXc_relex KBlockString raw s_quote3 ((if ends_quote_or_backslash raw then nl else []) ++ s_quote3));
    [right; right; right; right; reflexivity|exact H|reflexivity|reflexivity].
Qed.

(* a single-rune token glued to a word: "$name", "-number" *)
Lemma LXc_glued : forall c kc k lit, single_kind c = Some kc -> (c =? 0) = false ->
  (k = KIdent \/ k = KInteger \/ k = KFloat) -> relex k lit ->
  forall b rest pos line col, len b < two32 -> sd rest = true ->
    at_buf b (mkc ((c :: lit) ++ rest) pos line col) ->
    exists t1 t2 line' col',
      Reads (mkc ((c :: lit) ++ rest) pos line col) [t1; t2] (mkc rest (pos + len (c :: lit)) line' col')
      /\ pk (ptoken_of b t1) = kc /\ pk (ptoken_of b t2) = k /\ plit (ptoken_of b t2) = lit
      /\ pce (ptoken_of b t1) = pcs (ptoken_of b t2) /\ nocomm [t1; t2].
Proof.
  intros c kc k lit Hkc H0 Hk Hre b rest pos line col HL Hsd Hat.
  destruct (single_kind_props c kc Hkc H0) as (Hws & He & Hc).
  assert (Hlk : lit_kind k) by (unfold lit_kind; tauto).
  assert (Htx : text_of k lit = lit) by (destruct Hk as [->|[->| ->]]; reflexivity).
  assert (Hoff : lit_off k = 0) by (destruct Hk as [->|[->| ->]]; reflexivity).
  cbn [app] in *.
  pose proof (at_buf_app b [c] (lit ++ rest) pos line col line (col + 1) Hat) as Hat2.
  unfold len in Hat2 at 1. cbn [length] in Hat2. change (N.of_nat 1) with 1 in Hat2.
  rewrite <- Htx in Hat2 at 1.
  destruct (relex_read k lit [] [] Hlk Hre ltac:(rewrite Htx; cbn [app]; rewrite app_nil_r; reflexivity)
              ltac:(rewrite Hoff; reflexivity) b rest (pos + 1) line (col + 1) HL Hsd Hat2)
    as (t2 & l' & c' & Hr & H1 & H2 & H3 & H4 & H5).
  rewrite Htx in Hr.
  eexists _, t2, l', c'. split; [|split; [|split; [|split; [|split]]]].
  - eapply R_tok; [apply (read_single c kc); assumption|exact He|].
    eapply R_tok; [exact Hr|exact H4|]. rewrite len_cons. replace (pos + (len lit + 1)) with (pos + 1 + len lit) by lia.
    apply R_nil.
  - reflexivity.
  - exact H1.
  - exact H2.
  - unfold ptoken_of. cbn [pce pcs mk_tok t_ce]. symmetry. apply H3. exact Hoff.
  - constructor; [exact Hc|constructor; [exact H5|constructor]].
Qed.

Lemma LXc_var : forall n, relex KIdent n -> LXc true (36 :: n) [EVar n].
Proof.
  intros n H b rest pos line col HL Hg Hat.
  destruct (LXc_glued 36 KDollar KIdent n eq_refl eq_refl ltac:(tauto) H b rest pos line col HL (Hg eq_refl) Hat)
    as (t1 & t2 & l' & c' & R & H1 & H2 & H3 & H4 & H5).
  exists [t1; t2], l', c'. split; [exact R|]. split; [cbn [map matches]; auto 6|exact H5].
Qed.

(* a word literal cannot start with '-' (Read returns the SUB token there) *)
Lemma relex_not_sub : forall k r b rest pos line col, (k = KInteger \/ k = KFloat) -> relex k (r_sub :: r) ->
  len b < two32 -> sd rest = true -> at_buf b (mkc ((r_sub :: r) ++ rest) pos line col) -> False.
Proof.
  intros k r b rest pos line col Hk Hre HL Hsd Hat.
  assert (Htx : text_of k (r_sub :: r) = r_sub :: r) by (destruct Hk as [->| ->]; reflexivity).
  pose proof (at_buf_bound _ _ Hat) as Hbd. cbn [mkc c_rest c_pos] in Hbd.
  destruct (Hre rest pos line col Hsd ltac:(rewrite Htx; lia)) as (t & l' & c' & Hr & Hkind & _).
  rewrite Htx in Hr. cbn [app] in Hr. unfold r_sub in Hr.
  rewrite (read_single 45 KSub) in Hr by reflexivity. injection Hr as Ht _. subst t. cbn in Hkind. destruct Hk as [->| ->]; discriminate Hkind.
Qed.

Lemma LXc_num : forall k raw, (k = KInteger \/ k = KFloat) -> num_ok relexk k raw -> LXc true raw [e_number k raw].
Proof.
  intros k raw Hk Hn b rest pos line col HL Hg Hat.
  assert (Hrk : forall l, relexk k l = relex k l) by (intro l; destruct Hk as [->| ->]; reflexivity).
  assert (Htx : forall l, text_of k l = l) by (intro l; destruct Hk as [->| ->]; reflexivity).
  assert (Hlk : lit_kind k) by (unfold lit_kind; tauto).
  destruct Hn as [Hn|(r & -> & Hn)]; rewrite Hrk in Hn.
  - assert (He : e_number k raw = ET k raw).
    { unfold e_number. destruct raw as [|c r]; [reflexivity|]. destruct (c =? r_sub) eqn:E; [|reflexivity].
      apply N.eqb_eq in E. subst c. exfalso. eapply relex_not_sub; eauto. }
    rewrite He. pose proof (LXc_relex k raw [] [] Hlk Hn) as HX. rewrite Htx in HX.
    apply HX; try assumption; [cbn [app]; rewrite app_nil_r; reflexivity|destruct Hk as [->| ->]; reflexivity].
  - unfold e_number. change (r_sub =? r_sub) with true. cbv iota.
    destruct (LXc_glued 45 KSub k r eq_refl eq_refl ltac:(tauto) Hn b rest pos line col HL (Hg eq_refl) Hat)
      as (t1 & t2 & l' & c' & R & H1 & H2 & H3 & H4 & H5).
    exists [t1; t2], l', c'. split; [exact R|]. split; [cbn [map matches]; auto 6|exact H5].
Qed.

(* the keywords the printer writes are names *)
Ltac kw := apply relex_ident; reflexivity.
Lemma kw_relex : relex KIdent s_query /\ relex KIdent s_mutation /\ relex KIdent s_subscription /\ relex KIdent s_fragment
  /\ relex KIdent s_on /\ relex KIdent s_true /\ relex KIdent s_false /\ relex KIdent s_null.
Proof. repeat split; kw. Qed.

(* ---- instantiating the printer proofs ---- *)
Definition Pn := relexk KIdent.
Definition Pi := num_ok relexk KInteger.
Definition Pf := num_ok relexk KFloat.
Definition Ps := relexk KString.
Definition Pb := relexk KBlockString.

Lemma LXc_int : forall raw, Pi raw -> LXc true raw [e_number KInteger raw].
Proof. intros raw H. apply LXc_num; [left; reflexivity|exact H]. Qed.
Lemma LXc_float : forall raw, Pf raw -> LXc true raw [e_number KFloat raw].
Proof. intros raw H. apply LXc_num; [right; reflexivity|exact H]. Qed.

Theorem print_doc_LXc : forall ind d, ind_ws ind = true -> doc_ok Pn Pi Pf Ps Pb d -> LXc true (print_doc ind d) (etoks d).
Proof.
  intros ind d Hi Hd.
  pose proof (LX_args Pn Pi Pf Ps Pb LXc) as A.
  pose proof (LX_dirs Pn Pi Pf Ps Pb LXc) as D.
  pose proof (LX_dirs_closed Pn Pi Pf Ps Pb LXc) as DC.
  pose proof (LX_vardefs Pn Pi Pf Ps Pb LXc) as V.
  eapply (LX_doc Pn Pi Pf Ps Pb LXc); try eassumption;
    first [exact LXc_nil | exact LXc_weak | exact LXc_app | exact LXc_ws | exact LXc_punct | exact LXc_spread
          | exact LXc_name | exact kw_relex | idtac].
  all: first [eapply A | eapply D | eapply DC | eapply V];
    first [exact LXc_nil | exact LXc_weak | exact LXc_app | exact LXc_ws | exact LXc_punct | exact LXc_spread
          | exact LXc_name | exact LXc_var | exact LXc_int | exact LXc_float | exact LXc_str | exact LXc_bstr
          | exact kw_relex].
Qed.

(* ---- assembly ---- *)
Theorem lex_print_ok_proof : forall ind b d r,
  len b < two32 -> len (print_doc ind d) < two32 -> ind_ws ind = true ->
  parse_bytes b = Ok d r -> lex_print_ok_b ind d = true.
Proof.
  intros ind b d r HL HLp Hi Hp.
  unfold parse_bytes in Hp. destruct (lex b) as [ts|] eqn:El; [|discriminate Hp].
  pose proof (lex_G b ts HL El) as HG.
  pose proof (strip_G (length ts) ts (le_n _) HG) as HG'.
  pose proof (parse_doc_ok relexk (strip ts) d r HG' Hp) as Hok.
  pose proof (print_doc_LXc ind d Hi Hok) as HX.
  set (p := print_doc ind d) in *.
  assert (Hat : at_buf p (mkc (p ++ []) 0 1 1)).
  { unfold at_buf. cbn [mkc c_rest c_pos]. rewrite app_nil_r. split; [reflexivity|lia]. }
  destruct (HX p [] 0 1 1 HLp (fun _ => eq_refl) Hat) as (ts1 & l' & c' & R & M & Nc).
  rewrite app_nil_r in R.
  assert (Hend : TK (mkc [] (0 + len p) l' c') []).
  { exists 1%nat. reflexivity. }
  pose proof (TK_Reads _ _ _ R _ Hend) as [f Hf]. rewrite app_nil_r in Hf.
  unfold lex_print_ok_b. fold p. unfold lex.
  destruct (tokenize p) as [tp|] eqn:Et; [|exfalso; exact (tokenize_total_proof p HLp Et)].
  unfold tokenize in Et.
  assert (tp = ts1) by (eapply TK_det; [exact Et|exact Hf]). subst tp.
  rewrite strip_nocomm by exact Nc. apply matches_b_complete. exact M.
Qed.

Theorem roundtrip_proof : forall ind b d r,
  len b < two32 -> len (print_doc ind d) < two32 -> ind_ws ind = true ->
  parse_bytes b = Ok d r -> parse_bytes (print_doc ind d) = Ok d [].
Proof.
  intros ind b d r HL HLp Hi Hp. eapply roundtrip_partial_proof; [exact Hp|]. exact (lex_print_ok_proof ind b d r HL HLp Hi Hp).
Qed.

Theorem print_fixpoint_proof : forall ind b d r d' r',
  len b < two32 -> len (print_doc ind d) < two32 -> ind_ws ind = true ->
  parse_bytes b = Ok d r -> parse_bytes (print_doc ind d) = Ok d' r' -> print_doc ind d' = print_doc ind d.
Proof.
  intros ind b d r d' r' HL HLp Hi Hp H. eapply print_fixpoint_partial_proof; [exact Hp| |exact H].
  exact (lex_print_ok_proof ind b d r HL HLp Hi Hp).
Qed.

(* the indent must be white space: PrintIndent writes its argument verbatim, so an indent "x" turns {a} into
   { LF x a LF } and the field is called xa *)
Definition witness_indent : bytes := [123;97;125].
Theorem indent_must_be_ws_proof :
  exists d d', parse_bytes witness_indent = Ok d [] /\ parse_bytes (print_doc (Some [120]) d) = Ok d' [] /\ d' <> d.
Proof. eexists. eexists. split; [vm_compute; reflexivity|]. split; [vm_compute; reflexivity|discriminate]. Qed.

(* the hypotheses are satisfiable by a non-trivial document *)
Example ex_roundtrip_full : exists d,
  parse_bytes ProofsMisc.witness_query_var = Ok d [] /\ len (print_doc (Some [32;32]) d) < two32 /\
  parse_bytes (print_doc (Some [32;32]) d) = Ok d [].
Proof. eexists. split; [vm_compute; reflexivity|]. split; vm_compute; reflexivity. Qed.
