(* C05: model of v2/pkg/astparser (Tokenizer.Read/Peek comment skipping, parser.go recursive
   descent) for EXECUTABLE documents: operations, fragments, selections, arguments, directives,
   variable definitions, all value kinds, type references.  Type-system definitions and
   descriptions answer [Unsup] (outside this model; the Go-only round-trip check covers them).

   The Go parser records the first error in the report and returns at the next HasErrors check;
   the model stops at the first error ([Err]).  The control flow of the Go code between the first
   error and its return is therefore not modelled (accept/reject and the tree on accept are). *)
From Gv Require Import lib.Bytes lib.Gql C05.Lex.
Open Scope N_scope.

(* ---- identkeyword.KeywordFromLiteral ---- *)
Inductive identkw :=
| IKUndefined | IKOn | IKTrue | IKFalse | IKNull | IKQuery | IKMutation | IKSubscription | IKFragment
| IKImplements | IKSchema | IKScalar | IKType | IKInterface | IKUnion | IKEnum | IKInput | IKDirective
| IKExtend | IKRepeatable.

(* Go constant names *)
Definition identkw_name (k : identkw) : bytes :=
  match k with
  | IKUndefined => [85;78;68;69;70;73;78;69;68]
  | IKOn => [79;78] | IKTrue => [84;82;85;69] | IKFalse => [70;65;76;83;69] | IKNull => [78;85;76;76]
  | IKQuery => [81;85;69;82;89] | IKMutation => [77;85;84;65;84;73;79;78]
  | IKSubscription => [83;85;66;83;67;82;73;80;84;73;79;78] | IKFragment => [70;82;65;71;77;69;78;84]
  | IKImplements => [73;77;80;76;69;77;69;78;84;83] | IKSchema => [83;67;72;69;77;65]
  | IKScalar => [83;67;65;76;65;82] | IKType => [84;89;80;69] | IKInterface => [73;78;84;69;82;70;65;67;69]
  | IKUnion => [85;78;73;79;78] | IKEnum => [69;78;85;77] | IKInput => [73;78;80;85;84]
  | IKDirective => [68;73;82;69;67;84;73;86;69] | IKExtend => [69;88;84;69;78;68]
  | IKRepeatable => [82;69;80;69;65;84;65;66;76;69]
  end.

(* literal -> keyword, in the order of the return statements of KeywordFromLiteral *)
Definition identkw_table : list (bytes * identkw) :=
  [([111;110], IKOn);
   ([110;117;108;108], IKNull); ([101;110;117;109], IKEnum); ([116;114;117;101], IKTrue); ([116;121;112;101], IKType);
   ([102;97;108;115;101], IKFalse); ([117;110;105;111;110], IKUnion); ([113;117;101;114;121], IKQuery); ([105;110;112;117;116], IKInput);
   ([101;120;116;101;110;100], IKExtend); ([115;99;104;101;109;97], IKSchema); ([115;99;97;108;97;114], IKScalar);
   ([109;117;116;97;116;105;111;110], IKMutation); ([102;114;97;103;109;101;110;116], IKFragment);
   ([105;110;116;101;114;102;97;99;101], IKInterface); ([100;105;114;101;99;116;105;118;101], IKDirective);
   ([105;109;112;108;101;109;101;110;116;115], IKImplements); ([114;101;112;101;97;116;97;98;108;101], IKRepeatable);
   ([115;117;98;115;99;114;105;112;116;105;111;110], IKSubscription)].

Fixpoint lookup_kw (lit : bytes) (l : list (bytes * identkw)) : identkw :=
  match l with
  | [] => IKUndefined
  | (b, k) :: l' => if bytes_eqb lit b then k else lookup_kw lit l'
  end.
Definition keyword_of (lit : bytes) : identkw := lookup_kw lit identkw_table.

(* ---- tokens as the parser sees them: keyword, literal bytes, CharStart, CharEnd ---- *)
Record ptoken := { pk : kind; plit : bytes; pcs : N; pce : N }.
Definition ptoken_of (b : bytes) (t : token) : ptoken :=
  {| pk := t_kind t; plit := tok_lit b t; pcs := t_cs t; pce := t_ce t |}.

(* Tokenizer.Read / Peek skip ONE comment: of a run of consecutive COMMENT tokens the 1st, 3rd, ...
   are skipped and the 2nd, 4th, ... reach the parser (runs longer than one arose only around a NUL
   byte inside a comment, i.e. before c05_fix_rt-nul-in-string; the lexer merges adjacent comments). *)
Fixpoint strip (ts : list ptoken) : list ptoken :=
  match ts with
  | [] => []
  | t :: r =>
    if kind_eqb (pk t) KComment then
      match r with
      | [] => []
      | t2 :: r2 => t2 :: strip r2
      end
    else t :: strip r
  end.

Inductive res (A : Type) :=
| Ok (a : A) (rest : list ptoken)
| Err          (* the parser reported an error *)
| Unsup        (* type-system definition or description: outside this model *)
| Oof.         (* out of fuel; excluded by parse_total *)
Arguments Ok {A}. Arguments Err {A}. Arguments Unsup {A}. Arguments Oof {A}.

Definition is_kind (k : kind) (t : ptoken) : bool := kind_eqb (pk t) k.

(* ---- values (ParseValue, parseValueList, parseObjectValue) ---- *)
Fixpoint parse_value (fuel : nat) (ts : list ptoken) : res value :=
  match fuel with O => Oof | S f =>
  match ts with
  | [] => Err
  | t :: r =>
    match pk t with
    | KString => Ok (VStr (plit t) false) r
    | KBlockString => Ok (VStr (plit t) true) r
    | KIdent =>
      match keyword_of (plit t) with
      | IKTrue => Ok (VBool true) r
      | IKFalse => Ok (VBool false) r
      | IKNull => Ok VNull r
      | _ => Ok (VEnum (plit t)) r
      end
    | KDollar =>
      match r with
      | v :: r2 => if is_kind KIdent v && (pce t =? pcs v) then Ok (VVar (plit v)) r2 else Err
      | [] => Err
      end
    | KInteger => Ok (VInt (plit t)) r
    | KFloat => Ok (VFloat (plit t)) r
    | KSub =>
      match r with
      | n :: r2 =>
        if is_kind KInteger n then (if pce t =? pcs n then Ok (VInt (r_sub :: plit n)) r2 else Err)
        else if is_kind KFloat n then (if pce t =? pcs n then Ok (VFloat (r_sub :: plit n)) r2 else Err)
        else Err
      | [] => Err
      end
    | KLBrack => parse_value_list f r []
    | KLBrace => parse_object_fields f r []
    | _ => Err
    end
  end end
with parse_value_list (fuel : nat) (ts : list ptoken) (acc : list value) : res value :=
  match fuel with O => Oof | S f =>
  match ts with
  | [] => Err
  | t :: r =>
    if is_kind KRBrack t then Ok (VList (rev acc)) r
    else match parse_value f ts with
         | Ok v r' => parse_value_list f r' (v :: acc)
         | Err => Err | Unsup => Unsup | Oof => Oof
         end
  end end
with parse_object_fields (fuel : nat) (ts : list ptoken) (acc : list (name * value)) : res value :=
  match fuel with O => Oof | S f =>
  match ts with
  | [] => Err
  | t :: r =>
    if is_kind KRBrace t then Ok (VObj (rev acc)) r
    else if is_kind KIdent t then
      match r with
      | c :: r2 =>
        if is_kind KColon c then
          match parse_value f r2 with
          | Ok v r' => parse_object_fields f r' ((plit t, v) :: acc)
          | Err => Err | Unsup => Unsup | Oof => Oof
          end
        else Err
      | [] => Err
      end
    else Err
  end end.

(* ---- ParseType ---- *)
Fixpoint parse_type (fuel : nat) (ts : list ptoken) : res ty :=
  match fuel with O => Oof | S f =>
  let bang (t0 : ty) (r : list ptoken) : res ty :=
    match r with
    | b :: r2 =>
      if is_kind KBang b then
        match r2 with
        | b2 :: _ => if is_kind KBang b2 then Err else Ok (TNonNull t0) r2
        | [] => Ok (TNonNull t0) r2
        end
      else Ok t0 r
    | [] => Ok t0 r
    end in
  match ts with
  | [] => Err
  | t :: r =>
    if is_kind KIdent t then bang (TNamed (plit t)) r
    else if is_kind KLBrack t then
      match parse_type f r with
      | Ok t1 r1 =>
        match r1 with
        | c :: r2 => if is_kind KRBrack c then bang (TList t1) r2 else Err
        | [] => Err
        end
      | Err => Err | Unsup => Unsup | Oof => Oof
      end
    else Err
  end end.

(* ---- parseArgumentList (after the LPAREN) ---- *)
Fixpoint parse_args (fuel : nat) (ts : list ptoken) (acc : list argument) : res (list argument) :=
  match fuel with O => Oof | S f =>
  match ts with
  | [] => Err
  | t :: r =>
    if is_kind KIdent t then
      match r with
      | c :: r2 =>
        if is_kind KColon c then
          match parse_value f r2 with
          | Ok v r' => parse_args f r' ((plit t, v) :: acc)
          | Err => Err | Unsup => Unsup | Oof => Oof
          end
        else Err
      | [] => Err
      end
    else if is_kind KRParen t then Ok (rev acc) r
    else Err
  end end.

(* "if peek == LPAREN { parseArgumentList }" *)
Definition parse_opt_args (fuel : nat) (ts : list ptoken) : res (list argument) :=
  match ts with
  | t :: r => if is_kind KLParen t then parse_args fuel r [] else Ok [] ts
  | [] => Ok [] ts
  end.

(* ---- parseDirectiveList ---- *)
Fixpoint parse_dirs (fuel : nat) (ts : list ptoken) (acc : list directive) : res (list directive) :=
  match fuel with O => Oof | S f =>
  match ts with
  | t :: r =>
    if is_kind KAt t then
      match r with
      | n :: r2 =>
        if is_kind KIdent n then
          match parse_opt_args f r2 with
          | Ok a r' => parse_dirs f r' ({| d_name := plit n; d_args := a |} :: acc)
          | Err => Err | Unsup => Unsup | Oof => Oof
          end
        else Err
      | [] => Err
      end
    else Ok (rev acc) ts
  | [] => Ok (rev acc) ts
  end end.

(* ---- selections ---- *)
Definition is_on (t : ptoken) : bool :=
  is_kind KIdent t && match keyword_of (plit t) with IKOn => true | _ => false end.

(* what follows a field's name: arguments, directives, selection set ([selset] is the recursive call) *)
Definition field_tail (selset : list ptoken -> res (list selection)) (f : nat)
    (alias : option name) (nm : name) (r1 : list ptoken) : res selection :=
  match parse_opt_args f r1 with
  | Ok args r2 =>
    match parse_dirs f r2 [] with
    | Ok dirs r3 =>
      match r3 with
      | b :: _ =>
        if is_kind KLBrace b then
          match selset r3 with
          | Ok sels r4 => Ok (SField alias nm args dirs sels) r4
          | Err => Err | Unsup => Unsup | Oof => Oof
          end
        else Ok (SField alias nm args dirs []) r3
      | [] => Ok (SField alias nm args dirs []) r3
      end
    | Err => Err | Unsup => Unsup | Oof => Oof
    end
  | Err => Err | Unsup => Unsup | Oof => Oof
  end.

(* parseInlineFragment after the optional type condition: directives, selection set *)
Definition inline_tail (selset : list ptoken -> res (list selection)) (f : nat)
    (tc : option name) (r1 : list ptoken) : res selection :=
  match parse_dirs f r1 [] with
  | Ok dirs r2 =>
    match r2 with
    | b :: _ =>
      if is_kind KLBrace b then
        match selset r2 with
        | Ok sels r3 => Ok (SInline tc dirs sels) r3
        | Err => Err | Unsup => Unsup | Oof => Oof
        end
      else Ok (SInline tc dirs []) r2
    | [] => Ok (SInline tc dirs []) r2
    end
  | Err => Err | Unsup => Unsup | Oof => Oof
  end.

(* parse_selset: mustRead LBRACE + loop;  parse_sels: the loop;  parse_field / parse_frag_sel *)
Fixpoint parse_selset (fuel : nat) (ts : list ptoken) : res (list selection) :=
  match fuel with O => Oof | S f =>
  match ts with
  | t :: r => if is_kind KLBrace t then parse_sels f r [] else Err
  | [] => Err
  end end
with parse_sels (fuel : nat) (ts : list ptoken) (acc : list selection) : res (list selection) :=
  match fuel with O => Oof | S f =>
  match ts with
  | [] => Err
  | t :: r =>
    if is_kind KRBrace t then
      match acc with [] => Err | _ => Ok (rev acc) r end
    else if is_kind KIdent t then
      match parse_field f ts with
      | Ok s r' => parse_sels f r' (s :: acc)
      | Err => Err | Unsup => Unsup | Oof => Oof
      end
    else if is_kind KSpread t then
      match parse_frag_sel f r with
      | Ok s r' => parse_sels f r' (s :: acc)
      | Err => Err | Unsup => Unsup | Oof => Oof
      end
    else Err
  end end
with parse_field (fuel : nat) (ts : list ptoken) : res selection :=
  match fuel with O => Oof | S f =>
  match ts with
  | [] => Err
  | t :: r =>
    if negb (is_kind KIdent t) then Err else
    match r with
    | c :: r1 =>
      if is_kind KColon c then
        match r1 with
        | n :: r2 => if is_kind KIdent n then field_tail (parse_selset f) f (Some (plit t)) (plit n) r2 else Err
        | [] => Err
        end
      else field_tail (parse_selset f) f None (plit t) r
    | [] => field_tail (parse_selset f) f None (plit t) r
    end
  end end
with parse_frag_sel (fuel : nat) (ts : list ptoken) : res selection :=   (* after the SPREAD *)
  match fuel with O => Oof | S f =>
  match ts with
  | [] => Err
  | t :: r =>
    if is_kind KLBrace t || is_kind KAt t then inline_tail (parse_selset f) f None ts
    else if is_kind KIdent t then
      if is_on t then
        match r with
        | n :: r1 => if is_kind KIdent n then inline_tail (parse_selset f) f (Some (plit n)) r1 else Err
        | [] => Err
        end
      else
        match parse_dirs f r [] with
        | Ok dirs r1 => Ok (SSpread (plit t) dirs) r1
        | Err => Err | Unsup => Unsup | Oof => Oof
        end
    else Err
  end end.

(* ---- parseVariableDefinitionList (after the LPAREN) ---- *)
Fixpoint parse_vardefs (fuel : nat) (ts : list ptoken) (acc : list vardef) : res (list vardef) :=
  match fuel with O => Oof | S f =>
  match ts with
  | [] => Err
  | t :: r =>
    if is_kind KRParen t then Ok (rev acc) r
    else if is_kind KString t || is_kind KBlockString t then Unsup     (* description *)
    else if is_kind KDollar t then
      match r with
      | v :: r1 =>
        if is_kind KIdent v && (pce t =? pcs v) then
          match r1 with
          | c :: r2 =>
            if is_kind KColon c then
              match parse_type f r2 with
              | Ok ty r3 =>
                let finish (dv : option value) (r4 : list ptoken) : res (list vardef) :=
                  match parse_dirs f r4 [] with
                  | Ok dirs r5 =>
                    parse_vardefs f r5 ({| vd_name := plit v; vd_type := ty; vd_default := dv; vd_dirs := dirs |} :: acc)
                  | Err => Err | Unsup => Unsup | Oof => Oof
                  end in
                match r3 with
                | e :: r4 =>
                  if is_kind KEquals e then
                    match parse_value f r4 with
                    | Ok dv r5 => finish (Some dv) r5
                    | Err => Err | Unsup => Unsup | Oof => Oof
                    end
                  else finish None r3
                | [] => finish None r3
                end
              | Err => Err | Unsup => Unsup | Oof => Oof
              end
            else Err
          | [] => Err
          end
        else Err
      | [] => Err
      end
    else Err
  end end.

(* ---- definitions ---- *)
Definition opkind_of (k : identkw) : option opkind :=
  match k with IKQuery => Some OpQuery | IKMutation => Some OpMutation | IKSubscription => Some OpSubscription | _ => None end.

(* parseOperationDefinition after the operation keyword *)
Definition parse_operation (fuel : nat) (k : opkind) (ts : list ptoken) : res definition :=
  let '(nm, r1) :=
    match ts with
    | t :: r => if is_kind KIdent t then (Some (plit t), r) else (None, ts)
    | [] => (None, ts)
    end in
  let vars :=
    match r1 with
    | t :: r => if is_kind KLParen t then parse_vardefs fuel r [] else Ok [] r1
    | [] => Ok [] r1
    end in
  match vars with
  | Ok vs r2 =>
    match parse_dirs fuel r2 [] with
    | Ok dirs r3 =>
      match parse_selset fuel r3 with
      | Ok sels r4 =>
        Ok (DOp {| op_kind := k; op_name := nm; op_vars := vs; op_dirs := dirs; op_sels := sels |}) r4
      | Err => Err | Unsup => Unsup | Oof => Oof
      end
    | Err => Err | Unsup => Unsup | Oof => Oof
    end
  | Err => Err | Unsup => Unsup | Oof => Oof
  end.

(* parseFragmentDefinition after the fragment keyword *)
Definition parse_fragment (fuel : nat) (ts : list ptoken) : res definition :=
  match ts with
  | n :: o :: t :: r =>
    if is_kind KIdent n && is_on o && is_kind KIdent t then
      match parse_dirs fuel r [] with
      | Ok dirs r2 =>
        match parse_selset fuel r2 with
        | Ok sels r3 => Ok (DFrag {| fr_name := plit n; fr_type := plit t; fr_dirs := dirs; fr_sels := sels |}) r3
        | Err => Err | Unsup => Unsup | Oof => Oof
        end
      | Err => Err | Unsup => Unsup | Oof => Oof
      end
    else Err
  | _ => Err
  end.

Definition is_sdl_kw (k : identkw) : bool :=
  match k with
  | IKEnum | IKType | IKUnion | IKInput | IKExtend | IKSchema | IKScalar | IKInterface | IKDirective => true
  | _ => false
  end.

(* Parser.parse: the loop over root definitions *)
Fixpoint parse_defs (fuel : nat) (ts : list ptoken) (acc : list definition) : res document :=
  match fuel with O => Oof | S f =>
  match ts with
  | [] => Ok (rev acc) []
  | t :: r =>
    let continue (x : res definition) : res document :=
      match x with
      | Ok d r' => parse_defs f r' (d :: acc)
      | Err => Err | Unsup => Unsup | Oof => Oof
      end in
    if is_kind KLBrace t then
      match parse_selset f ts with
      | Ok sels r' =>
        parse_defs f r' (DOp {| op_kind := OpQuery; op_name := None; op_vars := []; op_dirs := []; op_sels := sels |} :: acc)
      | Err => Err | Unsup => Unsup | Oof => Oof
      end
    else if is_kind KString t || is_kind KBlockString t then Unsup
    else if is_kind KIdent t then
      match opkind_of (keyword_of (plit t)) with
      | Some k => continue (parse_operation f k r)
      | None =>
        match keyword_of (plit t) with
        | IKFragment => continue (parse_fragment f r)
        | k => if is_sdl_kw k then Unsup else Err
        end
      end
    else Err
  end end.

Definition parse_fuel (ts : list ptoken) : nat := 3 * length ts + 3.
Definition parse (ts : list ptoken) : res document := parse_defs (parse_fuel ts) ts [].

(* the whole pipeline on bytes *)
Definition lex (b : bytes) : option (list ptoken) :=
  match tokenize b with
  | Some ts => Some (map (ptoken_of b) ts)
  | None => None
  end.
Definition parse_bytes (b : bytes) : res document :=
  match lex b with
  | Some ts => parse (strip ts)
  | None => Oof
  end.
