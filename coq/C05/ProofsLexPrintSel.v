From Gv Require Import lib.Bytes lib.Gql C05.Lex C05.Parse C05.Print C05.Tokens C05.ProofsLex C05.ProofsLexPrintDefs.
From Coq Require Import Lia ZifyN ZifyNat ZifyBool.
Open Scope N_scope.

Section PrintLX.
  Variables Pn Pi Pf Ps Pb : bytes -> Prop.
  (* [LX g l es]: the bytes l lex to the expected tokens es; g = true: only in a context that starts
     with a delimiter or is empty ([sd]), g = false: in every context *)
  Variable LX : bool -> bytes -> list etok -> Prop.
  Hypothesis LX_nil : LX false [] [].
  Hypothesis LX_weak : forall l es, LX false l es -> LX true l es.
  Hypothesis LX_app : forall ga gb a b ea eb, LX ga a ea -> LX gb b eb -> (ga = true -> sd b = true) ->
    LX (gb || (ga && isnil b)) (a ++ b) (ea ++ eb).
  Hypothesis LX_ws : forall w, forallb is_ws w = true -> LX false w [].
  Hypothesis LX_punct : forall c k, single_kind c = Some k -> (c =? 0) = false -> LX false [c] [ET k [c]].
  Hypothesis LX_spread : LX false s_spread [e_spread].
  Hypothesis LX_name : forall n, Pn n -> LX true n [e_name n].
  Hypothesis LX_var : forall n, Pn n -> LX true (36 :: n) [EVar n].
  Hypothesis LX_int : forall raw, Pi raw -> LX true raw [e_number KInteger raw].
  Hypothesis LX_float : forall raw, Pf raw -> LX true raw [e_number KFloat raw].
  Hypothesis LX_str : forall raw, Ps raw -> LX true (s_quote ++ raw ++ s_quote) [ET KString raw].
  Hypothesis LX_bstr : forall raw, Pb raw -> LX true (print_block_string raw) [ET KBlockString raw].
  Hypothesis Pn_kw : Pn s_query /\ Pn s_mutation /\ Pn s_subscription /\ Pn s_fragment /\ Pn s_on
                     /\ Pn s_true /\ Pn s_false /\ Pn s_null.

  Notation value_ok := (value_ok Pn Pi Pf Ps Pb).
  Notation type_ok := (type_ok Pn).
  Notation args_ok := (args_ok Pn Pi Pf Ps Pb).
  Notation dirs_ok := (dirs_ok Pn Pi Pf Ps Pb).
  Notation sel_ok := (sel_ok Pn Pi Pf Ps Pb).
  Notation sels_ok := (sels_ok Pn Pi Pf Ps Pb).
  Notation vardef_ok := (vardef_ok Pn Pi Pf Ps Pb).
  Notation def_ok := (def_ok Pn Pi Pf Ps Pb).
  Notation doc_ok := (doc_ok Pn Pi Pf Ps Pb).

  (* derived composition rules (all follow from LX_app / LX_weak) *)
  Lemma LX_any : forall g l es, LX g l es -> LX true l es.
  Proof. intros [|] l es H; [exact H|apply LX_weak; exact H]. Qed.
  (* a closed piece followed by anything *)
  Lemma LX_app_f : forall g a b ea eb, LX false a ea -> LX g b eb -> LX g (a ++ b) (ea ++ eb).
  Proof.
    intros g a b ea eb Ha Hb. pose proof (LX_app false g a b ea eb Ha Hb) as H.
    rewrite Bool.andb_false_l, Bool.orb_false_r in H. apply H. intro X; discriminate X.
  Qed.
  (* an open piece followed by something that starts with a delimiter (or is empty) *)
  Lemma LX_app_t : forall g a b ea eb, LX true a ea -> LX g b eb -> sd b = true -> LX true (a ++ b) (ea ++ eb).
  Proof.
    intros g a b ea eb Ha Hb Hs. eapply LX_any. apply (LX_app true g a b ea eb Ha Hb). intros _. exact Hs.
  Qed.
  (* an open piece followed by a non-empty closed piece that starts with a delimiter: closed *)
  Lemma LX_app_tf : forall a b ea eb, LX true a ea -> LX false b eb -> b <> [] -> sd b = true -> LX false (a ++ b) (ea ++ eb).
  Proof.
    intros a b ea eb Ha Hb Hn Hs. pose proof (LX_app true false a b ea eb Ha Hb (fun _ => Hs)) as H.
    destruct b; [contradiction|]. exact H.
  Qed.

  Hypothesis LX_args : forall args, args_ok args -> LX false (print_args args) (etoks_args args).
  Hypothesis LX_dirs : forall ds after, dirs_ok ds -> forallb is_ws after = true -> LX true (print_dirs ds after) (etoks_dirs ds).
  Hypothesis LX_dirs_closed : forall ds after, dirs_ok ds -> forallb is_ws after = true -> after <> [] -> LX false (print_dirs ds after) (etoks_dirs ds).
  Hypothesis LX_vardefs : forall vs, Forall vardef_ok vs -> LX false (print_vardefs_from true vs) (etoks_vardefs vs).

  (* ---- unfolding lemmas ---- *)
  Lemma print_sel_field : forall ind depth after alias fname args dirs sels,
    print_sel ind depth after (SField alias fname args dirs sels) =
    indent_of ind depth
    ++ (match alias with Some a => a ++ s_colon_sp ++ fname | None => fname end)
    ++ (if negb (nonempty args) && (nonempty sels || nonempty dirs) then sp else [])
    ++ print_args args
    ++ print_dirs dirs (if nonempty sels then sp else if after then sel_sep ind else [])
    ++ (if nonempty sels then print_selset ind depth sels else [])
    ++ (if after then (if negb (nonempty sels) && nonempty dirs then [] else sel_sep ind) else []).
  Proof. reflexivity. Qed.
  Lemma print_sel_inline : forall ind depth after tc dirs sels,
    print_sel ind depth after (SInline tc dirs sels) =
    indent_of ind depth ++ s_spread
    ++ (match tc with
        | Some t => sp ++ s_on ++ sp ++ t ++ sp
        | None => if nonempty dirs then sp else []
        end)
    ++ print_dirs dirs (match ind with None => if after then sp else [] | Some _ => sp end)
    ++ (if nonempty sels then print_selset ind depth sels else [])
    ++ (if after then sel_sep ind else []).
  Proof. reflexivity. Qed.
  Lemma print_sel_spread : forall ind depth after fr dirs,
    print_sel ind depth after (SSpread fr dirs) =
    indent_of ind depth ++ s_spread ++ fr
    ++ (if nonempty dirs then sp else [])
    ++ print_dirs dirs (match ind with None => if after then sp else [] | Some _ => [] end)
    ++ (if after then sel_sep ind else []).
  Proof. reflexivity. Qed.

  Fixpoint pgo (ind : option bytes) (depth : nat) (l : list selection) : bytes :=
    match l with
    | [] => []
    | [x] => print_sel ind (S depth) false x
    | x :: r => print_sel ind (S depth) true x ++ pgo ind depth r
    end.
  Lemma print_selset_pgo : forall ind depth sels,
    print_selset ind depth sels =
    [123] ++ (match ind with None => [] | Some _ => nl end) ++ pgo ind depth sels
    ++ (match ind with None => [] | Some _ => nl end) ++ indent_of ind depth ++ [125].
  Proof.
    intros. unfold print_selset. do 2 (apply f_equal). apply (f_equal (fun z => z ++ _)).
    induction sels as [|x r IH]; [reflexivity|]. destruct r as [|y r]; [reflexivity|].
    change (pgo ind depth (x :: y :: r)) with (print_sel ind (S depth) true x ++ pgo ind depth (y :: r)).
    rewrite <- IH. reflexivity.
  Qed.
  Lemma etoks_sel_field' : forall alias fname args dirs sels,
    etoks_sel (SField alias fname args dirs sels) =
    (match alias with Some a => [e_name a; e_colon] | None => [] end)
    ++ e_name fname :: etoks_args args ++ etoks_dirs dirs ++ etoks_set sels.
  Proof. reflexivity. Qed.
  Lemma etoks_sel_inline' : forall tc dirs sels,
    etoks_sel (SInline tc dirs sels) =
    e_spread :: (match tc with Some t => [e_name s_on; e_name t] | None => [] end) ++ etoks_dirs dirs ++ etoks_set sels.
  Proof. reflexivity. Qed.
  Lemma etoks_sel_spread' : forall fr dirs, etoks_sel (SSpread fr dirs) = e_spread :: e_name fr :: etoks_dirs dirs.
  Proof. reflexivity. Qed.

  (* nested induction on selections *)
  Section sel_induction.
    Variable P : selection -> Prop.
    Hypothesis Hf : forall a n ar d ss, Forall P ss -> P (SField a n ar d ss).
    Hypothesis Hi : forall tc d ss, Forall P ss -> P (SInline tc d ss).
    Hypothesis Hs : forall fr d, P (SSpread fr d).
    Fixpoint sel_ind2 (s : selection) : P s :=
      match s with
      | SField a n ar d ss =>
        Hf a n ar d ss ((fix go (l : list selection) : Forall P l :=
                           match l with [] => Forall_nil P | x :: r => Forall_cons x (sel_ind2 x) (go r) end) ss)
      | SInline tc d ss =>
        Hi tc d ss ((fix go (l : list selection) : Forall P l :=
                       match l with [] => Forall_nil P | x :: r => Forall_cons x (sel_ind2 x) (go r) end) ss)
      | SSpread fr d => Hs fr d
      end.
  End sel_induction.

  (* ---- composition machinery ---- *)
  Lemma LX_fin : forall g g' l es es', LX g' l es' -> es = es' -> (g = false -> g' = false) -> LX g l es.
  Proof.
    intros g g' l es es' H -> Hg. destruct g; [eapply LX_any; exact H|]. rewrite (Hg eq_refl) in H. exact H.
  Qed.

  Lemma ws_repeat : forall n i, forallb is_ws i = true -> forallb is_ws (repeat_bytes n i) = true.
  Proof.
    induction n as [|n IH]; intros i H; [reflexivity|].
    change (repeat_bytes (S n) i) with (i ++ repeat_bytes n i). rewrite forallb_app, H, (IH i H). reflexivity.
  Qed.
  Lemma LX_indent : forall ind depth, ind_ws ind = true -> LX false (indent_of ind depth) [].
  Proof. intros [i|] depth H; apply LX_ws; [apply ws_repeat; exact H|reflexivity]. Qed.

  Lemma LX_colon_sp : LX false s_colon_sp [e_colon].
  Proof.
    change s_colon_sp with ([58] ++ [32]). change [e_colon] with ([e_colon] ++ []).
    apply LX_app_f; [apply (LX_punct 58 KColon eq_refl eq_refl)|apply LX_ws; reflexivity].
  Qed.

  Lemma LX_alias : forall alias fname, optn_ok Pn alias -> Pn fname ->
    LX true (match alias with Some a => a ++ s_colon_sp ++ fname | None => fname end)
       ((match alias with Some a => [e_name a; e_colon] | None => [] end) ++ [e_name fname]).
  Proof.
    intros [a|] fname Ha Hf.
    - change ([e_name a; e_colon] ++ [e_name fname]) with ([e_name a] ++ [e_colon] ++ [e_name fname]).
      eapply LX_app_t; [apply LX_name; exact Ha| |reflexivity].
      apply LX_app_f; [apply LX_colon_sp|apply LX_name; exact Hf].
    - apply LX_name; exact Hf.
  Qed.

  Lemma LX_tc : forall (tc : option name) (dirs : list directive), optn_ok Pn tc ->
    LX false (match tc with Some t => sp ++ s_on ++ sp ++ t ++ sp | None => if nonempty dirs then sp else [] end)
       (match tc with Some t => [e_name s_on; e_name t] | None => [] end).
  Proof.
    destruct Pn_kw as (_ & _ & _ & _ & Kon & _).
    intros [t|] dirs Ht.
    - change [e_name s_on; e_name t] with ([] ++ [e_name s_on] ++ [] ++ [e_name t] ++ []).
      apply LX_app_f; [apply LX_ws; reflexivity|].
      apply LX_app_tf; [apply LX_name; exact Kon| |discriminate|reflexivity].
      apply LX_app_f; [apply LX_ws; reflexivity|].
      apply LX_app_tf; [apply LX_name; exact Ht|apply LX_ws; reflexivity|discriminate|reflexivity].
    - apply LX_ws. destruct dirs; reflexivity.
  Qed.

  Ltac lx_extra := fail.
  Ltac lx_piece :=
    first
    [ solve [apply LX_args; assumption]
    | solve [apply LX_dirs_closed; [assumption | reflexivity | let X := fresh in intro X; cbv in X; discriminate X]]
    | solve [apply LX_dirs; [assumption | reflexivity]]
    | solve [apply LX_vardefs; assumption]
    | solve [apply LX_indent; assumption]
    | solve [apply LX_spread]
    | solve [apply (LX_punct 123 KLBrace eq_refl eq_refl)]
    | solve [apply (LX_punct 125 KRBrace eq_refl eq_refl)]
    | solve [apply LX_alias; assumption]
    | solve [apply LX_tc; assumption]
    | solve [lx_extra]
    | solve [apply LX_ws; reflexivity]
    | solve [apply LX_name; assumption] ].
  Ltac lx_side := first [ let X := fresh in intro X; discriminate X | intros _; reflexivity ].
  Ltac lx_chain :=
    lazymatch goal with
    | |- LX _ (_ ++ _) _ => eapply LX_app; [ lx_piece | lx_chain | lx_side ]
    | |- _ => lx_piece
    end.
  Ltac lx_eq := repeat rewrite <- app_assoc; repeat rewrite app_nil_r; reflexivity.
  Ltac lx_top := eapply LX_fin; [ lx_chain | lx_eq | lx_side ].

  Definition selP (s : selection) : Prop :=
    sel_ok s -> forall ind depth after, ind_ws ind = true ->
    LX (negb after) (print_sel ind depth after s) (etoks_sel s).

  Lemma LX_pgo : forall ind depth sels, ind_ws ind = true -> Forall selP sels -> sels_ok sels ->
    LX true (pgo ind depth sels) (flat_map etoks_sel sels).
  Proof.
    intros ind depth sels Hind HP Hok. induction sels as [|x r IH].
    - apply LX_weak, LX_nil.
    - inversion HP as [|? ? Px Pr]; subst. inversion Hok as [|? ? Ox Or]; subst.
      destruct r as [|y r'].
      + change (pgo ind depth [x]) with (print_sel ind (S depth) false x).
        change (flat_map etoks_sel [x]) with (etoks_sel x ++ []). rewrite app_nil_r.
        exact (Px Ox ind (S depth) false Hind).
      + change (pgo ind depth (x :: y :: r')) with (print_sel ind (S depth) true x ++ pgo ind depth (y :: r')).
        change (flat_map etoks_sel (x :: y :: r')) with (etoks_sel x ++ flat_map etoks_sel (y :: r')).
        apply LX_app_f; [exact (Px Ox ind (S depth) true Hind)|apply IH; assumption].
  Qed.
  Ltac lx_extra ::= apply LX_pgo; assumption.

  Lemma LX_selset : forall ind depth x r, ind_ws ind = true -> Forall selP (x :: r) -> sels_ok (x :: r) ->
    LX false (print_selset ind depth (x :: r)) (etoks_set (x :: r)).
  Proof.
    intros ind depth x r Hind HP Hok. rewrite print_selset_pgo.
    change (etoks_set (x :: r)) with (e_lbrace :: flat_map etoks_sel (x :: r) ++ [e_rbrace]).
    destruct ind as [i|]; lx_top.
  Qed.
  Lemma LX_optset : forall ind depth sels, ind_ws ind = true -> Forall selP sels -> sels_ok sels ->
    LX false (if nonempty sels then print_selset ind depth sels else []) (etoks_set sels).
  Proof.
    intros ind depth [|x r] Hind HP Hok; [apply LX_nil|]. apply LX_selset; assumption.
  Qed.
  Ltac lx_extra ::= first [ solve [apply LX_pgo; assumption] | solve [apply LX_optset; assumption] ].

  Lemma LX_sel : forall s, selP s.
  Proof.
    apply sel_ind2.
    - intros alias fname args dirs sels IH Hok ind depth after Hind.
      apply sel_ok_field in Hok. destruct Hok as (Ha & Hf & Hargs & Hdirs & Hsels).
      rewrite print_sel_field, etoks_sel_field'.
      destruct after, ind as [i|], args as [|a0 ar], dirs as [|d0 [|d1 dr]], sels as [|x0 xr]; lx_top.
    - intros tc dirs sels IH Hok ind depth after Hind.
      apply sel_ok_inline in Hok. destruct Hok as (Ht & Hdirs & Hsels).
      rewrite print_sel_inline, etoks_sel_inline'.
      destruct after, ind as [i|], dirs as [|d0 [|d1 dr]], sels as [|x0 xr]; lx_top.
    - intros fr dirs Hok ind depth after Hind.
      destruct Hok as (Hf & Hdirs).
      rewrite print_sel_spread, etoks_sel_spread'.
      destruct after, ind as [i|], dirs as [|d0 [|d1 dr]]; lx_top.
  Qed.

  Lemma selP_all : forall sels, Forall selP sels.
  Proof. intro sels. apply Forall_forall. intros s _. apply LX_sel. Qed.

  (* ---- definitions ---- *)
  Lemma print_def_op : forall ind last k nm vs ds ss,
    print_def ind last (DOp {| op_kind := k; op_name := nm; op_vars := vs; op_dirs := ds; op_sels := ss |}) =
    (match k with
     | OpQuery => if (match nm with Some _ => true | None => false end) || nonempty vs || nonempty ds then s_query else []
     | OpMutation => s_mutation
     | OpSubscription => s_subscription
     end)
    ++ (match nm with Some n => sp ++ n ++ (if nonempty vs then [] else sp) | None => [] end)
    ++ print_vardefs_from true vs
    ++ print_dirs ds sp
    ++ (if nonempty ss then print_selset ind 0 ss else [])
    ++ (if last then [] else def_sep ind).
  Proof. reflexivity. Qed.
  Lemma print_def_frag : forall ind last n t ds ss,
    print_def ind last (DFrag {| fr_name := n; fr_type := t; fr_dirs := ds; fr_sels := ss |}) =
    s_fragment ++ sp ++ n ++ sp ++ s_on ++ sp ++ t ++ sp
    ++ print_dirs ds sp
    ++ (if nonempty ss then print_selset ind 0 ss else [])
    ++ (if last then [] else def_sep ind).
  Proof. reflexivity. Qed.

  Lemma etoks_def_op : forall k nm vs ds ss,
    etoks_def (DOp {| op_kind := k; op_name := nm; op_vars := vs; op_dirs := ds; op_sels := ss |}) =
    (match k with
     | OpQuery => match nm, vs, ds with None, [], [] => [] | _, _, _ => [e_name s_query] end
     | OpMutation => [e_name s_mutation]
     | OpSubscription => [e_name s_subscription]
     end)
    ++ (match nm with Some n => [e_name n] | None => [] end)
    ++ etoks_vardefs vs ++ etoks_dirs ds ++ etoks_set ss.
  Proof. reflexivity. Qed.
  Lemma etoks_def_frag : forall n t ds ss,
    etoks_def (DFrag {| fr_name := n; fr_type := t; fr_dirs := ds; fr_sels := ss |}) =
    e_name s_fragment :: e_name n :: e_name s_on :: e_name t :: etoks_dirs ds ++ etoks_set ss.
  Proof. reflexivity. Qed.

  Lemma LX_opname : forall (nm : option name) (b : bool), optn_ok Pn nm ->
    LX true (match nm with Some n => sp ++ n ++ (if b then [] else sp) | None => [] end)
       (match nm with Some n => [e_name n] | None => [] end).
  Proof.
    intros [n|] b Hn; [|apply LX_weak, LX_nil].
    change [e_name n] with ([] ++ [e_name n] ++ []).
    apply LX_app_f; [apply LX_ws; reflexivity|].
    eapply LX_app_t; [apply LX_name; exact Hn|apply LX_ws; destruct b; reflexivity|destruct b; reflexivity].
  Qed.
  Lemma LX_opname_some : forall (n : name) (b : bool), Pn n ->
    LX true (sp ++ n ++ (if b then [] else sp)) [e_name n].
  Proof. intros n b Hn. apply (LX_opname (Some n) b Hn). Qed.
  Ltac lx_extra ::= first [ solve [apply LX_pgo; assumption] | solve [apply LX_optset; assumption]
                          | solve [apply LX_opname_some; assumption] ].

  Lemma LX_def : forall ind last d, ind_ws ind = true -> def_ok d -> LX last (print_def ind last d) (etoks_def d).
  Proof.
    destruct Pn_kw as (Kq & Km & Ks & Kf & Kon & _).
    intros ind last [[k nm vs ds ss]|[n t ds ss]] Hind Hok.
    - cbn [Gv.C05.ProofsLexPrintDefs.def_ok op_name op_vars op_dirs op_sels] in Hok.
      destruct Hok as (Hn & Hvs & Hds & Hss). pose proof (selP_all ss) as HP.
      rewrite print_def_op, etoks_def_op.
      destruct last, ind as [i|], k, nm as [n|], vs as [|v0 vr], ds as [|d0 [|d1 dr]], ss as [|x0 xr]; lx_top.
    - cbn [Gv.C05.ProofsLexPrintDefs.def_ok fr_name fr_type fr_dirs fr_sels] in Hok.
      destruct Hok as (Hn & Ht & Hds & Hss). pose proof (selP_all ss) as HP.
      rewrite print_def_frag, etoks_def_frag.
      destruct last, ind as [i|], ds as [|d0 [|d1 dr]], ss as [|x0 xr]; lx_top.
  Qed.

  Theorem LX_doc : forall ind d, ind_ws ind = true -> doc_ok d -> LX true (print_doc ind d) (etoks d).
  Proof.
    intros ind d Hind Hok. induction d as [|x r IH].
    - apply LX_weak, LX_nil.
    - inversion Hok as [|? ? Ox Or]; subst. destruct r as [|y r'].
      + change (print_doc ind [x]) with (print_def ind true x).
        change (etoks [x]) with (etoks_def x ++ []). rewrite app_nil_r.
        apply LX_def; assumption.
      + change (print_doc ind (x :: y :: r')) with (print_def ind false x ++ print_doc ind (y :: r')).
        change (etoks (x :: y :: r')) with (etoks_def x ++ etoks (y :: r')).
        apply LX_app_f; [apply LX_def; assumption|apply IH; assumption].
  Qed.
End PrintLX.
