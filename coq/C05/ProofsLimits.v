(* C05 stage 2 proofs, part A: the accounting as a fold, what a successful run implies, and the
   token-list predicates ("shapes") the parser proof establishes for what it consumes. *)
From Gv Require Import lib.Bytes lib.Gql C05.Lex C05.Parse C05.Limits C05.Spec.
From Coq Require Import ZArith Lia ZifyBool.
Open Scope Z_scope.

(* ---- one step without limits, and the fold ---- *)
Definition lstep (fx : bool) (t : ptoken) (s : lstate) : lstate :=
  match pk t with
  | KLBrace =>
    let l := l_local s + 1 in
    {| l_global := l_global s + 1; l_local := l; l_peak := (if l_peak s <? l then l else l_peak s);
       l_fields := l_fields s; l_spread := false |}
  | KRBrace =>
    {| l_global := l_global s - 1; l_local := l_local s - 1; l_peak := l_peak s;
       l_fields := l_fields s; l_spread := false |}
  | KSpread =>
    {| l_global := l_global s; l_local := l_local s; l_peak := l_peak s; l_fields := l_fields s; l_spread := true |}
  | KIdent =>
    if is_def_kw (keyword_of (plit t)) && (negb fx || (l_local s <=? 0)) then
      {| l_global := l_global s + l_peak s; l_local := 0; l_peak := 0; l_fields := l_fields s; l_spread := false |}
    else
      {| l_global := l_global s; l_local := l_local s; l_peak := l_peak s;
         l_fields := (if (0 <? l_local s) && negb (l_spread s) then l_fields s + 1 else l_fields s);
         l_spread := false |}
  | _ => s
  end.

Fixpoint lrun (fx : bool) (ts : list ptoken) (s : lstate) : lstate :=
  match ts with [] => s | t :: r => lrun fx r (lstep fx t s) end.

Lemma lrun_app : forall fx a b s, lrun fx (a ++ b) s = lrun fx b (lrun fx a s).
Proof. induction a; simpl; intros; auto. Qed.

(* a run that is accepted took no early exit: it is the fold *)
Lemma lim_run_step_ok : forall fx L F t r s a b,
  lim_run fx L F (t :: r) s = (LOk, a, b) -> lim_run fx L F r (lstep fx t s) = (LOk, a, b).
Proof.
  intros fx L F t r s a b H. cbn [lim_run] in H. unfold lstep.
  destruct (pk t); try exact H.
  - (* ident *)
    destruct (is_def_kw (keyword_of (plit t)) && (negb fx || (l_local s <=? 0))); [exact H|].
    cbv zeta in H.
    destruct ((0 <? F) && (F <? (if (0 <? l_local s) && negb (l_spread s) then l_fields s + 1 else l_fields s))); [discriminate H|exact H].
  - (* lbrace *)
    cbv zeta in H. destruct ((0 <? L) && (L <? l_global s + 1)); [discriminate H|exact H].
Qed.

Lemma lim_run_app_ok : forall fx L F pre rest s a b,
  lim_run fx L F (pre ++ rest) s = (LOk, a, b) -> lim_run fx L F rest (lrun fx pre s) = (LOk, a, b).
Proof.
  induction pre as [|t r IH]; intros rest s a b H; [exact H|].
  simpl. apply IH. apply lim_run_step_ok. exact H.
Qed.

Lemma lim_run_lbrace : forall fx L F t r s a b,
  lim_run fx L F (t :: r) s = (LOk, a, b) -> pk t = KLBrace -> 0 < L -> l_global s + 1 <= L.
Proof.
  intros fx L F t r s a b H Hk HL. cbn [lim_run] in H. rewrite Hk in H. cbv zeta in H.
  destruct ((0 <? L) && (L <? l_global s + 1)) eqn:E; [discriminate H|]. lia.
Qed.

Lemma lstep_fields_mono : forall fx t s, l_fields s <= l_fields (lstep fx t s).
Proof.
  intros. unfold lstep. destruct (pk t); simpl; try lia.
  destruct (is_def_kw (keyword_of (plit t)) && (negb fx || (l_local s <=? 0))); simpl; [lia|].
  destruct ((0 <? l_local s) && negb (l_spread s)); lia.
Qed.

(* an accepted run never saw the field counter above the limit; its TotalFields is the final counter *)
Lemma lim_run_fields : forall fx L F ts s a b,
  lim_run fx L F ts s = (LOk, a, b) ->
  b = l_fields (lrun fx ts s) /\ (0 < F -> l_fields s <= F -> b <= F).
Proof.
  induction ts as [|t r IH]; intros s a b H.
  - simpl in H. inversion H; subst. simpl. split; [reflexivity|lia].
  - pose proof (lim_run_step_ok _ _ _ _ _ _ _ _ H) as H'.
    destruct (IH _ _ _ H') as [E1 E2]. split; [exact E1|].
    intros HF Hs. apply E2; [exact HF|].
    (* the step kept the counter within the limit, otherwise the run would have stopped *)
    cbn [lim_run] in H. unfold lstep.
    destruct (pk t); simpl; try exact Hs.
    destruct (is_def_kw (keyword_of (plit t)) && (negb fx || (l_local s <=? 0))); simpl; [exact Hs|].
    cbv zeta in H.
    destruct ((0 <? F) && (F <? (if (0 <? l_local s) && negb (l_spread s) then l_fields s + 1 else l_fields s))) eqn:E; [discriminate H|].
    lia.
Qed.

(* ---- predicates on consumed token lists ---- *)

(* state facts every consumed segment satisfies, for the fixed and the historical accounting alike *)
Definition StateOK (pre : list ptoken) : Prop :=
  forall fx st, 0 <= l_peak st -> l_global st <= l_global (lrun fx pre st) /\ 0 <= l_peak (lrun fx pre st).

(* arguments, values, directives, types, variable definitions: balanced braces, no spread *)
Definition Plain (pre : list ptoken) : Prop :=
  (forall st, 0 <= l_local st ->
     l_local (lrun true pre st) = l_local st /\ l_fields st <= l_fields (lrun true pre st) /\
     (l_spread st = false -> l_spread (lrun true pre st) = false))
  /\ StateOK pre.

(* depth half of the selection-level shapes: an accepted run that passes through [pre] has checked
   a brace at nesting [dep] above the global depth it entered with (nothing to say when dep = 0) *)
Definition DepthOK (dep : Z) (pre : list ptoken) : Prop :=
  (forall fx L F st rest a b, 0 < L -> 0 <= l_peak st -> 0 < dep ->
    lim_run fx L F (pre ++ rest) st = (LOk, a, b) -> l_global st + dep <= L)
  /\ StateOK pre.

(* the tokens of one selection, met inside a selection set (local depth >= 1, no pending spread) *)
Definition FieldsOK (n : Z) (pre : list ptoken) : Prop :=
  forall st, 1 <= l_local st -> l_spread st = false ->
     l_local (lrun true pre st) = l_local st /\ l_spread (lrun true pre st) = false /\
     l_fields st + n <= l_fields (lrun true pre st).
Definition SelOK (s : selection) (pre : list ptoken) : Prop :=
  FieldsOK (sel_fields s) pre /\ DepthOK (sel_depth s) pre.
Definition SelsOK (l : list selection) (pre : list ptoken) : Prop :=
  FieldsOK (sels_fields l) pre /\ DepthOK (sels_maxdepth l) pre.

(* a braced selection set, or nothing when [l] is empty; may follow a spread when non-empty *)
Definition SetOK (l : list selection) (pre : list ptoken) : Prop :=
  (forall st, 0 <= l_local st ->
     l_local (lrun true pre st) = l_local st /\ l_fields st + sels_fields l <= l_fields (lrun true pre st) /\
     (l <> [] \/ l_spread st = false -> l_spread (lrun true pre st) = false))
  /\ DepthOK (selset_depth l) pre.

(* ---- the nested fixpoints of Spec agree with the list-level functions ---- *)
Lemma sel_fields_field : forall a n ar d sels, sel_fields (SField a n ar d sels) = 1 + sels_fields sels.
Proof. intros. reflexivity. Qed.
Lemma sel_fields_inline : forall tc d sels, sel_fields (SInline tc d sels) = sels_fields sels.
Proof. intros. reflexivity. Qed.
Lemma sel_depth_field : forall a n ar d sels, sel_depth (SField a n ar d sels) = selset_depth sels.
Proof. intros. destruct sels; reflexivity. Qed.
Lemma sel_depth_inline : forall tc d sels, sel_depth (SInline tc d sels) = selset_depth sels.
Proof. intros. destruct sels; reflexivity. Qed.
Lemma sels_maxdepth_nonneg : forall l, 0 <= sels_maxdepth l.
Proof. induction l; simpl; lia. Qed.

(* ---- closure lemmas: StateOK / Plain ---- *)
Lemma lstep_peak_nonneg : forall fx t s, 0 <= l_peak s -> 0 <= l_peak (lstep fx t s).
Proof.
  intros. unfold lstep. destruct (pk t); simpl; try lia.
  - destruct (is_def_kw (keyword_of (plit t)) && (negb fx || (l_local s <=? 0))); simpl; lia.
  - destruct (l_peak s <? l_local s + 1) eqn:E; lia.
Qed.

Lemma StateOK_nil : StateOK [].
Proof. intros fx st H. simpl. lia. Qed.
Lemma StateOK_app : forall a b, StateOK a -> StateOK b -> StateOK (a ++ b).
Proof.
  intros a b A B fx st H. rewrite lrun_app.
  destruct (A fx st H) as (E1 & E2). destruct (B fx (lrun fx a st) E2) as (F1 & F2). split; lia.
Qed.
(* any token but a closing brace keeps the global depth from falling *)
Lemma StateOK_tok : forall t, pk t <> KRBrace -> StateOK [t].
Proof.
  intros t Hk fx st H. simpl. split; [|apply lstep_peak_nonneg; exact H].
  unfold lstep. destruct (pk t); simpl; try lia; try congruence.
  destruct (is_def_kw (keyword_of (plit t)) && (negb fx || (l_local st <=? 0))); simpl; lia.
Qed.
Lemma StateOK_braces : forall o c mid, pk o = KLBrace -> pk c = KRBrace -> StateOK mid -> StateOK (o :: mid ++ [c]).
Proof.
  intros o c mid Ho Hc M fx st H. change (o :: mid ++ [c]) with ([o] ++ mid ++ [c]). rewrite !lrun_app. simpl.
  set (s1 := lstep fx o st).
  assert (S1 : l_global s1 = l_global st + 1 /\ 0 <= l_peak s1).
  { subst s1. split; [unfold lstep; rewrite Ho; reflexivity|apply lstep_peak_nonneg; exact H]. }
  destruct S1 as (S1a & S1b).
  destruct (M fx s1 S1b) as (E1 & E2).
  unfold lstep. rewrite Hc. simpl. split; lia.
Qed.

Lemma Plain_nil : Plain [].
Proof. split; [intros; simpl; repeat split; auto; lia|apply StateOK_nil]. Qed.

Lemma Plain_app : forall a b, Plain a -> Plain b -> Plain (a ++ b).
Proof.
  intros a b [A1 A2] [B1 B2]. split; [|apply StateOK_app; assumption].
  intros st H. rewrite lrun_app.
  destruct (A1 st H) as (E1 & E2 & E3).
  destruct (B1 (lrun true a st)) as (F1 & F2 & F3); [lia|].
  repeat split; try lia; auto.
Qed.

Definition plain_kind (k : kind) : bool :=
  match k with KLBrace | KRBrace | KSpread => false | _ => true end.

Lemma Plain_tok : forall t, plain_kind (pk t) = true -> Plain [t].
Proof.
  intros t Hk. split.
  - intros st H. simpl. unfold lstep. destruct (pk t); try discriminate Hk; simpl; try (repeat split; auto; lia).
    destruct (is_def_kw (keyword_of (plit t)) && (l_local st <=? 0)) eqn:E; simpl.
    + apply andb_prop in E. destruct E as [_ E]. repeat split; auto; lia.
    + destruct ((0 <? l_local st) && negb (l_spread st)); repeat split; auto; lia.
  - apply StateOK_tok. destruct (pk t); try discriminate Hk; congruence.
Qed.

Lemma Plain_cons : forall t r, plain_kind (pk t) = true -> Plain r -> Plain (t :: r).
Proof. intros. change (t :: r) with ([t] ++ r). apply Plain_app; [apply Plain_tok; assumption|assumption]. Qed.

Lemma Plain_braces : forall o c mid, pk o = KLBrace -> pk c = KRBrace -> Plain mid -> Plain (o :: mid ++ [c]).
Proof.
  intros o c mid Ho Hc [M1 M2]. split; [|apply StateOK_braces; assumption].
  intros st H. change (o :: mid ++ [c]) with ([o] ++ mid ++ [c]). rewrite !lrun_app. simpl.
  set (s1 := lstep true o st).
  assert (S1 : l_local s1 = l_local st + 1 /\ l_fields s1 = l_fields st /\ l_spread s1 = false).
  { subst s1. unfold lstep. rewrite Ho. simpl. auto. }
  destruct S1 as (S1a & S1b & S1c).
  destruct (M1 s1) as (E1 & E2 & E3); [lia|].
  unfold lstep. rewrite Hc. simpl. repeat split; try lia; auto.
Qed.

(* ---- closure lemmas: depth ---- *)
Lemma DepthOK_state : forall pre, StateOK pre -> DepthOK 0 pre.
Proof. intros pre H. split; [intros; lia|exact H]. Qed.

(* a segment with nothing to check, followed by one that demands [dep] *)
Lemma DepthOK_after : forall a b dep, StateOK a -> DepthOK dep b -> DepthOK dep (a ++ b).
Proof.
  intros a b dep A [B1 B2]. split; [|apply StateOK_app; assumption].
  intros fx L F st rest x y HL Hp Hd H.
  rewrite <- app_assoc in H. apply lim_run_app_ok in H.
  destruct (A fx st Hp) as (E1 & E2).
  specialize (B1 fx L F (lrun fx a st) rest x y HL E2 Hd H). lia.
Qed.
Lemma DepthOK_before : forall a b dep, DepthOK dep a -> StateOK b -> DepthOK dep (a ++ b).
Proof.
  intros a b dep [A1 A2] B. split; [|apply StateOK_app; assumption].
  intros fx L F st rest x y HL Hp Hd H.
  rewrite <- app_assoc in H. eapply A1; eassumption.
Qed.
Lemma DepthOK_max : forall a b da db, DepthOK da a -> DepthOK db b -> DepthOK (Z.max da db) (a ++ b).
Proof.
  intros a b da db [A1 A2] [B1 B2]. split; [|apply StateOK_app; assumption].
  intros fx L F st rest x y HL Hp Hd H.
  rewrite <- app_assoc in H.
  assert (Ha : 0 < da -> l_global st + da <= L) by (intro; eapply A1; eassumption).
  apply lim_run_app_ok in H. destruct (A2 fx st Hp) as (E1 & E2).
  assert (Hb : 0 < db -> l_global st + db <= L).
  { intro Hdb. specialize (B1 fx L F (lrun fx a st) rest x y HL E2 Hdb H). lia. }
  lia.
Qed.

(* a braced set: its own brace is checked at depth 1, its content one deeper *)
Lemma DepthOK_braces : forall o c body dep, pk o = KLBrace -> pk c = KRBrace -> 0 <= dep ->
  DepthOK dep body -> DepthOK (1 + dep) (o :: body ++ [c]).
Proof.
  intros o c body dep Ho Hc Hdep [B1 B2]. split; [|apply StateOK_braces; assumption].
  intros fx L F st rest x y HL Hp Hd H.
  pose proof (lim_run_lbrace _ _ _ _ _ _ _ _ H Ho HL) as Hb.
  simpl in H. apply lim_run_step_ok in H.
  assert (Hs : l_global (lstep fx o st) = l_global st + 1 /\ 0 <= l_peak (lstep fx o st)).
  { split; [unfold lstep; rewrite Ho; reflexivity|apply lstep_peak_nonneg; exact Hp]. }
  destruct Hs as (Hs1 & Hs2).
  destruct (Z.eq_dec dep 0) as [->|Hn]; [lia|].
  rewrite <- app_assoc in H.
  specialize (B1 fx L F (lstep fx o st) ([c] ++ rest) x y HL Hs2 ltac:(lia) H). lia.
Qed.

(* ---- closure lemmas: fields ---- *)
Lemma FieldsOK_nil : FieldsOK 0 [].
Proof. intros st H1 H2. simpl. repeat split; auto; lia. Qed.
Lemma FieldsOK_app : forall a b na nb, FieldsOK na a -> FieldsOK nb b -> FieldsOK (na + nb) (a ++ b).
Proof.
  intros a b na nb A B st H1 H2. rewrite lrun_app.
  destruct (A st H1 H2) as (E1 & E2 & E3).
  destruct (B (lrun true a st)) as (F1 & F2 & F3); [lia|assumption|].
  repeat split; try lia; try assumption.
Qed.
Lemma FieldsOK_weaken : forall a n m, m <= n -> FieldsOK n a -> FieldsOK m a.
Proof. intros a n m H A st H1 H2. destruct (A st H1 H2) as (E1 & E2 & E3). repeat split; auto; lia. Qed.
Lemma FieldsOK_plain : forall a, Plain a -> FieldsOK 0 a.
Proof.
  intros a [A1 _] st H1 H2. destruct (A1 st) as (E1 & E2 & E3); [lia|]. repeat split; auto; lia.
Qed.
(* an identifier inside a selection set, with no pending spread, is counted -- whatever it spells *)
Lemma FieldsOK_ident : forall t, pk t = KIdent -> FieldsOK 1 [t].
Proof.
  intros t Hk st H1 H2. simpl. unfold lstep. rewrite Hk.
  replace (l_local st <=? 0) with false by lia. rewrite H2.
  replace (0 <? l_local st) with true by lia.
  rewrite Bool.andb_false_r. simpl. repeat split; auto; lia.
Qed.
(* the identifier after a spread (fragment name, "on", directive name) is dismissed *)
Lemma FieldsOK_spread_ident : forall s mid t, pk s = KSpread -> pk t = KIdent ->
  (forall x, In x mid -> pk x = KAt) -> FieldsOK 0 (s :: mid ++ [t]).
Proof.
  intros s mid t Hs Ht Hmid st H1 H2.
  change (s :: mid ++ [t]) with ([s] ++ mid ++ [t]). rewrite !lrun_app. simpl.
  set (s1 := lstep true s st).
  assert (S1 : l_local s1 = l_local st /\ l_fields s1 = l_fields st /\ l_spread s1 = true).
  { subst s1. unfold lstep. rewrite Hs. simpl. auto. }
  assert (S2 : lrun true mid s1 = s1).
  { clear S1. generalize s1. induction mid as [|x r IH]; intro s0; [reflexivity|].
    simpl. assert (E : lstep true x s0 = s0) by (unfold lstep; rewrite (Hmid x (or_introl eq_refl)); reflexivity).
    rewrite E. apply IH. intros y Hy. apply Hmid. right. exact Hy. }
  rewrite S2. destruct S1 as (A & B & C).
  unfold lstep. rewrite Ht. rewrite A. replace (l_local st <=? 0) with false by lia.
  rewrite Bool.andb_false_r. simpl. rewrite C. rewrite Bool.andb_false_r. simpl. repeat split; auto; lia.
Qed.

Lemma SetOK_none : SetOK [] [].
Proof.
  split; [|apply DepthOK_state; apply StateOK_nil].
  intros st H. simpl. repeat split; try lia. intros [E|E]; [congruence|exact E].
Qed.

Lemma SetOK_some : forall o c body l, l <> [] -> pk o = KLBrace -> pk c = KRBrace ->
  SelsOK l body -> SetOK l (o :: body ++ [c]).
Proof.
  intros o c body l Hl Ho Hc [B1 B2]. split.
  - intros st H. change (o :: body ++ [c]) with ([o] ++ body ++ [c]). rewrite !lrun_app. simpl.
    set (s1 := lstep true o st).
    assert (S1 : l_local s1 = l_local st + 1 /\ l_fields s1 = l_fields st /\ l_spread s1 = false).
    { subst s1. unfold lstep. rewrite Ho. simpl. auto. }
    destruct S1 as (S1a & S1b & S1c).
    destruct (B1 s1) as (E1 & E2 & E3); [lia|assumption|].
    unfold lstep. rewrite Hc. simpl. repeat split; try lia; auto.
  - unfold selset_depth. destruct l; [congruence|].
    apply DepthOK_braces; try assumption. apply sels_maxdepth_nonneg.
Qed.

Lemma SelsOK_nil : SelsOK [] [].
Proof. split; [apply FieldsOK_nil|apply DepthOK_state; apply StateOK_nil]. Qed.
Lemma SelsOK_cons : forall x r p1 p2, SelOK x p1 -> SelsOK r p2 -> SelsOK (x :: r) (p1 ++ p2).
Proof.
  intros x r p1 p2 [A1 A2] [B1 B2]. split; simpl.
  - apply FieldsOK_app; assumption.
  - apply DepthOK_max; assumption.
Qed.

(* fields of a set, read inside a selection set after possibly a spread-free prefix *)
Lemma SetOK_fields : forall l sub, SetOK l sub -> FieldsOK (sels_fields l) sub.
Proof.
  intros l sub [S1 _] st H1 H2. destruct (S1 st) as (E1 & E2 & E3); [lia|].
  repeat split; auto.
Qed.

(* head ++ (arguments, directives) ++ optional set *)
Lemma SelOK_field : forall hd mid sub alias nm args dirs sels,
  FieldsOK 1 hd -> StateOK hd -> Plain mid -> SetOK sels sub ->
  SelOK (SField alias nm args dirs sels) (hd ++ mid ++ sub).
Proof.
  intros hd mid sub alias nm args dirs sels H1 H2 Hm Hs. split.
  - rewrite sel_fields_field.
    replace (1 + sels_fields sels) with (1 + (0 + sels_fields sels)) by lia.
    apply FieldsOK_app; [assumption|]. apply FieldsOK_app; [apply FieldsOK_plain; assumption|apply SetOK_fields; assumption].
  - rewrite sel_depth_field. destruct Hs as [_ Hd].
    apply DepthOK_after; [assumption|]. apply DepthOK_after; [apply Hm|assumption].
Qed.

Lemma SelOK_spread : forall s t mid nm dirs, pk s = KSpread -> pk t = KIdent -> Plain mid ->
  SelOK (SSpread nm dirs) (s :: t :: mid).
Proof.
  intros s t mid nm dirs Hs Ht Hm. split.
  - simpl sel_fields. change (s :: t :: mid) with ((s :: [] ++ [t]) ++ mid).
    replace 0 with (0 + 0) by lia. apply FieldsOK_app.
    + apply FieldsOK_spread_ident; try assumption. intros x [].
    + apply FieldsOK_plain; assumption.
  - simpl sel_depth. apply DepthOK_state.
    change (s :: t :: mid) with ([s] ++ [t] ++ mid).
    apply StateOK_app; [apply StateOK_tok; congruence|].
    apply StateOK_app; [apply StateOK_tok; congruence|apply Hm].
Qed.

(* "..." then: "on" Type | "@" name | nothing; then plain rest; then the set.  [hd] is what follows
   the spread up to and including the first identifier (empty when the set follows directly). *)
Lemma SelOK_inline : forall s hd mid sub tc dirs sels, pk s = KSpread ->
  (hd = [] /\ mid = [] /\ sels <> [] \/
   exists ats t, hd = ats ++ [t] /\ pk t = KIdent /\ (forall x, In x ats -> pk x = KAt)) ->
  Plain mid -> SetOK sels sub ->
  SelOK (SInline tc dirs sels) (s :: hd ++ mid ++ sub).
Proof.
  intros s hd mid sub tc dirs sels Hs Hhd Hm [S1 S2]. split.
  - rewrite sel_fields_inline. destruct Hhd as [(-> & -> & Hne)|(ats & t & -> & Ht & Hats)].
    + (* spread directly followed by the set's brace *)
      simpl. intros st H1 H2. simpl.
      set (s1 := lstep true s st).
      assert (A : l_local s1 = l_local st /\ l_fields s1 = l_fields st).
      { subst s1. unfold lstep. rewrite Hs. simpl. auto. }
      destruct (S1 s1) as (E1 & E2 & E3); [lia|].
      repeat split; try lia. apply E3. left. assumption.
    + replace (sels_fields sels) with (0 + (0 + sels_fields sels)) by lia.
      change (s :: (ats ++ [t]) ++ mid ++ sub) with ((s :: ats ++ [t]) ++ mid ++ sub).
      apply FieldsOK_app; [apply FieldsOK_spread_ident; assumption|].
      apply FieldsOK_app; [apply FieldsOK_plain; assumption|apply SetOK_fields; split; assumption].
  - rewrite sel_depth_inline.
    change (s :: hd ++ mid ++ sub) with ([s] ++ hd ++ mid ++ sub).
    apply DepthOK_after; [apply StateOK_tok; congruence|].
    apply DepthOK_after.
    { destruct Hhd as [(-> & _)|(ats & t & -> & Ht & Hats)]; [apply StateOK_nil|].
      apply StateOK_app; [|apply StateOK_tok; congruence].
      induction ats as [|x r IH]; [apply StateOK_nil|].
      change (x :: r) with ([x] ++ r). apply StateOK_app.
      - apply StateOK_tok. rewrite (Hats x (or_introl eq_refl)). congruence.
      - apply IH. intros y Hy. apply Hats. right. exact Hy. }
    apply DepthOK_after; [apply Hm|assumption].
Qed.

(* ---- comments are invisible to the accounting, so stripping them changes nothing ---- *)
Lemma lim_run_comment : forall fx L F t r s, pk t = KComment -> lim_run fx L F (t :: r) s = lim_run fx L F r s.
Proof. intros. cbn [lim_run]. rewrite H. reflexivity. Qed.

Lemma kind_eqb_eq : forall a b, kind_eqb a b = true <-> a = b.
Proof.
  intros a b. unfold kind_eqb. split.
  - intro H. apply N.eqb_eq in H. destruct a, b; simpl in H; try reflexivity; discriminate H.
  - intros ->. apply N.eqb_refl.
Qed.

Lemma lim_run_cons_congr : forall fx L F t a b,
  (forall s, lim_run fx L F a s = lim_run fx L F b s) ->
  forall s, lim_run fx L F (t :: a) s = lim_run fx L F (t :: b) s.
Proof.
  intros fx L F t a b H s. cbn [lim_run]. destruct (pk t); try apply H.
  - destruct (is_def_kw (keyword_of (plit t)) && (negb fx || (l_local s <=? 0))); [apply H|].
    cbv zeta. destruct ((0 <? F) && (F <? (if (0 <? l_local s) && negb (l_spread s) then l_fields s + 1 else l_fields s))); [reflexivity|apply H].
  - cbv zeta. destruct ((0 <? L) && (L <? l_global s + 1)); [reflexivity|apply H].
Qed.

Lemma lim_run_strip : forall fx L F ts s, lim_run fx L F (strip ts) s = lim_run fx L F ts s.
Proof.
  intros fx L F ts. remember (length ts) as n eqn:Hn. revert ts Hn.
  induction n as [n IH] using (well_founded_induction Wf_nat.lt_wf). intros ts Hn s.
  destruct ts as [|t r]; [reflexivity|]. cbn [strip].
  destruct (kind_eqb (pk t) KComment) eqn:E.
  - apply kind_eqb_eq in E. rewrite (lim_run_comment _ _ _ _ _ _ E).
    destruct r as [|t2 r2]; [reflexivity|].
    apply lim_run_cons_congr. intro s'. apply (IH (length r2)); [subst n; simpl; lia|reflexivity].
  - apply lim_run_cons_congr. intro s'. apply (IH (length r)); [subst n; simpl; lia|reflexivity].
Qed.
