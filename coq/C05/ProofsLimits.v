(* C05 stage 2 proofs, part A: the accounting as a fold, what a successful run implies, and the
   token-list predicates ("shapes") the parser proof establishes for what it consumes. *)
From Gv Require Import lib.Bytes lib.Gql C05.Lex C05.Parse C05.Limits C05.Spec.
From Coq Require Import ZArith Lia ZifyBool.
Open Scope Z_scope.

(* ---- one step without limits, and the fold ---- *)
Definition lstep (fx cm : bool) (t : ptoken) (s : lstate) : lstate :=
  match pk t with
  | KComment => s
  | KLBrace =>
    let flush := starts_shorthand cm s in
    let g0 := if flush then l_global s + l_peak s else l_global s in
    let l0 := if flush then 0 else l_local s in
    let p0 := if flush then 0 else l_peak s in
    {| l_global := g0 + 1; l_local := l0 + 1; l_peak := (if p0 <? l0 + 1 then l0 + 1 else p0);
       l_fields := l_fields s; l_spread := false; l_paren := l_paren s; l_open := false |}
  | KRBrace =>
    {| l_global := l_global s - 1; l_local := l_local s - 1; l_peak := l_peak s;
       l_fields := l_fields s; l_spread := false; l_paren := l_paren s; l_open := true |}
  | KLParen =>
    {| l_global := l_global s; l_local := l_local s; l_peak := l_peak s;
       l_fields := l_fields s; l_spread := l_spread s; l_paren := l_paren s + 1; l_open := false |}
  | KRParen =>
    {| l_global := l_global s; l_local := l_local s; l_peak := l_peak s;
       l_fields := l_fields s; l_spread := l_spread s; l_paren := l_paren s - 1; l_open := false |}
  | KSpread =>
    {| l_global := l_global s; l_local := l_local s; l_peak := l_peak s;
       l_fields := l_fields s; l_spread := true; l_paren := l_paren s; l_open := false |}
  | KIdent =>
    if is_def_kw (keyword_of (plit t)) && (negb fx || (l_local s <=? 0)) then
      {| l_global := l_global s + l_peak s; l_local := 0; l_peak := 0;
         l_fields := l_fields s; l_spread := false; l_paren := l_paren s; l_open := false |}
    else
      {| l_global := l_global s; l_local := l_local s; l_peak := l_peak s;
         l_fields := (if (0 <? l_local s) && negb (l_spread s) then l_fields s + 1 else l_fields s);
         l_spread := false; l_paren := l_paren s; l_open := false |}
  | _ =>
    {| l_global := l_global s; l_local := l_local s; l_peak := l_peak s;
       l_fields := l_fields s; l_spread := l_spread s; l_paren := l_paren s; l_open := false |}
  end.

Fixpoint lrun (fx cm : bool) (ts : list ptoken) (s : lstate) : lstate :=
  match ts with [] => s | t :: r => lrun fx cm r (lstep fx cm t s) end.

Lemma lrun_app : forall fx cm a b s, lrun fx cm (a ++ b) s = lrun fx cm b (lrun fx cm a s).
Proof. induction a; simpl; intros; auto. Qed.

(* a run that is accepted took no early exit: it is the fold *)
Lemma lim_run_step_ok : forall fx cm L F t r s a b,
  lim_run fx cm L F (t :: r) s = (LOk, a, b) -> lim_run fx cm L F r (lstep fx cm t s) = (LOk, a, b).
Proof.
  intros fx cm L F t r s a b H. cbn [lim_run] in H. unfold lstep.
  destruct (pk t); try exact H.
  - (* ident *)
    destruct (is_def_kw (keyword_of (plit t)) && (negb fx || (l_local s <=? 0))); [exact H|].
    cbv zeta in H.
    destruct ((0 <? F) && (F <? (if (0 <? l_local s) && negb (l_spread s) then l_fields s + 1 else l_fields s))); [discriminate H|exact H].
  - (* lbrace *)
    cbv zeta in H. cbv zeta.
    match type of H with (if ?c then _ else _) = _ => destruct c end; [discriminate H|exact H].
Qed.

Lemma lim_run_app_ok : forall fx cm L F pre rest s a b,
  lim_run fx cm L F (pre ++ rest) s = (LOk, a, b) -> lim_run fx cm L F rest (lrun fx cm pre s) = (LOk, a, b).
Proof.
  induction pre as [|t r IH]; intros rest s a b H; [exact H|].
  simpl. apply IH. apply lim_run_step_ok. exact H.
Qed.

(* the depth check at a brace is on the global depth AFTER the brace *)
Lemma lim_run_lbrace : forall fx cm L F t r s a b,
  lim_run fx cm L F (t :: r) s = (LOk, a, b) -> pk t = KLBrace -> 0 < L -> l_global (lstep fx cm t s) <= L.
Proof.
  intros fx cm L F t r s a b H Hk HL. cbn [lim_run] in H. unfold lstep. rewrite Hk in *. cbv zeta in *.
  match type of H with (if ?c then _ else _) = _ => destruct c eqn:E end; [discriminate H|].
  simpl. lia.
Qed.

Lemma lstep_fields_mono : forall fx cm t s, l_fields s <= l_fields (lstep fx cm t s).
Proof.
  intros. unfold lstep. destruct (pk t); simpl; try lia.
  destruct (is_def_kw (keyword_of (plit t)) && (negb fx || (l_local s <=? 0))); simpl; [lia|].
  destruct ((0 <? l_local s) && negb (l_spread s)); lia.
Qed.

(* an accepted run never saw the field counter above the limit; its TotalFields is the final counter *)
Lemma lim_run_fields : forall fx cm L F ts s a b,
  lim_run fx cm L F ts s = (LOk, a, b) ->
  b = l_fields (lrun fx cm ts s) /\ (0 < F -> l_fields s <= F -> b <= F).
Proof.
  induction ts as [|t r IH]; intros s a b H.
  - simpl in H. inversion H; subst. simpl. split; [reflexivity|lia].
  - pose proof (lim_run_step_ok _ _ _ _ _ _ _ _ _ H) as H'.
    destruct (IH _ _ _ H') as [E1 E2]. split; [exact E1|].
    intros HF Hs. apply E2; [exact HF|].
    cbn [lim_run] in H. unfold lstep.
    destruct (pk t); simpl; try exact Hs.
    destruct (is_def_kw (keyword_of (plit t)) && (negb fx || (l_local s <=? 0))); simpl; [exact Hs|].
    cbv zeta in H.
    destruct ((0 <? F) && (F <? (if (0 <? l_local s) && negb (l_spread s) then l_fields s + 1 else l_fields s))) eqn:E; [discriminate H|].
    lia.
Qed.

(* ---- parentheses: the counter moves by the net number of parentheses, whatever else happens ---- *)
Definition pdelta (k : kind) : Z := match k with KLParen => 1 | KRParen => -1 | _ => 0 end.
Fixpoint pnet (ts : list ptoken) : Z := match ts with [] => 0 | t :: r => pdelta (pk t) + pnet r end.
Lemma pnet_app : forall a b, pnet (a ++ b) = pnet a + pnet b.
Proof. induction a; simpl; intros; [lia|rewrite IHa; lia]. Qed.
Lemma lstep_paren : forall fx cm t s, l_paren (lstep fx cm t s) = l_paren s + pdelta (pk t).
Proof.
  intros. unfold lstep. destruct (pk t); simpl; try lia.
  destruct (is_def_kw (keyword_of (plit t)) && (negb fx || (l_local s <=? 0))); simpl; lia.
Qed.
Lemma lrun_paren : forall fx cm ts s, l_paren (lrun fx cm ts s) = l_paren s + pnet ts.
Proof. induction ts; simpl; intros; [lia|]. rewrite IHts, lstep_paren. lia. Qed.

(* ---- predicates on consumed token lists ---- *)

(* state facts every consumed segment satisfies, for every version of the accounting: the global depth
   does not fall, and neither does global depth + current peak (what TotalDepth reports) *)
Definition StateOK (pre : list ptoken) : Prop :=
  forall fx cm st, 0 <= l_peak st ->
    l_global st <= l_global (lrun fx cm pre st) /\ 0 <= l_peak (lrun fx cm pre st) /\
    l_global st + l_peak st <= l_global (lrun fx cm pre st) + l_peak (lrun fx cm pre st).

(* inside a selection set (local depth >= 1) of the repaired accounting nothing resets: local and global
   depth come back, the peak only grows *)
Definition InOK (pre : list ptoken) : Prop :=
  forall cm st, 1 <= l_local st ->
    l_local (lrun true cm pre st) = l_local st /\ l_peak st <= l_peak (lrun true cm pre st) /\
    l_global (lrun true cm pre st) = l_global st.

(* arguments, values, directives, types, variable definitions: balanced braces, no spread *)
Definition Plain (pre : list ptoken) : Prop :=
  (forall cm st, 0 <= l_local st ->
     l_local (lrun true cm pre st) = l_local st /\ l_fields st <= l_fields (lrun true cm pre st) /\
     (l_spread st = false -> l_spread (lrun true cm pre st) = false))
  /\ StateOK pre /\ InOK pre.

(* depth half of the selection-level shapes: an accepted run that passes through [pre] has checked
   a brace at nesting [dep] above the global depth it entered with (nothing to say when dep = 0) *)
Definition DepthOK (dep : Z) (pre : list ptoken) : Prop :=
  (forall fx cm L F st rest a b, 0 < L -> 0 <= l_peak st -> 0 < dep ->
    lim_run fx cm L F (pre ++ rest) st = (LOk, a, b) -> l_global st + dep <= L)
  /\ StateOK pre.

(* peak half (repaired accounting): passing through [pre] inside a selection set raises the peak to
   the local depth + [dep] *)
Definition PeakOK (dep : Z) (pre : list ptoken) : Prop :=
  InOK pre /\
  (forall cm st, 1 <= l_local st -> 0 < dep -> l_local st + dep <= l_peak (lrun true cm pre st)).

(* the tokens of one selection, met inside a selection set (local depth >= 1, no pending spread) *)
Definition FieldsOK (n : Z) (pre : list ptoken) : Prop :=
  forall cm st, 1 <= l_local st -> l_spread st = false ->
     l_local (lrun true cm pre st) = l_local st /\ l_spread (lrun true cm pre st) = false /\
     l_fields st + n <= l_fields (lrun true cm pre st).
Definition SelOK (s : selection) (pre : list ptoken) : Prop :=
  FieldsOK (sel_fields s) pre /\ DepthOK (sel_depth s) pre /\ PeakOK (sel_depth s) pre.
Definition SelsOK (l : list selection) (pre : list ptoken) : Prop :=
  FieldsOK (sels_fields l) pre /\ DepthOK (sels_maxdepth l) pre /\ PeakOK (sels_maxdepth l) pre.

(* a selection set met at the top level (local depth 0): afterwards global + peak has grown by its depth,
   counted from global + old peak when the brace started a new accounting period *)
Definition TopOK (dep : Z) (pre : list ptoken) : Prop :=
  forall cm st, l_local st = 0 -> 0 <= l_peak st ->
    l_local (lrun true cm pre st) = 0 /\ 0 <= l_peak (lrun true cm pre st) /\
    (0 < dep -> l_open (lrun true cm pre st) = true) /\
    l_global st + dep <= l_global (lrun true cm pre st) + l_peak (lrun true cm pre st) /\
    (starts_shorthand cm st = true ->
       l_global st + l_peak st + dep <= l_global (lrun true cm pre st) + l_peak (lrun true cm pre st)).

(* ... and when its brace starts a new accounting period, an accepted run has checked the cumulative depth *)
Definition TopDepthOK (dep : Z) (pre : list ptoken) : Prop :=
  forall cm L F st rest a b, 0 < L -> 0 <= l_peak st -> 0 < dep -> starts_shorthand cm st = true ->
    lim_run true cm L F (pre ++ rest) st = (LOk, a, b) -> l_global st + l_peak st + dep <= L.

(* a braced selection set, or nothing when [l] is empty; may follow a spread when non-empty *)
Definition SetOK (l : list selection) (pre : list ptoken) : Prop :=
  (forall cm st, 0 <= l_local st ->
     l_local (lrun true cm pre st) = l_local st /\ l_fields st + sels_fields l <= l_fields (lrun true cm pre st) /\
     (l <> [] \/ l_spread st = false -> l_spread (lrun true cm pre st) = false))
  /\ DepthOK (selset_depth l) pre /\ PeakOK (selset_depth l) pre /\ TopOK (selset_depth l) pre
  /\ TopDepthOK (selset_depth l) pre.

(* ---- the nested fixpoints of Spec agree with the list-level functions ---- *)
Lemma sel_fields_field : forall a n ar d sels, sel_fields (SField a n ar d sels) = 1 + sels_fields sels.
Proof. intros. reflexivity. Qed.
Lemma sel_fields_inline : forall tc d sels, sel_fields (SInline tc d sels) = sels_fields sels.
Proof. intros. reflexivity. Qed.
Lemma sel_depth_field : forall a n ar d sels, sel_depth (SField a n ar d sels) = selset_depth sels.
Proof. intros. destruct sels; reflexivity. Qed.
Lemma sel_depth_inline : forall tc d sels, sel_depth (SInline tc d sels) = selset_depth sels.
Proof. intros. destruct sels; reflexivity. Qed.
Lemma sels_maxdepth_nonneg : forall l, 0 <= sels_maxdepth l.
Proof. induction l; simpl; lia. Qed.
Lemma selset_depth_nonneg : forall l, 0 <= selset_depth l.
Proof. intros. unfold selset_depth. destruct l; [lia|]. pose proof (sels_maxdepth_nonneg (s :: l)). lia. Qed.

(* ---- single steps ---- *)
Lemma lstep_peak_nonneg : forall fx cm t s, 0 <= l_peak s -> 0 <= l_peak (lstep fx cm t s).
Proof.
  intros. unfold lstep. destruct (pk t); simpl; try lia.
  - destruct (is_def_kw (keyword_of (plit t)) && (negb fx || (l_local s <=? 0))); simpl; lia.
  - destruct (starts_shorthand cm s); simpl;
      repeat match goal with |- context [if ?c then _ else _] => destruct c eqn:? end; lia.
Qed.

(* an opening brace: global depth rises by at least one, global + peak does not fall *)
Lemma lstep_lbrace : forall fx cm t s, pk t = KLBrace -> 0 <= l_peak s ->
  l_global s + 1 <= l_global (lstep fx cm t s) /\
  l_global s + l_peak s <= l_global (lstep fx cm t s) + l_peak (lstep fx cm t s) - 1.
Proof.
  intros fx cm t s Hk Hp. unfold lstep. rewrite Hk. cbv zeta.
  destruct (starts_shorthand cm s); simpl;
    repeat match goal with |- context [if ?c then _ else _] => destruct c eqn:? end; lia.
Qed.
(* inside a selection set the brace never starts a new period *)
Lemma lstep_lbrace_in : forall fx cm t s, pk t = KLBrace -> 1 <= l_local s ->
  lstep fx cm t s =
  {| l_global := l_global s + 1; l_local := l_local s + 1;
     l_peak := (if l_peak s <? l_local s + 1 then l_local s + 1 else l_peak s);
     l_fields := l_fields s; l_spread := false; l_paren := l_paren s; l_open := false |}.
Proof.
  intros fx cm t s Hk Hl. unfold lstep. rewrite Hk. cbv zeta.
  assert (E : starts_shorthand cm s = false).
  { unfold starts_shorthand. replace (l_local s <=? 0) with false by lia. rewrite Bool.andb_false_r. reflexivity. }
  rewrite E. reflexivity.
Qed.
Lemma lstep_rbrace : forall fx cm t s, pk t = KRBrace ->
  lstep fx cm t s =
  {| l_global := l_global s - 1; l_local := l_local s - 1; l_peak := l_peak s;
     l_fields := l_fields s; l_spread := false; l_paren := l_paren s; l_open := true |}.
Proof. intros. unfold lstep. rewrite H. reflexivity. Qed.

(* ---- closure lemmas: StateOK ---- *)
Lemma StateOK_nil : StateOK [].
Proof. intros fx cm st H. simpl. lia. Qed.
Lemma StateOK_app : forall a b, StateOK a -> StateOK b -> StateOK (a ++ b).
Proof.
  intros a b A B fx cm st H. rewrite lrun_app.
  destruct (A fx cm st H) as (E1 & E2 & E3). destruct (B fx cm (lrun fx cm a st) E2) as (F1 & F2 & F3). repeat split; lia.
Qed.
(* any token but a closing brace keeps the global depth from falling *)
Lemma StateOK_tok : forall t, pk t <> KRBrace -> StateOK [t].
Proof.
  intros t Hk fx cm st H. simpl. destruct (pk t) eqn:Ek; try congruence;
    try (unfold lstep; rewrite Ek; simpl; lia).
  - unfold lstep. rewrite Ek. destruct (is_def_kw (keyword_of (plit t)) && (negb fx || (l_local st <=? 0))); simpl; lia.
  - pose proof (lstep_lbrace fx cm t st Ek H). pose proof (lstep_peak_nonneg fx cm t st H). lia.
Qed.
Lemma StateOK_braces : forall o c mid, pk o = KLBrace -> pk c = KRBrace -> StateOK mid -> StateOK (o :: mid ++ [c]).
Proof.
  intros o c mid Ho Hc M fx cm st H. change (o :: mid ++ [c]) with ([o] ++ mid ++ [c]). rewrite !lrun_app. cbn [lrun].
  pose proof (lstep_lbrace fx cm o st Ho H) as (A1 & A2).
  pose proof (lstep_peak_nonneg fx cm o st H) as A3.
  set (s1 := lstep fx cm o st) in *.
  destruct (M fx cm s1 A3) as (E1 & E2 & E3).
  rewrite (lstep_rbrace _ _ _ _ Hc). cbn [l_global l_local l_peak l_fields l_spread l_paren l_open]. lia.
Qed.

(* ---- closure lemmas: InOK ---- *)
Lemma InOK_nil : InOK [].
Proof. intros cm st H. simpl. lia. Qed.
Lemma InOK_app : forall a b, InOK a -> InOK b -> InOK (a ++ b).
Proof.
  intros a b A B cm st H. rewrite lrun_app.
  destruct (A cm st H) as (E1 & E2 & E3). destruct (B cm (lrun true cm a st)) as (F1 & F2 & F3); [lia|]. repeat split; lia.
Qed.
Lemma InOK_tok : forall t, pk t <> KLBrace -> pk t <> KRBrace -> InOK [t].
Proof.
  intros t H1 H2 cm st H. simpl. unfold lstep. destruct (pk t); try congruence; simpl; try lia.
  replace (l_local st <=? 0) with false by lia. rewrite Bool.andb_false_r. simpl. lia.
Qed.
Lemma InOK_braces : forall o c mid, pk o = KLBrace -> pk c = KRBrace -> InOK mid -> InOK (o :: mid ++ [c]).
Proof.
  intros o c mid Ho Hc M cm st H. change (o :: mid ++ [c]) with ([o] ++ mid ++ [c]). rewrite !lrun_app. cbn [lrun].
  rewrite (lstep_lbrace_in _ _ _ _ Ho H).
  match goal with |- context [lrun true cm mid ?s] => set (s1 := s) end.
  destruct (M cm s1) as (E1 & E2 & E3); [subst s1; simpl; lia|].
  rewrite (lstep_rbrace _ _ _ _ Hc). cbn [l_global l_local l_peak l_fields l_spread l_paren l_open]. subst s1. simpl in *.
  destruct (l_peak st <? l_local st + 1) eqn:E; lia.
Qed.

(* ---- closure lemmas: Plain ---- *)
Lemma Plain_nil : Plain [].
Proof. split; [intros; simpl; repeat split; auto; lia|split; [apply StateOK_nil|apply InOK_nil]]. Qed.

Lemma Plain_app : forall a b, Plain a -> Plain b -> Plain (a ++ b).
Proof.
  intros a b (A1 & A2 & A3) (B1 & B2 & B3). split; [|split; [apply StateOK_app; assumption|apply InOK_app; assumption]].
  intros cm st H. rewrite lrun_app.
  destruct (A1 cm st H) as (E1 & E2 & E3).
  destruct (B1 cm (lrun true cm a st)) as (F1 & F2 & F3); [lia|].
  repeat split; try lia; auto.
Qed.

Definition plain_kind (k : kind) : bool :=
  match k with KLBrace | KRBrace | KSpread => false | _ => true end.

Lemma Plain_tok : forall t, plain_kind (pk t) = true -> Plain [t].
Proof.
  intros t Hk. split; [|split].
  - intros cm st H. simpl. unfold lstep. destruct (pk t); try discriminate Hk; simpl; try (repeat split; auto; lia).
    destruct (is_def_kw (keyword_of (plit t)) && (l_local st <=? 0)) eqn:E; simpl.
    + apply andb_prop in E. destruct E as [_ E]. repeat split; auto; lia.
    + destruct ((0 <? l_local st) && negb (l_spread st)); repeat split; auto; lia.
  - apply StateOK_tok. destruct (pk t); try discriminate Hk; congruence.
  - apply InOK_tok; destruct (pk t); try discriminate Hk; congruence.
Qed.

Lemma Plain_cons : forall t r, plain_kind (pk t) = true -> Plain r -> Plain (t :: r).
Proof. intros. change (t :: r) with ([t] ++ r). apply Plain_app; [apply Plain_tok; assumption|assumption]. Qed.

Lemma Plain_braces : forall o c mid, pk o = KLBrace -> pk c = KRBrace -> Plain mid -> Plain (o :: mid ++ [c]).
Proof.
  intros o c mid Ho Hc (M1 & M2 & M3). split; [|split; [apply StateOK_braces; assumption|apply InOK_braces; assumption]].
  intros cm st H. change (o :: mid ++ [c]) with ([o] ++ mid ++ [c]). rewrite !lrun_app. cbn [lrun].
  set (s1 := lstep true cm o st).
  assert (S1 : l_local s1 = l_local st + 1 /\ l_fields s1 = l_fields st /\ l_spread s1 = false).
  { subst s1. unfold lstep. rewrite Ho. cbv zeta. unfold starts_shorthand.
    destruct (cm && (l_local st <=? 0) && (l_paren st <=? 0) && l_open st) eqn:E; simpl; [|auto].
    repeat split; auto. lia. }
  destruct S1 as (S1a & S1b & S1c).
  destruct (M1 cm s1) as (E1 & E2 & E3); [lia|].
  rewrite (lstep_rbrace _ _ _ _ Hc). cbn [l_global l_local l_peak l_fields l_spread l_paren l_open]. repeat split; try lia; auto.
Qed.

(* ---- closure lemmas: depth ---- *)
Lemma DepthOK_state : forall pre, StateOK pre -> DepthOK 0 pre.
Proof. intros pre H. split; [intros; lia|exact H]. Qed.

Lemma DepthOK_after : forall a b dep, StateOK a -> DepthOK dep b -> DepthOK dep (a ++ b).
Proof.
  intros a b dep A [B1 B2]. split; [|apply StateOK_app; assumption].
  intros fx cm L F st rest x y HL Hp Hd H.
  rewrite <- app_assoc in H. apply lim_run_app_ok in H.
  destruct (A fx cm st Hp) as (E1 & E2 & _).
  specialize (B1 fx cm L F (lrun fx cm a st) rest x y HL E2 Hd H). lia.
Qed.
Lemma DepthOK_max : forall a b da db, DepthOK da a -> DepthOK db b -> DepthOK (Z.max da db) (a ++ b).
Proof.
  intros a b da db [A1 A2] [B1 B2]. split; [|apply StateOK_app; assumption].
  intros fx cm L F st rest x y HL Hp Hd H.
  rewrite <- app_assoc in H.
  assert (Ha : 0 < da -> l_global st + da <= L) by (intro; eapply A1; eassumption).
  apply lim_run_app_ok in H. destruct (A2 fx cm st Hp) as (E1 & E2 & _).
  assert (Hb : 0 < db -> l_global st + db <= L).
  { intro Hdb. specialize (B1 fx cm L F (lrun fx cm a st) rest x y HL E2 Hdb H). lia. }
  lia.
Qed.

(* a braced set: its own brace is checked at depth 1, its content one deeper *)
Lemma DepthOK_braces : forall o c body dep, pk o = KLBrace -> pk c = KRBrace -> 0 <= dep ->
  DepthOK dep body -> DepthOK (1 + dep) (o :: body ++ [c]).
Proof.
  intros o c body dep Ho Hc Hdep [B1 B2]. split; [|apply StateOK_braces; assumption].
  intros fx cm L F st rest x y HL Hp Hd H.
  pose proof (lim_run_lbrace _ _ _ _ _ _ _ _ _ H Ho HL) as Hb.
  pose proof (lstep_lbrace fx cm o st Ho Hp) as (A1 & A2).
  pose proof (lstep_peak_nonneg fx cm o st Hp) as A3.
  simpl in H. apply lim_run_step_ok in H.
  destruct (Z.eq_dec dep 0) as [->|Hn]; [lia|].
  rewrite <- app_assoc in H.
  specialize (B1 fx cm L F (lstep fx cm o st) ([c] ++ rest) x y HL A3 ltac:(lia) H). lia.
Qed.

(* ---- closure lemmas: peak ---- *)
Lemma PeakOK_in : forall pre, InOK pre -> PeakOK 0 pre.
Proof. intros pre H. split; [exact H|intros; lia]. Qed.
Lemma PeakOK_after : forall a b dep, InOK a -> PeakOK dep b -> PeakOK dep (a ++ b).
Proof.
  intros a b dep A [B1 B2]. split; [apply InOK_app; assumption|].
  intros cm st Hl Hd. rewrite lrun_app. destruct (A cm st Hl) as (E1 & E2 & E3).
  specialize (B2 cm (lrun true cm a st) ltac:(lia) Hd). lia.
Qed.
Lemma PeakOK_max : forall a b da db, PeakOK da a -> PeakOK db b -> PeakOK (Z.max da db) (a ++ b).
Proof.
  intros a b da db [A1 A2] [B1 B2]. split; [apply InOK_app; assumption|].
  intros cm st Hl Hd. rewrite lrun_app. destruct (A1 cm st Hl) as (E1 & E2 & E3).
  destruct (B1 cm (lrun true cm a st) ltac:(lia)) as (F1 & F2 & F3).
  assert (Ha : 0 < da -> l_local st + da <= l_peak (lrun true cm a st)) by (intro; apply A2; assumption).
  assert (Hb : 0 < db -> l_local st + db <= l_peak (lrun true cm b (lrun true cm a st))).
  { intro Hdb. specialize (B2 cm (lrun true cm a st) ltac:(lia) Hdb). lia. }
  lia.
Qed.
Lemma PeakOK_braces : forall o c body dep, pk o = KLBrace -> pk c = KRBrace -> 0 <= dep ->
  PeakOK dep body -> PeakOK (1 + dep) (o :: body ++ [c]).
Proof.
  intros o c body dep Ho Hc Hdep [B1 B2]. split; [apply InOK_braces; assumption|].
  intros cm st Hl Hd. change (o :: body ++ [c]) with ([o] ++ body ++ [c]). rewrite !lrun_app. cbn [lrun].
  rewrite (lstep_lbrace_in _ _ _ _ Ho Hl).
  match goal with |- context [lrun true cm body ?s] => set (s1 := s) end.
  assert (S1 : l_local s1 = l_local st + 1 /\ l_local st + 1 <= l_peak s1).
  { subst s1. simpl. destruct (l_peak st <? l_local st + 1) eqn:E; lia. }
  destruct S1 as (S1a & S1b). clearbody s1.
  destruct (B1 cm s1 ltac:(lia)) as (E1 & E2 & E3).
  rewrite (lstep_rbrace _ _ _ _ Hc). cbn [l_global l_local l_peak l_fields l_spread l_paren l_open].
  destruct (Z.eq_dec dep 0) as [->|Hn]; [lia|].
  specialize (B2 cm s1 ltac:(lia) ltac:(lia)). lia.
Qed.

(* ---- closure lemmas: fields ---- *)
Lemma FieldsOK_nil : FieldsOK 0 [].
Proof. intros cm st H1 H2. simpl. repeat split; auto; lia. Qed.
Lemma FieldsOK_app : forall a b na nb, FieldsOK na a -> FieldsOK nb b -> FieldsOK (na + nb) (a ++ b).
Proof.
  intros a b na nb A B cm st H1 H2. rewrite lrun_app.
  destruct (A cm st H1 H2) as (E1 & E2 & E3).
  destruct (B cm (lrun true cm a st)) as (F1 & F2 & F3); [lia|assumption|].
  repeat split; try lia; try assumption.
Qed.
Lemma FieldsOK_weaken : forall a n m, m <= n -> FieldsOK n a -> FieldsOK m a.
Proof. intros a n m H A cm st H1 H2. destruct (A cm st H1 H2) as (E1 & E2 & E3). repeat split; auto; lia. Qed.
Lemma FieldsOK_plain : forall a, Plain a -> FieldsOK 0 a.
Proof.
  intros a [A1 _] cm st H1 H2. destruct (A1 cm st) as (E1 & E2 & E3); [lia|]. repeat split; auto; lia.
Qed.
(* an identifier inside a selection set, with no pending spread, is counted -- whatever it spells *)
Lemma FieldsOK_ident : forall t, pk t = KIdent -> FieldsOK 1 [t].
Proof.
  intros t Hk cm st H1 H2. simpl. unfold lstep. rewrite Hk.
  replace (l_local st <=? 0) with false by lia. rewrite H2.
  replace (0 <? l_local st) with true by lia.
  rewrite Bool.andb_false_r. simpl. repeat split; auto; lia.
Qed.
(* the identifier after a spread (fragment name, "on", directive name) is dismissed *)
Lemma FieldsOK_spread_ident : forall s mid t, pk s = KSpread -> pk t = KIdent ->
  (forall x, In x mid -> pk x = KAt) -> FieldsOK 0 (s :: mid ++ [t]).
Proof.
  intros s mid t Hs Ht Hmid cm st H1 H2.
  change (s :: mid ++ [t]) with ([s] ++ mid ++ [t]). rewrite !lrun_app. cbn [lrun].
  set (s1 := lstep true cm s st).
  assert (S1 : l_local s1 = l_local st /\ l_fields s1 = l_fields st /\ l_spread s1 = true).
  { subst s1. unfold lstep. rewrite Hs. simpl. auto. }
  assert (S2 : l_local (lrun true cm mid s1) = l_local s1 /\ l_fields (lrun true cm mid s1) = l_fields s1 /\
               l_spread (lrun true cm mid s1) = l_spread s1).
  { clear S1. generalize s1. induction mid as [|x r IH]; intro s0; [auto|].
    simpl. destruct (IH (fun y Hy => Hmid y (or_intror Hy)) (lstep true cm x s0)) as (I1 & I2 & I3).
    rewrite I1, I2, I3. unfold lstep. rewrite (Hmid x (or_introl eq_refl)). simpl. auto. }
  destruct S1 as (A & B & C). destruct S2 as (A2 & B2 & C2).
  unfold lstep. rewrite Ht. rewrite A2, A, C2, C, B2, B. replace (l_local st <=? 0) with false by lia.
  rewrite Bool.andb_false_r. simpl. rewrite Bool.andb_false_r. simpl. repeat split; auto; lia.
Qed.

(* ---- selection sets ---- *)
Lemma TopOK_none : TopOK 0 [].
Proof. intros cm st Hl Hp. simpl. repeat split; try lia. Qed.

Lemma SetOK_none : SetOK [] [].
Proof.
  split; [|split; [apply DepthOK_state; apply StateOK_nil|split; [apply PeakOK_in; apply InOK_nil|split; [apply TopOK_none|]]]].
  - intros cm st H. simpl. repeat split; try lia. intros [E|E]; [congruence|exact E].
  - intros cm L F st rest a b HL Hp Hd. simpl in Hd. lia.
Qed.

Lemma SetOK_some : forall o c body l, l <> [] -> pk o = KLBrace -> pk c = KRBrace ->
  SelsOK l body -> SetOK l (o :: body ++ [c]).
Proof.
  intros o c body l Hl Ho Hc (B1 & B2 & B3).
  assert (Hsd : selset_depth l = 1 + sels_maxdepth l) by (unfold selset_depth; destruct l; [congruence|reflexivity]).
  pose proof (sels_maxdepth_nonneg l) as Hnn.
  split; [|split; [|split; [|split]]].
  - intros cm st H. change (o :: body ++ [c]) with ([o] ++ body ++ [c]). rewrite !lrun_app. cbn [lrun].
    set (s1 := lstep true cm o st).
    assert (S1 : l_local s1 = l_local st + 1 /\ l_fields s1 = l_fields st /\ l_spread s1 = false).
    { subst s1. unfold lstep. rewrite Ho. cbv zeta. unfold starts_shorthand.
      destruct (cm && (l_local st <=? 0) && (l_paren st <=? 0) && l_open st) eqn:E; simpl; [|auto].
      repeat split; auto. lia. }
    destruct S1 as (S1a & S1b & S1c).
    destruct (B1 cm s1) as (E1 & E2 & E3); [lia|assumption|].
    rewrite (lstep_rbrace _ _ _ _ Hc). cbn [l_global l_local l_peak l_fields l_spread l_paren l_open]. repeat split; try lia; auto.
  - rewrite Hsd. apply DepthOK_braces; assumption.
  - rewrite Hsd. apply PeakOK_braces; assumption.
  - (* at the top level *)
    rewrite Hsd. destruct B3 as [I1 I2].
    intros cm st Hl0 Hp. change (o :: body ++ [c]) with ([o] ++ body ++ [c]). rewrite !lrun_app. cbn [lrun].
    set (s1 := lstep true cm o st).
    assert (S1 : l_local s1 = 1 /\ 1 <= l_peak s1 /\
                 l_global st + 1 <= l_global s1 /\
                 (starts_shorthand cm st = true -> l_global s1 = l_global st + l_peak st + 1)).
    { subst s1. unfold lstep. rewrite Ho. cbv zeta.
      destruct (starts_shorthand cm st); simpl;
        repeat match goal with |- context [if ?cnd then _ else _] => destruct cnd eqn:? end; repeat split; try lia; intro; try lia; discriminate. }
    destruct S1 as (S1a & S1b & S1c & S1d). clearbody s1.
    destruct (I1 cm s1 ltac:(lia)) as (E1 & E2 & E3).
    assert (E4 : 1 + sels_maxdepth l <= l_peak (lrun true cm body s1)).
    { destruct (Z.eq_dec (sels_maxdepth l) 0) as [->|Hn]; [lia|].
      specialize (I2 cm s1 ltac:(lia) ltac:(lia)). lia. }
    rewrite (lstep_rbrace _ _ _ _ Hc). cbn [l_global l_local l_peak l_fields l_spread l_paren l_open].
    repeat split; try lia; try (intro Hs; specialize (S1d Hs); lia).
  - (* the cumulative check at a brace that starts a new period *)
    rewrite Hsd. destruct B2 as [D1 D2].
    intros cm L F st rest a b HL Hp Hd Hs H.
    pose proof (lim_run_lbrace _ _ _ _ _ _ _ _ _ H Ho HL) as Hb.
    pose proof (lstep_peak_nonneg true cm o st Hp) as A3.
    assert (Hg : l_global (lstep true cm o st) = l_global st + l_peak st + 1).
    { unfold lstep. rewrite Ho. cbv zeta. rewrite Hs. reflexivity. }
    change ((o :: body ++ [c]) ++ rest) with (o :: (body ++ [c]) ++ rest) in H. apply lim_run_step_ok in H.
    destruct (Z.eq_dec (sels_maxdepth l) 0) as [E0|Hn]; [lia|].
    rewrite <- app_assoc in H.
    specialize (D1 true cm L F (lstep true cm o st) ([c] ++ rest) a b HL A3 ltac:(lia) H). lia.
Qed.

Lemma SelsOK_nil : SelsOK [] [].
Proof. split; [apply FieldsOK_nil|split; [apply DepthOK_state; apply StateOK_nil|apply PeakOK_in; apply InOK_nil]]. Qed.
Lemma SelsOK_cons : forall x r p1 p2, SelOK x p1 -> SelsOK r p2 -> SelsOK (x :: r) (p1 ++ p2).
Proof.
  intros x r p1 p2 (A1 & A2 & A3) (B1 & B2 & B3). split; [|split]; simpl.
  - apply FieldsOK_app; assumption.
  - apply DepthOK_max; assumption.
  - apply PeakOK_max; assumption.
Qed.

Lemma SetOK_fields : forall l sub, SetOK l sub -> FieldsOK (sels_fields l) sub.
Proof.
  intros l sub [S1 _] cm st H1 H2. destruct (S1 cm st) as (E1 & E2 & E3); [lia|].
  repeat split; auto.
Qed.

(* head ++ (arguments, directives) ++ optional set *)
Lemma SelOK_field : forall hd mid sub alias nm args dirs sels,
  FieldsOK 1 hd -> Plain hd -> Plain mid -> SetOK sels sub ->
  SelOK (SField alias nm args dirs sels) (hd ++ mid ++ sub).
Proof.
  intros hd mid sub alias nm args dirs sels H1 H2 Hm Hs. split; [|split].
  - rewrite sel_fields_field.
    replace (1 + sels_fields sels) with (1 + (0 + sels_fields sels)) by lia.
    apply FieldsOK_app; [assumption|]. apply FieldsOK_app; [apply FieldsOK_plain; assumption|apply SetOK_fields; assumption].
  - rewrite sel_depth_field. destruct Hs as (_ & Hd & _).
    apply DepthOK_after; [apply H2|]. apply DepthOK_after; [apply Hm|assumption].
  - rewrite sel_depth_field. destruct Hs as (_ & _ & Hp & _).
    apply PeakOK_after; [apply H2|]. apply PeakOK_after; [apply Hm|assumption].
Qed.

Lemma SelOK_spread : forall s t mid nm dirs, pk s = KSpread -> pk t = KIdent -> Plain mid ->
  SelOK (SSpread nm dirs) (s :: t :: mid).
Proof.
  intros s t mid nm dirs Hs Ht Hm. split; [|split].
  - simpl sel_fields. change (s :: t :: mid) with ((s :: [] ++ [t]) ++ mid).
    replace 0 with (0 + 0) by lia. apply FieldsOK_app.
    + apply FieldsOK_spread_ident; try assumption. intros x [].
    + apply FieldsOK_plain; assumption.
  - simpl sel_depth. apply DepthOK_state.
    change (s :: t :: mid) with ([s] ++ [t] ++ mid).
    apply StateOK_app; [apply StateOK_tok; congruence|].
    apply StateOK_app; [apply StateOK_tok; congruence|apply Hm].
  - simpl sel_depth. apply PeakOK_in.
    change (s :: t :: mid) with ([s] ++ [t] ++ mid).
    apply InOK_app; [apply InOK_tok; congruence|].
    apply InOK_app; [apply InOK_tok; congruence|apply Hm].
Qed.

(* "..." then: "on" Type | "@" name | nothing; then plain rest; then the set.  [hd] is what follows
   the spread up to and including the first identifier (empty when the set follows directly). *)
Lemma SelOK_inline : forall s hd mid sub tc dirs sels, pk s = KSpread ->
  (hd = [] /\ mid = [] /\ sels <> [] \/
   exists ats t, hd = ats ++ [t] /\ pk t = KIdent /\ (forall x, In x ats -> pk x = KAt)) ->
  Plain mid -> SetOK sels sub ->
  SelOK (SInline tc dirs sels) (s :: hd ++ mid ++ sub).
Proof.
  intros s hd mid sub tc dirs sels Hs Hhd Hm (S1 & S2 & S3 & S4 & S5).
  assert (Hhd2 : StateOK hd /\ InOK hd).
  { destruct Hhd as [(-> & _)|(ats & t & -> & Ht & Hats)]; [split; [apply StateOK_nil|apply InOK_nil]|].
    split.
    - apply StateOK_app; [|apply StateOK_tok; congruence].
      induction ats as [|x r IH]; [apply StateOK_nil|].
      change (x :: r) with ([x] ++ r). apply StateOK_app.
      + apply StateOK_tok. rewrite (Hats x (or_introl eq_refl)). congruence.
      + apply IH. intros y Hy. apply Hats. right. exact Hy.
    - apply InOK_app; [|apply InOK_tok; congruence].
      induction ats as [|x r IH]; [apply InOK_nil|].
      change (x :: r) with ([x] ++ r). apply InOK_app.
      + apply InOK_tok; rewrite (Hats x (or_introl eq_refl)); congruence.
      + apply IH. intros y Hy. apply Hats. right. exact Hy. }
  destruct Hhd2 as [Hst Hin].
  split; [|split].
  - rewrite sel_fields_inline. destruct Hhd as [(-> & -> & Hne)|(ats & t & -> & Ht & Hats)].
    + simpl. intros cm st H1 H2. simpl.
      set (s1 := lstep true cm s st).
      assert (A : l_local s1 = l_local st /\ l_fields s1 = l_fields st).
      { subst s1. unfold lstep. rewrite Hs. simpl. auto. }
      destruct (S1 cm s1) as (E1 & E2 & E3); [lia|].
      repeat split; try lia. apply E3. left. assumption.
    + replace (sels_fields sels) with (0 + (0 + sels_fields sels)) by lia.
      change (s :: (ats ++ [t]) ++ mid ++ sub) with ((s :: ats ++ [t]) ++ mid ++ sub).
      apply FieldsOK_app; [apply FieldsOK_spread_ident; assumption|].
      apply FieldsOK_app; [apply FieldsOK_plain; assumption|apply SetOK_fields; exact (conj S1 (conj S2 (conj S3 (conj S4 S5))))].
  - rewrite sel_depth_inline.
    change (s :: hd ++ mid ++ sub) with ([s] ++ hd ++ mid ++ sub).
    apply DepthOK_after; [apply StateOK_tok; congruence|].
    apply DepthOK_after; [exact Hst|]. apply DepthOK_after; [apply Hm|assumption].
  - rewrite sel_depth_inline.
    change (s :: hd ++ mid ++ sub) with ([s] ++ hd ++ mid ++ sub).
    apply PeakOK_after; [apply InOK_tok; congruence|].
    apply PeakOK_after; [exact Hin|]. apply PeakOK_after; [apply Hm|assumption].
Qed.

(* ---- comments are invisible to the accounting, so stripping them changes nothing ---- *)
Lemma lim_run_comment : forall fx cm L F t r s, pk t = KComment -> lim_run fx cm L F (t :: r) s = lim_run fx cm L F r s.
Proof. intros. cbn [lim_run]. rewrite H. reflexivity. Qed.

Lemma kind_eqb_eq : forall a b, kind_eqb a b = true <-> a = b.
Proof.
  intros a b. unfold kind_eqb. split.
  - intro H. apply N.eqb_eq in H. destruct a, b; simpl in H; try reflexivity; discriminate H.
  - intros ->. apply N.eqb_refl.
Qed.

Lemma lim_run_cons_congr : forall fx cm L F t a b,
  (forall s, lim_run fx cm L F a s = lim_run fx cm L F b s) ->
  forall s, lim_run fx cm L F (t :: a) s = lim_run fx cm L F (t :: b) s.
Proof.
  intros fx cm L F t a b H s. cbn [lim_run]. destruct (pk t); try apply H.
  - destruct (is_def_kw (keyword_of (plit t)) && (negb fx || (l_local s <=? 0))); [apply H|].
    cbv zeta. destruct ((0 <? F) && (F <? (if (0 <? l_local s) && negb (l_spread s) then l_fields s + 1 else l_fields s))); [reflexivity|apply H].
  - cbv zeta. match goal with |- (if ?c then _ else _) = _ => destruct c end; [reflexivity|apply H].
Qed.

Lemma lim_run_strip : forall fx cm L F ts s, lim_run fx cm L F (strip ts) s = lim_run fx cm L F ts s.
Proof.
  intros fx cm L F ts. remember (length ts) as n eqn:Hn. revert ts Hn.
  induction n as [n IH] using (well_founded_induction Wf_nat.lt_wf). intros ts Hn s.
  destruct ts as [|t r]; [reflexivity|]. cbn [strip].
  destruct (kind_eqb (pk t) KComment) eqn:E.
  - apply kind_eqb_eq in E. rewrite (lim_run_comment _ _ _ _ _ _ _ E).
    destruct r as [|t2 r2]; [reflexivity|].
    apply lim_run_cons_congr. intro s'. apply (IH (length r2)); [subst n; simpl; lia|reflexivity].
  - apply lim_run_cons_congr. intro s'. apply (IH (length r)); [subst n; simpl; lia|reflexivity].
Qed.
