(* C05: the repaired lexer and printer are inverse to each other on block strings.
   The lexer side is the model of readBlockString's trimming in C15 (Model.blex_step / block_start /
   block_end / go_block_lexable, tied to the Go lexer by C15's comparison of the parsed tree on every
   generated block string; Lex.bstring_loop is the same loop with the cursor positions); the printer side
   is Print.print_block_string.  For every text [body] between two delimiters that the lexer delimits:
   the content the parser stores, written by ast.PrintValue, is delimited by the lexer again and stored
   as the same content. *)
From Gv Require Import lib.Bytes lib.Gql C15.Unicode C15.Model C15.Spec C15.Diag C15.ProofsBlock C15.ProofsRescan C05.Lex C05.Parse C05.Limits C05.Print C05.Spec.
From Coq Require Import Lia ZifyN ZifyNat ZifyBool ZArith.
Open Scope N_scope.

Lemma print_block_string_printed : forall raw, print_block_string raw = s_quote3 ++ printed raw ++ s_quote3.
Proof. intros. unfold print_block_string, printed. rewrite <- app_assoc. reflexivity. Qed.

(* ---- the control part of the lexer state ---- *)
Definition ctl (st : blex) : bool * N * bool := (bl_escaped st, bl_quotes st, bl_closed st).
Definition cstep (c : bool * N * bool) (b : byte) : bool * N * bool :=
  let '(e, q, cl) := c in
  if cl then c
  else if is_blockws b then (false, 0, false)
  else if b =? 34 then (if e then (false, q, false) else (false, q + 1, q + 1 =? 3))
  else if b =? 92 then (negb e, 0, false)
  else (false, 0, false).
Lemma ctl_step : forall st b, ctl (blex_step st b) = cstep (ctl st) b.
Proof.
  intros st b. unfold ctl, cstep, blex_step.
  destruct (bl_closed st) eqn:Ec; [rewrite Ec; reflexivity|].
  destruct (is_blockws b); [reflexivity|].
  destruct (b =? 34); [destruct (bl_escaped st); reflexivity|].
  destruct (b =? 92); reflexivity.
Qed.
Lemma ctl_fold : forall l st, ctl (fold_left blex_step l st) = fold_left cstep l (ctl st).
Proof. induction l as [|b l IH]; intros st; [reflexivity|]. simpl. rewrite IH, ctl_step. reflexivity. Qed.
Definition c0 : bool * N * bool := (false, 0, false).
Lemma cfold_ws : forall w, all_ws w -> fold_left cstep w c0 = c0.
Proof.
  induction w as [|b w IH]; intros H; [reflexivity|].
  unfold all_ws in H. simpl in H. apply andb_prop in H. destruct H as [Hb Hw].
  simpl. rewrite Hb. apply IH. exact Hw.
Qed.
Lemma cfold_closed : forall l e q, fold_left cstep l (e, q, true) = (e, q, true).
Proof. induction l as [|b l IH]; intros; [reflexivity|]. simpl. apply IH. Qed.
(* a run that is not closed at the end was not closed before *)
Lemma cfold_prefix_open : forall l1 l2 c, snd (fold_left cstep (l1 ++ l2) c) = false -> snd (fold_left cstep l1 c) = false.
Proof.
  intros l1 l2 c H. rewrite fold_left_app in H.
  destruct (fold_left cstep l1 c) as [[e q] cl]. destruct cl; [|reflexivity].
  rewrite cfold_closed in H. exact H.
Qed.
Lemma cstep_last_plain : forall c z, snd c = false -> is_blockws z = false -> (z =? 34) = false -> (z =? 92) = false -> cstep c z = c0.
Proof. intros [[e q] cl] z Hc H1 H2 H3. simpl in Hc. subst cl. unfold cstep. rewrite H1, H2, H3. reflexivity. Qed.
Lemma cstep_ws : forall c z, snd c = false -> is_blockws z = true -> cstep c z = c0.
Proof. intros [[e q] cl] z Hc H1. simpl in Hc. subst cl. unfold cstep. rewrite H1. reflexivity. Qed.

(* ---- the shape of a delimited text ---- *)
Lemma all_ws_forall : forall w, all_ws w <-> (forall x, In x w -> is_blockws x = true).
Proof. intros w. unfold all_ws. rewrite forallb_forall. reflexivity. Qed.

Lemma ends_nonws_unique : forall a u b v, a ++ u = b ++ v -> ends_nonws a -> ends_nonws b -> all_ws u -> all_ws v -> a = b /\ u = v.
Proof.
  assert (Hlen : forall a u b v, a ++ u = b ++ v -> ends_nonws a -> all_ws v -> (length a <= length b)%nat).
  { intros a u b v E Ha Hv. destruct Ha as [->|(x & y & -> & Hy)]; [simpl; lia|].
    destruct (Nat.le_gt_cases (length (x ++ [y])) (length b)) as [Hle|Hgt]; [exact Hle|exfalso].
    (* y sits inside v *)
    assert (Hy' : nth_error (b ++ v) (length x) = Some y).
    { rewrite <- E. rewrite <- app_assoc. rewrite nth_error_app2 by lia. rewrite Nat.sub_diag. reflexivity. }
    rewrite app_length in Hgt. simpl in Hgt.
    rewrite nth_error_app2 in Hy' by lia. apply nth_error_In in Hy'.
    rewrite all_ws_forall in Hv. rewrite (Hv y Hy') in Hy. discriminate. }
  intros a u b v E Ha Hb Hu Hv.
  assert (L1 := Hlen a u b v E Ha Hv). assert (L2 := Hlen b v a u (eq_sym E) Hb Hu).
  assert (L : length a = length b) by lia.
  apply app_eq_app in E. destruct E as (l & [[E1 E2]|[E1 E2]]).
  - subst a. rewrite app_length in L. destruct l; [|simpl in L; lia]. rewrite app_nil_r. simpl in E2. auto.
  - subst b. rewrite app_length in L. destruct l; [|simpl in L; lia]. rewrite app_nil_r. simpl in E2. auto.
Qed.

(* a delimited text is white space, a middle part that neither starts nor ends with white space, white space *)
Lemma lexable_shape : forall body, go_block_lexable body = true ->
  exists w mid wss, body = w ++ mid ++ wss /\ all_ws w /\ all_ws wss /\ ends_nonws mid
    /\ (forall y r, mid = y :: r -> is_blockws y = false)
    /\ block_start body = length w /\ block_end body = (length w + length mid)%nat.
Proof.
  intros body Hg. pose proof Hg as Hg'. unfold go_block_lexable in Hg.
  repeat (apply Bool.andb_true_iff in Hg; destruct Hg as [Hg ?]).
  assert (Hc : bl_closed (blex_run body) = false) by (destruct (bl_closed (blex_run body)); [discriminate|reflexivity]).
  destruct (inv_run body Hc) as [Ht Hr Hn _].
  destruct Ht as (p0 & wss & qs & Hp & Hws & Haws & Hqs & Haq & Hp0 & Hend).
  assert (Hqs0 : qs = []) by (destruct qs; [reflexivity|simpl in Hqs; lia]).
  subst qs. rewrite app_nil_r in Hp.
  unfold block_start, block_end.
  destruct (bl_reached (blex_run body)) eqn:Er.
  - destruct (Hr eq_refl) as (w & y & rest & Hw & Hl & Hww & Hy).
    (* w is a proper prefix of p0 *)
    assert (Hlt : (length w < length p0)%nat).
    { destruct (Nat.lt_ge_cases (length w) (length p0)) as [Hlt|Hge]; [exact Hlt|exfalso].
      assert (Hy' : nth_error body (length w) = Some y) by (rewrite Hw; rewrite nth_error_app2 by lia; rewrite Nat.sub_diag; reflexivity).
      rewrite Hp in Hy'. rewrite nth_error_app2 in Hy' by lia. apply nth_error_In in Hy'.
      rewrite all_ws_forall in Haws. rewrite (Haws y Hy') in Hy. discriminate. }
    exists w, (skipn (length w) p0), wss.
    assert (Hpre : firstn (length w) p0 = w).
    { assert (E : firstn (length w) body = w) by (rewrite Hw; rewrite firstn_app, Nat.sub_diag, firstn_all; cbn [firstn]; apply app_nil_r).
      rewrite Hp in E. rewrite firstn_app in E. replace (length w - length p0)%nat with O in E by lia.
      cbn [firstn] in E. rewrite app_nil_r in E. exact E. }
    assert (Hsplit : p0 = w ++ skipn (length w) p0).
    { pose proof (firstn_skipn (length w) p0) as E. rewrite Hpre in E. symmetry. exact E. }
    repeat split.
    + rewrite Hp. rewrite Hsplit at 1. rewrite <- app_assoc. reflexivity.
    + exact Hww.
    + exact Haws.
    + destruct Hend as [->|(x & z & Hx & Hz)]; [simpl in Hlt; lia|].
      right. subst p0. rewrite app_length in Hlt. simpl in Hlt.
      exists (skipn (length w) x), z. split; [|exact Hz].
      rewrite skipn_app. replace (length w - length x)%nat with O by lia. reflexivity.
    + intros y' r Hm.
      assert (E : body = w ++ (y' :: r) ++ wss) by (rewrite Hp; rewrite Hsplit at 1; rewrite Hm, <- app_assoc; reflexivity).
      rewrite Hw in E. apply app_inv_head in E. cbn [app] in E. inversion E. subst y'. exact Hy.
    + lia.
    + assert (E : length body = (length p0 + length wss)%nat) by (rewrite Hp; apply app_length).
      assert (E2 : length p0 = (length w + length (skipn (length w) p0))%nat) by (rewrite Hsplit at 1; apply app_length).
      lia.
  - rewrite (Hp0 eq_refl) in Hp. cbn [app] in Hp. rewrite (Hn eq_refl).
    exists [], [], wss. split; [exact Hp|]. split; [reflexivity|]. split; [exact Haws|].
    split; [left; reflexivity|]. split; [intros y r E; discriminate E|].
    split; [reflexivity|]. assert (El : length body = length wss) by (f_equal; exact Hp). simpl. lia.
Qed.

Lemma stored_shape : forall w mid wss : bytes, firstn (length w + length mid - length w) (skipn (length w) (w ++ mid ++ wss)) = mid.
Proof.
  intros. rewrite skipn_app, skipn_all, Nat.sub_diag. cbn [app skipn].
  replace (length w + length mid - length w)%nat with (length mid) by lia.
  rewrite firstn_app, firstn_all, Nat.sub_diag. cbn [firstn]. apply app_nil_r.
Qed.

Lemma ends_qb_snoc : forall x z, ends_quote_or_backslash (x ++ [z]) = (z =? 34) || (z =? 92).
Proof. intros. unfold ends_quote_or_backslash. rewrite rev_app_distr. reflexivity. Qed.

Lemma nl_ws : all_ws nl.
Proof. reflexivity. Qed.

Lemma ctl_lexable : forall body, go_block_lexable body = true <->
  fold_left cstep body c0 = c0 /\ forallb (fun b => negb (b =? 0)) body = true.
Proof.
  intros body. unfold go_block_lexable.
  assert (E : ctl (blex_run body) = fold_left cstep body c0) by (unfold blex_run; rewrite ctl_fold; reflexivity).
  unfold ctl in E. destruct (fold_left cstep body c0) as [[e q] cl]. injection E as E1 E2 E3. rewrite E1, E2, E3. unfold c0.
  split.
  - intros H. repeat (apply Bool.andb_true_iff in H; destruct H as [H ?]).
    split; [|assumption]. destruct cl; [discriminate|]. destruct e; [discriminate|]. f_equal. f_equal. lia.
  - intros [H1 H2]. injection H1 as -> -> ->. rewrite H2. reflexivity.
Qed.

Theorem block_requote_proof : forall body, go_block_lexable body = true ->
  go_block_lexable (printed (stored body)) = true /\ stored (printed (stored body)) = stored body.
Proof.
  intros body Hg.
  destruct (lexable_shape body Hg) as (w & mid & wss & Hb & Hw & Hwss & Hend & Hfirst & Hs & He).
  assert (Hraw : stored body = mid) by (unfold stored; rewrite Hs, He; rewrite Hb at 1; apply stored_shape).
  rewrite Hraw. clear Hraw Hs He.
  apply ctl_lexable in Hg. destruct Hg as [Hctl Hnul].
  rewrite Hb in Hctl, Hnul. rewrite fold_left_app in Hctl. rewrite (cfold_ws w Hw) in Hctl.
  rewrite !forallb_app in Hnul. apply andb_prop in Hnul. destruct Hnul as [_ Hnul]. apply andb_prop in Hnul. destruct Hnul as [Hnul _].
  assert (Hopen : snd (fold_left cstep mid c0) = false) by (apply (cfold_prefix_open mid wss); rewrite Hctl; reflexivity).
  (* (A) the printed text is delimited by the lexer *)
  assert (HA : go_block_lexable (printed mid) = true).
  { apply ctl_lexable. unfold printed. split.
    - destruct Hend as [->|(x & z & -> & Hz)]; [reflexivity|].
      rewrite ends_qb_snoc. rewrite fold_left_app in Hopen. cbn [fold_left] in Hopen.
      destruct ((z =? 34) || (z =? 92)) eqn:Ez.
      + rewrite fold_left_app. cbn [fold_left nl]. apply cstep_ws; [|reflexivity].
        rewrite fold_left_app. exact Hopen.
      + rewrite app_nil_r. rewrite fold_left_app. cbn [fold_left].
        assert (Hx : snd (fold_left cstep x c0) = false).
        { apply (cfold_prefix_open x ([z] ++ wss)). rewrite app_assoc. rewrite Hctl. reflexivity. }
        apply cstep_last_plain; [exact Hx|exact Hz|lia|lia].
    - rewrite forallb_app, Hnul. destruct (ends_quote_or_backslash mid); reflexivity. }
  split; [exact HA|].
  (* (B) and stored as the same content *)
  destruct mid as [|y r].
  { reflexivity. }
  destruct (lexable_shape _ HA) as (w' & mid' & wss' & Hb' & Hw' & Hwss' & Hend' & Hfirst' & Hs' & He').
  assert (Hyw : is_blockws y = false) by (apply (Hfirst y r); reflexivity).
  assert (Hw0 : w' = []).
  { destruct w' as [|u w'']; [reflexivity|exfalso].
    unfold printed in Hb'. cbn [app] in Hb'. inversion Hb'. subst u.
    rewrite all_ws_forall in Hw'. rewrite (Hw' y (or_introl eq_refl)) in Hyw. discriminate. }
  subst w'. cbn [app length] in *.
  assert (Hsfx : all_ws (if ends_quote_or_backslash (y :: r) then nl else [])) by (destruct (ends_quote_or_backslash (y :: r)); reflexivity).
  unfold printed in Hb'.
  destruct (ends_nonws_unique _ _ _ _ Hb' Hend Hend' Hsfx Hwss') as [Hm _].
  unfold stored. rewrite Hs', He'. cbn [skipn]. rewrite Nat.sub_0_r. cbn [Nat.add].
  rewrite <- Hm. unfold printed.
  rewrite firstn_app, firstn_all, Nat.sub_diag. cbn [firstn]. apply app_nil_r.
Qed.

(* the witnesses of the historical refutations, as texts between the delimiters *)
Example requote_examples :
  (* a QUOTE SPACE            -> stored  a QUOTE         -> printed  a QUOTE LF *)
  stored [97; 34; 32] = [97; 34] /\ printed [97; 34] = [97; 34; 10] /\ stored [97; 34; 10] = [97; 34] /\
  (* a SPACE QUOTE SPACE      -> stored  a SPACE QUOTE *)
  stored [97; 32; 34; 32] = [97; 32; 34] /\
  (* a BACKSLASH SPACE        -> stored  a BACKSLASH     -> printed  a BACKSLASH LF *)
  stored [97; 92; 32] = [97; 92] /\ printed [97; 92] = [97; 92; 10] /\ go_block_lexable [97; 92; 10] = true.
Proof. repeat split; vm_compute; reflexivity. Qed.
