(* C05 executable model, in one place:
     Lex.v     lexer.go Read + Tokenizer.Tokenize                       (stage 1)
     Parse.v   Tokenizer.Read/Peek comment skipping + parser.go, executable documents   (stages 2-3)
     Limits.v  Tokenizer.TokenizeWithLimits accounting, repaired and historical         (stage 2)
     Print.v   astprinter.go + ast.PrintValue/PrintType, compact and indented           (stage 3)
     Tokens.v  the token-level print, well-formedness, the lexical round-trip condition (stage 3)
   No proofs in any of them. *)
From Gv Require Export lib.Bytes lib.Gql C05.Lex C05.Parse C05.Limits C05.Print C05.Tokens.
