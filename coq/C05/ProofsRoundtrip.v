(* C05 stage 3 proofs: the parser inverts the token-level printer ([print_parse_tokens]), every
   parsed tree is well-formed ([parse_wf]), hence the byte-level round trip holds whenever lexing
   the printed bytes gives the token-level print ([roundtrip_partial]). *)
From Gv Require Import lib.Bytes lib.Gql C05.Lex C05.Parse C05.Limits C05.Print C05.Spec C05.Tokens
  C05.ProofsLex C05.ProofsLimits C05.ProofsParse C05.ProofsTotal.
From Coq Require Import Lia.
Close Scope N_scope.
Open Scope nat_scope.

Lemma is_kind_pk : forall t k k', pk t = k -> is_kind k' t = kind_eqb k k'.
Proof. intros. unfold is_kind. rewrite H. reflexivity. Qed.

Ltac kinds :=
  repeat match goal with
  | H : pk ?t = _ |- context [is_kind ?k ?t] => rewrite (is_kind_pk t _ k H)
  end; cbn [kind_eqb kind_code N.eqb Pos.eqb andb orb negb].

(* first token of a value is never a closing bracket *)
Lemma value_first : forall v es ts, matches (etoks_value v ++ es) ts ->
  exists t r, ts = t :: r /\ pk t <> KRBrack.
Proof.
  intros v es ts H. destruct v as [n|raw|raw|raw blk|b| |n|items|fields]; simpl in H.
  - destruct ts as [|d [|x r]]; try contradiction. destruct H as (H & _). exists d, (x :: r). split; [reflexivity|congruence].
  - unfold e_number in H. destruct raw as [|c r0]; [|destruct (N.eqb c r_sub)]; simpl in H.
    + destruct ts as [|t r]; [contradiction|]. destruct H as (H & _). exists t, r. split; [reflexivity|congruence].
    + destruct ts as [|d [|x r]]; try contradiction. destruct H as (H & _). exists d, (x :: r). split; [reflexivity|congruence].
    + destruct ts as [|t r]; [contradiction|]. destruct H as (H & _). exists t, r. split; [reflexivity|congruence].
  - unfold e_number in H. destruct raw as [|c r0]; [|destruct (N.eqb c r_sub)]; simpl in H.
    + destruct ts as [|t r]; [contradiction|]. destruct H as (H & _). exists t, r. split; [reflexivity|congruence].
    + destruct ts as [|d [|x r]]; try contradiction. destruct H as (H & _). exists d, (x :: r). split; [reflexivity|congruence].
    + destruct ts as [|t r]; [contradiction|]. destruct H as (H & _). exists t, r. split; [reflexivity|congruence].
  - destruct blk; simpl in H; (destruct ts as [|t r]; [contradiction|]); destruct H as (H & _); exists t, r; (split; [reflexivity|congruence]).
  - destruct b; simpl in H; (destruct ts as [|t r]; [contradiction|]); destruct H as (H & _); exists t, r; (split; [reflexivity|congruence]).
  - destruct ts as [|t r]; [contradiction|]. destruct H as (H & _). exists t, r. split; [reflexivity|congruence].
  - destruct ts as [|t r]; [contradiction|]. destruct H as (H & _). exists t, r. split; [reflexivity|congruence].
  - destruct ts as [|t r]; [contradiction|]. destruct H as (H & _). exists t, r. split; [reflexivity|congruence].
  - destruct ts as [|t r]; [contradiction|]. destruct H as (H & _). exists t, r. split; [reflexivity|congruence].
Qed.

Lemma kw_true : keyword_of s_true = IKTrue. Proof. reflexivity. Qed.
Lemma kw_false : keyword_of s_false = IKFalse. Proof. reflexivity. Qed.
Lemma kw_null : keyword_of s_null = IKNull. Proof. reflexivity. Qed.

Lemma value_complete : forall fuel,
  (forall v es ts, wf_value v = true -> 3 * length ts < fuel -> matches (etoks_value v ++ es) ts ->
     exists ts', parse_value fuel ts = Ok v ts' /\ matches es ts') /\
  (forall items acc es ts, forallb wf_value items = true -> 3 * length ts + 1 < fuel ->
     matches (flat_map etoks_value items ++ e_rbrack :: es) ts ->
     exists ts', parse_value_list fuel ts acc = Ok (VList (rev acc ++ items)) ts' /\ matches es ts') /\
  (forall fields acc es ts, forallb (fun kv => wf_value (snd kv)) fields = true -> 3 * length ts + 1 < fuel ->
     matches (flat_map (fun kv => e_name (fst kv) :: e_colon :: etoks_value (snd kv)) fields ++ e_rbrace :: es) ts ->
     exists ts', parse_object_fields fuel ts acc = Ok (VObj (rev acc ++ fields)) ts' /\ matches es ts').
Proof.
  induction fuel as [|f IH]; [repeat split; intros; lia|].
  destruct IH as (IHv & IHl & IHo). repeat split.
  - (* value *)
    intros v es ts Hwf Hf H. cbn [parse_value].
    destruct v as [n|raw|raw|raw blk|b| |n|items|fields]; simpl in H.
    + (* $name *)
      destruct ts as [|d [|x r]]; try contradiction. destruct H as (Hd & Hx & Hn & Hc & Hr).
      rewrite Hd. kinds. rewrite Hc, PeanoNat.Nat.eqb_refl || rewrite Hc. rewrite N.eqb_refl. simpl. subst n.
      exists r. split; [reflexivity|assumption].
    + (* integer *)
      unfold e_number in H. destruct raw as [|c r0]; [|destruct (N.eqb c r_sub) eqn:Ec]; simpl in H.
      * destruct ts as [|t r]; [contradiction|]. destruct H as (Hk & Hl & Hr). rewrite Hk. rewrite Hl. exists r. auto.
      * destruct ts as [|s [|x r]]; try contradiction. destruct H as (Hs & Hx & Hl & Hc & Hr).
        rewrite Hs. kinds. rewrite Hc, N.eqb_refl. apply N.eqb_eq in Ec. subst c. rewrite Hl. exists r. auto.
      * destruct ts as [|t r]; [contradiction|]. destruct H as (Hk & Hl & Hr). rewrite Hk. rewrite Hl. exists r. auto.
    + (* float *)
      unfold e_number in H. destruct raw as [|c r0]; [|destruct (N.eqb c r_sub) eqn:Ec]; simpl in H.
      * destruct ts as [|t r]; [contradiction|]. destruct H as (Hk & Hl & Hr). rewrite Hk. rewrite Hl. exists r. auto.
      * destruct ts as [|s [|x r]]; try contradiction. destruct H as (Hs & Hx & Hl & Hc & Hr).
        rewrite Hs. kinds. rewrite Hc, N.eqb_refl. apply N.eqb_eq in Ec. subst c. rewrite Hl. exists r. auto.
      * destruct ts as [|t r]; [contradiction|]. destruct H as (Hk & Hl & Hr). rewrite Hk. rewrite Hl. exists r. auto.
    + (* strings *)
      destruct blk; simpl in H; (destruct ts as [|t r]; [contradiction|]); destruct H as (Hk & Hl & Hr);
        rewrite Hk, Hl; exists r; auto.
    + (* booleans *)
      destruct b; simpl in H; (destruct ts as [|t r]; [contradiction|]); destruct H as (Hk & Hl & Hr);
        rewrite Hk, Hl; [rewrite kw_true|rewrite kw_false]; exists r; auto.
    + destruct ts as [|t r]; [contradiction|]. destruct H as (Hk & Hl & Hr). rewrite Hk, Hl, kw_null. exists r. auto.
    + (* enum: not true / false / null *)
      destruct ts as [|t r]; [contradiction|]. destruct H as (Hk & Hl & Hr). rewrite Hk, Hl.
      simpl in Hwf. unfold kw_is in Hwf.
      destruct (keyword_of n) eqn:Ek; try (exists r; auto); simpl in Hwf; discriminate Hwf.
    + (* list *)
      destruct ts as [|t r]; [contradiction|]. destruct H as (Hk & Hl & Hr). rewrite Hk.
      rewrite <- app_assoc in Hr. simpl in Hr.
      destruct (IHl items [] es r) as (ts' & E & M); [exact Hwf|simpl in Hf; lia|exact Hr|].
      exists ts'. split; [exact E|exact M].
    + (* object *)
      destruct ts as [|t r]; [contradiction|]. destruct H as (Hk & Hl & Hr). rewrite Hk.
      rewrite <- app_assoc in Hr. simpl in Hr.
      destruct (IHo fields [] es r) as (ts' & E & M); [exact Hwf|simpl in Hf; lia|exact Hr|].
      exists ts'. split; [exact E|exact M].
  - (* list items *)
    intros items acc es ts Hwf Hf H. cbn [parse_value_list].
    destruct items as [|x rest]; simpl in H.
    + destruct ts as [|t r]; [contradiction|]. destruct H as (Hk & Hl & Hr). kinds.
      rewrite app_nil_r. exists r. auto.
    + rewrite <- app_assoc in H.
      destruct (value_first _ _ _ H) as (t & r & -> & Hnk).
      assert (Ek : is_kind KRBrack t = false).
      { unfold is_kind. destruct (kind_eqb (pk t) KRBrack) eqn:E; [apply kind_eqb_eq in E; contradiction|reflexivity]. }
      rewrite Ek. simpl in Hwf. apply andb_prop in Hwf. destruct Hwf as [Hx Hrest].
      destruct (IHv x _ (t :: r) Hx ltac:(simpl in *; lia) H) as (ts1 & E1 & M1). rewrite E1.
      pose proof (value_len _ _ _ _ E1) as Hlen.
      destruct (IHl rest (x :: acc) es ts1 Hrest ltac:(simpl in *; lia) M1) as (ts' & E2 & M2).
      exists ts'. split; [|exact M2]. rewrite E2. simpl. rewrite <- app_assoc. reflexivity.
  - (* object fields *)
    intros fields acc es ts Hwf Hf H. cbn [parse_object_fields].
    destruct fields as [|[k v] rest]; simpl in H.
    + destruct ts as [|t r]; [contradiction|]. destruct H as (Hk & Hl & Hr). kinds.
      rewrite app_nil_r. exists r. auto.
    + destruct ts as [|t [|c r]]; try (destruct H as (_ & _ & H); contradiction); try contradiction.
      destruct H as (Hk & Hl & Hc & Hcl & H). kinds.
      rewrite <- app_assoc in H. simpl in Hwf. apply andb_prop in Hwf. destruct Hwf as [Hx Hrest].
      destruct (IHv v _ r Hx ltac:(simpl in *; lia) H) as (ts1 & E1 & M1). rewrite E1.
      pose proof (value_len _ _ _ _ E1) as Hlen.
      destruct (IHo rest ((plit t, v) :: acc) es ts1 Hrest ltac:(simpl in *; lia) M1) as (ts' & E2 & M2).
      exists ts'. split; [|exact M2]. rewrite E2. simpl. rewrite <- app_assoc. rewrite Hl. reflexivity.
Qed.

Lemma value_complete1 : forall fuel v es ts, wf_value v = true -> 3 * length ts < fuel -> matches (etoks_value v ++ es) ts ->
  exists ts', parse_value fuel ts = Ok v ts' /\ matches es ts'.
Proof. intro fuel. apply (value_complete fuel). Qed.

(* ---- what a continuation starts with ---- *)
Definition first_kind (es : list etok) : option kind :=
  match es with
  | [] => None
  | ET k _ :: _ => Some k
  | EVar _ :: _ => Some KDollar
  | ENeg _ _ :: _ => Some KSub
  end.

Lemma matches_first : forall es t r, matches es (t :: r) -> first_kind es = Some (pk t).
Proof.
  intros es t r H. destruct es as [|[k l|n|k raw] es']; simpl in H.
  - discriminate H.
  - destruct H as (H & _). simpl. congruence.
  - destruct r; [contradiction|]. destruct H as (H & _). simpl. congruence.
  - destruct r; [contradiction|]. destruct H as (H & _). simpl. congruence.
Qed.

(* the next token is not of kind k, given what the continuation starts with *)
Lemma next_not : forall es t r k, matches es (t :: r) -> first_kind es <> Some k -> is_kind k t = false.
Proof.
  intros es t r k H Hn. apply matches_first in H. unfold is_kind.
  destruct (kind_eqb (pk t) k) eqn:E; [|reflexivity]. apply kind_eqb_eq in E. congruence.
Qed.

Lemma matches_ET : forall k l es ts, matches (ET k l :: es) ts ->
  exists t r, ts = t :: r /\ pk t = k /\ plit t = l /\ matches es r.
Proof. intros k l es ts H. simpl in H. destruct ts as [|t r]; [contradiction|]. exists t, r. tauto. Qed.

(* ---- types ---- *)
Lemma type_complete : forall fuel t es ts, wf_type t = true -> first_kind es <> Some KBang ->
  3 * length ts < fuel -> matches (etoks_type t ++ es) ts ->
  exists ts', parse_type fuel ts = Ok t ts' /\ matches es ts'.
Proof.
  induction fuel as [|f IH]; intros t es ts Hwf Hnb Hf H; [lia|].
  cbn [parse_type].
  (* the bang step on a continuation that does not start with a bang *)
  assert (NoBang : forall (t0 : ty) ts0, matches es ts0 ->
     match ts0 with
     | b :: r2 => if is_kind KBang b then match r2 with
                                          | b2 :: _ => if is_kind KBang b2 then Err else Ok (TNonNull t0) r2
                                          | [] => Ok (TNonNull t0) r2 end
                  else Ok t0 ts0
     | [] => Ok t0 ts0 end = Ok t0 ts0).
  { intros t0 ts0 M. destruct ts0 as [|b r2]; [reflexivity|]. rewrite (next_not _ _ _ _ M Hnb). reflexivity. }
  assert (Bang : forall (t0 : ty) ts0, matches es ts0 ->
     match ts0 with
     | b2 :: _ => if is_kind KBang b2 then Err else Ok (TNonNull t0) ts0
     | [] => Ok (TNonNull t0) ts0 end = Ok (TNonNull t0) ts0).
  { intros t0 ts0 M. destruct ts0 as [|b2 r3]; [reflexivity|]. rewrite (next_not _ _ _ _ M Hnb). reflexivity. }
  destruct t as [n|t1|t1].
  - simpl in H. destruct ts as [|t0 r]; [contradiction|]. destruct H as (Hk & Hl & Hr). kinds.
    rewrite (NoBang _ _ Hr). rewrite Hl. exists r. auto.
  - simpl in H. destruct ts as [|t0 r]; [contradiction|]. destruct H as (Hk & Hl & Hr). kinds.
    rewrite <- app_assoc in Hr.
    destruct (IH t1 (e_rbrack :: es) r Hwf ltac:(simpl; congruence) ltac:(simpl in *; lia) Hr) as (ts1 & E1 & M1).
    rewrite E1. simpl in M1. destruct ts1 as [|c r2]; [contradiction|]. destruct M1 as (Hc & _ & M2). kinds.
    rewrite (NoBang _ _ M2). exists r2. auto.
  - (* non-null: the inner type is a name or a list, followed by the bang *)
    destruct t1 as [n|t2|t2]; [| |simpl in Hwf; discriminate Hwf].
    + simpl in H. destruct ts as [|t0 [|b r]]; try contradiction; [destruct H as (_ & _ & H); contradiction|].
      destruct H as (Hk & Hl & Hb & _ & Hr). kinds.
      rewrite (Bang _ _ Hr). rewrite Hl. exists r. auto.
    + simpl in H. destruct ts as [|t0 r]; [contradiction|]. destruct H as (Hk & Hl & Hr). kinds.
      rewrite <- !app_assoc in Hr. simpl in Hr.
      destruct (IH t2 (e_rbrack :: e_bang :: es) r Hwf ltac:(simpl; congruence) ltac:(simpl in *; lia) Hr) as (ts1 & E1 & M1).
      rewrite E1. simpl in M1. destruct ts1 as [|c [|b r2]]; try contradiction; [destruct M1 as (_ & _ & M1); contradiction|].
      destruct M1 as (Hc & _ & Hb & _ & M2). kinds.
      rewrite (Bang _ _ M2). exists r2. auto.
Qed.

(* ---- arguments ---- *)
Lemma args_complete : forall fuel args acc es ts, wf_args args = true -> 3 * length ts + 1 < fuel ->
  matches (flat_map etoks_arg args ++ e_rparen :: es) ts ->
  exists ts', parse_args fuel ts acc = Ok (rev acc ++ args) ts' /\ matches es ts'.
Proof.
  induction fuel as [|f IH]; intros args acc es ts Hwf Hf H; [lia|].
  cbn [parse_args]. destruct args as [|[k v] rest]; simpl in H.
  - destruct ts as [|t r]; [contradiction|]. destruct H as (Hk & _ & Hr). kinds.
    rewrite app_nil_r. exists r. auto.
  - destruct ts as [|t [|c r]]; try contradiction; [destruct H as (_ & _ & H); contradiction|].
    destruct H as (Hk & Hl & Hc & _ & H). kinds.
    rewrite <- app_assoc in H. unfold wf_args in Hwf. simpl in Hwf. apply andb_prop in Hwf. destruct Hwf as [Hx Hrest].
    destruct (value_complete1 f v _ r Hx ltac:(simpl in *; lia) H) as (ts1 & E1 & M1). rewrite E1.
    pose proof (value_len _ _ _ _ E1) as Hlen.
    destruct (IH rest ((plit t, v) :: acc) es ts1 Hrest ltac:(simpl in *; lia) M1) as (ts' & E2 & M2).
    exists ts'. split; [|exact M2]. rewrite E2. simpl. rewrite <- app_assoc. rewrite Hl. reflexivity.
Qed.

Lemma opt_args_complete : forall fuel args es ts, wf_args args = true -> first_kind es <> Some KLParen ->
  3 * length ts < fuel -> matches (etoks_args args ++ es) ts ->
  exists ts', parse_opt_args fuel ts = Ok args ts' /\ matches es ts'.
Proof.
  intros fuel args es ts Hwf Hn Hf H. unfold parse_opt_args.
  destruct args as [|a rest].
  - simpl in H. destruct ts as [|t r]; [exists []; auto|].
    rewrite (next_not _ _ _ _ H Hn). exists (t :: r). auto.
  - assert (Hx : etoks_args (a :: rest) ++ es = e_lparen :: flat_map etoks_arg (a :: rest) ++ e_rparen :: es).
    { unfold etoks_args. rewrite <- app_comm_cons, <- app_assoc. reflexivity. }
    rewrite Hx in H. apply matches_ET in H. destruct H as (t & r & -> & Hk & _ & Hr). kinds.
    destruct (args_complete fuel (a :: rest) [] es r Hwf ltac:(simpl in *; lia) Hr) as (ts' & E & M).
    exists ts'. split; [exact E|exact M].
Qed.

(* ---- directives ---- *)
Lemma first_kind_dirs : forall ds es, first_kind (etoks_dirs ds ++ es) = match ds with [] => first_kind es | _ => Some KAt end.
Proof. intros. destruct ds; reflexivity. Qed.

Lemma dirs_complete : forall fuel ds acc es ts, wf_dirs ds = true ->
  first_kind es <> Some KAt -> first_kind es <> Some KLParen ->
  3 * length ts + 1 < fuel -> matches (etoks_dirs ds ++ es) ts ->
  exists ts', parse_dirs fuel ts acc = Ok (rev acc ++ ds) ts' /\ matches es ts'.
Proof.
  induction fuel as [|f IH]; intros ds acc es ts Hwf Hna Hnp Hf H; [lia|].
  cbn [parse_dirs]. destruct ds as [|d rest].
  - simpl in H. rewrite app_nil_r. destruct ts as [|t r]; [exists []; auto|].
    rewrite (next_not _ _ _ _ H Hna). exists (t :: r). auto.
  - unfold etoks_dirs in H. simpl in H. destruct ts as [|t [|n r]]; try contradiction; [destruct H as (_ & _ & H); contradiction|].
    destruct H as (Hk & _ & Hn & Hl & H). kinds.
    rewrite <- app_assoc in H. unfold wf_dirs in Hwf. simpl in Hwf. apply andb_prop in Hwf. destruct Hwf as [Hx Hrest].
    destruct (opt_args_complete f (d_args d) (etoks_dirs rest ++ es) r Hx) as (ts1 & E1 & M1).
    { rewrite first_kind_dirs. destruct rest; [exact Hnp|congruence]. }
    { simpl in *. lia. }
    { exact H. }
    rewrite E1. pose proof (optargs_len _ _ _ _ E1) as Hlen.
    destruct (IH rest ({| d_name := plit n; d_args := d_args d |} :: acc) es ts1 Hrest Hna Hnp ltac:(simpl in *; lia) M1) as (ts' & E2 & M2).
    exists ts'. split; [|exact M2]. rewrite E2. simpl. rewrite <- app_assoc. rewrite Hl. destruct d; reflexivity.
Qed.
