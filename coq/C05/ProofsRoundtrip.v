(* C05 stage 3 proofs: the parser inverts the token-level printer ([print_parse_tokens]), every
   parsed tree is well-formed ([parse_wf]), hence the byte-level round trip holds whenever lexing
   the printed bytes gives the token-level print ([roundtrip_partial]). *)
From Gv Require Import lib.Bytes lib.Gql C05.Lex C05.Parse C05.Limits C05.Print C05.Spec C05.Tokens
  C05.ProofsLex C05.ProofsLimits C05.ProofsParse C05.ProofsTotal.
From Coq Require Import Lia.
Close Scope N_scope.
Open Scope nat_scope.

Lemma is_kind_pk : forall t k k', pk t = k -> is_kind k' t = kind_eqb k k'.
Proof. intros. unfold is_kind. rewrite H. reflexivity. Qed.

Ltac kinds :=
  repeat match goal with
  | H : pk ?t = _ |- context [is_kind ?k ?t] => rewrite (is_kind_pk t _ k H)
  end; cbn [kind_eqb kind_code N.eqb Pos.eqb andb orb negb].

(* first token of a value is never a closing bracket *)
Lemma value_first : forall v es ts, matches (etoks_value v ++ es) ts ->
  exists t r, ts = t :: r /\ pk t <> KRBrack.
Proof.
  intros v es ts H. destruct v as [n|raw|raw|raw blk|b| |n|items|fields]; simpl in H.
  - destruct ts as [|d [|x r]]; try contradiction. destruct H as (H & _). exists d, (x :: r). split; [reflexivity|congruence].
  - unfold e_number in H. destruct raw as [|c r0]; [|destruct (N.eqb c r_sub)]; simpl in H.
    + destruct ts as [|t r]; [contradiction|]. destruct H as (H & _). exists t, r. split; [reflexivity|congruence].
    + destruct ts as [|d [|x r]]; try contradiction. destruct H as (H & _). exists d, (x :: r). split; [reflexivity|congruence].
    + destruct ts as [|t r]; [contradiction|]. destruct H as (H & _). exists t, r. split; [reflexivity|congruence].
  - unfold e_number in H. destruct raw as [|c r0]; [|destruct (N.eqb c r_sub)]; simpl in H.
    + destruct ts as [|t r]; [contradiction|]. destruct H as (H & _). exists t, r. split; [reflexivity|congruence].
    + destruct ts as [|d [|x r]]; try contradiction. destruct H as (H & _). exists d, (x :: r). split; [reflexivity|congruence].
    + destruct ts as [|t r]; [contradiction|]. destruct H as (H & _). exists t, r. split; [reflexivity|congruence].
  - destruct blk; simpl in H; (destruct ts as [|t r]; [contradiction|]); destruct H as (H & _); exists t, r; (split; [reflexivity|congruence]).
  - destruct b; simpl in H; (destruct ts as [|t r]; [contradiction|]); destruct H as (H & _); exists t, r; (split; [reflexivity|congruence]).
  - destruct ts as [|t r]; [contradiction|]. destruct H as (H & _). exists t, r. split; [reflexivity|congruence].
  - destruct ts as [|t r]; [contradiction|]. destruct H as (H & _). exists t, r. split; [reflexivity|congruence].
  - destruct ts as [|t r]; [contradiction|]. destruct H as (H & _). exists t, r. split; [reflexivity|congruence].
  - destruct ts as [|t r]; [contradiction|]. destruct H as (H & _). exists t, r. split; [reflexivity|congruence].
Qed.

Lemma kw_true : keyword_of s_true = IKTrue. Proof. reflexivity. Qed.
Lemma kw_false : keyword_of s_false = IKFalse. Proof. reflexivity. Qed.
Lemma kw_null : keyword_of s_null = IKNull. Proof. reflexivity. Qed.

Lemma value_complete : forall fuel,
  (forall v es ts, wf_value v = true -> 3 * length ts < fuel -> matches (etoks_value v ++ es) ts ->
     exists ts', parse_value fuel ts = Ok v ts' /\ matches es ts') /\
  (forall items acc es ts, forallb wf_value items = true -> 3 * length ts + 1 < fuel ->
     matches (flat_map etoks_value items ++ e_rbrack :: es) ts ->
     exists ts', parse_value_list fuel ts acc = Ok (VList (rev acc ++ items)) ts' /\ matches es ts') /\
  (forall fields acc es ts, forallb (fun kv => wf_value (snd kv)) fields = true -> 3 * length ts + 1 < fuel ->
     matches (flat_map (fun kv => e_name (fst kv) :: e_colon :: etoks_value (snd kv)) fields ++ e_rbrace :: es) ts ->
     exists ts', parse_object_fields fuel ts acc = Ok (VObj (rev acc ++ fields)) ts' /\ matches es ts').
Proof.
  induction fuel as [|f IH]; [repeat split; intros; lia|].
  destruct IH as (IHv & IHl & IHo). repeat split.
  - (* value *)
    intros v es ts Hwf Hf H. cbn [parse_value].
    destruct v as [n|raw|raw|raw blk|b| |n|items|fields]; simpl in H.
    + (* $name *)
      destruct ts as [|d [|x r]]; try contradiction. destruct H as (Hd & Hx & Hn & Hc & Hr).
      rewrite Hd. kinds. rewrite Hc, PeanoNat.Nat.eqb_refl || rewrite Hc. rewrite N.eqb_refl. simpl. subst n.
      exists r. split; [reflexivity|assumption].
    + (* integer *)
      unfold e_number in H. destruct raw as [|c r0]; [|destruct (N.eqb c r_sub) eqn:Ec]; simpl in H.
      * destruct ts as [|t r]; [contradiction|]. destruct H as (Hk & Hl & Hr). rewrite Hk. rewrite Hl. exists r. auto.
      * destruct ts as [|s [|x r]]; try contradiction. destruct H as (Hs & Hx & Hl & Hc & Hr).
        rewrite Hs. kinds. rewrite Hc, N.eqb_refl. apply N.eqb_eq in Ec. subst c. rewrite Hl. exists r. auto.
      * destruct ts as [|t r]; [contradiction|]. destruct H as (Hk & Hl & Hr). rewrite Hk. rewrite Hl. exists r. auto.
    + (* float *)
      unfold e_number in H. destruct raw as [|c r0]; [|destruct (N.eqb c r_sub) eqn:Ec]; simpl in H.
      * destruct ts as [|t r]; [contradiction|]. destruct H as (Hk & Hl & Hr). rewrite Hk. rewrite Hl. exists r. auto.
      * destruct ts as [|s [|x r]]; try contradiction. destruct H as (Hs & Hx & Hl & Hc & Hr).
        rewrite Hs. kinds. rewrite Hc, N.eqb_refl. apply N.eqb_eq in Ec. subst c. rewrite Hl. exists r. auto.
      * destruct ts as [|t r]; [contradiction|]. destruct H as (Hk & Hl & Hr). rewrite Hk. rewrite Hl. exists r. auto.
    + (* strings *)
      destruct blk; simpl in H; (destruct ts as [|t r]; [contradiction|]); destruct H as (Hk & Hl & Hr);
        rewrite Hk, Hl; exists r; auto.
    + (* booleans *)
      destruct b; simpl in H; (destruct ts as [|t r]; [contradiction|]); destruct H as (Hk & Hl & Hr);
        rewrite Hk, Hl; [rewrite kw_true|rewrite kw_false]; exists r; auto.
    + destruct ts as [|t r]; [contradiction|]. destruct H as (Hk & Hl & Hr). rewrite Hk, Hl, kw_null. exists r. auto.
    + (* enum: not true / false / null *)
      destruct ts as [|t r]; [contradiction|]. destruct H as (Hk & Hl & Hr). rewrite Hk, Hl.
      simpl in Hwf. unfold kw_is in Hwf.
      destruct (keyword_of n) eqn:Ek; try (exists r; auto); simpl in Hwf; discriminate Hwf.
    + (* list *)
      destruct ts as [|t r]; [contradiction|]. destruct H as (Hk & Hl & Hr). rewrite Hk.
      rewrite <- app_assoc in Hr. simpl in Hr.
      destruct (IHl items [] es r) as (ts' & E & M); [exact Hwf|simpl in Hf; lia|exact Hr|].
      exists ts'. split; [exact E|exact M].
    + (* object *)
      destruct ts as [|t r]; [contradiction|]. destruct H as (Hk & Hl & Hr). rewrite Hk.
      rewrite <- app_assoc in Hr. simpl in Hr.
      destruct (IHo fields [] es r) as (ts' & E & M); [exact Hwf|simpl in Hf; lia|exact Hr|].
      exists ts'. split; [exact E|exact M].
  - (* list items *)
    intros items acc es ts Hwf Hf H. cbn [parse_value_list].
    destruct items as [|x rest]; simpl in H.
    + destruct ts as [|t r]; [contradiction|]. destruct H as (Hk & Hl & Hr). kinds.
      rewrite app_nil_r. exists r. auto.
    + rewrite <- app_assoc in H.
      destruct (value_first _ _ _ H) as (t & r & -> & Hnk).
      assert (Ek : is_kind KRBrack t = false).
      { unfold is_kind. destruct (kind_eqb (pk t) KRBrack) eqn:E; [apply kind_eqb_eq in E; contradiction|reflexivity]. }
      rewrite Ek. simpl in Hwf. apply andb_prop in Hwf. destruct Hwf as [Hx Hrest].
      destruct (IHv x _ (t :: r) Hx ltac:(simpl in *; lia) H) as (ts1 & E1 & M1). rewrite E1.
      pose proof (value_len _ _ _ _ E1) as Hlen.
      destruct (IHl rest (x :: acc) es ts1 Hrest ltac:(simpl in *; lia) M1) as (ts' & E2 & M2).
      exists ts'. split; [|exact M2]. rewrite E2. simpl. rewrite <- app_assoc. reflexivity.
  - (* object fields *)
    intros fields acc es ts Hwf Hf H. cbn [parse_object_fields].
    destruct fields as [|[k v] rest]; simpl in H.
    + destruct ts as [|t r]; [contradiction|]. destruct H as (Hk & Hl & Hr). kinds.
      rewrite app_nil_r. exists r. auto.
    + destruct ts as [|t [|c r]]; try (destruct H as (_ & _ & H); contradiction); try contradiction.
      destruct H as (Hk & Hl & Hc & Hcl & H). kinds.
      rewrite <- app_assoc in H. simpl in Hwf. apply andb_prop in Hwf. destruct Hwf as [Hx Hrest].
      destruct (IHv v _ r Hx ltac:(simpl in *; lia) H) as (ts1 & E1 & M1). rewrite E1.
      pose proof (value_len _ _ _ _ E1) as Hlen.
      destruct (IHo rest ((plit t, v) :: acc) es ts1 Hrest ltac:(simpl in *; lia) M1) as (ts' & E2 & M2).
      exists ts'. split; [|exact M2]. rewrite E2. simpl. rewrite <- app_assoc. rewrite Hl. reflexivity.
Qed.

Lemma value_complete1 : forall fuel v es ts, wf_value v = true -> 3 * length ts < fuel -> matches (etoks_value v ++ es) ts ->
  exists ts', parse_value fuel ts = Ok v ts' /\ matches es ts'.
Proof. intro fuel. apply (value_complete fuel). Qed.

(* ---- what a continuation starts with ---- *)
Definition first_kind (es : list etok) : option kind :=
  match es with
  | [] => None
  | ET k _ :: _ => Some k
  | EVar _ :: _ => Some KDollar
  | ENeg _ _ :: _ => Some KSub
  end.

Lemma matches_first : forall es t r, matches es (t :: r) -> first_kind es = Some (pk t).
Proof.
  intros es t r H. destruct es as [|[k l|n|k raw] es']; simpl in H.
  - discriminate H.
  - destruct H as (H & _). simpl. congruence.
  - destruct r; [contradiction|]. destruct H as (H & _). simpl. congruence.
  - destruct r; [contradiction|]. destruct H as (H & _). simpl. congruence.
Qed.

(* the next token is not of kind k, given what the continuation starts with *)
Lemma next_not : forall es t r k, matches es (t :: r) -> first_kind es <> Some k -> is_kind k t = false.
Proof.
  intros es t r k H Hn. apply matches_first in H. unfold is_kind.
  destruct (kind_eqb (pk t) k) eqn:E; [|reflexivity]. apply kind_eqb_eq in E. congruence.
Qed.

Lemma matches_ET : forall k l es ts, matches (ET k l :: es) ts ->
  exists t r, ts = t :: r /\ pk t = k /\ plit t = l /\ matches es r.
Proof. intros k l es ts H. simpl in H. destruct ts as [|t r]; [contradiction|]. exists t, r. tauto. Qed.

(* ---- types ---- *)
Lemma type_complete : forall fuel t es ts, wf_type t = true -> first_kind es <> Some KBang ->
  3 * length ts < fuel -> matches (etoks_type t ++ es) ts ->
  exists ts', parse_type fuel ts = Ok t ts' /\ matches es ts'.
Proof.
  induction fuel as [|f IH]; intros t es ts Hwf Hnb Hf H; [lia|].
  cbn [parse_type].
  (* the bang step on a continuation that does not start with a bang *)
  assert (NoBang : forall (t0 : ty) ts0, matches es ts0 ->
     match ts0 with
     | b :: r2 => if is_kind KBang b then match r2 with
                                          | b2 :: _ => if is_kind KBang b2 then Err else Ok (TNonNull t0) r2
                                          | [] => Ok (TNonNull t0) r2 end
                  else Ok t0 ts0
     | [] => Ok t0 ts0 end = Ok t0 ts0).
  { intros t0 ts0 M. destruct ts0 as [|b r2]; [reflexivity|]. rewrite (next_not _ _ _ _ M Hnb). reflexivity. }
  assert (Bang : forall (t0 : ty) ts0, matches es ts0 ->
     match ts0 with
     | b2 :: _ => if is_kind KBang b2 then Err else Ok (TNonNull t0) ts0
     | [] => Ok (TNonNull t0) ts0 end = Ok (TNonNull t0) ts0).
  { intros t0 ts0 M. destruct ts0 as [|b2 r3]; [reflexivity|]. rewrite (next_not _ _ _ _ M Hnb). reflexivity. }
  destruct t as [n|t1|t1].
  - simpl in H. destruct ts as [|t0 r]; [contradiction|]. destruct H as (Hk & Hl & Hr). kinds.
    rewrite (NoBang _ _ Hr). rewrite Hl. exists r. auto.
  - simpl in H. destruct ts as [|t0 r]; [contradiction|]. destruct H as (Hk & Hl & Hr). kinds.
    rewrite <- app_assoc in Hr.
    destruct (IH t1 (e_rbrack :: es) r Hwf ltac:(simpl; congruence) ltac:(simpl in *; lia) Hr) as (ts1 & E1 & M1).
    rewrite E1. simpl in M1. destruct ts1 as [|c r2]; [contradiction|]. destruct M1 as (Hc & _ & M2). kinds.
    rewrite (NoBang _ _ M2). exists r2. auto.
  - (* non-null: the inner type is a name or a list, followed by the bang *)
    destruct t1 as [n|t2|t2]; [| |simpl in Hwf; discriminate Hwf].
    + simpl in H. destruct ts as [|t0 [|b r]]; try contradiction; [destruct H as (_ & _ & H); contradiction|].
      destruct H as (Hk & Hl & Hb & _ & Hr). kinds.
      rewrite (Bang _ _ Hr). rewrite Hl. exists r. auto.
    + simpl in H. destruct ts as [|t0 r]; [contradiction|]. destruct H as (Hk & Hl & Hr). kinds.
      rewrite <- !app_assoc in Hr. simpl in Hr.
      destruct (IH t2 (e_rbrack :: e_bang :: es) r Hwf ltac:(simpl; congruence) ltac:(simpl in *; lia) Hr) as (ts1 & E1 & M1).
      rewrite E1. simpl in M1. destruct ts1 as [|c [|b r2]]; try contradiction; [destruct M1 as (_ & _ & M1); contradiction|].
      destruct M1 as (Hc & _ & Hb & _ & M2). kinds.
      rewrite (Bang _ _ M2). exists r2. auto.
Qed.

(* ---- arguments ---- *)
Lemma args_complete : forall fuel args acc es ts, wf_args args = true -> 3 * length ts + 1 < fuel ->
  matches (flat_map etoks_arg args ++ e_rparen :: es) ts ->
  exists ts', parse_args fuel ts acc = Ok (rev acc ++ args) ts' /\ matches es ts'.
Proof.
  induction fuel as [|f IH]; intros args acc es ts Hwf Hf H; [lia|].
  cbn [parse_args]. destruct args as [|[k v] rest]; simpl in H.
  - destruct ts as [|t r]; [contradiction|]. destruct H as (Hk & _ & Hr). kinds.
    rewrite app_nil_r. exists r. auto.
  - destruct ts as [|t [|c r]]; try contradiction; [destruct H as (_ & _ & H); contradiction|].
    destruct H as (Hk & Hl & Hc & _ & H). kinds.
    rewrite <- app_assoc in H. unfold wf_args in Hwf. simpl in Hwf. apply andb_prop in Hwf. destruct Hwf as [Hx Hrest].
    destruct (value_complete1 f v _ r Hx ltac:(simpl in *; lia) H) as (ts1 & E1 & M1). rewrite E1.
    pose proof (value_len _ _ _ _ E1) as Hlen.
    destruct (IH rest ((plit t, v) :: acc) es ts1 Hrest ltac:(simpl in *; lia) M1) as (ts' & E2 & M2).
    exists ts'. split; [|exact M2]. rewrite E2. simpl. rewrite <- app_assoc. rewrite Hl. reflexivity.
Qed.

Lemma opt_args_complete : forall fuel args es ts, wf_args args = true -> first_kind es <> Some KLParen ->
  3 * length ts < fuel -> matches (etoks_args args ++ es) ts ->
  exists ts', parse_opt_args fuel ts = Ok args ts' /\ matches es ts'.
Proof.
  intros fuel args es ts Hwf Hn Hf H. unfold parse_opt_args.
  destruct args as [|a rest].
  - simpl in H. destruct ts as [|t r]; [exists []; auto|].
    rewrite (next_not _ _ _ _ H Hn). exists (t :: r). auto.
  - assert (Hx : etoks_args (a :: rest) ++ es = e_lparen :: flat_map etoks_arg (a :: rest) ++ e_rparen :: es).
    { unfold etoks_args. rewrite <- app_comm_cons, <- app_assoc. reflexivity. }
    rewrite Hx in H. apply matches_ET in H. destruct H as (t & r & -> & Hk & _ & Hr). kinds.
    destruct (args_complete fuel (a :: rest) [] es r Hwf ltac:(simpl in *; lia) Hr) as (ts' & E & M).
    exists ts'. split; [exact E|exact M].
Qed.

(* ---- directives ---- *)
Lemma first_kind_dirs : forall ds es, first_kind (etoks_dirs ds ++ es) = match ds with [] => first_kind es | _ => Some KAt end.
Proof. intros. destruct ds; reflexivity. Qed.

Lemma dirs_complete : forall fuel ds acc es ts, wf_dirs ds = true ->
  first_kind es <> Some KAt -> first_kind es <> Some KLParen ->
  3 * length ts + 1 < fuel -> matches (etoks_dirs ds ++ es) ts ->
  exists ts', parse_dirs fuel ts acc = Ok (rev acc ++ ds) ts' /\ matches es ts'.
Proof.
  induction fuel as [|f IH]; intros ds acc es ts Hwf Hna Hnp Hf H; [lia|].
  cbn [parse_dirs]. destruct ds as [|d rest].
  - simpl in H. rewrite app_nil_r. destruct ts as [|t r]; [exists []; auto|].
    rewrite (next_not _ _ _ _ H Hna). exists (t :: r). auto.
  - unfold etoks_dirs in H. simpl in H. destruct ts as [|t [|n r]]; try contradiction; [destruct H as (_ & _ & H); contradiction|].
    destruct H as (Hk & _ & Hn & Hl & H). kinds.
    rewrite <- app_assoc in H. unfold wf_dirs in Hwf. simpl in Hwf. apply andb_prop in Hwf. destruct Hwf as [Hx Hrest].
    destruct (opt_args_complete f (d_args d) (etoks_dirs rest ++ es) r Hx) as (ts1 & E1 & M1).
    { rewrite first_kind_dirs. destruct rest; [exact Hnp|congruence]. }
    { simpl in *. lia. }
    { exact H. }
    rewrite E1. pose proof (optargs_len _ _ _ _ E1) as Hlen.
    destruct (IH rest ({| d_name := plit n; d_args := d_args d |} :: acc) es ts1 Hrest Hna Hnp ltac:(simpl in *; lia) M1) as (ts' & E2 & M2).
    exists ts'. split; [|exact M2]. rewrite E2. simpl. rewrite <- app_assoc. rewrite Hl. destruct d; reflexivity.
Qed.

(* ---- selections ---- *)
Lemma etoks_sel_field : forall alias fname args dirs sels,
  etoks_sel (SField alias fname args dirs sels) =
  (match alias with Some a => [e_name a; e_colon] | None => [] end)
  ++ e_name fname :: etoks_args args ++ etoks_dirs dirs ++ etoks_set sels.
Proof. reflexivity. Qed.
Lemma etoks_sel_inline : forall tc dirs sels,
  etoks_sel (SInline tc dirs sels) =
  e_spread :: (match tc with Some t => [e_name s_on; e_name t] | None => [] end) ++ etoks_dirs dirs ++ etoks_set sels.
Proof. reflexivity. Qed.
Lemma etoks_sel_spread : forall fr dirs, etoks_sel (SSpread fr dirs) = e_spread :: e_name fr :: etoks_dirs dirs.
Proof. reflexivity. Qed.

Definition follow_sel (es : list etok) : Prop :=
  first_kind es = Some KIdent \/ first_kind es = Some KSpread \/ first_kind es = Some KRBrace.

Lemma first_kind_sel : forall s es, first_kind (etoks_sel s ++ es) = Some KIdent \/ first_kind (etoks_sel s ++ es) = Some KSpread.
Proof.
  intros s es. destruct s as [alias fname args dirs sels|tc dirs sels|fr dirs].
  - rewrite etoks_sel_field. destruct alias; left; reflexivity.
  - rewrite etoks_sel_inline. right. reflexivity.
  - rewrite etoks_sel_spread. right. reflexivity.
Qed.
Lemma follow_sels : forall sels es, follow_sel (flat_map etoks_sel sels ++ e_rbrace :: es).
Proof.
  intros sels es. destruct sels as [|x r]; [right; right; reflexivity|].
  simpl flat_map. rewrite <- app_assoc. destruct (first_kind_sel x (flat_map etoks_sel r ++ e_rbrace :: es)) as [H|H]; [left|right; left]; exact H.
Qed.
Lemma first_kind_set : forall sels es, first_kind (etoks_set sels ++ es) = match sels with [] => first_kind es | _ => Some KLBrace end.
Proof. intros. destruct sels; reflexivity. Qed.
Lemma first_kind_args : forall args es, first_kind (etoks_args args ++ es) = match args with [] => first_kind es | _ => Some KLParen end.
Proof. intros. destruct args; reflexivity. Qed.

Definition SelsetComplete (selset : list ptoken -> res (list selection)) (bound : nat) : Prop :=
  forall sels es ts, sels <> [] -> forallb wf_sel sels = true -> length ts <= bound ->
    matches (etoks_set sels ++ es) ts -> exists ts', selset ts = Ok sels ts' /\ matches es ts'.

(* what follows the (optional) selection set of a field or inline fragment: never a brace *)
Lemma tail_set : forall selset bound tsx sels es (mk : list selection -> selection),
  SelsetComplete selset bound -> forallb wf_sel sels = true -> length tsx <= bound ->
  first_kind es <> Some KLBrace ->
  matches (etoks_set sels ++ es) tsx ->
  exists ts', match tsx with
              | b :: _ =>
                if is_kind KLBrace b then
                  match selset tsx with
                  | Ok sels' r4 => Ok (mk sels') r4
                  | Err => Err | Unsup => Unsup | Oof => Oof
                  end
                else Ok (mk []) tsx
              | [] => Ok (mk []) tsx
              end = Ok (mk sels) ts' /\ matches es ts'.
Proof.
  intros selset bound tsx sels es mk HS Hwf Hb Hn H.
  destruct sels as [|x rest].
  - simpl in H. destruct tsx as [|b r]; [exists []; auto|].
    rewrite (next_not _ _ _ _ H Hn). exists (b :: r). auto.
  - pose proof H as H'. unfold etoks_set in H'. rewrite <- app_comm_cons in H'.
    apply matches_ET in H'. destruct H' as (b & r & -> & Hk & _ & _). kinds.
    destruct (HS (x :: rest) es (b :: r) ltac:(discriminate) Hwf Hb H) as (ts' & E & M).
    rewrite E. exists ts'. auto.
Qed.

Lemma field_tail_complete : forall selset f alias nm args dirs sels es r1,
  wf_args args = true -> wf_dirs dirs = true -> forallb wf_sel sels = true ->
  first_kind es <> Some KAt -> first_kind es <> Some KLParen -> first_kind es <> Some KLBrace ->
  3 * length r1 + 1 < f -> SelsetComplete selset (length r1) ->
  matches (etoks_args args ++ etoks_dirs dirs ++ etoks_set sels ++ es) r1 ->
  exists ts', field_tail selset f alias nm r1 = Ok (SField alias nm args dirs sels) ts' /\ matches es ts'.
Proof.
  intros selset f alias nm args dirs sels es r1 Wa Wd Ws Hna Hnp Hnb Hf HS H. unfold field_tail.
  assert (A1 : exists r2, parse_opt_args f r1 = Ok args r2 /\ matches (etoks_dirs dirs ++ etoks_set sels ++ es) r2).
  { apply opt_args_complete; [exact Wa| |lia|exact H].
    rewrite first_kind_dirs. destruct dirs; [|congruence]. rewrite first_kind_set. destruct sels; [exact Hnp|congruence]. }
  destruct A1 as (r2 & E1 & M1).
  rewrite E1. pose proof (optargs_len _ _ _ _ E1) as L1.
  assert (A2 : exists r3, parse_dirs f r2 [] = Ok (rev [] ++ dirs) r3 /\ matches (etoks_set sels ++ es) r3).
  { apply dirs_complete; [exact Wd| | |lia|exact M1].
    - rewrite first_kind_set. destruct sels; [exact Hna|congruence].
    - rewrite first_kind_set. destruct sels; [exact Hnp|congruence]. }
  destruct A2 as (r3 & E2 & M2).
  rewrite E2. pose proof (dirs_len _ _ _ _ _ E2) as L2. simpl rev. simpl app.
  apply (tail_set selset (length r1) r3 sels es (fun s => SField alias nm args dirs s)); try assumption. lia.
Qed.

Lemma inline_tail_complete : forall selset f tc dirs sels es r1,
  wf_dirs dirs = true -> forallb wf_sel sels = true ->
  first_kind es <> Some KAt -> first_kind es <> Some KLParen -> first_kind es <> Some KLBrace ->
  3 * length r1 + 1 < f -> SelsetComplete selset (length r1) ->
  matches (etoks_dirs dirs ++ etoks_set sels ++ es) r1 ->
  exists ts', inline_tail selset f tc r1 = Ok (SInline tc dirs sels) ts' /\ matches es ts'.
Proof.
  intros selset f tc dirs sels es r1 Wd Ws Hna Hnp Hnb Hf HS H. unfold inline_tail.
  assert (A2 : exists r2, parse_dirs f r1 [] = Ok (rev [] ++ dirs) r2 /\ matches (etoks_set sels ++ es) r2).
  { apply dirs_complete; [exact Wd| | |lia|exact H].
    - rewrite first_kind_set. destruct sels; [exact Hna|congruence].
    - rewrite first_kind_set. destruct sels; [exact Hnp|congruence]. }
  destruct A2 as (r2 & E2 & M2).
  rewrite E2. pose proof (dirs_len _ _ _ _ _ E2) as L2. simpl rev. simpl app.
  apply (tail_set selset (length r1) r2 sels es (fun s => SInline tc dirs s)); try assumption.
Qed.

Lemma follow_sel_not : forall es, follow_sel es ->
  first_kind es <> Some KAt /\ first_kind es <> Some KLParen /\ first_kind es <> Some KLBrace /\ first_kind es <> Some KColon.
Proof. intros es [H|[H|H]]; rewrite H; repeat split; congruence. Qed.

Lemma kw_on : keyword_of s_on = IKOn. Proof. reflexivity. Qed.

Lemma sel_complete : forall fuel,
  (forall sels es ts, sels <> [] -> forallb wf_sel sels = true -> 3 * length ts < fuel ->
     matches (etoks_set sels ++ es) ts -> exists ts', parse_selset fuel ts = Ok sels ts' /\ matches es ts') /\
  (forall sels acc es ts, forallb wf_sel sels = true -> (acc <> [] \/ sels <> []) -> 3 * length ts + 2 < fuel ->
     matches (flat_map etoks_sel sels ++ e_rbrace :: es) ts ->
     exists ts', parse_sels fuel ts acc = Ok (rev acc ++ sels) ts' /\ matches es ts') /\
  (forall alias nm args dirs sels es ts, wf_sel (SField alias nm args dirs sels) = true -> follow_sel es ->
     3 * length ts + 1 < fuel -> matches (etoks_sel (SField alias nm args dirs sels) ++ es) ts ->
     exists ts', parse_field fuel ts = Ok (SField alias nm args dirs sels) ts' /\ matches es ts') /\
  (forall s es sp ts, (match s with SField _ _ _ _ _ => False | _ => True end) -> wf_sel s = true -> follow_sel es ->
     3 * length ts + 2 < fuel -> matches (etoks_sel s ++ es) (sp :: ts) ->
     exists ts', parse_frag_sel fuel ts = Ok s ts' /\ matches es ts').
Proof.
  induction fuel as [|f IH]; [repeat split; intros; lia|].
  destruct IH as (IHset & IHsels & IHfield & IHfrag).
  assert (HSC : forall bound, 3 * bound < f -> SelsetComplete (parse_selset f) bound).
  { intros bound Hb sels es ts Hne Hwf Hl H. apply IHset; try assumption. lia. }
  repeat split.
  - (* selection set *)
    intros sels es ts Hne Hwf Hf H. cbn [parse_selset].
    destruct sels as [|x rest]; [congruence|].
    unfold etoks_set in H. rewrite <- app_comm_cons in H.
    apply matches_ET in H. destruct H as (t & r & -> & Hk & _ & H). kinds.
    rewrite <- app_assoc in H. simpl app in H.
    destruct (IHsels (x :: rest) [] es r Hwf ltac:(right; discriminate) ltac:(simpl in *; lia) H) as (ts' & E & M).
    exists ts'. split; [exact E|exact M].
  - (* loop *)
    intros sels acc es ts Hwf Hne Hf H. cbn [parse_sels].
    destruct sels as [|x rest].
    + simpl in H. destruct ts as [|t r]; [contradiction|]. destruct H as (Hk & _ & Hr). kinds.
      destruct acc as [|a0 acc']; [destruct Hne; congruence|].
      rewrite app_nil_r. exists r. auto.
    + simpl flat_map in H. rewrite <- app_assoc in H.
      simpl in Hwf. apply andb_prop in Hwf. destruct Hwf as [Hx Hrest].
      pose proof (follow_sels rest es) as Hfol.
      destruct x as [alias nm args dirs sels|tc dirs sels|fr dirs].
      * (* a field: first token is an identifier *)
        assert (Hid : exists t r, ts = t :: r /\ pk t = KIdent).
        { rewrite etoks_sel_field in H. destruct alias; simpl in H; (destruct ts as [|t r]; [contradiction|]);
            destruct H as (Hk & _); exists t, r; auto. }
        destruct Hid as (t & r & -> & Hk). kinds.
        destruct (IHfield alias nm args dirs sels _ (t :: r) Hx Hfol ltac:(simpl in *; lia) H) as (ts1 & E1 & M1).
        rewrite E1. pose proof (field_len _ _ _ _ E1) as Hlen.
        destruct (IHsels rest (SField alias nm args dirs sels :: acc) es ts1 Hrest ltac:(left; discriminate) ltac:(simpl in *; lia) M1) as (ts' & E2 & M2).
        exists ts'. split; [|exact M2]. rewrite E2. simpl. rewrite <- app_assoc. reflexivity.
      * pose proof H as H'. rewrite etoks_sel_inline in H'. rewrite <- app_comm_cons in H'.
        apply matches_ET in H'. destruct H' as (t & r & -> & Hk & _ & _). kinds.
        destruct (IHfrag (SInline tc dirs sels) _ t r I Hx Hfol ltac:(simpl in *; lia) H) as (ts1 & E1 & M1).
        rewrite E1. pose proof (fragsel_len _ _ _ _ E1) as Hlen.
        destruct (IHsels rest (SInline tc dirs sels :: acc) es ts1 Hrest ltac:(left; discriminate) ltac:(simpl in *; lia) M1) as (ts' & E2 & M2).
        exists ts'. split; [|exact M2]. rewrite E2. simpl. rewrite <- app_assoc. reflexivity.
      * pose proof H as H'. rewrite etoks_sel_spread in H'. rewrite <- app_comm_cons in H'.
        apply matches_ET in H'. destruct H' as (t & r & -> & Hk & _ & _). kinds.
        destruct (IHfrag (SSpread fr dirs) _ t r I Hx Hfol ltac:(simpl in *; lia) H) as (ts1 & E1 & M1).
        rewrite E1. pose proof (fragsel_len _ _ _ _ E1) as Hlen.
        destruct (IHsels rest (SSpread fr dirs :: acc) es ts1 Hrest ltac:(left; discriminate) ltac:(simpl in *; lia) M1) as (ts' & E2 & M2).
        exists ts'. split; [|exact M2]. rewrite E2. simpl. rewrite <- app_assoc. reflexivity.
  - (* field *)
    intros alias nm args dirs sels es ts Hwf Hfol Hf H. cbn [parse_field].
    simpl in Hwf. apply andb_prop in Hwf. destruct Hwf as [Hwf Ws]. apply andb_prop in Hwf. destruct Hwf as [Wa Wd].
    destruct (follow_sel_not es Hfol) as (Hna & Hnp & Hnb & Hnc).
    rewrite etoks_sel_field in H.
    destruct alias as [a|].
    + simpl app in H. destruct ts as [|t [|c [|n r2]]]; simpl in H; try contradiction;
        try (destruct H as (_ & _ & H); contradiction); try (destruct H as (_ & _ & _ & _ & H); contradiction).
      destruct H as (Hk & Hl & Hc & _ & Hn & Hnl & H). kinds.
      rewrite <- !app_assoc in H.
      assert (A : exists ts', field_tail (parse_selset f) f (Some (plit t)) (plit n) r2 = Ok (SField (Some (plit t)) (plit n) args dirs sels) ts' /\ matches es ts').
      { apply field_tail_complete; try assumption; [simpl in *; lia|apply HSC; simpl in *; lia]. }
      destruct A as (ts' & E & M).
      rewrite E, Hl, Hnl. exists ts'. auto.
    + simpl app in H. apply matches_ET in H. destruct H as (t & r & -> & Hk & Hl & H). kinds.
      rewrite <- !app_assoc in H.
      assert (Hcol : match r with c :: _ => is_kind KColon c = false | [] => True end).
      { destruct r as [|c r1]; [exact I|]. apply (next_not _ _ _ _ H).
        rewrite first_kind_args. destruct args; [|congruence]. rewrite first_kind_dirs. destruct dirs; [|congruence].
        rewrite first_kind_set. destruct sels; [exact Hnc|congruence]. }
      assert (A : exists ts', field_tail (parse_selset f) f None (plit t) r = Ok (SField None (plit t) args dirs sels) ts' /\ matches es ts').
      { apply field_tail_complete; try assumption; [simpl in *; lia|apply HSC; simpl in *; lia]. }
      destruct A as (ts' & E & M).
      destruct r as [|c r1]; [rewrite E, Hl; exists ts'; auto|]. rewrite Hcol. rewrite E, Hl. exists ts'. auto.
  - (* after a spread *)
    intros s es sp ts Hs Hwf Hfol Hf H. cbn [parse_frag_sel].
    destruct (follow_sel_not es Hfol) as (Hna & Hnp & Hnb & Hnc).
    destruct s as [alias nm args dirs sels|tc dirs sels|fr dirs]; [contradiction| |].
    + rewrite etoks_sel_inline in H. rewrite <- app_comm_cons in H. simpl in H. destruct H as (_ & _ & H).
      simpl in Hwf. apply andb_prop in Hwf. destruct Hwf as [Hwf Hne]. apply andb_prop in Hwf. destruct Hwf as [Wd Ws].
      rewrite <- !app_assoc in H.
      destruct tc as [tn|].
      * simpl app in H. destruct ts as [|t [|n r1]]; simpl in H; try contradiction; try (destruct H as (_ & _ & H); contradiction).
        destruct H as (Hk & Hl & Hn & Hnl & H). kinds.
        assert (Hon : is_on t = true). { unfold is_on. kinds. rewrite Hl, kw_on. reflexivity. }
        rewrite Hon.
        assert (A : exists ts', inline_tail (parse_selset f) f (Some (plit n)) r1 = Ok (SInline (Some (plit n)) dirs sels) ts' /\ matches es ts').
        { apply inline_tail_complete; try assumption; [simpl in *; lia|apply HSC; simpl in *; lia]. }
        destruct A as (ts' & E & M).
        rewrite E, Hnl. exists ts'. auto.
      * simpl app in H.
        (* the first token after the spread is '@' or '{' *)
        assert (Hfirst : exists t r, ts = t :: r /\ (pk t = KAt \/ pk t = KLBrace)).
        { destruct dirs as [|d dr].
          - destruct sels as [|x xr]; [discriminate Hne|].
            change (etoks_dirs [] ++ etoks_set (x :: xr) ++ es) with (e_lbrace :: (flat_map etoks_sel (x :: xr) ++ [e_rbrace]) ++ es) in H.
            apply matches_ET in H. destruct H as (t & r & -> & Hk & _). exists t, r. auto.
          - unfold etoks_dirs in H. simpl in H. destruct ts as [|t r]; [contradiction|]. destruct H as (Hk & _). exists t, r. auto. }
        destruct Hfirst as (t & r & -> & Hk).
        assert (Hor : is_kind KLBrace t || is_kind KAt t = true).
        { destruct Hk as [Hk|Hk]; kinds; reflexivity. }
        rewrite Hor.
        assert (A : exists ts', inline_tail (parse_selset f) f None (t :: r) = Ok (SInline None dirs sels) ts' /\ matches es ts').
        { apply inline_tail_complete; try assumption; [simpl in *; lia|apply HSC; simpl in *; lia]. }
        destruct A as (ts' & E & M).
        rewrite E. exists ts'. auto.
    + rewrite etoks_sel_spread in H. simpl in H. destruct H as (_ & _ & H).
      destruct ts as [|t r]; [contradiction|]. destruct H as (Hk & Hl & H). kinds.
      simpl in Hwf. apply andb_prop in Hwf. destruct Hwf as [Hon Wd].
      assert (Hno : is_on t = false).
      { unfold is_on. kinds. rewrite Hl. unfold kw_is, ikw_eqb in Hon.
        destruct (keyword_of fr); try reflexivity. simpl in Hon. discriminate Hon. }
      rewrite Hno.
      assert (A2 : exists r2, parse_dirs f r [] = Ok (rev [] ++ dirs) r2 /\ matches es r2).
      { apply dirs_complete; [exact Wd|exact Hna|exact Hnp|simpl in *; lia|exact H]. }
      destruct A2 as (r2 & E2 & M2). rewrite E2, Hl. exists r2. auto.
Qed.

(* ---- variable definitions ---- *)
Lemma first_kind_vardefs_tail : forall vs es, first_kind (flat_map etoks_vardef vs ++ e_rparen :: es) = Some KDollar \/
                                             first_kind (flat_map etoks_vardef vs ++ e_rparen :: es) = Some KRParen.
Proof. intros. destruct vs; [right|left]; reflexivity. Qed.

Lemma vardefs_complete : forall fuel vs acc es ts, forallb wf_vardef vs = true -> 3 * length ts + 1 < fuel ->
  matches (flat_map etoks_vardef vs ++ e_rparen :: es) ts ->
  exists ts', parse_vardefs fuel ts acc = Ok (rev acc ++ vs) ts' /\ matches es ts'.
Proof.
  induction fuel as [|f IH]; intros vs acc es ts Hwf Hf H; [lia|].
  cbn [parse_vardefs]. destruct vs as [|v rest].
  - simpl in H. destruct ts as [|t r]; [contradiction|]. destruct H as (Hk & _ & Hr). kinds.
    rewrite app_nil_r. exists r. auto.
  - simpl flat_map in H. unfold etoks_vardef at 1 in H. simpl app in H.
    destruct ts as [|d [|x [|c r2]]]; simpl in H; try contradiction; try (destruct H as (_ & _ & _ & _ & H); contradiction).
    destruct H as (Hd & Hx & Hxl & Hadj & Hc & _ & H). kinds. rewrite Hadj, N.eqb_refl. simpl.
    simpl in Hwf. apply andb_prop in Hwf. destruct Hwf as [Hv Hrest].
    unfold wf_vardef in Hv. apply andb_prop in Hv. destruct Hv as [Hv Wd]. apply andb_prop in Hv. destruct Hv as [Wt Wv].
    rewrite <- !app_assoc in H.
    set (tail := flat_map etoks_vardef rest ++ e_rparen :: es) in *.
    assert (Htail : first_kind tail = Some KDollar \/ first_kind tail = Some KRParen) by apply first_kind_vardefs_tail.
    assert (Hafter : forall ds, first_kind (etoks_dirs ds ++ tail) <> Some KBang /\ first_kind (etoks_dirs ds ++ tail) <> Some KEquals).
    { intro ds. rewrite first_kind_dirs. destruct ds; [destruct Htail as [E|E]; rewrite E|]; split; congruence. }
    (* type *)
    assert (A1 : exists r3, parse_type f r2 = Ok (vd_type v) r3 /\
                            matches ((match vd_default v with Some dv => e_equals :: etoks_value dv | None => [] end) ++ etoks_dirs (vd_dirs v) ++ tail) r3).
    { apply type_complete; [exact Wt| |simpl in *; lia|exact H].
      destruct (vd_default v); [simpl; congruence|]. apply (Hafter (vd_dirs v)). }
    destruct A1 as (r3 & E1 & M1). rewrite E1. pose proof (type_len _ _ _ _ E1) as L1.
    (* directives and the rest of the list, from a continuation that matches dirs ++ tail *)
    assert (Fin : forall dv r4, length r4 <= length r3 -> matches (etoks_dirs (vd_dirs v) ++ tail) r4 ->
       exists ts', match parse_dirs f r4 [] with
                   | Ok dirs r5 => parse_vardefs f r5 ({| vd_name := plit x; vd_type := vd_type v; vd_default := dv; vd_dirs := dirs |} :: acc)
                   | Err => Err | Unsup => Unsup | Oof => Oof end
                   = Ok (rev acc ++ {| vd_name := plit x; vd_type := vd_type v; vd_default := dv; vd_dirs := vd_dirs v |} :: rest) ts'
                   /\ matches es ts').
    { intros dv r4 L4 M4.
      assert (A2 : exists r5, parse_dirs f r4 [] = Ok (rev [] ++ vd_dirs v) r5 /\ matches tail r5).
      { apply dirs_complete; [exact Wd| | |simpl in *; lia|exact M4]; destruct Htail as [E|E]; rewrite E; congruence. }
      destruct A2 as (r5 & E2 & M2). rewrite E2. pose proof (dirs_len _ _ _ _ _ E2) as L5. simpl rev. simpl app.
      destruct (IH rest ({| vd_name := plit x; vd_type := vd_type v; vd_default := dv; vd_dirs := vd_dirs v |} :: acc) es r5 Hrest
                  ltac:(simpl in *; lia) M2) as (ts' & E3 & M3).
      exists ts'. split; [|exact M3]. rewrite E3. simpl. rewrite <- app_assoc. reflexivity. }
    destruct (vd_default v) as [dv|] eqn:Edv.
    + simpl app in M1. apply matches_ET in M1. destruct M1 as (e & r4 & -> & He & _ & M1). kinds.
      destruct (value_complete1 f dv _ r4 Wv ltac:(simpl in *; lia) M1) as (r5 & E4 & M4). rewrite E4.
      pose proof (value_len _ _ _ _ E4) as L4.
      destruct (Fin (Some dv) r5 ltac:(simpl in *; lia) M4) as (ts' & E5 & M5).
      exists ts'. split; [|exact M5]. rewrite E5. rewrite Hxl. destruct v; simpl in *. subst. reflexivity.
    + simpl app in M1.
      destruct (Fin None r3 ltac:(lia) M1) as (ts' & E5 & M5).
      assert (Hne : match r3 with e :: _ => is_kind KEquals e = false | [] => True end).
      { destruct r3 as [|e r4]; [exact I|]. apply (next_not _ _ _ _ M1). apply (Hafter (vd_dirs v)). }
      exists ts'. split; [|exact M5].
      destruct r3 as [|e r4]; [|rewrite Hne]; rewrite E5; rewrite Hxl; destruct v; simpl in *; subst; reflexivity.
Qed.

(* ---- definitions ---- *)
Lemma selset_complete1 : forall fuel sels es ts, sels <> [] -> forallb wf_sel sels = true -> 3 * length ts < fuel ->
  matches (etoks_set sels ++ es) ts -> exists ts', parse_selset fuel ts = Ok sels ts' /\ matches es ts'.
Proof. intro fuel. apply (sel_complete fuel). Qed.

Lemma first_kind_vardefs : forall vs es, first_kind (etoks_vardefs vs ++ es) = match vs with [] => first_kind es | _ => Some KLParen end.
Proof. intros. destruct vs; reflexivity. Qed.

Lemma operation_complete : forall f k nm vars dirs sels es ts,
  forallb wf_vardef vars = true -> wf_dirs dirs = true -> forallb wf_sel sels = true -> sels <> [] ->
  3 * length ts + 1 < f ->
  matches ((match nm with Some n => [e_name n] | None => [] end) ++ etoks_vardefs vars ++ etoks_dirs dirs ++ etoks_set sels ++ es) ts ->
  exists ts', parse_operation f k ts = Ok (DOp {| op_kind := k; op_name := nm; op_vars := vars; op_dirs := dirs; op_sels := sels |}) ts'
              /\ matches es ts'.
Proof.
  intros f k nm vars dirs sels es ts Wv Wd Ws Hne Hf H. unfold parse_operation.
  assert (Hset : first_kind (etoks_set sels ++ es) = Some KLBrace) by (rewrite first_kind_set; destruct sels; [congruence|reflexivity]).
  (* the name *)
  assert (A0 : exists r1, match ts with
                          | t :: r => if is_kind KIdent t then (Some (plit t), r) else (None, ts)
                          | [] => (None, ts) end = (nm, r1)
                          /\ length r1 <= length ts
                          /\ matches (etoks_vardefs vars ++ etoks_dirs dirs ++ etoks_set sels ++ es) r1).
  { destruct nm as [n|].
    - simpl app in H. apply matches_ET in H. destruct H as (t & r & -> & Hk & Hl & H). kinds.
      exists r. rewrite Hl. repeat split; [simpl; lia|exact H].
    - simpl app in H. destruct ts as [|t r]; [exists []; repeat split; [lia|exact H]|].
      rewrite (next_not _ _ _ KIdent H).
      + exists (t :: r). repeat split; [lia|exact H].
      + rewrite first_kind_vardefs. destruct vars; [|congruence]. rewrite first_kind_dirs. destruct dirs; [|congruence].
        rewrite Hset. congruence. }
  destruct A0 as (r1 & E0 & L0 & M0). rewrite E0.
  (* the variable definitions *)
  assert (A1 : exists r2, match r1 with
                          | t :: r => if is_kind KLParen t then parse_vardefs f r [] else Ok [] r1
                          | [] => Ok [] r1 end = Ok vars r2
                          /\ length r2 <= length r1 /\ matches (etoks_dirs dirs ++ etoks_set sels ++ es) r2).
  { destruct vars as [|v vr].
    - simpl app in M0. destruct r1 as [|t r]; [exists []; repeat split; [lia|exact M0]|].
      rewrite (next_not _ _ _ KLParen M0).
      + exists (t :: r). repeat split; [lia|exact M0].
      + rewrite first_kind_dirs. destruct dirs; [|congruence]. rewrite Hset. congruence.
    - assert (Hx : etoks_vardefs (v :: vr) ++ etoks_dirs dirs ++ etoks_set sels ++ es
                   = e_lparen :: flat_map etoks_vardef (v :: vr) ++ e_rparen :: etoks_dirs dirs ++ etoks_set sels ++ es).
      { unfold etoks_vardefs. rewrite <- app_comm_cons, <- app_assoc. reflexivity. }
      rewrite Hx in M0. apply matches_ET in M0. destruct M0 as (t & r & -> & Hk & _ & M0). kinds.
      destruct (vardefs_complete f (v :: vr) [] _ r Wv ltac:(simpl in *; lia) M0) as (r2 & E & M).
      exists r2. pose proof (vardefs_len _ _ _ _ _ E). repeat split; [exact E|simpl in *; lia|exact M]. }
  destruct A1 as (r2 & E1 & L1 & M1). rewrite E1.
  assert (A2 : exists r3, parse_dirs f r2 [] = Ok (rev [] ++ dirs) r3 /\ matches (etoks_set sels ++ es) r3).
  { apply dirs_complete; [exact Wd| | |lia|exact M1]; rewrite Hset; congruence. }
  destruct A2 as (r3 & E2 & M2). rewrite E2. pose proof (dirs_len _ _ _ _ _ E2) as L2. simpl rev. simpl app.
  destruct (selset_complete1 f sels es r3 Hne Ws ltac:(lia) M2) as (ts' & E3 & M3). rewrite E3.
  exists ts'. auto.
Qed.

Lemma kw_fragment : keyword_of s_fragment = IKFragment. Proof. reflexivity. Qed.
Lemma kw_query : keyword_of s_query = IKQuery. Proof. reflexivity. Qed.
Lemma kw_mutation : keyword_of s_mutation = IKMutation. Proof. reflexivity. Qed.
Lemma kw_subscription : keyword_of s_subscription = IKSubscription. Proof. reflexivity. Qed.

Lemma fragment_complete : forall f nm tyn dirs sels es ts,
  wf_dirs dirs = true -> forallb wf_sel sels = true -> sels <> [] -> 3 * length ts + 1 < f ->
  matches (e_name nm :: e_name s_on :: e_name tyn :: etoks_dirs dirs ++ etoks_set sels ++ es) ts ->
  exists ts', parse_fragment f ts = Ok (DFrag {| fr_name := nm; fr_type := tyn; fr_dirs := dirs; fr_sels := sels |}) ts' /\ matches es ts'.
Proof.
  intros f nm tyn dirs sels es ts Wd Ws Hne Hf H. unfold parse_fragment.
  destruct ts as [|n [|o [|t r]]]; simpl in H; try contradiction; try (destruct H as (_ & _ & H); contradiction);
    try (destruct H as (_ & _ & _ & _ & H); contradiction).
  destruct H as (Hn & Hnl & Ho & Hol & Ht & Htl & H).
  assert (Hon : is_on o = true). { unfold is_on. kinds. rewrite Hol, kw_on. reflexivity. }
  kinds. rewrite Hon. simpl.
  assert (Hset : first_kind (etoks_set sels ++ es) = Some KLBrace) by (rewrite first_kind_set; destruct sels; [congruence|reflexivity]).
  assert (A2 : exists r3, parse_dirs f r [] = Ok (rev [] ++ dirs) r3 /\ matches (etoks_set sels ++ es) r3).
  { apply dirs_complete; [exact Wd| | |simpl in *; lia|exact H]; rewrite Hset; congruence. }
  destruct A2 as (r3 & E2 & M2). rewrite E2. pose proof (dirs_len _ _ _ _ _ E2) as L2. simpl rev. simpl app.
  destruct (selset_complete1 f sels es r3 Hne Ws ltac:(simpl in *; lia) M2) as (ts' & E3 & M3). rewrite E3.
  exists ts'. rewrite Hnl, Htl. auto.
Qed.

Lemma nonempty_ne : forall {A} (l : list A), nonempty l = true -> l <> [].
Proof. intros A l H. destruct l; [discriminate H|discriminate]. Qed.

Lemma defs_complete : forall fuel defs acc ts, forallb wf_def defs = true -> 3 * length ts + 2 < fuel ->
  matches (flat_map etoks_def defs) ts -> parse_defs fuel ts acc = Ok (rev acc ++ defs) [].
Proof.
  induction fuel as [|f IH]; intros defs acc ts Hwf Hf H; [lia|].
  cbn [parse_defs]. destruct defs as [|d rest].
  - simpl in H. subst ts. rewrite app_nil_r. reflexivity.
  - simpl flat_map in H. simpl in Hwf. apply andb_prop in Hwf. destruct Hwf as [Hd Hrest].
    set (es := flat_map etoks_def rest) in *.
    assert (Next : forall x ts1, length ts1 < length ts -> matches es ts1 ->
              parse_defs f ts1 (x :: acc) = Ok (rev acc ++ x :: rest) []).
    { intros x ts1 L M. rewrite (IH rest (x :: acc) ts1 Hrest ltac:(lia) M). simpl. rewrite <- app_assoc. reflexivity. }
    destruct d as [o|fr].
    + destruct o as [k nm vars dirs sels]. unfold wf_def in Hd. simpl in Hd.
      apply andb_prop in Hd. destruct Hd as [Hd Hne]. apply andb_prop in Hd. destruct Hd as [Hd Ws].
      apply andb_prop in Hd. destruct Hd as [Wv Wd]. apply nonempty_ne in Hne.
      unfold etoks_def in H. simpl op_kind in H. simpl op_name in H. simpl op_vars in H. simpl op_dirs in H. simpl op_sels in H.
      (* keyword written or not *)
      match goal with |- ?G =>
        assert (Kw : forall kwb (kk : opkind), keyword_of kwb = match kk with OpQuery => IKQuery | OpMutation => IKMutation | OpSubscription => IKSubscription end ->
                kk = k ->
                matches (([e_name kwb] ++ (match nm with Some n => [e_name n] | None => [] end) ++ etoks_vardefs vars ++ etoks_dirs dirs ++ etoks_set sels) ++ es) ts ->
                G) end.
      { intros kwb kk Ekw <- M. rewrite <- app_assoc in M. simpl app in M.
        apply matches_ET in M. destruct M as (t & r & -> & Hk & Hl & M). kinds.
        rewrite Hl, Ekw.
        assert (Eo : opkind_of (match kk with OpQuery => IKQuery | OpMutation => IKMutation | OpSubscription => IKSubscription end) = Some kk)
          by (destruct kk; reflexivity).
        rewrite Eo. rewrite <- !app_assoc in M.
        destruct (operation_complete f kk nm vars dirs sels es r Wv Wd Ws Hne ltac:(simpl in *; lia) M) as (ts1 & E & M1).
        rewrite E. apply Next; [|exact M1]. apply operation_len in E. simpl. lia. }
      destruct k.
      * destruct nm as [n|]; [|destruct vars as [|v vr]; [destruct dirs as [|dd dr]|]];
          try (apply (Kw s_query OpQuery kw_query eq_refl); exact H).
        (* shorthand: the selection set alone *)
        simpl app in H.
        assert (Hb : exists t r, ts = t :: r /\ pk t = KLBrace).
        { destruct sels as [|x xr]; [congruence|]. unfold etoks_set in H. rewrite <- app_comm_cons in H.
          apply matches_ET in H. destruct H as (t & r & -> & Hk & _). exists t, r. auto. }
        destruct Hb as (t & r & -> & Hk). kinds.
        destruct (selset_complete1 f sels es (t :: r) Hne Ws ltac:(simpl in *; lia) H) as (ts1 & E & M1).
        rewrite E. apply Next; [|exact M1]. apply selset_len in E. exact E.
      * apply (Kw s_mutation OpMutation kw_mutation eq_refl). exact H.
      * apply (Kw s_subscription OpSubscription kw_subscription eq_refl). exact H.
    + destruct fr as [nm tyn dirs sels]. unfold wf_def in Hd. simpl in Hd.
      apply andb_prop in Hd. destruct Hd as [Hd Hne]. apply andb_prop in Hd. destruct Hd as [Wd Ws]. apply nonempty_ne in Hne.
      unfold etoks_def in H. simpl fr_name in H. simpl fr_type in H. simpl fr_dirs in H. simpl fr_sels in H.
      rewrite <- app_comm_cons in H. apply matches_ET in H. destruct H as (t & r & -> & Hk & Hl & M). kinds.
      rewrite Hl, kw_fragment. simpl opkind_of. cbv iota.
      rewrite <- !app_comm_cons in M. rewrite <- app_assoc in M.
      destruct (fragment_complete f nm tyn dirs sels es r Wd Ws Hne ltac:(simpl in *; lia) M) as (ts1 & E & M1).
      rewrite E. apply Next; [|exact M1]. apply fragment_len in E. simpl. lia.
Qed.

(* the parser inverts the token-level printer *)
Theorem print_parse_tokens_proof : forall d ts, wf_doc d = true -> matches (etoks d) ts -> parse ts = Ok d [].
Proof.
  intros d ts Hwf H. unfold parse, parse_fuel.
  apply (defs_complete (3 * length ts + 3) d [] ts Hwf); [lia|exact H].
Qed.
