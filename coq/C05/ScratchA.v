(* C05 stage 2 proofs, part A: the accounting as a fold, what a successful run implies, and the
   token-list predicates ("shapes") the parser proof establishes for what it consumes. *)
From Gv Require Import lib.Bytes lib.Gql C05.Lex C05.Parse C05.Limits C05.Spec.
From Coq Require Import ZArith Lia ZifyBool.
Open Scope Z_scope.

(* ---- one step without limits, and the fold ---- *)
Definition lstep (fx : bool) (t : ptoken) (s : lstate) : lstate :=
  match pk t with
  | KLBrace =>
    let l := l_local s + 1 in
    {| l_global := l_global s + 1; l_local := l; l_peak := (if l_peak s <? l then l else l_peak s);
       l_fields := l_fields s; l_spread := false |}
  | KRBrace =>
    {| l_global := l_global s - 1; l_local := l_local s - 1; l_peak := l_peak s;
       l_fields := l_fields s; l_spread := false |}
  | KSpread =>
    {| l_global := l_global s; l_local := l_local s; l_peak := l_peak s; l_fields := l_fields s; l_spread := true |}
  | KIdent =>
    if is_def_kw (keyword_of (plit t)) && (negb fx || (l_local s <=? 0)) then
      {| l_global := l_global s + l_peak s; l_local := 0; l_peak := 0; l_fields := l_fields s; l_spread := false |}
    else
      {| l_global := l_global s; l_local := l_local s; l_peak := l_peak s;
         l_fields := (if (0 <? l_local s) && negb (l_spread s) then l_fields s + 1 else l_fields s);
         l_spread := false |}
  | _ => s
  end.

Fixpoint lrun (fx : bool) (ts : list ptoken) (s : lstate) : lstate :=
  match ts with [] => s | t :: r => lrun fx r (lstep fx t s) end.

Lemma lrun_app : forall fx a b s, lrun fx (a ++ b) s = lrun fx b (lrun fx a s).
Proof. induction a; simpl; intros; auto. Qed.

(* a run that is accepted took no early exit: it is the fold *)
Lemma lim_run_step_ok : forall fx L F t r s a b,
  lim_run fx L F (t :: r) s = (LOk, a, b) -> lim_run fx L F r (lstep fx t s) = (LOk, a, b).
Proof.
  intros fx L F t r s a b H. cbn [lim_run] in H. unfold lstep.
  destruct (pk t); try exact H.
  - (* ident *)
    destruct (is_def_kw (keyword_of (plit t)) && (negb fx || (l_local s <=? 0))); [exact H|].
    cbv zeta in H.
    destruct ((0 <? F) && (F <? (if (0 <? l_local s) && negb (l_spread s) then l_fields s + 1 else l_fields s))); [discriminate H|exact H].
  - (* lbrace *)
    cbv zeta in H. destruct ((0 <? L) && (L <? l_global s + 1)); [discriminate H|exact H].
Qed.

Lemma lim_run_app_ok : forall fx L F pre rest s a b,
  lim_run fx L F (pre ++ rest) s = (LOk, a, b) -> lim_run fx L F rest (lrun fx pre s) = (LOk, a, b).
Proof.
  induction pre as [|t r IH]; intros rest s a b H; [exact H|].
  simpl. apply IH. apply lim_run_step_ok. exact H.
Qed.

Lemma lim_run_lbrace : forall fx L F t r s a b,
  lim_run fx L F (t :: r) s = (LOk, a, b) -> pk t = KLBrace -> 0 < L -> l_global s + 1 <= L.
Proof.
  intros fx L F t r s a b H Hk HL. cbn [lim_run] in H. rewrite Hk in H. cbv zeta in H.
  destruct ((0 <? L) && (L <? l_global s + 1)) eqn:E; [discriminate H|]. lia.
Qed.

Lemma lstep_fields_mono : forall fx t s, l_fields s <= l_fields (lstep fx t s).
Proof.
  intros. unfold lstep. destruct (pk t); simpl; try lia.
  destruct (is_def_kw (keyword_of (plit t)) && (negb fx || (l_local s <=? 0))); simpl; [lia|].
  destruct ((0 <? l_local s) && negb (l_spread s)); lia.
Qed.

(* an accepted run never saw the field counter above the limit; its TotalFields is the final counter *)
Lemma lim_run_fields : forall fx L F ts s a b,
  lim_run fx L F ts s = (LOk, a, b) ->
  b = l_fields (lrun fx ts s) /\ (0 < F -> l_fields s <= F -> b <= F).
Proof.
  induction ts as [|t r IH]; intros s a b H.
  - simpl in H. inversion H; subst. simpl. split; [reflexivity|lia].
  - pose proof (lim_run_step_ok _ _ _ _ _ _ _ _ H) as H'.
    destruct (IH _ _ _ H') as [E1 E2]. split; [exact E1|].
    intros HF Hs. apply E2; [exact HF|].
    (* the step kept the counter within the limit, otherwise the run would have stopped *)
    cbn [lim_run] in H. unfold lstep.
    destruct (pk t); simpl; try exact Hs.
    destruct (is_def_kw (keyword_of (plit t)) && (negb fx || (l_local s <=? 0))); simpl; [exact Hs|].
    cbv zeta in H.
    destruct ((0 <? F) && (F <? (if (0 <? l_local s) && negb (l_spread s) then l_fields s + 1 else l_fields s))) eqn:E; [discriminate H|].
    lia.
Qed.

(* ---- predicates on consumed token lists ---- *)

(* state facts every consumed segment satisfies, for the fixed and the historical accounting alike *)
Definition StateOK (pre : list ptoken) : Prop :=
  forall fx st, 0 <= l_peak st -> l_global st <= l_global (lrun fx pre st) /\ 0 <= l_peak (lrun fx pre st).

(* arguments, values, directives, types, variable definitions: balanced braces, no spread *)
Definition Plain (pre : list ptoken) : Prop :=
  (forall st, 0 <= l_local st ->
     l_local (lrun true pre st) = l_local st /\ l_fields st <= l_fields (lrun true pre st) /\
     (l_spread st = false -> l_spread (lrun true pre st) = false))
  /\ StateOK pre.

(* depth half of the selection-level shapes: an accepted run that passes through [pre] has checked
   a brace at nesting [dep] above the global depth it entered with (nothing to say when dep = 0) *)
Definition DepthOK (dep : Z) (pre : list ptoken) : Prop :=
  (forall fx L F st rest a b, 0 < L -> 0 <= l_peak st -> 0 < dep ->
    lim_run fx L F (pre ++ rest) st = (LOk, a, b) -> l_global st + dep <= L)
  /\ StateOK pre.

(* the tokens of one selection, met inside a selection set (local depth >= 1, no pending spread) *)
Definition FieldsOK (n : Z) (pre : list ptoken) : Prop :=
  forall st, 1 <= l_local st -> l_spread st = false ->
     l_local (lrun true pre st) = l_local st /\ l_spread (lrun true pre st) = false /\
     l_fields st + n <= l_fields (lrun true pre st).
Definition SelOK (s : selection) (pre : list ptoken) : Prop :=
  FieldsOK (sel_fields s) pre /\ DepthOK (sel_depth s) pre.
Definition SelsOK (l : list selection) (pre : list ptoken) : Prop :=
  FieldsOK (sels_fields l) pre /\ DepthOK (sels_maxdepth l) pre.

(* a braced selection set, or nothing when [l] is empty; may follow a spread when non-empty *)
Definition SetOK (l : list selection) (pre : list ptoken) : Prop :=
  (forall st, 0 <= l_local st ->
     l_local (lrun true pre st) = l_local st /\ l_fields st + sels_fields l <= l_fields (lrun true pre st) /\
     (l <> [] \/ l_spread st = false -> l_spread (lrun true pre st) = false))
  /\ DepthOK (selset_depth l) pre.

(* ---- the nested fixpoints of Spec agree with the list-level functions ---- *)
Lemma sel_fields_field : forall a n ar d sels, sel_fields (SField a n ar d sels) = 1 + sels_fields sels.
Proof. intros. reflexivity. Qed.
Lemma sel_fields_inline : forall tc d sels, sel_fields (SInline tc d sels) = sels_fields sels.
Proof. intros. reflexivity. Qed.
Lemma sel_depth_field : forall a n ar d sels, sel_depth (SField a n ar d sels) = selset_depth sels.
Proof. intros. destruct sels; reflexivity. Qed.
Lemma sel_depth_inline : forall tc d sels, sel_depth (SInline tc d sels) = selset_depth sels.
Proof. intros. destruct sels; reflexivity. Qed.
Lemma sels_maxdepth_nonneg : forall l, 0 <= sels_maxdepth l.
Proof. induction l; simpl; lia. Qed.

(* ---- closure lemmas: StateOK / Plain ---- *)
Lemma lstep_peak_nonneg : forall fx t s, 0 <= l_peak s -> 0 <= l_peak (lstep fx t s).
Proof.
  intros. unfold lstep. destruct (pk t); simpl; try lia.
  - destruct (is_def_kw (keyword_of (plit t)) && (negb fx || (l_local s <=? 0))); simpl; lia.
  - destruct (l_peak s <? l_local s + 1) eqn:E; lia.
Qed.

Lemma StateOK_nil : StateOK [].
Proof. intros fx st H. simpl. lia. Qed.
Lemma StateOK_app : forall a b, StateOK a -> StateOK b -> StateOK (a ++ b).
Proof.
  intros a b A B fx st H. rewrite lrun_app.
  destruct (A fx st H) as (E1 & E2). destruct (B fx (lrun fx a st) E2) as (F1 & F2). split; lia.
Qed.
(* any token but a closing brace keeps the global depth from falling *)
Lemma StateOK_tok : forall t, pk t <> KRBrace -> StateOK [t].
Proof.
  intros t Hk fx st H. simpl. split; [|apply lstep_peak_nonneg; exact H].
  unfold lstep. destruct (pk t); simpl; try lia; try congruence.
  destruct (is_def_kw (keyword_of (plit t)) && (negb fx || (l_local st <=? 0))); simpl; lia.
Qed.
Lemma StateOK_braces : forall o c mid, pk o = KLBrace -> pk c = KRBrace -> StateOK mid -> StateOK (o :: mid ++ [c]).
Proof.
  intros o c mid Ho Hc M fx st H. change (o :: mid ++ [c]) with ([o] ++ mid ++ [c]). rewrite !lrun_app. simpl.
  set (s1 := lstep fx o st).
  assert (S1 : l_global s1 = l_global st + 1 /\ 0 <= l_peak s1).
  { subst s1. split; [unfold lstep; rewrite Ho; reflexivity|apply lstep_peak_nonneg; exact H]. }
  destruct S1 as (S1a & S1b).
  destruct (M fx s1 S1b) as (E1 & E2).
  unfold lstep. rewrite Hc. simpl. split; lia.
Qed.

Lemma Plain_nil : Plain [].
Proof. split; [intros; simpl; repeat split; auto; lia|apply StateOK_nil]. Qed.

Lemma Plain_app : forall a b, Plain a -> Plain b -> Plain (a ++ b).
Proof.
  intros a b [A1 A2] [B1 B2]. split; [|apply StateOK_app; assumption].
  intros st H. rewrite lrun_app.
  destruct (A1 st H) as (E1 & E2 & E3).
  destruct (B1 (lrun true a st)) as (F1 & F2 & F3); [lia|].
  repeat split; try lia; auto.
Qed.

Definition plain_kind (k : kind) : bool :=
  match k with KLBrace | KRBrace | KSpread => false | _ => true end.

Lemma Plain_tok : forall t, plain_kind (pk t) = true -> Plain [t].
Proof.
  intros t Hk. split.
  - intros st H. simpl. unfold lstep. destruct (pk t); try discriminate Hk; simpl. Show. Abort.
