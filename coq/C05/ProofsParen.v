(* C05: parentheses are balanced in everything the parser consumes (the accounting keeps a parenthesis
   counter to tell a value's brace from a selection set's). *)
From Gv Require Import lib.Bytes lib.Gql C05.Lex C05.Parse C05.Limits C05.Spec C05.ProofsLimits.
From Coq Require Import ZArith Lia.
Open Scope Z_scope.

Lemma is_kind_eq0 : forall k t, is_kind k t = true -> pk t = k.
Proof. intros k t H. unfold is_kind in H. apply kind_eqb_eq in H. exact H. Qed.

Ltac dm H :=
  match type of H with
  | match ?x with _ => _ end = _ => let E := fresh "E" in destruct x eqn:E; try discriminate H
  | (if ?x then _ else _) = _ => let E := fresh "E" in destruct x eqn:E; try discriminate H
  end.

Ltac pfacts :=
  repeat match goal with
  | E : is_on _ = true |- _ => unfold is_on in E
  | E : (_ && _) = true |- _ => apply andb_prop in E; destruct E
  | E : is_kind _ _ = true |- _ => apply is_kind_eq0 in E
  end.
Ltac psolve :=
  pfacts; cbn [pnet] in *;
  repeat match goal with E : pk ?t = _ |- context [pk ?t] => rewrite E end;
  repeat match goal with E : pk ?t = _, H : context [pdelta (pk ?t)] |- _ => rewrite E in H end;
  cbn [pdelta] in *; lia.

Lemma value_paren : forall fuel,
  (forall ts v r, parse_value fuel ts = Ok v r -> pnet ts = pnet r) /\
  (forall ts acc v r, parse_value_list fuel ts acc = Ok v r -> pnet ts = pnet r) /\
  (forall ts acc v r, parse_object_fields fuel ts acc = Ok v r -> pnet ts = pnet r).
Proof.
  induction fuel as [|f IH]; [repeat split; intros; discriminate|].
  destruct IH as (IHv & IHl & IHo). repeat split.
  - intros ts v r H. cbn [parse_value] in H. destruct ts as [|t r0]; [discriminate H|].
    destruct (pk t) eqn:Ek; try discriminate H.
    + assert (r = r0) by (destruct (keyword_of (plit t)); inversion H; reflexivity). subst. psolve.
    + destruct r0 as [|n r2]; [discriminate H|]. dm H; [dm H|dm H; dm H]; inversion H; subst; psolve.
    + destruct r0 as [|n r2]; [discriminate H|]. dm H. inversion H; subst. psolve.
    + inversion H; subst. psolve.
    + inversion H; subst. psolve.
    + inversion H; subst. psolve.
    + inversion H; subst. psolve.
    + apply IHl in H. psolve.
    + apply IHo in H. psolve.
  - intros ts acc v r H. cbn [parse_value_list] in H. destruct ts as [|t r0]; [discriminate H|]. dm H.
    + inversion H; subst. psolve.
    + dm H. apply IHv in E0. apply IHl in H. lia.
  - intros ts acc v r H. cbn [parse_object_fields] in H. destruct ts as [|t r0]; [discriminate H|]. dm H.
    + inversion H; subst. psolve.
    + dm H. destruct r0 as [|c r2]; [discriminate H|]. dm H. dm H. apply IHv in E2. apply IHo in H. psolve.
Qed.
Lemma value_paren1 : forall fuel ts v r, parse_value fuel ts = Ok v r -> pnet ts = pnet r.
Proof. intro fuel. apply (value_paren fuel). Qed.

Lemma type_paren : forall fuel ts t r, parse_type fuel ts = Ok t r -> pnet ts = pnet r.
Proof.
  induction fuel as [|f IH]; intros ts t r H; [discriminate H|].
  cbn [parse_type] in H. destruct ts as [|t0 r0]; [discriminate H|].
  assert (Bang : forall (b0 : ty) r1 t' r',
    match r1 with
    | b :: r2 => if is_kind KBang b then match r2 with
                                         | b2 :: _ => if is_kind KBang b2 then Err else Ok (TNonNull b0) r2
                                         | [] => Ok (TNonNull b0) r2 end
                 else Ok b0 r1
    | [] => Ok b0 r1
    end = Ok t' r' -> pnet r1 = pnet r').
  { intros b0 r1 t' r' Hx. destruct r1 as [|b r2]; [inversion Hx; reflexivity|].
    destruct (is_kind KBang b) eqn:Eb; [|inversion Hx; reflexivity].
    destruct r2 as [|b2 r3]; [inversion Hx; subst; psolve|].
    destruct (is_kind KBang b2); [discriminate Hx|inversion Hx; subst; psolve]. }
  dm H.
  - apply Bang in H. psolve.
  - dm H. dm H. destruct rest as [|c r2]; [discriminate H|]. dm H. apply IH in E1. apply Bang in H. psolve.
Qed.

Lemma args_paren : forall fuel ts acc a r, parse_args fuel ts acc = Ok a r -> pnet ts = -1 + pnet r.
Proof.
  induction fuel as [|f IH]; intros ts acc a r H; [discriminate H|].
  cbn [parse_args] in H. destruct ts as [|t r0]; [discriminate H|]. dm H.
  - destruct r0 as [|c r2]; [discriminate H|]. dm H. dm H. apply value_paren1 in E1. apply IH in H. psolve.
  - dm H. inversion H; subst. psolve.
Qed.

Lemma opt_args_paren : forall fuel ts a r, parse_opt_args fuel ts = Ok a r -> pnet ts = pnet r.
Proof.
  intros fuel ts a r H. unfold parse_opt_args in H.
  destruct ts as [|t r0]; [inversion H; reflexivity|].
  destruct (is_kind KLParen t) eqn:E; [apply args_paren in H; psolve|inversion H; reflexivity].
Qed.

Lemma dirs_paren : forall fuel ts acc ds r, parse_dirs fuel ts acc = Ok ds r -> pnet ts = pnet r.
Proof.
  induction fuel as [|f IH]; intros ts acc ds r H; [discriminate H|].
  cbn [parse_dirs] in H. destruct ts as [|t r0]; [inversion H; reflexivity|].
  destruct (is_kind KAt t) eqn:E; [|inversion H; reflexivity].
  destruct r0 as [|n r2]; [discriminate H|]. dm H. dm H. apply opt_args_paren in E1. apply IH in H. psolve.
Qed.

Lemma vardefs_paren : forall fuel ts acc vs r, parse_vardefs fuel ts acc = Ok vs r -> pnet ts = -1 + pnet r.
Proof.
  induction fuel as [|f IH]; intros ts acc vs r H; [discriminate H|].
  cbn [parse_vardefs] in H. destruct ts as [|t r0]; [discriminate H|]. dm H.
  { inversion H; subst. psolve. }
  dm H. dm H. destruct r0 as [|v r1]; [discriminate H|]. dm H.
  destruct r1 as [|c r2]; [discriminate H|]. dm H. dm H. apply type_paren in E4.
  assert (Fin : forall dv r4,
     match parse_dirs f r4 [] with
     | Ok dirs r5 => parse_vardefs f r5 ({| vd_name := plit v; vd_type := a; vd_default := dv; vd_dirs := dirs |} :: acc)
     | Err => Err | Unsup => Unsup | Oof => Oof end = Ok vs r -> pnet r4 = -1 + pnet r).
  { intros dv r4 Hx. dm Hx. apply dirs_paren in E5. apply IH in Hx. lia. }
  assert (Tail : pnet rest = -1 + pnet r).
  { destruct rest as [|e r4]; [apply (Fin None [] H)|].
    destruct (is_kind KEquals e) eqn:Ee; [|apply (Fin None (e :: r4) H)].
    dm H. apply value_paren1 in E5. apply Fin in H. psolve. }
  psolve.
Qed.

Definition SelsetParen (selset : list ptoken -> res (list selection)) : Prop :=
  forall ts sels r, selset ts = Ok sels r -> pnet ts = pnet r.

Lemma field_tail_paren : forall selset f alias nm r1 s r, SelsetParen selset ->
  field_tail selset f alias nm r1 = Ok s r -> pnet r1 = pnet r.
Proof.
  intros selset f alias nm r1 s r HS H. unfold field_tail in H.
  dm H. dm H. apply opt_args_paren in E. apply dirs_paren in E0.
  destruct rest0 as [|b r4]; [inversion H; subst; lia|].
  destruct (is_kind KLBrace b).
  - dm H. inversion H; subst. apply HS in E1. lia.
  - inversion H; subst. lia.
Qed.
Lemma inline_tail_paren : forall selset f tc r1 s r, SelsetParen selset ->
  inline_tail selset f tc r1 = Ok s r -> pnet r1 = pnet r.
Proof.
  intros selset f tc r1 s r HS H. unfold inline_tail in H.
  dm H. apply dirs_paren in E.
  destruct rest as [|b r4]; [inversion H; subst; lia|].
  destruct (is_kind KLBrace b).
  - dm H. inversion H; subst. apply HS in E0. lia.
  - inversion H; subst. lia.
Qed.

Lemma sel_paren : forall fuel,
  SelsetParen (parse_selset fuel) /\
  (forall ts acc sels r, parse_sels fuel ts acc = Ok sels r -> pnet ts = pnet r) /\
  (forall ts s r, parse_field fuel ts = Ok s r -> pnet ts = pnet r) /\
  (forall ts s r, parse_frag_sel fuel ts = Ok s r -> pnet ts = pnet r).
Proof.
  induction fuel as [|f IH]; [split; [|split; [|split]]; intros ts; intros; discriminate|].
  destruct IH as (IHset & IHsels & IHfield & IHfrag). split; [|split; [|split]].
  - intros ts sels r H. cbn [parse_selset] in H. destruct ts as [|t r0]; [discriminate H|]. dm H.
    apply IHsels in H. psolve.
  - intros ts acc sels r H. cbn [parse_sels] in H. destruct ts as [|t r0]; [discriminate H|]. dm H.
    + destruct acc; [discriminate H|]. inversion H; subst. psolve.
    + dm H; [dm H; apply IHfield in E1; apply IHsels in H; lia|].
      dm H. dm H. apply IHfrag in E2. apply IHsels in H. psolve.
  - intros ts s r H. cbn [parse_field] in H. destruct ts as [|t r0]; [discriminate H|].
    destruct (is_kind KIdent t) eqn:Et; [|discriminate H]. simpl in H.
    destruct r0 as [|c r1]; [apply field_tail_paren in H; [psolve|exact IHset]|].
    destruct (is_kind KColon c) eqn:Ec; [|apply field_tail_paren in H; [psolve|exact IHset]].
    destruct r1 as [|n r2]; [discriminate H|]. dm H. apply field_tail_paren in H; [psolve|exact IHset].
  - intros ts s r H. cbn [parse_frag_sel] in H. destruct ts as [|t r0]; [discriminate H|].
    destruct (is_kind KLBrace t || is_kind KAt t); [apply inline_tail_paren in H; [exact H|exact IHset]|].
    dm H. destruct (is_on t).
    + destruct r0 as [|n r1]; [discriminate H|]. dm H. apply inline_tail_paren in H; [psolve|exact IHset].
    + dm H. inversion H; subst. apply dirs_paren in E0. psolve.
Qed.

Lemma selset_paren : forall f ts sels r, parse_selset f ts = Ok sels r -> pnet ts = pnet r.
Proof. intro f. apply (sel_paren f). Qed.

Lemma operation_paren : forall f k ts d r, parse_operation f k ts = Ok d r -> pnet ts = pnet r.
Proof.
  intros f k ts d r H. unfold parse_operation in H.
  destruct (match ts with
            | t :: r => if is_kind KIdent t then (Some (plit t), r) else (None, ts)
            | [] => (None, ts) end) as [nm r1] eqn:En.
  assert (H1 : pnet ts = pnet r1).
  { destruct ts as [|t r0]; [inversion En; reflexivity|].
    destruct (is_kind KIdent t) eqn:Et; inversion En; subst; [psolve|reflexivity]. }
  dm H.
  assert (H2 : pnet r1 = pnet rest).
  { destruct r1 as [|t r0]; [inversion E; reflexivity|].
    destruct (is_kind KLParen t) eqn:Et; [apply vardefs_paren in E; psolve|inversion E; reflexivity]. }
  dm H. dm H. inversion H; subst. apply dirs_paren in E0. apply selset_paren in E1. lia.
Qed.

Lemma fragment_paren : forall f ts d r, parse_fragment f ts = Ok d r -> pnet ts = pnet r.
Proof.
  intros f ts d r H. unfold parse_fragment in H.
  destruct ts as [|n [|o [|t r0]]]; try discriminate H.
  dm H. dm H. dm H. inversion H; subst. apply dirs_paren in E0. apply selset_paren in E1. psolve.
Qed.
