(* C05: assembly of the byte-level statements. *)
From Gv Require Import lib.Bytes lib.Gql C05.Lex C05.Parse C05.Limits C05.Print C05.Spec C05.Tokens
  C05.ProofsLex C05.ProofsLimits C05.ProofsParse C05.ProofsTotal C05.ProofsRoundtrip C05.ProofsWf C05.ProofsMisc C05.ProofsInline C05.PreFix.
From Coq Require Import ZArith.
Open Scope N_scope.

Lemma bytes_eqb_eq : forall a b, bytes_eqb a b = true -> a = b.
Proof.
  induction a as [|x a IH]; destruct b as [|y b]; simpl; intro H; try discriminate; [reflexivity|].
  apply andb_prop in H. destruct H as [H1 H2]. apply N.eqb_eq in H1. subst. f_equal. apply IH. exact H2.
Qed.

Lemma matches_b_sound : forall es ts, matches_b es ts = true -> matches es ts.
Proof.
  induction es as [|e es IH]; intros ts H.
  - destruct ts; [reflexivity|discriminate H].
  - destruct e as [k l|n|k raw]; simpl in H; simpl.
    + destruct ts as [|t r]; [discriminate H|].
      apply andb_prop in H. destruct H as [H H3]. apply andb_prop in H. destruct H as [H1 H2].
      apply kind_eqb_eq in H1. apply bytes_eqb_eq in H2. auto.
    + destruct ts as [|d [|v r]]; try discriminate H.
      apply andb_prop in H. destruct H as [H H5]. apply andb_prop in H. destruct H as [H H4].
      apply andb_prop in H. destruct H as [H H3]. apply andb_prop in H. destruct H as [H1 H2].
      apply kind_eqb_eq in H1. apply kind_eqb_eq in H2. apply bytes_eqb_eq in H3. apply N.eqb_eq in H4. auto 6.
    + destruct ts as [|d [|v r]]; try discriminate H.
      apply andb_prop in H. destruct H as [H H5]. apply andb_prop in H. destruct H as [H H4].
      apply andb_prop in H. destruct H as [H H3]. apply andb_prop in H. destruct H as [H1 H2].
      apply kind_eqb_eq in H1. apply kind_eqb_eq in H2. apply bytes_eqb_eq in H3. apply N.eqb_eq in H4. auto 6.
Qed.

Lemma parse_bytes_wf : forall b d r, parse_bytes b = Ok d r -> wf_doc d = true.
Proof.
  intros b d r H. unfold parse_bytes in H. destruct (lex b); [|discriminate H]. eapply parse_wf_proof. exact H.
Qed.

(* the round trip, with the lexical half as an explicit (and executable) hypothesis *)
Theorem roundtrip_partial_proof : forall ind b d r,
  parse_bytes b = Ok d r -> lex_print_ok_b ind d = true -> parse_bytes (print_doc ind d) = Ok d [].
Proof.
  intros ind b d r Hp Hl. apply parse_bytes_wf in Hp.
  unfold lex_print_ok_b in Hl. unfold parse_bytes.
  destruct (lex (print_doc ind d)) as [ts|]; [|discriminate Hl].
  apply matches_b_sound in Hl. apply print_parse_tokens_proof; assumption.
Qed.

(* hence printing is a fixed point after one round *)
Theorem print_fixpoint_partial_proof : forall ind b d r d' r',
  parse_bytes b = Ok d r -> lex_print_ok_b ind d = true ->
  parse_bytes (print_doc ind d) = Ok d' r' -> print_doc ind d' = print_doc ind d.
Proof.
  intros ind b d r d' r' Hp Hl H. rewrite (roundtrip_partial_proof ind b d r Hp Hl) in H. inversion H; subst. reflexivity.
Qed.

(* ---- HISTORICAL: the round trip was false of the lexer and printer before the repairs (PreFix.v) ----
   a block string whose content ends in a quote, written a(x: <3 quotes> a <quote> <space> <3 quotes>):
   printed <3 quotes> a <quote> <3 quotes>, which does not parse *)
Definition witness_block_tail : bytes :=
  [123;97;40;120;58;34;34;34;97;34;32;34;34;34;41;125].
Theorem roundtrip_refuted_before_fix_proof :
  exists b d, V0.parse_bytes b = Ok d [] /\ V0.parse_bytes (V0.print d) = Err.
Proof.
  exists witness_block_tail. eexists. split; vm_compute; reflexivity.
Qed.
(* a NUL byte inside a string: {a(x:<quote>a NUL)} parsed (content a NUL), its print did not *)
Definition witness_nul_string : bytes := [123;97;40;120;58;34;97;0;41;125].
Theorem nul_in_string_refuted_before_fix_proof :
  exists d, V0.parse_bytes witness_nul_string = Ok d [] /\ V0.parse_bytes (V0.print d) = Err.
Proof. eexists. split; vm_compute; reflexivity. Qed.
(* a quote next to trailing white space: <3 quotes> a SPACE <quote> SPACE <3 quotes> was stored as "a ",
   which prints and re-parses as "a": the round trip succeeded with a different tree *)
Definition witness_block_quote_ws : bytes :=
  [123;97;40;120;58;34;34;34;97;32;34;32;34;34;34;41;125].
Theorem block_content_changes_before_fix_proof :
  exists d d', V0.parse_bytes witness_block_quote_ws = Ok d [] /\ V0.parse_bytes (V0.print d) = Ok d' [] /\ d' <> d.
Proof. eexists. eexists. split; [vm_compute; reflexivity|]. split; [vm_compute; reflexivity|]. discriminate. Qed.

(* the same inputs on the repaired functions: the block strings keep their content and round-trip, the
   document with the NUL byte is rejected *)
Example witnesses_repaired :
  (exists d, parse_bytes witness_block_tail = Ok d [] /\ lex_print_ok_b None d = true /\ parse_bytes (print d) = Ok d []) /\
  (exists d, parse_bytes witness_block_quote_ws = Ok d [] /\ lex_print_ok_b None d = true /\ parse_bytes (print d) = Ok d []) /\
  parse_bytes witness_nul_string = Err.
Proof.
  split; [eexists; split; [vm_compute; reflexivity|split; vm_compute; reflexivity]|].
  split; [eexists; split; [vm_compute; reflexivity|split; vm_compute; reflexivity]|].
  vm_compute; reflexivity.
Qed.

(* limits on bytes *)
Theorem limits_sound_bytes_proof : forall L F b d r v dp fl,
  parse_bytes b = Ok d r -> exceeds_cum L F d -> tokenize_limits true true L F b = Some (v, dp, fl) -> v <> LOk.
Proof.
  intros L F b d r v dp fl Hp He Ht. unfold parse_bytes in Hp. unfold tokenize_limits in Ht.
  destruct (lex b) as [ts|]; [|discriminate Hp]. inversion Ht as [Hr].
  pose proof (limits_sound_proof L F ts d r Hp He) as Hs. rewrite Hr in Hs. exact Hs.
Qed.

Theorem limits_cumulative_depth_le_proof : forall L F ts d r,
  parse (strip ts) = Ok d r -> (0 < L)%Z -> fst (fst (lim_run true true L F ts linit)) = LOk ->
  (depth_sum d <= L)%Z.
Proof.
  intros L F ts d r Hp HL Hacc. destruct (Z_lt_le_dec L (depth_sum d)) as [Hlt|Hle]; [|exact Hle].
  exfalso. exact (limits_cumulative_depth_sound_proof L F ts d r Hp HL Hlt Hacc).
Qed.

(* an accepted document: every operation, with its fragments spread, is within the depth limit *)
Theorem limits_inlined_depth_sound_proof : forall L F ts d r o,
  parse (strip ts) = Ok d r -> (0 < L)%Z -> fst (fst (lim_run true true L F ts linit)) = LOk ->
  In (DOp o) d -> (depth_inlined d o <= L)%Z.
Proof.
  intros L F ts d r o Hp HL Hacc Hin.
  pose proof (depth_inlined_le_sum_proof d o Hin) as H1.
  destruct (Z_lt_le_dec L (depth_sum d)) as [Hlt|Hle]; [|apply (Z.le_trans _ _ _ H1 Hle)].
  exfalso. apply (limits_cumulative_depth_sound_proof L F ts d r Hp HL Hlt). exact Hacc.
Qed.

(* hypotheses of roundtrip_partial are satisfiable *)
Example ex_roundtrip_hyp : exists d, parse_bytes witness_query_var = Ok d [] /\
  lex_print_ok_b None d = true /\ lex_print_ok_b (Some [32; 32]%N) d = true.
Proof. eexists. split; [vm_compute; reflexivity|]. split; vm_compute; reflexivity. Qed.
