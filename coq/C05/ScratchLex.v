(* C05 stage 1 proofs: Read makes progress, Tokenize terminates within fuel length+1, every
   token's literal range is inside the input and the ranges are increasing and disjoint. *)
From Gv Require Import lib.Bytes C05.Lex.
From Coq Require Import Lia ZifyN ZifyNat ZifyBool.
Open Scope N_scope.

Definition len (l : bytes) : N := N.of_nat (length l).
Lemma len_cons : forall r (l : bytes), len (r :: l) = len l + 1.
Proof. intros; unfold len; simpl length; lia. Qed.
Lemma len_nil : len [] = 0. Proof. reflexivity. Qed.

(* ---- uint32 arithmetic does not wrap below 2^32 ---- *)
Lemma u32_id : forall x, x < two32 -> u32 x = x.
Proof. intros; unfold u32; apply N.mod_small; assumption. Qed.
Lemma add32_id : forall a b, a + b < two32 -> add32 a b = a + b.
Proof. intros; unfold add32; apply N.mod_small; assumption. Qed.
Lemma sub32_id : forall a b, b <= a -> a < two32 -> sub32 a b = a - b.
Proof.
  intros a b Hb Ha. unfold sub32.
  rewrite (N.mod_small a two32) by assumption.
  rewrite (N.mod_small b two32) by lia.
  replace (a + two32 - b) with ((a - b) + 1 * two32) by lia.
  rewrite N.mod_add by (unfold two32; lia).
  apply N.mod_small. lia.
Qed.

Definition cur_ok (L : N) (c : cur) : Prop := c_pos c + len (c_rest c) = L.

(* ---- the small scanners ---- *)
Lemma skip_ws_spec : forall l pos line col,
  let c := skip_ws l pos line col in
  c_pos c + len (c_rest c) = pos + len l /\ pos <= c_pos c.
Proof.
  induction l as [|r t IH]; intros; subst c; simpl.
  - split; lia.
  - destruct (is_ws r).
    + destruct (r =? r_lf).
      * specialize (IH (pos + 1) (line + 1) 1). simpl in IH. rewrite len_cons. lia.
      * specialize (IH (pos + 1) line (col + 1)). simpl in IH. rewrite len_cons. lia.
    + simpl. split; lia.
Qed.

Lemma ident_run_spec : forall l pos col l' pos' col',
  ident_run l pos col = (l', pos', col') -> pos' + len l' = pos + len l /\ pos <= pos'.
Proof.
  induction l as [|r t IH]; intros pos col l' pos' col' H; simpl in H.
  - inversion H; subst. split; lia.
  - destruct (is_ident_char r).
    + apply IH in H. rewrite len_cons. lia.
    + inversion H; subst. split; lia.
Qed.

Lemma digits_run_spec : forall l pos col l' pos' col',
  digits_run l pos col = (l', pos', col') -> pos' + len l' = pos + len l /\ pos <= pos'.
Proof.
  induction l as [|r t IH]; intros pos col l' pos' col' H; simpl in H.
  - inversion H; subst. split; lia.
  - destruct (is_digit r).
    + apply IH in H. rewrite len_cons. lia.
    + inversion H; subst. split; lia.
Qed.

Lemma read_rune_cons : forall r t pos line col,
  snd (read_rune {| c_rest := r :: t; c_pos := pos; c_line := line; c_col := col |}) =
  {| c_rest := t; c_pos := pos + 1; c_line := (if r =? r_lf then line + 1 else line);
     c_col := (if r =? r_lf then 1 else col + 1) |}.
Proof. intros. unfold read_rune. simpl. destruct (r =? r_lf); reflexivity. Qed.

Ltac inj H := injection H; clear H; intros; subst.

(* ---- comments ---- *)
Lemma comment_loop_spec : forall L, L < two32 -> forall l pos line col en le ce c' en' le' ce',
  pos + len l = L -> en <= pos ->
  comment_loop l pos line col (en, le, ce) = (c', (en', le', ce')) ->
  cur_ok L c' /\ pos <= c_pos c' /\ en <= en' /\ en' <= c_pos c'.
Proof.
  intros L HL. induction l as [|r t IH]; intros pos line col en le ce c' en' le' ce' HP He H.
  - simpl in H. inversion H; subst. unfold cur_ok; simpl. rewrite len_nil in *. lia.
  - cbn [comment_loop] in H.
    rewrite read_rune_cons in H. cbn [c_pos c_rest c_line c_col] in H.
    rewrite len_cons in HP.
    destruct (r =? 0).
    { inj H. unfold cur_ok. simpl. lia. }
    destruct ((r =? r_cr) || (r =? r_lf)).
    { destruct (peek_nonws t =? r_hash).
      - apply IH in H; unfold cur_ok in *; lia.
      - inj H. unfold cur_ok. simpl. lia. }
    rewrite u32_id in H by lia.
    apply IH in H; unfold cur_ok in *; lia.
Qed.

(* ---- single-line strings ---- *)
Lemma sstring_loop_spec : forall L, L < two32 -> forall l pos line col esc c' en' le' ce',
  pos + len l = L ->
  sstring_loop l pos line col esc = (c', (en', le', ce')) ->
  cur_ok L c' /\ pos <= c_pos c' /\ pos <= en' /\ en' <= c_pos c'.
Proof.
  intros L HL. induction l as [|r t IH]; intros pos line col esc c' en' le' ce' HP H.
  - simpl in H. inversion H; subst. unfold cur_ok; simpl. rewrite len_nil in *. rewrite u32_id by lia. lia.
  - cbn [sstring_loop] in H.
    rewrite read_rune_cons in H. cbn [c_pos c_rest c_line c_col] in H.
    rewrite len_cons in HP.
    assert (HIH : forall line1 col1 esc', sstring_loop t (pos + 1) line1 col1 esc' = (c', (en', le', ce')) ->
                  cur_ok L c' /\ pos <= c_pos c' /\ pos <= en' /\ en' <= c_pos c').
    { intros line1 col1 esc' H'. apply IH in H'; unfold cur_ok in *; lia. }
    destruct ((r =? r_space) || (r =? r_tab)); [eapply HIH; eassumption|].
    destruct (r =? 0).
    { rewrite u32_id in H by lia. inj H. unfold cur_ok. simpl. lia. }
    destruct ((r =? r_quote) || (r =? r_cr) || (r =? r_lf)).
    { destruct esc; [eapply HIH; eassumption|].
      rewrite sub32_id in H by lia. inj H. unfold cur_ok. simpl. lia. }
    destruct (r =? r_backslash); eapply HIH; eassumption.
Qed.

(* ---- block strings: the Start += leading / End -= trailing adjustments never cross ---- *)
Lemma bstring_loop_spec : forall L, L < two32 -> forall s0 l pos line col esc qc ws reached lead c' en' le' ce' lead' ws',
  pos + len l = L ->
  s0 + lead + ws + qc <= pos ->
  bstring_loop l pos line col esc qc ws reached lead = (c', (en', le', ce'), lead', ws') ->
  cur_ok L c' /\ pos <= c_pos c' /\ s0 + lead' + ws' <= en' /\ en' <= c_pos c'.
Proof.
  intros L HL s0. induction l as [|r t IH]; intros pos line col esc qc ws reached lead c' en' le' ce' lead' ws' HP HI H.
  - simpl in H. inversion H; subst. unfold cur_ok; simpl. rewrite len_nil in *. rewrite u32_id by lia. lia.
  - cbn [bstring_loop] in H.
    rewrite read_rune_cons in H. cbn [c_pos c_rest c_line c_col] in H.
    rewrite len_cons in HP. cbv zeta in H.
    assert (HIH : forall line1 col1 esc' qc' ws1 reached' lead1,
               s0 + lead1 + ws1 + qc' <= pos + 1 ->
               bstring_loop t (pos + 1) line1 col1 esc' qc' ws1 reached' lead1 = (c', (en', le', ce'), lead', ws') ->
               cur_ok L c' /\ pos <= c_pos c' /\ s0 + lead' + ws' <= en' /\ en' <= c_pos c').
    { intros line1 col1 esc' qc' ws1 reached' lead1 HI' H'. apply IH in H'; unfold cur_ok in *; lia. }
    destruct ((r =? r_space) || (r =? r_tab) || (r =? r_cr) || (r =? r_lf)).
    { eapply HIH; [|eassumption]. lia. }
    destruct (r =? 0).
    { rewrite u32_id in H by lia. inj H. unfold cur_ok. simpl. lia. }
    destruct (r =? r_quote).
    { destruct esc.
      - eapply HIH; [|eassumption]. lia.
      - destruct (qc + 1 =? 3) eqn:Hq.
        + apply N.eqb_eq in Hq. rewrite sub32_id in H by lia. inj H. unfold cur_ok. simpl. lia.
        + eapply HIH; [|eassumption]. lia. }
    destruct (r =? r_backslash).
    { eapply HIH; [|eassumption]. lia. }
    destruct reached.
    + eapply HIH; [|eassumption]. lia.
    + eapply HIH; [|eassumption]. lia.
Qed.

(* ---- numbers ---- *)
Lemma read_float_spec : forall L h c, cur_ok L c ->
  cur_ok L (read_float h c) /\ c_pos c <= c_pos (read_float h c).
Proof.
  intros L h c H. unfold cur_ok in *. unfold read_float.
  destruct (digits_run (c_rest c) (c_pos c) (c_col c)) as [[l1 p1] k1] eqn:E1.
  apply digits_run_spec in E1.
  destruct h; [unfold adv; simpl; lia|].
  assert (E2 : exists l2 p2 k2,
     match l1 with
     | r :: t => if (r =? r_exp_lower) || (r =? r_exp_upper) then (t, p1 + 1, k1 + 1) else (l1, p1, k1)
     | [] => (l1, p1, k1)
     end = (l2, p2, k2) /\ p2 + len l2 = p1 + len l1 /\ p1 <= p2).
  { destruct l1 as [|r t].
    - exists [], p1, k1. repeat split; lia.
    - destruct ((r =? r_exp_lower) || (r =? r_exp_upper)).
      + exists t, (p1 + 1), (k1 + 1). rewrite len_cons. repeat split; lia.
      + exists (r :: t), p1, k1. repeat split; lia. }
  destruct E2 as (l2 & p2 & k2 & E2 & E2a & E2b). rewrite E2.
  assert (E3 : exists l3 p3 k3,
     match l2 with
     | r :: t => if (r =? r_sub) || (r =? r_add) then (t, p2 + 1, k2 + 1) else (l2, p2, k2)
     | [] => (l2, p2, k2)
     end = (l3, p3, k3) /\ p3 + len l3 = p2 + len l2 /\ p2 <= p3).
  { destruct l2 as [|r t].
    - exists [], p2, k2. repeat split; lia.
    - destruct ((r =? r_sub) || (r =? r_add)).
      + exists t, (p2 + 1), (k2 + 1). rewrite len_cons. repeat split; lia.
      + exists (r :: t), p2, k2. repeat split; lia. }
  destruct E3 as (l3 & p3 & k3 & E3 & E3a & E3b). rewrite E3.
  destruct (digits_run l3 p3 k3) as [[l4 p4] k4] eqn:E4.
  apply digits_run_spec in E4. unfold adv; simpl. lia.
Qed.

Lemma read_rune_cons_full : forall r t pos line col,
  read_rune {| c_rest := r :: t; c_pos := pos; c_line := line; c_col := col |} =
  (r, {| c_rest := t; c_pos := pos + 1; c_line := (if r =? r_lf then line + 1 else line);
         c_col := (if r =? r_lf then 1 else col + 1) |}).
Proof. intros. unfold read_rune. simpl. destruct (r =? r_lf); reflexivity. Qed.

(* ---- Read: stays inside the input, literal range well-formed, progress unless EOF ---- *)
Lemma read_spec : forall L c0 t c', L < two32 -> cur_ok L c0 -> read c0 = (t, c') ->
  cur_ok L c' /\ c_pos c0 <= t_start t /\ t_start t <= t_end t /\ t_end t <= c_pos c' /\
  (kind_eqb (t_kind t) KEof = false -> c_pos c0 < c_pos c').
Proof.
  intros L c0 t c' HL H0 H. unfold read in H.
  pose proof (skip_ws_spec (c_rest c0) (c_pos c0) (c_line c0) (c_col c0)) as Hs. cbv zeta in Hs.
  remember (skip_ws (c_rest c0) (c_pos c0) (c_line c0) (c_col c0)) as c eqn:Ec. clear Ec.
  destruct Hs as [Hs1 Hs2]. unfold cur_ok in H0.
  destruct c as [rest pos line col]. cbn [c_pos c_line c_col c_rest] in *.
  assert (HposL : pos + len rest = L) by lia.
  destruct rest as [|r rt].
  { (* true end of input: the EOF token *)
    unfold read_rune in H. cbn in H. inj H. unfold cur_ok. cbn. rewrite len_nil in *.
    rewrite !u32_id by lia. repeat split; try lia; try (intro Hk; discriminate Hk). }
  rewrite read_rune_cons_full in H. rewrite len_cons in HposL.
  set (line1 := if r =? r_lf then line + 1 else line) in *.
  set (col1 := if r =? r_lf then 1 else col + 1) in *. clearbody line1 col1.
  destruct (single_kind r) as [k|] eqn:Hk.
  { inj H. unfold cur_ok. cbn. rewrite !u32_id by lia. repeat split; lia. }
  destruct (r =? r_hash).
  { (* comment *)
    cbn [c_pos c_rest c_line c_col here] in H.
    Show. Abort.
