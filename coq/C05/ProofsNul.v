(* C05: since c05_fix_rt-nul-in-string a NUL byte ends the input for every reader of the lexer, not
   only between tokens: whatever follows the first NUL byte has no influence on the token stream
   (kinds, literal ranges, line/column positions). *)
From Gv Require Import lib.Bytes lib.Gql C05.Lex C05.Parse C05.ProofsLex.
From Coq Require Import Lia ZifyN ZifyNat ZifyBool.
Open Scope N_scope.

(* the cursor [c] with  NUL :: b  appended to what it still has to read *)
Definition ext (b : bytes) (c : cur) : cur :=
  {| c_rest := c_rest c ++ 0 :: b; c_pos := c_pos c; c_line := c_line c; c_col := c_col c |}.

Section Nul.
Variable b : bytes.
Notation "l +++" := (l ++ 0 :: b) (at level 30).

Lemma skip_ws_nul : forall l pos line col, skip_ws (l +++) pos line col = ext b (skip_ws l pos line col).
Proof.
  induction l as [|r t IH]; intros pos line col; [reflexivity|].
  cbn [app skip_ws]. destruct (is_ws r); [|reflexivity].
  destruct (r =? r_lf); apply IH.
Qed.

Lemma ident_run_nul : forall l pos col,
  ident_run (l +++) pos col = let '(l', p', k') := ident_run l pos col in (l' +++, p', k').
Proof.
  induction l as [|r t IH]; intros pos col; [reflexivity|].
  cbn [app ident_run]. destruct (is_ident_char r); [apply IH|reflexivity].
Qed.
Lemma digits_run_nul : forall l pos col,
  digits_run (l +++) pos col = let '(l', p', k') := digits_run l pos col in (l' +++, p', k').
Proof.
  induction l as [|r t IH]; intros pos col; [reflexivity|].
  cbn [app digits_run]. destruct (is_digit r); [apply IH|reflexivity].
Qed.

Lemma peek_nonws_nul : forall l, peek_nonws (l +++) = peek_nonws l.
Proof. induction l as [|r t IH]; [reflexivity|]. cbn [app peek_nonws]. destruct (is_ws r); [exact IH|reflexivity]. Qed.

Lemma read_rune_ext : forall r t pos line col, (r =? 0) = false ->
  read_rune {| c_rest := (r :: t) +++; c_pos := pos; c_line := line; c_col := col |} =
  (r, ext b (snd (read_rune {| c_rest := r :: t; c_pos := pos; c_line := line; c_col := col |}))).
Proof.
  intros r t pos line col H0. cbn [app]. rewrite (read_rune_cons_full _ _ _ _ _ H0).
  rewrite (read_rune_cons _ _ _ _ _ H0). reflexivity.
Qed.

Lemma read_rune_nul_ext : forall r t pos line col, (r =? 0) = true ->
  read_rune {| c_rest := (r :: t) +++; c_pos := pos; c_line := line; c_col := col |} =
  (0, ext b {| c_rest := r :: t; c_pos := pos; c_line := line; c_col := col |}).
Proof. intros r t pos line col H0. cbn [app]. rewrite (read_rune_nul _ _ _ _ _ H0). reflexivity. Qed.

Lemma comment_loop_nul : forall l pos line col e,
  comment_loop (l +++) pos line col e = let '(c, e') := comment_loop l pos line col e in (ext b c, e').
Proof.
  induction l as [|r t IH]; intros pos line col e.
  - cbn [app comment_loop]. rewrite (read_rune_nul 0 b pos line col eq_refl). reflexivity.
  - cbn [app comment_loop]. destruct (r =? 0) eqn:H0.
    { rewrite (read_rune_nul _ _ _ _ _ H0). rewrite (read_rune_nul _ _ _ _ _ H0). reflexivity. }
    rewrite (read_rune_cons _ _ _ _ _ H0). rewrite (read_rune_cons _ _ _ _ _ H0).
    cbn [c_pos c_line c_col].
    destruct ((r =? r_cr) || (r =? r_lf)).
    + rewrite peek_nonws_nul. destruct (peek_nonws t =? r_hash); [apply IH|reflexivity].
    + apply IH.
Qed.

Lemma sstring_loop_nul : forall l pos line col esc,
  sstring_loop (l +++) pos line col esc = let '(c, e) := sstring_loop l pos line col esc in (ext b c, e).
Proof.
  induction l as [|r t IH]; intros pos line col esc.
  - cbn [app sstring_loop]. rewrite (read_rune_nul 0 b pos line col eq_refl). reflexivity.
  - cbn [app sstring_loop]. destruct (r =? 0) eqn:H0.
    { rewrite (read_rune_nul _ _ _ _ _ H0). rewrite (read_rune_nul _ _ _ _ _ H0). cbn [snd c_pos c_line c_col].
      destruct ((r =? r_space) || (r =? r_tab)) eqn:Es; [apply N.eqb_eq in H0; subst; discriminate Es|]. reflexivity. }
    rewrite (read_rune_cons _ _ _ _ _ H0). rewrite (read_rune_cons _ _ _ _ _ H0).
    cbn [c_pos c_line c_col].
    destruct ((r =? r_space) || (r =? r_tab)); [apply IH|].
    destruct ((r =? r_quote) || (r =? r_cr) || (r =? r_lf)).
    + destruct esc; [apply IH|reflexivity].
    + destruct (r =? r_backslash); apply IH.
Qed.

Lemma bstring_loop_nul : forall l pos line col esc qc ws reached lead,
  bstring_loop (l +++) pos line col esc qc ws reached lead =
  let '(c, e, lead', ws') := bstring_loop l pos line col esc qc ws reached lead in (ext b c, e, lead', ws').
Proof.
  induction l as [|r t IH]; intros pos line col esc qc ws reached lead.
  - cbn [app bstring_loop]. rewrite (read_rune_nul 0 b pos line col eq_refl). cbn [snd c_pos c_line c_col].
    destruct (quotes_content qc 0 ws reached lead) as [[ws1 reached1] lead1]. reflexivity.
  - cbn [app bstring_loop]. destruct (r =? 0) eqn:H0.
    { rewrite (read_rune_nul _ _ _ _ _ H0). rewrite (read_rune_nul _ _ _ _ _ H0). cbn [snd c_pos c_line c_col].
      destruct (quotes_content qc r ws reached lead) as [[ws1 reached1] lead1].
      destruct ((r =? r_space) || (r =? r_tab) || (r =? r_cr) || (r =? r_lf)) eqn:Es; [apply N.eqb_eq in H0; subst; discriminate Es|].
      reflexivity. }
    rewrite (read_rune_cons _ _ _ _ _ H0). rewrite (read_rune_cons _ _ _ _ _ H0).
    cbn [c_pos c_line c_col].
    destruct (quotes_content qc r ws reached lead) as [[ws1 reached1] lead1].
    destruct ((r =? r_space) || (r =? r_tab) || (r =? r_cr) || (r =? r_lf)); [apply IH|].
    destruct (r =? r_quote).
    + destruct esc; [apply IH|]. destruct (qc + 1 =? 3); [reflexivity|apply IH].
    + destruct (r =? r_backslash); [apply IH|]. destruct reached1; apply IH.
Qed.

Lemma read_float_nul : forall h c, read_float h (ext b c) = ext b (read_float h c).
Proof.
  intros h c. unfold read_float. cbn [ext c_rest c_pos c_col c_line].
  rewrite digits_run_nul. destruct (digits_run (c_rest c) (c_pos c) (c_col c)) as [[l1 p1] k1].
  destruct h; [reflexivity|].
  destruct l1 as [|r t].
  - reflexivity.
  - cbn [app]. destruct ((r =? r_exp_lower) || (r =? r_exp_upper)).
    + destruct t as [|r' t'].
      * reflexivity.
      * cbn [app]. destruct ((r' =? r_sub) || (r' =? r_add)).
        -- rewrite digits_run_nul. destruct (digits_run t' (p1 + 1 + 1) (k1 + 1 + 1)) as [[l4 p4] k4]. reflexivity.
        -- change (r' :: t' ++ 0 :: b) with ((r' :: t') ++ 0 :: b). rewrite digits_run_nul.
           destruct (digits_run (r' :: t') (p1 + 1) (k1 + 1)) as [[l4 p4] k4]. reflexivity.
    + destruct ((r =? r_sub) || (r =? r_add)).
      * rewrite digits_run_nul. destruct (digits_run t (p1 + 1) (k1 + 1)) as [[l4 p4] k4]. reflexivity.
      * change (r :: t ++ 0 :: b) with ((r :: t) ++ 0 :: b). rewrite digits_run_nul.
        destruct (digits_run (r :: t) p1 k1) as [[l4 p4] k4]. reflexivity.
Qed.

Lemma peek_two_nul : forall c x y, (x =? 0) = false -> (y =? 0) = false -> peek_two (ext b c) x y = peek_two c x y.
Proof.
  intros c x y Hx Hy. unfold peek_two. cbn [ext c_rest].
  destruct (c_rest c) as [|u [|v t]]; cbn [app].
  - destruct b as [|w b']; [reflexivity|]. assert (E : (0 =? x) = false) by lia. rewrite E. reflexivity.
  - assert (E : (0 =? y) = false) by lia. rewrite E. apply Bool.andb_false_r.
  - reflexivity.
Qed.
Ltac rw H := let HH := fresh "HH" in pose proof H as HH; unfold bytes, byte in HH |- *; rewrite !HH; clear HH.
(* Lexer.Read *)
Lemma read_nul : forall c, read (ext b c) = let '(t, c') := read c in (t, ext b c').
Proof.
  intros c0. unfold read. cbn [ext c_rest c_pos c_line c_col].
  rewrite skip_ws_nul. unfold bytes, byte in *.
  destruct (skip_ws (c_rest c0) (c_pos c0) (c_line c0) (c_col c0)) as [rest pos line col].
  cbn [ext c_rest c_pos c_line c_col].
  destruct rest as [|r rt].
  { (* the end of the input and a NUL byte read the same *)
    unfold ext. cbn [c_rest c_pos c_line c_col app]. rewrite (read_rune_nul 0 b pos line col eq_refl). reflexivity. }
  unfold ext at 1. cbn [c_rest c_pos c_line c_col].
  destruct (r =? 0) eqn:H0.
  { rewrite (read_rune_nul_ext _ _ _ _ _ H0). rewrite (read_rune_nul _ _ _ _ _ H0). reflexivity. }
  rw (read_rune_ext r rt pos line col H0). rw (read_rune_cons_full r rt pos line col H0). cbn [snd].
  set (line1 := if r =? r_lf then line + 1 else line).
  set (col1 := if r =? r_lf then 1 else col + 1).
  set (c1 := {| c_rest := rt; c_pos := pos + 1; c_line := line1; c_col := col1 |}).
  destruct (single_kind r); [reflexivity|].
  destruct (r =? r_hash).
  { cbn [ext c_rest c_pos c_line c_col c1]. rewrite comment_loop_nul. change (here (ext b c1)) with (here c1).
    destruct (comment_loop rt (pos + 1) line1 col1 (here c1)) as [c2 e]. reflexivity. }
  destruct (r =? r_quote).
  { rewrite (peek_two_nul c1 r_quote r_quote eq_refl eq_refl).
    destruct (peek_two c1 r_quote r_quote) eqn:Hp.
    - unfold peek_two in Hp. cbn [c1 c_rest] in Hp. destruct rt as [|x [|y rt']]; try discriminate Hp.
      cbn [ext c_rest c_pos c_line c_col c1 adv skipn app].
      rewrite bstring_loop_nul.
      destruct (bstring_loop rt' (pos + 1 + 2) line1 (col1 + 2) false 0 0 false 0) as [[[c3 [[en le] ce]] lead] ws].
      reflexivity.
    - cbn [ext c_rest c_pos c_line c_col c1]. rewrite sstring_loop_nul.
      destruct (sstring_loop rt (pos + 1) line1 col1 false) as [c2 e]. reflexivity. }
  destruct (r =? r_dot).
  { rewrite (peek_two_nul c1 r_dot r_dot eq_refl eq_refl).
    destruct (peek_two c1 r_dot r_dot) eqn:Hp; [|reflexivity].
    unfold peek_two in Hp. cbn [c1 c_rest] in Hp. destruct rt as [|x [|y rt']]; try discriminate Hp.
    reflexivity. }
  destruct (is_digit r).
  { cbn [ext c_rest c_pos c_line c_col c1]. rewrite digits_run_nul.
    destruct (digits_run rt (pos + 1) col1) as [[l1 p1] k1].
    unfold adv, peek. cbn [ext c_rest c_pos c_line c_col].
    destruct l1 as [|r2 l1'].
    - reflexivity.
    - cbn [app tl].
      match goal with |- context [(r2 =? r_dot) || ?h] => destruct ((r2 =? r_dot) || h) eqn:Hf end.
      + match goal with |- context [read_float ?h {| c_rest := l1' ++ 0 :: b; c_pos := ?p; c_line := ?l; c_col := ?k |}] =>
          change {| c_rest := l1' ++ 0 :: b; c_pos := p; c_line := l; c_col := k |}
            with (ext b {| c_rest := l1'; c_pos := p; c_line := l; c_col := k |}) end.
        rewrite read_float_nul. reflexivity.
      + reflexivity. }
  cbn [ext c_rest c_pos c_line c_col c1]. rewrite ident_run_nul.
  destruct (ident_run rt (pos + 1) col1) as [[l1 p1] k1]. reflexivity.
Qed.
End Nul.

(* Tokenize: enough fuel for the longer input is enough for the shorter one, and the tokens are the same *)
Lemma tokenize_fuel_nul : forall b fuel c,
  tokenize_fuel fuel (ext b c) = tokenize_fuel fuel c.
Proof.
  intros b. induction fuel as [|f IH]; intros c; [reflexivity|].
  cbn [tokenize_fuel]. rewrite read_nul. destruct (read c) as [t c'].
  destruct (kind_eqb (t_kind t) KEof); [reflexivity|]. rewrite IH. reflexivity.
Qed.

(* fuel beyond length+1 changes nothing *)
Lemma tokenize_fuel_more : forall L, L < two32 -> forall fuel c extra,
  cur_ok L c -> (length (c_rest c) < fuel)%nat -> tokenize_fuel (fuel + extra) c = tokenize_fuel fuel c.
Proof.
  intros L HL. induction fuel as [|f IH]; intros c extra Hc Hf; [lia|].
  cbn [tokenize_fuel Nat.add]. destruct (read c) as [t c'] eqn:Hr.
  destruct (read_spec L c t c' HL Hc Hr) as (Hc' & _ & _ & _ & H4).
  destruct (kind_eqb (t_kind t) KEof) eqn:Hk; [reflexivity|].
  specialize (H4 eq_refl).
  rewrite IH; [reflexivity|exact Hc'|unfold cur_ok, len in *; lia].
Qed.

Theorem nul_ends_input_proof : forall a b, len (a ++ 0 :: b) < two32 -> tokenize (a ++ 0 :: b) = tokenize a.
Proof.
  intros a b Hlen. unfold tokenize.
  change (init (a ++ 0 :: b)) with (ext b (init a)). rewrite tokenize_fuel_nul.
  assert (Ha : len a < two32). { unfold len in *. rewrite app_length in Hlen. simpl in Hlen. unfold bytes, byte in *. lia. }
  unfold bytes, byte in *.
  assert (E : S (length (a ++ 0 :: b)) = (S (length a) + S (length b))%nat) by (rewrite app_length; simpl; lia).
  rewrite E.
  apply (tokenize_fuel_more (len a) Ha).
  - unfold cur_ok, init, len; simpl. lia.
  - simpl. apply le_n.
Qed.

Example nul_ends_input_ex :
  (* {a(x:"a NUL )}  lexes as  {a(x:"a   (an unterminated string, then the end) *)
  tokenize [123;97;40;120;58;34;97;0;41;125] = tokenize [123;97;40;120;58;34;97]
  /\ exists ts, tokenize [123;97;40;120;58;34;97] = Some ts /\ length ts = 6%nat.
Proof. split; [vm_compute; reflexivity|]. eexists. split; vm_compute; reflexivity. Qed.


(* the same for the literals the parser reads off the tokens, hence for the whole pipeline *)
Lemma slice_app_l : forall (a x : bytes) s e, e <= len a -> slice (a ++ x) s e = slice a s e.
Proof.
  intros a x s e He. unfold slice.
  destruct (N.leb_spec s e) as [Hse|Hse].
  - rewrite skipn_app. rewrite firstn_app.
    assert (E : (N.to_nat (e - s) - length (skipn (N.to_nat s) a) = 0)%nat).
    { rewrite skipn_length. unfold len in He. lia. }
    rewrite E. cbn [firstn]. apply app_nil_r.
  - replace (N.to_nat (e - s)) with O by lia. reflexivity.
Qed.

Theorem nul_ends_input_parse_proof : forall a b, len (a ++ 0 :: b) < two32 -> parse_bytes (a ++ 0 :: b) = parse_bytes a.
Proof.
  intros a b Hlen. unfold parse_bytes, lex. rewrite (nul_ends_input_proof a b Hlen).
  assert (Ha : len a < two32). { unfold len in *. rewrite app_length in Hlen. simpl in Hlen. unfold bytes, byte in *. lia. }
  destruct (tokenize a) as [ts|] eqn:Et; [|reflexivity].
  pose proof (tokens_in_range_proof a ts Ha Et) as Hr.
  replace (map (ptoken_of (a ++ 0 :: b)) ts) with (map (ptoken_of a) ts); [reflexivity|].
  apply map_ext_in. intros t Hin. rewrite Forall_forall in Hr. destruct (Hr t Hin) as [_ He].
  unfold ptoken_of, tok_lit. rewrite slice_app_l by exact He. reflexivity.
Qed.
