(* C05: the depth of an operation with its fragment spreads expanded is bounded by the cumulative depth
   of the document (the sum of the depths of all definitions) -- the quantity the depth limit bounds. *)
From Gv Require Import lib.Bytes lib.Gql C05.Lex C05.Parse C05.Limits C05.Spec C05.ProofsLimits.
From Coq Require Import ZArith Lia.
Open Scope Z_scope.

Section selection_induction.
  Variable P : selection -> Prop.
  Hypothesis Hf : forall a n ar d ss, Forall P ss -> P (SField a n ar d ss).
  Hypothesis Hi : forall tc d ss, Forall P ss -> P (SInline tc d ss).
  Hypothesis Hs : forall fr d, P (SSpread fr d).
  Fixpoint selection_ind2 (s : selection) : P s :=
    match s with
    | SField a n ar d ss =>
      Hf a n ar d ss ((fix go (l : list selection) : Forall P l :=
                         match l with [] => Forall_nil P | x :: r => Forall_cons x (selection_ind2 x) (go r) end) ss)
    | SInline tc d ss =>
      Hi tc d ss ((fix go (l : list selection) : Forall P l :=
                     match l with [] => Forall_nil P | x :: r => Forall_cons x (selection_ind2 x) (go r) end) ss)
    | SSpread fr d => Hs fr d
    end.
End selection_induction.

Fixpoint fsum (l : list fragment) : Z :=
  match l with [] => 0 | f :: r => selset_depth (fr_sels f) + fsum r end.
Lemma fsum_nonneg : forall l, 0 <= fsum l.
Proof. induction l as [|f r IH]; simpl; [lia|]. pose proof (selset_depth_nonneg (fr_sels f)). lia. Qed.

Lemma take_frag_sum : forall n l g l', take_frag n l = Some (g, l') -> fsum l = selset_depth (fr_sels g) + fsum l'.
Proof.
  induction l as [|f r IH]; intros g l' H; simpl in H; [discriminate H|].
  destruct (bytes_eqb n (fr_name f)).
  - inversion H; subst. reflexivity.
  - destruct (take_frag n r) as [[g1 r1]|] eqn:E; [|discriminate H].
    assert (Eg : g1 = g /\ f :: r1 = l') by (inversion H; auto). destruct Eg as [<- <-].
    simpl. rewrite (IH g1 r1 eq_refl). lia.
Qed.

Lemma sub_with_field : forall e a n ar d ss, sub_with e (SField a n ar d ss) = match ss with [] => 0 | _ => 1 + max_sub e ss end.
Proof.
  intros. destruct ss as [|x r]; [reflexivity|].
  change (sub_with e (SField a n ar d (x :: r))) with
    (1 + (fix go (l : list selection) : Z := match l with [] => 0 | y :: t => Z.max (sub_with e y) (go t) end) (x :: r)).
  f_equal. generalize (x :: r). induction l as [|y t IH]; [reflexivity|]. simpl max_sub. rewrite <- IH. reflexivity.
Qed.
Lemma sub_with_inline : forall e tc d ss, sub_with e (SInline tc d ss) = match ss with [] => 0 | _ => 1 + max_sub e ss end.
Proof.
  intros. destruct ss as [|x r]; [reflexivity|].
  change (sub_with e (SInline tc d (x :: r))) with
    (1 + (fix go (l : list selection) : Z := match l with [] => 0 | y :: t => Z.max (sub_with e y) (go t) end) (x :: r)).
  f_equal. generalize (x :: r). induction l as [|y t IH]; [reflexivity|]. simpl max_sub. rewrite <- IH. reflexivity.
Qed.

Lemma maxdepth_le_set : forall l, sels_maxdepth l <= selset_depth l.
Proof. intros. unfold selset_depth. destruct l; [simpl; lia|lia]. Qed.

(* if every spread expands to at most [B], everything below a selection is at most its own depth + B *)
Lemma sub_with_bound : forall e B, 0 <= B -> (forall fr, e fr <= B) ->
  forall s, sub_with e s <= sel_depth s + B.
Proof.
  intros e B HB He. apply selection_ind2.
  - intros a n ar d ss Hall. rewrite sub_with_field, sel_depth_field. unfold selset_depth.
    destruct ss as [|x r]; [lia|].
    assert (Hm : max_sub e (x :: r) <= sels_maxdepth (x :: r) + B).
    { induction Hall as [|y l Hy Hl IH]; simpl; [lia|]. lia. }
    lia.
  - intros tc d ss Hall. rewrite sub_with_inline, sel_depth_inline. unfold selset_depth.
    destruct ss as [|x r]; [lia|].
    assert (Hm : max_sub e (x :: r) <= sels_maxdepth (x :: r) + B).
    { induction Hall as [|y l Hy Hl IH]; simpl; [lia|]. lia. }
    lia.
  - intros fr d. simpl. specialize (He fr). lia.
Qed.
Lemma max_sub_bound : forall e B, 0 <= B -> (forall fr, e fr <= B) ->
  forall l, max_sub e l <= sels_maxdepth l + B.
Proof.
  intros e B HB He. induction l as [|x r IH]; simpl; [lia|].
  pose proof (sub_with_bound e B HB He x). lia.
Qed.

Lemma below_inlined_bound : forall fuel avail sels,
  below_inlined fuel avail sels <= sels_maxdepth sels + fsum avail.
Proof.
  induction fuel as [|f IH]; intros avail sels; pose proof (fsum_nonneg avail) as Hn.
  - simpl. apply max_sub_bound; [exact Hn|intros; exact Hn].
  - cbn [below_inlined]. apply max_sub_bound; [exact Hn|]. intro fr.
    destruct (take_frag fr avail) as [[fg avail']|] eqn:E; [|exact Hn].
    pose proof (take_frag_sum _ _ _ _ E) as Hs. pose proof (IH avail' (fr_sels fg)).
    pose proof (maxdepth_le_set (fr_sels fg)). lia.
Qed.

(* the sum over the document covers an operation and all the fragments *)
Lemma depth_sum_split : forall d, fsum (doc_frags d) <= depth_sum d.
Proof.
  induction d as [|x r IH]; simpl; [lia|]. destruct x as [o|f]; simpl.
  - pose proof (selset_depth_nonneg (op_sels o)). lia.
  - lia.
Qed.
Lemma depth_sum_op : forall d o, In (DOp o) d -> selset_depth (op_sels o) + fsum (doc_frags d) <= depth_sum d.
Proof.
  induction d as [|x r IH]; intros o Hin; [contradiction|]. destruct Hin as [->|Hin].
  - simpl. pose proof (depth_sum_split r). lia.
  - specialize (IH o Hin). simpl. destruct x as [o'|f]; simpl.
    + pose proof (selset_depth_nonneg (op_sels o')). lia.
    + lia.
Qed.

Theorem depth_inlined_le_sum_proof : forall d o, In (DOp o) d -> depth_inlined d o <= depth_sum d.
Proof.
  intros d o Hin. unfold depth_inlined. pose proof (depth_sum_op d o Hin) as Hs.
  pose proof (fsum_nonneg (doc_frags d)).
  destruct (op_sels o) as [|x r] eqn:E; [pose proof (depth_sum_nonneg_aux := selset_depth_nonneg ([] : list selection)); simpl in *; lia|].
  pose proof (below_inlined_bound (length (doc_frags d)) (doc_frags d) (x :: r)).
  unfold selset_depth in Hs. lia.
Qed.

Lemma max_depth_inlined_le : forall d defs, (forall x, In x defs -> In x d) -> max_depth_inlined d defs <= depth_sum d.
Proof.
  intros d. induction defs as [|x r IH]; intro Hsub; simpl.
  - clear. induction d as [|x r IH]; simpl; [lia|]. pose proof (selset_depth_nonneg (def_sels x)). lia.
  - assert (Hr : max_depth_inlined d r <= depth_sum d) by (apply IH; intros y Hy; apply Hsub; right; exact Hy).
    destruct x as [o|f]; [|exact Hr].
    pose proof (depth_inlined_le_sum_proof d o (Hsub _ (or_introl eq_refl))). lia.
Qed.
