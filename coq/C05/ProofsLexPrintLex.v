(* C05, lexical half of the round trip, lexer side (1): the scanners of Lexer.Read split their input
   into the consumed prefix and the rest, and re-scanning the consumed prefix in front of any
   delimiter consumes exactly the same bytes. *)
From Gv Require Import lib.Bytes lib.Gql C05.Lex C05.Parse C05.Print C05.Tokens C05.ProofsLex C05.ProofsLexPrintDefs.
From Coq Require Import Lia ZifyN ZifyNat ZifyBool.
Open Scope N_scope.

(* ---- delimiters ---- *)
Lemma delim_cases : forall c, delim c = true -> In c [32;9;13;10;44;124;61;64;58;33;40;41;123;125;91;93;38;36].
Proof.
  intros c H. unfold delim in H. apply orb_prop in H. destruct H as [H|H].
  - unfold is_ws in H. apply existsb_exists in H. destruct H as (x & Hin & He). apply N.eqb_eq in He. subst x.
    unfold ws_table in Hin. simpl in Hin. simpl. tauto.
  - apply existsb_exists in H. destruct H as (x & Hin & He). apply N.eqb_eq in He. subst x.
    unfold delim_table in Hin. simpl in Hin. simpl. tauto.
Qed.

Lemma delim_props : forall c, delim c = true ->
  is_ident_char c = false /\ is_digit c = false /\ (c =? 46) = false /\ (c =? 101) = false /\ (c =? 69) = false
  /\ (c =? 45) = false /\ (c =? 43) = false /\ (c =? 34) = false /\ (c =? 0) = false.
Proof.
  intros c H. apply delim_cases in H. simpl in H.
  repeat (destruct H as [H|H]; [subst c; repeat split; reflexivity|]). contradiction.
Qed.

(* head of a list does not satisfy p (or the list is empty) *)
Definition hdn (p : byte -> bool) (l : bytes) : Prop := match l with [] => True | c :: _ => p c = false end.
Lemma hdn_transfer : forall p y l r, hdn p (y ++ l) -> hdn p r -> hdn p (y ++ r).
Proof. intros p y l r H1 H2. destruct y; [exact H2|exact H1]. Qed.

Lemma len_app : forall a b : bytes, len (a ++ b) = len a + len b.
Proof. intros. unfold len. rewrite app_length. lia. Qed.

(* ---- white space ---- *)
Lemma skip_ws_split : forall l pos line col,
  exists w, l = w ++ c_rest (skip_ws l pos line col) /\ forallb is_ws w = true
    /\ c_pos (skip_ws l pos line col) = pos + len w /\ hdn is_ws (c_rest (skip_ws l pos line col)).
Proof.
  induction l as [|r t IH]; intros pos line col.
  - exists []. cbn [skip_ws c_rest c_pos app forallb hdn]. rewrite len_nil. repeat split. lia.
  - cbn [skip_ws]. destruct (is_ws r) eqn:E.
    + destruct (r =? r_lf).
      * destruct (IH (pos + 1) (line + 1) 1) as (w & H1 & H2 & H3 & H4).
        exists (r :: w). cbn [app forallb]. rewrite E, H2. rewrite <- H1. repeat split; [|exact H4].
        rewrite H3, len_cons. lia.
      * destruct (IH (pos + 1) line (col + 1)) as (w & H1 & H2 & H3 & H4).
        exists (r :: w). cbn [app forallb]. rewrite E, H2. rewrite <- H1. repeat split; [|exact H4].
        rewrite H3, len_cons. lia.
    + exists []. cbn [c_rest c_pos app forallb hdn]. rewrite len_nil. repeat split; [lia|exact E].
Qed.

Lemma skip_ws_nonws : forall r t pos line col, is_ws r = false -> skip_ws (r :: t) pos line col = mkc (r :: t) pos line col.
Proof. intros. cbn [skip_ws]. rewrite H. reflexivity. Qed.

Lemma skip_ws_idem : forall l pos line col,
  let c := skip_ws l pos line col in skip_ws (c_rest c) (c_pos c) (c_line c) (c_col c) = c.
Proof.
  induction l as [|r t IH]; intros pos line col; cbn [skip_ws].
  - reflexivity.
  - destruct (is_ws r) eqn:E.
    + destruct (r =? r_lf); apply IH.
    + cbn [c_rest c_pos c_line c_col skip_ws]. rewrite E. reflexivity.
Qed.

Lemma read_skip : forall c0, read c0 = read (skip_ws (c_rest c0) (c_pos c0) (c_line c0) (c_col c0)).
Proof. intro c0. unfold read at 2. rewrite skip_ws_idem. reflexivity. Qed.

Lemma notws_notlf : forall r, is_ws r = false -> (r =? r_lf) = false.
Proof.
  intros r H. destruct (r =? r_lf) eqn:E; [|reflexivity]. apply N.eqb_eq in E. subst r. discriminate H.
Qed.

(* ---- identifiers, digits ---- *)
Lemma ident_run_split : forall l pos col l' pos' col', ident_run l pos col = (l', pos', col') ->
  exists x, l = x ++ l' /\ forallb is_ident_char x = true /\ pos' = pos + len x /\ col' = col + len x.
Proof.
  induction l as [|r t IH]; intros pos col l' pos' col' H; cbn [ident_run] in H.
  - inj H. exists []. rewrite len_nil. repeat split; lia.
  - destruct (is_ident_char r) eqn:E.
    + apply IH in H. destruct H as (x & -> & H2 & -> & ->). exists (r :: x). cbn [app forallb]. rewrite E, H2, len_cons.
      repeat split; lia.
    + inj H. exists []. rewrite len_nil. repeat split; lia.
Qed.
Lemma ident_run_app : forall x rest pos col, forallb is_ident_char x = true -> hdn is_ident_char rest ->
  ident_run (x ++ rest) pos col = (rest, pos + len x, col + len x).
Proof.
  induction x as [|r x IH]; intros rest pos col Hx Hr.
  - cbn [app]. rewrite len_nil, !N.add_0_r. destruct rest as [|c rest']; [reflexivity|].
    cbn [ident_run]. cbn in Hr. rewrite Hr. reflexivity.
  - cbn [forallb] in Hx. apply andb_prop in Hx. destruct Hx as [H1 H2].
    cbn [app ident_run]. rewrite H1. rewrite IH by assumption. rewrite len_cons. f_equal; [f_equal|]; lia.
Qed.

Lemma digits_run_split : forall l pos col l' pos' col', digits_run l pos col = (l', pos', col') ->
  exists x, l = x ++ l' /\ forallb is_digit x = true /\ pos' = pos + len x /\ col' = col + len x /\ hdn is_digit l'.
Proof.
  induction l as [|r t IH]; intros pos col l' pos' col' H; cbn [digits_run] in H.
  - inj H. exists []. rewrite len_nil. repeat split; lia.
  - destruct (is_digit r) eqn:E.
    + apply IH in H. destruct H as (x & -> & H2 & -> & -> & H5). exists (r :: x). cbn [app forallb]. rewrite E, H2, len_cons.
      repeat split; try lia. exact H5.
    + inj H. exists []. rewrite len_nil. repeat split; try lia. exact E.
Qed.
Lemma digits_run_app : forall x rest pos col, forallb is_digit x = true -> hdn is_digit rest ->
  digits_run (x ++ rest) pos col = (rest, pos + len x, col + len x).
Proof.
  induction x as [|r x IH]; intros rest pos col Hx Hr.
  - cbn [app]. rewrite len_nil, !N.add_0_r. destruct rest as [|c rest']; [reflexivity|].
    cbn [digits_run]. cbn in Hr. rewrite Hr. reflexivity.
  - cbn [forallb] in Hx. apply andb_prop in Hx. destruct Hx as [H1 H2].
    cbn [app digits_run]. rewrite H1. rewrite IH by assumption. rewrite len_cons. f_equal; [f_equal|]; lia.
Qed.

(* ---- readFloat: digits, optional exponent letter, optional sign, digits ---- *)
Definition opt_byte (p : byte -> bool) (l : bytes) (pos col : N) : bytes * N * N :=
  match l with
  | r :: t => if p r then (t, pos + 1, col + 1) else (l, pos, col)
  | [] => (l, pos, col)
  end.
Definition p_exp (r : byte) : bool := (r =? r_exp_lower) || (r =? r_exp_upper).
Definition p_sign (r : byte) : bool := (r =? r_sub) || (r =? r_add).

Lemma read_float_eq : forall h c, read_float h c =
  let '(l1, p1, k1) := digits_run (c_rest c) (c_pos c) (c_col c) in
  if h then adv c l1 p1 k1
  else let '(l2, p2, k2) := opt_byte p_exp l1 p1 k1 in
       let '(l3, p3, k3) := opt_byte p_sign l2 p2 k2 in
       let '(l4, p4, k4) := digits_run l3 p3 k3 in adv c l4 p4 k4.
Proof. reflexivity. Qed.

Lemma opt_byte_split : forall p l pos col l' pos' col', opt_byte p l pos col = (l', pos', col') ->
  exists x, l = x ++ l' /\ pos' = pos + len x /\ col' = col + len x
    /\ ((x = [] /\ hdn p l') \/ exists r, x = [r] /\ p r = true).
Proof.
  intros p l pos col l' pos' col' H. unfold opt_byte in H. destruct l as [|r t].
  - inj H. exists []. rewrite len_nil. repeat split; try lia. left. split; [reflexivity|exact I].
  - destruct (p r) eqn:E.
    + inj H. exists [r]. unfold len. cbn. repeat split; try lia. right. exists r. split; [reflexivity|exact E].
    + inj H. exists []. rewrite len_nil. repeat split; try lia. left. split; [reflexivity|exact E].
Qed.
Lemma opt_byte_nil : forall p rest pos col, hdn p rest -> opt_byte p rest pos col = (rest, pos, col).
Proof. intros p rest pos col H. unfold opt_byte. destruct rest; [reflexivity|]. cbn in H. rewrite H. reflexivity. Qed.
Lemma opt_byte_one : forall p r rest pos col, p r = true -> opt_byte p (r :: rest) pos col = (rest, pos + 1, col + 1).
Proof. intros p r rest pos col H. unfold opt_byte. rewrite H. reflexivity. Qed.

Lemma sd_hdn : forall rest, sd rest = true ->
  hdn is_ident_char rest /\ hdn is_digit rest /\ hdn p_exp rest /\ hdn p_sign rest.
Proof.
  intros rest H. destruct rest as [|c r]; [repeat split|]. cbn in H. apply delim_props in H.
  destruct H as (H1 & H2 & H3 & H4 & H5 & H6 & H7 & H8 & H9). cbn. unfold p_exp, p_sign, r_exp_lower, r_exp_upper, r_sub, r_add.
  rewrite H1, H2, H4, H5, H6, H7. repeat split.
Qed.

Lemma read_float_split : forall h l pos line col,
  exists x l',
    l = x ++ l' /\ read_float h (mkc l pos line col) = mkc l' (pos + len x) line (col + len x)
    /\ forall rest pos2 line2 col2, sd rest = true ->
         read_float h (mkc (x ++ rest) pos2 line2 col2) = mkc rest (pos2 + len x) line2 (col2 + len x).
Proof.
  intros h l pos line col. rewrite read_float_eq. cbn [mkc c_rest c_pos c_col].
  destruct (digits_run l pos col) as [[l1 p1] k1] eqn:E1.
  apply digits_run_split in E1. destruct E1 as (x1 & -> & Hx1 & -> & -> & Hn1).
  destruct h.
  - exists x1, l1. split; [reflexivity|]. split; [reflexivity|].
    intros rest pos2 line2 col2 Hsd. rewrite read_float_eq. cbn [mkc c_rest c_pos c_col].
    apply sd_hdn in Hsd. destruct Hsd as (_ & Hd & _ & _).
    rewrite digits_run_app by assumption. reflexivity.
  - destruct (opt_byte p_exp l1 (pos + len x1) (col + len x1)) as [[l2 p2] k2] eqn:E2.
    apply opt_byte_split in E2. destruct E2 as (x2 & -> & -> & -> & Hx2).
    destruct (opt_byte p_sign l2 (pos + len x1 + len x2) (col + len x1 + len x2)) as [[l3 p3] k3] eqn:E3.
    apply opt_byte_split in E3. destruct E3 as (x3 & -> & -> & -> & Hx3).
    destruct (digits_run l3 (pos + len x1 + len x2 + len x3) (col + len x1 + len x2 + len x3)) as [[l4 p4] k4] eqn:E4.
    apply digits_run_split in E4. destruct E4 as (x4 & -> & Hx4 & -> & -> & Hn4).
    exists (x1 ++ x2 ++ x3 ++ x4), l4. split; [rewrite <- !app_assoc; reflexivity|].
    split; [unfold adv, mkc; cbn [c_line]; rewrite !len_app; f_equal; lia|].
    intros rest pos2 line2 col2 Hsd. rewrite read_float_eq. cbn [mkc c_rest c_pos c_col].
    apply sd_hdn in Hsd. destruct Hsd as (_ & Hd & He & Hs).
    rewrite <- !app_assoc.
    rewrite (digits_run_app x1 (x2 ++ x3 ++ x4 ++ rest)); [|assumption|].
    2:{ replace (x2 ++ x3 ++ x4 ++ rest) with ((x2 ++ x3 ++ x4) ++ rest) by (rewrite <- !app_assoc; reflexivity).
        eapply hdn_transfer; [|exact Hd]. rewrite <- !app_assoc. exact Hn1. }
    assert (P2 : opt_byte p_exp (x2 ++ x3 ++ x4 ++ rest) (pos2 + len x1) (col2 + len x1) =
                 (x3 ++ x4 ++ rest, pos2 + len x1 + len x2, col2 + len x1 + len x2)).
    { destruct Hx2 as [[-> Hh]|(r & -> & Hr)].
      - cbn [app]. rewrite len_nil, !N.add_0_r. apply opt_byte_nil.
        replace (x3 ++ x4 ++ rest) with ((x3 ++ x4) ++ rest) by (rewrite <- !app_assoc; reflexivity).
        eapply hdn_transfer; [|exact He]. rewrite <- !app_assoc. exact Hh.
      - cbn [app]. rewrite (opt_byte_one _ _ _ _ _ Hr). unfold len. cbn. reflexivity. }
    rewrite P2.
    assert (P3 : opt_byte p_sign (x3 ++ x4 ++ rest) (pos2 + len x1 + len x2) (col2 + len x1 + len x2) =
                 (x4 ++ rest, pos2 + len x1 + len x2 + len x3, col2 + len x1 + len x2 + len x3)).
    { destruct Hx3 as [[-> Hh]|(r & -> & Hr)].
      - cbn [app]. rewrite len_nil, !N.add_0_r. apply opt_byte_nil.
        eapply hdn_transfer; [exact Hh|exact Hs].
      - cbn [app]. rewrite (opt_byte_one _ _ _ _ _ Hr). unfold len. cbn. reflexivity. }
    rewrite P3.
    rewrite (digits_run_app x4 rest) by assumption.
    unfold adv, mkc. cbn [c_line]. rewrite !len_app. f_equal; lia.
Qed.

(* ---- single-line strings ---- *)
Lemma sstring_split : forall l pos line col esc c' en le ce x xs,
  pos + len l < two32 ->
  sstring_loop l pos line col esc = (c', (en, le, ce)) ->
  c_rest c' = x :: xs -> (x =? 0) = false ->
  exists body term,
    l = body ++ term :: c_rest c' /\ en = pos + len body /\ c_pos c' = pos + len body + 1
    /\ (esc = false -> hdn (fun b => b =? 34) body)
    /\ forall rest pos2 line2 col2, pos2 + len body + 1 + len rest < two32 ->
         exists line' col',
           sstring_loop (body ++ 34 :: rest) pos2 line2 col2 esc =
           (mkc rest (pos2 + len body + 1) line' col', (pos2 + len body, line', col')).
Proof.
  induction l as [|r t IH]; intros pos line col esc c' en le ce x xs HL H Hx Hx0.
  - cbn [sstring_loop] in H. inj H. cbn in Hx. discriminate Hx.
  - cbn [sstring_loop] in H. rewrite len_cons in HL.
    destruct (r =? 0) eqn:E0.
    { rewrite (read_rune_nul _ _ _ _ _ E0) in H. cbn [snd c_pos c_rest c_line c_col] in H.
      assert (Hsp : (r =? r_space) || (r =? r_tab) = false) by (apply N.eqb_eq in E0; subst; reflexivity).
      rewrite Hsp in H. inj H. cbn in Hx. inj Hx. rewrite E0 in Hx0. discriminate Hx0. }
    rewrite (read_rune_cons _ _ _ _ _ E0) in H. cbn [c_pos c_rest c_line c_col] in H.
    (* the step taken on r in the re-scan is the same *)
    assert (STEP : forall esc' line1 col1,
      sstring_loop t (pos + 1) line1 col1 esc' = (c', (en, le, ce)) ->
      (forall body rest pos2 line2 col2,
         sstring_loop ((r :: body) ++ 34 :: rest) pos2 line2 col2 esc =
         sstring_loop (body ++ 34 :: rest) (pos2 + 1) (if r =? r_lf then line2 + 1 else line2)
                      (if r =? r_lf then 1 else col2 + 1) esc') ->
      (esc = false -> (r =? 34) = false) ->
      exists body term,
        r :: t = body ++ term :: c_rest c' /\ en = pos + len body /\ c_pos c' = pos + len body + 1
        /\ (esc = false -> hdn (fun b => b =? 34) body)
        /\ forall rest pos2 line2 col2, pos2 + len body + 1 + len rest < two32 ->
             exists line' col',
               sstring_loop (body ++ 34 :: rest) pos2 line2 col2 esc =
               (mkc rest (pos2 + len body + 1) line' col', (pos2 + len body, line', col'))).
    { intros esc' line1 col1 H' Hstep Hq.
      assert (HL' : pos + 1 + len t < two32) by lia.
      destruct (IH _ _ _ _ _ _ _ _ _ _ HL' H' Hx Hx0) as (body & term & Ht & Hen & Hp & _ & Hre).
      exists (r :: body), term. rewrite len_cons. split; [cbn [app]; rewrite <- Ht; reflexivity|].
      split; [lia|]. split; [lia|]. split; [intro He; cbn; apply Hq; exact He|].
      intros rest pos2 line2 col2 Hb. rewrite Hstep.
      assert (Hb' : pos2 + 1 + len body + 1 + len rest < two32) by lia.
      destruct (Hre rest (pos2 + 1) (if r =? r_lf then line2 + 1 else line2) (if r =? r_lf then 1 else col2 + 1) Hb')
        as (line' & col' & Hr).
      exists line', col'. rewrite Hr. unfold mkc. repeat (f_equal; try lia). }
    destruct ((r =? r_space) || (r =? r_tab)) eqn:Esp.
    { eapply STEP; [exact H| |].
      - intros. cbn [app sstring_loop]. rewrite (read_rune_cons _ _ _ _ _ E0). cbn [c_pos c_rest c_line c_col].
        rewrite Esp. reflexivity.
      - intros _. apply orb_prop in Esp. destruct Esp as [E|E]; apply N.eqb_eq in E; subst r; reflexivity. }
    destruct ((r =? r_quote) || (r =? r_cr) || (r =? r_lf)) eqn:Eq.
    { destruct esc.
      - eapply STEP; [exact H| |intro X; discriminate X].
        intros. cbn [app sstring_loop]. rewrite (read_rune_cons _ _ _ _ _ E0). cbn [c_pos c_rest c_line c_col].
        rewrite Esp, E0, Eq. reflexivity.
      - (* the terminator *)
        inj H. cbn [c_rest c_pos] in *. exists [], r. rewrite len_nil. split; [reflexivity|].
        split; [rewrite sub32_id by lia; lia|]. split; [lia|]. split; [intros _; exact I|].
        intros rest pos2 line2 col2 Hb. cbn [app sstring_loop].
        rewrite (read_rune_cons 34) by reflexivity. cbn [c_pos c_rest c_line c_col].
        change ((34 =? r_space) || (34 =? r_tab)) with false.
        change ((34 =? r_quote) || (34 =? r_cr) || (34 =? r_lf)) with true. cbv iota.
        exists line2, (col2 + 1). change (34 =? r_lf) with false. cbv iota.
        rewrite sub32_id by lia. change (34 =? 0) with false. cbv iota. unfold mkc. repeat (f_equal; try lia). }
    assert (Hnq : (r =? 34) = false).
    { apply orb_false_elim in Eq. destruct Eq as [Eq _]. apply orb_false_elim in Eq. destruct Eq as [Eq _]. exact Eq. }
    destruct (r =? r_backslash) eqn:Eb.
    { eapply STEP; [exact H| |intros _; exact Hnq].
      intros. cbn [app sstring_loop]. rewrite (read_rune_cons _ _ _ _ _ E0). cbn [c_pos c_rest c_line c_col].
      rewrite Esp, E0, Eq, Eb. reflexivity. }
    eapply STEP; [exact H| |intros _; exact Hnq].
    intros. cbn [app sstring_loop]. rewrite (read_rune_cons _ _ _ _ _ E0). cbn [c_pos c_rest c_line c_col].
    rewrite Esp, E0, Eq, Eb. reflexivity.
Qed.

(* ---- suffixes: every scanner returns a suffix of its input ---- *)
Definition suffix (a b : bytes) : Prop := exists p, b = p ++ a.
Lemma suffix_refl : forall a, suffix a a. Proof. intro a. exists []. reflexivity. Qed.
Lemma suffix_cons : forall a r b, suffix a b -> suffix a (r :: b).
Proof. intros a r b [p ->]. exists (r :: p). reflexivity. Qed.
Lemma suffix_trans : forall a b c, suffix a b -> suffix b c -> suffix a c.
Proof. intros a b c [p ->] [q ->]. exists (q ++ p). rewrite app_assoc. reflexivity. Qed.

Lemma comment_loop_suffix : forall l pos line col e c' e', comment_loop l pos line col e = (c', e') -> suffix (c_rest c') l.
Proof.
  induction l as [|r t IH]; intros pos line col e c' e' H; cbn [comment_loop] in H.
  - inj H. apply suffix_refl.
  - destruct (r =? 0) eqn:E0.
    { rewrite (read_rune_nul _ _ _ _ _ E0) in H. inj H. apply suffix_refl. }
    rewrite (read_rune_cons _ _ _ _ _ E0) in H. cbn [c_pos c_rest c_line c_col] in H.
    destruct ((r =? r_cr) || (r =? r_lf)).
    + destruct (peek_nonws t =? r_hash).
      * apply suffix_cons. eapply IH. exact H.
      * inj H. apply suffix_cons. apply suffix_refl.
    + apply suffix_cons. eapply IH. exact H.
Qed.

Lemma sstring_loop_suffix : forall l pos line col esc c' e', sstring_loop l pos line col esc = (c', e') -> suffix (c_rest c') l.
Proof.
  induction l as [|r t IH]; intros pos line col esc c' e' H; cbn [sstring_loop] in H.
  - inj H. apply suffix_refl.
  - destruct (r =? 0) eqn:E0.
    { rewrite (read_rune_nul _ _ _ _ _ E0) in H. cbn [snd c_pos c_rest c_line c_col] in H.
      assert (Hsp : (r =? r_space) || (r =? r_tab) = false) by (apply N.eqb_eq in E0; subst; reflexivity).
      rewrite Hsp in H. inj H. apply suffix_refl. }
    rewrite (read_rune_cons _ _ _ _ _ E0) in H. cbn [c_pos c_rest c_line c_col] in H.
    destruct ((r =? r_space) || (r =? r_tab)); [apply suffix_cons; eapply IH; exact H|].
    destruct ((r =? r_quote) || (r =? r_cr) || (r =? r_lf)).
    { destruct esc; [apply suffix_cons; eapply IH; exact H|]. inj H. apply suffix_cons. apply suffix_refl. }
    destruct (r =? r_backslash); apply suffix_cons; eapply IH; exact H.
Qed.

Lemma bstring_loop_suffix : forall l pos line col esc qc ws reached lead c' e' lead' ws',
  bstring_loop l pos line col esc qc ws reached lead = (c', e', lead', ws') -> suffix (c_rest c') l.
Proof.
  induction l as [|r t IH]; intros pos line col esc qc ws reached lead c' e' lead' ws' H; cbn [bstring_loop] in H.
  - destruct (quotes_content qc 0 ws reached lead) as [[ws1 reached1] lead1]. inj H. apply suffix_refl.
  - cbv zeta in H. destruct (quotes_content qc r ws reached lead) as [[ws1 reached1] lead1].
    destruct (r =? 0) eqn:E0.
    { rewrite (read_rune_nul _ _ _ _ _ E0) in H. cbn [snd c_pos c_rest c_line c_col] in H.
      assert (Hsp : (r =? r_space) || (r =? r_tab) || (r =? r_cr) || (r =? r_lf) = false)
        by (apply N.eqb_eq in E0; subst; reflexivity).
      rewrite Hsp in H. inj H. apply suffix_refl. }
    rewrite (read_rune_cons _ _ _ _ _ E0) in H. cbn [c_pos c_rest c_line c_col] in H.
    destruct ((r =? r_space) || (r =? r_tab) || (r =? r_cr) || (r =? r_lf)); [apply suffix_cons; eapply IH; exact H|].
    destruct (r =? r_quote).
    { destruct esc; [apply suffix_cons; eapply IH; exact H|].
      destruct (qc + 1 =? 3); [inj H; apply suffix_cons; apply suffix_refl|apply suffix_cons; eapply IH; exact H]. }
    destruct (r =? r_backslash); [apply suffix_cons; eapply IH; exact H|].
    destruct reached1; apply suffix_cons; eapply IH; exact H.
Qed.
