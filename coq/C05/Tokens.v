(* C05 stage 3: the token sequence the printer writes for a document ([etoks]), independent of
   spacing, and what it means for a lexed token list to be that sequence ([matches]).
   Printing then factors as: bytes --lex--> tokens that match [etoks d] --parse--> d. *)
From Gv Require Import lib.Bytes lib.Gql C05.Lex C05.Parse C05.Print.
Open Scope N_scope.

(* expected tokens.  [EVar] and [ENeg] are the two places where the parser demands that two tokens
   touch (CharEnd of the first = CharStart of the second): "$name" and "-number". *)
Inductive etok :=
| ET (k : kind) (lit : bytes)
| EVar (n : bytes)
| ENeg (k : kind) (raw : bytes).

Fixpoint matches (es : list etok) (ts : list ptoken) : Prop :=
  match es with
  | [] => ts = []
  | ET k l :: es' =>
    match ts with
    | t :: ts' => pk t = k /\ plit t = l /\ matches es' ts'
    | [] => False
    end
  | EVar n :: es' =>
    match ts with
    | d :: v :: ts' => pk d = KDollar /\ pk v = KIdent /\ plit v = n /\ pce d = pcs v /\ matches es' ts'
    | _ => False
    end
  | ENeg k raw :: es' =>
    match ts with
    | s :: v :: ts' => pk s = KSub /\ pk v = k /\ plit v = raw /\ pce s = pcs v /\ matches es' ts'
    | _ => False
    end
  end.

Fixpoint matches_b (es : list etok) (ts : list ptoken) : bool :=
  match es with
  | [] => match ts with [] => true | _ => false end
  | ET k l :: es' =>
    match ts with
    | t :: ts' => kind_eqb (pk t) k && bytes_eqb (plit t) l && matches_b es' ts'
    | [] => false
    end
  | EVar n :: es' =>
    match ts with
    | d :: v :: ts' => kind_eqb (pk d) KDollar && kind_eqb (pk v) KIdent && bytes_eqb (plit v) n && (pce d =? pcs v) && matches_b es' ts'
    | _ => false
    end
  | ENeg k raw :: es' =>
    match ts with
    | s :: v :: ts' => kind_eqb (pk s) KSub && kind_eqb (pk v) k && bytes_eqb (plit v) raw && (pce s =? pcs v) && matches_b es' ts'
    | _ => false
    end
  end.

Definition p (k : kind) (b : byte) : etok := ET k [b].
Definition e_lparen := p KLParen 40.   Definition e_rparen := p KRParen 41.
Definition e_lbrack := p KLBrack 91.   Definition e_rbrack := p KRBrack 93.
Definition e_lbrace := p KLBrace 123.  Definition e_rbrace := p KRBrace 125.
Definition e_colon := p KColon 58.     Definition e_bang := p KBang 33.
Definition e_at := p KAt 64.           Definition e_equals := p KEquals 61.
Definition e_spread := ET KSpread s_spread.
Definition e_name (n : bytes) := ET KIdent n.

Definition e_number (k : kind) (raw : bytes) : etok :=
  match raw with
  | c :: r => if c =? r_sub then ENeg k r else ET k raw
  | [] => ET k raw
  end.

Fixpoint etoks_value (v : value) : list etok :=
  match v with
  | VVar n => [EVar n]
  | VInt raw => [e_number KInteger raw]
  | VFloat raw => [e_number KFloat raw]
  | VStr raw false => [ET KString raw]
  | VStr raw true => [ET KBlockString raw]
  | VBool true => [e_name s_true]
  | VBool false => [e_name s_false]
  | VNull => [e_name s_null]
  | VEnum n => [e_name n]
  | VList items => e_lbrack :: flat_map etoks_value items ++ [e_rbrack]
  | VObj fields =>
    e_lbrace :: flat_map (fun kv => e_name (fst kv) :: e_colon :: etoks_value (snd kv)) fields ++ [e_rbrace]
  end.

Fixpoint etoks_type (t : ty) : list etok :=
  match t with
  | TNamed n => [e_name n]
  | TList t' => e_lbrack :: etoks_type t' ++ [e_rbrack]
  | TNonNull t' => etoks_type t' ++ [e_bang]
  end.

Definition etoks_arg (a : argument) : list etok := e_name (fst a) :: e_colon :: etoks_value (snd a).
Definition etoks_args (args : list argument) : list etok :=
  match args with
  | [] => []
  | _ => e_lparen :: flat_map etoks_arg args ++ [e_rparen]
  end.
Definition etoks_dir (d : directive) : list etok := e_at :: e_name (d_name d) :: etoks_args (d_args d).
Definition etoks_dirs (ds : list directive) : list etok := flat_map etoks_dir ds.

Fixpoint etoks_sel (s : selection) : list etok :=
  let set (sels : list selection) : list etok :=
    match sels with
    | [] => []
    | _ => e_lbrace :: flat_map etoks_sel sels ++ [e_rbrace]
    end in
  match s with
  | SField alias fname args dirs sels =>
    (match alias with Some a => [e_name a; e_colon] | None => [] end)
    ++ e_name fname :: etoks_args args ++ etoks_dirs dirs ++ set sels
  | SInline tc dirs sels =>
    e_spread :: (match tc with Some t => [e_name s_on; e_name t] | None => [] end)
    ++ etoks_dirs dirs ++ set sels
  | SSpread fr dirs => e_spread :: e_name fr :: etoks_dirs dirs
  end.
Definition etoks_set (sels : list selection) : list etok :=
  match sels with
  | [] => []
  | _ => e_lbrace :: flat_map etoks_sel sels ++ [e_rbrace]
  end.

Definition etoks_vardef (v : vardef) : list etok :=
  EVar (vd_name v) :: e_colon :: etoks_type (vd_type v)
  ++ (match vd_default v with Some dv => e_equals :: etoks_value dv | None => [] end)
  ++ etoks_dirs (vd_dirs v).
Definition etoks_vardefs (vs : list vardef) : list etok :=
  match vs with
  | [] => []
  | _ => e_lparen :: flat_map etoks_vardef vs ++ [e_rparen]
  end.

Definition etoks_def (d : definition) : list etok :=
  match d with
  | DOp o =>
    (match op_kind o with
     | OpQuery =>
       match op_name o, op_vars o, op_dirs o with
       | None, [], [] => []
       | _, _, _ => [e_name s_query]
       end
     | OpMutation => [e_name s_mutation]
     | OpSubscription => [e_name s_subscription]
     end)
    ++ (match op_name o with Some n => [e_name n] | None => [] end)
    ++ etoks_vardefs (op_vars o) ++ etoks_dirs (op_dirs o) ++ etoks_set (op_sels o)
  | DFrag f =>
    e_name s_fragment :: e_name (fr_name f) :: e_name s_on :: e_name (fr_type f)
    :: etoks_dirs (fr_dirs f) ++ etoks_set (fr_sels f)
  end.
Definition etoks (d : document) : list etok := flat_map etoks_def d.

(* ---- what the parser guarantees about its trees, and what the token-level round trip needs ---- *)
Definition ikw_eqb (a b : identkw) : bool := bytes_eqb (identkw_name a) (identkw_name b).
Definition kw_is (k : identkw) (n : bytes) : bool := ikw_eqb (keyword_of n) k.

Fixpoint wf_value (v : value) : bool :=
  match v with
  | VEnum n => negb (kw_is IKTrue n) && negb (kw_is IKFalse n) && negb (kw_is IKNull n)
  | VList items => forallb wf_value items
  | VObj fields => forallb (fun kv => wf_value (snd kv)) fields
  | _ => true
  end.
Fixpoint wf_type (t : ty) : bool :=
  match t with
  | TNamed _ => true
  | TList t' => wf_type t'
  | TNonNull t' => match t' with TNonNull _ => false | _ => wf_type t' end
  end.
Definition wf_args (a : list argument) : bool := forallb (fun kv => wf_value (snd kv)) a.
Definition wf_dirs (ds : list directive) : bool := forallb (fun d => wf_args (d_args d)) ds.
Fixpoint wf_sel (s : selection) : bool :=
  match s with
  | SField _ _ args dirs sels => wf_args args && wf_dirs dirs && forallb wf_sel sels
  | SInline tc dirs sels =>
    wf_dirs dirs && forallb wf_sel sels
    && match tc, dirs, sels with None, [], [] => false | _, _, _ => true end
  | SSpread fr dirs => negb (kw_is IKOn fr) && wf_dirs dirs
  end.
Definition wf_vardef (v : vardef) : bool :=
  wf_type (vd_type v) && match vd_default v with Some dv => wf_value dv | None => true end && wf_dirs (vd_dirs v).
Definition wf_def (d : definition) : bool :=
  match d with
  | DOp o => forallb wf_vardef (op_vars o) && wf_dirs (op_dirs o) && forallb wf_sel (op_sels o) && nonempty (op_sels o)
  | DFrag f => wf_dirs (fr_dirs f) && forallb wf_sel (fr_sels f) && nonempty (fr_sels f)
  end.
Definition wf_doc (d : document) : bool := forallb wf_def d.

(* ---- the lexical half, as an executable condition: lexing the printed bytes gives tokens that
        match the token-level print (no comment tokens can appear in a print) ---- *)
Definition lex_print_ok_b (ind : option bytes) (d : document) : bool :=
  match lex (print_doc ind d) with
  | Some ts => matches_b (etoks d) (strip ts)
  | None => false
  end.
