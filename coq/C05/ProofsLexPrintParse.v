(* C05, lexical half of the round trip: every literal the parser stores in the tree comes from a
   token that HAS A SUCCESSOR in the token list (values, types and names are always followed by a
   closing token the parser demands), so a predicate that holds of the literal of every non-last
   token ([G]) holds of every literal of the document ([doc_ok]). *)
From Gv Require Import lib.Bytes lib.Gql C05.Lex C05.Parse C05.Limits C05.Print C05.Spec C05.Tokens
  C05.ProofsLex C05.ProofsLimits C05.ProofsParse C05.ProofsWf C05.ProofsTotal C05.ProofsLexPrintDefs.
From Coq Require Import Lia ZifyN ZifyNat ZifyBool List.
Import ListNotations.

Ltac dmn H E :=
  match type of H with
  | match ?x with _ => _ end = _ => destruct x eqn:E; try discriminate H
  | (if ?x then _ else _) = _ => destruct x eqn:E; try discriminate H
  end.

Lemma le_ne : forall (r ts : list ptoken), (length r <= length ts)%nat -> r <> [] -> ts <> [].
Proof. intros r ts L N E. subst ts. destruct r; [congruence|simpl in L; lia]. Qed.

(* the functions that end with a closing token fail on the empty list *)
Lemma vlist_nil : forall f acc v r, parse_value_list f [] acc = Ok v r -> False.
Proof. intros f acc v r H. destruct f; cbn [parse_value_list] in H; discriminate H. Qed.
Lemma vobj_nil : forall f acc v r, parse_object_fields f [] acc = Ok v r -> False.
Proof. intros f acc v r H. destruct f; cbn [parse_object_fields] in H; discriminate H. Qed.
Lemma args_nil : forall f acc v r, parse_args f [] acc = Ok v r -> False.
Proof. intros f acc v r H. destruct f; cbn [parse_args] in H; discriminate H. Qed.
Lemma vardefs_nil : forall f acc v r, parse_vardefs f [] acc = Ok v r -> False.
Proof. intros f acc v r H. destruct f; cbn [parse_vardefs] in H; discriminate H. Qed.
Lemma selset_nil : forall f v r, parse_selset f [] = Ok v r -> False.
Proof. intros f v r H. destruct f; cbn [parse_selset] in H; discriminate H. Qed.
Lemma sels_nil : forall f acc v r, parse_sels f [] acc = Ok v r -> False.
Proof. intros f acc v r H. destruct f; cbn [parse_sels] in H; discriminate H. Qed.

(* parseOperationDefinition after the optional name *)
Definition op_rest (fuel : nat) (k : opkind) (nm : option name) (r1 : list ptoken) : res definition :=
  let vars :=
    match r1 with
    | t :: r => if is_kind KLParen t then parse_vardefs fuel r [] else Ok [] r1
    | [] => Ok [] r1
    end in
  match vars with
  | Ok vs r2 =>
    match parse_dirs fuel r2 [] with
    | Ok dirs r3 =>
      match parse_selset fuel r3 with
      | Ok sels r4 =>
        Ok (DOp {| op_kind := k; op_name := nm; op_vars := vs; op_dirs := dirs; op_sels := sels |}) r4
      | Err => Err | Unsup => Unsup | Oof => Oof
      end
    | Err => Err | Unsup => Unsup | Oof => Oof
    end
  | Err => Err | Unsup => Unsup | Oof => Oof
  end.

Lemma operation_eq : forall f k ts, parse_operation f k ts =
  match ts with
  | t :: r => if is_kind KIdent t then op_rest f k (Some (plit t)) r else op_rest f k None ts
  | [] => op_rest f k None ts
  end.
Proof.
  intros f k ts. unfold parse_operation, op_rest. destruct ts as [|t r]; [reflexivity|].
  destruct (is_kind KIdent t); reflexivity.
Qed.

Section ParseOk.
  Variable goodl : kind -> bytes -> Prop.
  Notation G := (G goodl).
  Notation Pn := (goodl KIdent).
  Notation Pi := (num_ok goodl KInteger).
  Notation Pf := (num_ok goodl KFloat).
  Notation Ps := (goodl KString).
  Notation Pb := (goodl KBlockString).
  Notation vok := (value_ok Pn Pi Pf Ps Pb).
  Notation tok := (type_ok Pn).
  Notation aok := (args_ok Pn Pi Pf Ps Pb).
  Notation dok := (dirs_ok Pn Pi Pf Ps Pb).
  Notation selok := (sel_ok Pn Pi Pf Ps Pb).
  Notation sok := (sels_ok Pn Pi Pf Ps Pb).
  Notation vdok := (vardef_ok Pn Pi Pf Ps Pb).
  Notation defok := (def_ok Pn Pi Pf Ps Pb).

  Lemma G_tail : forall t r, G (t :: r) -> G r.
  Proof. intros t r [_ H]. exact H. Qed.
  Lemma G_head : forall t r, G (t :: r) -> r <> [] -> goodl (pk t) (plit t).
  Proof. intros t r [H _]. exact H. Qed.
  Lemma G_head_k : forall k t r, G (t :: r) -> is_kind k t = true -> r <> [] -> goodl k (plit t).
  Proof. intros k t r H E N. apply is_kind_eq in E. rewrite <- E. exact (G_head _ _ H N). Qed.

  (* ---- values ---- *)
  Lemma value_okp : forall fuel,
    (forall ts v r, parse_value fuel ts = Ok v r -> G ts -> G r /\ (r <> [] -> vok v)) /\
    (forall ts acc v r, parse_value_list fuel ts acc = Ok v r -> G ts -> Forall vok acc -> G r /\ vok v) /\
    (forall ts acc v r, parse_object_fields fuel ts acc = Ok v r -> G ts ->
       Forall (fun kv => Pn (fst kv) /\ vok (snd kv)) acc -> G r /\ vok v).
  Proof.
    induction fuel as [|f IH].
    { split; [|split]; [intros ts v r H|intros ts acc v r H|intros ts acc v r H]; discriminate H. }
    destruct IH as (IHv & IHl & IHo). split; [|split].
    - intros ts v r H HG. cbn [parse_value] in H.
      destruct ts as [|t r0]; [discriminate H|].
      pose proof (G_tail _ _ HG) as HG0. pose proof (G_head _ _ HG) as Hh.
      destruct (pk t) eqn:Ek; try discriminate H.
      + (* identifier *)
        destruct (keyword_of (plit t)); inversion H; subst; (split; [exact HG0|]); intro Hne;
          cbn [value_ok]; try exact I; exact (Hh Hne).
      + (* '-' *)
        destruct r0 as [|n r2]; [discriminate H|].
        destruct (is_kind KInteger n) eqn:Ei.
        * dmatch H. inversion H; subst. split; [exact (G_tail _ _ HG0)|]. intro Hne. cbn [value_ok].
          right. exists (plit n). split; [reflexivity|]. exact (G_head_k _ _ _ HG0 Ei Hne).
        * destruct (is_kind KFloat n) eqn:Ef; [|discriminate H].
          dmatch H. inversion H; subst. split; [exact (G_tail _ _ HG0)|]. intro Hne. cbn [value_ok].
          right. exists (plit n). split; [reflexivity|]. exact (G_head_k _ _ _ HG0 Ef Hne).
      + (* '$' *)
        destruct r0 as [|v0 r2]; [discriminate H|]. dmn H Ev. inversion H; subst.
        destruct (andb_prop _ _ Ev) as [E1 _].
        split; [exact (G_tail _ _ HG0)|]. intro Hne. cbn [value_ok]. exact (G_head_k _ _ _ HG0 E1 Hne).
      + inversion H; subst. split; [exact HG0|]. intro Hne. cbn [value_ok]. exact (Hh Hne).
      + inversion H; subst. split; [exact HG0|]. intro Hne. cbn [value_ok]. exact (Hh Hne).
      + inversion H; subst. split; [exact HG0|]. intro Hne. cbn [value_ok]. left. exact (Hh Hne).
      + inversion H; subst. split; [exact HG0|]. intro Hne. cbn [value_ok]. left. exact (Hh Hne).
      + destruct (IHl _ _ _ _ H HG0 (Forall_nil _)) as [Ga Va]. split; [exact Ga|intros _; exact Va].
      + destruct (IHo _ _ _ _ H HG0 (Forall_nil _)) as [Ga Va]. split; [exact Ga|intros _; exact Va].
    - intros ts acc v r H HG Hacc. cbn [parse_value_list] in H.
      destruct ts as [|t r0]; [discriminate H|]. dmatch H.
      + inversion H; subst. split; [exact (G_tail _ _ HG)|]. apply value_ok_list. apply Forall_rev. exact Hacc.
      + destruct (parse_value f (t :: r0)) as [v1 r1| | |] eqn:Ev; try discriminate H.
        destruct (IHv _ _ _ Ev HG) as [G1 V1].
        assert (Hne : r1 <> []) by (intro; subst r1; exact (vlist_nil _ _ _ _ H)).
        eapply IHl; [exact H|exact G1|]. constructor; [exact (V1 Hne)|exact Hacc].
    - intros ts acc v r H HG Hacc. cbn [parse_object_fields] in H.
      destruct ts as [|t r0]; [discriminate H|]. dmatch H.
      + inversion H; subst. split; [exact (G_tail _ _ HG)|]. apply value_ok_obj. apply Forall_rev. exact Hacc.
      + destruct (is_kind KIdent t) eqn:Ei; [|discriminate H].
        destruct r0 as [|c r2]; [discriminate H|]. dmatch H.
        destruct (parse_value f r2) as [v1 r1| | |] eqn:Ev; try discriminate H.
        destruct (IHv _ _ _ Ev (G_tail _ _ (G_tail _ _ HG))) as [G1 V1].
        assert (Hne : r1 <> []) by (intro; subst r1; exact (vobj_nil _ _ _ _ H)).
        assert (Hn : Pn (plit t)) by (apply (G_head_k _ _ _ HG Ei); discriminate).
        eapply IHo; [exact H|exact G1|]. constructor; [|exact Hacc]. split; [exact Hn|exact (V1 Hne)].
  Qed.

  Lemma value_okp1 : forall fuel ts v r, parse_value fuel ts = Ok v r -> G ts -> G r /\ (r <> [] -> vok v).
  Proof. intro fuel. apply (value_okp fuel). Qed.

  (* ---- types ---- *)
  Lemma type_okp : forall fuel ts t r, parse_type fuel ts = Ok t r -> G ts -> G r /\ (r <> [] -> tok t).
  Proof.
    induction fuel as [|f IH]; intros ts t r H HG; [discriminate H|].
    cbn [parse_type] in H. destruct ts as [|t0 r0]; [discriminate H|].
    assert (Bang : forall (b0 : ty) r1 t' r', G r1 -> (r1 <> [] -> tok b0) ->
      match r1 with
      | b :: r2 => if is_kind KBang b then match r2 with
                                           | b2 :: _ => if is_kind KBang b2 then Err else Ok (TNonNull b0) r2
                                           | [] => Ok (TNonNull b0) r2 end
                   else Ok b0 r1
      | [] => Ok b0 r1
      end = Ok t' r' -> G r' /\ (r' <> [] -> tok t')).
    { intros b0 r1 t' r' G1 Hb Hx. destruct r1 as [|b r2]; [inversion Hx; subst; split; [exact G1|exact Hb]|].
      assert (Hb0 : tok b0) by (apply Hb; discriminate).
      destruct (is_kind KBang b); [|inversion Hx; subst; split; [exact G1|intros _; exact Hb0]].
      assert (R : G r2 /\ (r2 <> [] -> tok (TNonNull b0))) by (split; [exact (G_tail _ _ G1)|intros _; exact Hb0]).
      destruct r2 as [|b2 r3]; [inversion Hx; subst; exact R|].
      destruct (is_kind KBang b2); [discriminate Hx|inversion Hx; subst; exact R]. }
    dmn H Ei.
    - eapply Bang; [| |exact H]; [exact (G_tail _ _ HG)|]. intro Hne. cbn [type_ok]. exact (G_head_k _ _ _ HG Ei Hne).
    - dmn H Eb. destruct (parse_type f r0) as [t1 r1| | |] eqn:Et; try discriminate H.
      destruct r1 as [|c r2]; [discriminate H|]. dmn H Ec.
      destruct (IH _ _ _ Et (G_tail _ _ HG)) as [G1 T1].
      eapply Bang; [| |exact H]; [exact (G_tail _ _ G1)|]. intros _. cbn [type_ok]. apply T1. discriminate.
  Qed.

  (* ---- arguments ---- *)
  Lemma args_okp : forall fuel ts acc a r, parse_args fuel ts acc = Ok a r -> G ts -> aok acc -> G r /\ aok a.
  Proof.
    induction fuel as [|f IH]; intros ts acc a r H HG Hacc; [discriminate H|].
    cbn [parse_args] in H. destruct ts as [|t r0]; [discriminate H|].
    destruct (is_kind KIdent t) eqn:Ei.
    - destruct r0 as [|c r2]; [discriminate H|]. dmn H Ec.
      destruct (parse_value f r2) as [v1 r1| | |] eqn:Ev; try discriminate H.
      destruct (value_okp1 _ _ _ _ Ev (G_tail _ _ (G_tail _ _ HG))) as [G1 V1].
      assert (Hne : r1 <> []) by (intro; subst r1; exact (args_nil _ _ _ _ H)).
      assert (Hn : Pn (plit t)) by (apply (G_head_k _ _ _ HG Ei); discriminate).
      eapply IH; [exact H|exact G1|]. unfold args_ok. constructor; [|exact Hacc]. split; [exact Hn|exact (V1 Hne)].
    - dmn H Ep. inversion H; subst. split; [exact (G_tail _ _ HG)|]. unfold args_ok. apply Forall_rev. exact Hacc.
  Qed.

  Lemma opt_args_okp : forall fuel ts a r, parse_opt_args fuel ts = Ok a r -> G ts -> G r /\ aok a.
  Proof.
    intros fuel ts a r H HG. unfold parse_opt_args in H.
    destruct ts as [|t r0]; [inversion H; subst; split; [exact HG|unfold args_ok; constructor]|].
    destruct (is_kind KLParen t).
    - eapply args_okp; [exact H|exact (G_tail _ _ HG)|unfold args_ok; constructor].
    - inversion H; subst. split; [exact HG|unfold args_ok; constructor].
  Qed.

  (* ---- directives ---- *)
  Lemma dirs_okp : forall fuel ts acc ds r, parse_dirs fuel ts acc = Ok ds r -> G ts -> (ts <> [] -> dok acc) ->
    G r /\ (r <> [] -> dok ds).
  Proof.
    induction fuel as [|f IH]; intros ts acc ds r H HG Hacc; [discriminate H|].
    cbn [parse_dirs] in H.
    assert (Fin : Ok (rev acc) ts = Ok ds r -> G r /\ (r <> [] -> dok ds)).
    { intro Hx. inversion Hx; subst. split; [exact HG|]. intro Hne. unfold dirs_ok. apply Forall_rev. exact (Hacc Hne). }
    destruct ts as [|t r0]; [apply Fin; exact H|].
    destruct (is_kind KAt t); [|apply Fin; exact H].
    destruct r0 as [|n r2]; [discriminate H|]. destruct (is_kind KIdent n) eqn:Ei; [|discriminate H].
    destruct (parse_opt_args f r2) as [a r1| | |] eqn:Ea; try discriminate H.
    destruct (opt_args_okp _ _ _ _ Ea (G_tail _ _ (G_tail _ _ HG))) as [G1 A1].
    eapply IH; [exact H|exact G1|]. intro Hne.
    assert (Hne2 : r2 <> []) by (apply optargs_len in Ea; eapply le_ne; eassumption).
    unfold dirs_ok. constructor; [|apply Hacc; discriminate].
    split; [exact (G_head_k _ _ _ (G_tail _ _ HG) Ei Hne2)|exact A1].
  Qed.

  Lemma dirs_okp0 : forall fuel ts ds r, parse_dirs fuel ts [] = Ok ds r -> G ts -> G r /\ (r <> [] -> dok ds).
  Proof. intros fuel ts ds r H HG. eapply dirs_okp; [exact H|exact HG|]. intros _. unfold dirs_ok. constructor. Qed.

  (* ---- selections ---- *)
  Definition SelsetOk (selset : list ptoken -> res (list selection)) : Prop :=
    forall ts sels r, selset ts = Ok sels r -> G ts -> G r /\ sok sels.

  Lemma field_tail_okp : forall selset f alias nm r1 s r, SelsetOk selset ->
    field_tail selset f alias nm r1 = Ok s r -> G r1 -> optn_ok Pn alias -> (r1 <> [] -> Pn nm) ->
    G r /\ (r <> [] -> selok s).
  Proof.
    intros selset f alias nm r1 s r HS H HG Hal Hnm. unfold field_tail in H.
    destruct (parse_opt_args f r1) as [args r2| | |] eqn:Ea; try discriminate H.
    destruct (parse_dirs f r2 []) as [dirs r3| | |] eqn:Ed; try discriminate H.
    destruct (opt_args_okp _ _ _ _ Ea HG) as [G2 A2].
    destruct (dirs_okp0 _ _ _ _ Ed G2) as [G3 D3].
    assert (Hback : r3 <> [] -> r1 <> []).
    { intro N. apply optargs_len in Ea. apply dirs_len in Ed. eapply le_ne; [|exact N]. lia. }
    assert (Hfield : forall sels, r3 <> [] -> sok sels -> selok (SField alias nm args dirs sels)).
    { intros sels N Hs. apply sel_ok_field.
      split; [exact Hal|split; [exact (Hnm (Hback N))|split; [exact A2|split; [exact (D3 N)|exact Hs]]]]. }
    destruct r3 as [|b r4]; [inversion H; subst; split; [exact G3|intro N; congruence]|].
    destruct (is_kind KLBrace b).
    - destruct (selset (b :: r4)) as [sels r5| | |] eqn:Es; try discriminate H. inversion H; subst.
      destruct (HS _ _ _ Es G3) as [G5 S5]. split; [exact G5|]. intros _. apply Hfield; [discriminate|exact S5].
    - inversion H; subst. split; [exact G3|]. intro N. apply Hfield; [exact N|]. unfold sels_ok. constructor.
  Qed.

  Lemma inline_tail_okp : forall selset f tc r1 s r, SelsetOk selset ->
    inline_tail selset f tc r1 = Ok s r -> G r1 -> (r1 <> [] -> optn_ok Pn tc) ->
    G r /\ (r <> [] -> selok s).
  Proof.
    intros selset f tc r1 s r HS H HG Htc. unfold inline_tail in H.
    destruct (parse_dirs f r1 []) as [dirs r3| | |] eqn:Ed; try discriminate H.
    destruct (dirs_okp0 _ _ _ _ Ed HG) as [G3 D3].
    assert (Hback : r3 <> [] -> r1 <> []).
    { intro N. apply dirs_len in Ed. eapply le_ne; eassumption. }
    assert (Hinl : forall sels, r3 <> [] -> sok sels -> selok (SInline tc dirs sels)).
    { intros sels N Hs. apply sel_ok_inline.
      split; [exact (Htc (Hback N))|split; [exact (D3 N)|exact Hs]]. }
    destruct r3 as [|b r4]; [inversion H; subst; split; [exact G3|intro N; congruence]|].
    destruct (is_kind KLBrace b).
    - destruct (selset (b :: r4)) as [sels r5| | |] eqn:Es; try discriminate H. inversion H; subst.
      destruct (HS _ _ _ Es G3) as [G5 S5]. split; [exact G5|]. intros _. apply Hinl; [discriminate|exact S5].
    - inversion H; subst. split; [exact G3|]. intro N. apply Hinl; [exact N|]. unfold sels_ok. constructor.
  Qed.

  Lemma sel_okp : forall fuel,
    SelsetOk (parse_selset fuel) /\
    (forall ts acc sels r, parse_sels fuel ts acc = Ok sels r -> G ts -> sok acc -> G r /\ sok sels) /\
    (forall ts s r, parse_field fuel ts = Ok s r -> G ts -> G r /\ (r <> [] -> selok s)) /\
    (forall ts s r, parse_frag_sel fuel ts = Ok s r -> G ts -> G r /\ (r <> [] -> selok s)).
  Proof.
    induction fuel as [|f IH].
    { split; [|split; [|split]];
        [intros ts sels r H|intros ts acc sels r H|intros ts s r H|intros ts s r H]; discriminate H. }
    destruct IH as (IHset & IHsels & IHfield & IHfrag). split; [|split; [|split]].
    - intros ts sels r H HG. cbn [parse_selset] in H. destruct ts as [|t r0]; [discriminate H|]. dmatch H.
      eapply IHsels; [exact H|exact (G_tail _ _ HG)|unfold sels_ok; constructor].
    - intros ts acc sels r H HG Hacc. cbn [parse_sels] in H. destruct ts as [|t r0]; [discriminate H|]. dmatch H.
      + destruct acc as [|a0 acc']; [discriminate H|]. inversion H; subst.
        split; [exact (G_tail _ _ HG)|]. exact (Forall_rev Hacc).
      + destruct (is_kind KIdent t).
        * destruct (parse_field f (t :: r0)) as [s1 r1| | |] eqn:Ef; try discriminate H.
          destruct (IHfield _ _ _ Ef HG) as [G1 S1].
          assert (Hne : r1 <> []) by (intro; subst r1; exact (sels_nil _ _ _ _ H)).
          eapply IHsels; [exact H|exact G1|]. unfold sels_ok. constructor; [exact (S1 Hne)|exact Hacc].
        * dmatch H. destruct (parse_frag_sel f r0) as [s1 r1| | |] eqn:Ef; try discriminate H.
          destruct (IHfrag _ _ _ Ef (G_tail _ _ HG)) as [G1 S1].
          assert (Hne : r1 <> []) by (intro; subst r1; exact (sels_nil _ _ _ _ H)).
          eapply IHsels; [exact H|exact G1|]. unfold sels_ok. constructor; [exact (S1 Hne)|exact Hacc].
    - intros ts s r H HG. cbn [parse_field] in H. destruct ts as [|t r0]; [discriminate H|].
      destruct (is_kind KIdent t) eqn:Ei; cbn [negb] in H; [|discriminate H].
      destruct r0 as [|c r1].
      { eapply field_tail_okp; [exact IHset|exact H|exact (G_tail _ _ HG)|exact I|]. intro N; congruence. }
      destruct (is_kind KColon c).
      2:{ eapply field_tail_okp; [exact IHset|exact H|exact (G_tail _ _ HG)|exact I|].
          intro N. exact (G_head_k _ _ _ HG Ei N). }
      destruct r1 as [|n r2]; [discriminate H|]. destruct (is_kind KIdent n) eqn:En; [|discriminate H].
      eapply field_tail_okp; [exact IHset|exact H|exact (G_tail _ _ (G_tail _ _ (G_tail _ _ HG)))| |].
      + cbn [optn_ok]. apply (G_head_k _ _ _ HG Ei). discriminate.
      + intro N. exact (G_head_k _ _ _ (G_tail _ _ (G_tail _ _ HG)) En N).
    - intros ts s r H HG. cbn [parse_frag_sel] in H. destruct ts as [|t r0]; [discriminate H|].
      destruct (is_kind KLBrace t || is_kind KAt t).
      { eapply inline_tail_okp; [exact IHset|exact H|exact HG|]. intros _. exact I. }
      destruct (is_kind KIdent t) eqn:Ei; [|discriminate H].
      destruct (is_on t).
      + destruct r0 as [|n r1]; [discriminate H|]. destruct (is_kind KIdent n) eqn:En; [|discriminate H].
        eapply inline_tail_okp; [exact IHset|exact H|exact (G_tail _ _ (G_tail _ _ HG))|].
        intro N. cbn [optn_ok]. exact (G_head_k _ _ _ (G_tail _ _ HG) En N).
      + destruct (parse_dirs f r0 []) as [dirs r1| | |] eqn:Ed; try discriminate H. inversion H; subst.
        destruct (dirs_okp0 _ _ _ _ Ed (G_tail _ _ HG)) as [G1 D1].
        split; [exact G1|]. intro N. cbn [sel_ok]. split; [|exact (D1 N)].
        apply (G_head_k _ _ _ HG Ei). apply dirs_len in Ed. eapply le_ne; eassumption.
  Qed.

  Lemma selset_okp : forall fuel ts sels r, parse_selset fuel ts = Ok sels r -> G ts -> G r /\ sok sels.
  Proof. intro fuel. exact (proj1 (sel_okp fuel)). Qed.

  (* ---- variable definitions ---- *)
  Lemma vardefs_okp : forall fuel ts acc vs r, parse_vardefs fuel ts acc = Ok vs r -> G ts -> Forall vdok acc ->
    G r /\ Forall vdok vs.
  Proof.
    induction fuel as [|f IH]; intros ts acc vs r H HG Hacc; [discriminate H|].
    cbn [parse_vardefs] in H. destruct ts as [|t r0]; [discriminate H|]. dmatch H.
    { inversion H; subst. split; [exact (G_tail _ _ HG)|apply Forall_rev; exact Hacc]. }
    dmatch H. dmatch H.
    destruct r0 as [|v r1]; [discriminate H|]. dmn H Ev.
    destruct (andb_prop _ _ Ev) as [Evi _].
    destruct r1 as [|c r2]; [discriminate H|]. dmatch H.
    destruct (parse_type f r2) as [ty r3| | |] eqn:Et; try discriminate H.
    pose proof (G_tail _ _ (G_tail _ _ (G_tail _ _ HG))) as G2.
    destruct (type_okp _ _ _ _ Et G2) as [G3 T3].
    assert (Hv : Pn (plit v)) by (apply (G_head_k _ _ _ (G_tail _ _ HG) Evi); discriminate).
    assert (Fin : forall dv r4, G r4 -> (r4 <> [] -> tok ty /\ match dv with Some x => vok x | None => True end) ->
       match parse_dirs f r4 [] with
       | Ok dirs r5 => parse_vardefs f r5 ({| vd_name := plit v; vd_type := ty; vd_default := dv; vd_dirs := dirs |} :: acc)
       | Err => Err | Unsup => Unsup | Oof => Oof end = Ok vs r -> G r /\ Forall vdok vs).
    { intros dv r4 G4 H4 Hx. destruct (parse_dirs f r4 []) as [dirs r5| | |] eqn:Ed; try discriminate Hx.
      destruct (dirs_okp0 _ _ _ _ Ed G4) as [G5 D5].
      assert (N5 : r5 <> []) by (intro; subst r5; exact (vardefs_nil _ _ _ _ Hx)).
      assert (N4 : r4 <> []) by (apply dirs_len in Ed; eapply le_ne; eassumption).
      eapply IH; [exact Hx|exact G5|]. constructor; [|exact Hacc].
      destruct (H4 N4) as [HT HV]. unfold vardef_ok. cbn [vd_name vd_type vd_default vd_dirs].
      split; [exact Hv|split; [exact HT|split; [exact HV|exact (D5 N5)]]]. }
    destruct r3 as [|e r4]; [apply (Fin None [] G3); [intro N; congruence|exact H]|].
    destruct (is_kind KEquals e).
    2:{ apply (Fin None (e :: r4) G3); [|exact H]. intro N. split; [exact (T3 N)|exact I]. }
    destruct (parse_value f r4) as [dv r5| | |] eqn:Edv; try discriminate H.
    destruct (value_okp1 _ _ _ _ Edv (G_tail _ _ G3)) as [G5 V5].
    apply (Fin (Some dv) r5 G5); [|exact H]. intro N. split; [apply T3; discriminate|exact (V5 N)].
  Qed.

  (* ---- definitions ---- *)
  Lemma op_rest_okp : forall f k nm r1 d r, op_rest f k nm r1 = Ok d r -> G r1 -> (r1 <> [] -> optn_ok Pn nm) ->
    G r /\ defok d.
  Proof.
    intros f k nm r1 d r H HG Hnm. unfold op_rest in H. cbv zeta in H.
    dmn H Evars.
    assert (A : G rest /\ Forall vdok a /\ (rest <> [] -> r1 <> [])).
    { destruct r1 as [|t r0]; [inversion Evars; subst; split; [exact HG|split; [constructor|auto]]|].
      destruct (is_kind KLParen t); [|inversion Evars; subst; split; [exact HG|split; [constructor|auto]]].
      destruct (vardefs_okp _ _ _ _ _ Evars (G_tail _ _ HG) (Forall_nil _)) as [Ga Va].
      split; [exact Ga|split; [exact Va|intros _; discriminate]]. }
    destruct A as (G2 & V2 & B2).
    destruct (parse_dirs f rest []) as [dirs r3| | |] eqn:Ed; try discriminate H.
    destruct (parse_selset f r3) as [sels r4| | |] eqn:Es; try discriminate H. inversion H; subst.
    destruct (dirs_okp0 _ _ _ _ Ed G2) as [G3 D3].
    destruct (selset_okp _ _ _ _ Es G3) as [G4 S4].
    assert (N3 : r3 <> []) by (intro; subst r3; exact (selset_nil _ _ _ Es)).
    assert (N2 : rest <> []) by (apply dirs_len in Ed; eapply le_ne; eassumption).
    split; [exact G4|]. cbn [def_ok op_name op_vars op_dirs op_sels].
    split; [exact (Hnm (B2 N2))|split; [exact V2|split; [exact (D3 N3)|exact S4]]].
  Qed.

  Lemma operation_okp : forall f k ts d r, parse_operation f k ts = Ok d r -> G ts -> G r /\ defok d.
  Proof.
    intros f k ts d r H HG. rewrite operation_eq in H.
    destruct ts as [|t r0]; [eapply op_rest_okp; [exact H|exact HG|intros _; exact I]|].
    destruct (is_kind KIdent t) eqn:Ei.
    - eapply op_rest_okp; [exact H|exact (G_tail _ _ HG)|]. intro N. cbn [optn_ok]. exact (G_head_k _ _ _ HG Ei N).
    - eapply op_rest_okp; [exact H|exact HG|intros _; exact I].
  Qed.

  Lemma fragment_okp : forall f ts d r, parse_fragment f ts = Ok d r -> G ts -> G r /\ defok d.
  Proof.
    intros f ts d r H HG. unfold parse_fragment in H.
    destruct ts as [|n [|o [|t r0]]]; try discriminate H.
    dmn H E. destruct (andb_prop _ _ E) as [E1 Et]. destruct (andb_prop _ _ E1) as [En _].
    destruct (parse_dirs f r0 []) as [dirs r2| | |] eqn:Ed; try discriminate H.
    destruct (parse_selset f r2) as [sels r3| | |] eqn:Es; try discriminate H. inversion H; subst.
    pose proof (G_tail _ _ (G_tail _ _ HG)) as G0.
    destruct (dirs_okp0 _ _ _ _ Ed (G_tail _ _ G0)) as [G2 D2].
    destruct (selset_okp _ _ _ _ Es G2) as [G3 S3].
    assert (N2 : r2 <> []) by (intro; subst r2; exact (selset_nil _ _ _ Es)).
    assert (N0 : r0 <> []) by (apply dirs_len in Ed; eapply le_ne; eassumption).
    split; [exact G3|]. cbn [def_ok fr_name fr_type fr_dirs fr_sels].
    split; [apply (G_head_k _ _ _ HG En); discriminate|].
    split; [exact (G_head_k _ _ _ G0 Et N0)|split; [exact (D2 N2)|exact S3]].
  Qed.

  Lemma defs_okp : forall fuel ts acc doc r, parse_defs fuel ts acc = Ok doc r -> G ts -> Forall defok acc ->
    doc_ok Pn Pi Pf Ps Pb doc.
  Proof.
    induction fuel as [|f IH]; intros ts acc doc r H HG Hacc; [discriminate H|].
    cbn [parse_defs] in H. destruct ts as [|t r0].
    { inversion H; subst. unfold doc_ok. apply Forall_rev. exact Hacc. }
    dmatch H.
    { destruct (parse_selset f (t :: r0)) as [sels r1| | |] eqn:Es; try discriminate H.
      destruct (selset_okp _ _ _ _ Es HG) as [G1 S1].
      eapply IH; [exact H|exact G1|]. constructor; [|exact Hacc].
      cbn [def_ok op_name op_vars op_dirs op_sels].
      split; [exact I|split; [constructor|split; [unfold dirs_ok; constructor|exact S1]]]. }
    dmatch H. dmatch H.
    destruct (opkind_of (keyword_of (plit t))) as [k|].
    - destruct (parse_operation f k r0) as [d r1| | |] eqn:Eo; try discriminate H.
      destruct (operation_okp _ _ _ _ _ Eo (G_tail _ _ HG)) as [G1 D1].
      eapply IH; [exact H|exact G1|constructor; assumption].
    - destruct (keyword_of (plit t)); try discriminate H; try (simpl in H; discriminate H).
      destruct (parse_fragment f r0) as [d r1| | |] eqn:Eo; try discriminate H.
      destruct (fragment_okp _ _ _ _ Eo (G_tail _ _ HG)) as [G1 D1].
      eapply IH; [exact H|exact G1|constructor; assumption].
  Qed.

  Theorem parse_doc_ok : forall ts d r, G ts -> parse ts = Ok d r -> doc_ok Pn Pi Pf Ps Pb d.
  Proof. intros ts d r HG H. unfold parse in H. eapply defs_okp; [exact H|exact HG|constructor]. Qed.
End ParseOk.
