(* C05 proofs about the parser model, part B: what each parse function consumes.
   For every function: a successful call splits its input into the consumed prefix and the
   returned rest, and the prefix has the accounting shape of ProofsLimits. *)
From Gv Require Import lib.Bytes lib.Gql C05.Lex C05.Parse C05.Limits C05.Spec C05.ProofsLimits C05.ProofsParen.
From Coq Require Import ZArith Lia.

Lemma is_kind_eq : forall k t, is_kind k t = true -> pk t = k.
Proof. intros k t H. unfold is_kind in H. apply kind_eqb_eq in H. exact H. Qed.

Ltac dmatch H :=
  match type of H with
  | match ?x with _ => _ end = _ => let E := fresh "E" in destruct x eqn:E; try discriminate H
  | (if ?x then _ else _) = _ => let E := fresh "E" in destruct x eqn:E; try discriminate H
  end.

Ltac splits := repeat match goal with |- _ /\ _ => split end.
Ltac plain1 := apply Plain_tok; (reflexivity || (match goal with E : pk _ = _ |- _ => rewrite E; reflexivity end)).

Lemma Plain_tok_kind : forall t k, pk t = k -> plain_kind k = true -> Plain [t].
Proof. intros t k E H. apply Plain_tok. rewrite E. exact H. Qed.

Lemma app_cons_assoc : forall {A} (p : list A) c r, p ++ c :: r = (p ++ [c]) ++ r.
Proof. intros. rewrite <- app_assoc. reflexivity. Qed.

(* ---- values ---- *)
Lemma value_shape : forall fuel,
  (forall ts v r, parse_value fuel ts = Ok v r -> exists pre, ts = pre ++ r /\ Plain pre /\ pre <> []) /\
  (forall ts acc v r, parse_value_list fuel ts acc = Ok v r ->
     exists pre c, ts = pre ++ c :: r /\ pk c = KRBrack /\ Plain pre) /\
  (forall ts acc v r, parse_object_fields fuel ts acc = Ok v r ->
     exists pre c, ts = pre ++ c :: r /\ pk c = KRBrace /\ Plain pre).
Proof.
  induction fuel as [|f IH]; [repeat split; intros; discriminate|].
  destruct IH as (IHv & IHl & IHo). repeat split.
  - intros ts v r H. cbn [parse_value] in H.
    destruct ts as [|t r0]; [discriminate H|].
    destruct (pk t) eqn:Ek; try discriminate H.
    + (* identifier: true / false / null / enum *)
      assert (r = r0) by (destruct (keyword_of (plit t)); inversion H; reflexivity). subst r0.
      exists [t]. split; [reflexivity|split; [eapply Plain_tok_kind; [eassumption|reflexivity]|discriminate]].
    + (* -number *)
      destruct r0 as [|n r2]; [discriminate H|].
      assert (Hn : plain_kind (pk n) = true /\ r = r2).
      { dmatch H.
        - dmatch H. inversion H; subst. apply is_kind_eq in E. rewrite E. split; reflexivity.
        - dmatch H. dmatch H. inversion H; subst. apply is_kind_eq in E0. rewrite E0. split; reflexivity. }
      destruct Hn as [Hn ->].
      exists [t; n]. split; [reflexivity|]. split; [|discriminate].
      apply Plain_cons; [rewrite Ek; reflexivity|apply Plain_tok; exact Hn].
    + (* $name *)
      destruct r0 as [|v0 r2]; [discriminate H|]. dmatch H. inversion H; subst.
      apply andb_prop in E. destruct E as [E1 _]. apply is_kind_eq in E1.
      exists [t; v0]. split; [reflexivity|]. split; [|discriminate].
      apply Plain_cons; [rewrite Ek; reflexivity|eapply Plain_tok_kind; [eassumption|reflexivity]].
    + inversion H; subst. exists [t]. split; [reflexivity|split; [eapply Plain_tok_kind; [eassumption|reflexivity]|discriminate]].
    + inversion H; subst. exists [t]. split; [reflexivity|split; [eapply Plain_tok_kind; [eassumption|reflexivity]|discriminate]].
    + inversion H; subst. exists [t]. split; [reflexivity|split; [eapply Plain_tok_kind; [eassumption|reflexivity]|discriminate]].
    + inversion H; subst. exists [t]. split; [reflexivity|split; [eapply Plain_tok_kind; [eassumption|reflexivity]|discriminate]].
    + (* [ ... ] *)
      apply IHl in H. destruct H as (pre & c & -> & Hc & Hp).
      exists (t :: pre ++ [c]). split; [simpl; rewrite <- app_assoc; reflexivity|]. split; [|discriminate].
      apply Plain_cons; [rewrite Ek; reflexivity|].
      apply Plain_app; [exact Hp|eapply Plain_tok_kind; [eassumption|reflexivity]].
    + (* { ... } *)
      apply IHo in H. destruct H as (pre & c & -> & Hc & Hp).
      exists (t :: pre ++ [c]). split; [simpl; rewrite <- app_assoc; reflexivity|]. split; [|discriminate].
      apply Plain_braces; assumption.
  - intros ts acc v r H. cbn [parse_value_list] in H.
    destruct ts as [|t r0]; [discriminate H|]. dmatch H.
    + inversion H; subst. apply is_kind_eq in E. exists [], t. split; [reflexivity|]. split; [exact E|apply Plain_nil].
    + dmatch H. apply IHv in E0. destruct E0 as (p1 & E0 & Hp1 & _).
      apply IHl in H. destruct H as (p2 & c & -> & Hc & Hp2).
      exists (p1 ++ p2), c. rewrite E0. split; [rewrite <- app_assoc; reflexivity|]. split; [exact Hc|apply Plain_app; assumption].
  - intros ts acc v r H. cbn [parse_object_fields] in H.
    destruct ts as [|t r0]; [discriminate H|]. dmatch H.
    + inversion H; subst. apply is_kind_eq in E. exists [], t. split; [reflexivity|]. split; [exact E|apply Plain_nil].
    + dmatch H. destruct r0 as [|c0 r2]; [discriminate H|]. dmatch H. dmatch H.
      apply IHv in E2. destruct E2 as (p1 & -> & Hp1 & _).
      apply IHo in H. destruct H as (p2 & c & -> & Hc & Hp2).
      apply is_kind_eq in E0. apply is_kind_eq in E1.
      exists (t :: c0 :: p1 ++ p2), c. split; [simpl; rewrite <- app_assoc; reflexivity|]. split; [exact Hc|].
      apply Plain_cons; [rewrite E0; reflexivity|]. apply Plain_cons; [rewrite E1; reflexivity|].
      apply Plain_app; assumption.
Qed.

Lemma value_shape1 : forall fuel ts v r, parse_value fuel ts = Ok v r -> exists pre, ts = pre ++ r /\ Plain pre /\ pre <> [].
Proof. intros fuel. apply (value_shape fuel). Qed.

(* ---- types ---- *)
Lemma type_shape : forall fuel ts ty r, parse_type fuel ts = Ok ty r -> exists pre, ts = pre ++ r /\ Plain pre /\ pre <> [].
Proof.
  induction fuel as [|f IH]; intros ts ty r H; [discriminate H|].
  cbn [parse_type] in H. destruct ts as [|t r0]; [discriminate H|].
  (* the optional bang after a type that ends at r1 *)
  assert (Bang : forall t0 r1 ty' r',
    match r1 with
    | b :: r2 => if is_kind KBang b then match r2 with
                                         | b2 :: _ => if is_kind KBang b2 then Err else Ok (TNonNull t0) r2
                                         | [] => Ok (TNonNull t0) r2 end
                 else Ok t0 r1
    | [] => Ok t0 r1
    end = Ok ty' r' -> r1 = r' \/ exists b, r1 = b :: r' /\ pk b = KBang).
  { intros t0 r1 ty' r' Hb. destruct r1 as [|b r2]; [inversion Hb; auto|].
    destruct (is_kind KBang b) eqn:Eb; [|inversion Hb; auto].
    apply is_kind_eq in Eb. right. exists b.
    destruct r2 as [|b2 r3]; [inversion Hb; auto|].
    destruct (is_kind KBang b2); [discriminate Hb|inversion Hb; auto]. }
  dmatch H.
  - apply is_kind_eq in E. apply Bang in H. destruct H as [->|(b & -> & Hb)].
    + exists [t]. split; [reflexivity|]. split; [eapply Plain_tok_kind; [eassumption|reflexivity]|discriminate].
    + exists [t; b]. split; [reflexivity|]. split; [|discriminate].
      apply Plain_cons; [rewrite E; reflexivity|eapply Plain_tok_kind; [eassumption|reflexivity]].
  - dmatch H. dmatch H. apply is_kind_eq in E0. apply IH in E1. destruct E1 as (p1 & -> & Hp1 & _).
    destruct rest as [|c r2]; [discriminate H|]. dmatch H. apply is_kind_eq in E1.
    apply Bang in H. destruct H as [->|(b & -> & Hb)].
    + exists (t :: p1 ++ [c]). split; [simpl; rewrite <- app_assoc; reflexivity|]. split; [|discriminate].
      apply Plain_cons; [rewrite E0; reflexivity|]. apply Plain_app; [assumption|eapply Plain_tok_kind; [eassumption|reflexivity]].
    + exists (t :: p1 ++ [c; b]). split; [simpl; rewrite <- app_assoc; reflexivity|]. split; [|discriminate].
      apply Plain_cons; [rewrite E0; reflexivity|]. apply Plain_app; [assumption|].
      apply Plain_cons; [rewrite E1; reflexivity|eapply Plain_tok_kind; [eassumption|reflexivity]].
Qed.

(* ---- arguments ---- *)
Lemma args_shape : forall fuel ts acc a r, parse_args fuel ts acc = Ok a r -> exists pre, ts = pre ++ r /\ Plain pre /\ pre <> [].
Proof.
  induction fuel as [|f IH]; intros ts acc a r H; [discriminate H|].
  cbn [parse_args] in H. destruct ts as [|t r0]; [discriminate H|]. dmatch H.
  - destruct r0 as [|c r2]; [discriminate H|]. dmatch H. dmatch H.
    apply is_kind_eq in E. apply is_kind_eq in E0.
    apply value_shape1 in E1. destruct E1 as (p1 & -> & Hp1 & _).
    apply IH in H. destruct H as (p2 & -> & Hp2 & _).
    exists (t :: c :: p1 ++ p2). split; [simpl; rewrite <- app_assoc; reflexivity|]. split; [|discriminate].
    apply Plain_cons; [rewrite E; reflexivity|]. apply Plain_cons; [rewrite E0; reflexivity|]. apply Plain_app; assumption.
  - dmatch H. inversion H; subst. apply is_kind_eq in E0.
    exists [t]. split; [reflexivity|]. split; [eapply Plain_tok_kind; [eassumption|reflexivity]|discriminate].
Qed.

Lemma opt_args_shape : forall fuel ts a r, parse_opt_args fuel ts = Ok a r -> exists pre, ts = pre ++ r /\ Plain pre.
Proof.
  intros fuel ts a r H. unfold parse_opt_args in H.
  destruct ts as [|t r0]; [inversion H; subst; exists []; split; [reflexivity|apply Plain_nil]|].
  destruct (is_kind KLParen t) eqn:E.
  - apply is_kind_eq in E. apply args_shape in H. destruct H as (p & -> & Hp & _).
    exists (t :: p). split; [reflexivity|]. apply Plain_cons; [rewrite E; reflexivity|assumption].
  - inversion H; subst. exists []. split; [reflexivity|apply Plain_nil].
Qed.

(* ---- directives: nothing (and then the next token is not '@'), or '@' name and a plain rest ---- *)
Definition DirsShape (ts pre : list ptoken) : Prop :=
  (pre = [] /\ (forall t r, ts = t :: r -> pk t <> KAt)) \/
  (exists a n pre', pre = a :: n :: pre' /\ pk a = KAt /\ pk n = KIdent /\ Plain pre').

Lemma dirs_shape : forall fuel ts acc ds r, parse_dirs fuel ts acc = Ok ds r ->
  exists pre, ts = pre ++ r /\ DirsShape ts pre.
Proof.
  induction fuel as [|f IH]; intros ts acc ds r H; [discriminate H|].
  cbn [parse_dirs] in H.
  destruct ts as [|t r0].
  { inversion H; subst. exists []. split; [reflexivity|]. left. split; [reflexivity|]. intros; discriminate. }
  destruct (is_kind KAt t) eqn:E.
  - apply is_kind_eq in E. destruct r0 as [|n r2]; [discriminate H|]. dmatch H. apply is_kind_eq in E0. dmatch H.
    apply opt_args_shape in E1. destruct E1 as (p1 & -> & Hp1).
    apply IH in H. destruct H as (p2 & -> & Hs).
    exists (t :: n :: p1 ++ p2). split; [simpl; rewrite <- app_assoc; reflexivity|].
    right. exists t, n, (p1 ++ p2). split; [reflexivity|]. split; [assumption|]. split; [assumption|].
    apply Plain_app; [assumption|].
    destruct Hs as [[-> _]|(a1 & n1 & pre1 & -> & Ha & Hn & Hp)]; [apply Plain_nil|].
    apply Plain_cons; [rewrite Ha; reflexivity|]. apply Plain_cons; [rewrite Hn; reflexivity|assumption].
  - inversion H; subst. exists []. split; [reflexivity|]. left. split; [reflexivity|].
    intros t' r' Heq. inversion Heq; subst. intro Hk. unfold is_kind in E. rewrite Hk in E. discriminate E.
Qed.

Lemma DirsShape_plain : forall ts pre, DirsShape ts pre -> Plain pre.
Proof.
  intros ts pre [[-> _]|(a & n & pre' & -> & Ha & Hn & Hp)]; [apply Plain_nil|].
  apply Plain_cons; [rewrite Ha; reflexivity|]. apply Plain_cons; [rewrite Hn; reflexivity|assumption].
Qed.

Lemma dirs_plain : forall fuel ts acc ds r, parse_dirs fuel ts acc = Ok ds r -> exists pre, ts = pre ++ r /\ Plain pre.
Proof.
  intros. apply dirs_shape in H. destruct H as (pre & E & Hs). exists pre. split; [exact E|eapply DirsShape_plain; eassumption].
Qed.

(* ---- variable definitions (after the opening parenthesis, up to and including the closing one) ---- *)
Lemma vardefs_shape : forall fuel ts acc vs r, parse_vardefs fuel ts acc = Ok vs r -> exists pre, ts = pre ++ r /\ Plain pre /\ pre <> [].
Proof.
  induction fuel as [|f IH]; intros ts acc vs r H; [discriminate H|].
  cbn [parse_vardefs] in H. destruct ts as [|t r0]; [discriminate H|]. dmatch H.
  { inversion H; subst. apply is_kind_eq in E.
    exists [t]. split; [reflexivity|]. split; [eapply Plain_tok_kind; [eassumption|reflexivity]|discriminate]. }
  dmatch H. dmatch H. apply is_kind_eq in E1.
  destruct r0 as [|v r1]; [discriminate H|]. dmatch H. apply andb_prop in E2. destruct E2 as [E2 _]. apply is_kind_eq in E2.
  destruct r1 as [|c r2]; [discriminate H|]. dmatch H. apply is_kind_eq in E3. dmatch H.
  apply type_shape in E4. destruct E4 as (pt & -> & Hpt & _).
  (* default value or not, then directives, then the rest of the list *)
  assert (Tail : exists ptail, rest = ptail ++ r /\ Plain ptail).
  { assert (Fin : forall dv r4, match parse_dirs f r4 [] with
                                | Ok dirs r5 => parse_vardefs f r5 ({| vd_name := plit v; vd_type := a; vd_default := dv; vd_dirs := dirs |} :: acc)
                                | Err => Err | Unsup => Unsup | Oof => Oof end = Ok vs r ->
                   exists p, r4 = p ++ r /\ Plain p).
    { intros dv r4 Hf. dmatch Hf. apply dirs_plain in E4. destruct E4 as (pd & -> & Hpd).
      apply IH in Hf. destruct Hf as (pv & -> & Hpv & _).
      exists (pd ++ pv). split; [rewrite <- app_assoc; reflexivity|apply Plain_app; assumption]. }
    destruct rest as [|e r4]; [apply (Fin None [] H)|].
    destruct (is_kind KEquals e) eqn:Ee; [|apply (Fin None (e :: r4) H)].
    apply is_kind_eq in Ee. dmatch H. apply value_shape1 in E4. destruct E4 as (pv & -> & Hpv & _).
    apply Fin in H. destruct H as (p & -> & Hp).
    exists (e :: pv ++ p). split; [simpl; rewrite <- app_assoc; reflexivity|].
    apply Plain_cons; [rewrite Ee; reflexivity|apply Plain_app; assumption]. }
  destruct Tail as (ptail & -> & Hptail).
  exists (t :: v :: c :: pt ++ ptail). split; [simpl; rewrite <- app_assoc; reflexivity|]. split; [|discriminate].
  apply Plain_cons; [rewrite E1; reflexivity|]. apply Plain_cons; [rewrite E2; reflexivity|].
  apply Plain_cons; [rewrite E3; reflexivity|]. apply Plain_app; assumption.
Qed.

(* ---- selections ---- *)
Definition SelsetSpec (selset : list ptoken -> res (list selection)) : Prop :=
  forall ts sels r, selset ts = Ok sels r -> exists pre, ts = pre ++ r /\ SetOK sels pre /\ sels <> [] /\ pre <> [].

Lemma field_tail_shape : forall selset f alias nm r1 s r, SelsetSpec selset ->
  field_tail selset f alias nm r1 = Ok s r ->
  exists mid sub args dirs sels, r1 = mid ++ sub ++ r /\ Plain mid /\ SetOK sels sub /\ s = SField alias nm args dirs sels.
Proof.
  intros selset f alias nm r1 s r HS H. unfold field_tail in H.
  dmatch H. apply opt_args_shape in E. destruct E as (pa & -> & Hpa).
  dmatch H. apply dirs_plain in E. destruct E as (pd & -> & Hpd).
  assert (Hmid : Plain (pa ++ pd)) by (apply Plain_app; assumption).
  destruct rest0 as [|b r4].
  { inversion H; subst. exists (pa ++ pd), [], a, a0, []. rewrite <- app_assoc. splits; try assumption; try apply SetOK_none; try exact Hmid; try reflexivity. }
  destruct (is_kind KLBrace b) eqn:Eb.
  - dmatch H. inversion H; subst. apply HS in E. destruct E as (ps & -> & Hset & _ & _).
    exists (pa ++ pd), ps, a, a0, a1. rewrite <- app_assoc. splits; try assumption; try exact Hmid; try reflexivity.
  - inversion H; subst. exists (pa ++ pd), [], a, a0, []. rewrite <- app_assoc. splits; try assumption; try apply SetOK_none; try exact Hmid; try reflexivity.
Qed.

Lemma inline_tail_shape : forall selset f tc r1 s r, SelsetSpec selset ->
  inline_tail selset f tc r1 = Ok s r ->
  exists pd sub dirs sels, r1 = pd ++ sub ++ r /\ DirsShape r1 pd /\ SetOK sels sub /\ s = SInline tc dirs sels /\
    (sels = [] -> sub = [] /\ forall b r', r = b :: r' -> pk b <> KLBrace).
Proof.
  intros selset f tc r1 s r HS H. unfold inline_tail in H.
  dmatch H. apply dirs_shape in E. destruct E as (pd & -> & Hpd).
  destruct rest as [|b r4].
  { inversion H; subst. exists pd, [], a, []. splits; try assumption; try apply SetOK_none; try reflexivity.
    intros _. split; [reflexivity|]. intros; discriminate. }
  destruct (is_kind KLBrace b) eqn:Eb.
  - dmatch H. inversion H; subst. pose proof E as E'. apply HS in E. destruct E as (ps & Eq & Hset & Hne & Hpne).
    exists pd, ps, a, a0. rewrite Eq. splits; try assumption; try reflexivity.
    + rewrite <- Eq. exact Hpd.
    + intro; congruence.
  - inversion H; subst. exists pd, [], a, []. splits; try assumption; try apply SetOK_none; try reflexivity.
    intros _. split; [reflexivity|]. intros b0 r' Heq. inversion Heq; subst. intro Hk.
    unfold is_kind in Eb. rewrite Hk in Eb. discriminate Eb.
Qed.

Lemma rev_nonnil : forall {A} (l : list A), l <> [] -> rev l <> [].
Proof. intros A l H E. apply (f_equal (@rev A)) in E. rewrite rev_involutive in E. simpl in E. contradiction. Qed.

Lemma sel_shape : forall fuel,
  SelsetSpec (parse_selset fuel) /\
  (forall ts acc sels r, parse_sels fuel ts acc = Ok sels r ->
     exists body c more, ts = body ++ c :: r /\ pk c = KRBrace /\ sels = rev acc ++ more /\ SelsOK more body /\ sels <> []) /\
  (forall ts s r, parse_field fuel ts = Ok s r -> exists pre, ts = pre ++ r /\ SelOK s pre /\ pre <> []) /\
  (forall ts s r, parse_frag_sel fuel ts = Ok s r ->
     exists pre, ts = pre ++ r /\ forall s0, pk s0 = KSpread -> SelOK s (s0 :: pre)).
Proof.
  induction fuel as [|f IH]; [splits; try (intros; discriminate); intros ts sels r H; discriminate H|].
  destruct IH as (IHset & IHsels & IHfield & IHfrag). splits.
  - (* selection set *)
    intros ts sels r H. cbn [parse_selset] in H.
    destruct ts as [|t r0]; [discriminate H|]. dmatch H. apply is_kind_eq in E.
    apply IHsels in H. destruct H as (body & c & more & -> & Hc & Hs & Hok & Hne). simpl in Hs. subst more.
    exists (t :: body ++ [c]). splits.
    + simpl. rewrite <- app_assoc. reflexivity.
    + apply SetOK_some; assumption.
    + assumption.
    + discriminate.
  - (* the loop *)
    intros ts acc sels r H. cbn [parse_sels] in H.
    destruct ts as [|t r0]; [discriminate H|]. dmatch H.
    { apply is_kind_eq in E. destruct acc as [|a0 acc']; [discriminate H|]. inversion H; subst.
      exists [], t, []. splits; try reflexivity; try assumption.
      - rewrite app_nil_r. reflexivity.
      - apply SelsOK_nil.
      - intro Hx. apply app_eq_nil in Hx. destruct Hx as [_ Hx]. discriminate Hx. }
    dmatch H.
    { dmatch H. apply IHfield in E1. destruct E1 as (p1 & Eq & Hp1 & _).
      apply IHsels in H. destruct H as (body & c & more & -> & Hc & Hs & Hok & Hne).
      exists (p1 ++ body), c, (a :: more). rewrite Eq. splits; try assumption.
      - rewrite <- app_assoc. reflexivity.
      - rewrite Hs. simpl. rewrite <- app_assoc. reflexivity.
      - apply SelsOK_cons; assumption. }
    dmatch H. dmatch H. apply is_kind_eq in E1.
    apply IHfrag in E2. destruct E2 as (p1 & -> & Hp1).
    apply IHsels in H. destruct H as (body & c & more & -> & Hc & Hs & Hok & Hne).
    exists ((t :: p1) ++ body), c, (a :: more). splits; try assumption.
    + simpl. rewrite <- app_assoc. reflexivity.
    + rewrite Hs. simpl. rewrite <- app_assoc. reflexivity.
    + apply SelsOK_cons; [apply Hp1; assumption|assumption].
  - (* field *)
    intros ts s r H. cbn [parse_field] in H.
    destruct ts as [|t r0]; [discriminate H|].
    destruct (is_kind KIdent t) eqn:Et; [|discriminate H]. simpl in H. apply is_kind_eq in Et.
    assert (Hd1 : FieldsOK 1 [t] /\ Plain [t]).
    { split; [apply FieldsOK_ident; assumption|eapply Plain_tok_kind; [eassumption|reflexivity]]. }
    assert (Plainhd : forall r1, field_tail (parse_selset f) f None (plit t) r1 = Ok s r ->
              exists pre, t :: r1 = pre ++ r /\ SelOK s pre /\ pre <> []).
    { intros r1 Ht. apply field_tail_shape in Ht; [|exact IHset].
      destruct Ht as (mid & sub & args & dirs & sels & -> & Hm & Hset & ->).
      exists ([t] ++ mid ++ sub). splits; [simpl; rewrite <- app_assoc; reflexivity| |discriminate].
      apply SelOK_field; tauto. }
    destruct r0 as [|c r1]; [apply Plainhd; exact H|].
    destruct (is_kind KColon c) eqn:Ec; [|apply Plainhd; exact H].
    apply is_kind_eq in Ec. destruct r1 as [|n r2]; [discriminate H|]. dmatch H. apply is_kind_eq in E.
    apply field_tail_shape in H; [|exact IHset].
    destruct H as (mid & sub & args & dirs & sels & -> & Hm & Hset & ->).
    exists ([t; c; n] ++ mid ++ sub). splits; [simpl; rewrite <- app_assoc; reflexivity| |discriminate].
    apply SelOK_field; try assumption.
    + apply (FieldsOK_weaken _ (1 + (0 + 1))); [lia|].
      change [t; c; n] with ([t] ++ [c] ++ [n]).
      apply FieldsOK_app; [apply FieldsOK_ident; assumption|].
      apply FieldsOK_app; [apply FieldsOK_plain; eapply Plain_tok_kind; [eassumption|reflexivity]|apply FieldsOK_ident; assumption].
    + apply Plain_cons; [rewrite Et; reflexivity|]. apply Plain_cons; [rewrite Ec; reflexivity|].
      eapply Plain_tok_kind; [eassumption|reflexivity].
  - (* after a spread *)
    intros ts s r H. cbn [parse_frag_sel] in H.
    destruct ts as [|t r0]; [discriminate H|].
    destruct (is_kind KLBrace t || is_kind KAt t) eqn:E1.
    { apply inline_tail_shape in H; [|exact IHset].
      destruct H as (pd & sub & dirs & sels & Eq & Hd & Hset & -> & Hnil).
      exists (pd ++ sub). split; [rewrite <- app_assoc; exact Eq|].
      intros s0 Hs0.
      destruct Hd as [[-> Hnot]|(a & n & pre' & -> & Ha & Hn & Hp)].
      - (* no directive: the brace follows the spread directly, so the set is non-empty *)
        assert (Hne : sels <> []).
        { intro Hs. destruct (Hnil Hs) as [-> Hnb]. simpl in Eq.
          apply Bool.orb_true_iff in E1. destruct E1 as [E1|E1]; apply is_kind_eq in E1.
          - apply (Hnb t r0); [symmetry; exact Eq|exact E1].
          - apply (Hnot t r0 eq_refl). exact E1. }
        change (s0 :: [] ++ sub) with (s0 :: [] ++ [] ++ sub).
        apply SelOK_inline; try assumption; [left; auto|apply Plain_nil].
      - change (s0 :: (a :: n :: pre') ++ sub) with (s0 :: ([a] ++ [n]) ++ pre' ++ sub).
        apply SelOK_inline; try assumption.
        right. exists [a], n. splits; [reflexivity|assumption|]. intros x [<-|[]]. assumption. }
    dmatch H. apply is_kind_eq in E.
    destruct (is_on t) eqn:Eon.
    + destruct r0 as [|n r1]; [discriminate H|]. dmatch H. apply is_kind_eq in E0.
      apply inline_tail_shape in H; [|exact IHset].
      destruct H as (pd & sub & dirs & sels & -> & Hd & Hset & -> & Hnil).
      exists (t :: n :: pd ++ sub). split; [simpl; rewrite <- app_assoc; reflexivity|].
      intros s0 Hs0.
      change (s0 :: t :: n :: pd ++ sub) with (s0 :: ([] ++ [t]) ++ (n :: pd) ++ sub).
      apply SelOK_inline; try assumption.
      * right. exists [], t. splits; [reflexivity|assumption|]. intros x [].
      * apply Plain_cons; [rewrite E0; reflexivity|eapply DirsShape_plain; eassumption].
    + dmatch H. inversion H; subst. apply dirs_plain in E0. destruct E0 as (pd & -> & Hpd).
      exists (t :: pd). split; [reflexivity|]. intros s0 Hs0. apply SelOK_spread; assumption.
Qed.

(* ---- definitions and documents ---- *)
Open Scope Z_scope.
Definition DocOK (l : list definition) (pre : list ptoken) : Prop :=
  (forall cm st, l_local st = 0 ->
     l_local (lrun true cm pre st) = 0 /\ l_fields st + doc_fields l <= l_fields (lrun true cm pre st))
  /\ DepthOK (doc_depth l) pre.

Lemma DocOK_nil : DocOK [] [].
Proof. split; [intros cm st H; simpl; lia|apply DepthOK_state; apply StateOK_nil]. Qed.

Lemma DocOK_cons : forall d hdr sub l rest, Plain hdr -> SetOK (def_sels d) sub -> DocOK l rest ->
  DocOK (d :: l) (hdr ++ sub ++ rest).
Proof.
  intros d hdr sub l rest (H1 & H2 & _) (S1 & S2 & _) [D1 D2]. split.
  - intros cm st Hst. rewrite !lrun_app.
    destruct (H1 cm st) as (A1 & A2 & _); [lia|].
    destruct (S1 cm (lrun true cm hdr st)) as (B1 & B2 & _); [lia|].
    destruct (D1 cm (lrun true cm sub (lrun true cm hdr st))) as (C1 & C2); [lia|].
    simpl doc_fields. split; lia.
  - simpl doc_depth. apply DepthOK_after; [exact H2|]. apply DepthOK_max; assumption.
Qed.

(* the cumulative depth (current accounting): from a state between definitions, an accepted run has
   checked global + peak + the sum of the depths of the definitions, and ends between definitions *)
Definition CumOK (l : list definition) (pre : list ptoken) : Prop :=
  forall L F st rest a b, 0 < L ->
    l_local st = 0 -> l_paren st = 0 -> l_open st = true -> 0 <= l_peak st ->
    lim_run true true L F (pre ++ rest) st = (LOk, a, b) ->
    (0 < depth_sum l -> l_global st + l_peak st + depth_sum l <= L) /\
    l_local (lrun true true pre st) = 0 /\ l_paren (lrun true true pre st) = 0 /\
    l_open (lrun true true pre st) = true /\ 0 <= l_peak (lrun true true pre st) /\
    l_global st + l_peak st + depth_sum l <= l_global (lrun true true pre st) + l_peak (lrun true true pre st).

Lemma CumOK_nil : CumOK [] [].
Proof. intros L F st rest a b HL H1 H2 H3 H4 H. simpl. repeat split; auto; lia. Qed.

Lemma depth_sum_nonneg : forall l, 0 <= depth_sum l.
Proof. induction l as [|x r IH]; simpl; [lia|]. pose proof (selset_depth_nonneg (def_sels x)). lia. Qed.

(* one definition, from a state between definitions.  [hd] is empty for the shorthand operation and
   starts with the definition keyword otherwise. *)
Lemma CumOK_def : forall d hd sub,
  (hd = [] \/ exists kw hdr, hd = kw :: hdr /\ pk kw = KIdent /\ is_def_kw (keyword_of (plit kw)) = true /\ Plain hdr) ->
  SetOK (def_sels d) sub -> def_sels d <> [] -> pnet (hd ++ sub) = 0 ->
  forall L F st rest a b, 0 < L ->
    l_local st = 0 -> l_paren st = 0 -> l_open st = true -> 0 <= l_peak st ->
    lim_run true true L F ((hd ++ sub) ++ rest) st = (LOk, a, b) ->
    l_global st + l_peak st + selset_depth (def_sels d) <= L /\
    l_local (lrun true true (hd ++ sub) st) = 0 /\ l_paren (lrun true true (hd ++ sub) st) = 0 /\
    l_open (lrun true true (hd ++ sub) st) = true /\ 0 <= l_peak (lrun true true (hd ++ sub) st) /\
    l_global st + l_peak st + selset_depth (def_sels d) <=
      l_global (lrun true true (hd ++ sub) st) + l_peak (lrun true true (hd ++ sub) st).
Proof.
  intros d hd sub Hhd (S1 & S2 & S3 & S4 & S5) Hne Hpn L F st rest a b HL Hl Hpa Hop Hpk H.
  assert (Hdep : 0 < selset_depth (def_sels d)).
  { unfold selset_depth. destruct (def_sels d); [congruence|]. pose proof (sels_maxdepth_nonneg (s :: l)). lia. }
  assert (Hparen : l_paren (lrun true true (hd ++ sub) st) = 0) by (rewrite lrun_paren; lia).
  destruct Hhd as [->|(kw & hdr & -> & Hk & Hkw & Hplain)].
  - (* shorthand: the brace starts a new period *)
    simpl app in *.
    assert (Hs : starts_shorthand true st = true).
    { unfold starts_shorthand. rewrite Hop. replace (l_local st <=? 0) with true by lia. replace (l_paren st <=? 0) with true by lia. reflexivity. }
    destruct (S4 true st Hl Hpk) as (T1 & T2 & T3 & T4 & T5).
    split; [eapply S5; eassumption|]. repeat split; auto.
  - (* keyword: the keyword starts the period, the header is plain, the set follows *)
    change ((kw :: hdr) ++ sub) with ([kw] ++ hdr ++ sub) in *.
    rewrite <- !app_assoc in H. simpl app in H. apply lim_run_step_ok in H.
    rewrite !lrun_app in *. cbn [lrun] in *.
    remember (lstep true true kw st) as s1 eqn:Es1.
    assert (K1 : l_global s1 = l_global st + l_peak st /\ l_local s1 = 0 /\ l_peak s1 = 0).
    { subst s1. unfold lstep. rewrite Hk, Hkw. replace (l_local st <=? 0) with true by lia. simpl. auto. }
    destruct K1 as (K1 & K2 & K3). clear Es1.
    apply lim_run_app_ok in H.
    destruct Hplain as (P1 & P2 & _).
    destruct (P1 true s1 ltac:(lia)) as (Q1 & _). destruct (P2 true true s1 ltac:(lia)) as (Q2 & Q3 & _).
    remember (lrun true true hdr s1) as s2 eqn:Es2. clear Es2.
    destruct S2 as [D1 _].
    pose proof (D1 true true L F s2 rest a b HL Q3 Hdep H) as Hb.
    destruct (S4 true s2 ltac:(lia) Q3) as (T1 & T2 & T3 & T4 & _).
    repeat split; auto; try lia.
Qed.

Lemma CumOK_cons : forall d hd sub l rest,
  (hd = [] \/ exists kw hdr, hd = kw :: hdr /\ pk kw = KIdent /\ is_def_kw (keyword_of (plit kw)) = true /\ Plain hdr) ->
  SetOK (def_sels d) sub -> def_sels d <> [] -> pnet (hd ++ sub) = 0 ->
  CumOK l rest -> CumOK (d :: l) (hd ++ sub ++ rest).
Proof.
  intros d hd sub l rest Hhd Hset Hne Hpn Hrest L F st rest' a b HL H1 H2 H3 H4 H.
  rewrite app_assoc in *. rewrite <- (app_assoc (hd ++ sub)) in H.
  destruct (CumOK_def d hd sub Hhd Hset Hne Hpn L F st (rest ++ rest') a b HL H1 H2 H3 H4 H) as (B & C1 & C2 & C3 & C4 & C5).
  apply lim_run_app_ok in H.
  destruct (Hrest L F _ rest' a b HL C1 C2 C3 C4 H) as (B' & D1 & D2 & D3 & D4 & D5).
  rewrite lrun_app. simpl depth_sum. pose proof (depth_sum_nonneg l).
  repeat split; auto; try lia.
Qed.

Lemma operation_shape : forall f k ts d r, parse_operation f k ts = Ok d r ->
  exists hdr sub, ts = hdr ++ sub ++ r /\ Plain hdr /\ SetOK (def_sels d) sub /\ def_sels d <> [].
Proof.
  intros f k ts d r H. unfold parse_operation in H.
  (* optional name *)
  assert (Hn : exists pn r1, ts = pn ++ r1 /\ Plain pn /\
     (let '(nm, r1') := match ts with
                        | t :: r => if is_kind KIdent t then (Some (plit t), r) else (None, ts)
                        | [] => (None, ts) end in r1' = r1)).
  { destruct ts as [|t r0]; [exists [], []; splits; [reflexivity|apply Plain_nil|reflexivity]|].
    destruct (is_kind KIdent t) eqn:E.
    - apply is_kind_eq in E. exists [t], r0. splits; [reflexivity|eapply Plain_tok_kind; [eassumption|reflexivity]|reflexivity].
    - exists [], (t :: r0). splits; [reflexivity|apply Plain_nil|reflexivity]. }
  destruct Hn as (pn & r1 & -> & Hpn & Hr1).
  destruct (match pn ++ r1 with
            | t :: r => if is_kind KIdent t then (Some (plit t), r) else (None, pn ++ r1)
            | [] => (None, pn ++ r1) end) as [nm r1'] eqn:En. subst r1'.
  (* optional variable definitions *)
  assert (Hv : forall vs r2,
     match r1 with
     | t :: r => if is_kind KLParen t then parse_vardefs f r [] else Ok [] r1
     | [] => Ok [] r1 end = Ok vs r2 -> exists pv, r1 = pv ++ r2 /\ Plain pv).
  { intros vs r2 Hx. destruct r1 as [|t r0]; [inversion Hx; subst; exists []; split; [reflexivity|apply Plain_nil]|].
    destruct (is_kind KLParen t) eqn:E.
    - apply is_kind_eq in E. apply vardefs_shape in Hx. destruct Hx as (p & -> & Hp & _).
      exists (t :: p). split; [reflexivity|apply Plain_cons; [rewrite E; reflexivity|assumption]].
    - inversion Hx; subst. exists []. split; [reflexivity|apply Plain_nil]. }
  dmatch H. destruct (Hv _ _ eq_refl) as (pv & Epv & Hpv). clear Hv E. subst r1.
  dmatch H. apply dirs_plain in E. destruct E as (pd & -> & Hpd).
  dmatch H. inversion H; subst. apply (proj1 (sel_shape f)) in E. destruct E as (ps & -> & Hset & Hne & _).
  exists (pn ++ pv ++ pd), ps. splits.
  - rewrite <- !app_assoc. reflexivity.
  - apply Plain_app; [assumption|apply Plain_app; assumption].
  - exact Hset.
  - exact Hne.
Qed.

Lemma fragment_shape : forall f ts d r, parse_fragment f ts = Ok d r ->
  exists hdr sub, ts = hdr ++ sub ++ r /\ Plain hdr /\ SetOK (def_sels d) sub /\ def_sels d <> [].
Proof.
  intros f ts d r H. unfold parse_fragment in H.
  destruct ts as [|n [|o [|t r0]]]; try discriminate H.
  dmatch H. apply andb_prop in E. destruct E as [E E3]. apply andb_prop in E. destruct E as [E1 E2].
  apply is_kind_eq in E1. apply is_kind_eq in E3. unfold is_on in E2. apply andb_prop in E2. destruct E2 as [E2 _].
  apply is_kind_eq in E2.
  dmatch H. apply dirs_plain in E. destruct E as (pd & -> & Hpd).
  dmatch H. inversion H; subst. apply (proj1 (sel_shape f)) in E. destruct E as (ps & -> & Hset & Hne & _).
  exists (n :: o :: t :: pd), ps. splits; [reflexivity| |exact Hset|exact Hne].
  apply Plain_cons; [rewrite E1; reflexivity|]. apply Plain_cons; [rewrite E2; reflexivity|].
  apply Plain_cons; [rewrite E3; reflexivity|assumption].
Qed.

Lemma opkind_def_kw : forall kw k, opkind_of kw = Some k -> is_def_kw kw = true.
Proof. intros kw k H. destruct kw; simpl in H; try discriminate H; reflexivity. Qed.

Lemma defs_shape : forall fuel ts acc doc r, parse_defs fuel ts acc = Ok doc r ->
  r = [] /\ exists more, doc = rev acc ++ more /\ DocOK more ts /\ CumOK more ts.
Proof.
  induction fuel as [|f IH]; intros ts acc doc r H; [discriminate H|].
  cbn [parse_defs] in H. destruct ts as [|t r0].
  { inversion H; subst. split; [reflexivity|]. exists []. split; [rewrite app_nil_r; reflexivity|split; [apply DocOK_nil|apply CumOK_nil]]. }
  assert (Cont : forall (x : res definition),
     pk t = KIdent -> is_def_kw (keyword_of (plit t)) = true ->
     match x with
     | Ok d r' => parse_defs f r' (d :: acc)
     | Err => Err | Unsup => Unsup | Oof => Oof end = Ok doc r ->
     (forall d r', x = Ok d r' -> (exists hdr sub, r0 = hdr ++ sub ++ r' /\ Plain hdr /\ SetOK (def_sels d) sub /\ def_sels d <> [])
                                  /\ pnet r0 = pnet r') ->
     r = [] /\ exists more, doc = rev acc ++ more /\ DocOK more (t :: r0) /\ CumOK more (t :: r0)).
  { intros x Hk Hkw Hx Hs. destruct x as [d r'| | |]; try discriminate Hx.
    destruct (Hs d r' eq_refl) as ((hdr & sub & -> & Hh & Hset & Hne) & Hpn).
    apply IH in Hx. destruct Hx as (-> & more & -> & Hdoc & Hcum). split; [reflexivity|].
    exists (d :: more). split; [simpl; rewrite <- app_assoc; reflexivity|].
    assert (Ht : Plain [t]) by (eapply Plain_tok_kind; [eassumption|reflexivity]).
    change (t :: hdr ++ sub ++ r') with ((t :: hdr) ++ sub ++ r'). split.
    - change (t :: hdr) with ([t] ++ hdr). apply DocOK_cons; [apply Plain_app; assumption|assumption|assumption].
    - apply CumOK_cons; try assumption.
      + right. exists t, hdr. auto.
      + rewrite !pnet_app in Hpn. change ((t :: hdr) ++ sub) with (t :: hdr ++ sub). cbn [pnet]. rewrite Hk, pnet_app. simpl pdelta. lia. }
  dmatch H.
  { (* anonymous query *)
    dmatch H. pose proof (selset_paren _ _ _ _ E0) as Hpn.
    apply (proj1 (sel_shape f)) in E0. destruct E0 as (ps & Eq & Hset & Hne & _).
    apply IH in H. destruct H as (-> & more & -> & Hdoc & Hcum). split; [reflexivity|].
    eexists (_ :: more). split; [simpl; rewrite <- app_assoc; reflexivity|].
    rewrite Eq in *. change (ps ++ rest) with ([] ++ ps ++ rest). split.
    - apply DocOK_cons; [apply Plain_nil|exact Hset|assumption].
    - apply CumOK_cons; try assumption; [left; reflexivity|]. rewrite pnet_app in Hpn. simpl. lia. }
  dmatch H. dmatch H. apply is_kind_eq in E1.
  destruct (opkind_of (keyword_of (plit t))) as [k|] eqn:Ek.
  - apply (Cont _ E1 (opkind_def_kw _ _ Ek) H). intros d r' Hx. split; [apply operation_shape in Hx; exact Hx|eapply operation_paren; exact Hx].
  - destruct (keyword_of (plit t)) eqn:Ekw; try discriminate H;
      try (simpl in H; discriminate H).
    apply (Cont (parse_fragment f r0) E1); [reflexivity|exact H|].
    intros d r' Hx. split; [apply fragment_shape in Hx; exact Hx|eapply fragment_paren; exact Hx].
Qed.

(* ---- the limit theorems on token streams ---- *)
Lemma parse_docok : forall ts d r, parse ts = Ok d r -> r = [] /\ DocOK d ts /\ CumOK d ts.
Proof.
  intros ts d r H. unfold parse in H. apply defs_shape in H.
  destruct H as (-> & more & -> & Hd & Hc). split; [reflexivity|split; assumption].
Qed.

(* depth of each definition: for every version of the accounting *)
Theorem limits_depth_sound_proof : forall fx cm L F ts d r,
  parse (strip ts) = Ok d r -> 0 < L -> L < doc_depth d ->
  fst (fst (lim_run fx cm L F ts linit)) <> LOk.
Proof.
  intros fx cm L F ts d r Hp HL Hd Hv.
  destruct (lim_run fx cm L F ts linit) as [[v a] b] eqn:Hr. simpl in Hv. subst v.
  rewrite <- lim_run_strip in Hr.
  apply parse_docok in Hp. destruct Hp as (_ & (_ & (D1 & _)) & _).
  specialize (D1 fx cm L F linit [] a b HL). rewrite app_nil_r in D1.
  simpl in D1. specialize (D1 ltac:(lia) ltac:(lia) Hr). lia.
Qed.

(* cumulative depth (sum over the definitions): for the current accounting *)
Theorem limits_cumulative_depth_sound_proof : forall L F ts d r,
  parse (strip ts) = Ok d r -> 0 < L -> L < depth_sum d ->
  fst (fst (lim_run true true L F ts linit)) <> LOk.
Proof.
  intros L F ts d r Hp HL Hd Hv.
  destruct (lim_run true true L F ts linit) as [[v a] b] eqn:Hr. simpl in Hv. subst v.
  rewrite <- lim_run_strip in Hr.
  apply parse_docok in Hp. destruct Hp as (_ & _ & C).
  specialize (C L F linit [] a b HL eq_refl eq_refl eq_refl ltac:(simpl; lia)). rewrite app_nil_r in C.
  destruct (C Hr) as (B & _). simpl in B. specialize (B ltac:(lia)). lia.
Qed.

(* fields of the whole document: for the accounting since the first repair *)
Theorem limits_fields_sound_proof : forall cm L F ts d r,
  parse (strip ts) = Ok d r -> 0 < F -> F < doc_fields d ->
  fst (fst (lim_run true cm L F ts linit)) <> LOk.
Proof.
  intros cm L F ts d r Hp HF Hd Hv.
  destruct (lim_run true cm L F ts linit) as [[v a] b] eqn:Hr. simpl in Hv. subst v.
  rewrite <- lim_run_strip in Hr.
  apply parse_docok in Hp. destruct Hp as (_ & (D1 & _) & _).
  destruct (lim_run_fields _ _ _ _ _ _ _ _ Hr) as [Eb Hle].
  destruct (D1 cm linit eq_refl) as [_ Hf]. simpl in Hf, Hle.
  specialize (Hle HF ltac:(lia)). lia.
Qed.

Theorem limits_sound_proof : forall L F ts d r,
  parse (strip ts) = Ok d r -> exceeds_cum L F d ->
  fst (fst (lim_run true true L F ts linit)) <> LOk.
Proof.
  intros L F ts d r Hp [[H1 H2]|[H1 H2]].
  - eapply limits_cumulative_depth_sound_proof; eassumption.
  - eapply limits_fields_sound_proof; eassumption.
Qed.
