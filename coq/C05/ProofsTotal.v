(* C05: the parser model never runs out of fuel: [parse ts] is [Ok], [Err] or [Unsup].
   Measure: 3 * (tokens left) + rank of the function; every call either consumes a token or goes
   to a function of lower rank. *)
From Gv Require Import lib.Bytes lib.Gql C05.Lex C05.Parse C05.Limits C05.Spec C05.ProofsLimits C05.ProofsParse.
From Coq Require Import Lia.
Close Scope N_scope.
Open Scope nat_scope.

Lemma app_len_le : forall {A} (ts pre r : list A), ts = pre ++ r -> length r <= length ts.
Proof. intros. subst. rewrite app_length. lia. Qed.
Lemma app_len_lt : forall {A} (ts pre r : list A), ts = pre ++ r -> pre <> [] -> length r < length ts.
Proof. intros. subst. rewrite app_length. destruct pre; [contradiction|simpl; lia]. Qed.

Lemma value_len : forall f ts v r, parse_value f ts = Ok v r -> length r < length ts.
Proof. intros. apply value_shape1 in H. destruct H as (p & E & _ & N). eapply app_len_lt; eassumption. Qed.
Lemma type_len : forall f ts v r, parse_type f ts = Ok v r -> length r < length ts.
Proof. intros. apply type_shape in H. destruct H as (p & E & _ & N). eapply app_len_lt; eassumption. Qed.
Lemma args_len : forall f ts acc v r, parse_args f ts acc = Ok v r -> length r < length ts.
Proof. intros. apply args_shape in H. destruct H as (p & E & _ & N). eapply app_len_lt; eassumption. Qed.
Lemma optargs_len : forall f ts v r, parse_opt_args f ts = Ok v r -> length r <= length ts.
Proof. intros. apply opt_args_shape in H. destruct H as (p & E & _). eapply app_len_le; eassumption. Qed.
Lemma dirs_len : forall f ts acc v r, parse_dirs f ts acc = Ok v r -> length r <= length ts.
Proof. intros. apply dirs_plain in H. destruct H as (p & E & _). eapply app_len_le; eassumption. Qed.
Lemma vardefs_len : forall f ts acc v r, parse_vardefs f ts acc = Ok v r -> length r < length ts.
Proof. intros. apply vardefs_shape in H. destruct H as (p & E & _ & N). eapply app_len_lt; eassumption. Qed.
Lemma selset_len : forall f ts v r, parse_selset f ts = Ok v r -> length r < length ts.
Proof. intros. apply (proj1 (sel_shape f)) in H. destruct H as (p & E & _ & _ & N). eapply app_len_lt; eassumption. Qed.
Lemma field_len : forall f ts v r, parse_field f ts = Ok v r -> length r < length ts.
Proof. intros. apply (proj1 (proj2 (proj2 (sel_shape f)))) in H. destruct H as (p & E & _ & N). eapply app_len_lt; eassumption. Qed.
Lemma fragsel_len : forall f ts v r, parse_frag_sel f ts = Ok v r -> length r <= length ts.
Proof. intros. apply (proj2 (proj2 (proj2 (sel_shape f)))) in H. destruct H as (p & E & _). eapply app_len_le; eassumption. Qed.

Ltac lens :=
  repeat match goal with
  | E : parse_value _ _ = Ok _ _ |- _ => apply value_len in E
  | E : parse_type _ _ = Ok _ _ |- _ => apply type_len in E
  | E : parse_args _ _ _ = Ok _ _ |- _ => apply args_len in E
  | E : parse_opt_args _ _ = Ok _ _ |- _ => apply optargs_len in E
  | E : parse_dirs _ _ _ = Ok _ _ |- _ => apply dirs_len in E
  | E : parse_vardefs _ _ _ = Ok _ _ |- _ => apply vardefs_len in E
  | E : parse_selset _ _ = Ok _ _ |- _ => apply selset_len in E
  | E : parse_field _ _ = Ok _ _ |- _ => apply field_len in E
  | E : parse_frag_sel _ _ = Ok _ _ |- _ => apply fragsel_len in E
  end.

Ltac step :=
  match goal with
  | |- Ok _ _ <> Oof => discriminate
  | |- Err <> Oof => discriminate
  | |- Unsup <> Oof => discriminate
  | |- (if ?b then _ else _) <> Oof => destruct b eqn:?
  | |- match ?x with _ => _ end <> Oof => destruct x eqn:?
  end.

(* a failed sub-call that claims Oof contradicts the induction hypothesis *)
Ltac oof_contra IH :=
  match goal with
  | E : _ = Oof |- _ => exfalso; revert E; apply IH; simpl in *; lens; simpl in *; lia
  end.

Lemma value_total : forall fuel,
  (forall ts, 3 * length ts < fuel -> parse_value fuel ts <> Oof) /\
  (forall ts acc, 3 * length ts + 1 < fuel -> parse_value_list fuel ts acc <> Oof) /\
  (forall ts acc, 3 * length ts + 1 < fuel -> parse_object_fields fuel ts acc <> Oof).
Proof.
  induction fuel as [|f IH]; [repeat split; intros; lia|].
  destruct IH as (IHv & IHl & IHo). repeat split.
  - intros ts H. cbn [parse_value]. repeat step; try (apply IHl; simpl in *; lia); try (apply IHo; simpl in *; lia).
  - intros ts acc H. cbn [parse_value_list]. repeat step; try (apply IHl; lens; simpl in *; lia); oof_contra IHv.
  - intros ts acc H. cbn [parse_object_fields]. repeat step; try (apply IHo; lens; simpl in *; lia); oof_contra IHv.
Qed.
