(* C05: the parser model never runs out of fuel: [parse ts] is [Ok], [Err] or [Unsup].
   Measure: 3 * (tokens left) + rank of the function; every call either consumes a token or goes
   to a function of lower rank. *)
From Gv Require Import lib.Bytes lib.Gql C05.Lex C05.Parse C05.Limits C05.Spec C05.ProofsLex C05.ProofsLimits C05.ProofsParse.
From Coq Require Import Lia.
Close Scope N_scope.
Open Scope nat_scope.

Lemma app_len_le : forall {A} (ts pre r : list A), ts = pre ++ r -> length r <= length ts.
Proof. intros. subst. rewrite app_length. lia. Qed.
Lemma app_len_lt : forall {A} (ts pre r : list A), ts = pre ++ r -> pre <> [] -> length r < length ts.
Proof. intros. subst. rewrite app_length. destruct pre; [contradiction|simpl; lia]. Qed.

Lemma value_len : forall f ts v r, parse_value f ts = Ok v r -> length r < length ts.
Proof. intros. apply value_shape1 in H. destruct H as (p & E & _ & N). eapply app_len_lt; eassumption. Qed.
Lemma type_len : forall f ts v r, parse_type f ts = Ok v r -> length r < length ts.
Proof. intros. apply type_shape in H. destruct H as (p & E & _ & N). eapply app_len_lt; eassumption. Qed.
Lemma args_len : forall f ts acc v r, parse_args f ts acc = Ok v r -> length r < length ts.
Proof. intros. apply args_shape in H. destruct H as (p & E & _ & N). eapply app_len_lt; eassumption. Qed.
Lemma optargs_len : forall f ts v r, parse_opt_args f ts = Ok v r -> length r <= length ts.
Proof. intros. apply opt_args_shape in H. destruct H as (p & E & _). eapply app_len_le; eassumption. Qed.
Lemma dirs_len : forall f ts acc v r, parse_dirs f ts acc = Ok v r -> length r <= length ts.
Proof. intros. apply dirs_plain in H. destruct H as (p & E & _). eapply app_len_le; eassumption. Qed.
Lemma vardefs_len : forall f ts acc v r, parse_vardefs f ts acc = Ok v r -> length r < length ts.
Proof. intros. apply vardefs_shape in H. destruct H as (p & E & _ & N). eapply app_len_lt; eassumption. Qed.
Lemma selset_len : forall f ts v r, parse_selset f ts = Ok v r -> length r < length ts.
Proof. intros. apply (proj1 (sel_shape f)) in H. destruct H as (p & E & _ & _ & N). eapply app_len_lt; eassumption. Qed.
Lemma field_len : forall f ts v r, parse_field f ts = Ok v r -> length r < length ts.
Proof. intros. apply (proj1 (proj2 (proj2 (sel_shape f)))) in H. destruct H as (p & E & _ & N). eapply app_len_lt; eassumption. Qed.
Lemma fragsel_len : forall f ts v r, parse_frag_sel f ts = Ok v r -> length r <= length ts.
Proof. intros. apply (proj2 (proj2 (proj2 (sel_shape f)))) in H. destruct H as (p & E & _). eapply app_len_le; eassumption. Qed.

Ltac lens :=
  repeat match goal with
  | E : parse_value _ _ = Ok _ _ |- _ => apply value_len in E
  | E : parse_type _ _ = Ok _ _ |- _ => apply type_len in E
  | E : parse_args _ _ _ = Ok _ _ |- _ => apply args_len in E
  | E : parse_opt_args _ _ = Ok _ _ |- _ => apply optargs_len in E
  | E : parse_dirs _ _ _ = Ok _ _ |- _ => apply dirs_len in E
  | E : parse_vardefs _ _ _ = Ok _ _ |- _ => apply vardefs_len in E
  | E : parse_selset _ _ = Ok _ _ |- _ => apply selset_len in E
  | E : parse_field _ _ = Ok _ _ |- _ => apply field_len in E
  | E : parse_frag_sel _ _ = Ok _ _ |- _ => apply fragsel_len in E
  end.

Ltac step :=
  match goal with
  | |- Ok _ _ <> Oof => discriminate
  | |- Err <> Oof => discriminate
  | |- Unsup <> Oof => discriminate
  | |- (if ?b then _ else _) <> Oof => destruct b eqn:?
  | |- match ?x with _ => _ end <> Oof => destruct x eqn:?
  end.

(* a failed sub-call that claims Oof contradicts the induction hypothesis *)
Ltac oof_contra IH :=
  match goal with
  | E : _ = Oof |- _ => exfalso; revert E; apply IH; simpl in *; lens; simpl in *; lia
  end.

Lemma value_total : forall fuel,
  (forall ts, 3 * length ts < fuel -> parse_value fuel ts <> Oof) /\
  (forall ts acc, 3 * length ts + 1 < fuel -> parse_value_list fuel ts acc <> Oof) /\
  (forall ts acc, 3 * length ts + 1 < fuel -> parse_object_fields fuel ts acc <> Oof).
Proof.
  induction fuel as [|f IH]; [repeat split; intros; lia|].
  destruct IH as (IHv & IHl & IHo). repeat split.
  - intros ts H. cbn [parse_value]. repeat step; try (apply IHl; simpl in *; lia); try (apply IHo; simpl in *; lia).
  - intros ts acc H. cbn [parse_value_list]. repeat step; try (apply IHl; lens; simpl in *; lia); oof_contra IHv.
  - intros ts acc H. cbn [parse_object_fields]. repeat step; try (apply IHo; lens; simpl in *; lia); oof_contra IHv.
Qed.

Lemma value_total1 : forall fuel ts, 3 * length ts < fuel -> parse_value fuel ts <> Oof.
Proof. intros fuel. apply (value_total fuel). Qed.

Lemma type_total : forall fuel ts, 3 * length ts < fuel -> parse_type fuel ts <> Oof.
Proof.
  induction fuel as [|f IH]; intros ts H; [lia|].
  cbn [parse_type]. repeat step; oof_contra IH.
Qed.

Lemma args_total : forall fuel ts acc, 3 * length ts + 1 < fuel -> parse_args fuel ts acc <> Oof.
Proof.
  induction fuel as [|f IH]; intros ts acc H; [lia|].
  cbn [parse_args]. repeat step; try (apply IH; lens; simpl in *; lia).
  exfalso. match goal with E : _ = Oof |- _ => revert E end. apply value_total1. simpl in *. lia.
Qed.

Lemma opt_args_total : forall fuel ts, 3 * length ts < fuel -> parse_opt_args fuel ts <> Oof.
Proof.
  intros fuel ts H. unfold parse_opt_args. repeat step. apply args_total. simpl in *. lia.
Qed.

Lemma dirs_total : forall fuel ts acc, 3 * length ts + 1 < fuel -> parse_dirs fuel ts acc <> Oof.
Proof.
  induction fuel as [|f IH]; intros ts acc H; [lia|].
  cbn [parse_dirs]. repeat step; try (apply IH; lens; simpl in *; lia).
  exfalso. match goal with E : _ = Oof |- _ => revert E end. apply opt_args_total. simpl in *. lia.
Qed.

Lemma vardefs_total : forall fuel ts acc, 3 * length ts + 1 < fuel -> parse_vardefs fuel ts acc <> Oof.
Proof.
  induction fuel as [|f IH]; intros ts acc H; [lia|].
  cbn [parse_vardefs]. repeat step; try (apply IH; lens; simpl in *; lia);
    exfalso; match goal with E : _ = Oof |- _ => revert E end;
    first [apply type_total; lens; simpl in *; lia | apply value_total1; lens; simpl in *; lia | apply dirs_total; lens; simpl in *; lia].
Qed.

(* the tails are not recursive themselves; [selset] is the recursive call at the same fuel *)
Lemma field_tail_total : forall selset f alias nm r1,
  3 * length r1 + 1 < f ->
  (forall ts, length ts <= length r1 -> selset ts <> Oof) ->
  field_tail selset f alias nm r1 <> Oof.
Proof.
  intros selset f alias nm r1 H HS. unfold field_tail. repeat step;
    try (apply HS; lens; simpl in *; lia);
    exfalso; match goal with E : _ = Oof |- _ => revert E end;
    first [apply opt_args_total; lens; simpl in *; lia | apply dirs_total; lens; simpl in *; lia | apply HS; lens; simpl in *; lia].
Qed.

Lemma inline_tail_total : forall selset f tc r1,
  3 * length r1 + 1 < f ->
  (forall ts, length ts <= length r1 -> selset ts <> Oof) ->
  inline_tail selset f tc r1 <> Oof.
Proof.
  intros selset f tc r1 H HS. unfold inline_tail. repeat step;
    try (apply HS; lens; simpl in *; lia);
    exfalso; match goal with E : _ = Oof |- _ => revert E end;
    first [apply dirs_total; lens; simpl in *; lia | apply HS; lens; simpl in *; lia].
Qed.

Lemma sel_total : forall fuel,
  (forall ts, 3 * length ts < fuel -> parse_selset fuel ts <> Oof) /\
  (forall ts acc, 3 * length ts + 2 < fuel -> parse_sels fuel ts acc <> Oof) /\
  (forall ts, 3 * length ts + 1 < fuel -> parse_field fuel ts <> Oof) /\
  (forall ts, 3 * length ts + 2 < fuel -> parse_frag_sel fuel ts <> Oof).
Proof.
  induction fuel as [|f IH]; [repeat split; intros; lia|].
  destruct IH as (IHset & IHsels & IHfield & IHfrag). repeat split.
  - intros ts H. cbn [parse_selset]. repeat step. apply IHsels. simpl in *. lia.
  - intros ts acc H. cbn [parse_sels]. repeat step; try (apply IHsels; lens; simpl in *; lia);
      exfalso; match goal with E : _ = Oof |- _ => revert E end;
      first [apply IHfield; simpl in *; lia | apply IHfrag; simpl in *; lia].
  - intros ts H. cbn [parse_field]. repeat step;
      apply field_tail_total; simpl in *; try lia; intros ts' Hl; apply IHset; simpl in *; lia.
  - intros ts H. cbn [parse_frag_sel]. repeat step;
      try (apply inline_tail_total; simpl in *; try lia; intros ts' Hl; apply IHset; simpl in *; lia).
    exfalso. match goal with E : _ = Oof |- _ => revert E end. apply dirs_total. simpl in *. lia.
Qed.

Lemma operation_total : forall f k ts, 3 * length ts + 1 < f -> parse_operation f k ts <> Oof.
Proof.
  intros f k ts H. unfold parse_operation.
  destruct (match ts with
            | t :: r => if is_kind KIdent t then (Some (plit t), r) else (None, ts)
            | [] => (None, ts) end) as [nm r1] eqn:En.
  assert (Hr1 : length r1 <= length ts).
  { destruct ts as [|t r]; [inversion En; subst; simpl; lia|].
    destruct (is_kind KIdent t); inversion En; subst; simpl; lia. }
  assert (Hv : match r1 with
               | t :: r => if is_kind KLParen t then parse_vardefs f r [] else Ok [] r1
               | [] => Ok [] r1 end <> Oof).
  { repeat step. apply vardefs_total. simpl in *. lia. }
  destruct (match r1 with
            | t :: r => if is_kind KLParen t then parse_vardefs f r [] else Ok [] r1
            | [] => Ok [] r1 end) as [vs r2| | |] eqn:Ev; try discriminate; [|contradiction].
  assert (Hr2 : length r2 <= length r1).
  { destruct r1 as [|t r]; [inversion Ev; subst; simpl; lia|].
    destruct (is_kind KLParen t); [apply vardefs_len in Ev; simpl; lia|inversion Ev; subst; simpl; lia]. }
  repeat step.
  - exfalso. match goal with E : _ = Oof |- _ => revert E end. apply (proj1 (sel_total f)). lens. lia.
  - exfalso. match goal with E : _ = Oof |- _ => revert E end. apply dirs_total. lia.
Qed.

Lemma fragment_total : forall f ts, 3 * length ts + 1 < f -> parse_fragment f ts <> Oof.
Proof.
  intros f ts H. unfold parse_fragment. repeat step.
  - exfalso. match goal with E : _ = Oof |- _ => revert E end. apply (proj1 (sel_total f)). lens. simpl in *. lia.
  - exfalso. match goal with E : _ = Oof |- _ => revert E end. apply dirs_total. simpl in *. lia.
Qed.

Lemma operation_len : forall f k ts d r, parse_operation f k ts = Ok d r -> length r <= length ts.
Proof. intros. apply operation_shape in H. destruct H as (h & s & E & _). subst. rewrite !app_length. lia. Qed.
Lemma fragment_len : forall f ts d r, parse_fragment f ts = Ok d r -> length r <= length ts.
Proof. intros. apply fragment_shape in H. destruct H as (h & s & E & _). subst. rewrite !app_length. lia. Qed.

Lemma defs_total : forall fuel ts acc, 3 * length ts + 2 < fuel -> parse_defs fuel ts acc <> Oof.
Proof.
  induction fuel as [|f IH]; intros ts acc H; [lia|].
  cbn [parse_defs]. destruct ts as [|t r0]; [discriminate|].
  repeat step; try (apply IH; lens; simpl in *; lia).
  all: try (apply IH;
            match goal with
            | E : parse_operation _ _ _ = Ok _ _ |- _ => apply operation_len in E
            | E : parse_fragment _ _ = Ok _ _ |- _ => apply fragment_len in E
            end; simpl in *; lia).
  all: exfalso; match goal with E : _ = Oof |- _ => revert E end;
    first [apply (proj1 (sel_total f)); simpl in *; lia | apply operation_total; simpl in *; lia | apply fragment_total; simpl in *; lia].
Qed.

Theorem parse_total_proof : forall ts, parse ts <> Oof.
Proof. intro ts. unfold parse, parse_fuel. apply defs_total. lia. Qed.

Theorem parse_bytes_total_proof : forall b, (len b < two32)%N -> parse_bytes b <> Oof.
Proof.
  intros b Hb. unfold parse_bytes, lex.
  destruct (tokenize b) eqn:E; [apply parse_total_proof|].
  exfalso. revert E. apply ProofsLex.tokenize_total_proof. exact Hb.
Qed.
