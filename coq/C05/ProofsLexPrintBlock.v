(* C05, lexical half of the round trip: block strings.  The literal Lexer.Read stores for a closed
   block string, printed again by print_block_string, is read back as the same literal
   ([bstring_relex]).  Structure:
     bstep / bfold     the loop body of readBlockString as a pure step function on
                       (escaped, quoteCount, whitespaceCount, reached, leading), [None] = the loop exits
     cstep / cfold     its projection on (escaped, quoteCount): exits depend on these two only
     Inv               what (whitespaceCount, reached, leading) mean in terms of the bytes consumed:
                       consumed = W ++ M ++ T ++ pending quotes, W T white space, M the literal so far *)
From Gv Require Import lib.Bytes lib.Gql C05.Lex C05.Parse C05.Print C05.Tokens C05.ProofsLex C05.ProofsLexPrintDefs.
From Coq Require Import Lia ZifyN ZifyNat ZifyBool.
Open Scope N_scope.

(* ---- list facts ---- *)
Lemma len_app : forall a b : bytes, len (a ++ b) = len a + len b.
Proof. intros; unfold len; rewrite app_length; lia. Qed.
Lemma skipn_len_app : forall (a b : bytes), skipn (length a) (a ++ b) = b.
Proof. induction a as [|x a IH]; intro b; [reflexivity|]. cbn [length skipn app]. apply IH. Qed.
Lemma firstn_len_app : forall (a b : bytes), firstn (length a) (a ++ b) = a.
Proof. induction a as [|x a IH]; intro b; [reflexivity|]. cbn [length firstn app]. f_equal. apply IH. Qed.

(* ---- the step function ---- *)
Definition bws (r : byte) : bool := (r =? r_space) || (r =? r_tab) || (r =? r_cr) || (r =? r_lf).
Definition bst := (bool * N * N * bool * N)%type.

Definition bstep (s : bst) (r : byte) : option bst :=
  let '(esc, qc, ws0, reached0, lead0) := s in
  let '(ws, reached, lead) := quotes_content qc r ws0 reached0 lead0 in
  if bws r then Some (false, 0, ws + 1, reached, lead)
  else if r =? 0 then None
  else if r =? r_quote then
    (if esc then Some (false, qc, ws, reached, lead)
     else if qc + 1 =? 3 then None else Some (false, qc + 1, ws, reached, lead))
  else if r =? r_backslash then Some (negb esc, 0, 0, true, if reached then lead else ws)
  else Some (false, 0, 0, true, if reached then lead else ws).

Fixpoint bfold (s : bst) (P : bytes) : option bst :=
  match P with
  | [] => Some s
  | r :: t => match bstep s r with Some s' => bfold s' t | None => None end
  end.

Definition bl (l : bytes) (pos line col : N) (s : bst) : cur * endm * N * N :=
  let '(esc, qc, ws, reached, lead) := s in bstring_loop l pos line col esc qc ws reached lead.
Lemma bl_eq : forall l pos line col esc qc ws reached lead,
  bl l pos line col (esc, qc, ws, reached, lead) = bstring_loop l pos line col esc qc ws reached lead.
Proof. reflexivity. Qed.

Lemma bws_nz : forall r, bws r = true -> (r =? 0) = false.
Proof. intros r H. destruct (r =? 0) eqn:E; [|reflexivity]. apply N.eqb_eq in E. subst. discriminate H. Qed.

Lemma bstep_some_nz : forall s r s', bstep s r = Some s' -> (r =? 0) = false.
Proof.
  intros [[[[esc qc] ws] reached] lead] r s'. unfold bstep.
  destruct (quotes_content qc r ws reached lead) as [[ws1 reached1] lead1].
  destruct (bws r) eqn:Ew; [intros _; apply bws_nz; exact Ew|].
  destruct (r =? 0); [discriminate|reflexivity].
Qed.

Lemma bl_some : forall r t pos line col s s', bstep s r = Some s' ->
  bl (r :: t) pos line col s =
  bl t (pos + 1) (if r =? r_lf then line + 1 else line) (if r =? r_lf then 1 else col + 1) s'.
Proof.
  intros r t pos line col s s' H. pose proof (bstep_some_nz _ _ _ H) as E0. revert H.
  destruct s as [[[[esc qc] ws] reached] lead]. destruct s' as [[[[esc' qc'] ws'] reached'] lead'].
  rewrite !bl_eq. unfold bstep. cbn [bstring_loop]. cbv zeta.
  destruct (quotes_content qc r ws reached lead) as [[ws1 reached1] lead1].
  rewrite (read_rune_cons _ _ _ _ _ E0). cbn [c_pos c_rest c_line c_col].
  fold (bws r). destruct (bws r); [intro H; inj H; reflexivity|].
  rewrite E0.
  destruct (r =? r_quote).
  { destruct esc; [intro H; inj H; reflexivity|].
    destruct (qc + 1 =? 3); [discriminate|]. intro H; inj H; reflexivity. }
  destruct (r =? r_backslash); [intro H; inj H; reflexivity|].
  destruct reached1; intro H; inj H; reflexivity.
Qed.

Lemma bl_close : forall t pos line col ws reached lead,
  bl (34 :: t) pos line col (false, 2, ws, reached, lead) =
  (mkc t (pos + 1) line (col + 1), (sub32 (pos + 1) 3, line, col + 1), lead, ws).
Proof.
  intros. rewrite bl_eq. cbn [bstring_loop]. cbv zeta.
  rewrite (read_rune_cons 34 t pos line col eq_refl). cbn [c_pos c_rest c_line c_col].
  reflexivity.
Qed.

Lemma bstep_none : forall esc qc ws reached lead r, bstep (esc, qc, ws, reached, lead) r = None ->
  (r =? 0) = true \/ (r = 34 /\ esc = false /\ qc = 2).
Proof.
  intros esc qc ws reached lead r. unfold bstep.
  destruct (quotes_content qc r ws reached lead) as [[ws1 reached1] lead1].
  destruct (bws r); [discriminate|].
  destruct (r =? 0); [left; reflexivity|].
  destruct (r =? r_quote) eqn:Eq.
  { destruct esc; [discriminate|]. destruct (qc + 1 =? 3) eqn:E3; [|discriminate].
    intros _. right. apply N.eqb_eq in Eq. apply N.eqb_eq in E3. unfold r_quote in Eq. repeat split; lia. }
  destruct (r =? r_backslash); discriminate.
Qed.

Lemma bfold_app : forall P Q s, bfold s (P ++ Q) = match bfold s P with Some s' => bfold s' Q | None => None end.
Proof.
  induction P as [|r P IH]; intros Q s; [reflexivity|]. cbn [app bfold].
  destruct (bstep s r); [apply IH|reflexivity].
Qed.

Lemma bl_fold : forall P s s' rest pos line col, bfold s P = Some s' ->
  exists line' col', bl (P ++ rest) pos line col s = bl rest (pos + len P) line' col' s'.
Proof.
  induction P as [|r P IH]; intros s s' rest pos line col H.
  - cbn [bfold] in H. inj H. exists line, col. rewrite len_nil, N.add_0_r. reflexivity.
  - cbn [bfold] in H. destruct (bstep s r) as [s1|] eqn:E; [|discriminate].
    cbn [app]. rewrite (bl_some _ _ _ _ _ _ _ E).
    destruct (IH _ _ rest (pos + 1) (if r =? r_lf then line + 1 else line) (if r =? r_lf then 1 else col + 1) H)
      as (line' & col' & Heq).
    exists line', col'. rewrite Heq. rewrite len_cons. f_equal. lia.
Qed.

(* ---- a run that ends on a non-NUL byte ended at a closing triple quote ---- *)
Lemma bl_decomp : forall l pos line col s c' en le ce lead' ws' x xs,
  bl l pos line col s = (c', (en, le, ce), lead', ws') ->
  c_rest c' = x :: xs -> (x =? 0) = false ->
  exists P reached, l = P ++ 34 :: x :: xs /\ bfold s P = Some (false, 2, ws', reached, lead')
    /\ en = sub32 (pos + len P + 1) 3.
Proof.
  induction l as [|r t IH]; intros pos line col s c' en le ce lead' ws' x xs H Hr Hx.
  - destruct s as [[[[esc qc] ws] reached] lead]. rewrite bl_eq in H. cbn [bstring_loop] in H.
    destruct (quotes_content qc 0 ws reached lead) as [[ws1 reached1] lead1].
    inj H. cbn [c_rest] in Hr. discriminate Hr.
  - destruct (r =? 0) eqn:E0.
    { exfalso. destruct s as [[[[esc qc] ws] reached] lead]. rewrite bl_eq in H. cbn [bstring_loop] in H.
      cbv zeta in H. destruct (quotes_content qc r ws reached lead) as [[ws1 reached1] lead1].
      rewrite (read_rune_nul _ _ _ _ _ E0) in H. cbn [snd c_pos c_rest c_line c_col] in H.
      assert (Hsp : (r =? r_space) || (r =? r_tab) || (r =? r_cr) || (r =? r_lf) = false)
        by (apply N.eqb_eq in E0; subst; reflexivity).
      rewrite Hsp in H. rewrite E0 in H. inj H. cbn [c_rest] in Hr. inj Hr. rewrite E0 in Hx. discriminate Hx. }
    destruct (bstep s r) as [s1|] eqn:E.
    + rewrite (bl_some _ _ _ _ _ _ _ E) in H.
      destruct (IH _ _ _ _ _ _ _ _ _ _ _ _ H Hr Hx) as (P & reached & Hl & Hf & Hen).
      exists (r :: P), reached. split; [rewrite Hl; reflexivity|]. split.
      * cbn [bfold]. rewrite E. exact Hf.
      * rewrite Hen. rewrite len_cons. f_equal. lia.
    + destruct s as [[[[esc qc] ws] reached] lead].
      destruct (bstep_none _ _ _ _ _ _ E) as [E0'|(-> & -> & ->)]; [rewrite E0 in E0'; discriminate E0'|].
      rewrite bl_close in H. inj H. unfold mkc in Hr. cbn [c_rest] in Hr. subst t.
      exists [], reached. split; [reflexivity|]. split; [reflexivity|].
      unfold len. cbn [length N.of_nat]. rewrite N.add_0_r. reflexivity.
Qed.

(* ---- control projection ---- *)
Definition ctl (s : bst) : bool * N := let '(esc, qc, _, _, _) := s in (esc, qc).
Definition cstep (c : bool * N) (r : byte) : option (bool * N) :=
  let '(esc, qc) := c in
  if bws r then Some (false, 0)
  else if r =? 0 then None
  else if r =? r_quote then
    (if esc then Some (false, qc) else if qc + 1 =? 3 then None else Some (false, qc + 1))
  else if r =? r_backslash then Some (negb esc, 0)
  else Some (false, 0).
Fixpoint cfold (c : bool * N) (P : bytes) : option (bool * N) :=
  match P with
  | [] => Some c
  | r :: t => match cstep c r with Some c' => cfold c' t | None => None end
  end.

Lemma bstep_ctl : forall s r, option_map ctl (bstep s r) = cstep (ctl s) r.
Proof.
  intros [[[[esc qc] ws] reached] lead] r. unfold bstep, cstep, ctl.
  destruct (quotes_content qc r ws reached lead) as [[ws1 reached1] lead1].
  destruct (bws r); [reflexivity|]. destruct (r =? 0); [reflexivity|].
  destruct (r =? r_quote).
  { destruct esc; [reflexivity|]. destruct (qc + 1 =? 3); reflexivity. }
  destruct (r =? r_backslash); reflexivity.
Qed.

Lemma bfold_ctl : forall P s, option_map ctl (bfold s P) = cfold (ctl s) P.
Proof.
  induction P as [|r P IH]; intro s; [reflexivity|]. cbn [bfold cfold].
  rewrite <- bstep_ctl. destruct (bstep s r) as [s1|]; [|reflexivity]. cbn [option_map]. apply IH.
Qed.

Lemma cfold_app : forall P Q c, cfold c (P ++ Q) = match cfold c P with Some c' => cfold c' Q | None => None end.
Proof.
  induction P as [|r P IH]; intros Q c; [reflexivity|]. cbn [app cfold].
  destruct (cstep c r); [apply IH|reflexivity].
Qed.

Definition allws (l : bytes) : Prop := forallb bws l = true.

Lemma cstep_ws : forall c r, bws r = true -> cstep c r = Some (false, 0).
Proof. intros [esc qc] r H. unfold cstep. rewrite H. reflexivity. Qed.

Lemma cfold_ws : forall W, allws W -> cfold (false, 0) W = Some (false, 0).
Proof.
  induction W as [|r W IH]; intro H; [reflexivity|]. unfold allws in H. cbn [forallb] in H.
  apply andb_prop in H. destruct H as [H1 H2]. cbn [cfold]. rewrite (cstep_ws _ _ H1). apply IH. exact H2.
Qed.

(* any byte other than quote and backslash, if it does not exit, resets the control state *)
Lemma cstep_plain : forall c r c', cstep c r = Some c' -> (r =? 34) = false -> (r =? 92) = false -> c' = (false, 0).
Proof.
  intros [esc qc] r c'. unfold cstep, r_quote, r_backslash. intros H H1 H2. rewrite H1, H2 in H.
  destruct (bws r); [inj H; reflexivity|]. destruct (r =? 0); [discriminate|]. inj H; reflexivity.
Qed.

(* ---- the bookkeeping invariant ---- *)
Definition hd_ok (M : bytes) : bool := match M with [] => true | x :: _ => negb (bws x) end.
(* empty, or first and last byte are not white space *)
Definition ne_ends (M : bytes) : Prop := hd_ok M = true /\ hd_ok (rev M) = true.

Definition Inv5 (P : bytes) (esc : bool) (qc ws : N) (reached : bool) (lead : N) : Prop :=
  exists W M T, P = W ++ M ++ T ++ repeat 34 (N.to_nat qc) /\ allws W /\ allws T /\ len T = ws /\ ne_ends M /\
    (reached = false -> W = [] /\ M = [] /\ lead = 0) /\
    (reached = true -> M <> [] /\ len W = lead) /\
    (esc = true -> ws = 0 /\ qc = 0 /\ reached = true).
Definition Inv (P : bytes) (s : bst) : Prop :=
  let '(esc, qc, ws, reached, lead) := s in Inv5 P esc qc ws reached lead.

Ltac lnorm := cbn [app repeat]; rewrite ?app_nil_r, <- ?app_assoc; cbn [app].

Lemma hd_ok_app : forall M X, M <> [] -> hd_ok (M ++ X) = hd_ok M.
Proof. intros [|x M] X H; [contradiction|reflexivity]. Qed.
Lemma app_ne : forall (M X : bytes), M <> [] -> M ++ X <> [].
Proof. intros [|x M] X H; [contradiction|discriminate]. Qed.

Lemma Inv_nonws : forall P esc ws reached lead r e', Inv5 P esc 0 ws reached lead -> bws r = false ->
  Inv5 (P ++ [r]) e' 0 0 true (if reached then lead else ws).
Proof.
  intros P esc ws reached lead r e' (W & M & T & HP & HW & HT & HlT & [Hh Hl] & Hf & Ht & He) Hr.
  change (N.to_nat 0) with 0%nat in *. cbn [repeat] in *. rewrite app_nil_r in HP.
  destruct reached.
  - destruct (Ht eq_refl) as [Hne HlW]. exists W, (M ++ T ++ [r]), [].
    split; [subst P; lnorm; reflexivity|]. split; [exact HW|]. split; [reflexivity|]. split; [reflexivity|].
    split.
    { split; [rewrite hd_ok_app by exact Hne; exact Hh|].
      rewrite app_assoc, rev_unit. cbn [hd_ok]. rewrite Hr. reflexivity. }
    split; [discriminate|]. split; [|auto].
    intros _. split; [apply app_ne; exact Hne|exact HlW].
  - destruct (Hf eq_refl) as (-> & -> & ->). exists T, [r], [].
    split; [subst P; lnorm; reflexivity|]. split; [exact HT|]. split; [reflexivity|]. split; [reflexivity|].
    split.
    { split; cbn [rev app hd_ok]; rewrite Hr; reflexivity. }
    split; [discriminate|]. split; [|auto].
    intros _. split; [discriminate|exact HlT].
Qed.

Lemma repeat_ne : forall n, n <> 0%nat -> exists Q0, repeat 34 n = Q0 ++ [34] /\ hd_ok (repeat 34 n) = true.
Proof.
  intros [|n] H; [contradiction|]. exists (repeat 34 n). split; [|reflexivity].
  cbn [repeat]. apply repeat_cons.
Qed.

(* the quotes_content prologue for a byte that is not a quote: pending quotes become content *)
Lemma Inv_qc : forall P esc qc ws reached lead r ws1 reached1 lead1,
  Inv5 P esc qc ws reached lead -> (r =? r_quote) = false ->
  quotes_content qc r ws reached lead = (ws1, reached1, lead1) ->
  Inv5 P esc 0 ws1 reached1 lead1.
Proof.
  intros P esc qc ws reached lead r ws1 reached1 lead1 HI Hr. unfold quotes_content. rewrite Hr.
  destruct (qc =? 0) eqn:Eq; cbn [negb andb]; intro H; inj H.
  { apply N.eqb_eq in Eq. subst qc. exact HI. }
  apply N.eqb_neq in Eq.
  destruct HI as (W & M & T & HP & HW & HT & HlT & [Hh Hl] & Hf & Ht & He).
  destruct (repeat_ne (N.to_nat qc)) as (Q0 & HQ & HQh); [lia|].
  change (N.to_nat 0) with 0%nat. cbn [repeat].
  destruct reached.
  - destruct (Ht eq_refl) as [Hne HlW]. exists W, (M ++ T ++ repeat 34 (N.to_nat qc)), [].
    split; [subst P; lnorm; reflexivity|]. split; [exact HW|]. split; [reflexivity|]. split; [reflexivity|].
    split.
    { split; [rewrite hd_ok_app by exact Hne; exact Hh|].
      rewrite HQ. rewrite !app_assoc, rev_unit. reflexivity. }
    split; [discriminate|]. split; [|auto].
    intros _. split; [apply app_ne; exact Hne|exact HlW].
  - destruct (Hf eq_refl) as (-> & -> & ->). exists T, (repeat 34 (N.to_nat qc)), [].
    split; [subst P; lnorm; reflexivity|]. split; [exact HT|]. split; [reflexivity|]. split; [reflexivity|].
    split.
    { split; [exact HQh|]. rewrite HQ. rewrite rev_unit. reflexivity. }
    split; [discriminate|]. split; [|auto].
    intros _. split; [rewrite HQ; intro Hc; apply app_eq_nil in Hc; destruct Hc as [_ Hc]; discriminate Hc|exact HlT].
Qed.

Lemma bws_quote : bws 34 = false. Proof. reflexivity. Qed.

Lemma Inv_step : forall P s r s', Inv P s -> bstep s r = Some s' -> Inv (P ++ [r]) s'.
Proof.
  intros P [[[[esc qc] ws] reached] lead] r s' HI. unfold Inv in HI. unfold bstep.
  destruct (r =? r_quote) eqn:Eq.
  - (* a quote *)
    apply N.eqb_eq in Eq. subst r.
    assert (Hqc : quotes_content qc r_quote ws reached lead = (ws, reached, lead)).
    { unfold quotes_content. rewrite N.eqb_refl. cbn [negb]. rewrite Bool.andb_false_r. reflexivity. }
    rewrite Hqc. change (bws r_quote) with false. change (r_quote =? 0) with false. cbv iota.
    destruct esc.
    + intro H; inj H. unfold Inv.
      destruct HI as (W & M & T & HP & HW & HT & HlT & Hne & Hf & Ht & He).
      destruct (He eq_refl) as (-> & -> & ->).
      apply (Inv_nonws P true 0 true lead r_quote false); [|reflexivity].
      exists W, M, T. repeat (split; [assumption|]). assumption.
    + destruct (qc + 1 =? 3); [discriminate|]. intro H; inj H. unfold Inv.
      destruct HI as (W & M & T & HP & HW & HT & HlT & Hne & Hf & Ht & He).
      exists W, M, T. split.
      { subst P. replace (N.to_nat (qc + 1)) with (S (N.to_nat qc)) by lia. cbn [repeat].
        change r_quote with 34. rewrite repeat_cons. lnorm. reflexivity. }
      repeat (split; [assumption|]). discriminate.
  - destruct (quotes_content qc r ws reached lead) as [[ws1 reached1] lead1] eqn:Hqc.
    pose proof (Inv_qc _ _ _ _ _ _ _ _ _ _ HI Eq Hqc) as HI1.
    destruct (bws r) eqn:Ew.
    + intro H; inj H. unfold Inv.
      destruct HI1 as (W & M & T & HP & HW & HT & HlT & Hne & Hf & Ht & He).
      change (N.to_nat 0) with 0%nat in *. cbn [repeat] in *.
      exists W, M, (T ++ [r]). split; [subst P; lnorm; reflexivity|]. split; [exact HW|].
      split. { unfold allws in *. rewrite forallb_app. apply andb_true_intro. split; [exact HT|]. cbn [forallb]. rewrite Ew. reflexivity. }
      split. { rewrite len_app. rewrite HlT. reflexivity. }
      split; [exact Hne|]. split; [exact Hf|]. split; [exact Ht|]. discriminate.
    + destruct (r =? 0); [discriminate|].
      destruct (r =? r_backslash); intro H; inj H; unfold Inv; eapply Inv_nonws; eassumption.
Qed.

Lemma Inv_fold : forall P P0 s0 s, Inv P0 s0 -> bfold s0 P = Some s -> Inv (P0 ++ P) s.
Proof.
  induction P as [|r P IH]; intros P0 s0 s HI H.
  - cbn [bfold] in H. inj H. rewrite app_nil_r. exact HI.
  - cbn [bfold] in H. destruct (bstep s0 r) as [s1|] eqn:E; [|discriminate].
    replace (P0 ++ r :: P) with ((P0 ++ [r]) ++ P) by (rewrite <- app_assoc; reflexivity).
    eapply IH; [|exact H]. eapply Inv_step; eassumption.
Qed.

Definition st0 : bst := (false, 0, 0, false, 0).
Lemma Inv_init : Inv [] st0.
Proof.
  unfold Inv, st0. exists [], [], []. repeat split; try reflexivity; try discriminate.
Qed.
Lemma Inv_run : forall P s, bfold st0 P = Some s -> Inv P s.
Proof. intros P s H. apply (Inv_fold P [] st0 s Inv_init H). Qed.

(* ---- Read on an opening triple quote ---- *)
Lemma read_block : forall t pos line col,
  read (mkc (34 :: 34 :: 34 :: t) pos line col) =
  let '(c3, (en, le, ce), lead, ws) := bstring_loop t (pos + 1 + 2) line (col + 1 + 2) false 0 0 false 0 in
  ({| t_kind := KBlockString;
      t_start := add32 (u32 (pos + 1 + 2)) (u32 lead); t_end := sub32 en (u32 ws);
      t_ls := line; t_cs := sub32 (col + 1 + 2) 3; t_le := le; t_ce := ce |}, c3).
Proof.
  intros. unfold read, mkc. cbn [c_rest c_pos c_line c_col].
  cbn [skip_ws]. change (is_ws 34) with false. cbv iota. cbn [c_rest c_pos c_line c_col].
  rewrite (read_rune_cons_full 34 _ pos line col eq_refl).
  change (34 =? r_lf) with false. cbv iota.
  change (single_kind 34) with (@None kind). cbv iota.
  change (34 =? r_hash) with false. change (34 =? r_quote) with true. cbv iota.
  unfold peek_two. cbn [c_rest]. change ((34 =? r_quote) && (34 =? r_quote)) with true. cbv iota.
  cbn [adv skipn c_rest c_pos c_line c_col]. reflexivity.
Qed.

(* ---- content ++ white space splits uniquely ---- *)
Lemma allws_cons : forall x l, allws (x :: l) -> bws x = true /\ allws l.
Proof. intros x l H. unfold allws in *. cbn [forallb] in H. apply andb_prop in H. exact H. Qed.
Lemma allws_app : forall a b, allws a -> allws b -> allws (a ++ b).
Proof. intros a b Ha Hb. unfold allws in *. rewrite forallb_app. apply andb_true_intro. split; assumption. Qed.
Lemma allws_rev : forall l, allws l -> allws (rev l).
Proof.
  induction l as [|x l IH]; intro H; [exact H|]. apply allws_cons in H. destruct H as [H1 H2].
  cbn [rev]. apply allws_app; [apply IH; exact H2|]. unfold allws. cbn [forallb]. rewrite H1. reflexivity.
Qed.

Lemma ws_prefix_unique : forall a a' b b', a ++ b = a' ++ b' -> allws a -> allws a' ->
  hd_ok b = true -> hd_ok b' = true -> a = a' /\ b = b'.
Proof.
  induction a as [|x a IH]; intros [|y a'] b b' H Ha Ha' Hb Hb'.
  - split; [reflexivity|exact H].
  - exfalso. cbn [app] in H. subst b. apply allws_cons in Ha'. destruct Ha' as [Hy _].
    cbn [hd_ok] in Hb. rewrite Hy in Hb. discriminate Hb.
  - exfalso. cbn [app] in H. subst b'. apply allws_cons in Ha. destruct Ha as [Hx _].
    cbn [hd_ok] in Hb'. rewrite Hx in Hb'. discriminate Hb'.
  - cbn [app] in H. injection H as Hxy H. subst y.
    apply allws_cons in Ha. apply allws_cons in Ha'.
    destruct (IH a' b b' H (proj2 Ha) (proj2 Ha') Hb Hb') as [E1 E2]. subst. split; reflexivity.
Qed.

Lemma ends_unique : forall M N M' T', M ++ N = M' ++ T' ->
  hd_ok (rev M) = true -> hd_ok (rev M') = true -> allws N -> allws T' -> M = M' /\ N = T'.
Proof.
  intros M N M' T' H HM HM' HN HT.
  apply (f_equal (@rev byte)) in H. rewrite !rev_app_distr in H.
  destruct (ws_prefix_unique _ _ _ _ H (allws_rev _ HN) (allws_rev _ HT) HM HM') as [E1 E2].
  apply (f_equal (@rev byte)) in E1. apply (f_equal (@rev byte)) in E2. rewrite !rev_involutive in E1, E2.
  split; assumption.
Qed.

Lemma cfold_plain_end : forall M c, cfold (false, 0) M = Some c -> ends_quote_or_backslash M = false ->
  c = (false, 0).
Proof.
  intro M. destruct M as [|x M _] using rev_ind; intros c Hc E.
  - cbn [cfold] in Hc. inj Hc. reflexivity.
  - unfold ends_quote_or_backslash in E. rewrite rev_unit in E. apply Bool.orb_false_elim in E. destruct E as [E1 E2].
    rewrite cfold_app in Hc. destruct (cfold (false, 0) M) as [c0|]; [|discriminate].
    cbn [cfold] in Hc. destruct (cstep c0 x) as [c1|] eqn:Es; [|discriminate]. inj Hc.
    eapply cstep_plain; eassumption.
Qed.

(* ---- re-lexing content that neither starts nor ends with white space ---- *)
Lemma relex_core : forall M Nl rest pos line col,
  ne_ends M -> allws Nl -> (M = [] -> Nl = []) -> cfold (false, 0) (M ++ Nl) = Some (false, 0) ->
  pos + len ([34;34;34] ++ M ++ Nl ++ [34;34;34] ++ rest) < two32 ->
  exists line' col' le ce cs,
    read (mkc ([34;34;34] ++ M ++ Nl ++ [34;34;34] ++ rest) pos line col) =
    ({| t_kind := KBlockString; t_start := pos + 3; t_end := pos + 3 + len M;
        t_ls := line; t_cs := cs; t_le := le; t_ce := ce |},
     mkc rest (pos + 3 + len M + len Nl + 3) line' col').
Proof.
  intros M Nl rest pos line col [Hh Hl] HN HMN Hc Hlen.
  set (X := M ++ Nl ++ [34;34]).
  assert (HX : cfold (false, 0) X = Some (false, 2)).
  { unfold X. rewrite app_assoc, cfold_app, Hc. reflexivity. }
  pose proof (bfold_ctl X st0) as Hb. change (ctl st0) with (false, 0) in Hb. rewrite HX in Hb.
  destruct (bfold st0 X) as [[[[[e q] w] rch] ld]|] eqn:Hf; [|discriminate Hb].
  cbn [option_map ctl] in Hb. inj Hb.
  pose proof (Inv_run _ _ Hf) as HI. unfold Inv in HI.
  destruct HI as (W' & M' & T' & HP & HW' & HT' & HlT' & [Hh' Hl'] & Hfl & Htr & _).
  change (N.to_nat 2) with 2%nat in HP. cbn [repeat] in HP.
  assert (HE : M ++ Nl = W' ++ M' ++ T').
  { apply (app_inv_tail [34;34]). rewrite <- !app_assoc. exact HP. }
  assert (Hwl : w = len Nl /\ ld = 0).
  { destruct rch.
    - destruct (Htr eq_refl) as [Hne HlW].
      assert (W' = []).
      { destruct W' as [|x W'']; [reflexivity|exfalso]. apply allws_cons in HW'. destruct HW' as [Hx _].
        destruct M as [|m M0].
        - rewrite (HMN eq_refl) in HE. discriminate HE.
        - cbn [app] in HE. injection HE as Hm _. subst m. cbn [hd_ok] in Hh. rewrite Hx in Hh. discriminate Hh. }
      subst W'. cbn [app] in HE.
      destruct (ends_unique _ _ _ _ HE Hl Hl' HN HT') as [E1 E2]. subst.
      split; reflexivity.
    - destruct (Hfl eq_refl) as (-> & -> & ->). cbn [app] in HE.
      destruct M as [|m M0].
      + rewrite (HMN eq_refl) in HE. cbn [app] in HE. subst T'. rewrite (HMN eq_refl). split; [symmetry; exact HlT'|reflexivity].
      + exfalso. rewrite <- HE in HT'. cbn [app] in HT'. apply allws_cons in HT'. destruct HT' as [Hm _].
        cbn [hd_ok] in Hh. rewrite Hm in Hh. discriminate Hh. }
  destruct Hwl as [-> ->].
  cbn [app]. rewrite read_block. rewrite <- bl_eq.
  replace (M ++ Nl ++ 34 :: 34 :: 34 :: rest) with (X ++ 34 :: rest) by (unfold X; lnorm; reflexivity).
  destruct (bl_fold X st0 _ (34 :: rest) (pos + 1 + 2) line (col + 1 + 2) Hf) as (line' & col' & Hfold).
  fold st0. rewrite Hfold, bl_close. cbv beta iota.
  assert (LX : len X = len M + len Nl + 2).
  { unfold X, len. rewrite !app_length. cbn [length]. lia. }
  assert (Hlen' : pos + 3 + len M + len Nl + 3 + len rest < two32).
  { revert Hlen. unfold len. rewrite !app_length. cbn [length]. unfold byte. lia. }
  rewrite LX.
  assert (E1 : add32 (u32 (pos + 1 + 2)) (u32 0) = pos + 3).
  { rewrite !u32_id by lia. rewrite add32_id by lia. lia. }
  assert (E2 : sub32 (sub32 (pos + 1 + 2 + (len M + len Nl + 2) + 1) 3) (u32 (len Nl)) = pos + 3 + len M).
  { rewrite u32_id by lia. rewrite (sub32_id (pos + 1 + 2 + (len M + len Nl + 2) + 1) 3) by lia.
    rewrite sub32_id by lia. lia. }
  assert (E3 : pos + 1 + 2 + (len M + len Nl + 2) + 1 = pos + 3 + len M + len Nl + 3) by lia.
  rewrite E1, E2, E3.
  exists line', (col' + 1), line', (col' + 1), (sub32 (col + 1 + 2) 3). reflexivity.
Qed.

Lemma relex_block : forall M, ne_ends M -> (exists c, cfold (false, 0) M = Some c) -> relex KBlockString M.
Proof.
  intros M Hne [c Hc]. unfold relex. intros rest pos line col _ Hlen.
  unfold text_of, print_block_string, s_quote3 in *.
  set (Nl := if ends_quote_or_backslash M then nl else []) in *.
  assert (HN : allws Nl) by (unfold Nl; destruct (ends_quote_or_backslash M); reflexivity).
  assert (HMN : M = [] -> Nl = []) by (intros ->; reflexivity).
  assert (HcN : cfold (false, 0) (M ++ Nl) = Some (false, 0)).
  { rewrite cfold_app, Hc. unfold Nl. destruct (ends_quote_or_backslash M) eqn:E.
    - unfold nl. cbn [cfold]. rewrite cstep_ws by reflexivity. reflexivity.
    - cbn [cfold]. f_equal. eapply cfold_plain_end; eassumption. }
  rewrite <- !app_assoc in Hlen. rewrite <- !app_assoc.
  change (exists t line' col',
    read (mkc ([34;34;34] ++ M ++ Nl ++ [34;34;34] ++ rest) pos line col) =
      (t, mkc rest (pos + len ([34;34;34] ++ M ++ Nl ++ [34;34;34])) line' col')
    /\ t_kind t = KBlockString /\ t_start t = pos + 3 /\ t_end t = pos + 3 + len M /\ (3 = 0 -> t_cs t = col)).
  destruct (relex_core M Nl rest pos line col Hne HN HMN HcN Hlen) as (line' & col' & le & ce & cs & Hr).
  eexists _, line', col'. split.
  { rewrite Hr. f_equal. f_equal. unfold len. rewrite !app_length. cbn [length]. unfold byte. lia. }
  cbn [t_kind t_start t_end]. split; [reflexivity|]. split; [reflexivity|]. split; [reflexivity|].
  intro H; discriminate H.
Qed.

(* ---- the literal of a closed block string re-lexes ---- *)
Theorem bstring_relex : forall l pos line col c' en le ce lead ws x xs,
  pos + len l < two32 ->
  bstring_loop l pos line col false 0 0 false 0 = (c', (en, le, ce), lead, ws) ->
  c_rest c' = x :: xs -> (x =? 0) = false ->
  relex KBlockString (firstn (N.to_nat (en - ws - (pos + lead))) (skipn (N.to_nat lead) l)).
Proof.
  intros l pos line col c' en le ce lead ws x xs Hlen H Hr Hx.
  change (bl l pos line col st0 = (c', (en, le, ce), lead, ws)) in H.
  destruct (bl_decomp _ _ _ _ _ _ _ _ _ _ _ _ _ H Hr Hx) as (P & reached & Hl & Hf & Hen).
  pose proof (Inv_run _ _ Hf) as HI. unfold Inv in HI.
  destruct HI as (W & M & T & HP & HW & HT & HlT & Hne & Hfl & Htr & _).
  change (N.to_nat 2) with 2%nat in HP. cbn [repeat] in HP.
  assert (HlW : len W = lead).
  { destruct reached; [apply Htr; reflexivity|]. destruct (Hfl eq_refl) as (-> & -> & ->). reflexivity. }
  assert (LP : len P = len W + len M + len T + 2).
  { subst P. unfold len. rewrite !app_length. cbn [length]. unfold byte. lia. }
  assert (Ll : len l = len P + 2 + len xs).
  { rewrite Hl. unfold len. rewrite !app_length. cbn [length]. unfold byte. lia. }
  assert (Hen' : en = pos + len W + len M + len T).
  { rewrite Hen. rewrite sub32_id by lia. lia. }
  assert (Hlit : firstn (N.to_nat (en - ws - (pos + lead))) (skipn (N.to_nat lead) l) = M).
  { replace (N.to_nat (en - ws - (pos + lead))) with (length M) by (unfold len in *; unfold byte in *; lia).
    replace (N.to_nat lead) with (length W) by (unfold len in *; unfold byte in *; lia).
    rewrite Hl, HP. rewrite <- !app_assoc. rewrite skipn_len_app. apply firstn_len_app. }
  rewrite Hlit. apply relex_block; [exact Hne|].
  pose proof (bfold_ctl P st0) as Hc. rewrite Hf in Hc. change (ctl st0) with (false, 0) in Hc.
  cbn [option_map] in Hc. rewrite HP in Hc. rewrite cfold_app, (cfold_ws W HW), cfold_app in Hc.
  destruct (cfold (false, 0) M) as [c|]; [exists c; reflexivity|discriminate Hc].
Qed.
