(* C05 stage 1 proofs: Read makes progress, Tokenize terminates within fuel length+1, every
   token's literal range is inside the input and the ranges are increasing and disjoint. *)
From Gv Require Import lib.Bytes C05.Lex.
From Coq Require Import Lia ZifyN ZifyNat ZifyBool.
Open Scope N_scope.

Definition len (l : bytes) : N := N.of_nat (length l).
Lemma len_cons : forall r (l : bytes), len (r :: l) = len l + 1.
Proof. intros; unfold len; simpl length; lia. Qed.
Lemma len_nil : len [] = 0. Proof. reflexivity. Qed.

(* ---- uint32 arithmetic does not wrap below 2^32 ---- *)
Lemma u32_id : forall x, x < two32 -> u32 x = x.
Proof. intros; unfold u32; apply N.mod_small; assumption. Qed.
Lemma add32_id : forall a b, a + b < two32 -> add32 a b = a + b.
Proof. intros; unfold add32; apply N.mod_small; assumption. Qed.
Lemma sub32_id : forall a b, b <= a -> a < two32 -> sub32 a b = a - b.
Proof.
  intros a b Hb Ha. unfold sub32.
  rewrite (N.mod_small a two32) by assumption.
  rewrite (N.mod_small b two32) by lia.
  replace (a + two32 - b) with ((a - b) + 1 * two32) by lia.
  rewrite N.mod_add by (unfold two32; lia).
  apply N.mod_small. lia.
Qed.

Definition cur_ok (L : N) (c : cur) : Prop := c_pos c + len (c_rest c) = L.

(* ---- the small scanners ---- *)
Lemma skip_ws_spec : forall l pos line col,
  let c := skip_ws l pos line col in
  c_pos c + len (c_rest c) = pos + len l /\ pos <= c_pos c.
Proof.
  induction l as [|r t IH]; intros; subst c; simpl.
  - split; lia.
  - destruct (is_ws r).
    + destruct (r =? r_lf).
      * specialize (IH (pos + 1) (line + 1) 1). simpl in IH. rewrite len_cons. lia.
      * specialize (IH (pos + 1) line (col + 1)). simpl in IH. rewrite len_cons. lia.
    + simpl. split; lia.
Qed.

Lemma ident_run_spec : forall l pos col l' pos' col',
  ident_run l pos col = (l', pos', col') -> pos' + len l' = pos + len l /\ pos <= pos'.
Proof.
  induction l as [|r t IH]; intros pos col l' pos' col' H; simpl in H.
  - inversion H; subst. split; lia.
  - destruct (is_ident_char r).
    + apply IH in H. rewrite len_cons. lia.
    + inversion H; subst. split; lia.
Qed.

Lemma digits_run_spec : forall l pos col l' pos' col',
  digits_run l pos col = (l', pos', col') -> pos' + len l' = pos + len l /\ pos <= pos'.
Proof.
  induction l as [|r t IH]; intros pos col l' pos' col' H; simpl in H.
  - inversion H; subst. split; lia.
  - destruct (is_digit r).
    + apply IH in H. rewrite len_cons. lia.
    + inversion H; subst. split; lia.
Qed.

Lemma read_rune_cons : forall r t pos line col, (r =? 0) = false ->
  snd (read_rune {| c_rest := r :: t; c_pos := pos; c_line := line; c_col := col |}) =
  {| c_rest := t; c_pos := pos + 1; c_line := (if r =? r_lf then line + 1 else line);
     c_col := (if r =? r_lf then 1 else col + 1) |}.
Proof. intros r t pos line col H0. unfold read_rune. simpl. rewrite H0. destruct (r =? r_lf); reflexivity. Qed.
(* a NUL byte is not consumed *)
Lemma read_rune_nul : forall r t pos line col, (r =? 0) = true ->
  read_rune {| c_rest := r :: t; c_pos := pos; c_line := line; c_col := col |} =
  (0, {| c_rest := r :: t; c_pos := pos; c_line := line; c_col := col |}).
Proof. intros r t pos line col H0. unfold read_rune. simpl. rewrite H0. reflexivity. Qed.
Lemma nul_not_ws : forall r, (r =? 0) = true -> is_ws r = false.
Proof. intros r H. apply N.eqb_eq in H. subst. reflexivity. Qed.

Ltac inj H := injection H; clear H; intros; subst.

(* ---- comments ---- *)
Lemma comment_loop_spec : forall L, L < two32 -> forall l pos line col en le ce c' en' le' ce',
  pos + len l = L -> en <= pos ->
  comment_loop l pos line col (en, le, ce) = (c', (en', le', ce')) ->
  cur_ok L c' /\ pos <= c_pos c' /\ en <= en' /\ en' <= c_pos c'.
Proof.
  intros L HL. induction l as [|r t IH]; intros pos line col en le ce c' en' le' ce' HP He H.
  - simpl in H. inversion H; subst. unfold cur_ok; simpl. rewrite len_nil in *. lia.
  - cbn [comment_loop] in H.
    rewrite len_cons in HP.
    destruct (r =? 0) eqn:E0.
    { rewrite (read_rune_nul _ _ _ _ _ E0) in H. inj H. unfold cur_ok. simpl. rewrite len_cons. lia. }
    rewrite (read_rune_cons _ _ _ _ _ E0) in H. cbn [c_pos c_rest c_line c_col] in H.
    destruct ((r =? r_cr) || (r =? r_lf)).
    { destruct (peek_nonws t =? r_hash).
      - apply IH in H; unfold cur_ok in *; lia.
      - inj H. unfold cur_ok. simpl. lia. }
    rewrite u32_id in H by lia.
    apply IH in H; unfold cur_ok in *; lia.
Qed.

(* ---- single-line strings ---- *)
Lemma sstring_loop_spec : forall L, L < two32 -> forall l pos line col esc c' en' le' ce',
  pos + len l = L ->
  sstring_loop l pos line col esc = (c', (en', le', ce')) ->
  cur_ok L c' /\ pos <= c_pos c' /\ pos <= en' /\ en' <= c_pos c'.
Proof.
  intros L HL. induction l as [|r t IH]; intros pos line col esc c' en' le' ce' HP H.
  - simpl in H. inversion H; subst. unfold cur_ok; simpl. rewrite len_nil in *. rewrite u32_id by lia. lia.
  - cbn [sstring_loop] in H.
    rewrite len_cons in HP.
    assert (HIH : forall line1 col1 esc', sstring_loop t (pos + 1) line1 col1 esc' = (c', (en', le', ce')) ->
                  cur_ok L c' /\ pos <= c_pos c' /\ pos <= en' /\ en' <= c_pos c').
    { intros line1 col1 esc' H'. apply IH in H'; unfold cur_ok in *; lia. }
    destruct (r =? 0) eqn:E0.
    { rewrite (read_rune_nul _ _ _ _ _ E0) in H. cbn [snd c_pos c_rest c_line c_col] in H.
      assert (Hsp : (r =? r_space) || (r =? r_tab) = false) by (apply N.eqb_eq in E0; subst; reflexivity).
      rewrite Hsp in H. rewrite u32_id in H by lia. inj H. unfold cur_ok. simpl. rewrite len_cons. lia. }
    rewrite (read_rune_cons _ _ _ _ _ E0) in H. cbn [c_pos c_rest c_line c_col] in H.
    destruct ((r =? r_space) || (r =? r_tab)); [eapply HIH; eassumption|].
    destruct ((r =? r_quote) || (r =? r_cr) || (r =? r_lf)).
    { destruct esc; [eapply HIH; eassumption|].
      rewrite sub32_id in H by lia. inj H. unfold cur_ok. simpl. lia. }
    destruct (r =? r_backslash); eapply HIH; eassumption.
Qed.

(* ---- block strings: the Start += leading / End -= trailing adjustments never cross ---- *)
Lemma quotes_content_le : forall qc r ws reached lead,
  let '(ws1, _, lead1) := quotes_content qc r ws reached lead in lead1 + ws1 <= lead + ws.
Proof.
  intros. unfold quotes_content.
  destruct (negb (qc =? 0) && negb (r =? r_quote)); [destruct reached|]; lia.
Qed.

Lemma bstring_loop_spec : forall L, L < two32 -> forall s0 l pos line col esc qc ws reached lead c' en' le' ce' lead' ws',
  pos + len l = L ->
  s0 + lead + ws + qc <= pos ->
  bstring_loop l pos line col esc qc ws reached lead = (c', (en', le', ce'), lead', ws') ->
  cur_ok L c' /\ pos <= c_pos c' /\ s0 + lead' + ws' <= en' /\ en' <= c_pos c'.
Proof.
  intros L HL s0. induction l as [|r t IH]; intros pos line col esc qc ws reached lead c' en' le' ce' lead' ws' HP HI H.
  - cbn [bstring_loop] in H. pose proof (quotes_content_le qc 0 ws reached lead) as Hq.
    destruct (quotes_content qc 0 ws reached lead) as [[ws1 reached1] lead1].
    inversion H; subst. unfold cur_ok; simpl. rewrite len_nil in *. rewrite u32_id by lia. lia.
  - cbn [bstring_loop] in H. rewrite len_cons in HP. cbv zeta in H.
    pose proof (quotes_content_le qc r ws reached lead) as Hq.
    destruct (quotes_content qc r ws reached lead) as [[ws1 reached1] lead1].
    destruct (r =? 0) eqn:E0.
    { rewrite (read_rune_nul _ _ _ _ _ E0) in H. cbn [snd c_pos c_rest c_line c_col] in H.
      assert (Hsp : (r =? r_space) || (r =? r_tab) || (r =? r_cr) || (r =? r_lf) = false)
        by (apply N.eqb_eq in E0; subst; reflexivity).
      rewrite Hsp in H. rewrite u32_id in H by lia. inj H. unfold cur_ok. simpl. rewrite len_cons. lia. }
    rewrite (read_rune_cons _ _ _ _ _ E0) in H. cbn [c_pos c_rest c_line c_col] in H.
    assert (HIH : forall line1 col1 esc' qc' ws2 reached' lead2,
               s0 + lead2 + ws2 + qc' <= pos + 1 ->
               bstring_loop t (pos + 1) line1 col1 esc' qc' ws2 reached' lead2 = (c', (en', le', ce'), lead', ws') ->
               cur_ok L c' /\ pos <= c_pos c' /\ s0 + lead' + ws' <= en' /\ en' <= c_pos c').
    { intros line1 col1 esc' qc' ws2 reached' lead2 HI' H'. apply IH in H'; unfold cur_ok in *; lia. }
    destruct ((r =? r_space) || (r =? r_tab) || (r =? r_cr) || (r =? r_lf)).
    { eapply HIH; [|eassumption]. lia. }
    destruct (r =? r_quote) eqn:Eq.
    { destruct esc.
      - eapply HIH; [|eassumption]. lia.
      - destruct (qc + 1 =? 3) eqn:Hq3.
        + apply N.eqb_eq in Hq3. rewrite sub32_id in H by lia. inj H. unfold cur_ok. simpl. lia.
        + eapply HIH; [|eassumption]. lia. }
    destruct (r =? r_backslash).
    { eapply HIH; [|eassumption]. destruct reached1; lia. }
    destruct reached1.
    + eapply HIH; [|eassumption]. lia.
    + eapply HIH; [|eassumption]. lia.
Qed.

(* ---- numbers ---- *)
Lemma read_float_spec : forall L h c, cur_ok L c ->
  cur_ok L (read_float h c) /\ c_pos c <= c_pos (read_float h c).
Proof.
  intros L h c H. unfold cur_ok in *. unfold read_float.
  destruct (digits_run (c_rest c) (c_pos c) (c_col c)) as [[l1 p1] k1] eqn:E1.
  apply digits_run_spec in E1.
  destruct h; [unfold adv; simpl; lia|].
  assert (E2 : exists l2 p2 k2,
     match l1 with
     | r :: t => if (r =? r_exp_lower) || (r =? r_exp_upper) then (t, p1 + 1, k1 + 1) else (l1, p1, k1)
     | [] => (l1, p1, k1)
     end = (l2, p2, k2) /\ p2 + len l2 = p1 + len l1 /\ p1 <= p2).
  { destruct l1 as [|r t].
    - exists [], p1, k1. repeat split; lia.
    - destruct ((r =? r_exp_lower) || (r =? r_exp_upper)).
      + exists t, (p1 + 1), (k1 + 1). rewrite len_cons. repeat split; lia.
      + exists (r :: t), p1, k1. repeat split; lia. }
  destruct E2 as (l2 & p2 & k2 & E2 & E2a & E2b). rewrite E2.
  assert (E3 : exists l3 p3 k3,
     match l2 with
     | r :: t => if (r =? r_sub) || (r =? r_add) then (t, p2 + 1, k2 + 1) else (l2, p2, k2)
     | [] => (l2, p2, k2)
     end = (l3, p3, k3) /\ p3 + len l3 = p2 + len l2 /\ p2 <= p3).
  { destruct l2 as [|r t].
    - exists [], p2, k2. repeat split; lia.
    - destruct ((r =? r_sub) || (r =? r_add)).
      + exists t, (p2 + 1), (k2 + 1). rewrite len_cons. repeat split; lia.
      + exists (r :: t), p2, k2. repeat split; lia. }
  destruct E3 as (l3 & p3 & k3 & E3 & E3a & E3b). rewrite E3.
  destruct (digits_run l3 p3 k3) as [[l4 p4] k4] eqn:E4.
  apply digits_run_spec in E4. unfold adv; simpl. lia.
Qed.

Lemma read_rune_cons_full : forall r t pos line col, (r =? 0) = false ->
  read_rune {| c_rest := r :: t; c_pos := pos; c_line := line; c_col := col |} =
  (r, {| c_rest := t; c_pos := pos + 1; c_line := (if r =? r_lf then line + 1 else line);
         c_col := (if r =? r_lf then 1 else col + 1) |}).
Proof. intros r t pos line col H0. unfold read_rune. simpl. rewrite H0. destruct (r =? r_lf); reflexivity. Qed.

(* ---- Read: stays inside the input, literal range well-formed, progress unless EOF ---- *)
Lemma read_spec : forall L c0 t c', L < two32 -> cur_ok L c0 -> read c0 = (t, c') ->
  cur_ok L c' /\ c_pos c0 <= t_start t /\ t_start t <= t_end t /\ t_end t <= c_pos c' /\
  (kind_eqb (t_kind t) KEof = false -> c_pos c0 < c_pos c').
Proof.
  intros L c0 t c' HL H0 H. unfold read in H.
  pose proof (skip_ws_spec (c_rest c0) (c_pos c0) (c_line c0) (c_col c0)) as Hs. cbv zeta in Hs.
  remember (skip_ws (c_rest c0) (c_pos c0) (c_line c0) (c_col c0)) as c eqn:Ec. clear Ec.
  destruct Hs as [Hs1 Hs2]. unfold cur_ok in H0.
  destruct c as [rest pos line col]. cbn [c_pos c_line c_col c_rest] in *.
  assert (HposL : pos + len rest = L) by lia.
  destruct rest as [|r rt].
  { (* true end of input: the EOF token *)
    unfold read_rune in H. cbn in H. inj H. unfold cur_ok. cbn. rewrite len_nil in *.
    rewrite !u32_id by lia. repeat split; try lia; try (intro Hk; discriminate Hk). }
  rewrite len_cons in HposL.
  destruct (r =? 0) eqn:E0.
  { (* a NUL byte: the EOF token, nothing consumed *)
    rewrite (read_rune_nul _ _ _ _ _ E0) in H. cbn [c_pos c_rest c_line c_col] in H.
    assert (Hk0 : single_kind 0 = Some KEof) by reflexivity. rewrite Hk0 in H. unfold here in H.
    cbn [c_pos c_rest c_line c_col] in H. inj H. unfold cur_ok. cbn [c_pos c_rest t_start t_end t_kind mk_tok].
    rewrite len_cons. rewrite !u32_id by lia. repeat split; try lia; try (intro Hk; discriminate Hk). }
  rewrite (read_rune_cons_full _ _ _ _ _ E0) in H.
  set (line1 := if r =? r_lf then line + 1 else line) in *.
  set (col1 := if r =? r_lf then 1 else col + 1) in *. clearbody line1 col1.
  unfold here in H. cbn [c_pos c_rest c_line c_col] in H.
  destruct (single_kind r) as [k|] eqn:Hk.
  { inj H. unfold cur_ok. cbn. rewrite !u32_id by lia. repeat split; lia. }
  destruct (r =? r_hash).
  { (* comment *)
    cbn [c_pos c_rest c_line c_col here] in H.
    destruct (comment_loop rt (pos + 1) line1 col1 (u32 (pos + 1), line1, col1)) as [c2 [[en le] ce]] eqn:Hc.
    rewrite u32_id in Hc by lia.
    apply (comment_loop_spec L HL) in Hc; try lia.
    inj H. cbn. rewrite !u32_id by lia. unfold cur_ok in *. repeat split; lia. }
  destruct (r =? r_quote).
  { destruct (peek_two {| c_rest := rt; c_pos := pos + 1; c_line := line1; c_col := col1 |} r_quote r_quote) eqn:Hp.
    - (* block string *)
      unfold peek_two in Hp. cbn [c_rest] in Hp.
      destruct rt as [|x [|y rt']]; try discriminate Hp.
      cbn [adv c_pos c_rest c_line c_col skipn] in H.
      rewrite !len_cons in HposL.
      destruct (bstring_loop rt' (pos + 1 + 2) line1 (col1 + 2) false 0 0 false 0) as [[[c3 [[en le] ce]] lead] ws] eqn:Hb.
      apply (bstring_loop_spec L HL (pos + 1 + 2)) in Hb; try lia.
      inj H. cbn. unfold cur_ok in *.
      rewrite (u32_id (pos + 1 + 2)) by lia. rewrite (u32_id lead) by lia. rewrite (u32_id ws) by lia.
      rewrite add32_id by lia. rewrite sub32_id by lia. repeat split; lia.
    - (* single-line string *)
      cbn [c_pos c_rest c_line c_col] in H.
      destruct (sstring_loop rt (pos + 1) line1 col1 false) as [c2 [[en le] ce]] eqn:Hc.
      apply (sstring_loop_spec L HL) in Hc; try lia.
      inj H. cbn. rewrite !u32_id by lia. unfold cur_ok in *. repeat split; lia. }
  destruct (r =? r_dot).
  { destruct (peek_two {| c_rest := rt; c_pos := pos + 1; c_line := line1; c_col := col1 |} r_dot r_dot) eqn:Hp.
    - unfold peek_two in Hp. cbn [c_rest] in Hp.
      destruct rt as [|x [|y rt']]; try discriminate Hp.
      rewrite !len_cons in HposL.
      inj H. cbn. unfold cur_ok. cbn. rewrite !u32_id by lia. repeat split; lia.
    - inj H. cbn. unfold cur_ok. cbn. rewrite !u32_id by lia. repeat split; lia. }
  destruct (is_digit r).
  { cbn [c_pos c_rest c_line c_col] in H.
    destruct (digits_run rt (pos + 1) col1) as [[l1 p1] k1] eqn:Hd.
    apply digits_run_spec in Hd.
    unfold adv, peek in H. cbn [c_rest c_pos c_col c_line] in H.
    match type of H with (if ?b then _ else _) = _ => destruct b eqn:Hf end.
    - (* float *)
      destruct l1 as [|r2 l1'].
      { cbn in Hf. discriminate Hf. }
      cbn [tl] in H. rewrite len_cons in Hd.
      match type of H with context [read_float ?h ?c] =>
        pose proof (read_float_spec L h c) as Hfl; remember (read_float h c) as c4 eqn:E4; clear E4 end.
      unfold cur_ok in Hfl at 1. cbn [c_pos c_rest] in Hfl.
      destruct Hfl as [Hfl1 Hfl2]; [lia|].
      inj H. cbn. unfold cur_ok in *. rewrite !u32_id by lia. repeat split; lia.
    - inj H. cbn. unfold cur_ok. cbn. rewrite !u32_id by lia. repeat split; lia. }
  (* identifier: the first byte, whatever it is, plus identifier characters *)
  cbn [c_pos c_rest c_line c_col] in H.
  destruct (ident_run rt (pos + 1) col1) as [[l1 p1] k1] eqn:Hd.
  apply ident_run_spec in Hd.
  inj H. cbn. unfold cur_ok. cbn. rewrite !u32_id by lia. repeat split; lia.
Qed.

(* ---- Tokenize ---- *)
(* tokens lie in [p, L], each with start <= end, each starting at or after the previous end *)
Fixpoint chain (p L : N) (ts : list token) : Prop :=
  match ts with
  | [] => True
  | t :: r => p <= t_start t /\ t_start t <= t_end t /\ t_end t <= L /\ chain (t_end t) L r
  end.

Lemma chain_weaken : forall ts p q L, p <= q -> chain q L ts -> chain p L ts.
Proof. destruct ts; simpl; intros; [trivial|]. intuition lia. Qed.

Lemma tokenize_fuel_spec : forall L, L < two32 -> forall fuel c,
  cur_ok L c -> (length (c_rest c) < fuel)%nat ->
  exists ts, tokenize_fuel fuel c = Some ts /\ chain (c_pos c) L ts.
Proof.
  intros L HL. induction fuel as [|f IH]; intros c Hc Hf; [lia|].
  cbn [tokenize_fuel]. destruct (read c) as [t c'] eqn:Hr.
  apply (read_spec L c t c' HL Hc) in Hr. destruct Hr as (Hc' & H1 & H2 & H3 & H4).
  destruct (kind_eqb (t_kind t) KEof) eqn:Hk.
  - exists []. split; [reflexivity|exact I].
  - specialize (H4 eq_refl).
    assert (Hlt : (length (c_rest c') < f)%nat).
    { unfold cur_ok, len in *. lia. }
    destruct (IH c' Hc' Hlt) as (ts & Hts & Hch). rewrite Hts.
    exists (t :: ts). split; [reflexivity|]. simpl.
    unfold cur_ok in Hc'. repeat split; try lia.
    eapply chain_weaken; [|exact Hch]. lia.
Qed.

Theorem tokenize_total_proof : forall b, len b < two32 -> tokenize b <> None.
Proof.
  intros b Hb. unfold tokenize.
  destruct (tokenize_fuel_spec (len b) Hb (S (length b)) (init b)) as (ts & Hts & _).
  - unfold cur_ok, init; simpl. lia.
  - simpl. lia.
  - rewrite Hts. discriminate.
Qed.

Definition in_range (n : N) (t : token) : Prop := t_start t <= t_end t /\ t_end t <= n.
Fixpoint ordered (ts : list token) : Prop :=
  match ts with
  | t1 :: ((t2 :: _) as r) => t_end t1 <= t_start t2 /\ ordered r
  | _ => True
  end.

Lemma chain_in_range : forall ts p L, chain p L ts -> Forall (in_range L) ts.
Proof.
  induction ts as [|t r IH]; intros p L H; constructor.
  - simpl in H. unfold in_range. lia.
  - simpl in H. eapply IH. apply H.
Qed.
Lemma chain_ordered : forall ts p L, chain p L ts -> ordered ts.
Proof.
  induction ts as [|t r IH]; intros p L H; [exact I|].
  destruct r as [|t2 r']; [exact I|].
  simpl in H. simpl. split; [lia|]. eapply (IH (t_end t) L). simpl. intuition.
Qed.

Theorem tokens_in_range_proof : forall b ts, len b < two32 -> tokenize b = Some ts ->
  Forall (in_range (len b)) ts.
Proof.
  intros b ts Hb H. unfold tokenize in H.
  destruct (tokenize_fuel_spec (len b) Hb (S (length b)) (init b)) as (ts' & Hts & Hch).
  - unfold cur_ok, init; simpl. lia.
  - simpl. lia.
  - rewrite Hts in H. inversion H; subst. eapply chain_in_range; eassumption.
Qed.

Theorem tokens_ordered_proof : forall b ts, len b < two32 -> tokenize b = Some ts -> ordered ts.
Proof.
  intros b ts Hb H. unfold tokenize in H.
  destruct (tokenize_fuel_spec (len b) Hb (S (length b)) (init b)) as (ts' & Hts & Hch).
  - unfold cur_ok, init; simpl. lia.
  - simpl. lia.
  - rewrite Hts in H. inversion H; subst. eapply chain_ordered; eassumption.
Qed.

(* read_progress as a statement of its own (used by the totality argument) *)
Theorem read_progress_proof : forall b c t c', len b < two32 -> cur_ok (len b) c -> read c = (t, c') ->
  kind_eqb (t_kind t) KEof = false -> (length (c_rest c') < length (c_rest c))%nat.
Proof.
  intros b c t c' Hb Hc Hr Hk. apply (read_spec (len b) c t c' Hb Hc) in Hr.
  destruct Hr as (Hc' & _ & _ & _ & H4). specialize (H4 Hk). unfold cur_ok, len in *. lia.
Qed.
