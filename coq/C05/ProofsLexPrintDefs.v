(* C05, lexical half of the round trip: shared definitions.
     relex k lit   the text the printer writes for a token of kind k with literal lit is read back by
                   Lexer.Read as exactly that token, in every context that starts with a delimiter
     G             every token of a list that has a successor carries such a literal
     doc_ok        every literal stored in a document satisfies a predicate (per literal class)
   No model code here; definitions and a few list facts only. *)
From Gv Require Import lib.Bytes lib.Gql C05.Lex C05.Parse C05.Print C05.Tokens C05.ProofsLex.
From Coq Require Import Lia ZifyN ZifyNat ZifyBool.
Open Scope N_scope.

(* bytes after which every word token (identifier, number) and every string ends: white space and the
   single-rune punctuators other than '-' (an identifier character / float sign) and NUL *)
Definition delim_table : list byte := [124;61;64;58;33;40;41;123;125;91;93;38;36].
Definition delim (c : byte) : bool := is_ws c || existsb (N.eqb c) delim_table.
(* [sd l]: l is empty or starts with a delimiter *)
Definition sd (l : bytes) : bool := match l with [] => true | c :: _ => delim c end.
Definition isnil {A} (l : list A) : bool := match l with [] => true | _ => false end.

Definition ind_ws (ind : option bytes) : bool := match ind with None => true | Some i => forallb is_ws i end.

(* what the printer writes for a token *)
Definition text_of (k : kind) (lit : bytes) : bytes :=
  match k with
  | KString => s_quote ++ lit ++ s_quote
  | KBlockString => print_block_string lit
  | _ => lit
  end.
Definition lit_off (k : kind) : N := match k with KString => 1 | KBlockString => 3 | _ => 0 end.

Definition mkc (l : bytes) (pos line col : N) : cur := {| c_rest := l; c_pos := pos; c_line := line; c_col := col |}.

Definition relex (k : kind) (lit : bytes) : Prop :=
  forall rest pos line col, sd rest = true -> pos + len (text_of k lit ++ rest) < two32 ->
  exists t line' col',
    read (mkc (text_of k lit ++ rest) pos line col) = (t, mkc rest (pos + len (text_of k lit)) line' col')
    /\ t_kind t = k /\ t_start t = pos + lit_off k /\ t_end t = pos + lit_off k + len lit
    /\ (lit_off k = 0 -> t_cs t = col).

(* the literal classes the parser stores *)
Definition relexk (k : kind) (lit : bytes) : Prop :=
  match k with
  | KIdent | KInteger | KFloat | KString | KBlockString => relex k lit
  | _ => True
  end.

Section Good.
  Variable goodl : kind -> bytes -> Prop.
  (* every token that has a successor is good (only the last token of a token stream can be an
     unterminated string / block string) *)
  Fixpoint G (ts : list ptoken) : Prop :=
    match ts with
    | [] => True
    | t :: r => (r <> [] -> goodl (pk t) (plit t)) /\ G r
    end.
  (* a number as the parser stores it: the token, or '-' and the token *)
  Definition num_ok (k : kind) (raw : bytes) : Prop := goodl k raw \/ exists r, raw = r_sub :: r /\ goodl k r.
End Good.

Section DocOk.
  Variables Pn Pi Pf Ps Pb : bytes -> Prop.   (* names, integers, floats, strings, block strings *)

  Fixpoint value_ok (v : value) : Prop :=
    match v with
    | VVar n => Pn n
    | VInt raw => Pi raw
    | VFloat raw => Pf raw
    | VStr raw false => Ps raw
    | VStr raw true => Pb raw
    | VBool _ => True
    | VNull => True
    | VEnum n => Pn n
    | VList items => (fix go (l : list value) : Prop := match l with [] => True | x :: r => value_ok x /\ go r end) items
    | VObj fields =>
      (fix go (l : list (name * value)) : Prop :=
         match l with [] => True | kv :: r => (Pn (fst kv) /\ value_ok (snd kv)) /\ go r end) fields
    end.
  Fixpoint type_ok (t : ty) : Prop :=
    match t with TNamed n => Pn n | TList t' => type_ok t' | TNonNull t' => type_ok t' end.
  Definition arg_ok (a : argument) : Prop := Pn (fst a) /\ value_ok (snd a).
  Definition args_ok (a : list argument) : Prop := Forall arg_ok a.
  Definition dir_ok (d : directive) : Prop := Pn (d_name d) /\ args_ok (d_args d).
  Definition dirs_ok (ds : list directive) : Prop := Forall dir_ok ds.
  Definition optn_ok (o : option name) : Prop := match o with Some n => Pn n | None => True end.
  Fixpoint sel_ok (s : selection) : Prop :=
    match s with
    | SField alias fname args dirs sels =>
      optn_ok alias /\ Pn fname /\ args_ok args /\ dirs_ok dirs
      /\ (fix go (l : list selection) : Prop := match l with [] => True | x :: r => sel_ok x /\ go r end) sels
    | SInline tc dirs sels =>
      optn_ok tc /\ dirs_ok dirs
      /\ (fix go (l : list selection) : Prop := match l with [] => True | x :: r => sel_ok x /\ go r end) sels
    | SSpread fr dirs => Pn fr /\ dirs_ok dirs
    end.
  Definition sels_ok (l : list selection) : Prop := Forall sel_ok l.
  Definition vardef_ok (v : vardef) : Prop :=
    Pn (vd_name v) /\ type_ok (vd_type v)
    /\ match vd_default v with Some dv => value_ok dv | None => True end
    /\ dirs_ok (vd_dirs v).
  Definition def_ok (d : definition) : Prop :=
    match d with
    | DOp o => optn_ok (op_name o) /\ Forall vardef_ok (op_vars o) /\ dirs_ok (op_dirs o) /\ sels_ok (op_sels o)
    | DFrag f => Pn (fr_name f) /\ Pn (fr_type f) /\ dirs_ok (fr_dirs f) /\ sels_ok (fr_sels f)
    end.
  Definition doc_ok (d : document) : Prop := Forall def_ok d.

  (* the nested fixpoints are Forall *)
  Lemma value_ok_list : forall items, value_ok (VList items) <-> Forall value_ok items.
  Proof.
    intro items. cbn [value_ok]. induction items as [|x r IH]; split; intro H.
    - constructor.
    - exact I.
    - destruct H as [H1 H2]. constructor; [exact H1|]. apply IH. exact H2.
    - inversion H; subst. split; [assumption|]. apply IH. assumption.
  Qed.
  Lemma value_ok_obj : forall fields,
    value_ok (VObj fields) <-> Forall (fun kv => Pn (fst kv) /\ value_ok (snd kv)) fields.
  Proof.
    intro fields. cbn [value_ok]. induction fields as [|x r IH]; split; intro H.
    - constructor.
    - exact I.
    - destruct H as [H1 H2]. constructor; [exact H1|]. apply IH. exact H2.
    - inversion H; subst. split; [assumption|]. apply IH. assumption.
  Qed.
  Lemma sels_go_Forall : forall sels,
    (fix go (l : list selection) : Prop := match l with [] => True | x :: r => sel_ok x /\ go r end) sels <-> sels_ok sels.
  Proof.
    induction sels as [|x r IH]; split; intro H.
    - constructor.
    - exact I.
    - destruct H as [H1 H2]. constructor; [exact H1|]. apply IH. exact H2.
    - inversion H; subst. split; [assumption|]. apply IH. assumption.
  Qed.
  Lemma sel_ok_field : forall alias fname args dirs sels,
    sel_ok (SField alias fname args dirs sels) <->
    optn_ok alias /\ Pn fname /\ args_ok args /\ dirs_ok dirs /\ sels_ok sels.
  Proof. intros. cbn [sel_ok]. rewrite sels_go_Forall. reflexivity. Qed.
  Lemma sel_ok_inline : forall tc dirs sels,
    sel_ok (SInline tc dirs sels) <-> optn_ok tc /\ dirs_ok dirs /\ sels_ok sels.
  Proof. intros. cbn [sel_ok]. rewrite sels_go_Forall. reflexivity. Qed.
End DocOk.

(* a cursor standing inside the buffer b *)
Definition at_buf (b : bytes) (c : cur) : Prop :=
  c_rest c = skipn (N.to_nat (c_pos c)) b /\ c_pos c <= len b.

(* no COMMENT token *)
Definition nocomm (ts : list token) : Prop := Forall (fun t => kind_eqb (t_kind t) KComment = false) ts.
