(* C05: anchors (the model uses the tables of the Go source), the refutation of field-limit
   soundness for the historical accounting, and satisfiability examples. *)
From Gv Require Import lib.Bytes lib.Gql C05.Lex C05.Parse C05.Limits C05.Print C05.Spec gen.Anchors_C05.
From Coq Require Import ZArith.
Open Scope N_scope.

Definition anchors_statement : Prop :=
  forallb (fun k => bytes_eqb (nth (N.to_nat (kind_code k)) anchor_keyword_names []) (kind_name k)) all_kinds = true
  /\ anchor_single_runes = map (fun p => (fst p, kind_name (snd p))) single_rune_table
  /\ anchor_ws = ws_table
  /\ anchor_ident_ranges = ident_ranges /\ anchor_ident_singles = ident_singles
  /\ anchor_digit_range = (48, 57)
  /\ anchor_special_runes = [r_hash; r_quote; r_dot; r_backslash; r_lf; r_cr; r_space; r_tab; r_exp_lower; r_exp_upper; r_sub; r_add]
  /\ anchor_identkeywords = map (fun p => (fst p, identkw_name (snd p))) identkw_table
  /\ anchor_limit_def_keywords = map identkw_name limit_def_keywords
  /\ anchor_limit_reset_guarded = true
  /\ anchor_limit_shorthand_period = true
  (* the source has the repairs Lex.read_rune / Lex.bstring_loop / Print.print_block_string follow *)
  /\ anchor_lexer_nul_not_consumed = true
  /\ anchor_lexer_block_quotes_are_content = true
  /\ anchor_print_block_newline_after_quote = true.
Lemma anchors_ok : anchors_statement.
Proof. unfold anchors_statement. repeat split; reflexivity. Qed.

(* query Q($query: Int) { a(x: $query) b c d e f g h } *)
Definition witness_query_var : bytes :=
  [113;117;101;114;121;32;81;40;36;113;117;101;114;121;58;32;73;110;116;41;32;123;32;97;40;120;58;32;36;113;117;101;114;121;41;32;
   98;32;99;32;100;32;101;32;102;32;103;32;104;32;125].

Definition accepted (fx cm : bool) (L F : Z) (b : bytes) : bool :=
  match tokenize_limits fx cm L F b with Some (LOk, _, _) => true | _ => false end.

(* historical accounting: 8 real fields, MaxFields = 3, accepted (TotalFields = 2) *)
Lemma limits_fields_refuted_proof :
  exists b d, parse_bytes b = Ok d [] /\ exceeds 0 3 d /\ doc_fields d = 8%Z /\
              tokenize_limits false false 0 3 b = Some (LOk, 1%Z, 2%Z).
Proof.
  exists witness_query_var.
  eexists. split; [vm_compute; reflexivity|]. split; [right; vm_compute; split; reflexivity|].
  split; vm_compute; reflexivity.
Qed.

(* the repaired accounting rejects the same document *)
Example fixed_rejects_witness : tokenize_limits true true 0 3 witness_query_var = Some (LFields, 2%Z, 4%Z).
Proof. vm_compute. reflexivity. Qed.

(* { a { b } } -- depth 2, 2 fields: hypotheses of limits_sound are satisfiable, and it is rejected *)
Definition ex_nested : bytes := [123;32;97;32;123;32;98;32;125;32;125].
Example ex_limits_hyp : exists d, parse_bytes ex_nested = Ok d [] /\ exceeds 1 0 d /\ accepted true true 1 0 ex_nested = false.
Proof. eexists. split; [vm_compute; reflexivity|]. split; [left; vm_compute; split; reflexivity|vm_compute; reflexivity]. Qed.

(* fragment F on T {a{b}} {x{...F}} : cumulative depth 4, the operation with F spread has depth 3;
   before the second repair it was accepted with MaxDepth = 2 (TotalDepth = 2) *)
Definition witness_shorthand_after_fragment : bytes :=
  [102;114;97;103;109;101;110;116;32;70;32;111;110;32;84;32;123;97;123;98;125;125;32;123;120;123;46;46;46;70;125;125].
Lemma limits_cumulative_depth_refuted_proof :
  exists b d, parse_bytes b = Ok d [] /\ depth_sum d = 4%Z /\ max_depth_inlined d d = 3%Z /\
              tokenize_limits true false 2 0 b = Some (LOk, 2%Z, 3%Z).
Proof.
  exists witness_shorthand_after_fragment. eexists. split; [vm_compute; reflexivity|].
  split; [vm_compute; reflexivity|]. split; vm_compute; reflexivity.
Qed.
Example current_rejects_shorthand_witness :
  tokenize_limits true true 2 0 witness_shorthand_after_fragment = Some (LDepth, 3%Z, 2%Z).
Proof. vm_compute. reflexivity. Qed.

(* tokens of  {a(x:"""s""" y:-1.5e3)...F}  : every token kind family, ranges in the input *)
Definition ex_tokens : bytes :=
  [123;97;40;120;58;34;34;34;115;34;34;34;32;121;58;45;49;46;53;101;51;41;46;46;46;70;125].
Example ex_tokenize : exists ts, tokenize ex_tokens = Some ts /\ length ts = 14%nat.
Proof. eexists. split; vm_compute; reflexivity. Qed.

(* print / parse round trip on a concrete document *)
Example ex_roundtrip : exists d, parse_bytes witness_query_var = Ok d [] /\ parse_bytes (print d) = Ok d [].
Proof. eexists. split; vm_compute; reflexivity. Qed.
