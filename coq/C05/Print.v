(* C05 stage 3: model of v2/pkg/astprinter (printVisitor over astvisitor.SimpleWalker) and
   ast.PrintValue / PrintType / PrintArgument for executable documents.
   [ind = None] is astprinter.Print (compact); [ind = Some i] is PrintIndent(i).
   The spacing rules (who emits the blank after a directive list, when "query" is omitted -- only for
   the bare shorthand since the repair of EnterOperationDefinition -- ...)
   are those of Enter*/Leave* in astprinter.go, read off branch by branch. *)
From Gv Require Import lib.Bytes lib.Gql C05.Lex.
Open Scope N_scope.

Definition sp : bytes := [32].
Definition nl : bytes := [10].
Definition s_colon_sp : bytes := [58; 32].
Definition s_comma_sp : bytes := [44; 32].
Definition s_query : bytes := [113;117;101;114;121].
Definition s_mutation : bytes := [109;117;116;97;116;105;111;110].
Definition s_subscription : bytes := [115;117;98;115;99;114;105;112;116;105;111;110].
Definition s_fragment : bytes := [102;114;97;103;109;101;110;116].
Definition s_on : bytes := [111;110].
Definition s_true : bytes := [116;114;117;101].
Definition s_false : bytes := [102;97;108;115;101].
Definition s_null : bytes := [110;117;108;108].
Definition s_spread : bytes := [46;46;46].
Definition s_quote : bytes := [34].
Definition s_quote3 : bytes := [34;34;34].

Fixpoint join (sep : bytes) (l : list bytes) : bytes :=
  match l with
  | [] => []
  | [x] => x
  | x :: r => x ++ sep ++ join sep r
  end.

(* ast.PrintValue.  Since the repair of rt-block-string-edge a block string whose content ends in a
   quote or a backslash gets a line terminator before the closing delimiter (the pre-repair printer,
   which wrote the content between the delimiters as it is, is in PreFix.v). *)
Definition ends_quote_or_backslash (raw : bytes) : bool :=
  match rev raw with
  | c :: _ => (c =? 34) || (c =? 92)
  | [] => false
  end.
Definition print_block_string (raw : bytes) : bytes :=
  s_quote3 ++ raw ++ (if ends_quote_or_backslash raw then nl else []) ++ s_quote3.

Fixpoint print_value (v : value) : bytes :=
  match v with
  | VVar n => 36 :: n
  | VInt raw => raw
  | VFloat raw => raw
  | VStr raw false => s_quote ++ raw ++ s_quote
  | VStr raw true => print_block_string raw
  | VBool true => s_true
  | VBool false => s_false
  | VNull => s_null
  | VEnum n => n
  | VList items => [91] ++ join [44] (map print_value items) ++ [93]
  | VObj fields =>
    [123] ++ join [44] (map (fun kv => fst kv ++ s_colon_sp ++ print_value (snd kv)) fields) ++ [125]
  end.

(* ast.PrintType *)
Fixpoint print_type (t : ty) : bytes :=
  match t with
  | TNamed n => n
  | TList t' => [91] ++ print_type t' ++ [93]
  | TNonNull t' => print_type t' ++ [33]
  end.

(* EnterArgument / LeaveArgument over the arguments of a field or directive *)
Definition print_args (args : list argument) : bytes :=
  match args with
  | [] => []
  | _ => [40] ++ join s_comma_sp (map (fun a => fst a ++ s_colon_sp ++ print_value (snd a)) args) ++ [41]
  end.

(* EnterDirective .. LeaveDirective: [after_last] is what LeaveDirective writes after the last one *)
Fixpoint print_dirs (ds : list directive) (after_last : bytes) : bytes :=
  match ds with
  | [] => []
  | [d] => [64] ++ d_name d ++ print_args (d_args d) ++ after_last
  | d :: r => [64] ++ d_name d ++ print_args (d_args d) ++ sp ++ print_dirs r after_last
  end.

Definition nonempty {A} (l : list A) : bool := match l with [] => false | _ => true end.

Fixpoint repeat_bytes (n : nat) (i : bytes) : bytes := match n with O => [] | S m => i ++ repeat_bytes m i end.
(* writeIndented at selection-set nesting [depth] *)
Definition indent_of (ind : option bytes) (depth : nat) : bytes :=
  match ind with None => [] | Some i => repeat_bytes depth i end.
(* separator written between selections *)
Definition sel_sep (ind : option bytes) : bytes := match ind with None => sp | Some _ => nl end.

(* [depth] = number of enclosing selection sets of the selection being printed; [after] = there
   are selections after this one in its set *)
Fixpoint print_sel (ind : option bytes) (depth : nat) (after : bool) (s : selection) : bytes :=
  let selset (sels : list selection) : bytes :=
    [123] ++ (match ind with None => [] | Some _ => nl end)
    ++ (fix go (l : list selection) : bytes :=
          match l with
          | [] => []
          | [x] => print_sel ind (S depth) false x
          | x :: r => print_sel ind (S depth) true x ++ go r
          end) sels
    ++ (match ind with None => [] | Some _ => nl end) ++ indent_of ind depth ++ [125] in
  match s with
  | SField alias fname args dirs sels =>
    indent_of ind depth
    ++ (match alias with Some a => a ++ s_colon_sp ++ fname | None => fname end)
    ++ (if negb (nonempty args) && (nonempty sels || nonempty dirs) then sp else [])
    ++ print_args args
    ++ print_dirs dirs (if nonempty sels then sp else if after then sel_sep ind else [])
    ++ (if nonempty sels then selset sels else [])
    ++ (if after then (if negb (nonempty sels) && nonempty dirs then [] else sel_sep ind) else [])
  | SInline tc dirs sels =>
    indent_of ind depth ++ s_spread
    ++ (match tc with
        | Some t => sp ++ s_on ++ sp ++ t ++ sp
        | None => if nonempty dirs then sp else []
        end)
    ++ print_dirs dirs (match ind with None => if after then sp else [] | Some _ => sp end)
    ++ (if nonempty sels then selset sels else [])
    ++ (if after then sel_sep ind else [])
  | SSpread fr dirs =>
    indent_of ind depth ++ s_spread ++ fr
    ++ (if nonempty dirs then sp else [])
    ++ print_dirs dirs (match ind with None => if after then sp else [] | Some _ => [] end)
    ++ (if after then sel_sep ind else [])
  end.

(* the selection set of a definition (depth 0: its closing brace is not indented) *)
Definition print_selset (ind : option bytes) (depth : nat) (sels : list selection) : bytes :=
  [123] ++ (match ind with None => [] | Some _ => nl end)
  ++ (fix go (l : list selection) : bytes :=
        match l with
        | [] => []
        | [x] => print_sel ind (S depth) false x
        | x :: r => print_sel ind (S depth) true x ++ go r
        end) sels
  ++ (match ind with None => [] | Some _ => nl end) ++ indent_of ind depth ++ [125].

(* EnterVariableDefinition .. LeaveVariableDefinition *)
Fixpoint print_vardefs_from (first : bool) (vs : list vardef) : bytes :=
  match vs with
  | [] => []
  | v :: r =>
    let last := negb (nonempty r) in
    (if first then [40] else [])
    ++ [36] ++ vd_name v ++ s_colon_sp ++ print_type (vd_type v)
    ++ (match vd_default v with Some dv => sp ++ [61] ++ sp ++ print_value dv | None => [] end)
    ++ (if nonempty (vd_dirs v) then sp else [])
    ++ print_dirs (vd_dirs v) (if last then sp else [])
    ++ (if last then [41] else s_comma_sp)
    ++ print_vardefs_from false r
  end.

Definition def_sep (ind : option bytes) : bytes := match ind with None => sp | Some _ => nl ++ nl end.

Definition print_def (ind : option bytes) (last : bool) (d : definition) : bytes :=
  match d with
  | DOp o =>
    let has_name := match op_name o with Some _ => true | None => false end in
    let has_vars := nonempty (op_vars o) in
    (match op_kind o with
     | OpQuery => if has_name || has_vars || nonempty (op_dirs o) then s_query else []
     | OpMutation => s_mutation
     | OpSubscription => s_subscription
     end)
    ++ (match op_name o with Some n => sp ++ n ++ (if has_vars then [] else sp) | None => [] end)
    ++ print_vardefs_from true (op_vars o)
    ++ print_dirs (op_dirs o) sp
    ++ (if nonempty (op_sels o) then print_selset ind 0 (op_sels o) else [])
    ++ (if last then [] else def_sep ind)
  | DFrag f =>
    s_fragment ++ sp ++ fr_name f ++ sp ++ s_on ++ sp ++ fr_type f ++ sp
    ++ print_dirs (fr_dirs f) sp
    ++ (if nonempty (fr_sels f) then print_selset ind 0 (fr_sels f) else [])
    ++ (if last then [] else def_sep ind)
  end.

Fixpoint print_doc (ind : option bytes) (d : document) : bytes :=
  match d with
  | [] => []
  | [x] => print_def ind true x
  | x :: r => print_def ind false x ++ print_doc ind r
  end.

Definition print (d : document) : bytes := print_doc None d.
