(* C05 stage 1: byte-level model of v2/pkg/lexer/lexer.go (Lexer.Read) and of
   astparser.Tokenizer.Tokenize.  Mirrors the Go control flow branch by branch, quirks included
   (NUL is the EOF sentinel, everywhere; any unclassified byte starts an identifier; '-' is an identifier
   character after the first byte; a sign is only consumed after a fractional part; strings end
   at EOF/NUL/CR/LF as well as at a quote).  State of the Go code: with the repairs
   c05_fix_rt-nul-in-string and c15_fix_block-quote-next-to-whitespace.  No proofs here.

   Positions: Go keeps InputPosition as int and stores it into the token as uint32; every such
   conversion is written [u32], the block-string adjustments [Start += uint32(..)] and
   [End -= uint32(..)] and the int subtractions [InputPosition-3], [InputPosition-1] are written
   with [add32]/[sub32], so an underflow would show up as a wrapped (huge) offset, not be hidden
   by truncated subtraction on N. *)
From Gv Require Import lib.Bytes.
Open Scope N_scope.

(* ---- keyword.Keyword (subset the lexer can produce) ---- *)
Inductive kind :=
| KIdent | KComment | KEof
| KColon | KBang | KAt | KDot | KSpread | KPipe | KEquals | KSub | KAnd
| KDollar | KString | KBlockString | KInteger | KFloat
| KLParen | KRParen | KLBrack | KRBrack | KLBrace | KRBrace.

(* position of the constant in keyword.go's iota block *)
Definition kind_code (k : kind) : N :=
  match k with
  | KIdent => 1 | KComment => 2 | KEof => 3 | KColon => 4 | KBang => 5
  | KAt => 10 | KDot => 11 | KSpread => 12 | KPipe => 13 | KEquals => 15 | KSub => 16 | KAnd => 17
  | KDollar => 19 | KString => 20 | KBlockString => 21 | KInteger => 22 | KFloat => 23
  | KLParen => 24 | KRParen => 25 | KLBrack => 26 | KRBrack => 27 | KLBrace => 28 | KRBrace => 29
  end.
Definition kind_eqb (a b : kind) : bool := kind_code a =? kind_code b.

(* Go constant names, for the anchor *)
Definition kind_name (k : kind) : bytes :=
  match k with
  | KIdent => [73;68;69;78;84] | KComment => [67;79;77;77;69;78;84] | KEof => [69;79;70]
  | KColon => [67;79;76;79;78] | KBang => [66;65;78;71] | KAt => [65;84] | KDot => [68;79;84]
  | KSpread => [83;80;82;69;65;68] | KPipe => [80;73;80;69] | KEquals => [69;81;85;65;76;83]
  | KSub => [83;85;66] | KAnd => [65;78;68] | KDollar => [68;79;76;76;65;82]
  | KString => [83;84;82;73;78;71] | KBlockString => [66;76;79;67;75;83;84;82;73;78;71]
  | KInteger => [73;78;84;69;71;69;82] | KFloat => [70;76;79;65;84]
  | KLParen => [76;80;65;82;69;78] | KRParen => [82;80;65;82;69;78]
  | KLBrack => [76;66;82;65;67;75] | KRBrack => [82;66;82;65;67;75]
  | KLBrace => [76;66;82;65;67;69] | KRBrace => [82;66;82;65;67;69]
  end.
Definition all_kinds : list kind :=
  [KIdent; KComment; KEof; KColon; KBang; KAt; KDot; KSpread; KPipe; KEquals; KSub; KAnd; KDollar;
   KString; KBlockString; KInteger; KFloat; KLParen; KRParen; KLBrack; KRBrack; KLBrace; KRBrace].

(* ---- uint32 arithmetic ---- *)
Definition two32 : N := 4294967296.
Definition u32 (x : N) : N := x mod two32.
Definition add32 (a b : N) : N := (a + b) mod two32.
(* a - b on uint32 (a, b already reduced or not: both are reduced first) *)
Definition sub32 (a b : N) : N := ((a mod two32) + two32 - (b mod two32)) mod two32.

(* ---- tables (anchored to the Go source in gen/Anchors_C05.v) ---- *)
(* matchSingleRuneToken: rune -> keyword, in source order *)
Definition single_rune_table : list (byte * kind) :=
  [(0, KEof); (124, KPipe); (61, KEquals); (64, KAt); (58, KColon); (33, KBang); (40, KLParen); (41, KRParen);
   (123, KLBrace); (125, KRBrace); (91, KLBrack); (93, KRBrack); (38, KAnd); (45, KSub); (36, KDollar)].
Fixpoint assoc_byte {A} (r : byte) (l : list (byte * A)) : option A :=
  match l with
  | [] => None
  | (b, a) :: l' => if r =? b then Some a else assoc_byte r l'
  end.
Definition single_kind (r : byte) : option kind := assoc_byte r single_rune_table.

(* byteIsWhitespace: SPACE TAB CARRIAGERETURN LINETERMINATOR COMMA *)
Definition ws_table : list byte := [32; 9; 13; 10; 44].
Definition is_ws (r : byte) : bool := existsb (N.eqb r) ws_table.

(* runeIsIdent: a-z A-Z 0-9 SUB UNDERSCORE *)
Definition ident_ranges : list (byte * byte) := [(97, 122); (65, 90); (48, 57)].
Definition ident_singles : list byte := [45; 95].
Definition is_ident_char (r : byte) : bool :=
  existsb (fun '(lo, hi) => (lo <=? r) && (r <=? hi)) ident_ranges || existsb (N.eqb r) ident_singles.

Definition r_hash : byte := 35.
Definition r_quote : byte := 34.
Definition r_dot : byte := 46.
Definition r_backslash : byte := 92.
Definition r_lf : byte := 10.
Definition r_cr : byte := 13.
Definition r_space : byte := 32.
Definition r_tab : byte := 9.
Definition r_exp_lower : byte := 101.
Definition r_exp_upper : byte := 69.
Definition r_sub : byte := 45.
Definition r_add : byte := 43.

(* ---- tokens and the cursor (ast.Input: InputPosition + TextPosition) ---- *)
Record token := {
  t_kind : kind;
  t_start : N; t_end : N;             (* Literal.Start / Literal.End (uint32) *)
  t_ls : N; t_cs : N; t_le : N; t_ce : N }.   (* TextPosition LineStart CharStart LineEnd CharEnd *)

(* [c_rest] is RawBytes[InputPosition:], [c_pos] is InputPosition *)
Record cur := { c_rest : bytes; c_pos : N; c_line : N; c_col : N }.
Definition init (b : bytes) : cur := {| c_rest := b; c_pos := 0; c_line := 1; c_col := 1 |}.

(* readRune: at the end of input returns EOF (0) without moving; a NUL byte also reads as EOF
   and, since the repair of rt-nul-in-string, is NOT consumed either: it ends the input for every
   reader (the pre-repair readRune, which consumed it, is in PreFix.v) *)
Definition read_rune (c : cur) : byte * cur :=
  match c_rest c with
  | [] => (0, c)
  | r :: t =>
    if r =? 0 then (0, c)
    else if r =? r_lf then (r, {| c_rest := t; c_pos := c_pos c + 1; c_line := c_line c + 1; c_col := 1 |})
    else (r, {| c_rest := t; c_pos := c_pos c + 1; c_line := c_line c; c_col := c_col c + 1 |})
  end.

(* peekRune(false) *)
Definition peek (c : cur) : byte := match c_rest c with [] => 0 | r :: _ => r end.
(* peekRune(true): first non-whitespace byte ahead, EOF if none *)
Fixpoint peek_nonws (l : bytes) : byte :=
  match l with
  | [] => 0
  | r :: t => if is_ws r then peek_nonws t else r
  end.
(* peekEquals(false, a, b) *)
Definition peek_two (c : cur) (a b : byte) : bool :=
  match c_rest c with
  | x :: y :: _ => (x =? a) && (y =? b)
  | _ => false
  end.

(* the loop at the head of Read: SetStart, readRune, repeat while whitespace.  Returns the
   cursor standing ON the first non-whitespace byte (or at the end). *)
Fixpoint skip_ws (l : bytes) (pos line col : N) : cur :=
  match l with
  | [] => {| c_rest := []; c_pos := pos; c_line := line; c_col := col |}
  | r :: t =>
    if is_ws r then
      (if r =? r_lf then skip_ws t (pos + 1) (line + 1) 1 else skip_ws t (pos + 1) line (col + 1))
    else {| c_rest := l; c_pos := pos; c_line := line; c_col := col |}
  end.

(* readIdent: advances over identifier characters (never a newline) *)
Fixpoint ident_run (l : bytes) (pos col : N) : bytes * N * N :=
  match l with
  | [] => ([], pos, col)
  | r :: t => if is_ident_char r then ident_run t (pos + 1) (col + 1) else (l, pos, col)
  end.

(* the "for { r = peekRune(false); if !runeIsDigit(r) {break}; readRune() }" loops *)
Fixpoint digits_run (l : bytes) (pos col : N) : bytes * N * N :=
  match l with
  | [] => ([], pos, col)
  | r :: t => if is_digit r then digits_run t (pos + 1) (col + 1) else (l, pos, col)
  end.

(* end marker of a token: Literal.End, LineEnd, CharEnd *)
Definition endm := (N * N * N)%type.

(* readComment, after the '#' was read and SetEnd called once.  [e] is the current end marker. *)
Fixpoint comment_loop (l : bytes) (pos line col : N) (e : endm) : cur * endm :=
  match l with
  | [] => ({| c_rest := []; c_pos := pos; c_line := line; c_col := col |}, e)
  | r :: t =>
    let c' := snd (read_rune {| c_rest := l; c_pos := pos; c_line := line; c_col := col |}) in
    if r =? 0 then (c', e)
    else if (r =? r_cr) || (r =? r_lf) then
      (if peek_nonws t =? r_hash then comment_loop t (c_pos c') (c_line c') (c_col c') e else (c', e))
    else comment_loop t (c_pos c') (c_line c') (c_col c') (u32 (c_pos c'), c_line c', c_col c')
  end.

(* readSingleLineString, after SetStart *)
Fixpoint sstring_loop (l : bytes) (pos line col : N) (escaped : bool) : cur * endm :=
  match l with
  | [] => ({| c_rest := []; c_pos := pos; c_line := line; c_col := col |}, (u32 pos, line, col))
  | r :: t =>
    let c' := snd (read_rune {| c_rest := l; c_pos := pos; c_line := line; c_col := col |}) in
    if (r =? r_space) || (r =? r_tab) then sstring_loop t (c_pos c') (c_line c') (c_col c') false
    else if r =? 0 then (c', (u32 (c_pos c'), c_line c', c_col c'))
    else if (r =? r_quote) || (r =? r_cr) || (r =? r_lf) then
      (if escaped then sstring_loop t (c_pos c') (c_line c') (c_col c') false
       else (c', (sub32 (c_pos c') 1, c_line c', c_col c')))
    else if r =? r_backslash then sstring_loop t (c_pos c') (c_line c') (c_col c') (negb escaped)
    else sstring_loop t (c_pos c') (c_line c') (c_col c') false
  end.

(* readBlockString, after SetStart.  Returns the cursor, the raw end marker (before the
   [End -= whitespaceCount] adjustment), leadingWhitespaceToken and whitespaceCount.
   Since the repair of block-quote-next-to-whitespace the loop starts with
     if quoteCount != 0 && next != QUOTE { reached = true (lead = ws if it was not); ws = 0 }
   ([quotes_content]: quotes that did not close the string are content) and a backslash sets
   reachedFirstNonWhitespace like any other character.  The pre-repair loop is in PreFix.v. *)
Definition quotes_content (qc : N) (r : byte) (ws : N) (reached : bool) (lead : N) : N * bool * N :=
  if negb (qc =? 0) && negb (r =? r_quote) then (0, true, if reached then lead else ws) else (ws, reached, lead).

Fixpoint bstring_loop (l : bytes) (pos line col : N) (escaped : bool) (qc ws0 : N) (reached0 : bool) (lead0 : N)
  : cur * endm * N * N :=
  match l with
  | [] =>
    let '(ws, _, lead) := quotes_content qc 0 ws0 reached0 lead0 in
    ({| c_rest := []; c_pos := pos; c_line := line; c_col := col |}, (u32 pos, line, col), lead, ws)
  | r :: t =>
    let c' := snd (read_rune {| c_rest := l; c_pos := pos; c_line := line; c_col := col |}) in
    let p' := c_pos c' in let l' := c_line c' in let k' := c_col c' in
    let '(ws, reached, lead) := quotes_content qc r ws0 reached0 lead0 in
    if (r =? r_space) || (r =? r_tab) || (r =? r_cr) || (r =? r_lf) then
      bstring_loop t p' l' k' false 0 (ws + 1) reached lead
    else if r =? 0 then (c', (u32 p', l', k'), lead, ws)
    else if r =? r_quote then
      (if escaped then bstring_loop t p' l' k' false qc ws reached lead
       else if qc + 1 =? 3 then (c', (sub32 p' 3, l', k'), lead, ws)
       else bstring_loop t p' l' k' escaped (qc + 1) ws reached lead)
    else if r =? r_backslash then bstring_loop t p' l' k' (negb escaped) 0 0 true (if reached then lead else ws)
    else if reached then bstring_loop t p' l' k' false 0 0 true lead
    else bstring_loop t p' l' k' false 0 0 true ws
  end.

Definition mk_tok (k : kind) (s ls cs : N) (e : endm) : token :=
  let '(en, le, ce) := e in
  {| t_kind := k; t_start := s; t_end := en; t_ls := ls; t_cs := cs; t_le := le; t_ce := ce |}.

Definition adv (c : cur) (l : bytes) (pos col : N) : cur :=
  {| c_rest := l; c_pos := pos; c_line := c_line c; c_col := col |}.
Definition here (c : cur) : endm := (u32 (c_pos c), c_line c, c_col c).

(* readFloat *)
Definition read_float (has_exp : bool) (c : cur) : cur :=
  let '(l1, p1, k1) := digits_run (c_rest c) (c_pos c) (c_col c) in
  if has_exp then adv c l1 p1 k1
  else
    let '(l2, p2, k2) :=
      match l1 with
      | r :: t => if (r =? r_exp_lower) || (r =? r_exp_upper) then (t, p1 + 1, k1 + 1) else (l1, p1, k1)
      | [] => (l1, p1, k1)
      end in
    let '(l3, p3, k3) :=
      match l2 with
      | r :: t => if (r =? r_sub) || (r =? r_add) then (t, p2 + 1, k2 + 1) else (l2, p2, k2)
      | [] => (l2, p2, k2)
      end in
    let '(l4, p4, k4) := digits_run l3 p3 k3 in
    adv c l4 p4 k4.

(* Lexer.Read *)
Definition read (c0 : cur) : token * cur :=
  let c := skip_ws (c_rest c0) (c_pos c0) (c_line c0) (c_col c0) in
  let s := u32 (c_pos c) in let ls := c_line c in let cs := c_col c in
  let '(r, c1) := read_rune c in
  match single_kind r with
  | Some k => (mk_tok k s ls cs (here c1), c1)
  | None =>
    if r =? r_hash then
      let '(c2, e) := comment_loop (c_rest c1) (c_pos c1) (c_line c1) (c_col c1) (here c1) in
      (mk_tok KComment s ls cs e, c2)
    else if r =? r_quote then
      if peek_two c1 r_quote r_quote then
        (* swallowAmount(2): two quotes, never newlines *)
        let c2 := adv c1 (skipn 2 (c_rest c1)) (c_pos c1 + 2) (c_col c1 + 2) in
        let '(c3, (en, le, ce), lead, ws) :=
          bstring_loop (c_rest c2) (c_pos c2) (c_line c2) (c_col c2) false 0 0 false 0 in
        ({| t_kind := KBlockString;
            t_start := add32 (u32 (c_pos c2)) (u32 lead); t_end := sub32 en (u32 ws);
            t_ls := c_line c2; t_cs := sub32 (c_col c2) 3; t_le := le; t_ce := ce |}, c3)
      else
        let '(c2, e) := sstring_loop (c_rest c1) (c_pos c1) (c_line c1) (c_col c1) false in
        (mk_tok KString (u32 (c_pos c1)) (c_line c1) (sub32 (c_col c1) 1) e, c2)
    else if r =? r_dot then
      if peek_two c1 r_dot r_dot then
        let c2 := adv c1 (skipn 2 (c_rest c1)) (c_pos c1 + 2) (c_col c1 + 2) in
        (mk_tok KSpread s ls cs (here c2), c2)
      else (mk_tok KDot s ls cs (here c1), c1)
    else if is_digit r then
      let '(l1, p1, k1) := digits_run (c_rest c1) (c_pos c1) (c_col c1) in
      let c2 := adv c1 l1 p1 k1 in
      let r2 := peek c2 in
      let has_exp := (r2 =? r_exp_lower) || (r2 =? r_exp_upper) in
      if (r2 =? r_dot) || has_exp then
        (* r2 is a real byte here (not the end), and not a newline *)
        let c3 := adv c2 (tl (c_rest c2)) (c_pos c2 + 1) (c_col c2 + 1) in
        let c4 := read_float has_exp c3 in
        (mk_tok KFloat s ls cs (here c4), c4)
      else (mk_tok KInteger s ls cs (here c2), c2)
    else
      let '(l1, p1, k1) := ident_run (c_rest c1) (c_pos c1) (c_col c1) in
      let c2 := adv c1 l1 p1 k1 in
      (mk_tok KIdent s ls cs (here c2), c2)
  end.

(* Tokenizer.Tokenize: Read until the EOF keyword (the end of input or a NUL byte).  [None] = out of fuel; [tokenize_total] shows it never happens. *)
Fixpoint tokenize_fuel (fuel : nat) (c : cur) : option (list token) :=
  match fuel with
  | O => None
  | S f =>
    let '(t, c') := read c in
    if kind_eqb (t_kind t) KEof then Some []
    else match tokenize_fuel f c' with
         | Some ts => Some (t :: ts)
         | None => None
         end
  end.
Definition tokenize (b : bytes) : option (list token) := tokenize_fuel (S (length b)) (init b).

(* ---- helpers shared with the parser ---- *)
Definition slice (b : bytes) (s e : N) : bytes := firstn (N.to_nat (e - s)) (skipn (N.to_nat s) b).
Definition tok_lit (b : bytes) (t : token) : bytes := slice b (t_start t) (t_end t).
