(* C05 specifications: what the property demands, stated independently of the algorithms. *)
From Gv Require Import lib.Bytes lib.Gql C05.Lex C05.Parse C05.Limits C05.Print C15.Model.
From Coq Require Import ZArith.

(* ---- real selection depth and field count of a document (on the tree) ---- *)
Open Scope Z_scope.
Fixpoint sel_fields (s : selection) : Z :=
  match s with
  | SField _ _ _ _ sels => (1 + (fix go (l : list selection) : Z := match l with [] => 0 | x :: r => sel_fields x + go r end) sels)%Z
  | SInline _ _ sels => (fix go (l : list selection) : Z := match l with [] => 0 | x :: r => sel_fields x + go r end) sels
  | SSpread _ _ => 0%Z
  end.
Fixpoint sels_fields (l : list selection) : Z :=
  match l with [] => 0%Z | x :: r => (sel_fields x + sels_fields r)%Z end.

(* depth of the selection sets hanging below a selection (0 if it has none) *)
Fixpoint sel_depth (s : selection) : Z :=
  match s with
  | SField _ _ _ _ sels | SInline _ _ sels =>
    match sels with
    | [] => 0%Z
    | _ => (1 + (fix go (l : list selection) : Z := match l with [] => 0 | x :: r => Z.max (sel_depth x) (go r) end) sels)%Z
    end
  | SSpread _ _ => 0%Z
  end.
Fixpoint sels_maxdepth (l : list selection) : Z :=
  match l with [] => 0%Z | x :: r => Z.max (sel_depth x) (sels_maxdepth r) end.
(* depth of a selection set: 0 for none, 1 + deepest child otherwise *)
Definition selset_depth (l : list selection) : Z :=
  match l with [] => 0%Z | _ => (1 + sels_maxdepth l)%Z end.

Definition def_sels (d : definition) : list selection :=
  match d with DOp o => op_sels o | DFrag f => fr_sels f end.
Fixpoint doc_fields (d : document) : Z :=
  match d with [] => 0%Z | x :: r => (sels_fields (def_sels x) + doc_fields r)%Z end.
Fixpoint doc_depth (d : document) : Z :=
  match d with [] => 0%Z | x :: r => Z.max (selset_depth (def_sels x)) (doc_depth r) end.

(* ---- the real depth of an operation counts fragments where they are spread ----
   cumulative depth of the document: the sum of the depths of its definitions *)
Fixpoint depth_sum (d : document) : Z :=
  match d with [] => 0%Z | x :: r => (selset_depth (def_sels x) + depth_sum r)%Z end.

Fixpoint doc_frags (d : document) : list fragment :=
  match d with [] => [] | DFrag f :: r => f :: doc_frags r | DOp _ :: r => doc_frags r end.
(* the first fragment of that name, and the list without it *)
Fixpoint take_frag (n : name) (l : list fragment) : option (fragment * list fragment) :=
  match l with
  | [] => None
  | f :: r =>
    if bytes_eqb n (fr_name f) then Some (f, r)
    else match take_frag n r with Some (g, r') => Some (g, f :: r') | None => None end
  end.

(* deepest selection-set nesting below the selections [sels] once fragment spreads are replaced by the
   selections of the fragment they name.  [avail] are the fragments that may still be expanded on this
   path: a fragment is expanded at most once per path, so fragment cycles (invalid GraphQL) are cut where
   a name repeats, and [fuel = length avail] always suffices. *)
(* depth below a selection, given what a fragment spread expands to *)
Definition sub_with (expand : name -> Z) : selection -> Z :=
  fix sub (s : selection) : Z :=
    match s with
    | SField _ _ _ _ ss | SInline _ _ ss =>
      match ss with
      | [] => 0
      | _ => 1 + (fix go (l : list selection) : Z := match l with [] => 0 | x :: r => Z.max (sub x) (go r) end) ss
      end
    | SSpread fr _ => expand fr
    end.
Fixpoint max_sub (expand : name -> Z) (l : list selection) : Z :=
  match l with [] => 0 | x :: r => Z.max (sub_with expand x) (max_sub expand r) end.

Fixpoint below_inlined (fuel : nat) (avail : list fragment) (sels : list selection) {struct fuel} : Z :=
  max_sub (fun fr =>
             match fuel with
             | O => 0
             | S f =>
               match take_frag fr avail with
               | Some (fg, avail') => below_inlined f avail' (fr_sels fg)
               | None => 0
               end
             end) sels.

Definition depth_inlined (d : document) (o : operation) : Z :=
  match op_sels o with
  | [] => 0
  | _ => 1 + below_inlined (length (doc_frags d)) (doc_frags d) (op_sels o)
  end.
Fixpoint max_depth_inlined (d : document) (defs : list definition) : Z :=
  match defs with
  | [] => 0
  | DOp o :: r => Z.max (depth_inlined d o) (max_depth_inlined d r)
  | DFrag _ :: r => max_depth_inlined d r
  end.

(* "a document whose real selection depth or field count exceeds a limit" (a limit of 0 or less is off) *)
Definition exceeds (L F : Z) (d : document) : Prop :=
  (0 < L /\ L < doc_depth d)%Z \/ (0 < F /\ F < doc_fields d)%Z.
Definition exceeds_b (L F : Z) (d : document) : bool :=
  ((0 <? L) && (L <? doc_depth d))%Z || ((0 <? F) && (F <? doc_fields d))%Z.

(* the cumulative reading: the limit bounds the sum of the depths of all definitions, which bounds the
   depth of every operation with its fragments spread ([depth_inlined_le_sum]); the field limit is for the
   whole document *)
Definition exceeds_cum (L F : Z) (d : document) : Prop :=
  (0 < L /\ L < depth_sum d)%Z \/ (0 < F /\ F < doc_fields d)%Z.
Definition exceeds_cum_b (L F : Z) (d : document) : bool :=
  ((0 <? L) && (L <? depth_sum d))%Z || ((0 <? F) && (F <? doc_fields d))%Z.

(* checker evaluated on the implementation's verdict: [accepted] = ParseWithLimits returned no
   limit error for a document that parses to [d] *)
Definition limits_ok_b (L F : Z) (d : document) (accepted : bool) : bool :=
  if exceeds_cum_b L F d then negb accepted else true.

(* ---- token ranges (evaluated on the implementation's token stream) ---- *)
Close Scope Z_scope.
Open Scope N_scope.
Fixpoint ranges_ok_b (n prev : N) (l : list (N * N)) : bool :=
  match l with
  | [] => true
  | (s, e) :: r => (prev <=? s) && (s <=? e) && (e <=? n) && ranges_ok_b n e r
  end.

(* ---- round trip (evaluated on the implementation's outputs) ----
   d parses; p1 = print d; [acc2] = p1 parses (to d2); dump1/dump2 = structural dumps of d, d2;
   p2 = print d2 *)
Definition roundtrip_ok_b (acc2 : bool) (dump1 dump2 p1 p2 : bytes) : bool :=
  acc2 && bytes_eqb dump1 dump2 && bytes_eqb p1 p2.

(* round trip on the model, as a Prop *)
Definition roundtrips (d : document) : Prop :=
  exists ts, lex (print d) = Some ts /\ parse (strip ts) = Ok d [].

(* ---- when does a string survive being printed and lexed again? ----
   ast.PrintValue writes the raw content between quotes (and a line terminator before the closing
   delimiter of a block string that ends in a quote or backslash); the content is stable when
   lexing the printed string followed by " x" gives back one string token with literal [raw] and
   then the identifier x.  (Evaluated on the implementation's trees: since the repairs every string
   the parser stores must be stable.) *)
Definition sentinel : bytes := [32; 120].
Definition lex_lits (b : bytes) : option (list (kind * bytes)) :=
  match tokenize b with
  | Some ts => Some (map (fun t => (t_kind t, tok_lit b t)) ts)
  | None => None
  end.
Definition string_stable_b (raw : bytes) (block : bool) : bool :=
  match lex_lits (print_value (VStr raw block) ++ sentinel) with
  | Some [(k, lit); (KIdent, [120])] =>
    kind_eqb k (if block then KBlockString else KString) && bytes_eqb lit raw
  | _ => false
  end.
(* a block description is printed between  """ LF  and  LF """ *)
Definition description_stable_b (raw : bytes) (block : bool) : bool :=
  if block then
    match lex_lits (s_quote3 ++ nl ++ raw ++ nl ++ s_quote3 ++ sentinel) with
    | Some [(KBlockString, lit); (KIdent, [120])] => bytes_eqb lit raw
    | _ => false
    end
  else string_stable_b raw false.

Fixpoint value_strings_stable_b (v : value) : bool :=
  match v with
  | VStr raw blk => string_stable_b raw blk
  | VList items => forallb value_strings_stable_b items
  | VObj fields => forallb (fun kv => value_strings_stable_b (snd kv)) fields
  | _ => true
  end.
Definition args_stable_b (a : list argument) : bool := forallb (fun kv => value_strings_stable_b (snd kv)) a.
Definition dirs_stable_b (ds : list directive) : bool := forallb (fun d => args_stable_b (d_args d)) ds.
Fixpoint sel_stable_b (s : selection) : bool :=
  match s with
  | SField _ _ args dirs sels => args_stable_b args && dirs_stable_b dirs && forallb sel_stable_b sels
  | SInline _ dirs sels => dirs_stable_b dirs && forallb sel_stable_b sels
  | SSpread _ dirs => dirs_stable_b dirs
  end.
Definition vardef_stable_b (v : vardef) : bool :=
  match vd_default v with Some dv => value_strings_stable_b dv | None => true end && dirs_stable_b (vd_dirs v).
Definition def_stable_b (d : definition) : bool :=
  match d with
  | DOp o => forallb vardef_stable_b (op_vars o) && dirs_stable_b (op_dirs o) && forallb sel_stable_b (op_sels o)
  | DFrag f => dirs_stable_b (fr_dirs f) && forallb sel_stable_b (fr_sels f)
  end.
Definition doc_strings_stable_b (d : document) : bool := forallb def_stable_b d.

(* ---- block strings through the lexer and the printer (theorem c05_block_string_requotable) ----
   The lexer's trimming is C15's model of readBlockString (C15.Model.blex_step: block_start / block_end /
   go_block_lexable of the text between two delimiters); the driver compares it with every terminated
   block-string token of the implementation. *)
(* what the parser stores for the text between the delimiters: Literal.Start .. Literal.End *)
Definition stored (body : bytes) : bytes := firstn (block_end body - block_start body) (skipn (block_start body) body).
(* what ast.PrintValue writes between the delimiters *)
Definition printed (raw : bytes) : bytes := raw ++ (if ends_quote_or_backslash raw then nl else []).
