(* C05, lexical half of the round trip, lexer side (2): every token Lexer.Read returns that is followed
   by another token has a literal that re-lexes ([relexk]); hence [G relexk] of every lexed token list. *)
From Gv Require Import lib.Bytes lib.Gql C05.Lex C05.Parse C05.Print C05.Tokens C05.ProofsLex C05.ProofsLexPrintDefs
  C05.ProofsLexPrintLex C05.ProofsLexPrintBlock.
From Coq Require Import Lia ZifyN ZifyNat ZifyBool PeanoNat.
Open Scope N_scope.

(* unfold the head of Read on a cursor that stands on a non-white-space, non-NUL byte *)
Ltac rd_head_in H Hws H0 :=
  unfold read in H; cbn [mkc c_rest c_pos c_line c_col] in H;
  rewrite (skip_ws_nonws _ _ _ _ _ Hws) in H; unfold mkc in H; cbn [c_rest c_pos c_line c_col] in H;
  rewrite (read_rune_cons_full _ _ _ _ _ H0) in H; rewrite (notws_notlf _ Hws) in H; cbv beta iota zeta in H; cbn [c_rest c_pos c_line c_col] in H.
Ltac rd_head Hws H0 :=
  unfold read; cbn [mkc c_rest c_pos c_line c_col];
  rewrite (skip_ws_nonws _ _ _ _ _ Hws); unfold mkc; cbn [c_rest c_pos c_line c_col];
  rewrite (read_rune_cons_full _ _ _ _ _ H0); rewrite (notws_notlf _ Hws); cbv beta iota zeta; cbn [c_rest c_pos c_line c_col].

Lemma firstn_len_app : forall (x l : bytes), firstn (N.to_nat (len x)) (x ++ l) = x.
Proof.
  intros. unfold len. rewrite Nat2N.id. rewrite firstn_app, Nat.sub_diag, firstn_all. cbn. apply app_nil_r.
Qed.
Lemma skipn_len_app : forall (x l : bytes), skipn (N.to_nat (len x)) (x ++ l) = l.
Proof.
  intros. unfold len. rewrite Nat2N.id. rewrite skipn_app, Nat.sub_diag, skipn_all. reflexivity.
Qed.

Definition lit_of (c0 : cur) (t : token) : bytes :=
  firstn (N.to_nat (t_end t - t_start t)) (skipn (N.to_nat (t_start t - c_pos c0)) (c_rest c0)).

Lemma lit_eq : forall l w X p0 pos s e, l = w ++ X -> pos = p0 + len w -> pos <= s ->
  firstn (N.to_nat (e - s)) (skipn (N.to_nat (s - p0)) l) = firstn (N.to_nat (e - s)) (skipn (N.to_nat (s - pos)) X).
Proof.
  intros l w X p0 pos s e -> -> Hs. f_equal.
  replace (N.to_nat (s - p0)) with (length w + N.to_nat (s - (p0 + len w)))%nat by (unfold len in *; lia).
  rewrite skipn_app. rewrite skipn_all2 by lia. cbn [app]. f_equal. lia.
Qed.

(* ---- properties of the first byte ---- *)
Lemma digit_props : forall r, is_digit r = true ->
  is_ws r = false /\ (r =? 0) = false /\ single_kind r = None /\ (r =? r_hash) = false /\ (r =? r_quote) = false
  /\ (r =? r_dot) = false.
Proof.
  intros r H. unfold is_digit in H.
  assert (D : r = 48 \/ r = 49 \/ r = 50 \/ r = 51 \/ r = 52 \/ r = 53 \/ r = 54 \/ r = 55 \/ r = 56 \/ r = 57) by lia.
  repeat (destruct D as [D|D]; [subst r; repeat split; reflexivity|]). subst r; repeat split; reflexivity.
Qed.

Lemma dot_exp_nondigit : forall r2, (r2 =? r_dot) || ((r2 =? r_exp_lower) || (r2 =? r_exp_upper)) = true ->
  is_digit r2 = false /\ (r2 =? 0) = false.
Proof.
  intros r2 H. apply orb_prop in H. destruct H as [H|H]; [|apply orb_prop in H; destruct H as [H|H]];
    apply N.eqb_eq in H; subst r2; split; reflexivity.
Qed.

(* ---- re-lexing, per token class ---- *)
Lemma relex_ident : forall r x,
  is_ws r = false -> (r =? 0) = false -> single_kind r = None -> (r =? r_hash) = false -> (r =? r_quote) = false ->
  (r =? r_dot) = false -> is_digit r = false -> forallb is_ident_char x = true -> relex KIdent (r :: x).
Proof.
  intros r x Hws H0 Hk Hh Hq Hd Hdg Hx rest pos line col Hsd Hb.
  cbn [text_of app] in *. rewrite len_cons, len_app in Hb.
  eexists. exists line, (col + 1 + len x). split.
  - rd_head Hws H0. rewrite Hk, Hh, Hq, Hd, Hdg.
    apply sd_hdn in Hsd. destruct Hsd as (Hi & _).
    rewrite (ident_run_app x rest) by assumption. cbv beta iota zeta. unfold adv, mkc. cbn [c_line].
    apply f_equal2; [reflexivity|]. cbn [c_rest c_pos c_line c_col]. rewrite len_cons. f_equal; lia.
  - unfold mk_tok, here, adv. cbn [t_kind t_start t_end t_cs c_pos c_line c_col lit_off].
    rewrite !u32_id by lia. rewrite len_cons. repeat split; lia.
Qed.

Lemma relex_int : forall r x, is_digit r = true -> forallb is_digit x = true -> relex KInteger (r :: x).
Proof.
  intros r x Hdg Hx rest pos line col Hsd Hb.
  destruct (digit_props r Hdg) as (Hws & H0 & Hk & Hh & Hq & Hd).
  cbn [text_of app] in *. rewrite len_cons, len_app in Hb.
  eexists. exists line, (col + 1 + len x). split.
  - rd_head Hws H0. rewrite Hk, Hh, Hq, Hd, Hdg.
    pose proof (sd_hdn rest Hsd) as (_ & Hdi & _ & _).
    rewrite (digits_run_app x rest) by assumption. cbv beta iota zeta. unfold adv, peek. cbn [c_rest c_pos c_col c_line].
    assert (Hc : (match rest with [] => 0 | r0 :: _ => r0 end =? r_dot)
                 || ((match rest with [] => 0 | r0 :: _ => r0 end =? r_exp_lower)
                     || (match rest with [] => 0 | r0 :: _ => r0 end =? r_exp_upper)) = false).
    { destruct rest as [|c rest']; [reflexivity|]. cbn in Hsd. apply delim_props in Hsd.
      destruct Hsd as (_ & _ & H3 & H4 & H5 & _). unfold r_dot, r_exp_lower, r_exp_upper. rewrite H3, H4, H5. reflexivity. }
    unfold bytes, byte in *. rewrite Hc. unfold mkc. apply f_equal2; [reflexivity|]. cbn [c_rest c_pos c_line c_col]. rewrite len_cons. f_equal; lia.
  - unfold mk_tok, here. cbn [t_kind t_start t_end t_cs c_pos c_line c_col lit_off].
    rewrite !u32_id by lia. rewrite len_cons. repeat split; lia.
Qed.

Lemma relex_float : forall r x1 r2 y,
  is_digit r = true -> forallb is_digit x1 = true ->
  (r2 =? r_dot) || ((r2 =? r_exp_lower) || (r2 =? r_exp_upper)) = true ->
  (forall rest pos2 line2 col2, sd rest = true ->
     read_float ((r2 =? r_exp_lower) || (r2 =? r_exp_upper)) (mkc (y ++ rest) pos2 line2 col2) =
     mkc rest (pos2 + len y) line2 (col2 + len y)) ->
  relex KFloat (r :: x1 ++ r2 :: y).
Proof.
  intros r x1 r2 y Hdg Hx Hc Hfl rest pos line col Hsd Hb.
  destruct (digit_props r Hdg) as (Hws & H0 & Hk & Hh & Hq & Hd).
  destruct (dot_exp_nondigit r2 Hc) as [Hnd2 _].
  cbn [text_of app] in *. rewrite <- app_assoc in *. cbn [app] in *.
  rewrite len_cons, len_app, len_cons, len_app in Hb.
  eexists. exists line, (col + 1 + len x1 + 1 + len y). split.
  - rd_head Hws H0. rewrite Hk, Hh, Hq, Hd, Hdg.
    rewrite (digits_run_app x1 (r2 :: y ++ rest)) by (try assumption; exact Hnd2).
    cbv beta iota zeta. unfold adv at 1 2 3. unfold peek. cbn [c_rest c_pos c_col c_line tl].
    rewrite Hc. unfold adv. cbn [c_rest c_pos c_col c_line tl].
    pose proof (Hfl rest (pos + 1 + len x1 + 1) line (col + 1 + len x1 + 1) Hsd) as Hf. unfold mkc in Hf.
    rewrite Hf. unfold mkc. apply f_equal2; [reflexivity|]. cbn [c_rest c_pos c_line c_col]. rewrite len_cons, len_app, len_cons. f_equal; lia.
  - unfold mk_tok, here, adv. cbn [t_kind t_start t_end t_cs c_pos c_line c_col lit_off tl c_rest].
    rewrite ?Hc. cbn [t_kind t_start t_end t_cs].
    pose proof (Hfl rest (pos + 1 + len x1 + 1) line (col + 1 + len x1 + 1) Hsd) as Hf. unfold mkc in Hf.
    rewrite ?Hf. cbn [c_pos c_line c_col].
    rewrite !u32_id by lia. rewrite len_cons, len_app, len_cons. repeat split; lia.
Qed.

Lemma peek_two_relex : forall body rest pos line col, hdn (fun b => b =? 34) body -> sd rest = true ->
  peek_two {| c_rest := body ++ 34 :: rest; c_pos := pos; c_line := line; c_col := col |} r_quote r_quote = false.
Proof.
  intros body rest pos line col Hh Hsd. unfold peek_two. cbn [c_rest].
  destruct body as [|b1 body'].
  - cbn [app]. destruct rest as [|c rest']; [reflexivity|]. cbn in Hsd. apply delim_props in Hsd.
    destruct Hsd as (_ & _ & _ & _ & _ & _ & _ & H8 & _). unfold r_quote. rewrite H8. apply Bool.andb_false_r.
  - cbn in Hh. cbn [app]. destruct (body' ++ 34 :: rest); [reflexivity|]. unfold r_quote. rewrite Hh. reflexivity.
Qed.

Lemma relex_string : forall body, hdn (fun b => b =? 34) body ->
  (forall rest pos2 line2 col2, pos2 + len body + 1 + len rest < two32 ->
     exists line' col',
       sstring_loop (body ++ 34 :: rest) pos2 line2 col2 false =
       (mkc rest (pos2 + len body + 1) line' col', (pos2 + len body, line', col'))) ->
  relex KString body.
Proof.
  intros body Hh Hs rest pos line col Hsd Hb.
  cbn [text_of] in *. unfold s_quote in *. rewrite <- !app_assoc in *. cbn [app] in *.
  rewrite len_cons, len_app, len_cons in Hb.
  destruct (Hs rest (pos + 1) line (col + 1) ltac:(lia)) as (line' & col' & Hr).
  eexists. exists line', col'. split.
  - assert (Hws : is_ws 34 = false) by reflexivity. assert (H0 : (34 =? 0) = false) by reflexivity.
    rd_head Hws H0. change (single_kind 34) with (@None kind). change (34 =? r_hash) with false.
    change (34 =? r_quote) with true. cbv iota.
    rewrite (peek_two_relex body rest _ _ _ Hh Hsd). cbn [c_rest c_pos c_line c_col].
    unfold bytes, byte in *. rewrite Hr. unfold mkc. apply f_equal2; [reflexivity|]. cbn [c_rest c_pos c_line c_col].
    rewrite len_cons, len_app. unfold len. cbn [length]. f_equal; lia.
  - unfold mk_tok. cbn [t_kind t_start t_end t_cs c_pos c_line c_col lit_off].
    rewrite !u32_id by lia. repeat split; try lia; try (intro X; discriminate X).
Qed.

(* a successful non-EOF read starts from a cursor that has a non-NUL byte ahead *)
Lemma read_noneof : forall c t c', read c = (t, c') -> kind_eqb (t_kind t) KEof = false ->
  exists x xs, c_rest c = x :: xs /\ (x =? 0) = false.
Proof.
  intros c t c' H Hk. destruct c as [rest pos line col]. destruct rest as [|x xs].
  - unfold read in H. cbn in H. inj H. discriminate Hk.
  - exists x, xs. split; [reflexivity|]. destruct (x =? 0) eqn:E0; [|reflexivity]. exfalso.
    unfold read in H. cbn [c_rest c_pos c_line c_col] in H.
    rewrite (skip_ws_nonws _ _ _ _ _ (nul_not_ws _ E0)) in H. unfold mkc in H.
    rewrite (read_rune_nul _ _ _ _ _ E0) in H. change (single_kind 0) with (Some KEof) in H. cbv iota beta in H.
    inj H. discriminate Hk.
Qed.

Lemma single_kind_trivial : forall r k lit, single_kind r = Some k -> relexk k lit.
Proof.
  intros r k lit H. unfold single_kind, single_rune_table in H. cbn [assoc_byte] in H.
  repeat match type of H with (if ?b then _ else _) = _ => destruct b; [inj H; exact I|] end. discriminate H.
Qed.

(* ---- the main lemma ---- *)
Lemma read_good : forall c0 t c1 t2 c2,
  c_pos c0 + len (c_rest c0) < two32 ->
  read c0 = (t, c1) -> read c1 = (t2, c2) -> kind_eqb (t_kind t2) KEof = false ->
  relexk (t_kind t) (lit_of c0 t).
Proof.
  intros c0 t c1 t2 c2 HL H Hn Hne.
  destruct (read_noneof _ _ _ Hn Hne) as (nx & nxs & Hnx & Hnx0). clear Hn Hne t2 c2.
  rewrite read_skip in H.
  destruct (skip_ws_split (c_rest c0) (c_pos c0) (c_line c0) (c_col c0)) as (w & Hw & Hww & Hpos & Hhd).
  remember (skip_ws (c_rest c0) (c_pos c0) (c_line c0) (c_col c0)) as c eqn:Ec. clear Ec.
  destruct c as [rest pos line col]. cbn [c_rest c_pos] in Hw, Hpos, Hhd.
  assert (HL' : pos + len rest < two32) by (rewrite Hw, len_app in HL; lia).
  unfold lit_of.
  destruct rest as [|r rt].
  { unfold read in H. cbn in H. injection H as Ht Hc1; subst t c1. exact I. }
  cbn in Hhd. rewrite len_cons in HL'.
  destruct (r =? 0) eqn:E0.
  { unfold read in H. cbn [c_rest c_pos c_line c_col] in H. rewrite (skip_ws_nonws _ _ _ _ _ Hhd) in H. unfold mkc in H.
    rewrite (read_rune_nul _ _ _ _ _ E0) in H. change (single_kind 0) with (Some KEof) in H. cbv iota beta in H.
    injection H as Ht Hc1; subst t c1. exact I. }
  change {| c_rest := r :: rt; c_pos := pos; c_line := line; c_col := col |} with (mkc (r :: rt) pos line col) in H.
  rd_head_in H Hhd E0.
  destruct (single_kind r) as [k|] eqn:Hk.
  { injection H as Ht Hc1; subst t c1. unfold mk_tok, here. cbn [t_kind]. eapply single_kind_trivial. exact Hk. }
  destruct (r =? r_hash) eqn:Hh.
  { destruct (comment_loop rt (pos + 1) line (col + 1)
               (here {| c_rest := rt; c_pos := pos + 1; c_line := line; c_col := col + 1 |})) as [cc [[en le] ce]].
    injection H as Ht Hc1; subst t c1. exact I. }
  destruct (r =? r_quote) eqn:Hq.
  { destruct (peek_two {| c_rest := rt; c_pos := pos + 1; c_line := line; c_col := col + 1 |} r_quote r_quote) eqn:Hp.
    - (* block string *)
      unfold peek_two in Hp. cbn [c_rest] in Hp.
      destruct rt as [|q1 [|q2 rt']]; try discriminate Hp.
      cbn [adv c_pos c_rest c_line c_col skipn] in H. rewrite !len_cons in HL'.
      destruct (bstring_loop rt' (pos + 1 + 2) line (col + 1 + 2) false 0 0 false 0) as [[[c3 [[en le] ce]] lead] ws] eqn:Hb.
      assert (HLb : pos + 1 + 2 + len rt' < two32) by lia.
      assert (Hi0 : pos + 1 + 2 + 0 + 0 + 0 <= pos + 1 + 2) by lia.
      pose proof (bstring_loop_spec _ HLb (pos + 1 + 2) rt' (pos + 1 + 2) line (col + 1 + 2) false 0 0 false 0
                    c3 en le ce lead ws eq_refl Hi0 Hb) as (Hok & Hp1 & Hp2 & Hp3).
      injection H as Ht Hc1; subst t c1. cbn [t_kind t_start t_end]. cbn [c_rest] in Hnx.
      unfold cur_ok in Hok.
      rewrite (u32_id (pos + 1 + 2)) by lia. rewrite (u32_id lead) by lia. rewrite (u32_id ws) by lia.
      rewrite add32_id by lia. rewrite sub32_id by lia.
      rewrite (lit_eq _ w (r :: q1 :: q2 :: rt') (c_pos c0) pos _ _ Hw Hpos) by lia.
      replace (N.to_nat (pos + 1 + 2 + lead - pos)) with (3 + N.to_nat lead)%nat by lia.
      cbn [skipn plus].
      replace (en - ws - (pos + 1 + 2 + lead)) with (en - ws - ((pos + 1 + 2) + lead)) by lia.
      eapply (bstring_relex rt' (pos + 1 + 2)); [lia|exact Hb|exact Hnx|exact Hnx0].
    - (* string *)
      cbn [c_pos c_rest c_line c_col] in H.
      destruct (sstring_loop rt (pos + 1) line (col + 1) false) as [cs [[en le] ce]] eqn:Hs.
      injection H as Ht Hc1; subst t c1. cbn [c_rest] in Hnx.
      assert (HLs : pos + 1 + len rt < two32) by lia.
      destruct (sstring_split rt (pos + 1) line (col + 1) false _ _ _ _ _ _ HLs Hs Hnx Hnx0)
        as (body & term & Hrt & Hen & Hcp & Hhq & Hre).
      unfold mk_tok. cbn [t_kind t_start t_end].
      rewrite (u32_id (pos + 1)) by lia.
      rewrite (lit_eq _ w (r :: rt) (c_pos c0) pos _ _ Hw Hpos) by lia.
      replace (N.to_nat (pos + 1 - pos)) with 1%nat by lia. cbn [skipn].
      rewrite Hen. replace (pos + 1 + len body - (pos + 1)) with (len body) by lia.
      rewrite Hrt at 1. rewrite firstn_len_app.
      apply relex_string; [apply Hhq; reflexivity|exact Hre]. }
  destruct (r =? r_dot) eqn:Hd.
  { destruct (peek_two {| c_rest := rt; c_pos := pos + 1; c_line := line; c_col := col + 1 |} r_dot r_dot);
      injection H as Ht Hc1; subst t c1; exact I. }
  destruct (is_digit r) eqn:Hdg.
  { cbn [c_pos c_rest c_line c_col] in H.
    destruct (digits_run rt (pos + 1) (col + 1)) as [[l1 p1] k1] eqn:Hdr.
    apply digits_run_split in Hdr. destruct Hdr as (x1 & Hrt & Hx1 & Hp1 & Hk1 & Hn1). subst p1 k1.
    unfold adv at 1 2 3 in H. unfold peek in H. cbn [c_rest c_pos c_col c_line] in H.
    match type of H with (if ?b then _ else _) = _ => destruct b eqn:Hf end.
    - (* float *)
      destruct l1 as [|r2 l1']; [cbn in Hf; discriminate Hf|].
      unfold adv in H. cbn [tl c_rest c_pos c_col c_line] in H.
      destruct (read_float_split ((r2 =? r_exp_lower) || (r2 =? r_exp_upper)) l1' (pos + 1 + len x1 + 1) line (col + 1 + len x1 + 1))
        as (y & l' & Hl1 & Hrf & Hre).
      unfold mkc in Hrf. rewrite Hrf in H. injection H as Ht Hc1; subst t c1.
      unfold mk_tok, here. cbn [t_kind t_start t_end c_pos c_line c_col].
      assert (Hlen : len rt = len x1 + (1 + (len y + len l'))) by (rewrite Hrt, Hl1, len_app, len_cons, len_app; lia).
      rewrite (u32_id pos) by lia. rewrite u32_id by lia.
      rewrite (lit_eq _ w (r :: rt) (c_pos c0) pos _ _ Hw Hpos) by lia.
      replace (N.to_nat (pos - pos)) with 0%nat by lia. cbn [skipn].
      replace (pos + 1 + len x1 + 1 + len y - pos) with (len (r :: x1 ++ r2 :: y)) by (rewrite len_cons, len_app, len_cons; lia).
      replace (r :: rt) with ((r :: x1 ++ r2 :: y) ++ l') by (rewrite Hrt, Hl1; cbn [app]; rewrite <- app_assoc; reflexivity).
      rewrite firstn_len_app.
      apply relex_float; assumption.
    - (* integer *)
      injection H as Ht Hc1; subst t c1. unfold mk_tok, here. cbn [t_kind t_start t_end c_pos c_line c_col].
      assert (Hlen : len rt = len x1 + len l1) by (rewrite Hrt, len_app; lia).
      rewrite (u32_id pos) by lia. rewrite u32_id by lia.
      rewrite (lit_eq _ w (r :: rt) (c_pos c0) pos _ _ Hw Hpos) by lia.
      replace (N.to_nat (pos - pos)) with 0%nat by lia. cbn [skipn].
      replace (pos + 1 + len x1 - pos) with (len (r :: x1)) by (rewrite len_cons; lia).
      replace (r :: rt) with ((r :: x1) ++ l1) by (rewrite Hrt; reflexivity).
      rewrite firstn_len_app.
      apply relex_int; assumption. }
  (* identifier *)
  cbn [c_pos c_rest c_line c_col] in H.
  destruct (ident_run rt (pos + 1) (col + 1)) as [[l1 p1] k1] eqn:Hir.
  apply ident_run_split in Hir. destruct Hir as (x & Hrt & Hx & Hp1 & Hk1). subst p1 k1.
  injection H as Ht Hc1; subst t c1. unfold mk_tok, here, adv. cbn [t_kind t_start t_end c_pos c_line c_col].
  assert (Hlen : len rt = len x + len l1) by (rewrite Hrt, len_app; lia).
  rewrite (u32_id pos) by lia. rewrite u32_id by lia.
  rewrite (lit_eq _ w (r :: rt) (c_pos c0) pos _ _ Hw Hpos) by lia.
  replace (N.to_nat (pos - pos)) with 0%nat by lia. cbn [skipn].
  replace (pos + 1 + len x - pos) with (len (r :: x)) by (rewrite len_cons; lia).
  replace (r :: rt) with ((r :: x) ++ l1) by (rewrite Hrt; reflexivity).
  rewrite firstn_len_app.
  apply relex_ident; assumption.
Qed.

(* ---- Read returns a suffix of its input ---- *)
Lemma skip_ws_suffix : forall l pos line col, suffix (c_rest (skip_ws l pos line col)) l.
Proof. intros. destruct (skip_ws_split l pos line col) as (w & H & _). exists w. exact H. Qed.

Lemma read_suffix : forall c0 t c1, read c0 = (t, c1) -> suffix (c_rest c1) (c_rest c0).
Proof.
  intros c0 t c1 H. rewrite read_skip in H.
  eapply suffix_trans; [|apply (skip_ws_suffix (c_rest c0) (c_pos c0) (c_line c0) (c_col c0))].
  destruct (skip_ws_split (c_rest c0) (c_pos c0) (c_line c0) (c_col c0)) as (w & _ & _ & _ & Hhd).
  remember (skip_ws (c_rest c0) (c_pos c0) (c_line c0) (c_col c0)) as c eqn:Ec. clear Ec.
  destruct c as [rest pos line col]. cbn [c_rest c_pos] in *.
  destruct rest as [|r rt].
  { unfold read in H. cbn in H. inj H. apply suffix_refl. }
  cbn in Hhd.
  destruct (r =? 0) eqn:E0.
  { unfold read in H. cbn [c_rest c_pos c_line c_col] in H. rewrite (skip_ws_nonws _ _ _ _ _ Hhd) in H. unfold mkc in H.
    rewrite (read_rune_nul _ _ _ _ _ E0) in H. change (single_kind 0) with (Some KEof) in H. cbv iota beta in H.
    inj H. apply suffix_refl. }
  change {| c_rest := r :: rt; c_pos := pos; c_line := line; c_col := col |} with (mkc (r :: rt) pos line col) in H.
  rd_head_in H Hhd E0.
  destruct (single_kind r) as [k|].
  { inj H. apply suffix_cons, suffix_refl. }
  destruct (r =? r_hash).
  { destruct (comment_loop rt (pos + 1) line (col + 1)
               (here {| c_rest := rt; c_pos := pos + 1; c_line := line; c_col := col + 1 |})) as [cc e] eqn:Hc.
    apply comment_loop_suffix in Hc. inj H. apply suffix_cons. exact Hc. }
  destruct (r =? r_quote).
  { destruct (peek_two {| c_rest := rt; c_pos := pos + 1; c_line := line; c_col := col + 1 |} r_quote r_quote) eqn:Hp.
    - unfold peek_two in Hp. cbn [c_rest] in Hp.
      destruct rt as [|q1 [|q2 rt']]; try discriminate Hp.
      cbn [adv c_pos c_rest c_line c_col skipn] in H.
      destruct (bstring_loop rt' (pos + 1 + 2) line (col + 1 + 2) false 0 0 false 0) as [[[c3 [[en le] ce]] lead] ws] eqn:Hb.
      apply bstring_loop_suffix in Hb. inj H. do 3 apply suffix_cons. exact Hb.
    - cbn [c_pos c_rest c_line c_col] in H.
      destruct (sstring_loop rt (pos + 1) line (col + 1) false) as [cs e] eqn:Hs.
      apply sstring_loop_suffix in Hs. destruct e as [[en le] ce]. inj H. apply suffix_cons. exact Hs. }
  destruct (r =? r_dot).
  { destruct (peek_two {| c_rest := rt; c_pos := pos + 1; c_line := line; c_col := col + 1 |} r_dot r_dot) eqn:Hp.
    - unfold peek_two in Hp. cbn [c_rest] in Hp.
      destruct rt as [|q1 [|q2 rt']]; try discriminate Hp.
      inj H. cbn [adv c_rest skipn]. do 3 apply suffix_cons. apply suffix_refl.
    - inj H. apply suffix_cons, suffix_refl. }
  destruct (is_digit r).
  { cbn [c_pos c_rest c_line c_col] in H.
    destruct (digits_run rt (pos + 1) (col + 1)) as [[l1 p1] k1] eqn:Hdr.
    apply digits_run_split in Hdr. destruct Hdr as (x1 & Hrt & _).
    unfold adv at 1 2 3 in H. unfold peek in H. cbn [c_rest c_pos c_col c_line] in H.
    match type of H with (if ?b then _ else _) = _ => destruct b eqn:Hf end.
    - destruct l1 as [|r2 l1']; [cbn in Hf; discriminate Hf|].
      unfold adv in H. cbn [tl c_rest c_pos c_col c_line] in H.
      destruct (read_float_split ((r2 =? r_exp_lower) || (r2 =? r_exp_upper)) l1' (p1 + 1) line (k1 + 1))
        as (y & l' & Hl1 & Hrf & _).
      unfold mkc in Hrf. rewrite Hrf in H. inj H. cbn [c_rest].
      apply suffix_cons. exists (x1 ++ r2 :: y). rewrite <- app_assoc. reflexivity.
    - inj H. cbn [c_rest]. apply suffix_cons. exists x1. reflexivity. }
  cbn [c_pos c_rest c_line c_col] in H.
  destruct (ident_run rt (pos + 1) (col + 1)) as [[l1 p1] k1] eqn:Hir.
  apply ident_run_split in Hir. destruct Hir as (x & Hrt & _).
  inj H. cbn [adv c_rest]. apply suffix_cons. exists x. reflexivity.
Qed.

(* ---- the cursor stays inside the buffer ---- *)
Lemma skipn_plus : forall {A} (b a : nat) (l : list A), skipn (a + b) l = skipn a (skipn b l).
Proof.
  induction b as [|b IH]; intros a l.
  - rewrite Nat.add_0_r. reflexivity.
  - destruct l as [|x l]; [rewrite !skipn_nil; reflexivity|].
    rewrite Nat.add_succ_r. cbn [skipn]. apply IH.
Qed.
Lemma at_buf_read : forall b c t c', len b < two32 -> at_buf b c -> read c = (t, c') -> at_buf b c'.
Proof.
  intros b c t c' Hb [Hr Hp] H.
  assert (Hok : cur_ok (len b) c).
  { unfold cur_ok. rewrite Hr. unfold len. rewrite skipn_length. unfold len in Hp. lia. }
  pose proof (read_spec (len b) c t c' Hb Hok H) as (Hok' & _ & _ & _ & _).
  pose proof (read_suffix _ _ _ H) as [p Hs].
  unfold cur_ok in *. split; [|lia].
  assert (Hlp : c_pos c' = c_pos c + len p).
  { rewrite Hs, len_app in Hok. lia. }
  rewrite Hlp. replace (N.to_nat (c_pos c + len p)) with (length p + N.to_nat (c_pos c))%nat by (unfold len; lia).
  rewrite skipn_plus. rewrite <- Hr, Hs. rewrite skipn_app, skipn_all, Nat.sub_diag. reflexivity.
Qed.

Lemma tok_lit_lit_of : forall b c t c', len b < two32 -> at_buf b c -> read c = (t, c') -> tok_lit b t = lit_of c t.
Proof.
  intros b c t c' Hb [Hr Hp] H.
  assert (Hok : cur_ok (len b) c).
  { unfold cur_ok. rewrite Hr. unfold len. rewrite skipn_length. unfold len in Hp. lia. }
  pose proof (read_spec (len b) c t c' Hb Hok H) as (_ & Hs & _ & _ & _).
  unfold tok_lit, slice, lit_of. f_equal. rewrite Hr. rewrite <- skipn_plus. f_equal. lia.
Qed.

(* ---- every lexed token list is good ---- *)
Lemma tokenize_fuel_G : forall b, len b < two32 -> forall fuel c ts, at_buf b c ->
  tokenize_fuel fuel c = Some ts -> G relexk (map (ptoken_of b) ts).
Proof.
  intros b Hb. induction fuel as [|f IH]; intros c ts Hat H; [discriminate H|].
  cbn [tokenize_fuel] in H. destruct (read c) as [t c'] eqn:Hr.
  destruct (kind_eqb (t_kind t) KEof) eqn:Hk; [inj H; exact I|].
  destruct (tokenize_fuel f c') as [ts'|] eqn:Ht; [|discriminate H]. inj H.
  pose proof (at_buf_read b c t c' Hb Hat Hr) as Hat'.
  cbn [map G]. split; [|eapply IH; eassumption].
  intro Hne. destruct ts' as [|t2 ts2]; [contradiction Hne; reflexivity|].
  destruct f as [|f']; [discriminate Ht|]. cbn [tokenize_fuel] in Ht.
  destruct (read c') as [t2' c2] eqn:Hr2.
  destruct (kind_eqb (t_kind t2') KEof) eqn:Hk2; [discriminate Ht|].
  unfold ptoken_of. cbn [pk plit]. rewrite (tok_lit_lit_of b c t c' Hb Hat Hr).
  eapply read_good; [|exact Hr|exact Hr2|exact Hk2].
  destruct Hat as [Hrc Hpc]. rewrite Hrc. unfold len. rewrite skipn_length. unfold len in Hpc, Hb. lia.
Qed.

Lemma at_buf_init : forall b, at_buf b (init b).
Proof. intro b. unfold at_buf, init. cbn. split; [reflexivity|lia]. Qed.

Theorem lex_G : forall b ts, len b < two32 -> lex b = Some ts -> G relexk ts.
Proof.
  intros b ts Hb H. unfold lex in H. destruct (tokenize b) as [toks|] eqn:Ht; [|discriminate H]. inj H.
  unfold tokenize in Ht. eapply tokenize_fuel_G; [exact Hb|apply at_buf_init|exact Ht].
Qed.

(* Tokenizer.Read skips comment tokens; what is left is still good *)
Lemma strip_G : forall n ts, (length ts <= n)%nat -> G relexk ts -> G relexk (strip ts).
Proof.
  induction n as [|n IH]; intros ts Hl Hg.
  - destruct ts; [exact I|cbn in Hl; lia].
  - destruct ts as [|t r]; [exact I|]. cbn [strip]. cbn [G] in Hg. destruct Hg as [Hg1 Hg2].
    destruct (kind_eqb (pk t) KComment).
    + destruct r as [|t2 r2]; [exact I|]. cbn [G] in Hg2. destruct Hg2 as [Hg3 Hg4]. cbn [G]. split.
      * intro Hne. apply Hg3. intro E. subst r2. apply Hne. reflexivity.
      * apply IH; [cbn in Hl; lia|exact Hg4].
    + cbn [G]. split.
      * intro Hne. apply Hg1. intro E. subst r. apply Hne. reflexivity.
      * apply IH; [cbn in Hl; lia|exact Hg2].
Qed.
