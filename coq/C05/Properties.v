(* C05 property theorems: statements only; every proof is [exact lemma]. *)
From Gv Require Import lib.Bytes lib.Gql C05.Lex C05.Parse C05.Limits C05.Print C05.Spec C05.Tokens
  C05.ProofsLex C05.ProofsLimits C05.ProofsParse C05.ProofsMisc C05.ProofsTotal C05.ProofsRoundtrip C05.ProofsWf
  C05.ProofsFinal C05.ProofsInline C05.ProofsNul C05.ProofsRequote C05.PreFix C15.Model gen.Anchors_C05
  C05.ProofsLexPrintDefs C05.ProofsLexPrintFinal.
From Coq Require Import ZArith.

(* the model uses the rune / keyword / identifier-keyword tables of the Go source, and the source has the repairs
   (limits accounting; NUL ends the input; quotes inside a block string are content; line terminator after a
   block string that ends in a quote or backslash) *)
Theorem c05_anchors : anchors_statement.
Proof. exact anchors_ok. Qed.
Print Assumptions c05_anchors.

(* ---- lexer, for all byte lists shorter than 2^32 (token offsets are uint32) ---- *)
Theorem c05_read_progress : forall b c t c', (len b < two32)%N -> cur_ok (len b) c -> read c = (t, c') ->
  kind_eqb (t_kind t) KEof = false -> (length (c_rest c') < length (c_rest c))%nat.
Proof. exact read_progress_proof. Qed.
Print Assumptions c05_read_progress.

Theorem c05_tokenize_total : forall b, (len b < two32)%N -> tokenize b <> None.
Proof. exact tokenize_total_proof. Qed.
Print Assumptions c05_tokenize_total.

Theorem c05_tokens_in_range : forall b ts, (len b < two32)%N -> tokenize b = Some ts ->
  Forall (fun t => (t_start t <= t_end t)%N /\ (t_end t <= len b)%N) ts.
Proof. exact tokens_in_range_proof. Qed.
Print Assumptions c05_tokens_in_range.

Theorem c05_tokens_ordered : forall b ts, (len b < two32)%N -> tokenize b = Some ts -> ordered ts.
Proof. exact tokens_ordered_proof. Qed.
Print Assumptions c05_tokens_ordered.

(* since c05_fix_rt-nul-in-string: a NUL byte ends the input for every reader of the lexer (strings, block strings
   and comments included) -- whatever follows it has no influence on the token stream, hence none on the parse.
   (Before the repair it ended a string or comment but lexing went on behind it: c05_nul_in_string_refuted_before_fix.) *)
Theorem c05_nul_ends_input : forall a b, (len (a ++ 0 :: b) < two32)%N -> tokenize (a ++ 0 :: b) = tokenize a.
Proof. exact nul_ends_input_proof. Qed.
Print Assumptions c05_nul_ends_input.

Theorem c05_nul_ends_input_parse : forall a b, (len (a ++ 0 :: b) < two32)%N -> parse_bytes (a ++ 0 :: b) = parse_bytes a.
Proof. exact nul_ends_input_parse_proof. Qed.
Print Assumptions c05_nul_ends_input_parse.

(* ---- limits, for all token streams that parse ----
   [lim_run fx cm]: fx = the repair of the keyword reset, cm = the repair of the shorthand operation;
   the Go code is (true, true).  The limits are read cumulatively: MaxDepth bounds the SUM of the
   selection depths of all definitions (hence the depth of every operation with its fragments spread),
   MaxFields bounds the number of fields of the whole document. *)
Theorem c05_limits_sound : forall L F ts d r,
  parse (strip ts) = Ok d r -> exceeds_cum L F d -> fst (fst (lim_run true true L F ts linit)) <> LOk.
Proof. exact limits_sound_proof. Qed.
Print Assumptions c05_limits_sound.

Theorem c05_limits_cumulative_depth_sound : forall L F ts d r,
  parse (strip ts) = Ok d r -> (0 < L)%Z -> fst (fst (lim_run true true L F ts linit)) = LOk ->
  (depth_sum d <= L)%Z.
Proof. exact limits_cumulative_depth_le_proof. Qed.
Print Assumptions c05_limits_cumulative_depth_sound.

(* the inlined depth (fragments counted where they are spread; a fragment is expanded at most once per
   path, so cycles are cut) never exceeds the cumulative depth ... *)
Theorem c05_depth_inlined_le_sum : forall d o, In (DOp o) d -> (depth_inlined d o <= depth_sum d)%Z.
Proof. exact depth_inlined_le_sum_proof. Qed.
Print Assumptions c05_depth_inlined_le_sum.

(* ... hence an accepted document has every operation within the limit *)
Theorem c05_limits_inlined_depth_sound : forall L F ts d r o,
  parse (strip ts) = Ok d r -> (0 < L)%Z -> fst (fst (lim_run true true L F ts linit)) = LOk ->
  In (DOp o) d -> (depth_inlined d o <= L)%Z.
Proof. exact limits_inlined_depth_sound_proof. Qed.
Print Assumptions c05_limits_inlined_depth_sound.

(* the field limit is for the whole document (all operations and fragments together) *)
Theorem c05_limits_fields_sound : forall cm L F ts d r,
  parse (strip ts) = Ok d r -> (0 < F)%Z -> (F < doc_fields d)%Z -> fst (fst (lim_run true cm L F ts linit)) <> LOk.
Proof. exact limits_fields_sound_proof. Qed.
Print Assumptions c05_limits_fields_sound.

(* per-definition depth: holds for every version of the accounting *)
Theorem c05_limits_depth_sound : forall fx cm L F ts d r,
  parse (strip ts) = Ok d r -> (0 < L)%Z -> (L < doc_depth d)%Z -> fst (fst (lim_run fx cm L F ts linit)) <> LOk.
Proof. exact limits_depth_sound_proof. Qed.
Print Assumptions c05_limits_depth_sound.

(* historical accounting before the first repair: the field limit was bypassable *)
Theorem c05_limits_fields_refuted :
  exists b d, parse_bytes b = Ok d [] /\ exceeds 0 3 d /\ doc_fields d = 8%Z /\
              tokenize_limits false false 0 3 b = Some (LOk, 1%Z, 2%Z).
Proof. exact limits_fields_refuted_proof. Qed.
Print Assumptions c05_limits_fields_refuted.

(* historical accounting before the second repair: a shorthand operation after a fragment was compared with
   it instead of added -- cumulative depth 4, inlined depth 3, accepted with MaxDepth 2 *)
Theorem c05_limits_cumulative_depth_refuted :
  exists b d, parse_bytes b = Ok d [] /\ depth_sum d = 4%Z /\ max_depth_inlined d d = 3%Z /\
              tokenize_limits true false 2 0 b = Some (LOk, 2%Z, 3%Z).
Proof. exact limits_cumulative_depth_refuted_proof. Qed.
Print Assumptions c05_limits_cumulative_depth_refuted.

(* the same, on bytes: what ParseWithLimits does with a document that parses *)
Theorem c05_limits_sound_bytes : forall L F b d r v dp fl,
  parse_bytes b = Ok d r -> exceeds_cum L F d -> tokenize_limits true true L F b = Some (v, dp, fl) -> v <> LOk.
Proof. exact limits_sound_bytes_proof. Qed.
Print Assumptions c05_limits_sound_bytes.

(* ---- parser (executable documents): never out of fuel, for all token lists / byte lists ---- *)
Theorem c05_parse_total : forall ts, parse ts <> Oof.
Proof. exact parse_total_proof. Qed.
Print Assumptions c05_parse_total.

Theorem c05_parse_bytes_total : forall b, (len b < two32)%N -> parse_bytes b <> Oof.
Proof. exact parse_bytes_total_proof. Qed.
Print Assumptions c05_parse_bytes_total.

(* every parsed tree is well-formed (enum values are not true/false/null, a spread is not named
   "on", no bare "...", no "!!", definitions have a selection set) *)
Theorem c05_parse_wf : forall ts d r, parse ts = Ok d r -> wf_doc d = true.
Proof. exact parse_wf_proof. Qed.
Print Assumptions c05_parse_wf.

(* the parser inverts the token-level printer, whatever the spacing (compact or indented) *)
Theorem c05_print_parse : forall d ts, wf_doc d = true -> matches (etoks d) ts -> parse ts = Ok d [].
Proof. exact print_parse_tokens_proof. Qed.
Print Assumptions c05_print_parse.

(* round trip on bytes, both printers ([ind = None] compact, [Some i] indented).  _partial: the
   lexical half -- lexing the printed bytes gives the token-level print -- is the explicit,
   executable hypothesis [lex_print_ok_b]; it is evaluated on every checked input *)
Theorem c05_roundtrip_partial : forall ind b d r,
  parse_bytes b = Ok d r -> lex_print_ok_b ind d = true -> parse_bytes (print_doc ind d) = Ok d [].
Proof. exact roundtrip_partial_proof. Qed.
Print Assumptions c05_roundtrip_partial.

Theorem c05_print_fixpoint_partial : forall ind b d r d' r',
  parse_bytes b = Ok d r -> lex_print_ok_b ind d = true ->
  parse_bytes (print_doc ind d) = Ok d' r' -> print_doc ind d' = print_doc ind d.
Proof. exact print_fixpoint_partial_proof. Qed.
Print Assumptions c05_print_fixpoint_partial.

(* THE LEXICAL HALF, proved: for every document the parser returns, lexing its print (compact, or indented with a
   white-space indent) yields exactly the token-level print.  Every name / number / string / block-string literal of
   a parsed document is the literal of a lexer token that had a successor, and such a literal, written by the printer
   and followed by a delimiter, is read back by Lexer.Read as the same token (ProofsLexPrint*.v).  Side conditions:
   the input and the print are shorter than 2^32 bytes (uint32 token offsets), and the indent handed to PrintIndent
   consists of white-space bytes (SPACE TAB CR LF COMMA) -- it is written verbatim, see c05_indent_must_be_ws. *)
Theorem c05_lex_print : forall ind b d r,
  (len b < two32)%N -> (len (print_doc ind d) < two32)%N -> ind_ws ind = true ->
  parse_bytes b = Ok d r -> lex_print_ok_b ind d = true.
Proof. exact lex_print_ok_proof. Qed.
Print Assumptions c05_lex_print.

(* hence the round trip on bytes, without the executable hypothesis *)
Theorem c05_roundtrip : forall ind b d r,
  (len b < two32)%N -> (len (print_doc ind d) < two32)%N -> ind_ws ind = true ->
  parse_bytes b = Ok d r -> parse_bytes (print_doc ind d) = Ok d [].
Proof. exact roundtrip_proof. Qed.
Print Assumptions c05_roundtrip.

Theorem c05_print_fixpoint : forall ind b d r d' r',
  (len b < two32)%N -> (len (print_doc ind d) < two32)%N -> ind_ws ind = true ->
  parse_bytes b = Ok d r -> parse_bytes (print_doc ind d) = Ok d' r' -> print_doc ind d' = print_doc ind d.
Proof. exact print_fixpoint_proof. Qed.
Print Assumptions c05_print_fixpoint.

(* the side condition on the indent is needed: with the indent "x", {a} prints as { LF x a LF } and re-parses to
   the field xa *)
Theorem c05_indent_must_be_ws :
  exists d d', parse_bytes witness_indent = Ok d [] /\ parse_bytes (print_doc (Some [120%N]) d) = Ok d' [] /\ d' <> d.
Proof. exact indent_must_be_ws_proof. Qed.
Print Assumptions c05_indent_must_be_ws.

(* since c15_fix_block-quote-next-to-whitespace and c05_fix_rt-block-string-edge the lexer and ast.PrintValue are
   inverse to each other on block strings: for EVERY text [body] between two delimiters that the lexer delimits
   ([go_block_lexable]: no NUL byte, the token ends at the closing delimiter that follows), the content the parser
   stores ([stored], Literal.Start..End after the lexer's trimming), written by the printer between new delimiters
   ([printed]: the content, and a line terminator if it ends in a quote or backslash), is delimited by the lexer again
   and stored as the same content.  (Lexer side = C15's model of readBlockString; see Spec.v.) *)
Theorem c05_block_string_requotable : forall body, go_block_lexable body = true ->
  go_block_lexable (printed (stored body)) = true /\ stored (printed (stored body)) = stored body.
Proof. exact block_requote_proof. Qed.
Print Assumptions c05_block_string_requotable.

(* HISTORICAL (PreFix.v: the lexer and printer before c05_fix_rt-nul-in-string,
   c15_fix_block-quote-next-to-whitespace and c05_fix_rt-block-string-edge): the round trip was false.
   A block string whose content ends in a quote was printed flush against the closing delimiter ... *)
Theorem c05_roundtrip_refuted_before_fix :
  exists b d, V0.parse_bytes b = Ok d [] /\ V0.parse_bytes (V0.print d) = Err.
Proof. exact roundtrip_refuted_before_fix_proof. Qed.
Print Assumptions c05_roundtrip_refuted_before_fix.

(* ... a NUL byte ended a string but not the input, so a(x: QUOTE a NUL) parsed and its print did not ... *)
Theorem c05_nul_in_string_refuted_before_fix :
  exists d, V0.parse_bytes witness_nul_string = Ok d [] /\ V0.parse_bytes (V0.print d) = Err.
Proof. exact nul_in_string_refuted_before_fix_proof. Qed.
Print Assumptions c05_nul_in_string_refuted_before_fix.

(* ... and a quote next to the trailing white space of a block string made the lexer cut the content short,
   so that the document round-tripped to a different tree *)
Theorem c05_block_content_changes_before_fix :
  exists d d', V0.parse_bytes witness_block_quote_ws = Ok d [] /\ V0.parse_bytes (V0.print d) = Ok d' [] /\ d' <> d.
Proof. exact block_content_changes_before_fix_proof. Qed.
Print Assumptions c05_block_content_changes_before_fix.
