(* C05 property theorems: statements only; every proof is [exact lemma]. *)
From Gv Require Import lib.Bytes lib.Gql C05.Lex C05.Parse C05.Limits C05.Print C05.Spec
  C05.ProofsLex C05.ProofsLimits C05.ProofsParse C05.ProofsMisc gen.Anchors_C05.
From Coq Require Import ZArith.

(* the model uses the rune / keyword / identifier-keyword tables of the Go source, and the source has the repair *)
Theorem c05_anchors : anchors_statement.
Proof. exact anchors_ok. Qed.
Print Assumptions c05_anchors.

(* ---- lexer, for all byte lists shorter than 2^32 (token offsets are uint32) ---- *)
Theorem c05_read_progress : forall b c t c', (len b < two32)%N -> cur_ok (len b) c -> read c = (t, c') ->
  kind_eqb (t_kind t) KEof = false -> (length (c_rest c') < length (c_rest c))%nat.
Proof. exact read_progress_proof. Qed.
Print Assumptions c05_read_progress.

Theorem c05_tokenize_total : forall b, (len b < two32)%N -> tokenize b <> None.
Proof. exact tokenize_total_proof. Qed.
Print Assumptions c05_tokenize_total.

Theorem c05_tokens_in_range : forall b ts, (len b < two32)%N -> tokenize b = Some ts ->
  Forall (fun t => (t_start t <= t_end t)%N /\ (t_end t <= len b)%N) ts.
Proof. exact tokens_in_range_proof. Qed.
Print Assumptions c05_tokens_in_range.

Theorem c05_tokens_ordered : forall b ts, (len b < two32)%N -> tokenize b = Some ts -> ordered ts.
Proof. exact tokens_ordered_proof. Qed.
Print Assumptions c05_tokens_ordered.

(* ---- limits, for all token streams that parse (repaired accounting) ---- *)
Theorem c05_limits_sound : forall L F ts d r,
  parse (strip ts) = Ok d r -> exceeds L F d -> fst (fst (lim_run true L F ts linit)) <> LOk.
Proof. exact limits_sound_proof. Qed.
Print Assumptions c05_limits_sound.

(* depth half: holds for the repaired and for the historical accounting *)
Theorem c05_limits_depth_sound : forall fx L F ts d r,
  parse (strip ts) = Ok d r -> (0 < L)%Z -> (L < doc_depth d)%Z -> fst (fst (lim_run fx L F ts linit)) <> LOk.
Proof. exact limits_depth_sound_proof. Qed.
Print Assumptions c05_limits_depth_sound.

(* historical (pre-repair) accounting: the field limit was bypassable *)
Theorem c05_limits_fields_refuted :
  exists b d, parse_bytes b = Ok d [] /\ exceeds 0 3 d /\ doc_fields d = 8%Z /\
              tokenize_limits false 0 3 b = Some (LOk, 1%Z, 2%Z).
Proof. exact limits_fields_refuted_proof. Qed.
Print Assumptions c05_limits_fields_refuted.
