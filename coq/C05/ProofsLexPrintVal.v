From Gv Require Import lib.Bytes lib.Gql C05.Lex C05.Parse C05.Print C05.Tokens C05.ProofsLex C05.ProofsLexPrintDefs.
From Coq Require Import Lia ZifyN ZifyNat ZifyBool.
Open Scope N_scope.

Section PrintLX.
  Variables Pn Pi Pf Ps Pb : bytes -> Prop.
  (* [LX g l es]: the bytes l lex to the expected tokens es; g = true: only in a context that starts
     with a delimiter or is empty ([sd]), g = false: in every context *)
  Variable LX : bool -> bytes -> list etok -> Prop.
  Hypothesis LX_nil : LX false [] [].
  Hypothesis LX_weak : forall l es, LX false l es -> LX true l es.
  Hypothesis LX_app : forall ga gb a b ea eb, LX ga a ea -> LX gb b eb -> (ga = true -> sd b = true) ->
    LX (gb || (ga && isnil b)) (a ++ b) (ea ++ eb).
  Hypothesis LX_ws : forall w, forallb is_ws w = true -> LX false w [].
  Hypothesis LX_punct : forall c k, single_kind c = Some k -> (c =? 0) = false -> LX false [c] [ET k [c]].
  Hypothesis LX_spread : LX false s_spread [e_spread].
  Hypothesis LX_name : forall n, Pn n -> LX true n [e_name n].
  Hypothesis LX_var : forall n, Pn n -> LX true (36 :: n) [EVar n].
  Hypothesis LX_int : forall raw, Pi raw -> LX true raw [e_number KInteger raw].
  Hypothesis LX_float : forall raw, Pf raw -> LX true raw [e_number KFloat raw].
  Hypothesis LX_str : forall raw, Ps raw -> LX true (s_quote ++ raw ++ s_quote) [ET KString raw].
  Hypothesis LX_bstr : forall raw, Pb raw -> LX true (print_block_string raw) [ET KBlockString raw].
  Hypothesis Pn_kw : Pn s_query /\ Pn s_mutation /\ Pn s_subscription /\ Pn s_fragment /\ Pn s_on
                     /\ Pn s_true /\ Pn s_false /\ Pn s_null.

  Notation value_ok := (value_ok Pn Pi Pf Ps Pb).
  Notation type_ok := (type_ok Pn).
  Notation args_ok := (args_ok Pn Pi Pf Ps Pb).
  Notation dirs_ok := (dirs_ok Pn Pi Pf Ps Pb).
  Notation sel_ok := (sel_ok Pn Pi Pf Ps Pb).
  Notation sels_ok := (sels_ok Pn Pi Pf Ps Pb).
  Notation vardef_ok := (vardef_ok Pn Pi Pf Ps Pb).
  Notation def_ok := (def_ok Pn Pi Pf Ps Pb).
  Notation doc_ok := (doc_ok Pn Pi Pf Ps Pb).

  (* derived composition rules (all follow from LX_app / LX_weak) *)
  Lemma LX_any : forall g l es, LX g l es -> LX true l es.
  Proof. intros [|] l es H; [exact H|apply LX_weak; exact H]. Qed.
  (* a closed piece followed by anything *)
  Lemma LX_app_f : forall g a b ea eb, LX false a ea -> LX g b eb -> LX g (a ++ b) (ea ++ eb).
  Proof.
    intros g a b ea eb Ha Hb. pose proof (LX_app false g a b ea eb Ha Hb) as H.
    rewrite Bool.andb_false_l, Bool.orb_false_r in H. apply H. intro X; discriminate X.
  Qed.
  (* an open piece followed by something that starts with a delimiter (or is empty) *)
  Lemma LX_app_t : forall g a b ea eb, LX true a ea -> LX g b eb -> sd b = true -> LX true (a ++ b) (ea ++ eb).
  Proof.
    intros g a b ea eb Ha Hb Hs. eapply LX_any. apply (LX_app true g a b ea eb Ha Hb). intros _. exact Hs.
  Qed.
  (* an open piece followed by a non-empty closed piece that starts with a delimiter: closed *)
  Lemma LX_app_tf : forall a b ea eb, LX true a ea -> LX false b eb -> b <> [] -> sd b = true -> LX false (a ++ b) (ea ++ eb).
  Proof.
    intros a b ea eb Ha Hb Hn Hs. pose proof (LX_app true false a b ea eb Ha Hb (fun _ => Hs)) as H.
    destruct b; [contradiction|]. exact H.
  Qed.

  (* ---- generic helpers ---- *)
  Lemma LX_app_f' : forall g a b ea eb es, LX false a ea -> LX g b eb -> es = ea ++ eb -> LX g (a ++ b) es.
  Proof. intros; subst; apply LX_app_f; assumption. Qed.
  Lemma LX_app_t' : forall g a b ea eb es,
    LX true a ea -> LX g b eb -> sd b = true -> es = ea ++ eb -> LX true (a ++ b) es.
  Proof. intros; subst; eapply LX_app_t; eassumption. Qed.
  Lemma LX_app_tf' : forall a b ea eb es,
    LX true a ea -> LX false b eb -> b <> [] -> sd b = true -> es = ea ++ eb -> LX false (a ++ b) es.
  Proof. intros; subst; apply LX_app_tf; assumption. Qed.

  Lemma ws_delim : forall c, is_ws c = true -> delim c = true.
  Proof. intros c H. unfold delim. rewrite H. reflexivity. Qed.
  Lemma sd_ws : forall w, forallb is_ws w = true -> sd w = true.
  Proof.
    intros [|c w] H; [reflexivity|]. cbn [forallb] in H. apply Bool.andb_true_iff in H.
    cbn [sd]. apply ws_delim, H.
  Qed.
  Lemma sd_ws_app : forall w x, forallb is_ws w = true -> w <> [] -> sd (w ++ x) = true.
  Proof. intros [|c w] x H Hn; [contradiction|]. apply (sd_ws (c :: w)) in H. exact H. Qed.
  Lemma sd_app : forall a b, sd (a ++ b) = if isnil a then sd b else sd a.
  Proof. intros [|c a] b; reflexivity. Qed.
  Lemma sd_print_args : forall a x, sd (print_args a ++ x) = if isnil a then sd x else true.
  Proof. intros [|a r] x; reflexivity. Qed.

  (* closed, non-empty, starts with a delimiter: may follow any open piece and closes it *)
  Definition CL (l : bytes) (es : list etok) : Prop := LX false l es /\ l <> [] /\ sd l = true.
  Lemma CL_ws_app : forall w b eb, forallb is_ws w = true -> w <> [] -> LX false b eb -> CL (w ++ b) eb.
  Proof.
    intros w b eb Hw Hn Hb. split; [|split].
    - eapply LX_app_f'; [apply LX_ws; exact Hw|exact Hb|reflexivity].
    - destruct w; [contradiction|discriminate].
    - apply sd_ws_app; assumption.
  Qed.

  (* punctuators *)
  Lemma LX_p40 : LX false [40] [e_lparen].  Proof. exact (LX_punct 40 KLParen eq_refl eq_refl). Qed.
  Lemma LX_p41 : LX false [41] [e_rparen].  Proof. exact (LX_punct 41 KRParen eq_refl eq_refl). Qed.
  Lemma LX_p91 : LX false [91] [e_lbrack].  Proof. exact (LX_punct 91 KLBrack eq_refl eq_refl). Qed.
  Lemma LX_p93 : LX false [93] [e_rbrack].  Proof. exact (LX_punct 93 KRBrack eq_refl eq_refl). Qed.
  Lemma LX_p123 : LX false [123] [e_lbrace]. Proof. exact (LX_punct 123 KLBrace eq_refl eq_refl). Qed.
  Lemma LX_p125 : LX false [125] [e_rbrace]. Proof. exact (LX_punct 125 KRBrace eq_refl eq_refl). Qed.
  Lemma LX_p58 : LX false [58] [e_colon].   Proof. exact (LX_punct 58 KColon eq_refl eq_refl). Qed.
  Lemma LX_p33 : LX false [33] [e_bang].    Proof. exact (LX_punct 33 KBang eq_refl eq_refl). Qed.
  Lemma LX_p64 : LX false [64] [e_at].      Proof. exact (LX_punct 64 KAt eq_refl eq_refl). Qed.
  Lemma LX_p61 : LX false [61] [e_equals].  Proof. exact (LX_punct 61 KEquals eq_refl eq_refl). Qed.
  Lemma LX_colon_sp : LX false s_colon_sp [e_colon].
  Proof.
    change s_colon_sp with ([58] ++ [32]).
    eapply LX_app_f'; [exact LX_p58|apply (LX_ws [32]); reflexivity|reflexivity].
  Qed.

  (* a white-space separated list of open pieces *)
  Lemma LX_join : forall (A : Type) (f : A -> bytes) (g : A -> list etok) sep l,
    forallb is_ws sep = true -> sep <> [] ->
    Forall (fun x => LX true (f x) (g x)) l ->
    LX true (join sep (map f l)) (flat_map g l).
  Proof.
    intros A f g sep l Hw Hn H. induction H as [|x r Hx Hr IH].
    - apply LX_weak, LX_nil.
    - destruct r as [|y r].
      + cbn [map join flat_map]. rewrite app_nil_r. exact Hx.
      + change (join sep (map f (x :: y :: r))) with (f x ++ sep ++ join sep (map f (y :: r))).
        eapply LX_app_t'; [exact Hx| eapply LX_app_f'; [apply LX_ws, Hw|exact IH|reflexivity] | |reflexivity].
        apply sd_ws_app; assumption.
  Qed.

  (* nested induction on values *)
  Lemma value_ind2 (P : value -> Prop)
    (Hvar : forall n, P (VVar n)) (Hint : forall r, P (VInt r)) (Hfl : forall r, P (VFloat r))
    (Hstr : forall r b, P (VStr r b)) (Hbool : forall b, P (VBool b)) (Hnull : P VNull)
    (Henum : forall n, P (VEnum n))
    (Hlist : forall items, Forall P items -> P (VList items))
    (Hobj : forall fields, Forall (fun kv => P (snd kv)) fields -> P (VObj fields)) :
    forall v, P v.
  Proof.
    fix IH 1. intros [n|r|r|r b|b| |n|items|fields].
    - apply Hvar.
    - apply Hint.
    - apply Hfl.
    - apply Hstr.
    - apply Hbool.
    - apply Hnull.
    - apply Henum.
    - apply Hlist.
      exact ((fix go (l : list value) : Forall P l :=
                match l with [] => Forall_nil _ | x :: r => Forall_cons x (IH x) (go r) end) items).
    - apply Hobj.
      exact ((fix go (l : list (name * value)) : Forall (fun kv => P (snd kv)) l :=
                match l with [] => Forall_nil _ | kv :: r => Forall_cons kv (IH (snd kv)) (go r) end) fields).
  Qed.

  Lemma LX_pair : forall n v, Pn n -> LX true (print_value v) (etoks_value v) ->
    LX true (n ++ s_colon_sp ++ print_value v) (e_name n :: e_colon :: etoks_value v).
  Proof.
    intros n v Hn Hv.
    eapply LX_app_t'; [apply LX_name, Hn| eapply LX_app_f'; [exact LX_colon_sp|exact Hv|reflexivity]
                      |reflexivity|reflexivity].
  Qed.

  Lemma LX_value : forall v, value_ok v -> LX true (print_value v) (etoks_value v).
  Proof.
    destruct Pn_kw as (_&_&_&_&_&Ktrue&Kfalse&Knull).
    intro v. pattern v. revert v. apply value_ind2.
    - intros n Hok. apply LX_var. exact Hok.
    - intros r Hok. apply LX_int. exact Hok.
    - intros r Hok. apply LX_float. exact Hok.
    - intros r [|] Hok.
      + apply LX_bstr. exact Hok.
      + apply LX_str. exact Hok.
    - intros [|] _.
      + apply LX_name. exact Ktrue.
      + apply LX_name. exact Kfalse.
    - intros _. apply LX_name. exact Knull.
    - intros n Hok. apply LX_name. exact Hok.
    - intros items IH Hok. apply value_ok_list in Hok. cbn [print_value etoks_value].
      eapply LX_app_f'; [exact LX_p91| |reflexivity].
      eapply LX_app_t'; [apply LX_join; [reflexivity|discriminate|]|exact LX_p93|reflexivity|reflexivity].
      rewrite Forall_forall in *. intros x Hx. apply IH; [exact Hx|]. apply Hok, Hx.
    - intros fields IH Hok. apply value_ok_obj in Hok. cbn [print_value etoks_value].
      eapply LX_app_f'; [exact LX_p123| |reflexivity].
      eapply LX_app_t';
        [apply (LX_join _ (fun kv => fst kv ++ s_colon_sp ++ print_value (snd kv))
                          (fun kv => e_name (fst kv) :: e_colon :: etoks_value (snd kv)));
         [reflexivity|discriminate|]
        |exact LX_p125|reflexivity|reflexivity].
      rewrite Forall_forall in *. intros x Hx. destruct (Hok x Hx) as [Hn Hv].
      apply LX_pair; [exact Hn|]. apply IH; [exact Hx|exact Hv].
  Qed.

  Lemma LX_type : forall t, type_ok t -> LX true (print_type t) (etoks_type t).
  Proof.
    induction t as [n|t IH|t IH]; intro Hok; cbn [print_type etoks_type].
    - apply LX_name. exact Hok.
    - eapply LX_app_f'; [exact LX_p91| |reflexivity].
      eapply LX_app_t'; [apply IH, Hok|exact LX_p93|reflexivity|reflexivity].
    - eapply LX_app_t'; [apply IH, Hok|exact LX_p33|reflexivity|reflexivity].
  Qed.

  Lemma LX_args : forall args, args_ok args -> LX false (print_args args) (etoks_args args).
  Proof.
    intros args H. destruct args as [|a r]; [exact LX_nil|].
    remember (a :: r) as l eqn:El.
    assert (Hp : print_args l
                 = [40] ++ join s_comma_sp (map (fun a => fst a ++ s_colon_sp ++ print_value (snd a)) l) ++ [41])
      by (subst l; reflexivity).
    assert (He : etoks_args l = e_lparen :: flat_map etoks_arg l ++ [e_rparen]) by (subst l; reflexivity).
    rewrite Hp, He. clear Hp He El.
    eapply LX_app_f'; [exact LX_p40| |reflexivity].
    eapply LX_app_tf'; [apply LX_join; [reflexivity|discriminate|]|exact LX_p41|discriminate|reflexivity|reflexivity].
    eapply Forall_impl; [|exact H]. intros [n v] [Hn Hv].
    apply LX_pair; [exact Hn|apply LX_value, Hv].
  Qed.

  (* one directive followed by [rest] *)
  Lemma LX_dir_t : forall d g rest er es, dir_ok Pn Pi Pf Ps Pb d -> LX g rest er -> sd rest = true ->
    es = etoks_dir d ++ er ->
    LX true ([64] ++ d_name d ++ print_args (d_args d) ++ rest) es.
  Proof.
    intros d g rest er es [Hn Ha] Hr Hs ->.
    eapply LX_app_f'; [exact LX_p64| |reflexivity].
    eapply LX_app_t'; [apply LX_name, Hn| eapply LX_app_f'; [apply LX_args, Ha|exact Hr|reflexivity] | |reflexivity].
    rewrite sd_print_args. destruct (isnil _); [exact Hs|reflexivity].
  Qed.
  Lemma LX_dir_f : forall d rest er es, dir_ok Pn Pi Pf Ps Pb d -> CL rest er ->
    es = etoks_dir d ++ er ->
    LX false ([64] ++ d_name d ++ print_args (d_args d) ++ rest) es.
  Proof.
    intros d rest er es [Hn Ha] (Hr & Hne & Hs) ->.
    eapply LX_app_f'; [exact LX_p64| |reflexivity].
    eapply LX_app_tf'; [apply LX_name, Hn| eapply LX_app_f'; [apply LX_args, Ha|exact Hr|reflexivity] | | |reflexivity].
    - intro E. apply app_eq_nil in E. apply Hne, E.
    - rewrite sd_print_args. destruct (isnil _); [exact Hs|reflexivity].
  Qed.

  Lemma print_dirs_cons2 : forall d d' r after,
    print_dirs (d :: d' :: r) after
    = [64] ++ d_name d ++ print_args (d_args d) ++ sp ++ print_dirs (d' :: r) after.
  Proof. reflexivity. Qed.

  Lemma LX_dirs : forall ds after, dirs_ok ds -> forallb is_ws after = true ->
    LX true (print_dirs ds after) (etoks_dirs ds).
  Proof.
    intros ds after H Hw. induction H as [|d r Hd Hr IH].
    - apply LX_weak, LX_nil.
    - destruct r as [|d' r].
      + cbn [print_dirs].
        eapply LX_dir_t; [exact Hd|apply LX_ws, Hw|apply sd_ws, Hw|reflexivity].
      + rewrite print_dirs_cons2.
        eapply LX_dir_t; [exact Hd| eapply LX_app_f'; [apply (LX_ws sp); reflexivity|exact IH|reflexivity]
                         |reflexivity|reflexivity].
  Qed.

  Lemma LX_dirs_closed : forall ds after, dirs_ok ds -> forallb is_ws after = true -> after <> [] ->
    LX false (print_dirs ds after) (etoks_dirs ds).
  Proof.
    intros ds after H Hw Hne. induction H as [|d r Hd Hr IH].
    - exact LX_nil.
    - destruct r as [|d' r].
      + cbn [print_dirs].
        eapply LX_dir_f; [exact Hd| |reflexivity].
        split; [apply LX_ws, Hw|split; [exact Hne|apply sd_ws, Hw]].
      + rewrite print_dirs_cons2.
        eapply LX_dir_f; [exact Hd|apply CL_ws_app; [reflexivity|discriminate|exact IH]|reflexivity].
  Qed.

  (* one variable definition followed by a closed tail *)
  Lemma app1 : forall (c : byte) (n x : bytes), [c] ++ n ++ x = (c :: n) ++ x.
  Proof. reflexivity. Qed.
  Lemma LX_vardef_one : forall v aft tail et es, vardef_ok v -> forallb is_ws aft = true -> CL tail et ->
    es = etoks_vardef v ++ et ->
    LX false ([36] ++ vd_name v ++ s_colon_sp ++ print_type (vd_type v)
              ++ (match vd_default v with Some dv => sp ++ [61] ++ sp ++ print_value dv | None => [] end)
              ++ (if nonempty (vd_dirs v) then sp else [])
              ++ print_dirs (vd_dirs v) aft ++ tail) es.
  Proof.
    intros [n t dv ds] aft tail et es (Hn & Ht & Hd & Hds) Hw Htail ->.
    unfold etoks_vardef. cbn [vd_name vd_type vd_default vd_dirs] in *.
    assert (HD : CL ((if nonempty ds then sp else []) ++ print_dirs ds aft ++ tail) (etoks_dirs ds ++ et)).
    { destruct ds as [|d r].
      - exact Htail.
      - cbn [nonempty]. apply CL_ws_app; [reflexivity|discriminate|].
        destruct Htail as (H1 & H2 & H3).
        eapply LX_app_tf'; [apply LX_dirs; [exact Hds|exact Hw]|exact H1|exact H2|exact H3|reflexivity]. }
    assert (HV : CL ((match dv with Some dv => sp ++ [61] ++ sp ++ print_value dv | None => [] end)
                     ++ (if nonempty ds then sp else []) ++ print_dirs ds aft ++ tail)
                    ((match dv with Some dv => e_equals :: etoks_value dv | None => [] end)
                     ++ etoks_dirs ds ++ et)).
    { destruct dv as [dv|].
      - rewrite <- !app_assoc. apply CL_ws_app; [reflexivity|discriminate|].
        eapply LX_app_f'; [exact LX_p61| |reflexivity].
        eapply LX_app_f'; [apply (LX_ws sp); reflexivity| |reflexivity].
        destruct HD as (H1 & H2 & H3).
        eapply LX_app_tf'; [apply LX_value, Hd|exact H1|exact H2|exact H3|reflexivity].
      - exact HD. }
    destruct HV as (H1 & H2 & H3).
    rewrite app1.
    eapply LX_app_tf';
      [apply LX_var, Hn
      |eapply LX_app_f'; [exact LX_colon_sp|eapply LX_app_tf'; [apply LX_type, Ht|exact H1|exact H2|exact H3|reflexivity]
                         |reflexivity]
      |intro E; apply app_eq_nil in E; destruct E as [E _]; discriminate E
      |reflexivity
      |].
    cbn [app]. rewrite <- !app_assoc. reflexivity.
  Qed.

  Lemma pvf_false : forall v r, print_vardefs_from false (v :: r) =
    [36] ++ vd_name v ++ s_colon_sp ++ print_type (vd_type v)
    ++ (match vd_default v with Some dv => sp ++ [61] ++ sp ++ print_value dv | None => [] end)
    ++ (if nonempty (vd_dirs v) then sp else [])
    ++ print_dirs (vd_dirs v) (if negb (nonempty r) then sp else [])
    ++ (if negb (nonempty r) then [41] else s_comma_sp) ++ print_vardefs_from false r.
  Proof. reflexivity. Qed.
  Lemma pvf_true : forall v r, print_vardefs_from true (v :: r) = [40] ++ print_vardefs_from false (v :: r).
  Proof. reflexivity. Qed.

  Lemma LX_vardefs_false : forall vs, Forall vardef_ok vs -> vs <> [] ->
    LX false (print_vardefs_from false vs) (flat_map etoks_vardef vs ++ [e_rparen]).
  Proof.
    intros vs H. induction H as [|v r Hv Hr IH]; intros Hne; [contradiction|].
    rewrite pvf_false. destruct r as [|v' r'].
    - cbn [nonempty negb print_vardefs_from].
      eapply (LX_vardef_one v sp ([41] ++ []) ([e_rparen] ++ [])); [exact Hv|reflexivity| |].
      + split; [eapply LX_app_f'; [exact LX_p41|exact LX_nil|reflexivity]|split; [discriminate|reflexivity]].
      + cbn [flat_map app]. rewrite app_nil_r. reflexivity.
    - cbn [nonempty negb].
      eapply (LX_vardef_one v []); [exact Hv|reflexivity| |].
      + apply CL_ws_app; [reflexivity|discriminate|]. apply IH. discriminate.
      + cbn [flat_map]. rewrite <- !app_assoc. reflexivity.
  Qed.

  Lemma LX_vardefs : forall vs, Forall vardef_ok vs ->
    LX false (print_vardefs_from true vs) (etoks_vardefs vs).
  Proof.
    intros vs H. destruct vs as [|v r]; [exact LX_nil|].
    rewrite pvf_true. unfold etoks_vardefs.
    eapply LX_app_f'; [exact LX_p40|apply LX_vardefs_false; [exact H|discriminate]|reflexivity].
  Qed.
End PrintLX.
