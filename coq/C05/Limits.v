(* C05 stage 2: model of Tokenizer.TokenizeWithLimits' depth / field accounting.
   [fixed = true] is the accounting after the repair (query / mutation / subscription / fragment
   start a new definition only outside of any selection set); [fixed = false] is the historical
   accounting, kept only for the refutation theorem.  Go's ints are modelled as unbounded Z. *)
From Gv Require Import lib.Bytes C05.Lex C05.Parse.
From Coq Require Import ZArith.
Open Scope Z_scope.

Record lstate := { l_global : Z; l_local : Z; l_peak : Z; l_fields : Z; l_spread : bool }.
Definition linit : lstate := {| l_global := 0; l_local := 0; l_peak := 0; l_fields := 0; l_spread := false |}.

Inductive lverdict := LOk | LDepth | LFields.

(* the identifiers that reset the per-definition tracking, in the order of the case list *)
Definition limit_def_keywords : list identkw := [IKFragment; IKQuery; IKMutation; IKSubscription].
Definition identkw_eqb (a b : identkw) : bool := bytes_eqb (identkw_name a) (identkw_name b).
Definition is_def_kw (k : identkw) : bool := existsb (identkw_eqb k) limit_def_keywords.

(* (verdict, TotalDepth, TotalFields) *)
Fixpoint lim_run (fixed : bool) (maxD maxF : Z) (ts : list ptoken) (s : lstate) : lverdict * Z * Z :=
  match ts with
  | [] => (LOk, l_global s + l_peak s, l_fields s)
  | t :: r =>
    match pk t with
    | KLBrace =>
      let g := l_global s + 1 in
      if (0 <? maxD) && (maxD <? g) then (LDepth, g + l_peak s, l_fields s)
      else
        let l := l_local s + 1 in
        lim_run fixed maxD maxF r
          {| l_global := g; l_local := l; l_peak := (if l_peak s <? l then l else l_peak s);
             l_fields := l_fields s; l_spread := false |}
    | KRBrace =>
      lim_run fixed maxD maxF r
        {| l_global := l_global s - 1; l_local := l_local s - 1; l_peak := l_peak s;
           l_fields := l_fields s; l_spread := false |}
    | KSpread =>
      lim_run fixed maxD maxF r
        {| l_global := l_global s; l_local := l_local s; l_peak := l_peak s;
           l_fields := l_fields s; l_spread := true |}
    | KIdent =>
      if is_def_kw (keyword_of (plit t)) && (negb fixed || (l_local s <=? 0)) then
        lim_run fixed maxD maxF r
          {| l_global := l_global s + l_peak s; l_local := 0; l_peak := 0;
             l_fields := l_fields s; l_spread := false |}
      else
        let n := if (0 <? l_local s) && negb (l_spread s) then l_fields s + 1 else l_fields s in
        if (0 <? maxF) && (maxF <? n) then (LFields, l_global s + l_peak s, n)
        else
          lim_run fixed maxD maxF r
            {| l_global := l_global s; l_local := l_local s; l_peak := l_peak s;
               l_fields := n; l_spread := false |}
    | _ => lim_run fixed maxD maxF r s
    end
  end.

Definition tokenize_limits (fixed : bool) (maxD maxF : Z) (b : bytes) : option (lverdict * Z * Z) :=
  match lex b with
  | Some ts => Some (lim_run fixed maxD maxF ts linit)
  | None => None
  end.
