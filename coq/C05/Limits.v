(* C05 stage 2: model of Tokenizer.TokenizeWithLimits' depth / field accounting.
   Two repairs were made to the Go code; the model carries a flag for each so that the historical
   accountings remain available for the refutation theorems:
     [fx = true]  query / mutation / subscription / fragment start a new definition only outside of
                  any selection set (before: everywhere, which switched field counting off);
     [cm = true]  a brace at the start of the document or right after the closing brace of the previous
                  definition, outside parentheses, opens a shorthand operation and starts a new
                  definition too (before: its depth was max'ed with the previous definition's peak
                  instead of added to the cumulative depth).
   The current Go code is [fx = true, cm = true].  Go's ints are modelled as unbounded Z. *)
From Gv Require Import lib.Bytes C05.Lex C05.Parse.
From Coq Require Import ZArith.
Open Scope Z_scope.

Record lstate := {
  l_global : Z; l_local : Z; l_peak : Z; l_fields : Z; l_spread : bool;
  l_paren : Z;        (* parenDepth *)
  l_open : bool }.    (* prev == UNDEFINED || prev == RBRACE : no token yet, or the last non-comment token closed a brace *)
Definition linit : lstate :=
  {| l_global := 0; l_local := 0; l_peak := 0; l_fields := 0; l_spread := false; l_paren := 0; l_open := true |}.

Inductive lverdict := LOk | LDepth | LFields.

(* the identifiers that reset the per-definition tracking, in the order of the case list *)
Definition limit_def_keywords : list identkw := [IKFragment; IKQuery; IKMutation; IKSubscription].
Definition identkw_eqb (a b : identkw) : bool := bytes_eqb (identkw_name a) (identkw_name b).
Definition is_def_kw (k : identkw) : bool := existsb (identkw_eqb k) limit_def_keywords.

(* the shorthand-operation test at an opening brace *)
Definition starts_shorthand (cm : bool) (s : lstate) : bool :=
  cm && (l_local s <=? 0) && (l_paren s <=? 0) && l_open s.

(* (verdict, TotalDepth, TotalFields) *)
Fixpoint lim_run (fx cm : bool) (maxD maxF : Z) (ts : list ptoken) (s : lstate) : lverdict * Z * Z :=
  match ts with
  | [] => (LOk, l_global s + l_peak s, l_fields s)
  | t :: r =>
    match pk t with
    | KComment => lim_run fx cm maxD maxF r s
    | KLBrace =>
      let flush := starts_shorthand cm s in
      let g0 := if flush then l_global s + l_peak s else l_global s in
      let l0 := if flush then 0 else l_local s in
      let p0 := if flush then 0 else l_peak s in
      let g := g0 + 1 in
      if (0 <? maxD) && (maxD <? g) then (LDepth, g + p0, l_fields s)
      else
        let l := l0 + 1 in
        lim_run fx cm maxD maxF r
          {| l_global := g; l_local := l; l_peak := (if p0 <? l then l else p0);
             l_fields := l_fields s; l_spread := false; l_paren := l_paren s; l_open := false |}
    | KRBrace =>
      lim_run fx cm maxD maxF r
        {| l_global := l_global s - 1; l_local := l_local s - 1; l_peak := l_peak s;
           l_fields := l_fields s; l_spread := false; l_paren := l_paren s; l_open := true |}
    | KLParen =>
      lim_run fx cm maxD maxF r
        {| l_global := l_global s; l_local := l_local s; l_peak := l_peak s;
           l_fields := l_fields s; l_spread := l_spread s; l_paren := l_paren s + 1; l_open := false |}
    | KRParen =>
      lim_run fx cm maxD maxF r
        {| l_global := l_global s; l_local := l_local s; l_peak := l_peak s;
           l_fields := l_fields s; l_spread := l_spread s; l_paren := l_paren s - 1; l_open := false |}
    | KSpread =>
      lim_run fx cm maxD maxF r
        {| l_global := l_global s; l_local := l_local s; l_peak := l_peak s;
           l_fields := l_fields s; l_spread := true; l_paren := l_paren s; l_open := false |}
    | KIdent =>
      if is_def_kw (keyword_of (plit t)) && (negb fx || (l_local s <=? 0)) then
        lim_run fx cm maxD maxF r
          {| l_global := l_global s + l_peak s; l_local := 0; l_peak := 0;
             l_fields := l_fields s; l_spread := false; l_paren := l_paren s; l_open := false |}
      else
        let n := if (0 <? l_local s) && negb (l_spread s) then l_fields s + 1 else l_fields s in
        if (0 <? maxF) && (maxF <? n) then (LFields, l_global s + l_peak s, n)
        else
          lim_run fx cm maxD maxF r
            {| l_global := l_global s; l_local := l_local s; l_peak := l_peak s;
               l_fields := n; l_spread := false; l_paren := l_paren s; l_open := false |}
    | _ =>
      lim_run fx cm maxD maxF r
        {| l_global := l_global s; l_local := l_local s; l_peak := l_peak s;
           l_fields := l_fields s; l_spread := l_spread s; l_paren := l_paren s; l_open := false |}
    end
  end.

Definition tokenize_limits (fx cm : bool) (maxD maxF : Z) (b : bytes) : option (lverdict * Z * Z) :=
  match lex b with
  | Some ts => Some (lim_run fx cm maxD maxF ts linit)
  | None => None
  end.
