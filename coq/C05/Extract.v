From Gv Require Import lib.Bytes lib.Gql C05.Lex C05.Parse C05.Limits C05.Print C05.Spec C05.Tokens C15.Model.
From Coq Require Import ZArith.
Require Import ExtrOcamlBasic.
Extraction Language OCaml.
Extraction "model.ml" tokenize kind_code tok_lit lex parse_bytes tokenize_limits print_doc
  doc_depth doc_fields depth_sum max_depth_inlined limits_ok_b ranges_ok_b roundtrip_ok_b string_stable_b description_stable_b
  doc_strings_stable_b lex_print_ok_b wf_doc stored printed go_block_lexable Z.add Nat.add.
