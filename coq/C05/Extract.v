From Gv Require Import lib.Bytes lib.Gql C05.Lex.
From Coq Require Import ZArith.
Require Import ExtrOcamlBasic.
Extraction Language OCaml.
Extraction "model.ml" tokenize kind_code tok_lit Z.add Nat.add.
