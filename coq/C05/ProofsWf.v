(* C05 stage 3: every tree the parser returns is well-formed (the conditions under which the
   token-level printer is inverted by the parser). *)
From Gv Require Import lib.Bytes lib.Gql C05.Lex C05.Parse C05.Limits C05.Print C05.Spec C05.Tokens
  C05.ProofsLimits C05.ProofsParse.
From Coq Require Import Lia.

Lemma forallb_rev : forall {A} (f : A -> bool) l, forallb f (rev l) = forallb f l.
Proof.
  intros A f l. induction l as [|x r IH]; [reflexivity|].
  simpl. rewrite forallb_app, IH. simpl. rewrite Bool.andb_true_r. apply Bool.andb_comm.
Qed.

Lemma value_wf : forall fuel,
  (forall ts v r, parse_value fuel ts = Ok v r -> wf_value v = true) /\
  (forall ts acc v r, parse_value_list fuel ts acc = Ok v r -> forallb wf_value acc = true -> wf_value v = true) /\
  (forall ts acc v r, parse_object_fields fuel ts acc = Ok v r -> forallb (fun kv => wf_value (snd kv)) acc = true -> wf_value v = true).
Proof.
  induction fuel as [|f IH]; [repeat split; intros; discriminate|].
  destruct IH as (IHv & IHl & IHo). repeat split.
  - intros ts v r H. cbn [parse_value] in H.
    destruct ts as [|t r0]; [discriminate H|].
    destruct (pk t) eqn:Ek; try discriminate H.
    + destruct (keyword_of (plit t)) eqn:Ekw; inversion H; subst; try reflexivity;
        simpl; unfold kw_is; rewrite Ekw; reflexivity.
    + destruct r0 as [|n r2]; [discriminate H|]. dmatch H; [dmatch H; inversion H; reflexivity|].
      dmatch H. dmatch H. inversion H; reflexivity.
    + destruct r0 as [|v0 r2]; [discriminate H|]. dmatch H. inversion H; reflexivity.
    + inversion H; reflexivity.
    + inversion H; reflexivity.
    + inversion H; reflexivity.
    + inversion H; reflexivity.
    + eapply IHl; [exact H|reflexivity].
    + eapply IHo; [exact H|reflexivity].
  - intros ts acc v r H Hacc. cbn [parse_value_list] in H.
    destruct ts as [|t r0]; [discriminate H|]. dmatch H.
    + inversion H; subst. simpl. rewrite forallb_rev. exact Hacc.
    + dmatch H. eapply IHl; [exact H|]. simpl. rewrite (IHv _ _ _ E0). exact Hacc.
  - intros ts acc v r H Hacc. cbn [parse_object_fields] in H.
    destruct ts as [|t r0]; [discriminate H|]. dmatch H.
    + inversion H; subst. simpl. rewrite forallb_rev. exact Hacc.
    + dmatch H. destruct r0 as [|c0 r2]; [discriminate H|]. dmatch H. dmatch H.
      eapply IHo; [exact H|]. simpl. rewrite (IHv _ _ _ E2). exact Hacc.
Qed.

Lemma value_wf1 : forall fuel ts v r, parse_value fuel ts = Ok v r -> wf_value v = true.
Proof. intro fuel. apply (value_wf fuel). Qed.

Definition base_type (t : ty) : Prop := match t with TNonNull _ => False | _ => True end.

Lemma type_wf : forall fuel ts t r, parse_type fuel ts = Ok t r -> wf_type t = true.
Proof.
  induction fuel as [|f IH]; intros ts t r H; [discriminate H|].
  cbn [parse_type] in H. destruct ts as [|t0 r0]; [discriminate H|].
  assert (Bang : forall (b0 : ty) r1 t' r', base_type b0 -> wf_type b0 = true ->
    match r1 with
    | b :: r2 => if is_kind KBang b then match r2 with
                                         | b2 :: _ => if is_kind KBang b2 then Err else Ok (TNonNull b0) r2
                                         | [] => Ok (TNonNull b0) r2 end
                 else Ok b0 r1
    | [] => Ok b0 r1
    end = Ok t' r' -> wf_type t' = true).
  { intros b0 r1 t' r' Hb Hw Hx. destruct r1 as [|b r2]; [inversion Hx; subst; exact Hw|].
    destruct (is_kind KBang b); [|inversion Hx; subst; exact Hw].
    assert (Hnn : wf_type (TNonNull b0) = true) by (destruct b0; [exact Hw|exact Hw|contradiction]).
    destruct r2 as [|b2 r3]; [inversion Hx; subst; exact Hnn|].
    destruct (is_kind KBang b2); [discriminate Hx|inversion Hx; subst; exact Hnn]. }
  dmatch H.
  - eapply Bang; [| |exact H]; [exact I|reflexivity].
  - dmatch H. dmatch H. destruct rest as [|c r2]; [discriminate H|]. dmatch H.
    eapply Bang; [| |exact H]; [exact I|]. simpl. eapply IH. exact E1.
Qed.

Lemma args_wf : forall fuel ts acc a r, parse_args fuel ts acc = Ok a r ->
  forallb (fun kv => wf_value (snd kv)) acc = true -> wf_args a = true.
Proof.
  induction fuel as [|f IH]; intros ts acc a r H Hacc; [discriminate H|].
  cbn [parse_args] in H. destruct ts as [|t r0]; [discriminate H|]. dmatch H.
  - destruct r0 as [|c r2]; [discriminate H|]. dmatch H. dmatch H.
    eapply IH; [exact H|]. simpl. rewrite (value_wf1 _ _ _ _ E1). exact Hacc.
  - dmatch H. inversion H; subst. unfold wf_args. rewrite forallb_rev. exact Hacc.
Qed.

Lemma opt_args_wf : forall fuel ts a r, parse_opt_args fuel ts = Ok a r -> wf_args a = true.
Proof.
  intros fuel ts a r H. unfold parse_opt_args in H.
  destruct ts as [|t r0]; [inversion H; reflexivity|].
  destruct (is_kind KLParen t); [eapply args_wf; [exact H|reflexivity]|inversion H; reflexivity].
Qed.

Lemma dirs_wf : forall fuel ts acc ds r, parse_dirs fuel ts acc = Ok ds r ->
  wf_dirs acc = true -> wf_dirs ds = true /\ (acc <> [] -> ds <> []).
Proof.
  induction fuel as [|f IH]; intros ts acc ds r H Hacc; [discriminate H|].
  cbn [parse_dirs] in H.
  assert (Fin : Ok (rev acc) ts = Ok ds r -> wf_dirs ds = true /\ (acc <> [] -> ds <> [])).
  { intro Hx. inversion Hx; subst. split; [unfold wf_dirs; rewrite forallb_rev; exact Hacc|].
    intros Hne E. apply (f_equal (@rev directive)) in E. rewrite rev_involutive in E. simpl in E. contradiction. }
  destruct ts as [|t r0]; [apply Fin; exact H|].
  destruct (is_kind KAt t); [|apply Fin; exact H].
  destruct r0 as [|n r2]; [discriminate H|]. dmatch H. dmatch H.
  destruct (IH _ _ _ _ H) as [W N].
  { unfold wf_dirs. simpl. rewrite (opt_args_wf _ _ _ _ E0). exact Hacc. }
  split; [exact W|]. intros _. apply N. discriminate.
Qed.

Lemma dirs_wf0 : forall fuel ts ds r, parse_dirs fuel ts [] = Ok ds r -> wf_dirs ds = true.
Proof. intros. eapply dirs_wf; [exact H|reflexivity]. Qed.

(* directives parsed from a list that starts with '@' are not empty *)
Lemma dirs_at_nonempty : forall fuel t r0 ds r, parse_dirs fuel (t :: r0) [] = Ok ds r -> is_kind KAt t = true -> ds <> [].
Proof.
  intros fuel t r0 ds r H Hat. destruct fuel as [|f]; [discriminate H|].
  cbn [parse_dirs] in H. rewrite Hat in H.
  destruct r0 as [|n r2]; [discriminate H|]. dmatch H. dmatch H.
  eapply dirs_wf; [exact H| |discriminate].
  unfold wf_dirs. simpl. rewrite (opt_args_wf _ _ _ _ E0). reflexivity.
Qed.
(* ... and from a list that does not start with '@' nothing is consumed *)
Lemma dirs_noat : forall fuel t r0 ds r, parse_dirs fuel (t :: r0) [] = Ok ds r -> is_kind KAt t = false -> ds = [] /\ r = t :: r0.
Proof.
  intros fuel t r0 ds r H Hat. destruct fuel as [|f]; [discriminate H|].
  cbn [parse_dirs] in H. rewrite Hat in H. inversion H; auto.
Qed.

Definition SelsetWf (selset : list ptoken -> res (list selection)) : Prop :=
  forall ts sels r, selset ts = Ok sels r -> forallb wf_sel sels = true /\ sels <> [].

Lemma field_tail_wf : forall selset f alias nm r1 s r, SelsetWf selset ->
  field_tail selset f alias nm r1 = Ok s r -> wf_sel s = true.
Proof.
  intros selset f alias nm r1 s r HS H. unfold field_tail in H.
  dmatch H. dmatch H. pose proof (opt_args_wf _ _ _ _ E) as Wa. pose proof (dirs_wf0 _ _ _ _ E0) as Wd.
  destruct rest0 as [|b r4]; [inversion H; subst; simpl; rewrite Wa, Wd; reflexivity|].
  destruct (is_kind KLBrace b).
  - dmatch H. inversion H; subst. destruct (HS _ _ _ E1) as [Ws _]. simpl. rewrite Wa, Wd, Ws. reflexivity.
  - inversion H; subst. simpl. rewrite Wa, Wd. reflexivity.
Qed.

(* the inline fragment: well-formed provided it is not the bare "..." *)
Lemma inline_tail_wf : forall selset f tc r1 s r, SelsetWf selset ->
  inline_tail selset f tc r1 = Ok s r ->
  (tc = None -> exists t r0, r1 = t :: r0 /\ (is_kind KLBrace t || is_kind KAt t = true)) ->
  wf_sel s = true.
Proof.
  intros selset f tc r1 s r HS H Hfirst. unfold inline_tail in H.
  dmatch H. pose proof (dirs_wf0 _ _ _ _ E) as Wd.
  assert (Hbare : forall sels : list selection, (match tc, a, sels with None, [], [] => false | _, _, _ => true end) = true \/
                               (tc = None /\ a = [] /\ sels = [])).
  { intros sels. destruct tc; [left; reflexivity|]. destruct a; [|left; reflexivity]. destruct sels; [right; auto|left; reflexivity]. }
  (* when nothing precedes, the first token is '{' (directives would have been consumed) and the set is not empty *)
  assert (Hset : forall sels r', tc = None -> a = [] ->
             match rest with
             | b :: _ => if is_kind KLBrace b then match selset rest with
                                                  | Ok sels' r3 => Ok (SInline tc a sels') r3
                                                  | Err => Err | Unsup => Unsup | Oof => Oof end
                         else Ok (SInline tc a []) rest
             | [] => Ok (SInline tc a []) rest end = Ok (SInline tc a sels) r' -> sels <> []).
  { intros sels r' Htc Ha Hx. destruct (Hfirst Htc) as (t & r0 & -> & Hor).
    destruct (is_kind KAt t) eqn:Eat.
    - exfalso. apply (dirs_at_nonempty _ _ _ _ _ E Eat). exact Ha.
    - destruct (dirs_noat _ _ _ _ _ E Eat) as [_ ->]. rewrite Bool.orb_false_r in Hor. rewrite Hor in Hx.
      dmatch Hx. inversion Hx; subst. destruct (HS _ _ _ E0) as [_ Hne]. exact Hne. }
  destruct rest as [|b r4].
  { inversion H; subst. simpl. rewrite Wd. simpl.
    destruct (Hbare []) as [Hb|(Htc & Ha & _)]; [exact Hb|]. exfalso. apply (Hset [] [] Htc Ha); reflexivity. }
  destruct (is_kind KLBrace b) eqn:Eb.
  - dmatch H. inversion H; subst. destruct (HS _ _ _ E0) as [Ws Hne]. simpl. rewrite Wd, Ws. simpl.
    destruct tc; [reflexivity|]. destruct a; [|reflexivity]. destruct a0; [congruence|reflexivity].
  - inversion H; subst. simpl. rewrite Wd. simpl.
    destruct (Hbare []) as [Hb|(Htc & Ha & _)]; [exact Hb|]. exfalso.
    apply (Hset [] (b :: r4) Htc Ha); reflexivity.
Qed.

Lemma sel_wf : forall fuel,
  SelsetWf (parse_selset fuel) /\
  (forall ts acc sels r, parse_sels fuel ts acc = Ok sels r -> forallb wf_sel acc = true -> forallb wf_sel sels = true /\ sels <> []) /\
  (forall ts s r, parse_field fuel ts = Ok s r -> wf_sel s = true) /\
  (forall ts s r, parse_frag_sel fuel ts = Ok s r -> wf_sel s = true).
Proof.
  induction fuel as [|f IH]; [repeat split; try (intros; discriminate); intros ts sels r H; discriminate H|].
  destruct IH as (IHset & IHsels & IHfield & IHfrag). split; [|split; [|split]].
  - intros ts sels r H. cbn [parse_selset] in H. destruct ts as [|t r0]; [discriminate H|]. dmatch H.
    eapply IHsels; [exact H|reflexivity].
  - intros ts acc sels r H H0. cbn [parse_sels] in H. destruct ts as [|t r0]; [discriminate H|]. dmatch H.
    + destruct acc as [|a0 acc']; [discriminate H|]. inversion H; subst. split; [change (rev acc' ++ [a0]) with (rev (a0 :: acc')); rewrite forallb_rev; exact H0|].
      intro Hx. apply app_eq_nil in Hx. destruct Hx as [_ Hx]. discriminate Hx.
    + dmatch H; [dmatch H; eapply IHsels; [exact H|]; simpl; rewrite (IHfield _ _ _ E1); exact H0|].
      dmatch H. dmatch H. eapply IHsels; [exact H|]. simpl. rewrite (IHfrag _ _ _ E2). exact H0.
  - intros ts s r H. cbn [parse_field] in H. destruct ts as [|t r0]; [discriminate H|].
    destruct (negb (is_kind KIdent t)); [discriminate H|].
    destruct r0 as [|c r1]; [eapply field_tail_wf; [exact IHset|exact H]|].
    destruct (is_kind KColon c); [|eapply field_tail_wf; [exact IHset|exact H]].
    destruct r1 as [|n r2]; [discriminate H|]. dmatch H. eapply field_tail_wf; [exact IHset|exact H].
  - intros ts s r H. cbn [parse_frag_sel] in H. destruct ts as [|t r0]; [discriminate H|].
    destruct (is_kind KLBrace t || is_kind KAt t) eqn:Eor.
    { eapply inline_tail_wf; [exact IHset|exact H|]. intros _. exists t, r0. auto. }
    dmatch H. destruct (is_on t) eqn:Eon.
    + destruct r0 as [|n r1]; [discriminate H|]. dmatch H.
      eapply inline_tail_wf; [exact IHset|exact H|]. intro Hx. discriminate Hx.
    + dmatch H. inversion H; subst. simpl. rewrite (dirs_wf0 _ _ _ _ E0). rewrite Bool.andb_true_r.
      unfold is_on in Eon. rewrite E in Eon. simpl in Eon. unfold kw_is, ikw_eqb.
      destruct (keyword_of (plit t)); try reflexivity. discriminate Eon.
Qed.

Lemma vardefs_wf : forall fuel ts acc vs r, parse_vardefs fuel ts acc = Ok vs r ->
  forallb wf_vardef acc = true -> forallb wf_vardef vs = true.
Proof.
  induction fuel as [|f IH]; intros ts acc vs r H Hacc; [discriminate H|].
  cbn [parse_vardefs] in H. destruct ts as [|t r0]; [discriminate H|]. dmatch H.
  { inversion H; subst. rewrite forallb_rev. exact Hacc. }
  dmatch H. dmatch H.
  destruct r0 as [|v r1]; [discriminate H|]. dmatch H.
  destruct r1 as [|c r2]; [discriminate H|]. dmatch H. dmatch H.
  pose proof (type_wf _ _ _ _ E4) as Wt.
  assert (Fin : forall dv r4, match dv with Some x => wf_value x | None => true end = true ->
     match parse_dirs f r4 [] with
     | Ok dirs r5 => parse_vardefs f r5 ({| vd_name := plit v; vd_type := a; vd_default := dv; vd_dirs := dirs |} :: acc)
     | Err => Err | Unsup => Unsup | Oof => Oof end = Ok vs r -> forallb wf_vardef vs = true).
  { intros dv r4 Hdv Hx. dmatch Hx. eapply IH; [exact Hx|]. simpl. unfold wf_vardef. simpl.
    rewrite Wt, Hdv, (dirs_wf0 _ _ _ _ E5). exact Hacc. }
  destruct rest as [|e r4]; [apply (Fin None [] eq_refl H)|].
  destruct (is_kind KEquals e); [|apply (Fin None (e :: r4) eq_refl H)].
  dmatch H. apply (Fin (Some a0) rest); [exact (value_wf1 _ _ _ _ E5)|exact H].
Qed.

Lemma operation_wf : forall f k ts d r, parse_operation f k ts = Ok d r -> wf_def d = true.
Proof.
  intros f k ts d r H. unfold parse_operation in H.
  destruct (match ts with
            | t :: r => if is_kind KIdent t then (Some (plit t), r) else (None, ts)
            | [] => (None, ts) end) as [nm r1].
  dmatch H.
  assert (Wv : forallb wf_vardef a = true).
  { destruct r1 as [|t r0]; [inversion E; reflexivity|].
    destruct (is_kind KLParen t); [eapply vardefs_wf; [exact E|reflexivity]|inversion E; reflexivity]. }
  dmatch H. dmatch H. inversion H; subst.
  destruct ((proj1 (sel_wf f)) _ _ _ E1) as [Ws Hne].
  unfold wf_def. simpl. rewrite Wv, (dirs_wf0 _ _ _ _ E0), Ws. destruct a1; [congruence|reflexivity].
Qed.

Lemma fragment_wf : forall f ts d r, parse_fragment f ts = Ok d r -> wf_def d = true.
Proof.
  intros f ts d r H. unfold parse_fragment in H.
  destruct ts as [|n [|o [|t r0]]]; try discriminate H.
  dmatch H. dmatch H. dmatch H. inversion H; subst.
  destruct ((proj1 (sel_wf f)) _ _ _ E1) as [Ws Hne].
  unfold wf_def. simpl. rewrite (dirs_wf0 _ _ _ _ E0), Ws. destruct a0; [congruence|reflexivity].
Qed.

Lemma defs_wf : forall fuel ts acc doc r, parse_defs fuel ts acc = Ok doc r -> forallb wf_def acc = true -> wf_doc doc = true.
Proof.
  induction fuel as [|f IH]; intros ts acc doc r H Hacc; [discriminate H|].
  cbn [parse_defs] in H. destruct ts as [|t r0].
  { inversion H; subst. unfold wf_doc. rewrite forallb_rev. exact Hacc. }
  dmatch H.
  { dmatch H. eapply IH; [exact H|]. simpl. destruct ((proj1 (sel_wf f)) _ _ _ E0) as [Ws Hne].
    unfold wf_def. simpl. rewrite Ws. destruct a; [congruence|exact Hacc]. }
  dmatch H. dmatch H.
  destruct (opkind_of (keyword_of (plit t))) as [k|].
  - dmatch H. eapply IH; [exact H|]. simpl. rewrite (operation_wf _ _ _ _ _ E2). exact Hacc.
  - destruct (keyword_of (plit t)); try discriminate H; try (simpl in H; discriminate H).
    dmatch H. eapply IH; [exact H|]. simpl. rewrite (fragment_wf _ _ _ _ E2). exact Hacc.
Qed.

Theorem parse_wf_proof : forall ts d r, parse ts = Ok d r -> wf_doc d = true.
Proof. intros ts d r H. unfold parse in H. eapply defs_wf; [exact H|reflexivity]. Qed.
