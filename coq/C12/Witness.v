(* Concrete runs: the historical (pre-repair) transitions violate the properties (labelled
   historical; replayed on the Go code by the corpus), and non-trivial runs of the repaired model
   used as Examples next to the theorems. *)
From Gv Require Import C12.Model C12.Spec C13.Spec.
From Coq Require Import List Bool Arith PeanoNat.
Import ListNotations.

Definition flt0 : sid -> ev -> fres := fun _ _ => FPass.
Definition wres0 : sid -> ev -> wres := fun _ _ => WOk.
Definition bad0 : ev -> bool := fun _ => false.
Definition hb0 : sid -> bool := fun _ => false.

Definition hist_a : variant := {| fix_a := false; fix_b := true; fix_c := true |}.
Definition hist_b : variant := {| fix_a := true; fix_b := false; fix_c := true |}.
Definition hist_c : variant := {| fix_a := true; fix_b := true; fix_c := false |}.

Definition runv (v : variant) := run v flt0 wres0 bad0 hb0 init.

Definition n (k : nat) (th : tname) : list action := repeat (AStep th XNone) k.

(* UnsubscribeSubscription(s) by client thread c: yield, removal region, close(completed_s) [, cancel] *)
Definition unsub_steps (c : nat) (s : sid) (cancel : bool) : list action :=
  n 2 (TCl c) ++ [AStep (TCl c) (XPick s)] ++ (if cancel then n 1 (TCl c) else []).

(* subscriber s on key k: subscribe, hook ok, Start ok, markTriggerInitialized *)
Definition sub_started (c : nat) (s : sid) (k : key) : list action :=
  [AClient c (CSub s k 1 false false)] ++ n 2 (TCl c) ++
  [AStep (TSt s) XNone; AStep (TSt s) XOk; AStep (TSt s) XNone; AStep (TSt s) XOk; AStep (TSt s) XNone; AStep (TSt s) XNone].

(* (a) historical: source Complete parked between the removed test and complete(); the client
   unsubscribes (completed closed); Complete released -> writer.Complete() after the close *)
Definition wit_a : list action :=
  sub_started 1 1 0 ++
  [ASrc 2 0 (UCE KComplete)] ++ n 5 (TSrc 2) ++ [AStep (TSrc 2) (XPick 1)] ++
  [AClient 3 (CUnsub 1)] ++ unsub_steps 3 1 true ++
  n 2 (TSrc 2).

(* (b) historical: the client unsubscribes between getTrigger and initialized.Store / TriggerCountInc *)
Definition wit_b : list action :=
  [AClient 1 (CSub 1 0 1 false false)] ++ n 2 (TCl 1) ++
  [AStep (TSt 1) XNone; AStep (TSt 1) XOk; AStep (TSt 1) XNone; AStep (TSt 1) XOk; AStep (TSt 1) XNone; AStep (TSt 1) XNone] ++
  [AClient 2 (CUnsub 1)] ++ unsub_steps 2 1 true ++
  n 2 (TSt 1).

(* (c) historical: trigger id reused after teardown; the late Done() of the old source detaches the new trigger *)
Definition wit_c : list action :=
  sub_started 1 1 0 ++
  [AClient 2 (CUnsub 1)] ++ unsub_steps 2 1 true ++
  sub_started 3 2 0 ++
  [ASrc 4 0 UDone] ++ n 4 (TSrc 4) ++ [AStep (TSrc 4) (XPick 2)] ++ n 1 (TSrc 4).

(* a run of the repaired model: two subscribers on one trigger, two events, one leaves in between *)
Definition ex_run : list action :=
  sub_started 1 1 0 ++
  [AClient 2 (CSub 2 0 2 false false)] ++ n 2 (TCl 2) ++ [AStep (TSt 2) XNone; AStep (TSt 2) XOk] ++
  [ASrc 3 0 (UUpdate 7)] ++ n 6 (TSrc 3) ++ n 9 (TCh 1) ++ n 9 (TCh 2) ++ n 2 (TSrc 3) ++
  [AClient 4 (CUnsub 1)] ++ unsub_steps 4 1 false ++
  [ASrc 5 0 (UUpdate 8)] ++ n 6 (TSrc 5) ++ n 9 (TCh 2) ++ n 2 (TSrc 5) ++
  [AClient 6 (CUnsub 2)] ++ unsub_steps 6 2 true.

(* two subscribers; Update(7) from goroutine 3 is inside the Write to subscriber 1 (parked in the
   writer) when goroutine 4 calls Update(8): it parks at the updater mutex *)
Definition ex_two_updates : list action :=
  sub_started 1 1 0 ++
  [AClient 2 (CSub 2 0 2 false false)] ++ n 2 (TCl 2) ++ [AStep (TSt 2) XNone; AStep (TSt 2) XOk] ++
  [ASrc 3 0 (UUpdate 7)] ++ n 6 (TSrc 3) ++ n 4 (TCh 1) ++
  [ASrc 4 0 (UUpdate 8)] ++ n 1 (TSrc 4).

(* one subscriber inside Write; the client unsubscribes: removal done, close(completed) waits *)
Definition ex_close_waits : list action :=
  sub_started 1 1 0 ++
  [ASrc 3 0 (UUpdate 7)] ++ n 6 (TSrc 3) ++ n 4 (TCh 1) ++
  [AClient 4 (CUnsub 1)] ++ n 2 (TCl 4).

Definition obs_of (o : option state) : list obs := match o with Some st => rev (log st) | None => [] end.
Definition thr_of (o : option state) : nat := match o with Some st => length (threads st) | None => 99 end.

Compute (thr_of (runv hist_a wit_a), no_write_after_completed_b (obs_of (runv hist_a wit_a))).
Compute (thr_of (runv fixed wit_a), no_write_after_completed_b (obs_of (runv fixed wit_a))).
Compute (thr_of (runv hist_b wit_b), counters_balanced_b (obs_of (runv hist_b wit_b))).
Compute (thr_of (runv hist_c wit_c), obs_of (runv hist_c wit_c)).
Compute (thr_of (runv fixed ex_run), obs_of (runv fixed ex_run)).
Compute (thr_of (runv fixed ex_two_updates), obs_of (runv fixed ex_two_updates)).
Compute (thr_of (runv fixed ex_close_waits), obs_of (runv fixed ex_close_waits)).
