(* C12, sources that call the updater from several goroutines: the updater mutex serialises the
   fan-outs.  Every Write of an event to a subscriber of trigger t is entered while that event is the
   most recently emitted event of t (fanout_serial), every subscriber's writes are a subsequence of
   the emission order of its trigger (same order for all subscribers), and -- for pairwise distinct
   events -- the writes of one trigger never return to an earlier event (serial). *)
From Gv Require Import C12.Model C12.Spec C12.ProofsBase C12.ProofsReg C12.ProofsC12 C12.ProofsDeliv.
From Coq Require Import List Bool Arith PeanoNat Lia.
Import ListNotations.

(* ---- what a step adds to the log ---- *)
Definition only_removed (a : list obs) : Prop := forall o, In o a -> exists s, o = GRemoved s.

Lemma cas_log : forall st s st' c, cas_removed st s = (st', c) -> exists a, log st' = a ++ log st /\ only_removed a.
Proof.
  unfold cas_removed; intros. destruct (s_removed (subs st s)); inversion H; subst.
  - exists []. split; auto. intros o [].
  - exists [GRemoved s]. split; auto. intros o [<-|[]]. eauto.
Qed.
Lemma only_removed_app : forall a b, only_removed a -> only_removed b -> only_removed (a ++ b).
Proof. unfold only_removed; intros. apply in_app_iff in H1. destruct H1; auto. Qed.
Lemma remove_locked_log : forall st s st' r, remove_locked st s = (st', r) -> exists a, log st' = a ++ log st /\ only_removed a.
Proof.
  unfold remove_locked; intros.
  assert (H0 : exists a, log st = a ++ log st /\ only_removed a) by (exists []; split; auto; intros o []).
  destruct (negb (mem s (byid st))); [inversion H; subst; exact H0|].
  destruct (lookup_reg _ _); [|inversion H; subst; exact H0].
  destruct (negb (mem s _)); [inversion H; subst; exact H0|].
  destruct (cas_removed st s) as [st1 cl] eqn:E. apply cas_log in E. destruct E as (a & E1 & E2).
  destruct (rem s _); inversion H; subst; simpl; exists a; auto.
Qed.
Lemma detach_subs_log : forall l st st' c, detach_subs st l = (st', c) -> exists a, log st' = a ++ log st /\ only_removed a.
Proof.
  induction l; simpl; intros.
  - inversion H; subst. exists []. split; auto. intros o [].
  - destruct (cas_removed st a) as [st1 c1] eqn:E1.
    destruct (detach_subs (unregister st1 a) l) as [st2 c2] eqn:E2.
    inversion H; subst. apply cas_log in E1. apply IHl in E2. destruct E1 as (a1 & A1 & A2). destruct E2 as (a2 & B1 & B2).
    simpl in B1. exists (a2 ++ a1). rewrite B1, A1, app_assoc. split; auto. apply only_removed_app; auto.
Qed.
Lemma detach_locked_log : forall st t st' r, detach_locked st t = (st', r) -> exists a, log st' = a ++ log st /\ only_removed a.
Proof.
  unfold detach_locked; intros.
  destruct (detach_subs st (t_subs (trigs st t))) as [st1 cl] eqn:E.
  apply detach_subs_log in E. inversion H; subst. simpl. exact E.
Qed.
Lemma remove_many_log : forall l st st' r, remove_many st l = (st', r) -> exists a, log st' = a ++ log st /\ only_removed a.
Proof.
  induction l; simpl; intros.
  - inversion H; subst. exists []. split; auto. intros o [].
  - destruct (remove_locked st a) as [st1 r1] eqn:E1. destruct (remove_many st1 l) as [st2 r2] eqn:E2.
    inversion H; subst. apply remove_locked_log in E1. apply IHl in E2. destruct E1 as (a1 & A1 & A2). destruct E2 as (a2 & B1 & B2).
    exists (a2 ++ a1). rewrite B1, A1, app_assoc. split; auto. apply only_removed_app; auto.
Qed.
Lemma detach_many_log : forall l st st' r, detach_many st l = (st', r) -> exists a, log st' = a ++ log st /\ only_removed a.
Proof.
  induction l; simpl; intros.
  - inversion H; subst. exists []. split; auto. intros o [].
  - destruct (detach_locked st a) as [st1 r1] eqn:E1. destruct (detach_many st1 l) as [st2 r2] eqn:E2.
    inversion H; subst. apply detach_locked_log in E1. apply IHl in E2. destruct E1 as (a1 & A1 & A2). destruct E2 as (a2 & B1 & B2).
    exists (a2 ++ a1). rewrite B1, A1, app_assoc. split; auto. apply only_removed_app; auto.
Qed.

(* the trigger instance of a registered subscriber never changes; registry regions leave it alone *)
Definition tid_stable (st st' : state) : Prop :=
  forall s, s_tid (subs st' s) = s_tid (subs st s).
Lemma cas_tid : forall st s st' c, cas_removed st s = (st', c) -> tid_stable st st'.
Proof.
  unfold cas_removed, tid_stable; intros. destruct (s_removed (subs st s)); inversion H; subst; simpl; auto.
  unfold upd. destruct (Nat.eqb_spec s0 s); subst; auto.
Qed.
Lemma remove_locked_tid : forall st s st' r, remove_locked st s = (st', r) -> tid_stable st st'.
Proof.
  unfold remove_locked; intros.
  destruct (negb (mem s (byid st))); [inversion H; subst; intros x; reflexivity|].
  destruct (lookup_reg _ _); [|inversion H; subst; intros x; reflexivity].
  destruct (negb (mem s _)); [inversion H; subst; intros x; reflexivity|].
  destruct (cas_removed st s) as [st1 cl] eqn:E. apply cas_tid in E.
  destruct (rem s _); inversion H; subst; intros x; simpl; apply E.
Qed.
Lemma detach_subs_tid : forall l st st' c, detach_subs st l = (st', c) -> tid_stable st st'.
Proof.
  induction l; simpl; intros.
  - inversion H; subst. intros x; reflexivity.
  - destruct (cas_removed st a) as [st1 c1] eqn:E1.
    destruct (detach_subs (unregister st1 a) l) as [st2 c2] eqn:E2.
    inversion H; subst. apply cas_tid in E1. apply IHl in E2. intros x. rewrite (E2 x). simpl. apply E1.
Qed.
Lemma detach_locked_tid : forall st t st' r, detach_locked st t = (st', r) -> tid_stable st st'.
Proof.
  unfold detach_locked; intros.
  destruct (detach_subs st (t_subs (trigs st t))) as [st1 cl] eqn:E.
  apply detach_subs_tid in E. inversion H; subst. intros x. simpl. apply E.
Qed.
Lemma remove_many_tid : forall l st st' r, remove_many st l = (st', r) -> tid_stable st st'.
Proof.
  induction l; simpl; intros.
  - inversion H; subst. intros x; reflexivity.
  - destruct (remove_locked st a) as [st1 r1] eqn:E1. destruct (remove_many st1 l) as [st2 r2] eqn:E2.
    inversion H; subst. apply remove_locked_tid in E1. apply IHl in E2. intros x. rewrite (E2 x). apply E1.
Qed.
Lemma detach_many_tid : forall l st st' r, detach_many st l = (st', r) -> tid_stable st st'.
Proof.
  induction l; simpl; intros.
  - inversion H; subst. intros x; reflexivity.
  - destruct (detach_locked st a) as [st1 r1] eqn:E1. destruct (detach_many st1 l) as [st2 r2] eqn:E2.
    inversion H; subst. apply detach_locked_tid in E1. apply IHl in E2. intros x. rewrite (E2 x). apply E1.
Qed.

(* what kind of entry which instruction logs *)
Definition entry_ok (i : instr) (o : obs) : Prop :=
  match o with
  | GAccept t e _ => i = IUpdFilter t e \/ exists s, i = IUSFilter t s e
  | _ => match wev o with Some (s, e) => exists t il, i = IKidWrite t s e il | None => True end
  end.

Lemma classic_acc : forall t (a : list obs), (exists e p, In (GAccept t e p) a) \/ (forall e p, ~ In (GAccept t e p) a).
Proof.
  induction a as [|o a IH].
  - right. intros e p [].
  - destruct IH as [(e & p & H)|H]; [left; exists e, p; right; auto|].
    destruct o; try (right; intros e' p' [Hx|Hi]; [discriminate|eapply H; eauto]).
    destruct (Nat.eq_dec t0 t) as [->|Hne]; [left; exists e, l; left; auto|].
    right. intros e' p' [Hx|Hi]; [inversion Hx; congruence|eapply H; eauto].
Qed.

Section OrderStep.
  Variable v : variant.
  Variable flt : sid -> ev -> fres.
  Variable wresf : sid -> ev -> wres.
  Variable ev_bad : ev -> bool.
  Variable hbfail : sid -> bool.
  Notation exec := (exec v flt wresf ev_bad hbfail).

  Ltac rm_log_tac L E :=
    let a := fresh "a" in let A1 := fresh "A1" in let A2 := fresh "A2" in
    apply L in E; destruct E as (a & A1 & A2).

  Lemma exec_log : forall st i x st1 push sp, exec st i x = Some (st1, push, sp) ->
    exists a, log st1 = a ++ log st /\ (forall o, In o a -> entry_ok i o) /\
              (forall s, In s (allsubs st) -> s_tid (subs st1 s) = s_tid (subs st s) /\ In s (allsubs st1)).
  Proof.
    intros st i x st1 push sp He.
    assert (Hor : forall a, only_removed a -> forall o, In o a -> entry_ok i o).
    { intros a Ha o Ho. destruct (Ha o Ho) as [s ->]. exact I. }
    exec_cases He;
      try (solve [simpl; unfold emit, st_log, wenter; simpl;
        lazymatch goal with
        | |- exists a, ?x :: ?y :: ?z :: log ?s = a ++ log ?s /\ _ => exists [x; y; z]
        | |- exists a, ?x :: ?y :: log ?s = a ++ log ?s /\ _ => exists [x; y]
        | |- exists a, ?x :: log ?s = a ++ log ?s /\ _ => exists [x]
        | |- exists a, log ?s = a ++ log ?s /\ _ => exists []
        end;
        (split; [reflexivity|]; split;
         [intros o Ho; simpl in Ho; repeat (destruct Ho as [<-|Ho]; [simpl; eauto|]); try (destruct Ho); try (destruct w; simpl; exact I)
         |intros s0 Hs0; simpl; unfold upd;
          repeat (match goal with |- context [Nat.eqb ?a ?b] => destruct (Nat.eqb_spec a b); subst end); simpl; auto;
          try (exfalso; match goal with H : mem ?s (allsubs _) = false |- _ => apply mem_nIn in H; tauto end)])]).
    - (* UnsubscribeSubscription *)
      pose proof (remove_locked_tid _ _ _ _ Erm) as Ht. pose proof (remove_locked_frame _ _ _ _ Erm) as (_ & _ & Ha & _).
      rm_log_tac remove_locked_log Erm. simpl in A1.
      exists (rev (dec_obs r) ++ a ++ (if mem s (allsubs st) then [GLeft s] else [])).
      split; [unfold emit; simpl; rewrite A1, <- !app_assoc; reflexivity|]. split.
      + intros o Ho. apply in_app_iff in Ho. destruct Ho as [Ho|Ho].
        * apply in_rev in Ho. unfold dec_obs in Ho. destruct (rr_dec r =? 0); simpl in Ho; intuition (subst; exact I).
        * apply in_app_iff in Ho. destruct Ho as [Ho|Ho]; [eapply Hor; eauto|].
          destruct (mem s (allsubs st)); simpl in Ho; intuition (subst; exact I).
      + intros s0 Hs0. simpl. rewrite (Ht s0). simpl. rewrite Ha. auto.
    - (* removeClient *)
      pose proof (remove_many_tid _ _ _ _ Erm) as Ht. pose proof (remove_many_frame _ _ _ _ Erm) as (_ & _ & Ha & _).
      rm_log_tac remove_many_log Erm. simpl in A1.
      exists (rev (dec_obs r) ++ a ++ map GLeft (of_conn st c (allsubs st))).
      split; [unfold emit; simpl; rewrite A1, <- !app_assoc; reflexivity|]. split.
      + intros o Ho. apply in_app_iff in Ho. destruct Ho as [Ho|Ho].
        * apply in_rev in Ho. unfold dec_obs in Ho. destruct (rr_dec r =? 0); simpl in Ho; intuition (subst; exact I).
        * apply in_app_iff in Ho. destruct Ho as [Ho|Ho]; [eapply Hor; eauto|].
          apply in_map_iff in Ho. destruct Ho as (y & <- & _). exact I.
      + intros s0 Hs0. simpl. rewrite (Ht s0). simpl. rewrite Ha. auto.
    - (* shutdownResolver *)
      pose proof (detach_many_tid _ _ _ _ Erm) as Ht. pose proof (detach_many_frame _ _ _ _ Erm) as (_ & _ & Ha & _).
      rm_log_tac detach_many_log Erm. simpl in A1.
      exists (rev (dec_obs r) ++ a).
      split; [unfold emit; simpl; rewrite A1, <- !app_assoc; reflexivity|]. split.
      + intros o Ho. apply in_app_iff in Ho. destruct Ho as [Ho|Ho]; [|eapply Hor; eauto].
        apply in_rev in Ho. unfold dec_obs in Ho. destruct (rr_dec r =? 0); simpl in Ho; intuition (subst; exact I).
      + intros s0 Hs0. simpl. rewrite (Ht s0). simpl. rewrite Ha. auto.
    - (* doneTriggerFromUpdater *)
      pose proof (detach_locked_tid _ _ _ _ Erm) as Ht. pose proof (detach_locked_frame _ _ _ _ Erm) as (_ & _ & Ha & _).
      rm_log_tac detach_locked_log Erm.
      exists (rev (dec_obs r) ++ a).
      split; [unfold emit; simpl; rewrite A1, <- !app_assoc; reflexivity|]. split.
      + intros o Ho. apply in_app_iff in Ho. destruct Ho as [Ho|Ho]; [|eapply Hor; eauto].
        apply in_rev in Ho. unfold dec_obs in Ho. destruct (rr_dec r =? 0); simpl in Ho; intuition (subst; exact I).
      + intros s0 Hs0. unfold emit. simpl. rewrite (Ht s0). rewrite Ha. auto.
    - (* ISpawn *)
      eexists. split; [simpl; reflexivity|]. split; [|intros s0 Hs0; simpl; auto].
      intros o Ho. apply in_map_iff in Ho. destruct Ho as (y & <- & _). exact I.
    - (* complete / error *)
      exists [OW s (cecall c)]. split; [reflexivity|]. split; [|intros s0 Hs0; simpl; auto].
      intros o [<-|[]]. destruct c; exact I.
  Qed.

  (* ---- LA: the event of every in-flight delivery is the last emitted event of its trigger ---- *)
  Definition last_is (t : tid) (e : ev) (l : list obs) : bool :=
    match last_emitted t l with Some e' => e' =? e | None => false end.
  Definition bad_last (l : list obs) (i : instr) : bool :=
    match i with
    | ISpawn t e _ | IKidLoad t _ e _ | IKidWrite t _ e _ => negb (last_is t e l)
    | _ => false
    end.

  Lemma last_emitted_app : forall t a l,
    (forall e p, ~ In (GAccept t e p) a) -> last_emitted t (a ++ l) = last_emitted t l.
  Proof.
    induction a as [|o a IH]; simpl; intros; auto.
    assert (Ha : forall e p, ~ In (GAccept t e p) a) by (intros e p Hi; apply (H e p); right; auto).
    destruct o; auto. destruct (Nat.eqb_spec t0 t); auto. subst. exfalso. apply (H e l0). left. reflexivity.
  Qed.

  Lemma bad_last_threads : forall st i a thr,
    (forall o, In o a -> entry_ok i o) -> cnt (bad_last (log st)) thr = 0 ->
    (forall t, acc_t t i = true -> cnt (infl_t t) thr = 0) ->
    cnt (bad_last (a ++ log st)) thr = 0.
  Proof.
    intros st i a thr Ha H0 Hacc.
    destruct (Nat.eq_dec (cnt (bad_last (a ++ log st)) thr) 0) as [|Hne]; auto. exfalso.
    assert (Hp : cnt (bad_last (a ++ log st)) thr > 0) by lia. apply cnt_pos_In in Hp.
    destruct Hp as (n & prog & j & Hin & Hj & Hb).
    assert (Hold : bad_last (log st) j = false).
    { destruct (bad_last (log st) j) eqn:E; auto. exfalso.
      assert (cnt (bad_last (log st)) thr > 0) by (apply cnt_pos_In; exists n, prog, j; auto). lia. }
    assert (Hk : exists t e, infl_t t j = true /\ last_is t e (a ++ log st) = false /\ last_is t e (log st) = true).
    { destruct j; simpl in Hb, Hold; try discriminate; exists t, e; simpl; rewrite Nat.eqb_refl;
        apply negb_true_iff in Hb; apply negb_false_iff in Hold; auto. }
    destruct Hk as (t & e & Hi & Hn & Ho).
    assert (Hg : exists e' p, In (GAccept t e' p) a).
    { destruct (classic_acc t a) as [Hx|Hx]; auto. exfalso. unfold last_is in *. rewrite last_emitted_app in Hn by exact Hx. congruence. }
    destruct Hg as (e' & p & Hg). specialize (Ha _ Hg). simpl in Ha.
    assert (Hat : acc_t t i = true) by (destruct Ha as [->|[s ->]]; simpl; apply Nat.eqb_refl).
    specialize (Hacc t Hat).
    assert (cnt (infl_t t) thr > 0) by (apply cnt_pos_In; exists n, prog, j; auto). lia.
  Qed.

  Lemma last_is_app : forall t e a l, (forall e' p, ~ In (GAccept t e' p) a) -> last_is t e (a ++ l) = last_is t e l.
  Proof. intros. unfold last_is. rewrite last_emitted_app; auto. Qed.

  Lemma LA_astep : forall st th i rest x st1 push sp,
    RG st -> UDfull st (threads st) -> cnt (bad_last (log st)) (threads st) = 0 ->
    lookup_thr th (threads st) = Some (i :: rest) ->
    exec st i x = Some (st1, push, sp) ->
    cnt (bad_last (log st1)) (set_thr th (push ++ rest) (threads st) ++ sp) = 0.
  Proof.
    intros st th i rest x st1 push sp HR HU H0 Hl He.
    assert (HQ : forall p, cnt p (set_thr th (push ++ rest) (threads st) ++ sp) + (if p i then 1 else 0)
                          = cnt p (threads st) + cntl p push + cnt p sp).
    { intros p. rewrite cnt_app. pose proof (cnt_set_thr p th i rest push (threads st) Hl). lia. }
    assert (HI : bad_last (log st) i = false).
    { destruct (bad_last (log st) i) eqn:E; auto. pose proof (cnt_lookup_ge (bad_last (log st)) _ _ _ _ Hl E). lia. }
    destruct (exec_log _ _ _ _ _ _ He) as (a & Ea & Hent & _).
    assert (Hthr : cnt (bad_last (log st1)) (threads st) = 0).
    { rewrite Ea. eapply bad_last_threads; [exact Hent|exact H0|]. intros t Ht. eapply claimA; eauto. }
    pose proof (HQ (bad_last (log st1))) as Hq.
    assert (Hp : cntl (bad_last (log st1)) push + cnt (bad_last (log st1)) sp = 0); [|destruct (bad_last (log st1) i); lia].
    clear Hq HQ Hthr Hent Ea a.
    exec_cases He; simpl in *; cnt_simpl; auto; try (rewrite ?Ec; reflexivity).
    1-4: (unfold after_remove;
          match goal with |- length (filter ?p (?a ++ ?b)) + 0 = 0 =>
            change (cntl p (a ++ b) + 0 = 0); rewrite cntl_app, !cntl_map_zero by auto; reflexivity end).
    all: try (unfold last_is; simpl; rewrite !Nat.eqb_refl; reflexivity).
    - (* ISpawn: the children carry the event of the fan-out *)
      apply cnt_map_zero. intros s. unfold cntl. simpl. unfold last_is in *.
      rewrite last_emitted_app by (intros e' p Hi; apply in_map_iff in Hi; destruct Hi as (y & Hy & _); discriminate).
      apply negb_false_iff in HI. unfold last_is in HI. rewrite HI. reflexivity.
    - (* IKidLoad -> IKidWrite *)
      rewrite HI. reflexivity.
  Qed.

  (* ---- the history invariant ---- *)
  Definition fcond (g : sid -> tid) (o : obs) (r : list obs) : Prop :=
    forall s e, wev o = Some (s, e) -> last_emitted (g s) r = Some e.
  Definition FSH (st : state) : Prop :=
    forall g, (forall s, In s (allsubs st) -> g s = s_tid (subs st s)) -> histr (fcond g) (log st).

  Lemma histr_app_none : forall g a l, (forall o, In o a -> wev o = None) -> histr (fcond g) l -> histr (fcond g) (a ++ l).
  Proof.
    induction a as [|o a IH]; simpl; intros; auto. split; [|apply IH; auto].
    intros s e Hw. rewrite (H o) in Hw by auto. discriminate.
  Qed.

  Lemma wev_entry_none : forall i a, (forall o, In o a -> entry_ok i o) ->
    (forall t s e il, i <> IKidWrite t s e il) -> forall o, In o a -> wev o = None.
  Proof.
    intros i a Ha Hi o Ho. specialize (Ha o Ho). destruct (wev o) as [[s e]|] eqn:E; auto. exfalso.
    destruct o; simpl in E; try discriminate. destruct c; simpl in E; try discriminate; inversion E; subst;
      unfold entry_ok in Ha; simpl in Ha; destruct Ha as (t & il & Ha); eapply Hi; exact Ha.
  Qed.

  Lemma FSH_astep : forall st th i rest x st1 push sp,
    RG st -> cnt (bad_tid st) (threads st) = 0 -> cnt (bad_last (log st)) (threads st) = 0 -> FSH st ->
    lookup_thr th (threads st) = Some (i :: rest) ->
    exec st i x = Some (st1, push, sp) -> FSH st1.
  Proof.
    intros st th i rest x st1 push sp HR Hbt Hbl HF Hl He g Hg.
    destruct (exec_log _ _ _ _ _ _ He) as (a & Ea & Hent & Hst).
    assert (Hg0 : forall s, In s (allsubs st) -> g s = s_tid (subs st s)).
    { intros s Hs. destruct (Hst s Hs) as [E1 E2]. rewrite (Hg s E2). exact E1. }
    specialize (HF g Hg0). rewrite Ea.
    assert (Hk : (forall t s e il, i <> IKidWrite t s e il) \/ exists t s e il, i = IKidWrite t s e il).
    { destruct i; try (left; intros; discriminate). right. eauto. }
    destruct Hk as [Hk|(t & s & e & il & ->)].
    - apply histr_app_none; auto. eapply wev_entry_none; eauto.
    - assert (Hi1 : bad_tid st (IKidWrite t s e il) = false).
      { destruct (bad_tid st (IKidWrite t s e il)) eqn:E; auto. pose proof (cnt_lookup_ge (bad_tid st) _ _ _ _ Hl E). lia. }
      assert (Hi2 : bad_last (log st) (IKidWrite t s e il) = false).
      { destruct (bad_last (log st) (IKidWrite t s e il)) eqn:E; auto. pose proof (cnt_lookup_ge (bad_last (log st)) _ _ _ _ Hl E). lia. }
      simpl in Hi1, Hi2. apply negb_false_iff in Hi1, Hi2. apply andb_true_iff in Hi1. destruct Hi1 as [Ht Hm].
      apply Nat.eqb_eq in Ht. apply mem_In in Hm.
      assert (Hgs : g s = t) by (rewrite (Hg0 s Hm); exact Ht).
      assert (Hle : last_emitted t (log st) = Some e).
      { unfold last_is in Hi2. destruct (last_emitted t (log st)); [apply Nat.eqb_eq in Hi2; subst; auto|discriminate]. }
      assert (Hone : forall c, wev (OW s c) = None \/ wev (OW s c) = Some (s, e) ->
                     log st1 = OW s c :: log st -> histr (fcond g) (OW s c :: log st)).
      { intros c Hc _. simpl. split; auto. intros s' e' Hw. destruct Hc as [Hc|Hc]; rewrite Hc in Hw; [discriminate|].
        inversion Hw; subst. rewrite Hgs. exact Hle. }
      rewrite <- Ea. clear Ea Hent.
      destruct x; simpl in He; try discriminate He. unfold ret in He.
      destruct (wheld st s); [discriminate|]. destruct (s_removed (subs st s)).
      + inversion He; subst. simpl. split; auto. intros s' e' Hw. discriminate.
      + destruct (wresf s e); inversion He; subst; apply Hone; auto.
  Qed.
End OrderStep.

(* ---- subsequences ---- *)
Lemma subseq_nil : forall b, subseq [] b.
Proof. destruct b; simpl; auto. Qed.
Lemma subseq_refl : forall a, subseq a a.
Proof. induction a; simpl; auto. Qed.
Lemma subseq_cons_r : forall a y b, subseq a b -> subseq a (y :: b).
Proof. intros. simpl. destruct a; auto. Qed.
Lemma subseq_app : forall a b c d, subseq a b -> subseq c d -> subseq (a ++ c) (b ++ d).
Proof.
  intros a b. revert a. induction b as [|y b IH]; simpl; intros a c d H1 H2.
  - subst. exact H2.
  - destruct a as [|x a]; simpl.
    + destruct c; auto. right. apply (IH [] (e :: c) d); auto. apply subseq_nil.
    + destruct H1 as [[-> H1]|H1]; [left; split; auto|right; apply (IH (x :: a) c d); auto].
Qed.
Lemma subseq_app_l : forall a r b, subseq (a ++ r) b -> subseq a b.
Proof.
  intros a r b. revert a. induction b as [|y b IH]; simpl; intros a H.
  - apply app_eq_nil in H. tauto.
  - destruct a as [|x a]; simpl in *; auto.
    destruct H as [[-> H]|H]; [left; split; auto; eapply IH; eauto|right; apply (IH (x :: a)); auto].
Qed.

Section OrderMain.
  Variable flt : sid -> ev -> fres.
  Variable wresf : sid -> ev -> wres.
  Variable ev_bad : ev -> bool.
  Variable hbfail : sid -> bool.
  Notation reach := (reachable fixed flt wresf ev_bad hbfail).
  Notation stepf := (step fixed flt wresf ev_bad hbfail).
  Notation execf := (exec fixed flt wresf ev_bad hbfail).

  (* accepted subscribers belong to the accepting trigger *)
  Definition AT (st : state) : Prop :=
    forall t e l, In (GAccept t e l) (log st) -> forall s, In s l -> In s (allsubs st) /\ s_tid (subs st s) = t.

  Ltac a_nil :=
    match goal with Ea : log ?S = ?a ++ log ?S |- _ =>
      assert (a = []) by (apply (app_inv_tail (log S)); simpl; rewrite <- Ea; reflexivity); subst a end.

  Lemma AT_exec : forall st i x st1 push sp, RG st -> AT st -> execf st i x = Some (st1, push, sp) -> AT st1.
  Proof.
    intros st i x st1 push sp HR HA He.
    destruct (exec_log _ _ _ _ _ _ _ _ _ _ _ He) as (a & Ea & Hent & Hst).
    intros t e l Hi s Hs. rewrite Ea in Hi. apply in_app_iff in Hi. destruct Hi as [Hi|Hi].
    - specialize (Hent _ Hi). simpl in Hent. destruct Hent as [->|[s' ->]].
      + destruct x; simpl in He; try discriminate He. unfold ret in He.
        destruct (eval_filter flt st e (t_subs (trigs st t))) as [pass ferr] eqn:Ef. inversion He; subst. clear He.
        simpl in Ea. assert (a = [GAccept t e pass]) by (apply (app_inv_tail (log st)); simpl; auto). subst a.
        destruct Hi as [Hx|[]]. inversion Hx; subst.
        destruct (eval_filter_sub _ _ _ _ _ _ Ef) as (Hsub & _ & _). apply Hsub in Hs.
        destruct (rg_tsubs _ HR _ _ Hs) as (_ & Hb & Ht). split; auto. apply (rg_byid _ HR s Hb).
      + destruct x; simpl in He; try discriminate He. unfold ret in He.
        destruct (negb (mem s' (t_subs (trigs st t)))) eqn:Em; [inversion He; subst; simpl in Ea;
          a_nil; destruct Hi|].
        apply negb_false_iff in Em. apply mem_In in Em. destruct (rg_tsubs _ HR _ _ Em) as (_ & Hb & Ht). subst t.
        set (T := s_tid (subs st s')) in *.
        assert (Hgood : forall a0, In (GAccept T e l) a0 -> (forall o, In o a0 -> o = GAccept T e [s'] \/ exists y z, o = GMissed y z) ->
                        In s (allsubs st1) /\ s_tid (subs st1 s) = T).
        { intros a0 Hin Hall. destruct (Hall _ Hin) as [Hx|(y & z & Hx)]; [|discriminate]. inversion Hx; subst l.
          destruct Hs as [<-|[]]. destruct (Hst s' (proj1 (rg_byid _ HR s' Hb))) as [E1 E2]. split; [auto|exact E1]. }
        destruct (s_ctxc (subs st s')); [inversion He; subst; simpl in Ea; a_nil; destruct Hi|].
        destruct (flt s' e); [|inversion He; subst; simpl in Ea; a_nil; destruct Hi
                              |inversion He; subst; simpl in Ea; a_nil; destruct Hi].
        destruct (s_removed (subs st s')); inversion He; subst st1 push sp; simpl in Ea.
        * apply (Hgood [GMissed s' e; GAccept T e [s']]); [|intros o [<-|[<-|[]]]; eauto].
          assert (a = [GMissed s' e; GAccept T e [s']]) by (apply (app_inv_tail (log st)); simpl; auto). subst a. exact Hi.
        * apply (Hgood [GAccept T e [s']]); [|intros o [<-|[]]; eauto].
          assert (a = [GAccept T e [s']]) by (apply (app_inv_tail (log st)); simpl; auto). subst a. exact Hi.
    - destruct (HA _ _ _ Hi s Hs) as [H1 H2]. destruct (Hst s H1) as [E1 E2]. split; auto. congruence.
  Qed.

  Definition OI (st : state) : Prop :=
    DI flt ev_bad st /\ cnt (bad_last (log st)) (threads st) = 0 /\ FSH st /\ AT st.

  Lemma OI_init : OI init.
  Proof.
    split; [apply DI_init; assumption|]. split; [reflexivity|]. split; [intros g _; exact I|intros t e l []].
  Qed.

  Lemma OI_step : forall st a st', OI st -> stepf st a = Some st' -> OI st'.
  Proof.
    intros st a st' (HD & HL & HF & HA) Hs.
    assert (HD' : DI flt ev_bad st') by (eapply DI_step; eauto).
    split; auto.
    assert (Hspawn : forall n p, cntl (bad_last (log st)) p = 0 -> spawn st n p = Some st' ->
                     cnt (bad_last (log st')) (threads st') = 0 /\ FSH st' /\ AT st').
    { intros n p Hp Hsp. apply spawn_spec in Hsp. destruct Hsp as [->|[_ ->]]; auto. simpl.
      split; [rewrite cnt_app; simpl; rewrite Hp, HL; reflexivity|]. split; [exact HF|exact HA]. }
    destruct a; simpl in Hs.
    - eapply Hspawn; [|exact Hs]. destruct op; reflexivity.
    - destruct (t <? ntrig st); [|discriminate]. eapply Hspawn; [|exact Hs]. destruct op; reflexivity.
    - eapply Hspawn; [|exact Hs]. reflexivity.
    - pose proof HD as (HR & _ & _ & HU & _).
      apply step_AStep in Hs. destruct Hs as (i & rest & st1 & push & sp & Hl & He & ->). simpl.
      split; [eapply LA_astep; eauto|].
      assert (Hbt : cnt (bad_tid st) (threads st) = 0) by (destruct HU as [(G1 & G2 & G2n & G3 & G4 & G5 & P1 & P2) G0]; exact G5).
      split.
      + pose proof (FSH_astep _ _ _ _ _ _ _ _ _ _ _ _ _ HR Hbt HL HF Hl He) as H. intros g Hg. apply H. exact Hg.
      + pose proof (AT_exec _ _ _ _ _ _ HR HA He) as H. exact H.
  Qed.

  Lemma OI_reachable : forall st, reach st -> OI st.
  Proof. apply run_inv; [apply OI_init|apply OI_step]. Qed.

  (* every Write of an event is entered while that event is the latest emitted event of the
     subscriber's trigger: the fan-out of A is complete before B is started *)
  Lemma fanout_serial_holds : forall st, reach st -> fanout_serial (fun s => s_tid (subs st s)) (chron st).
  Proof.
    intros st H. apply OI_reachable in H. destruct H as (_ & _ & HF & _).
    specialize (HF (fun s => s_tid (subs st s)) (fun s _ => eq_refl)).
    apply histr_hist in HF. intros l1 o l2 s e El Hw. exact (HF l1 o l2 El s e Hw).
  Qed.

  Lemma acc_subseq_emitted : forall s t l,
    (forall t' e p, In (GAccept t' e p) l -> In s p -> t' = t) -> subseq (acc ev_bad s l) (emitted t l).
  Proof.
    induction l as [|o l IH]; intros H; simpl; auto.
    apply subseq_app; [|apply IH; intros; eapply H; eauto; right; eauto].
    destruct o; simpl; auto. destruct (mem s l0 && negb (ev_bad e)) eqn:E; [|apply subseq_nil].
    apply andb_true_iff in E. destruct E as [E _]. apply mem_In in E.
    rewrite (H t0 e l0 (or_introl eq_refl) E), Nat.eqb_refl. simpl. auto.
  Qed.

  (* every subscriber receives its events in the order of emission of its trigger: what was written
     to s is a subsequence of the events emitted by its trigger (hence any two subscribers of one
     trigger see their common events in the same order) *)
  Lemma same_order_holds : forall st s, reach st ->
    subseq (writes_of s (chron st)) (emitted (s_tid (subs st s)) (chron st)).
  Proof.
    intros st s H. pose proof (delivery_order_holds flt wresf ev_bad hbfail st s H) as (missed & infl & E & _).
    apply OI_reachable in H. destruct H as (_ & _ & _ & HA).
    apply (subseq_app_l _ (missed ++ infl)). unfold del in E. rewrite <- E.
    apply acc_subseq_emitted. intros t' e p Hi Hs. apply in_rev in Hi. destruct (HA _ _ _ Hi s Hs) as [_ Ht]. auto.
  Qed.
End OrderMain.

(* ---- without ghost entries: for pairwise distinct events the writes of one trigger never return to
   an earlier event (no a .. b .. a) ---- *)
Lemma app_snoc_inv : forall (A : Type) (l1 : list A) x l2 a o, l1 ++ x :: l2 = a ++ [o] ->
  (l2 = [] /\ x = o /\ l1 = a) \/ (exists l2', l2 = l2' ++ [o] /\ a = l1 ++ x :: l2').
Proof.
  intros A l1 x l2 a o H. destruct (rev l2) as [|y r] eqn:E.
  - left. assert (l2 = []) by (rewrite <- (rev_involutive l2), E; reflexivity). subst.
    apply app_inj_tail in H. tauto.
  - right. assert (El : l2 = rev r ++ [y]) by (rewrite <- (rev_involutive l2), E; reflexivity). subst l2.
    change (l1 ++ x :: rev r ++ [y]) with (l1 ++ (x :: rev r) ++ [y]) in H. rewrite app_assoc in H.
    apply app_inj_tail in H. destruct H as [H1 H2]. subst. exists (rev r). split; auto.
Qed.

Lemma gwrites_app : forall g k a b, gwrites g k (a ++ b) = gwrites g k a ++ gwrites g k b.
Proof. intros. apply flat_map_app. Qed.
Lemma emitted_app : forall t a b, emitted t (a ++ b) = emitted t a ++ emitted t b.
Proof. intros. apply flat_map_app. Qed.

Lemma gwrites_split : forall g k l w1 a w2, gwrites g k l = w1 ++ a :: w2 ->
  exists l1 o l2 s, l = l1 ++ o :: l2 /\ wev o = Some (s, a) /\ g s = k /\ gwrites g k l1 = w1 /\ gwrites g k l2 = w2.
Proof.
  induction l as [|o l IH]; intros w1 a w2 H; simpl in H.
  - destruct w1; discriminate.
  - destruct (wev o) as [[s e]|] eqn:Ew.
    + destruct (Nat.eqb_spec (g s) k).
      * simpl in H. destruct w1 as [|x w1]; simpl in H; inversion H; subst.
        -- exists [], o, l, s. simpl. auto.
        -- destruct (IH _ _ _ H2) as (l1 & o' & l2 & s' & -> & Hw & Hg & E1 & E2).
           exists (o :: l1), o', l2, s'. simpl. rewrite Ew, Nat.eqb_refl, E1. simpl. auto.
      * simpl in H. destruct (IH _ _ _ H) as (l1 & o' & l2 & s' & -> & Hw & Hg & E1 & E2).
        exists (o :: l1), o', l2, s'. simpl. rewrite Ew. destruct (Nat.eqb_spec (g s) k); [congruence|]. simpl. auto.
    + simpl in H. destruct (IH _ _ _ H) as (l1 & o' & l2 & s' & -> & Hw & Hg & E1 & E2).
      exists (o :: l1), o', l2, s'. simpl. rewrite Ew. simpl. auto.
Qed.

Lemma emitted_last : forall t P x, last_emitted t (rev P) = Some x -> exists E, emitted t P = E ++ [x].
Proof.
  intros t P. induction P as [|o P IH] using rev_ind; intros x H; [discriminate|].
  rewrite rev_app_distr in H. simpl in H. rewrite emitted_app. simpl.
  destruct o; try (destruct (IH _ H) as [E ->]; exists E; rewrite app_nil_r; reflexivity).
  destruct (Nat.eqb_spec t0 t).
  - inversion H; subst. exists (emitted t P). simpl. rewrite Nat.eqb_refl. reflexivity.
  - destruct (IH _ H) as [E ->]. exists E. simpl. destruct (Nat.eqb_spec t0 t); [congruence|]. simpl. rewrite app_nil_r. reflexivity.
Qed.

Lemma snoc_neq_in : forall (U : list ev) a X E b, (U ++ [a]) ++ X = E ++ [b] -> a <> b -> In a E.
Proof.
  intros U a X E b H Hne. rewrite <- app_assoc in H. simpl in H. apply app_snoc_inv in H.
  destruct H as [(_ & Hx & _)|(X' & _ & ->)]; [congruence|]. apply in_or_app. right. left. reflexivity.
Qed.

Lemma NoDup_app_l : forall (a b : list ev), NoDup (a ++ b) -> NoDup a.
Proof.
  induction a; simpl; intros; [constructor|]. inversion H; subst. constructor; [|eapply IHa; eauto].
  intro Hi. apply H2. apply in_or_app. auto.
Qed.

Lemma serial_of_fanout : forall g t l,
  fanout_serial g l -> NoDup (emitted t l) -> serial (gwrites g t l).
Proof.
  intros g t l HF Hnd w1 a w2 b w3 HW Hne Hin.
  apply in_split in Hin. destruct Hin as (w3a & w3b & ->).
  destruct (gwrites_split _ _ _ _ _ _ HW) as (L1 & o1 & L2 & s1 & -> & Hw1 & Hg1 & _ & E2).
  destruct (gwrites_split _ _ _ _ _ _ E2) as (M1 & o2 & M2 & s2 & -> & Hw2 & Hg2 & _ & E3).
  destruct (gwrites_split _ _ _ _ _ _ E3) as (N1 & o3 & N2 & s3 & -> & Hw3 & Hg3 & _ & _).
  pose proof (HF L1 o1 _ s1 a eq_refl Hw1) as F1. rewrite Hg1 in F1.
  set (P2 := L1 ++ o1 :: M1). set (P3 := P2 ++ o2 :: N1).
  assert (EQ2 : L1 ++ o1 :: M1 ++ o2 :: N1 ++ o3 :: N2 = P2 ++ o2 :: N1 ++ o3 :: N2)
    by (unfold P2; rewrite <- app_assoc; reflexivity).
  assert (EQ3 : L1 ++ o1 :: M1 ++ o2 :: N1 ++ o3 :: N2 = P3 ++ o3 :: N2)
    by (rewrite EQ2; unfold P3; rewrite <- app_assoc; reflexivity).
  pose proof (HF P2 o2 _ s2 b EQ2 Hw2) as F2. rewrite Hg2 in F2.
  pose proof (HF P3 o3 _ s3 a EQ3 Hw3) as F3. rewrite Hg3 in F3.
  apply emitted_last in F1, F2, F3. destruct F1 as [E1 F1]. destruct F2 as [E2' F2]. destruct F3 as [E3' F3].
  assert (G2 : emitted t P2 = (E1 ++ [a]) ++ emitted t (o1 :: M1)) by (unfold P2; rewrite emitted_app, F1; reflexivity).
  assert (G3 : emitted t P3 = (E2' ++ [b]) ++ emitted t (o2 :: N1)) by (unfold P3; rewrite emitted_app, F2; reflexivity).
  assert (Ha2 : In a E2') by (eapply snoc_neq_in; [rewrite <- G2; exact F2|exact Hne]).
  assert (Ha3 : In a E3').
  { rewrite F3 in G3. symmetry in G3. rewrite <- app_assoc in G3. simpl in G3. apply app_snoc_inv in G3.
    destruct G3 as [(_ & Hx & _)|(X' & _ & ->)]; [congruence|]. apply in_or_app. left. exact Ha2. }
  assert (Hd : ~ NoDup (E3' ++ [a])).
  { intros Hn. apply NoDup_remove_2 in Hn. rewrite app_nil_r in Hn. tauto. }
  apply Hd. rewrite <- F3. rewrite EQ3, emitted_app in Hnd. apply NoDup_app_l in Hnd. exact Hnd.
Qed.

(* ---- the boolean checker for [serial] is exact ---- *)
Lemma serial_tail : forall x w, serial (x :: w) -> serial w.
Proof. intros x w H l1 a l2 b l3 E. apply (H (x :: l1) a l2 b l3). rewrite E. reflexivity. Qed.
Lemma in_after : forall (l2 : list ev) b l3 e r x, l2 ++ b :: l3 = e :: r -> In x l3 -> In x r.
Proof.
  intros l2 b l3 e r x E Hi. destruct l2 as [|y l2]; simpl in E; inversion E; subst; auto.
  apply in_or_app. right. right. exact Hi.
Qed.
Lemma serial_dup : forall c r, serial (c :: c :: r) <-> serial (c :: r).
Proof.
  intros c r. split; [apply serial_tail|].
  intros H l1 a l2 b l3 E Hne. destruct l1 as [|y l1]; simpl in E; inversion E; subst.
  - destruct l2 as [|y l2]; simpl in H2; inversion H2; subst; [congruence|].
    apply (H [] _ l2 b l3); auto.
  - apply (H l1 _ l2 b l3); auto.
Qed.

Lemma serial_go_spec : forall w c D, ~ In c D ->
  (serial_go (Some c) D w = true <-> serial (c :: w) /\ (forall x, In x D -> ~ In x w)).
Proof.
  induction w as [|e r IH]; intros c D Hc; simpl.
  - split; auto. intros _. split; auto. intros l1 a l2 b l3 E. exfalso.
    destruct l1 as [|y l1]; simpl in E; inversion E; [destruct l2; discriminate|destruct l1; discriminate].
  - destruct (Nat.eqb_spec c e) as [->|Hne].
    + rewrite (IH e D Hc), serial_dup. split; intros [H1 H2]; split; auto.
      * intros x Hx [<-|Hi]; [tauto|eapply H2; eauto].
      * intros x Hx Hi. apply (H2 x Hx). right. exact Hi.
    + rewrite andb_true_iff, negb_true_iff.
      assert (Hc' : ~ In e (c :: D) -> True) by auto.
      split.
      * intros [Hm Hg]. apply mem_nIn in Hm.
        assert (He : ~ In e (c :: D)) by (intros [Hx|Hx]; [congruence|tauto]).
        apply (IH e (c :: D) He) in Hg. destruct Hg as [Hs Hd]. split.
        -- intros l1 a l2 b l3 E Hab. destruct l1 as [|y l1]; simpl in E; inversion E; subst.
           ++ intros Hi. apply (Hd _ (or_introl eq_refl)). eapply in_after; eauto.
           ++ apply (Hs l1 a l2 b l3); auto.
        -- intros x Hx [<-|Hi]; [tauto|]. apply (Hd x (or_intror Hx) Hi).
      * intros [Hs Hd]. split; [apply mem_nIn; intros Hx; apply (Hd e Hx); left; reflexivity|].
        assert (He : ~ In e (c :: D)) by (intros [Hx|Hx]; [congruence|apply (Hd e Hx); left; reflexivity]).
        apply (IH e (c :: D) He). split; [eapply serial_tail; eauto|].
        intros x [Hx|Hx] Hi.
        -- subst x. apply (Hs [] c [] e r eq_refl Hne Hi).
        -- apply (Hd x Hx). right. exact Hi.
Qed.

Lemma serial_b_ok : forall w, serial_b w = true <-> serial w.
Proof.
  intros w. unfold serial_b. destruct w as [|e r]; simpl.
  - split; auto. intros _ l1 a l2 b l3 E. destruct l1; discriminate.
  - rewrite (serial_go_spec r e [] (fun H => H)). split; [tauto|]. intros H. split; auto.
Qed.
