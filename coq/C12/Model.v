(* C12/C13: executable LTS of the subscription half of v2/pkg/engine/resolve/resolve.go
   (trigger registry, subscriptionState guards, subscriptionUpdater, start goroutine, heartbeat,
   shutdown).  One model serves C12 and C13.  No proofs here.

   Granularity (DESIGN.md Appendix A): an instruction is a maximal code region in which the actor
   touches shared state only under one lock (R = Resolver.mu, T = trigger.mu, W_s = writeMu of
   subscription s) or through one atomic; the updater mutex U is held across yields and is explicit
   state.  A thread is a list of instructions; [IYield p] marks a verifYield call site / a gate of the
   harness (no effect in the model).  Go map iteration whose body contains a yield is a "pick" supplied
   by the environment; other map iterations use list order (the correspondence compares the
   observables of one release as a multiset).

   Writer calls are NOT atomic: a call on the subscriber's writer is an interval [OW s c] (the call
   is entered) ... [OWE s c] (it returns), with a parking point of the scheduler inside ([IYield PWr],
   owned by the harness' writer).  writeMu of subscription s is explicit state ([wlk]): every W_s
   region (writeError, the Write/Flush region of executeSubscriptionUpdate, complete()/error(),
   sendHeartbeat, and done() = close(completed_s)) blocks while another one holds it, and a writer
   region keeps it from the entry of its first call to the return of its last one ([IWCont]).

   [variant] selects the repaired code (main model, all three flags true) or the historical
   pre-repair transitions (only used for the *_refuted theorems). *)
From Coq Require Import List Bool Arith PeanoNat.
Import ListNotations.

Definition sid := nat.   (* subscription identifier (client chosen, never reused) *)
Definition tid := nat.   (* trigger instance (allocation order) *)
Definition key := nat.   (* trigger id = hash(input, headers); hash treated as injective *)
Definition ev := nat.    (* upstream event *)
Definition conn := nat.  (* ConnectionID *)

Inductive fres := FPass | FSkip | FErr.
Inductive wres := WOk | WFlushErr | WWriteErr.

Inductive wcall :=
| CWrite (e : ev) | CWriteFail (e : ev) | CFlush | CFlushFail
| CComplete | CError | CHeartbeat | CHeartbeatFail | CWriteError.

(* the second call of a two-call writeMu region: Flush after Write, WriteError after a failed Write *)
Inductive wnext := NFlush | NFlushFail | NWriteError.
Definition wn_call (n : wnext) : wcall :=
  match n with NFlush => CFlush | NFlushFail => CFlushFail | NWriteError => CWriteError end.

Inductive obs :=
| OW (s : sid) (c : wcall)          (* a call on the subscriber's writer (or AsyncErrorWriter on it) is entered *)
| OWE (s : sid) (c : wcall)         (* that call returns *)
| OClosed (s : sid)                 (* close(completed_s) *)
| OStart (t : tid) (k : key)        (* Source.Start called *)
| OCancel (t : tid)                 (* trigger ctx cancel func called *)
| OSubInc (n : nat) | OSubDec (n : nat) | OTrigInc (n : nat) | OTrigDec (n : nat)
(* ghost entries: never compared with the implementation *)
| GReg (s : sid) (t : tid)          (* s registered on trigger instance t *)
| GRemoved (s : sid)                (* removed_s CAS false->true succeeded *)
| GAccept (t : tid) (e : ev) (l : list sid)  (* event e passed the filter snapshot for subscribers l *)
| GMissed (s : sid) (e : ev)        (* an accepted event was dropped because removed_s was set *)
| GLeft (s : sid)                   (* a client asked for the removal of s after it was registered *)
| GEnd (t : tid).                   (* the source said Done, or start-up failed, for t *)

Inductive tname := TCl (n : nat) | TSt (s : sid) | TSrc (n : nat) | TCh (s : sid) | THb | TSh.

Inductive point :=
| PAddR | PUnsubR | PRmClientR | PShutR | PHbR | PInit0 | PInit1 | PDtuR | PUtR
| PUpdU | PUpdsubU | PCmplU | PErrU | PDoneU | PCloseU
| PX0 | PW | PCmplY | PErrY | PExtHook | PExtStart
| PWr.                              (* inside a writer call (harness-owned parking point) *)

Inductive cek := KComplete | KError.

(* operations of the SubscriptionUpdater interface *)
Inductive uop :=
| UUpdate (e : ev) | UUpdateSub (s : sid) (e : ev) | UCE (c : cek) | UDone | UClose (s : sid).

Inductive instr :=
| IYield (p : point)
(* client side *)
| IAddR (s : sid) (k : key) (c : conn) (hb : bool) (sync : bool)
| IWaitSync (s : sid)               (* select in ResolveGraphQLSubscription *)
| IWaitSync2 (s : sid)              (* inner select after ctx.Done *)
| IUnsubR (s : sid)
| IRmClientR (c : conn)
| ICancelCtx (s : sid)
| IShutCancel
| IShutR
| ICloseLoop (l : list sid)          (* closeSubs: done() on each of l; the slice was filled in Go map iteration order (a pick per element) *)
| ICancel (t : tid)
(* start goroutine / hook runner *)
| IHookJ (s : sid) (t : tid)
| IHookS (s : sid) (t : tid)
| IStart (s : sid) (t : tid)
| IFailSnap (t : tid)
| IWriteErr (s : sid)
| IErrLoop (l : list sid)            (* writeError to each of l, in Go map iteration order (a pick per element) *)
| IInit (t : tid)
| IInitOldStore (t : tid)           (* historical *)
| IDoneR (t : tid)
(* updater *)
| IULock (t : tid) (op : uop)
| IUUnlock (t : tid)
| IUpdLookup (t : tid) (e : ev)
| IUpdFilter (t : tid) (e : ev)
| ISpawn (t : tid) (e : ev) (l : list sid)
| IWait (t : tid)
| IUSLookup (t : tid) (s : sid) (e : ev)
| IUSFilter (t : tid) (s : sid) (e : ev)
| IKidLoad (t : tid) (s : sid) (e : ev) (inl : bool)   (* inl: called inline by UpdateSubscription, not a fan-out child *)
| IKidWrite (t : tid) (s : sid) (e : ev) (inl : bool)
| IKidDone (t : tid) (s : sid)
| ICELookup (t : tid) (c : cek)
| ICESnap (t : tid) (c : cek)
| ICELoop (c : cek) (rem : list sid)
| ICEWrite (s : sid) (c : cek)
(* heartbeat *)
| IHbIds (recent : list sid)
| IHbTrigs (ks : list key) (recent : list sid)
| IHbSnap (t : tid) (recent : list sid)
| IHbSubs (l : list sid)
| IHbTest (s : sid)                 (* executeSubscriptionHeartbeat: the context tests, outside writeMu *)
| IHbSend (s : sid)                 (* sendHeartbeat: writeMu, removed test, writer.Heartbeat *)
(* rest of a writeMu region of s after the entry of call c: c returns, then the call [more] (if any)
   is made (parking inside it too), then writeMu is released and, if [u], the caller goes on to
   UnsubscribeSubscription(s) *)
| IWCont (s : sid) (c : wcall) (more : option wnext) (u : bool).

Inductive ext := XNone | XOk | XFail | XEmit (e : ev) | XPick (n : nat).

Inductive clop :=
| CSub (s : sid) (k : key) (c : conn) (hb : bool) (sync : bool)
| CUnsub (s : sid) | CRmClient (c : conn) | CCancelCtx (s : sid) | CShutdown.

Inductive action :=
| AClient (n : nat) (op : clop)
| ASrc (n : nat) (t : tid) (op : uop)
| ATick (recent : list sid)
| AStep (th : tname) (x : ext).

Record variant := { fix_a : bool; fix_b : bool; fix_c : bool }.
Definition fixed : variant := {| fix_a := true; fix_b := true; fix_c := true |}.

Record sub := {
  s_key : key; s_tid : tid; s_conn : conn; s_hb : bool;
  s_removed : bool; s_closed : nat; s_ctxc : bool }.

Record trg := {
  t_key : key; t_subs : list sid; t_init : bool; t_cancelled : bool;
  t_done : bool; t_ulock : bool; t_wg : list sid; t_started : nat }.

Record state := {
  shut : bool; rctx : bool;
  reg : list (key * tid);          (* Resolver.triggers *)
  byid : list sid;                 (* Resolver.subscriptionsByID (and ...ByConnection, derived) *)
  allsubs : list sid;              (* every subscription ever registered *)
  subs : sid -> sub;
  ntrig : nat;
  trigs : tid -> trg;
  threads : list (tname * list instr);
  log : list obs;                  (* newest first *)
  wlk : list sid }.                (* subscriptions whose writeMu is held by a writer region in progress *)

Definition sub0 : sub :=
  {| s_key := 0; s_tid := 0; s_conn := 0; s_hb := false; s_removed := false; s_closed := 0; s_ctxc := false |}.
Definition trg0 : trg :=
  {| t_key := 0; t_subs := []; t_init := false; t_cancelled := false; t_done := false;
     t_ulock := false; t_wg := []; t_started := 0 |}.
Definition init : state :=
  {| shut := false; rctx := false; reg := []; byid := []; allsubs := []; subs := fun _ => sub0;
     ntrig := 0; trigs := fun _ => trg0; threads := []; log := []; wlk := [] |}.

(* ---- small helpers ---- *)
Definition tname_eqb (a b : tname) : bool :=
  match a, b with
  | TCl n, TCl m => n =? m | TSt n, TSt m => n =? m | TSrc n, TSrc m => n =? m
  | TCh n, TCh m => n =? m | THb, THb => true | TSh, TSh => true | _, _ => false
  end.

Definition mem (x : nat) (l : list nat) : bool := existsb (Nat.eqb x) l.
Definition rem (x : nat) (l : list nat) : list nat := filter (fun y => negb (y =? x)) l.

Fixpoint lookup_reg (k : key) (r : list (key * tid)) : option tid :=
  match r with
  | [] => None
  | (k', t) :: r' => if k' =? k then Some t else lookup_reg k r'
  end.
Definition unreg_key (k : key) (r : list (key * tid)) : list (key * tid) :=
  filter (fun p => negb (fst p =? k)) r.

Fixpoint lookup_thr (n : tname) (l : list (tname * list instr)) : option (list instr) :=
  match l with
  | [] => None
  | (m, p) :: l' => if tname_eqb m n then Some p else lookup_thr n l'
  end.
Fixpoint set_thr (n : tname) (p : list instr) (l : list (tname * list instr)) : list (tname * list instr) :=
  match l with
  | [] => []
  | (m, q) :: l' => if tname_eqb m n then (match p with [] => l' | _ => (m, p) :: l' end) else (m, q) :: set_thr n p l'
  end.

Definition upd {A} (f : nat -> A) (x : nat) (v : A) : nat -> A := fun y => if y =? x then v else f y.

(* state setters *)
Definition st_log (st : state) (o : list obs) : state :=
  {| shut := shut st; rctx := rctx st; reg := reg st; byid := byid st; allsubs := allsubs st; subs := subs st;
     ntrig := ntrig st; trigs := trigs st; threads := threads st; log := o ++ log st; wlk := wlk st |}.
Definition st_sub (st : state) (s : sid) (v : sub) : state :=
  {| shut := shut st; rctx := rctx st; reg := reg st; byid := byid st; allsubs := allsubs st; subs := upd (subs st) s v;
     ntrig := ntrig st; trigs := trigs st; threads := threads st; log := log st; wlk := wlk st |}.
Definition st_trg (st : state) (t : tid) (v : trg) : state :=
  {| shut := shut st; rctx := rctx st; reg := reg st; byid := byid st; allsubs := allsubs st; subs := subs st;
     ntrig := ntrig st; trigs := upd (trigs st) t v; threads := threads st; log := log st; wlk := wlk st |}.
Definition st_reg (st : state) (r : list (key * tid)) : state :=
  {| shut := shut st; rctx := rctx st; reg := r; byid := byid st; allsubs := allsubs st; subs := subs st;
     ntrig := ntrig st; trigs := trigs st; threads := threads st; log := log st; wlk := wlk st |}.
Definition st_byid (st : state) (l : list sid) : state :=
  {| shut := shut st; rctx := rctx st; reg := reg st; byid := l; allsubs := allsubs st; subs := subs st;
     ntrig := ntrig st; trigs := trigs st; threads := threads st; log := log st; wlk := wlk st |}.
Definition st_threads (st : state) (l : list (tname * list instr)) : state :=
  {| shut := shut st; rctx := rctx st; reg := reg st; byid := byid st; allsubs := allsubs st; subs := subs st;
     ntrig := ntrig st; trigs := trigs st; threads := l; log := log st; wlk := wlk st |}.
Definition st_flags (st : state) (sh rc : bool) : state :=
  {| shut := sh; rctx := rc; reg := reg st; byid := byid st; allsubs := allsubs st; subs := subs st;
     ntrig := ntrig st; trigs := trigs st; threads := threads st; log := log st; wlk := wlk st |}.

Definition st_wl (st : state) (l : list sid) : state :=
  {| shut := shut st; rctx := rctx st; reg := reg st; byid := byid st; allsubs := allsubs st; subs := subs st;
     ntrig := ntrig st; trigs := trigs st; threads := threads st; log := log st; wlk := l |}.

Definition sub_set_removed (v : sub) : sub :=
  {| s_key := s_key v; s_tid := s_tid v; s_conn := s_conn v; s_hb := s_hb v;
     s_removed := true; s_closed := s_closed v; s_ctxc := s_ctxc v |}.
Definition sub_set_closed (v : sub) : sub :=
  {| s_key := s_key v; s_tid := s_tid v; s_conn := s_conn v; s_hb := s_hb v;
     s_removed := s_removed v; s_closed := S (s_closed v); s_ctxc := s_ctxc v |}.
Definition sub_set_ctxc (v : sub) : sub :=
  {| s_key := s_key v; s_tid := s_tid v; s_conn := s_conn v; s_hb := s_hb v;
     s_removed := s_removed v; s_closed := s_closed v; s_ctxc := true |}.

Definition trg_set_subs (v : trg) (l : list sid) : trg :=
  {| t_key := t_key v; t_subs := l; t_init := t_init v; t_cancelled := t_cancelled v; t_done := t_done v;
     t_ulock := t_ulock v; t_wg := t_wg v; t_started := t_started v |}.
Definition trg_set_init (v : trg) : trg :=
  {| t_key := t_key v; t_subs := t_subs v; t_init := true; t_cancelled := t_cancelled v; t_done := t_done v;
     t_ulock := t_ulock v; t_wg := t_wg v; t_started := t_started v |}.
Definition trg_set_cancelled (v : trg) : trg :=
  {| t_key := t_key v; t_subs := t_subs v; t_init := t_init v; t_cancelled := true; t_done := t_done v;
     t_ulock := t_ulock v; t_wg := t_wg v; t_started := t_started v |}.
Definition trg_set_done (v : trg) : trg :=
  {| t_key := t_key v; t_subs := t_subs v; t_init := t_init v; t_cancelled := t_cancelled v; t_done := true;
     t_ulock := t_ulock v; t_wg := t_wg v; t_started := t_started v |}.
Definition trg_set_ulock (v : trg) (b : bool) : trg :=
  {| t_key := t_key v; t_subs := t_subs v; t_init := t_init v; t_cancelled := t_cancelled v; t_done := t_done v;
     t_ulock := b; t_wg := t_wg v; t_started := t_started v |}.
Definition trg_set_wg (v : trg) (l : list sid) : trg :=
  {| t_key := t_key v; t_subs := t_subs v; t_init := t_init v; t_cancelled := t_cancelled v; t_done := t_done v;
     t_ulock := t_ulock v; t_wg := l; t_started := t_started v |}.
Definition trg_inc_started (v : trg) : trg :=
  {| t_key := t_key v; t_subs := t_subs v; t_init := t_init v; t_cancelled := t_cancelled v; t_done := t_done v;
     t_ulock := t_ulock v; t_wg := t_wg v; t_started := S (t_started v) |}.

Definition emit (st : state) (chron : list obs) : state := st_log st (rev chron).

(* ---- registry regions (all under Resolver.mu) ---- *)
Record rmres := { rr_n : nat; rr_close : list sid; rr_cancel : list tid; rr_dec : nat }.
Definition rm0 : rmres := {| rr_n := 0; rr_close := []; rr_cancel := []; rr_dec := 0 |}.
Definition rm_add (a b : rmres) : rmres :=
  {| rr_n := rr_n a + rr_n b; rr_close := rr_close a ++ rr_close b;
     rr_cancel := rr_cancel a ++ rr_cancel b; rr_dec := rr_dec a + rr_dec b |}.

Definition unregister (st : state) (s : sid) : state := st_byid st (rem s (byid st)).

(* s.removed.CompareAndSwap(false, true) *)
Definition cas_removed (st : state) (s : sid) : state * list sid :=
  if s_removed (subs st s) then (st, [])
  else (st_log (st_sub st s (sub_set_removed (subs st s))) [GRemoved s], [s]).

(* removeSubscriptionLocked *)
Definition remove_locked (st : state) (s : sid) : state * rmres :=
  if negb (mem s (byid st)) then (st, rm0) else
  match lookup_reg (s_key (subs st s)) (reg st) with
  | None => (unregister st s, rm0)
  | Some t =>
    let tr := trigs st t in
    if negb (mem s (t_subs tr)) then (unregister st s, rm0) else
    let (st1, cl) := cas_removed st s in
    let l' := rem s (t_subs tr) in
    let st2 := unregister (st_trg st1 t (trg_set_subs (trigs st1 t) l')) s in
    match l' with
    | [] => (st_reg st2 (unreg_key (t_key tr) (reg st2)),
             {| rr_n := 1; rr_close := cl; rr_cancel := [t]; rr_dec := if t_init tr then 1 else 0 |})
    | _ :: _ => (st2, {| rr_n := 1; rr_close := cl; rr_cancel := []; rr_dec := 0 |})
    end
  end.

Fixpoint detach_subs (st : state) (l : list sid) : state * list sid :=
  match l with
  | [] => (st, [])
  | s :: l' =>
    let (st1, c1) := cas_removed st s in
    let (st2, c2) := detach_subs (unregister st1 s) l' in
    (st2, c1 ++ c2)
  end.

(* detachTriggerLocked for the registered trigger instance t *)
Definition detach_locked (st : state) (t : tid) : state * rmres :=
  let tr := trigs st t in
  let (st1, cl) := detach_subs st (t_subs tr) in
  let st2 := st_trg st1 t (trg_set_subs (trigs st1 t) []) in
  (st_reg st2 (unreg_key (t_key tr) (reg st2)),
   {| rr_n := length (t_subs tr); rr_close := cl; rr_cancel := [t]; rr_dec := if t_init tr then 1 else 0 |}).

Fixpoint remove_many (st : state) (l : list sid) : state * rmres :=
  match l with
  | [] => (st, rm0)
  | s :: l' =>
    let (st1, r1) := remove_locked st s in
    let (st2, r2) := remove_many st1 l' in
    (st2, rm_add r1 r2)
  end.

Fixpoint detach_many (st : state) (l : list tid) : state * rmres :=
  match l with
  | [] => (st, rm0)
  | t :: l' =>
    let (st1, r1) := detach_locked st t in
    let (st2, r2) := detach_many st1 l' in
    (st2, rm_add r1 r2)
  end.

Definition closel (l : list sid) : list (list sid) := match l with [] => [] | _ => [l] end.
Definition after_remove (r : rmres) : list instr := map ICloseLoop (closel (rr_close r)) ++ map ICancel (rr_cancel r).
Definition dec_obs (r : rmres) : list obs :=
  OSubDec (rr_n r) :: (if rr_dec r =? 0 then [] else [OTrigDec (rr_dec r)]).

Definition of_conn (st : state) (c : conn) (l : list sid) : list sid :=
  filter (fun s => s_conn (subs st s) =? c) l.

(* ---- programs ---- *)
Definition uyield (op : uop) : point :=
  match op with
  | UUpdate _ => PUpdU | UUpdateSub _ _ => PUpdsubU | UCE KComplete => PCmplU | UCE KError => PErrU
  | UDone => PDoneU | UClose _ => PCloseU
  end.
Definition ubody (t : tid) (op : uop) : list instr :=
  match op with
  | UUpdate e => [IYield PUtR; IUpdLookup t e]
  | UUpdateSub s e => [IYield PUtR; IUSLookup t s e]
  | UCE c => [IYield PUtR; ICELookup t c]
  | UDone => [IYield PDtuR; IDoneR t]
  | UClose s => [IYield PUnsubR; IUnsubR s]
  end.
Definition uprog (t : tid) (op : uop) : list instr := [IYield (uyield op); IULock t op].
Definition unsub_prog (s : sid) : list instr := [IYield PUnsubR; IUnsubR s].
Definition clprog (op : clop) : list instr :=
  match op with
  | CSub s k c hb sync => [IYield PAddR; IAddR s k c hb sync]
  | CUnsub s => unsub_prog s
  | CRmClient c => [IYield PRmClientR; IRmClientR c]
  | CCancelCtx s => [ICancelCtx s]
  | CShutdown => [IShutCancel]
  end.
Definition cey (c : cek) : point := match c with KComplete => PCmplY | KError => PErrY end.
Definition cecall (c : cek) : wcall := match c with KComplete => CComplete | KError => CError end.
Definition celoop (c : cek) (l : list sid) : list instr := match l with [] => [] | _ => [ICELoop c l] end.
Definition hbtrigs (ks : list key) (recent : list sid) : list instr := match ks with [] => [] | _ => [IHbTrigs ks recent] end.
Definition hbsubs (l : list sid) : list instr := match l with [] => [] | _ => [IHbSubs l] end.
Definition errloop (l : list sid) : list instr := match l with [] => [] | _ => [IErrLoop l] end.

(* writeMu of s: held / acquire + enter call c / what follows the entry of a call *)
Definition wheld (st : state) (s : sid) : bool := mem s (wlk st).
Definition wcont (s : sid) (c : wcall) (more : option wnext) (u : bool) : list instr := [IYield PWr; IWCont s c more u].
Definition wenter (st : state) (s : sid) (c : wcall) : state := st_log (st_wl st (s :: wlk st)) [OW s c].

Section Exec.
  Variable v : variant.
  Variable flt : sid -> ev -> fres.        (* SubscriptionFilter.SkipEvent of subscriber s on event e *)
  Variable wresf : sid -> ev -> wres.      (* outcome of Write/Flush of event e on the writer of s *)
  Variable ev_bad : ev -> bool.            (* InitSubscription / load fails for this event *)
  Variable hbfail : sid -> bool.           (* writer.Heartbeat() of s returns an error *)

  Definition exres := option (state * list instr * list (tname * list instr)).
  Definition ret (st : state) (push : list instr) : exres := Some (st, push, []).

  (* trigger.evalFilter over a list of subscribers: (passing, filter errors) *)
  Fixpoint eval_filter (st : state) (e : ev) (l : list sid) : list sid * list sid :=
    match l with
    | [] => ([], [])
    | s :: l' =>
      let (p, f) := eval_filter st e l' in
      if s_ctxc (subs st s) then (p, f)
      else match flt s e with FPass => (s :: p, f) | FSkip => (p, f) | FErr => (p, s :: f) end
    end.

  Definition is_reg (st : state) (t : tid) : bool :=
    match lookup_reg (t_key (trigs st t)) (reg st) with Some t' => t' =? t | None => false end.

  Definition exec (st : state) (i : instr) (x : ext) : exres :=
    match i, x with
    | IYield _, XNone => ret st []

    (* addSubscription: one Resolver.mu region, then go func *)
    | IAddR s k c hb sync, XNone =>
      if mem s (allsubs st) then None            (* precondition: identifiers are never reused *)
      else if shut st then ret st []
      else
        let after := if sync then [IWaitSync s] else [] in
        match lookup_reg k (reg st) with
        | Some t =>
          let sb := {| s_key := k; s_tid := t; s_conn := c; s_hb := hb; s_removed := false; s_closed := 0; s_ctxc := s_ctxc (subs st s) |} in
          let st1 := st_sub st s sb in
          let st2 := st_trg st1 t (trg_set_subs (trigs st1 t) (t_subs (trigs st1 t) ++ [s])) in
          let st3 := {| shut := shut st2; rctx := rctx st2; reg := reg st2; byid := byid st2 ++ [s];
                        allsubs := s :: allsubs st2; subs := subs st2; ntrig := ntrig st2; trigs := trigs st2;
                        threads := threads st2; log := log st2; wlk := wlk st2 |} in
          Some (emit st3 [OSubInc 1; GReg s t], after, [(TSt s, [IYield PExtHook; IHookJ s t])])
        | None =>
          let t := ntrig st in
          let sb := {| s_key := k; s_tid := t; s_conn := c; s_hb := hb; s_removed := false; s_closed := 0; s_ctxc := s_ctxc (subs st s) |} in
          let tr := {| t_key := k; t_subs := [s]; t_init := false; t_cancelled := false; t_done := false;
                       t_ulock := false; t_wg := []; t_started := 0 |} in
          let st3 := {| shut := shut st; rctx := rctx st; reg := reg st ++ [(k, t)]; byid := byid st ++ [s];
                        allsubs := s :: allsubs st; subs := upd (subs st) s sb; ntrig := S t;
                        trigs := upd (trigs st) t tr; threads := threads st; log := log st; wlk := wlk st |} in
          Some (emit st3 [GReg s t; OSubInc 1], after, [(TSt s, [IYield PExtHook; IHookS s t])])
        end

    (* ResolveGraphQLSubscription select: 0 = ctx.Done, 1 = r.ctx.Done, 2 = completed *)
    | IWaitSync s, XPick 0 =>
      if s_ctxc (subs st s) then ret st (unsub_prog s ++ [IWaitSync2 s]) else None
    | IWaitSync s, XPick 1 => if rctx st then ret st [] else None
    | IWaitSync s, XPick 2 => if 0 <? s_closed (subs st s) then ret st (unsub_prog s) else None
    | IWaitSync2 s, XPick 1 => if rctx st then ret st [] else None
    | IWaitSync2 s, XPick 2 => if 0 <? s_closed (subs st s) then ret st (unsub_prog s) else None

    (* UnsubscribeSubscription *)
    | IUnsubR s, XNone =>
      if shut st then ret st []
      else
        let st0 := st_log st (if mem s (allsubs st) then [GLeft s] else []) in
        let (st1, r) := remove_locked st0 s in
        ret (emit st1 (dec_obs r)) (after_remove r)

    (* removeClient *)
    | IRmClientR c, XNone =>
      if shut st then ret st []
      else
        let st0 := st_log st (map GLeft (of_conn st c (allsubs st))) in
        let (st1, r) := remove_many st0 (of_conn st c (byid st)) in
        ret (emit st1 (dec_obs r)) (after_remove r)

    | ICancelCtx s, XNone => ret (st_sub st s (sub_set_ctxc (subs st s))) []

    | IShutCancel, XNone =>
      if rctx st then ret st []
      else Some (st_flags st (shut st) true, [], [(TSh, [IYield PShutR; IShutR])])

    | IShutR, XNone =>
      if shut st then ret st []
      else
        let (st1, r) := detach_many (st_flags st true (rctx st)) (map snd (reg st)) in
        ret (emit (st_byid (st_reg st1 []) []) (dec_obs r)) (after_remove r)

    (* closeSubs / done(): close(completed_s) under writeMu -- waits for a writer region in progress *)
    | ICloseLoop l, XPick s =>
      if negb (mem s l) then None
      else if wheld st s then None
      else ret (st_log (st_sub st s (sub_set_closed (subs st s))) [OClosed s]) (map ICloseLoop (closel (rem s l)))
    | ICancel t, XNone => ret (st_log (st_trg st t (trg_set_cancelled (trigs st t))) [OCancel t]) []

    (* hook runner of a joiner *)
    | IHookJ s t, XOk => ret st []
    | IHookJ s t, XEmit e => ret st (uprog t (UUpdateSub s e))
    | IHookJ s t, XFail => ret st (IWriteErr s :: unsub_prog s)
    (* start goroutine *)
    | IHookS s t, XOk => ret st [IYield PExtStart; IStart s t]
    | IHookS s t, XEmit e => ret st (uprog t (UUpdateSub s e) ++ [IYield PExtStart; IStart s t])
    | IHookS s t, XFail => ret st [IFailSnap t]
    | IStart s t, XOk =>
      ret (st_log (st_trg st t (trg_inc_started (trigs st t))) [OStart t (t_key (trigs st t))]) [IYield PInit0; IInit t]
    | IStart s t, XFail =>
      ret (st_log (st_trg st t (trg_inc_started (trigs st t))) [OStart t (t_key (trigs st t))]) [IFailSnap t]
    | IFailSnap t, XNone =>
      ret (st_log st [GEnd t]) (errloop (t_subs (trigs st t)) ++ [IYield PDtuR; IDoneR t])
    | IErrLoop l, XPick s =>
      if negb (mem s l) then None else ret st (IWriteErr s :: errloop (rem s l))
    | IWriteErr s, XNone =>
      if wheld st s then None
      else if s_removed (subs st s) then ret st []
      else ret (wenter st s CWriteError) (wcont s CWriteError None false)

    (* markTriggerInitialized *)
    | IInit t, XNone =>
      if fix_b v then
        if is_reg st t then ret (st_log (st_trg st t (trg_set_init (trigs st t))) [OTrigInc 1]) [] else ret st []
      else (* historical: getTrigger(id) under Resolver.mu, then the store and the report outside *)
        match lookup_reg (t_key (trigs st t)) (reg st) with
        | Some t' => ret st [IYield PInit1; IInitOldStore t']
        | None => ret st []
        end
    | IInitOldStore t, XNone => ret (st_log (st_trg st t (trg_set_init (trigs st t))) [OTrigInc 1]) []

    (* doneTriggerFromUpdater *)
    | IDoneR t, XNone =>
      let found := if fix_c v then (if is_reg st t then Some t else None)
                   else lookup_reg (t_key (trigs st t)) (reg st) in   (* historical: by id only *)
      match found with
      | Some t' => let (st1, r) := detach_locked st t' in ret (emit st1 (dec_obs r)) (after_remove r)
      | None => ret (emit st [OSubDec 0]) []
      end

    (* subscriptionUpdater methods: mu.Lock, done / ctx test *)
    | IULock t op, XNone =>
      let tr := trigs st t in
      if t_ulock tr then None
      else
        let st1 := st_trg st t (trg_set_ulock tr true) in
        match op with
        | UDone =>
          if t_done tr then ret st1 [IUUnlock t]
          else ret (st_log (st_trg st t (trg_set_done (trg_set_ulock tr true))) [GEnd t]) (ubody t op ++ [IUUnlock t])
        | _ =>
          if t_done tr || t_cancelled tr then ret st1 [IUUnlock t]
          else ret st1 (ubody t op ++ [IUUnlock t])
        end
    | IUUnlock t, XNone => ret (st_trg st t (trg_set_ulock (trigs st t) false)) []

    (* handleTriggerUpdate *)
    | IUpdLookup t e, XNone => if is_reg st t then ret st [IUpdFilter t e] else ret st []
    | IUpdFilter t e, XNone =>
      let (p, f) := eval_filter st e (t_subs (trigs st t)) in
      ret (st_log st [GAccept t e p]) (errloop f ++ [ISpawn t e p])
    | ISpawn t e l, XNone =>
      let kids := filter (fun s => negb (s_removed (subs st s))) l in
      let gone := filter (fun s => s_removed (subs st s)) l in
      Some (st_log (st_trg st t (trg_set_wg (trigs st t) kids)) (map (fun s => GMissed s e) gone),
            [IWait t],
            map (fun s => (TCh s, [IYield PX0; IKidLoad t s e false; IKidDone t s])) kids)
    | IWait t, XNone => match t_wg (trigs st t) with [] => ret st [] | _ :: _ => None end

    (* handleUpdateSubscription *)
    | IUSLookup t s e, XNone => if is_reg st t then ret st [IUSFilter t s e] else ret st []
    | IUSFilter t s e, XNone =>
      if negb (mem s (t_subs (trigs st t))) then ret st []
      else if s_ctxc (subs st s) then ret st []
      else match flt s e with
           | FSkip => ret st []
           | FErr => ret st [IWriteErr s]
           | FPass =>
             if s_removed (subs st s) then ret (st_log st [GMissed s e; GAccept t e [s]]) []
             else ret (st_log st [GAccept t e [s]]) [IYield PX0; IKidLoad t s e true]
           end

    (* executeSubscriptionUpdate *)
    | IKidLoad t s e il, XNone =>
      if ev_bad e then ret st [IWriteErr s] else ret st [IYield PW; IKidWrite t s e il]
    | IKidWrite t s e il, XNone =>
      if wheld st s then None
      else if s_removed (subs st s) then ret (st_log st [GMissed s e]) []
      else match wresf s e with
           | WOk => ret (wenter st s (CWrite e)) (wcont s (CWrite e) (Some NFlush) false)
           | WFlushErr => ret (wenter st s (CWrite e)) (wcont s (CWrite e) (Some NFlushFail) true)
           | WWriteErr => ret (wenter st s (CWriteFail e)) (wcont s (CWriteFail e) (Some NWriteError) false)
           end
    | IKidDone t s, XNone => ret (st_trg st t (trg_set_wg (trigs st t) (rem s (t_wg (trigs st t))))) []

    (* handleTriggerComplete / handleTriggerError *)
    | ICELookup t c, XNone =>
      if fix_c v then (if is_reg st t then ret st [ICESnap t c] else ret st [])
      else match lookup_reg (t_key (trigs st t)) (reg st) with
           | Some t' => ret st [ICESnap t' c]
           | None => ret st []
           end
    | ICESnap t c, XNone => ret st (celoop c (t_subs (trigs st t)))
    | ICELoop c l, XPick s =>
      if negb (mem s l) then None
      else if s_removed (subs st s) then ret st (celoop c (rem s l))
      else ret st ([IYield (cey c); ICEWrite s c] ++ celoop c (rem s l))
    | ICEWrite s c, XNone =>
      if wheld st s then None
      else if fix_a v && s_removed (subs st s) then ret st []
      else ret (wenter st s (cecall c)) (wcont s (cecall c) None false)     (* historical: no re-test under writeMu *)

    (* heartbeat loop *)
    | IHbIds recent, XNone => ret st (hbtrigs (map fst (reg st)) recent)
    | IHbTrigs ks recent, XPick k =>
      if negb (mem k ks) then None
      else match lookup_reg k (reg st) with
           | Some t => ret st (IHbSnap t recent :: hbtrigs (rem k ks) recent)
           | None => ret st (hbtrigs (rem k ks) recent)
           end
    | IHbSnap t recent, XNone =>
      ret st (hbsubs (filter (fun s => s_hb (subs st s) && negb (s_removed (subs st s)) && negb (mem s recent))
                             (t_subs (trigs st t))))
    | IHbSubs l, XPick s =>
      if negb (mem s l) then None else ret st (IHbTest s :: hbsubs (rem s l))
    | IHbTest s, XNone =>
      if rctx st || s_ctxc (subs st s) then ret st [] else ret st [IHbSend s]
    | IHbSend s, XNone =>
      if wheld st s then None
      else if s_removed (subs st s) then ret st []
      else if hbfail s then ret (wenter st s CHeartbeatFail) (wcont s CHeartbeatFail None true)
      else ret (wenter st s CHeartbeat) (wcont s CHeartbeat None false)

    (* inside a writeMu region: the call in progress returns; next call of the region, or unlock *)
    | IWCont s c more u, XNone =>
      match more with
      | None => ret (st_log (st_wl st (rem s (wlk st))) [OWE s c]) (if u then unsub_prog s else [])
      | Some n => ret (emit st [OWE s c; OW s (wn_call n)]) (wcont s (wn_call n) None u)
      end

    | _, _ => None
    end.

  Definition has_thr (n : tname) (st : state) : bool :=
    match lookup_thr n (threads st) with Some _ => true | None => false end.

  Definition spawn (st : state) (n : tname) (p : list instr) : option state :=
    if has_thr n st then None else
    match p with
    | [] => Some st
    | _ => Some (st_threads st (threads st ++ [(n, p)]))
    end.

  Definition step (st : state) (a : action) : option state :=
    match a with
    | AClient n op => spawn st (TCl n) (clprog op)
    | ASrc n t op => if t <? ntrig st then spawn st (TSrc n) (uprog t op) else None
    | ATick recent => spawn st THb [IYield PHbR; IHbIds recent]
    | AStep th x =>
      match lookup_thr th (threads st) with
      | Some (i :: rest) =>
        match exec st i x with
        | Some (st1, push, sp) => Some (st_threads st1 (set_thr th (push ++ rest) (threads st1) ++ sp))
        | None => None
        end
      | _ => None
      end
    end.

  Fixpoint run (st : state) (l : list action) : option state :=
    match l with
    | [] => Some st
    | a :: l' => match step st a with Some st' => run st' l' | None => None end
    end.
End Exec.

(* what a parked thread is waiting at (None: it is inside a region sequence, not at a yield) *)
Definition at_yield (p : list instr) : option point :=
  match p with IYield q :: _ => Some q | _ => None end.

Definition reg_sizes (st : state) : nat * nat * nat :=
  (length (reg st), length (byid st), length (nodup Nat.eq_dec (map (fun s => s_conn (subs st s)) (byid st)))).
