(* C12: final forms (explicit action lists), checker correctness, historical refutation, examples. *)
From Gv Require Import C12.Model C12.Spec C12.ProofsBase C12.ProofsReg C12.ProofsC12 C12.ProofsDeliv C12.ProofsOrder C12.Witness.
From Coq Require Import List Bool Arith PeanoNat Lia.
Import ListNotations.

(* ---- the boolean checkers are exact (no_write_after_completed_b_ok, writes_exclusive_b_ok: ProofsC12) ---- *)
Lemma completed_once_b_ok : forall l, completed_once_b l = true <-> completed_once l.
Proof. intros. unfold completed_once_b, completed_once. apply nodup_b_true. Qed.

(* ---- final forms ---- *)
Section Final.
  Variable flt : sid -> ev -> fres.
  Variable wresf : sid -> ev -> wres.
  Variable ev_bad : ev -> bool.
  Variable hbfail : sid -> bool.
  Notation runf := (run fixed flt wresf ev_bad hbfail init).
  Notation stepf := (step fixed flt wresf ev_bad hbfail).

  Lemma reach_of_run : forall acts st, runf acts = Some st -> reachable fixed flt wresf ev_bad hbfail st.
  Proof. intros. exists acts. auto. Qed.

  Lemma final_no_write_after_completed : forall acts st, runf acts = Some st -> no_write_after_completed (chron st).
  Proof. intros. eapply no_write_after_completed_holds, reach_of_run; eauto. Qed.

  Lemma final_completed_once : forall acts st, runf acts = Some st -> completed_once (chron st).
  Proof. intros. eapply completed_once_holds, reach_of_run; eauto. Qed.

  Lemma final_writes_exclusive : forall acts st, runf acts = Some st ->
    writes_exclusive (chron st) /\
    (forall s, nw s (chron st) = nwe s (chron st) + (if mem s (wlk st) then 1 else 0)) /\
    (forall th x st' s, stepf st (AStep th x) = Some st' ->
       nwc s (log st') <> nwc s (log st) ->
       exists i rest, lookup_thr th (threads st) = Some (i :: rest) /\ w_region i = Some s).
  Proof.
    intros acts st Hr. split; [eapply writes_exclusive_log_holds, reach_of_run; eauto|].
    split; [intros s; eapply wlock_holds, reach_of_run; eauto|].
    intros th x st' s Hs Hn.
    assert (HR : RG st) by (eapply RG_reachable, reach_of_run; eauto).
    apply step_AStep in Hs. destruct Hs as (i & rest & st1 & push & sp & Hl & He & ->). simpl in Hn.
    exists i, rest. split; auto. eapply writes_exclusive_holds; eauto.
  Qed.

  Lemma final_delivery_order : forall acts st s, runf acts = Some st ->
    exists missed inflight,
      acc ev_bad s (chron st) = writes_of s (chron st) ++ missed ++ inflight /\
      (s_removed (subs st s) = false -> missed = []) /\
      length inflight <= 1 /\
      (cnt (nfa ev_bad s) (threads st) = 0 -> inflight = []) /\
      Forall (fun e => flt s e = FPass /\ ev_bad e = false) (acc ev_bad s (chron st)).
  Proof. intros. eapply delivery_order_holds, reach_of_run; eauto. Qed.

  Lemma final_fanout_serial : forall acts st, runf acts = Some st ->
    fanout_serial (fun s => s_tid (subs st s)) (chron st) /\
    (forall s, subseq (writes_of s (chron st)) (emitted (s_tid (subs st s)) (chron st))) /\
    (forall t, NoDup (emitted t (chron st)) -> serial (gwrites (fun s => s_tid (subs st s)) t (chron st))).
  Proof.
    intros acts st Hr. pose proof (reach_of_run _ _ Hr) as H.
    split; [apply (fanout_serial_holds flt wresf ev_bad hbfail); exact H|].
    split; [intros s; apply (same_order_holds flt wresf ev_bad hbfail); exact H|].
    intros t Hnd. apply serial_of_fanout; auto. apply (fanout_serial_holds flt wresf ev_bad hbfail); exact H.
  Qed.
End Final.

(* ---- historical (pre-repair) transitions: the property fails ---- *)
Lemma no_write_after_completed_refuted_proof :
  exists acts st, run hist_a flt0 wres0 bad0 hb0 init acts = Some st /\ ~ no_write_after_completed (chron st).
Proof.
  assert (H : exists st, run hist_a flt0 wres0 bad0 hb0 init wit_a = Some st /\ no_write_after_completed_b (chron st) = false).
  { eexists. split; [vm_compute; reflexivity|vm_compute; reflexivity]. }
  destruct H as [st [H1 H2]]. exists wit_a, st. split; auto.
  intros H. apply no_write_after_completed_b_ok in H. congruence.
Qed.

(* ---- examples: the hypotheses of the theorems are met by non-trivial runs ---- *)
(* two goroutines of one source: Update(7) is parked inside the Write to subscriber 1 when Update(8) is
   called; the second call waits for the updater mutex (no step of it is enabled) *)
Lemma second_update_waits :
  exists st, run fixed flt0 wres0 bad0 hb0 init ex_two_updates = Some st /\
    step fixed flt0 wres0 bad0 hb0 st (AStep (TSrc 4) XNone) = None /\
    mem 1 (wlk st) = true /\ emitted 0 (chron st) = [7] /\ writes_of 1 (chron st) = [7] /\ writes_of 2 (chron st) = [].
Proof. eexists. split; [vm_compute; reflexivity|]. repeat split; vm_compute; reflexivity. Qed.

(* a writer call in progress keeps close(completed) waiting *)
Lemma close_waits_for_writer :
  exists st, run fixed flt0 wres0 bad0 hb0 init ex_close_waits = Some st /\
    mem 1 (wlk st) = true /\ s_removed (subs st 1) = true /\
    lookup_thr (TCl 4) (threads st) = Some [ICloseLoop [1]; ICancel 0] /\
    step fixed flt0 wres0 bad0 hb0 st (AStep (TCl 4) (XPick 1)) = None.
Proof. eexists. split; [vm_compute; reflexivity|]. repeat split; vm_compute; reflexivity. Qed.

Lemma example_run_proof :
  exists st, run fixed flt0 wres0 bad0 hb0 init ex_run = Some st /\
    threads st = [] /\ writes_of 1 (chron st) = [7] /\ writes_of 2 (chron st) = [7; 8] /\
    acc bad0 1 (chron st) = [7] /\ acc bad0 2 (chron st) = [7; 8] /\ closes (chron st) = [1; 2].
Proof. eexists. split; [vm_compute; reflexivity|]. repeat split; vm_compute; reflexivity. Qed.
