(* C12: final forms (explicit action lists), checker correctness, historical refutation, examples. *)
From Gv Require Import C12.Model C12.Spec C12.ProofsBase C12.ProofsReg C12.ProofsC12 C12.ProofsDeliv C12.Witness.
From Coq Require Import List Bool Arith PeanoNat Lia.
Import ListNotations.

(* ---- the boolean checker is exact ---- *)
Lemma NW_cons_closed : forall s r,
  no_write_after_completed (OClosed s :: r) <-> ((forall c, ~ In (OW s c) r) /\ no_write_after_completed r).
Proof.
  unfold no_write_after_completed. intros s r. split.
  - intros H. split.
    + intros c. apply (H [] r s c eq_refl).
    + intros l1 l2 s' c Heq. apply (H (OClosed s :: l1) l2 s' c). rewrite Heq. reflexivity.
  - intros [H1 H2] l1 l2 s' c Heq. destruct l1 as [|o l1]; simpl in Heq; inversion Heq; subst.
    + apply H1.
    + eapply H2; eauto.
Qed.
Lemma NW_cons_other : forall o r, (forall s, o <> OClosed s) ->
  (no_write_after_completed (o :: r) <-> no_write_after_completed r).
Proof.
  unfold no_write_after_completed. intros o r Ho. split.
  - intros H l1 l2 s c Heq. apply (H (o :: l1) l2 s c). rewrite Heq. reflexivity.
  - intros H l1 l2 s c Heq. destruct l1 as [|o' l1]; simpl in Heq; inversion Heq; subst.
    + exfalso. eapply Ho; eauto.
    + eapply H; eauto.
Qed.

Lemma nwac_b_spec : forall l closed,
  nwac_b closed l = true <-> ((forall s c, In s closed -> ~ In (OW s c) l) /\ no_write_after_completed l).
Proof.
  induction l as [|o l]; intros closed.
  - simpl. split; auto. intros _. split; auto. intros l1 l2 s c H. destruct l1; discriminate.
  - destruct o; simpl;
      try (rewrite IHl, NW_cons_other by (intros; discriminate); split; intros [A C]; split; auto;
           [intros s0 c0 Hs [Hx|Hi]; [discriminate|eapply A; eauto]|intros s0 c0 Hs Hi; eapply A; eauto]; fail).
    + (* OW *) rewrite andb_true_iff, IHl, NW_cons_other by (intros; discriminate). rewrite negb_true_iff. split.
      * intros [Hm [A C]]. split; [|exact C]. intros s0 c0 Hs Hin. simpl in Hin. destruct Hin as [Hx|Hi].
        -- inversion Hx; subst. apply mem_nIn in Hm. auto.
        -- eapply A; eauto.
      * intros [A C]. split; [apply mem_nIn; intro Hs; apply (A s c Hs); left; reflexivity|].
        split; auto. intros s0 c0 Hs Hi. eapply A; eauto.
    + (* OClosed *) rewrite IHl, NW_cons_closed. split.
      * intros [A C]. split; [intros s0 c0 Hs [Hx|Hi]; [discriminate|eapply A; eauto; right; auto]|].
        split; auto. intros c0. apply A. left; auto.
      * intros [A [C D]]. split; auto. intros s0 c0 [<-|Hs] Hi; [eapply C; eauto|eapply A; eauto].
Qed.

Lemma no_write_after_completed_b_ok : forall l, no_write_after_completed_b l = true <-> no_write_after_completed l.
Proof. intros. unfold no_write_after_completed_b. rewrite nwac_b_spec. split; [tauto|]. intros H. split; [intros s c []|exact H]. Qed.

Lemma completed_once_b_ok : forall l, completed_once_b l = true <-> completed_once l.
Proof. intros. unfold completed_once_b, completed_once. apply nodup_b_true. Qed.

(* ---- final forms ---- *)
Section Final.
  Variable flt : sid -> ev -> fres.
  Variable wresf : sid -> ev -> wres.
  Variable ev_bad : ev -> bool.
  Variable hbfail : sid -> bool.
  Notation runf := (run fixed flt wresf ev_bad hbfail init).
  Notation stepf := (step fixed flt wresf ev_bad hbfail).

  Lemma reach_of_run : forall acts st, runf acts = Some st -> reachable fixed flt wresf ev_bad hbfail st.
  Proof. intros. exists acts. auto. Qed.

  Lemma final_no_write_after_completed : forall acts st, runf acts = Some st -> no_write_after_completed (chron st).
  Proof. intros. eapply no_write_after_completed_holds, reach_of_run; eauto. Qed.

  Lemma final_completed_once : forall acts st, runf acts = Some st -> completed_once (chron st).
  Proof. intros. eapply completed_once_holds, reach_of_run; eauto. Qed.

  Lemma final_writes_exclusive : forall acts st th x st' s,
    runf acts = Some st -> stepf st (AStep th x) = Some st' ->
    nw s (log st') <> nw s (log st) ->
    exists i rest, lookup_thr th (threads st) = Some (i :: rest) /\ w_region i = Some s.
  Proof.
    intros acts st th x st' s Hr Hs Hn.
    assert (HR : RG st) by (eapply RG_reachable, reach_of_run; eauto).
    apply step_AStep in Hs. destruct Hs as (i & rest & st1 & push & sp & Hl & He & ->). simpl in Hn.
    exists i, rest. split; auto. eapply writes_exclusive_holds; eauto.
  Qed.

  Lemma final_delivery_order : forall acts st s, runf acts = Some st ->
    exists missed inflight,
      acc ev_bad s (chron st) = writes_of s (chron st) ++ missed ++ inflight /\
      (s_removed (subs st s) = false -> missed = []) /\
      length inflight <= 1 /\
      (cnt (nfa ev_bad s) (threads st) = 0 -> inflight = []) /\
      Forall (fun e => flt s e = FPass /\ ev_bad e = false) (acc ev_bad s (chron st)).
  Proof. intros. eapply delivery_order_holds, reach_of_run; eauto. Qed.
End Final.

(* ---- historical (pre-repair) transitions: the property fails ---- *)
Lemma no_write_after_completed_refuted_proof :
  exists acts st, run hist_a flt0 wres0 bad0 hb0 init acts = Some st /\ ~ no_write_after_completed (chron st).
Proof.
  assert (H : exists st, run hist_a flt0 wres0 bad0 hb0 init wit_a = Some st /\ no_write_after_completed_b (chron st) = false).
  { eexists. split; [vm_compute; reflexivity|vm_compute; reflexivity]. }
  destruct H as [st [H1 H2]]. exists wit_a, st. split; auto.
  intros H. apply no_write_after_completed_b_ok in H. congruence.
Qed.

(* ---- examples: the hypotheses of the theorems are met by non-trivial runs ---- *)
Lemma example_run_proof :
  exists st, run fixed flt0 wres0 bad0 hb0 init ex_run = Some st /\
    threads st = [] /\ writes_of 1 (chron st) = [7] /\ writes_of 2 (chron st) = [7; 8] /\
    acc bad0 1 (chron st) = [7] /\ acc bad0 2 (chron st) = [7; 8] /\ closes (chron st) = [1; 2].
Proof. eexists. split; [vm_compute; reflexivity|]. repeat split; vm_compute; reflexivity. Qed.
