(* Infrastructure shared by the C12 and C13 proofs: reachability induction, decomposition of a step,
   counting instructions over the thread pool, small list / map facts, the case-analysis tactic. *)
From Gv Require Import C12.Model.
From Coq Require Import List Bool Arith PeanoNat Lia.
Import ListNotations.

(* ---- nat lists as sets ---- *)
Lemma mem_In : forall x l, mem x l = true <-> In x l.
Proof.
  unfold mem; intros; rewrite existsb_exists; split.
  - intros [y [Hy He]]; apply Nat.eqb_eq in He; subst; auto.
  - intros H; exists x; split; auto; apply Nat.eqb_refl.
Qed.
Lemma mem_nIn : forall x l, mem x l = false <-> ~ In x l.
Proof. intros; rewrite <- mem_In; destruct (mem x l); split; congruence. Qed.
Lemma In_rem : forall x y l, In x (rem y l) <-> In x l /\ x <> y.
Proof.
  unfold rem; intros; rewrite filter_In; split; intros [H1 H2]; split; auto.
  - intro; subst; rewrite Nat.eqb_refl in H2; discriminate.
  - destruct (Nat.eqb_spec x y); simpl; congruence.
Qed.
Lemma rem_notin : forall y l, ~ In y l -> rem y l = l.
Proof.
  induction l; simpl; auto; intros.
  destruct (Nat.eqb_spec a y); simpl.
  - subst; tauto.
  - f_equal; apply IHl; tauto.
Qed.
Lemma NoDup_rem : forall y l, NoDup l -> NoDup (rem y l).
Proof. unfold rem; intros; apply NoDup_filter; auto. Qed.
Lemma rem_length_in : forall y l, NoDup l -> In y l -> S (length (rem y l)) = length l.
Proof.
  induction l; simpl; intros Hn Hi; [tauto|].
  inversion Hn; subst.
  destruct (Nat.eqb_spec a y); simpl.
  - subst. rewrite rem_notin; auto.
  - destruct Hi; [congruence|]. rewrite IHl; auto.
Qed.

Lemma upd_same : forall A (f : nat -> A) x v, upd f x v x = v.
Proof. unfold upd; intros; rewrite Nat.eqb_refl; auto. Qed.
Lemma upd_other : forall A (f : nat -> A) x y v, y <> x -> upd f x v y = f y.
Proof. unfold upd; intros; destruct (Nat.eqb_spec y x); congruence. Qed.

(* ---- counting instructions ---- *)
Definition cntl (p : instr -> bool) (l : list instr) : nat := length (filter p l).
Fixpoint cnt (p : instr -> bool) (thr : list (tname * list instr)) : nat :=
  match thr with [] => 0 | (_, prog) :: r => cntl p prog + cnt p r end.

Lemma cntl_app : forall p a b, cntl p (a ++ b) = cntl p a + cntl p b.
Proof. unfold cntl; intros; rewrite filter_app, app_length; auto. Qed.
Lemma cntl_cons : forall p i l, cntl p (i :: l) = (if p i then 1 else 0) + cntl p l.
Proof. unfold cntl; intros; simpl; destruct (p i); auto. Qed.
Lemma cnt_app : forall p a b, cnt p (a ++ b) = cnt p a + cnt p b.
Proof. induction a as [|[n q] a]; simpl; intros; auto. rewrite IHa; lia. Qed.

Lemma cnt_set_thr : forall p th i rest new thr,
  lookup_thr th thr = Some (i :: rest) ->
  cnt p (set_thr th (new ++ rest) thr) + (if p i then 1 else 0) = cnt p thr + cntl p new.
Proof.
  induction thr as [|[n q] thr]; simpl; intros H; [discriminate|].
  destruct (tname_eqb n th).
  - inversion H; subst; clear H.
    rewrite cntl_cons.
    assert (E : cnt p (match new ++ rest with [] => thr | _ :: _ => (n, new ++ rest) :: thr end)
                = cntl p (new ++ rest) + cnt p thr) by (destruct (new ++ rest); auto).
    rewrite E, cntl_app. lia.
  - simpl. specialize (IHthr H). lia.
Qed.

Lemma cnt_pos_In : forall p thr, cnt p thr > 0 <-> exists n prog i, In (n, prog) thr /\ In i prog /\ p i = true.
Proof.
  induction thr as [|[n q] thr]; simpl.
  - split; [lia|]. intros (?&?&?&[]&_).
  - split.
    + intros H. destruct (Nat.eq_dec (cntl p q) 0) as [Hz|Hz].
      * assert (cnt p thr > 0) by lia. apply IHthr in H0. destruct H0 as (n'&pr&i&?&?&?).
        exists n', pr, i; repeat split; auto.
      * unfold cntl in Hz. destruct (filter p q) eqn:E; [simpl in Hz; lia|].
        assert (In i (filter p q)) by (rewrite E; left; auto).
        apply filter_In in H0. exists n, q, i; tauto.
    + intros (n'&pr&i&[Heq|Hin]&Hi&Hp).
      * inversion Heq; subst. assert (In i (filter p pr)) by (apply filter_In; auto).
        unfold cntl. destruct (filter p pr); simpl in *; [tauto|lia].
      * assert (cnt p thr > 0) by (apply IHthr; exists n', pr, i; auto). lia.
Qed.


Lemma cnt_le : forall (p q : instr -> bool) thr, (forall i, p i = true -> q i = true) -> cnt p thr <= cnt q thr.
Proof.
  intros p q thr H. induction thr as [|[n prog] thr]; simpl; auto.
  assert (cntl p prog <= cntl q prog).
  { unfold cntl. induction prog; simpl; auto. destruct (p a) eqn:E; [rewrite (H _ E); simpl; lia|destruct (q a); simpl; lia]. }
  lia.
Qed.


(* ---- fields no registry region touches ---- *)
Definition same_frame (st st' : state) : Prop :=
  threads st' = threads st /\ ntrig st' = ntrig st /\ allsubs st' = allsubs st /\ shut st' = shut st /\ rctx st' = rctx st.

Lemma sf_refl : forall st, same_frame st st. Proof. unfold same_frame; auto. Qed.
Lemma sf_trans : forall a b c, same_frame a b -> same_frame b c -> same_frame a c.
Proof. unfold same_frame; intros a b c (?&?&?&?&?) (?&?&?&?&?); repeat split; congruence. Qed.

Lemma cas_frame : forall st s st' c, cas_removed st s = (st', c) -> same_frame st st'.
Proof. unfold cas_removed; intros. destruct (s_removed (subs st s)); inversion H; subst; unfold same_frame; simpl; auto. Qed.

Lemma remove_locked_frame : forall st s st' r, remove_locked st s = (st', r) -> same_frame st st'.
Proof.
  unfold remove_locked; intros.
  destruct (negb (mem s (byid st))); [inversion H; subst; apply sf_refl|].
  destruct (lookup_reg _ _); [|inversion H; subst; unfold same_frame; simpl; auto].
  destruct (negb (mem s _)); [inversion H; subst; unfold same_frame; simpl; auto|].
  destruct (cas_removed st s) as [st1 cl] eqn:E. apply cas_frame in E. destruct E as (?&?&?&?&?).
  destruct (rem s _); inversion H; subst; unfold same_frame; simpl; auto.
Qed.

Lemma detach_subs_frame : forall l st st' c, detach_subs st l = (st', c) -> same_frame st st'.
Proof.
  induction l; simpl; intros.
  - inversion H; subst; apply sf_refl.
  - destruct (cas_removed st a) as [st1 c1] eqn:E1.
    destruct (detach_subs (unregister st1 a) l) as [st2 c2] eqn:E2.
    inversion H; subst. apply cas_frame in E1. apply IHl in E2.
    eapply sf_trans; [exact E1|]. eapply sf_trans; [|exact E2]. unfold same_frame; simpl; auto.
Qed.

Lemma detach_locked_frame : forall st t st' r, detach_locked st t = (st', r) -> same_frame st st'.
Proof.
  unfold detach_locked; intros.
  destruct (detach_subs st (t_subs (trigs st t))) as [st1 cl] eqn:E.
  apply detach_subs_frame in E. inversion H; subst.
  eapply sf_trans; [exact E|]. unfold same_frame; simpl; auto.
Qed.

Lemma remove_many_frame : forall l st st' r, remove_many st l = (st', r) -> same_frame st st'.
Proof.
  induction l; simpl; intros.
  - inversion H; subst; apply sf_refl.
  - destruct (remove_locked st a) as [st1 r1] eqn:E1. destruct (remove_many st1 l) as [st2 r2] eqn:E2.
    inversion H; subst. eapply sf_trans; [eapply remove_locked_frame; eauto|eauto].
Qed.

Lemma detach_many_frame : forall l st st' r, detach_many st l = (st', r) -> same_frame st st'.
Proof.
  induction l; simpl; intros.
  - inversion H; subst; apply sf_refl.
  - destruct (detach_locked st a) as [st1 r1] eqn:E1. destruct (detach_many st1 l) as [st2 r2] eqn:E2.
    inversion H; subst. eapply sf_trans; [eapply detach_locked_frame; eauto|eauto].
Qed.

(* ---- the case analysis over [exec] ----
   [exec_cases H] where H : exec .. st i x = Some (st1, push, sp): one goal per reachable branch, the
   registry function calls named by equations. *)
Ltac exec_split H :=
  repeat (match type of H with
    | context [match ?e with _ => _ end] =>
      lazymatch e with
      | remove_locked _ _ => let st1 := fresh "st1" in let r := fresh "r" in let E := fresh "Erm" in destruct e as [st1 r] eqn:E
      | remove_many _ _ => let st1 := fresh "st1" in let r := fresh "r" in let E := fresh "Erm" in destruct e as [st1 r] eqn:E
      | detach_locked _ _ => let st1 := fresh "st1" in let r := fresh "r" in let E := fresh "Erm" in destruct e as [st1 r] eqn:E
      | detach_many _ _ => let st1 := fresh "st1" in let r := fresh "r" in let E := fresh "Erm" in destruct e as [st1 r] eqn:E
      | eval_filter _ _ _ _ => let p := fresh "pass" in let f := fresh "ferr" in let E := fresh "Eflt" in destruct e as [p f] eqn:E
      | _ => let E := fresh "Ec" in destruct e eqn:E
      end
    end; try discriminate H).

Ltac exec_cases H :=
  match type of H with
  | Model.exec _ _ _ _ _ _ ?i ?x = Some _ =>
    destruct i; destruct x; simpl in H; try discriminate H;
    unfold ret in H; exec_split H; try discriminate H;
    inversion H; subst; clear H
  end.

(* ---- steps ---- *)
Section Base.
  Variable v : variant.
  Variable flt : sid -> ev -> fres.
  Variable wresf : sid -> ev -> wres.
  Variable ev_bad : ev -> bool.
  Variable hbfail : sid -> bool.

  Notation exec := (exec v flt wresf ev_bad hbfail).
  Notation step := (step v flt wresf ev_bad hbfail).
  Notation run := (run v flt wresf ev_bad hbfail).

  Definition reachable (st : state) : Prop := exists acts, run init acts = Some st.

  Lemma run_app : forall l1 l2 st, run st (l1 ++ l2) = match run st l1 with Some st' => run st' l2 | None => None end.
  Proof. induction l1; simpl; intros; auto. destruct (step st a); auto. Qed.

  Lemma run_inv : forall (P : state -> Prop),
    P init ->
    (forall st a st', P st -> step st a = Some st' -> P st') ->
    forall st, reachable st -> P st.
  Proof.
    intros P H0 Hs st [acts Hr]. revert Hr. generalize init H0.
    induction acts; simpl; intros s Hs0 Hr.
    - inversion Hr; subst; auto.
    - destruct (step s a) eqn:E; [|discriminate]. eapply IHacts; [|exact Hr]. eapply Hs; eauto.
  Qed.

  Lemma reachable_step : forall st a st', reachable st -> step st a = Some st' -> reachable st'.
  Proof.
    intros st a st' [acts Hr] Hs. exists (acts ++ [a]). rewrite run_app, Hr. simpl. rewrite Hs. auto.
  Qed.

  Lemma exec_frame : forall st i x st1 push sp, exec st i x = Some (st1, push, sp) ->
    threads st1 = threads st.
  Proof.
    intros st i x st1 push sp H. exec_cases H; simpl; auto;
      repeat match goal with
             | E : remove_locked _ _ = _ |- _ => apply remove_locked_frame in E; destruct E as (?&?&?&?&?)
             | E : remove_many _ _ = _ |- _ => apply remove_many_frame in E; destruct E as (?&?&?&?&?)
             | E : detach_locked _ _ = _ |- _ => apply detach_locked_frame in E; destruct E as (?&?&?&?&?)
             | E : detach_many _ _ = _ |- _ => apply detach_many_frame in E; destruct E as (?&?&?&?&?)
             end; simpl in *; try congruence.
  Qed.

  (* decomposition of a thread step *)
  Lemma step_AStep : forall st th x st', step st (AStep th x) = Some st' ->
    exists i rest st1 push sp,
      lookup_thr th (threads st) = Some (i :: rest) /\
      exec st i x = Some (st1, push, sp) /\
      st' = st_threads st1 (set_thr th (push ++ rest) (threads st) ++ sp).
  Proof.
    unfold Model.step; intros. destruct (lookup_thr th (threads st)) as [[|i rest]|] eqn:E; try discriminate.
    destruct (exec st i x) as [[[st1 push] sp]|] eqn:E2; try discriminate.
    inversion H; subst. rewrite (exec_frame _ _ _ _ _ _ E2).
    exists i, rest, st1, push, sp; auto.
  Qed.

  Lemma step_cnt : forall p st th x st' i rest st1 push sp,
    lookup_thr th (threads st) = Some (i :: rest) ->
    exec st i x = Some (st1, push, sp) ->
    st' = st_threads st1 (set_thr th (push ++ rest) (threads st) ++ sp) ->
    cnt p (threads st') + (if p i then 1 else 0) = cnt p (threads st) + cntl p push + cnt p sp.
  Proof.
    intros; subst; simpl. rewrite cnt_app. pose proof (cnt_set_thr p th i rest push (threads st) H). lia.
  Qed.

  (* a spawn action only appends one parked thread *)
  Lemma spawn_spec : forall st n p st', spawn st n p = Some st' ->
    st' = st \/ (p <> [] /\ st' = st_threads st (threads st ++ [(n, p)])).
  Proof.
    unfold spawn; intros. destruct (has_thr n st); [discriminate|].
    destruct p; inversion H; subst; auto. right; split; [discriminate|auto].
  Qed.
End Base.
