(* C12 delivery_order: per subscriber the written events are exactly the accepted (filtered, in
   snapshot) events, in order, one Write each, up to the removal of the subscriber.
   The argument: the updater mutex U is held across a whole fan-out (stage instructions live only
   inside the section closed by IUUnlock), the WaitGroup keeps the children (closed by IKidDone), so
   when the next event is accepted no delivery for that trigger is in flight. *)
From Gv Require Import C12.Model C12.Spec C12.ProofsBase C12.ProofsReg C12.ProofsC12.
From Coq Require Import List Bool Arith PeanoNat Lia.
Import ListNotations.

Definition B (b : bool) : nat := if b then 1 else 0.

(* ---- instruction classes ---- *)
Definition stg (t : tid) (i : instr) : bool :=
  match i with
  | IUpdLookup t' _ | IUpdFilter t' _ | IUSLookup t' _ _ | IUSFilter t' _ _ | ISpawn t' _ _ | IWait t'
  | IKidLoad t' _ _ true | IKidWrite t' _ _ true => t' =? t
  | _ => false
  end.
Definition is_unlock (t : tid) (i : instr) : bool := match i with IUUnlock t' => t' =? t | _ => false end.
Definition is_wait (t : tid) (i : instr) : bool := match i with IWait t' => t' =? t | _ => false end.
Definition is_kiddone (t : tid) (s : sid) (i : instr) : bool :=
  match i with IKidDone t' s' => (t' =? t) && (s' =? s) | _ => false end.
Definition kidk (t : tid) (s : sid) (i : instr) : bool :=
  match i with IKidLoad t' s' _ false | IKidWrite t' s' _ false => (t' =? t) && (s' =? s) | _ => false end.
Definition bad_spawn (i : instr) : bool := match i with ISpawn _ _ l => negb (nodup_b l) | _ => false end.
(* an in-flight delivery whose subscriber does not belong to the named trigger *)
Definition bad_tid (st : state) (i : instr) : bool :=
  match i with
  | ISpawn t _ l => negb (forallb (fun s => (s_tid (subs st s) =? t) && mem s (allsubs st)) l)
  | IKidLoad t s _ _ | IKidWrite t s _ _ => negb ((s_tid (subs st s) =? t) && mem s (allsubs st))
  | _ => false
  end.
(* in-flight deliveries of trigger t, of subscriber s *)
Definition infl_t (t : tid) (i : instr) : bool :=
  match i with ISpawn t' _ _ | IKidLoad t' _ _ _ | IKidWrite t' _ _ _ => t' =? t | _ => false end.

(* ---- per-thread bracket discipline ---- *)
Fixpoint okU (t : tid) (l : list instr) : bool :=
  match l with
  | [] => true
  | i :: r => (if is_unlock t i then cntl (stg t) r =? 0 else true) && okU t r
  end.
Fixpoint okK (t : tid) (s : sid) (l : list instr) : bool :=
  match l with
  | [] => true
  | i :: r => (if is_kiddone t s i then cntl (kidk t s) r =? 0 else true) && okK t s r
  end.
Definition PT (t : tid) (p : list instr) : bool := (cntl (stg t) p <=? cntl (is_unlock t) p) && okU t p.
Definition PK (t : tid) (s : sid) (p : list instr) : bool := (cntl (kidk t s) p <=? cntl (is_kiddone t s) p) && okK t s p.

Definition allthr (P : list instr -> bool) (thr : list (tname * list instr)) : bool :=
  forallb (fun np => P (snd np)) thr.

Lemma allthr_app : forall P a b, allthr P (a ++ b) = allthr P a && allthr P b.
Proof. unfold allthr; intros; apply forallb_app. Qed.

Lemma allthr_set_thr : forall P th i rest new thr,
  allthr P thr = true -> lookup_thr th thr = Some (i :: rest) -> P (new ++ rest) = true ->
  allthr P (set_thr th (new ++ rest) thr) = true.
Proof.
  unfold allthr. induction thr as [|[n q] thr]; simpl; intros Ha Hl Hp; auto.
  apply andb_true_iff in Ha. destruct Ha as [Hq Ha].
  destruct (tname_eqb n th).
  - inversion Hl; subst. destruct (new ++ rest) eqn:E; simpl; auto. rewrite Hp. auto.
  - simpl. rewrite Hq. simpl. apply IHthr; auto.
Qed.

Lemma allthr_lookup : forall P th prog thr, allthr P thr = true -> lookup_thr th thr = Some prog -> P prog = true.
Proof.
  unfold allthr. induction thr as [|[n q] thr]; simpl; intros Ha Hl; [discriminate|].
  apply andb_true_iff in Ha. destruct Ha as [Hq Ha]. destruct (tname_eqb n th); [inversion Hl; subst; auto|auto].
Qed.

(* summing a per-thread inequality *)
Lemma allthr_le : forall (p q : instr -> bool) (Pp : list instr -> bool) thr,
  (forall prog, Pp prog = true -> cntl p prog <= cntl q prog) -> allthr Pp thr = true -> cnt p thr <= cnt q thr.
Proof.
  unfold allthr. induction thr as [|[n prog] thr]; simpl; intros H Ha; auto.
  apply andb_true_iff in Ha. destruct Ha as [Hq Ha]. specialize (H prog Hq) as H1. specialize (IHthr H Ha). lia.
Qed.

Lemma PT_le : forall t prog, PT t prog = true -> cntl (stg t) prog <= cntl (is_unlock t) prog.
Proof. unfold PT; intros. apply andb_true_iff in H. destruct H. apply Nat.leb_le; auto. Qed.
Lemma PK_le : forall t s prog, PK t s prog = true -> cntl (kidk t s) prog <= cntl (is_kiddone t s) prog.
Proof. unfold PK; intros. apply andb_true_iff in H. destruct H. apply Nat.leb_le; auto. Qed.

Lemma okU_app_nc : forall t a b, cntl (is_unlock t) a = 0 -> okU t (a ++ b) = okU t b.
Proof.
  induction a; simpl; intros; auto. rewrite cntl_cons in H.
  destruct (is_unlock t a) eqn:E; [simpl in H; lia|]. simpl. apply IHa. simpl in H. lia.
Qed.
Lemma okK_app_nc : forall t s a b, cntl (is_kiddone t s) a = 0 -> okK t s (a ++ b) = okK t s b.
Proof.
  induction a; simpl; intros; auto. rewrite cntl_cons in H.
  destruct (is_kiddone t s a) eqn:E; [simpl in H; lia|]. simpl. apply IHa. simpl in H. lia.
Qed.
Lemma okU_tail : forall t i r, okU t (i :: r) = true -> okU t r = true.
Proof. simpl; intros. apply andb_true_iff in H. tauto. Qed.
Lemma okK_tail : forall t s i r, okK t s (i :: r) = true -> okK t s r = true.
Proof. simpl; intros. apply andb_true_iff in H. tauto. Qed.

Lemma PT_push : forall t i rest push,
  PT t (i :: rest) = true -> cntl (is_unlock t) push = 0 -> cntl (stg t) push <= B (stg t i) ->
  PT t (push ++ rest) = true.
Proof.
  unfold PT. intros t i rest push H Hu Hs. apply andb_true_iff in H. destruct H as [Hle Hok].
  apply Nat.leb_le in Hle. rewrite !cntl_cons in Hle. simpl in Hok. apply andb_true_iff in Hok. destruct Hok as [Hc Hok].
  apply andb_true_iff. split.
  - apply Nat.leb_le. rewrite !cntl_app, Hu. unfold B in *.
    destruct (is_unlock t i) eqn:E.
    + apply Nat.eqb_eq in Hc. destruct (stg t i) eqn:E2; [destruct i; simpl in *; try discriminate; destruct inl; discriminate|]. lia.
    + destruct (stg t i); lia.
  - rewrite okU_app_nc; auto.
Qed.

Lemma PK_push : forall t s i rest push,
  PK t s (i :: rest) = true -> cntl (is_kiddone t s) push = 0 -> cntl (kidk t s) push <= B (kidk t s i) ->
  PK t s (push ++ rest) = true.
Proof.
  unfold PK. intros t s i rest push H Hu Hs. apply andb_true_iff in H. destruct H as [Hle Hok].
  apply Nat.leb_le in Hle. rewrite !cntl_cons in Hle. simpl in Hok. apply andb_true_iff in Hok. destruct Hok as [Hc Hok].
  apply andb_true_iff. split.
  - apply Nat.leb_le. rewrite !cntl_app, Hu. unfold B in *.
    destruct (is_kiddone t s i) eqn:E.
    + apply Nat.eqb_eq in Hc. destruct (kidk t s i) eqn:E2; [destruct i; simpl in *; try discriminate; destruct inl; discriminate|]. lia.
    + destruct (kidk t s i); lia.
  - rewrite okK_app_nc; auto.
Qed.

Lemma PT_lock : forall t rest body,
  cntl (stg t) rest = 0 -> cntl (is_unlock t) rest = 0 -> okU t rest = true ->
  cntl (is_unlock t) body = 0 -> cntl (stg t) body <= 1 ->
  PT t ((body ++ [IUUnlock t]) ++ rest) = true.
Proof.
  unfold PT. intros. apply andb_true_iff. split.
  - apply Nat.leb_le. rewrite !cntl_app. unfold cntl at 2 5. simpl. rewrite Nat.eqb_refl. simpl. lia.
  - rewrite <- app_assoc. rewrite okU_app_nc by auto. simpl. rewrite Nat.eqb_refl, H. simpl. auto.
Qed.

(* ---- the invariant ---- *)
Definition UDp (st : state) (thr : list (tname * list instr)) : Prop :=
  (forall t, cnt (is_unlock t) thr = B (t_ulock (trigs st t))) /\
  (forall t s, cnt (is_kiddone t s) thr = B (mem s (t_wg (trigs st t)))) /\
  (forall t, NoDup (t_wg (trigs st t))) /\
  (forall t, t_wg (trigs st t) <> [] -> cnt (is_wait t) thr >= 1) /\
  cnt bad_spawn thr = 0 /\
  cnt (bad_tid st) thr = 0 /\
  (forall t, allthr (PT t) thr = true) /\
  (forall t s, allthr (PK t s) thr = true).
Definition UD (st : state) : Prop := UDp st (threads st).

Lemma UD_stage_le : forall st thr t, UDp st thr -> cnt (stg t) thr <= B (t_ulock (trigs st t)).
Proof.
  intros st thr t (G1 & _ & _ & _ & _ & _ & P1 & _). rewrite <- G1.
  apply (allthr_le _ _ (PT t)); auto. apply PT_le.
Qed.
Lemma UD_kid_le : forall st thr t s, UDp st thr -> cnt (kidk t s) thr <= B (mem s (t_wg (trigs st t))).
Proof.
  intros st thr t s (_ & G2 & _ & _ & _ & _ & _ & P2). rewrite <- G2.
  apply (allthr_le _ _ (PK t s)); auto. apply PK_le.
Qed.

Lemma eval_filter_sub : forall flt st e l p f, eval_filter flt st e l = (p, f) ->
  (forall s, In s p -> In s l) /\ (NoDup l -> NoDup p) /\ (forall s, In s p -> flt s e = FPass).
Proof.
  induction l; intros p f H.
  - simpl in H. inversion H; subst. split; [intros s []|]. split; [intros; constructor|intros s []].
  - simpl in H. destruct (eval_filter flt st e l) as [p0 f0] eqn:E. destruct (IHl _ _ eq_refl) as (A & B0 & C).
    destruct (s_ctxc (subs st a)).
    + inversion H; subst. split; [intros; right; auto|]. split; [intros Hn; inversion Hn; auto|auto].
    + destruct (flt a e) eqn:Ef; inversion H; subst.
      * split; [intros s [<-|Hi]; [left; auto|right; auto]|].
        split; [intros Hn; inversion Hn; subst; constructor; auto|intros s [<-|Hi]; auto].
      * split; [intros; right; auto|]. split; [intros Hn; inversion Hn; auto|auto].
      * split; [intros; right; auto|]. split; [intros Hn; inversion Hn; auto|auto].
Qed.

Lemma nodup_b_true : forall l, nodup_b l = true <-> NoDup l.
Proof.
  induction l; simpl; split; intros; auto; try constructor.
  - apply andb_true_iff in H. destruct H. apply negb_true_iff in H. apply mem_nIn in H. auto.
  - apply andb_true_iff in H. destruct H. apply IHl; auto.
  - inversion H; subst. apply andb_true_iff. split; [apply negb_true_iff, mem_nIn; auto|apply IHl; auto].
Qed.

Lemma bad_tid_mono : forall st st' thr,
  (forall s, In s (allsubs st) -> s_tid (subs st' s) = s_tid (subs st s) /\ In s (allsubs st')) ->
  cnt (bad_tid st') thr <= cnt (bad_tid st) thr.
Proof.
  intros st st' thr H. apply cnt_le. intros i Hi.
  assert (Hs : forall s t, (s_tid (subs st s) =? t) && mem s (allsubs st) = true -> (s_tid (subs st' s) =? t) && mem s (allsubs st') = true).
  { intros s t Hb. apply andb_true_iff in Hb. destruct Hb as [A C]. apply mem_In in C. destruct (H s C) as [E F].
    rewrite E, A. simpl. apply mem_In; auto. }
  destruct i; simpl in *; try discriminate.
  - apply negb_true_iff in Hi. apply negb_true_iff.
    destruct (forallb (fun s => (s_tid (subs st s) =? t) && mem s (allsubs st)) l) eqn:E; auto.
    rewrite forallb_forall in E.
    assert (forallb (fun s => (s_tid (subs st' s) =? t) && mem s (allsubs st')) l = true).
    { apply forallb_forall. intros x Hx. apply Hs. apply E; auto. } congruence.
  - apply negb_true_iff in Hi. apply negb_true_iff. destruct ((s_tid (subs st s) =? t) && mem s (allsubs st)) eqn:E; auto.
    apply Hs in E. congruence.
  - apply negb_true_iff in Hi. apply negb_true_iff. destruct ((s_tid (subs st s) =? t) && mem s (allsubs st)) eqn:E; auto.
    apply Hs in E. congruence.
Qed.

Definition UDfull (st : state) (thr : list (tname * list instr)) : Prop :=
  UDp st thr /\ (forall t, ntrig st <= t -> t_ulock (trigs st t) = false /\ t_wg (trigs st t) = []).

Ltac hq HQ p :=
  let H := fresh "Hq" in pose proof (HQ p) as H; revert H; cnt_simpl; intro H.
Ltac eqb_all :=
  repeat (match goal with
          | |- context [Nat.eqb ?a ?b] => destruct (Nat.eqb_spec a b); subst
          | H : context [Nat.eqb ?a ?b] |- _ => destruct (Nat.eqb_spec a b); subst
          end); simpl in *.

Lemma cntl_le_cnt : forall p th prog thr, lookup_thr th thr = Some prog -> cntl p prog <= cnt p thr.
Proof.
  induction thr as [|[n q] thr]; simpl; intros; [discriminate|].
  destruct (tname_eqb n th); [inversion H; subst; lia|specialize (IHthr H); lia].
Qed.
Lemma cnt_add_le : forall (p q r : instr -> bool) thr, (forall i, B (p i) + B (q i) <= B (r i)) -> cnt p thr + cnt q thr <= cnt r thr.
Proof.
  intros p q r thr H. induction thr as [|[n prog] thr]; simpl; auto.
  assert (cntl p prog + cntl q prog <= cntl r prog).
  { unfold cntl. induction prog; simpl; auto. specialize (H a). unfold B in H.
    destruct (p a); destruct (q a); destruct (r a); simpl in *; lia. }
  lia.
Qed.
Lemma allthr_map : forall A P (f : A -> tname * list instr) l, (forall x, In x l -> P (snd (f x)) = true) -> allthr P (map f l) = true.
Proof. unfold allthr. induction l; simpl; intros; auto. rewrite H by auto. simpl. apply IHl. auto. Qed.
Lemma cnt_map_zero_in : forall A (p : instr -> bool) (f : A -> tname * list instr) l,
  (forall x, In x l -> cntl p (snd (f x)) = 0) -> cnt p (map f l) = 0.
Proof.
  induction l; simpl; intros; auto. destruct (f a) eqn:E. pose proof (H a (or_introl eq_refl)) as Ha. rewrite E in Ha. simpl in Ha.
  rewrite Ha, IHl; auto.
Qed.
Lemma mem_rem : forall x y l, mem x (rem y l) = mem x l && negb (x =? y).
Proof.
  intros. destruct (mem x (rem y l)) eqn:E.
  - apply mem_In in E. apply In_rem in E. destruct E. symmetry. apply andb_true_iff. split; [apply mem_In; auto|].
    destruct (Nat.eqb_spec x y); auto.
  - apply mem_nIn in E. destruct (mem x l) eqn:E2; auto. simpl. destruct (Nat.eqb_spec x y); auto.
    exfalso. apply E. apply In_rem. split; auto. apply mem_In; auto.
Qed.
Lemma cnt_kiddone_map : forall t e (kids : list sid) tq sq, NoDup kids ->
  cnt (is_kiddone tq sq) (map (fun s0 => (TCh s0, [IYield PX0; IKidLoad t s0 e false; IKidDone t s0])) kids)
  = if t =? tq then B (mem sq kids) else 0.
Proof.
  intros t e kids tq sq Hn. induction kids as [|a kids]; simpl.
  - destruct (t =? tq); auto.
  - inversion Hn; subst. rewrite IHkids by auto. unfold cntl. simpl.
    destruct (Nat.eqb_spec t tq); simpl; auto. rewrite (Nat.eqb_sym sq a).
    destruct (Nat.eqb_spec a sq); simpl; auto. subst. rewrite (proj2 (mem_nIn sq kids)); auto.
Qed.

(* removal regions: nothing the fan-out discipline looks at changes *)
Lemma UD_removal : forall st stp st0 r d th i rest,
  UDfull st (threads st) -> RM stp st0 r ->
  trigs stp = trigs st -> (forall s, s_tid (subs stp s) = s_tid (subs st s)) -> allsubs stp = allsubs st -> ntrig stp = ntrig st ->
  lookup_thr th (threads st) = Some (i :: rest) ->
  (forall t, stg t i = false /\ is_unlock t i = false /\ is_wait t i = false) ->
  (forall t s, is_kiddone t s i = false /\ kidk t s i = false) ->
  UDfull (st_log st0 d) (set_thr th (after_remove r ++ rest) (threads st) ++ []).
Proof.
  intros st stp st0 r d th i rest [(G1 & G2 & G2n & G3 & G4 & G5 & P1 & P2) G0] HM Et Es Ea En Hl Hi1 Hi2.
  assert (HQ : forall p, (forall l, p (ICloseLoop l) = false) -> (forall t, p (ICancel t) = false) ->
             cnt p (set_thr th (after_remove r ++ rest) (threads st) ++ []) + (if p i then 1 else 0) = cnt p (threads st)).
  { intros p H1 H2. rewrite cnt_app. pose proof (cnt_set_thr p th i rest (after_remove r) (threads st) Hl) as Hc.
    assert (Hz : cntl p (after_remove r) = 0) by (unfold after_remove; rewrite cntl_app, !cntl_map_zero; auto).
    rewrite Hz in Hc. simpl. lia. }
  assert (Htr : forall t, t_ulock (trigs st0 t) = t_ulock (trigs st t) /\ t_wg (trigs st0 t) = t_wg (trigs st t)).
  { intros t. destruct (rm_tother _ _ _ HM t) as (_ & _ & _ & _ & A & B0 & _). rewrite Et in *. auto. }
  destruct (rm_frame _ _ _ HM) as (_ & Hn & Ha & _).
  unfold UDfull, UDp. cbn [trigs ntrig st_log].
  repeat split.
  - intros t. destruct (Htr t) as [-> _]. destruct (Hi1 t) as (_ & Hu & _). pose proof (HQ (is_unlock t) (fun _ => eq_refl) (fun _ => eq_refl)). rewrite Hu in H. simpl in H. rewrite <- G1. lia.
  - intros t s. destruct (Htr t) as [_ ->]. destruct (Hi2 t s) as (Hk & _). pose proof (HQ (is_kiddone t s) (fun _ => eq_refl) (fun _ => eq_refl)). rewrite Hk in H. simpl in H. rewrite <- G2. lia.
  - intros t. destruct (Htr t) as [_ ->]. auto.
  - intros t. destruct (Htr t) as [_ ->]. intros Hw. destruct (Hi1 t) as (_ & _ & Hwt). pose proof (HQ (is_wait t) (fun _ => eq_refl) (fun _ => eq_refl)). rewrite Hwt in H. simpl in H. specialize (G3 t Hw). lia.
  - pose proof (HQ bad_spawn (fun _ => eq_refl) (fun _ => eq_refl)). destruct (bad_spawn i); lia.
  - pose proof (HQ (bad_tid (st_log st0 d)) (fun _ => eq_refl) (fun _ => eq_refl)).
    assert (cnt (bad_tid (st_log st0 d)) (threads st) <= cnt (bad_tid st) (threads st)).
    { apply bad_tid_mono. intros s Hs. simpl. rewrite (rm_subs _ _ _ HM), Ha, Ea. split; auto.
      destruct (mem s (rr_close r)); simpl; rewrite Es; auto. }
    destruct (bad_tid (st_log st0 d) i); lia.
  - intros t. rewrite allthr_app. apply andb_true_iff. split; [|reflexivity].
    eapply allthr_set_thr; [apply P1|exact Hl|]. eapply (PT_push t); [eapply allthr_lookup; [apply P1|exact Hl]| |].
    + unfold after_remove. rewrite cntl_app, !cntl_map_zero; auto.
    + unfold after_remove. rewrite cntl_app, !cntl_map_zero; auto. lia.
  - intros t s. rewrite allthr_app. apply andb_true_iff. split; [|reflexivity].
    eapply allthr_set_thr; [apply P2|exact Hl|]. eapply (PK_push t s); [eapply allthr_lookup; [apply P2|exact Hl]| |].
    + unfold after_remove. rewrite cntl_app, !cntl_map_zero; auto.
    + unfold after_remove. rewrite cntl_app, !cntl_map_zero; auto. lia.
  - rewrite Hn, En in H. destruct (Htr t) as [-> _]. apply (G0 t H).
  - rewrite Hn, En in H. destruct (Htr t) as [_ ->]. apply (G0 t H).
Qed.

Lemma UD_ext : forall st st' thr, trigs st' = trigs st -> (forall s, s_tid (subs st' s) = s_tid (subs st s)) ->
  allsubs st' = allsubs st -> ntrig st' = ntrig st -> UDfull st thr -> UDfull st' thr.
Proof.
  intros st st' thr Et Es Ea En [(G1 & G2 & G2n & G3 & G4 & G5 & P1 & P2) G0]. unfold UDfull, UDp. rewrite Et, En.
  repeat split; auto; try apply G0; auto.
  assert (cnt (bad_tid st') thr <= cnt (bad_tid st) thr); [|lia].
  apply bad_tid_mono. intros s Hs. rewrite Es, Ea. auto.
Qed.

Section DelivStep.
  Variable v : variant.
  Variable flt : sid -> ev -> fres.
  Variable wresf : sid -> ev -> wres.
  Variable ev_bad : ev -> bool.
  Variable hbfail : sid -> bool.
  Notation exec := (exec v flt wresf ev_bad hbfail).

  Lemma UD_astep : forall st th i rest x st1 push sp,
    RG st -> UDfull st (threads st) ->
    (forall t, (exists op, i = IULock t op) -> t < ntrig st) ->
    lookup_thr th (threads st) = Some (i :: rest) ->
    exec st i x = Some (st1, push, sp) ->
    UDfull st1 (set_thr th (push ++ rest) (threads st) ++ sp).
  Proof.
    intros st th i rest x st1 push sp HR [(G1 & G2 & G2n & G3 & G4 & G5 & P1 & P2) G0] Hlk Hl He.
    assert (HQ : forall p, cnt p (set_thr th (push ++ rest) (threads st) ++ sp) + (if p i then 1 else 0)
                          = cnt p (threads st) + cntl p push + cnt p sp).
    { intros p. rewrite cnt_app. pose proof (cnt_set_thr p th i rest push (threads st) Hl). lia. }
    assert (HI : forall p, p i = true -> cnt p (threads st) > 0) by (intros p Hp; eapply cnt_lookup_ge; eauto).
    set (thr' := set_thr th (push ++ rest) (threads st) ++ sp) in *.
    exec_cases He.
    (* removal regions *)
    all: try (match goal with
         | HR : RG ?S, E : remove_locked (st_log ?S (if mem ?s _ then _ else _)) ?s = (?st0, ?r) |- _ =>
           eapply (UD_removal S (st_log S (if mem s (allsubs S) then [GLeft s] else [])));
           [split; [repeat split; auto|exact G0]
           |eapply RM_remove_locked; [eapply RG_ext; [|exact HR]; reg_eq_tac|exact E]
           |reflexivity|reflexivity|reflexivity|reflexivity|exact Hl|intros; repeat split; reflexivity|intros; split; reflexivity]
         | HR : RG ?S, E : remove_many (st_log ?S (map GLeft (of_conn ?S ?c _))) _ = (?st0, ?r) |- _ =>
           eapply (UD_removal S (st_log S (map GLeft (of_conn S c (allsubs S)))));
           [split; [repeat split; auto|exact G0]
           |eapply RM_remove_many; [eapply RG_ext; [|exact HR]; reg_eq_tac|exact E]
           |reflexivity|reflexivity|reflexivity|reflexivity|exact Hl|intros; repeat split; reflexivity|intros; split; reflexivity]
         | HR : RG ?S, E : detach_many (st_flags ?S true _) _ = (?st0, ?r) |- _ =>
           eapply (UD_ext (emit st0 (dec_obs r))); [reflexivity|reflexivity|reflexivity|reflexivity|];
           eapply (UD_removal S (st_flags S true (rctx S)));
           [split; [repeat split; auto|exact G0]
           |
           |reflexivity|reflexivity|reflexivity|reflexivity|exact Hl|intros; repeat split; reflexivity|intros; split; reflexivity];
           eapply RM_detach_many; [eapply RG_ext; [|exact HR]; reg_eq_tac| | |exact E]; simpl; auto;
           apply (NoDup_tids (fun t => t_key (trigs S t))); [apply (rg_keys _ HR)|]; intros k0 t0 Hi0; apply (rg_ent _ HR _ _ Hi0)
         | HR : RG ?S, E : detach_locked ?S ?t0 = (?st0, ?r), Ec : _ = Some ?t0 |- _ =>
           assert (Hreg0 : In (t_key (trigs S t0), t0) (reg S));
           [destruct (fix_c v);
            [match type of Ec with (if is_reg S ?t then _ else _) = _ => destruct (is_reg S t) eqn:Er; inversion Ec; subst; apply is_reg_true; auto end
            |apply lookup_reg_In in Ec; destruct (rg_ent _ HR _ _ Ec) as (_ & Bk & _); rewrite Bk; exact Ec]
           |eapply (UD_removal S S);
            [split; [repeat split; auto|exact G0]
            |eapply RM_detach_locked; eauto
            |reflexivity|reflexivity|reflexivity|reflexivity|exact Hl|intros; repeat split; reflexivity|intros; split; reflexivity]]
         end; fail).
    all: unfold UDfull, UDp.
    all: repeat match goal with |- _ /\ _ => split end.
    all: try (solve [intros tq; hq HQ (is_unlock tq); pose proof (G1 tq); unfold B in *; simpl; unfold upd; eqb_all; try lia]).
    all: try (solve [intros tq sq; hq HQ (is_kiddone tq sq); pose proof (G2 tq sq); unfold B in *; simpl; unfold upd; eqb_all; try lia]).
    all: try (solve [intros tq; simpl; unfold upd; eqb_all; auto]).
    all: try (solve [intros tq Hw; hq HQ (is_wait tq); simpl in Hw; unfold upd in Hw; eqb_all; pose proof (G3 tq); try lia; auto]).
    all: try (solve [hq HQ bad_spawn; lia]).
    all: try (solve [intros tq Hw; hq HQ (is_wait tq); simpl in Hw; unfold upd in Hw; eqb_all; try (specialize (G3 _ Hw)); lia]).
    all: try (solve [intros tq Ht0; destruct (G0 tq Ht0); simpl; unfold upd; eqb_all; auto]).
    all: try (solve [
      match goal with HR : RG ?S |- cnt (bad_tid ?S1) _ = 0 =>
        assert (H0 : cnt (bad_tid S1) (threads S) = 0)
          by (pose proof (bad_tid_mono S S1 (threads S) ltac:(intros sq Hs0; simpl; unfold upd; eqb_all; auto)); lia);
        hq HQ (bad_tid S1); lia end]).
    all: try (solve [intros tq; unfold thr'; rewrite allthr_app; apply andb_true_iff; split;
      [eapply allthr_set_thr; [apply P1|exact Hl|
         eapply (PT_push tq); [eapply allthr_lookup; [apply P1|exact Hl]|cnt_simpl; eqb_all; reflexivity|cnt_simpl; unfold B; eqb_all; lia]]
      |simpl; reflexivity]]).
    all: try (solve [intros tq sq; unfold thr'; rewrite allthr_app; apply andb_true_iff; split;
      [eapply allthr_set_thr; [apply P2|exact Hl|
         eapply (PK_push tq sq); [eapply allthr_lookup; [apply P2|exact Hl]|cnt_simpl; eqb_all; reflexivity|cnt_simpl; unfold B; eqb_all; lia]]
      |simpl; reflexivity]]).
    (* addSubscription joining: subscriber s is new, nobody in flight mentions it *)
    1-2: (match goal with HR : RG ?S |- cnt (bad_tid ?S1) _ = 0 =>
            assert (H0 : cnt (bad_tid S1) (threads S) = 0)
              by (pose proof (bad_tid_mono S S1 (threads S)
                     ltac:(intros sq Hsq; simpl; unfold upd; destruct (Nat.eqb_spec sq s); [subst; apply mem_nIn in Ec; tauto|auto])); lia);
            hq HQ (bad_tid S1); lia end).
    (* addSubscription creating trigger instance ntrig *)
    1-12: (destruct (G0 (ntrig st) (le_n _)) as [U0 W0]).
    1,7: (intros tq; hq HQ (is_unlock tq); pose proof (G1 tq) as Hg; unfold B in *; simpl; unfold upd;
          destruct (Nat.eqb_spec tq (ntrig st)); subst; simpl; [rewrite U0 in Hg|]; lia).
    1,6: (intros tq sq; hq HQ (is_kiddone tq sq); pose proof (G2 tq sq) as Hg; unfold B in *; simpl; unfold upd;
          destruct (Nat.eqb_spec tq (ntrig st)); subst; simpl; [rewrite W0 in Hg; simpl in Hg|]; lia).
    1,5: (intros tq; simpl; unfold upd; destruct (Nat.eqb_spec tq (ntrig st)); subst; simpl; [constructor|apply G2n]).
    1,4: (intros tq Hw; hq HQ (is_wait tq); simpl in Hw; unfold upd in Hw; destruct (Nat.eqb_spec tq (ntrig st)); subst; simpl in Hw;
          [congruence|specialize (G3 _ Hw); lia]).
    1,3: (match goal with HR : RG ?S |- cnt (bad_tid ?S1) _ = 0 =>
            assert (H0 : cnt (bad_tid S1) (threads S) = 0)
              by (pose proof (bad_tid_mono S S1 (threads S)
                     ltac:(intros sq Hsq; simpl; unfold upd; destruct (Nat.eqb_spec sq s); [subst; apply mem_nIn in Ec; tauto|auto])); lia);
            hq HQ (bad_tid S1); lia end).
    1-2: (intros tq Htq; simpl in Htq; simpl; unfold upd; destruct (Nat.eqb_spec tq (ntrig st)); [lia|apply G0; lia]).
    (* subscriptionUpdater.mu.Lock: the section opens, closed by the IUUnlock pushed last *)
    1-30: (assert (Hlt : t < ntrig st) by (apply Hlk; eexists; reflexivity);
           assert (Hu0 : cnt (is_unlock t) (threads st) = 0) by (rewrite G1, Ec; reflexivity);
           assert (Hs0 : cnt (stg t) (threads st) = 0)
             by (pose proof (UD_stage_le st (threads st) t (conj G1 (conj G2 (conj G2n (conj G3 (conj G4 (conj G5 (conj P1 P2)))))))) as Hx;
                 rewrite Ec in Hx; simpl in Hx; lia)).
    all: try (solve [intros tq; hq HQ (is_unlock tq); pose proof (G1 tq) as Hg; unfold B in *; simpl; unfold upd;
                     destruct (Nat.eqb_spec tq t); subst; simpl in *; rewrite ?Nat.eqb_refl in *; simpl in *;
                     [rewrite Ec in Hg; lia|destruct (Nat.eqb_spec t tq); [congruence|simpl in *; lia]]]).
    all: try (solve [intros tq Htq; simpl in Htq; simpl; unfold upd; destruct (Nat.eqb_spec tq t); [lia|apply G0; auto]]).
    all: try (solve [intros tq; destruct (Nat.eq_dec tq t) as [->|Hne];
      [ unfold thr'; rewrite allthr_app; apply andb_true_iff; split; [|reflexivity];
        eapply allthr_set_thr; [apply P1|exact Hl|];
        pose proof (allthr_lookup _ _ _ _ (P1 t) Hl) as Hpt;
        pose proof (cntl_le_cnt (stg t) _ _ _ Hl) as Hc1; pose proof (cntl_le_cnt (is_unlock t) _ _ _ Hl) as Hc2;
        rewrite cntl_cons in Hc1, Hc2; simpl in Hc1, Hc2;
        unfold PT in Hpt; apply andb_true_iff in Hpt; destruct Hpt as [_ Hok]; apply okU_tail in Hok;
        first [ match goal with |- PT _ ((?a :: ?b :: [IUUnlock _]) ++ _) = _ =>
                  apply (PT_lock t rest [a; b]); [lia|lia|exact Hok|reflexivity|unfold cntl; simpl; rewrite ?Nat.eqb_refl; simpl; lia] end
              | apply (PT_lock t rest []); [lia|lia|exact Hok|reflexivity|unfold cntl; simpl; lia]
              | apply PT_lock; [lia|lia|exact Hok|unfold cntl; simpl; rewrite ?Nat.eqb_refl; reflexivity|unfold cntl; simpl; rewrite ?Nat.eqb_refl; simpl; lia] ]
      | unfold thr'; rewrite allthr_app; apply andb_true_iff; split; [|reflexivity];
        eapply allthr_set_thr; [apply P1|exact Hl|];
        eapply (PT_push tq); [eapply allthr_lookup; [apply P1|exact Hl]
          |cnt_simpl; destruct (Nat.eqb_spec t tq); [congruence|reflexivity]
          |cnt_simpl; unfold B; destruct (Nat.eqb_spec t tq); [congruence|simpl; lia]] ]]).
    1: { (* IUUnlock: G1 *)
      intros tq. hq HQ (is_unlock tq). pose proof (G1 tq) as Hg. unfold B in *. simpl. unfold upd.
      pose proof (HI (is_unlock t)) as Hh. simpl in Hh. rewrite Nat.eqb_refl in Hh. specialize (Hh eq_refl).
      pose proof (G1 t) as Hgt. unfold B in Hgt.
      destruct (Nat.eqb_spec tq t); subst; simpl in *; rewrite ?Nat.eqb_refl in *; simpl in *.
      + destruct (t_ulock (trigs st t)); lia.
      + destruct (Nat.eqb_spec t tq); [congruence|simpl in *; lia].
    }
    1: { (* IUpdFilter: the spawned list is duplicate free *)
      destruct (eval_filter_sub _ _ _ _ _ _ Eflt) as (Hsub & Hnd & _).
      assert (Hn : nodup_b pass = true) by (apply nodup_b_true, Hnd, (rg_nd_tsubs _ HR)).
      hq HQ bad_spawn; rewrite Hn in Hq; simpl in Hq; lia.
    }
    1: { (* IUpdFilter: every accepted subscriber belongs to this trigger *)
      destruct (eval_filter_sub _ _ _ _ _ _ Eflt) as (Hsub & _ & _).
      assert (H0 : cnt (bad_tid (st_log st [GAccept t e pass])) (threads st) = 0)
        by (pose proof (bad_tid_mono st (st_log st [GAccept t e pass]) (threads st) ltac:(intros sq Hsq; simpl; auto)); lia).
      assert (Hf : forallb (fun s0 => (s_tid (subs st s0) =? t) && mem s0 (allsubs st)) pass = true).
      { apply forallb_forall. intros x Hx. apply Hsub in Hx. destruct (rg_tsubs _ HR _ _ Hx) as (_ & Hb & ->).
        rewrite Nat.eqb_refl. simpl. apply mem_In. apply (rg_byid _ HR x Hb). }
      hq HQ (bad_tid (st_log st [GAccept t e pass])); rewrite Hf in Hq; simpl in Hq; lia.
    }
    (* ISpawn: the fan-out starts; no previous children, the spawned list is clean *)
    1-6: (set (isp := fun j => match j with ISpawn t' _ _ => t' =? t | _ => false end);
          assert (Hul : t_ulock (trigs st t) = true /\ cnt (stg t) (threads st) = 1)
            by (pose proof (UD_stage_le st (threads st) t (conj G1 (conj G2 (conj G2n (conj G3 (conj G4 (conj G5 (conj P1 P2)))))))) as Hx;
                pose proof (HI (stg t)) as Hh; simpl in Hh; rewrite Nat.eqb_refl in Hh; specialize (Hh eq_refl);
                destruct (t_ulock (trigs st t)); simpl in Hx; split; auto; lia);
          destruct Hul as [Hul Hst1];
          assert (Hlt : t < ntrig st) by (destruct (le_lt_dec (ntrig st) t) as [Hle|]; auto; destruct (G0 t Hle); congruence);
          assert (Hw0 : cnt (is_wait t) (threads st) = 0)
            by (pose proof (cnt_add_le (is_wait t) isp (stg t) (threads st)
                  ltac:(intros j; destruct j; simpl; try lia; try (destruct (Nat.eqb_spec t0 t); simpl; lia); destruct inl; simpl; lia)) as Hx;
                pose proof (HI isp) as Hh; simpl in Hh; rewrite Nat.eqb_refl in Hh; specialize (Hh eq_refl); lia);
          assert (Hwg : t_wg (trigs st t) = [])
            by (destruct (t_wg (trigs st t)) eqn:Ew; auto; exfalso; assert (Hne : t_wg (trigs st t) <> []) by (rewrite Ew; discriminate);
                specialize (G3 t Hne); lia);
          assert (Hnd : NoDup l)
            by (apply nodup_b_true; destruct (nodup_b l) eqn:En; auto; exfalso;
                pose proof (HI bad_spawn) as Hh; simpl in Hh; rewrite En in Hh; specialize (Hh eq_refl); lia);
          assert (Hbt : forallb (fun s0 => (s_tid (subs st s0) =? t) && mem s0 (allsubs st)) l = true)
            by (destruct (forallb (fun s0 => (s_tid (subs st s0) =? t) && mem s0 (allsubs st)) l) eqn:En; auto; exfalso;
                pose proof (HI (bad_tid st)) as Hh; simpl in Hh; rewrite En in Hh; specialize (Hh eq_refl); lia);
          set (kids := filter (fun s0 => negb (s_removed (subs st s0))) l) in *;
          assert (Hkn : NoDup kids) by (apply NoDup_filter; auto)).
    1: { intros tq sq. pose proof (HQ (is_kiddone tq sq)) as Hq. rewrite cnt_kiddone_map in Hq by auto.
      pose proof (G2 tq sq) as Hg. unfold cntl in Hq. simpl in Hq. simpl. unfold upd.
      destruct (Nat.eqb_spec tq t); subst; simpl.
      + rewrite Nat.eqb_refl in Hq. rewrite Hwg in Hg. simpl in Hg. lia.
      + destruct (Nat.eqb_spec t tq); [congruence|]. lia.
    }
    1: { intros tq. simpl. unfold upd. destruct (Nat.eqb_spec tq t); subst; simpl; auto.
    }
    1: { match goal with |- cnt (bad_tid ?S1) _ = 0 =>
        assert (H0 : cnt (bad_tid S1) (threads st) = 0)
          by (pose proof (bad_tid_mono st S1 (threads st) ltac:(intros sq Hsq; simpl; auto)); lia);
        pose proof (HQ (bad_tid S1)) as Hq end.
      rewrite cnt_map_zero_in in Hq.
      + unfold cntl in Hq. simpl in Hq. rewrite Hbt in Hq. simpl in Hq. lia.
      + intros x Hx. unfold cntl. simpl. unfold kids in Hx. apply filter_In in Hx. destruct Hx as [Hx _].
        rewrite forallb_forall in Hbt. rewrite (Hbt x Hx). reflexivity.
    }
    1: { intros tq. unfold thr'. rewrite allthr_app. apply andb_true_iff. split.
      + eapply allthr_set_thr; [apply P1|exact Hl|].
        eapply (PT_push tq); [eapply allthr_lookup; [apply P1|exact Hl]|reflexivity|unfold cntl, B; simpl; destruct (t =? tq); simpl; lia].
      + apply allthr_map. intros x Hx. reflexivity.
    }
    1: { intros tq sq. unfold thr'. rewrite allthr_app. apply andb_true_iff. split.
      + eapply allthr_set_thr; [apply P2|exact Hl|].
        eapply (PK_push tq sq); [eapply allthr_lookup; [apply P2|exact Hl]|reflexivity|unfold cntl, B; simpl; lia].
      + apply allthr_map. intros x Hx. unfold PK, cntl. simpl. destruct ((t =? tq) && (x =? sq)); reflexivity.
    }
    1: { intros tq Htq. simpl in Htq. simpl. unfold upd. destruct (Nat.eqb_spec tq t); [lia|apply G0; auto].
    }
    1: { (* IWait: only runs when the WaitGroup is empty *)
      intros tq Hw. hq HQ (is_wait tq). destruct (Nat.eqb_spec t tq); subst; [congruence|]. specialize (G3 _ Hw). simpl in *. lia. }
    1: { (* IUSFilter: the single subscriber is registered on this trigger *)
      apply negb_false_iff in Ec. apply mem_In in Ec. destruct (rg_tsubs _ HR _ _ Ec) as (_ & Hb & Ht).
      match goal with |- cnt (bad_tid ?S1) _ = 0 =>
        assert (H0 : cnt (bad_tid S1) (threads st) = 0)
          by (pose proof (bad_tid_mono st S1 (threads st) ltac:(intros sq Hsq; simpl; auto)); lia);
        hq HQ (bad_tid S1) end.
      rewrite Ht, Nat.eqb_refl in Hq. rewrite (proj2 (mem_In s (allsubs st))) in Hq by apply (rg_byid _ HR s Hb). simpl in Hq. lia. }
    (* IKidDone *)
    1: { intros tq sq. hq HQ (is_kiddone tq sq). pose proof (G2 tq sq) as Hg. simpl. unfold upd.
      pose proof (HI (is_kiddone t s)) as Hh. simpl in Hh. rewrite !Nat.eqb_refl in Hh. specialize (Hh eq_refl).
      pose proof (G2 t s) as Hgs.
      destruct (Nat.eqb_spec tq t); subst; simpl.
      - rewrite mem_rem. rewrite Nat.eqb_refl in Hq. simpl in Hq. rewrite (Nat.eqb_sym s sq) in Hq.
        destruct (Nat.eqb_spec sq s); subst; simpl in *.
        + rewrite andb_false_r. simpl. unfold B in *. destruct (mem s (t_wg (trigs st t))); lia.
        + rewrite andb_true_r. lia.
      - destruct (Nat.eqb_spec t tq); [congruence|]. simpl in Hq. lia. }
    1: { intros tq. simpl. unfold upd. destruct (Nat.eqb_spec tq t); subst; simpl; auto. apply NoDup_rem. auto. }
    1: { intros tq Hw. hq HQ (is_wait tq). simpl in Hw. unfold upd in Hw. destruct (Nat.eqb_spec tq t); subst; simpl in Hw.
      - assert (Hne : t_wg (trigs st t) <> []) by (intro E0; rewrite E0 in Hw; apply Hw; reflexivity).
        specialize (G3 _ Hne). lia.
      - specialize (G3 _ Hw). lia. }
    1: { intros tq Htq. simpl in Htq. simpl. unfold upd. destruct (Nat.eqb_spec tq t); subst; simpl; [|apply G0; auto].
      destruct (G0 t Htq) as [A C]. rewrite A, C. auto. }
  Qed.
End DelivStep.

(* instructions that will lock an updater name an existing trigger instance *)
Definition hl (st : state) (i : instr) : bool :=
  match i with IULock t _ | IHookJ _ t | IHookS _ t => ntrig st <=? t | _ => false end.

Lemma hl_mono : forall st st' thr, ntrig st <= ntrig st' -> cnt (hl st') thr <= cnt (hl st) thr.
Proof.
  intros. apply cnt_le. intros i Hi. destruct i; simpl in *; try discriminate;
    apply Nat.leb_le in Hi; apply Nat.leb_le; lia.
Qed.

Section HLStep.
  Variable v : variant.
  Variable flt : sid -> ev -> fres.
  Variable wresf : sid -> ev -> wres.
  Variable ev_bad : ev -> bool.
  Variable hbfail : sid -> bool.
  Notation exec := (exec v flt wresf ev_bad hbfail).

  Lemma HL_astep : forall st th i rest x st1 push sp,
    RG st -> cnt (hl st) (threads st) = 0 ->
    lookup_thr th (threads st) = Some (i :: rest) ->
    exec st i x = Some (st1, push, sp) ->
    cnt (hl st1) (set_thr th (push ++ rest) (threads st) ++ sp) = 0.
  Proof.
    intros st th i rest x st1 push sp HR H0 Hl He.
    assert (HQ : forall p, cnt p (set_thr th (push ++ rest) (threads st) ++ sp) + (if p i then 1 else 0)
                          = cnt p (threads st) + cntl p push + cnt p sp).
    { intros p. rewrite cnt_app. pose proof (cnt_set_thr p th i rest push (threads st) Hl). lia. }
    assert (HI : hl st i = false).
    { destruct (hl st i) eqn:E; auto. pose proof (cnt_lookup_ge (hl st) _ _ _ _ Hl E). lia. }
    assert (Hn : ntrig st <= ntrig st1).
    { pose proof He as He'. exec_cases He'; simpl; auto;
        repeat match goal with
               | E : remove_locked _ _ = _ |- _ => apply remove_locked_frame in E; destruct E as (_ & -> & _)
               | E : remove_many _ _ = _ |- _ => apply remove_many_frame in E; destruct E as (_ & -> & _)
               | E : detach_locked _ _ = _ |- _ => apply detach_locked_frame in E; destruct E as (_ & -> & _)
               | E : detach_many _ _ = _ |- _ => apply detach_many_frame in E; destruct E as (_ & -> & _)
               end; simpl; auto. }
    pose proof (hl_mono st st1 (threads st) Hn) as Hm.
    pose proof (HQ (hl st1)) as Hq.
    assert (Hp : cntl (hl st1) push + cnt (hl st1) sp = 0); [|destruct (hl st1 i); lia].
    clear Hq HQ Hm.
    exec_cases He; simpl in *; cnt_simpl; auto;
      try (apply Nat.leb_gt in HI; repeat match goal with |- context [?a <=? ?b] => destruct (Nat.leb_spec a b); try lia end; simpl; auto; fail).
    1-2: (apply lookup_reg_In in Ec1; destruct (rg_ent _ HR _ _ Ec1) as (Htn & _);
          destruct (Nat.leb_spec (ntrig st) t); simpl; lia).
    1-2: (change (match ntrig st with 0 => false | S m' => ntrig st <=? m' end) with (S (ntrig st) <=? ntrig st);
          rewrite (proj2 (Nat.leb_gt (S (ntrig st)) (ntrig st))) by lia; reflexivity).
    all: unfold after_remove;
         match goal with |- length (filter ?p (?a ++ ?b)) + 0 = 0 =>
           change (cntl p (a ++ b) + 0 = 0); rewrite cntl_app, !cntl_map_zero by auto; reflexivity end.
  Qed.
End HLStep.

(* ---- Claim A: when an event is accepted for trigger t, nothing of t is in flight ---- *)
Definition acc_t (t : tid) (i : instr) : bool :=
  match i with IUpdFilter t' _ | IUSFilter t' _ _ => t' =? t | _ => false end.
Definition infl_in (t : tid) (i : instr) : bool :=     (* in flight inside the U section *)
  match i with ISpawn t' _ _ | IKidLoad t' _ _ true | IKidWrite t' _ _ true => t' =? t | _ => false end.
Definition kidany (t : tid) (i : instr) : bool :=
  match i with IKidLoad t' _ _ false | IKidWrite t' _ _ false => t' =? t | _ => false end.

Lemma cnt_add3_le : forall (p q r u : instr -> bool) thr,
  (forall i, B (p i) + B (q i) + B (r i) <= B (u i)) -> cnt p thr + cnt q thr + cnt r thr <= cnt u thr.
Proof.
  intros p q r u thr H. induction thr as [|[n prog] thr]; simpl; auto.
  assert (cntl p prog + cntl q prog + cntl r prog <= cntl u prog).
  { unfold cntl. induction prog; simpl; auto. specialize (H a). unfold B in H.
    destruct (p a); destruct (q a); destruct (r a); destruct (u a); simpl in *; lia. }
  lia.
Qed.

Lemma claimA : forall st thr th i rest t,
  UDfull st thr -> lookup_thr th thr = Some (i :: rest) -> acc_t t i = true -> cnt (infl_t t) thr = 0.
Proof.
  intros st thr th i rest t [HU G0] Hl Ha.
  pose proof (UD_stage_le st thr t HU) as Hs.
  destruct HU as (G1 & G2 & G2n & G3 & G4 & G5 & P1 & P2).
  assert (Hacc : cnt (acc_t t) thr > 0) by (eapply cnt_lookup_ge; eauto).
  pose proof (cnt_add3_le (acc_t t) (is_wait t) (infl_in t) (stg t) thr) as H3.
  assert (H3' : cnt (acc_t t) thr + cnt (is_wait t) thr + cnt (infl_in t) thr <= cnt (stg t) thr).
  { apply H3. intros j. destruct j; simpl; try lia; try (destruct (Nat.eqb_spec t0 t); simpl; lia);
      destruct inl; simpl; try lia; destruct (Nat.eqb_spec t0 t); simpl; lia. }
  assert (Hb : B (t_ulock (trigs st t)) <= 1) by (unfold B; destruct (t_ulock (trigs st t)); lia).
  assert (Hw : cnt (is_wait t) thr = 0) by lia.
  assert (Hf : cnt (infl_in t) thr = 0) by lia.
  assert (Hwg : t_wg (trigs st t) = []).
  { destruct (t_wg (trigs st t)) eqn:E; auto. exfalso. assert (Hne : t_wg (trigs st t) <> []) by (rewrite E; discriminate).
    specialize (G3 t Hne). lia. }
  assert (Hk : cnt (kidany t) thr = 0).
  { destruct (Nat.eq_dec (cnt (kidany t) thr) 0) as [|Hne]; auto. exfalso.
    assert (Hp : cnt (kidany t) thr > 0) by lia. apply cnt_pos_In in Hp. destruct Hp as (n & prog & j & Hin & Hj & Hkj).
    assert (exists s, kidk t s j = true).
    { destruct j; simpl in Hkj; try discriminate; destruct inl; try discriminate; exists s; simpl; rewrite Hkj, Nat.eqb_refl; auto. }
    destruct H as [s Hs0].
    assert (cnt (kidk t s) thr > 0) by (apply cnt_pos_In; exists n, prog, j; auto).
    pose proof (UD_kid_le st thr t s (conj G1 (conj G2 (conj G2n (conj G3 (conj G4 (conj G5 (conj P1 P2)))))))) as Hle.
    rewrite Hwg in Hle. simpl in Hle. lia. }
  assert (Hle : cnt (infl_t t) thr <= cnt (infl_in t) thr + cnt (kidany t) thr).
  { clear. induction thr as [|[n prog] thr]; simpl; auto.
    assert (cntl (infl_t t) prog <= cntl (infl_in t) prog + cntl (kidany t) prog).
    { unfold cntl. induction prog; simpl; auto. destruct a; simpl; try lia; try (destruct (t0 =? t); simpl; lia);
        destruct inl; destruct (t0 =? t); simpl; lia. }
    lia. }
  lia.
Qed.

(* ---- the delivery invariant ---- *)
Section Deliv.
  Variable v : variant.
  Variable flt : sid -> ev -> fres.
  Variable wresf : sid -> ev -> wres.
  Variable ev_bad : ev -> bool.
  Variable hbfail : sid -> bool.
  Notation exec := (exec v flt wresf ev_bad hbfail).

  Definition accf (s : sid) (o : obs) : list ev :=
    match o with GAccept _ e l => if mem s l && negb (ev_bad e) then [e] else [] | _ => [] end.
  Definition misf (s : sid) (o : obs) : list ev :=
    match o with GMissed s' e => if (s' =? s) && negb (ev_bad e) then [e] else [] | _ => [] end.
  Definition acc (s : sid) (C : list obs) : list ev := flat_map (accf s) C.
  Definition mis (s : sid) (C : list obs) : list ev := flat_map (misf s) C.
  Definition del (s : sid) (C : list obs) : list ev := writes_of s C.

  Definition nfa (s : sid) (i : instr) : bool :=
    match i with
    | ISpawn _ e l => mem s l && negb (ev_bad e)
    | IKidLoad _ s' e _ | IKidWrite _ s' e _ => (s' =? s) && negb (ev_bad e)
    | _ => false
    end.
  Definition nfl (s : sid) (e : ev) (i : instr) : bool :=
    match i with
    | ISpawn _ e' l => mem s l && negb (ev_bad e') && (e' =? e)
    | IKidLoad _ s' e' _ | IKidWrite _ s' e' _ => (s' =? s) && negb (ev_bad e') && (e' =? e)
    | _ => false
    end.

  Definition DOp (st : state) (thr : list (tname * list instr)) (s : sid) : Prop :=
    exists tail,
      acc s (chron st) = del s (chron st) ++ mis s (chron st) ++ tail /\
      (mis s (chron st) <> [] -> s_removed (subs st s) = true) /\
      ((tail = [] /\ cnt (nfa s) thr = 0) \/
       (exists e, tail = [e] /\ cnt (nfa s) thr = 1 /\ cnt (nfl s e) thr = 1)).

  Definition LogOK (st : state) : Prop :=
    (forall t e l, In (GAccept t e l) (log st) ->
       forall s, In s l -> In s (allsubs st) /\ s_tid (subs st s) = t /\ flt s e = FPass) /\
    (forall s e, In (GMissed s e) (log st) -> In s (allsubs st)).

  Lemma acc_app : forall s a b, acc s (a ++ b) = acc s a ++ acc s b. Proof. intros; apply flat_map_app. Qed.
  Lemma mis_app : forall s a b, mis s (a ++ b) = mis s a ++ mis s b. Proof. intros; apply flat_map_app. Qed.
  Lemma del_app : forall s a b, del s (a ++ b) = del s a ++ del s b. Proof. intros; apply flat_map_app. Qed.

  Lemma chron_log : forall st st1 a, log st1 = a ++ log st -> chron st1 = chron st ++ rev a.
  Proof. unfold chron; intros. rewrite H, rev_app_distr. auto. Qed.

  (* a step that neither accepts, misses nor writes for s, and moves nothing in flight for s *)
  Lemma DO_keep : forall st st1 thr thr' s a,
    DOp st thr s -> log st1 = a ++ log st ->
    acc s (rev a) = [] -> del s (rev a) = [] -> mis s (rev a) = [] ->
    (s_removed (subs st s) = true -> s_removed (subs st1 s) = true) ->
    cnt (nfa s) thr' = cnt (nfa s) thr -> (forall e, cnt (nfl s e) thr' = cnt (nfl s e) thr) ->
    DOp st1 thr' s.
  Proof.
    intros st st1 thr thr' s a (tail & H1 & H2 & H3) Hl Ha Hd Hm Hr Hn Hf.
    exists tail. rewrite (chron_log _ _ _ Hl), acc_app, del_app, mis_app, Ha, Hd, Hm, !app_nil_r.
    split; auto. split; [intros Hx; auto|]. rewrite Hn.
    destruct H3 as [H3|(e & E1 & E2 & E3)]; [left; auto|right; exists e; rewrite Hf; auto].
  Qed.

  Lemma proj_quiet_map : forall s A (f : A -> obs) l,
    (forall x, accf s (f x) = [] /\ misf s (f x) = []) ->
    (forall x, match f x with OW _ (CWrite _) | OW _ (CWriteFail _) => False | _ => True end) ->
    acc s (map f l) = [] /\ del s (map f l) = [] /\ mis s (map f l) = [].
  Proof.
    intros s A f l H1 H2. induction l; simpl; auto. destruct IHl as (A1 & A2 & A3).
    destruct (H1 a) as [E1 E2]. unfold acc, mis, del, writes_of in *. simpl. rewrite E1, E2, A1, A3. simpl.
    repeat split; auto. specialize (H2 a). destruct (f a); simpl; auto. destruct c; simpl; auto; tauto.
  Qed.
End Deliv.

Section DelivHelp.
  Variable ev_bad : ev -> bool.
  Notation nfa := (nfa ev_bad).
  Notation nfl := (nfl ev_bad).

  Lemma cnt_le_add : forall (p q r : instr -> bool) thr, (forall i, B (p i) <= B (q i) + B (r i)) -> cnt p thr <= cnt q thr + cnt r thr.
  Proof.
    intros p q r thr H. induction thr as [|[n prog] thr]; simpl; auto.
    assert (cntl p prog <= cntl q prog + cntl r prog).
    { unfold cntl. induction prog; simpl; auto. specialize (H a). unfold B in H.
      destruct (p a); destruct (q a); destruct (r a); simpl in *; lia. }
    lia.
  Qed.

  (* with nothing of trigger t in flight, nothing is in flight for a subscriber of t *)
  Lemma nfa_zero : forall st thr s t, cnt (bad_tid st) thr = 0 -> cnt (infl_t t) thr = 0 ->
    s_tid (subs st s) = t -> cnt (nfa s) thr = 0.
  Proof.
    intros st thr s t Hb Hi Ht.
    pose proof (cnt_le_add (nfa s) (bad_tid st) (infl_t t) thr) as H. cut (cnt (nfa s) thr <= 0); [lia|].
    rewrite <- Hb at 1. rewrite <- (Nat.add_0_r (cnt (bad_tid st) thr)). rewrite <- Hi. apply H.
    intros j. unfold B. destruct j; simpl; try lia.
    - destruct (mem s l) eqn:Em; simpl; [|lia]. destruct (ev_bad e); simpl; [lia|].
      destruct (forallb (fun s0 => (s_tid (subs st s0) =? t0) && mem s0 (allsubs st)) l) eqn:Ef; simpl; [|lia].
      rewrite forallb_forall in Ef. apply mem_In in Em. specialize (Ef s Em). apply andb_true_iff in Ef. destruct Ef as [Ef _].
      apply Nat.eqb_eq in Ef. rewrite Ht in Ef. subst t0. rewrite Nat.eqb_refl. lia.
    - destruct (Nat.eqb_spec s0 s); simpl; [|lia]. subst s0. destruct (ev_bad e); simpl; [lia|].
      rewrite Ht. destruct (Nat.eqb_spec t t0); simpl; [subst; rewrite Nat.eqb_refl; destruct (mem s (allsubs st)); simpl; lia|].
      destruct (mem s (allsubs st)); simpl; lia.
    - destruct (Nat.eqb_spec s0 s); simpl; [|lia]. subst s0. destruct (ev_bad e); simpl; [lia|].
      rewrite Ht. destruct (Nat.eqb_spec t t0); simpl; [subst; rewrite Nat.eqb_refl; destruct (mem s (allsubs st)); simpl; lia|].
      destruct (mem s (allsubs st)); simpl; lia.
  Qed.

  (* two different events cannot both be the single in-flight delivery *)
  Lemma nfl_unique : forall thr s e e', cnt (nfa s) thr <= 1 -> cnt (nfl s e) thr >= 1 -> cnt (nfl s e') thr >= 1 -> e = e'.
  Proof.
    intros thr s e e' Ha He He'. destruct (Nat.eq_dec e e'); auto. exfalso.
    pose proof (cnt_add_le (nfl s e) (nfl s e') (nfa s) thr) as H.
    assert (cnt (nfl s e) thr + cnt (nfl s e') thr <= cnt (nfa s) thr); [|lia].
    apply H. intros j. unfold B. destruct j; simpl; try lia.
    - destruct (mem s l && negb (ev_bad e0)); simpl; [|lia]. destruct (Nat.eqb_spec e0 e); destruct (Nat.eqb_spec e0 e'); simpl; try lia; congruence.
    - destruct ((s0 =? s) && negb (ev_bad e0)); simpl; [|lia]. destruct (Nat.eqb_spec e0 e); destruct (Nat.eqb_spec e0 e'); simpl; try lia; congruence.
    - destruct ((s0 =? s) && negb (ev_bad e0)); simpl; [|lia]. destruct (Nat.eqb_spec e0 e); destruct (Nat.eqb_spec e0 e'); simpl; try lia; congruence.
  Qed.

  Lemma nfl_le_nfa : forall thr s e, cnt (nfl s e) thr <= cnt (nfa s) thr.
  Proof.
    intros. apply cnt_le. intros j Hj. destruct j; simpl in *; try discriminate;
      apply andb_true_iff in Hj; destruct Hj as [Hj _]; auto.
  Qed.
End DelivHelp.

Section DelivHelp2.
  Variable ev_bad : ev -> bool.

  Lemma mis_gone : forall s e (gone : list sid), NoDup gone ->
    mis ev_bad s (rev (map (fun x => GMissed x e) gone)) = if mem s gone && negb (ev_bad e) then [e] else [].
  Proof.
    intros s e gone Hn. rewrite <- map_rev.
    assert (Hr : NoDup (rev gone)) by (apply NoDup_rev; auto).
    assert (Hm : mem s gone = mem s (rev gone)).
    { destruct (mem s gone) eqn:E; symmetry; [apply mem_In, in_rev; rewrite rev_involutive; apply mem_In; auto|].
      apply mem_nIn. intro Hi. apply in_rev in Hi. apply mem_nIn in E. auto. }
    rewrite Hm. clear Hm Hn. induction (rev gone) as [|a l]; simpl; auto.
    inversion Hr; subst. unfold mis in *. simpl. rewrite IHl by auto. rewrite (Nat.eqb_sym s a).
    destruct (Nat.eqb_spec a s); simpl.
    - subst. rewrite (proj2 (mem_nIn s l)) by auto. simpl. destruct (ev_bad e); reflexivity.
    - reflexivity.
  Qed.
  Lemma acc_del_missed_map : forall s e (gone : list sid),
    acc ev_bad s (rev (map (fun x => GMissed x e) gone)) = [] /\ del s (rev (map (fun x => GMissed x e) gone)) = [].
  Proof.
    intros. rewrite <- map_rev. induction (rev gone); simpl; auto.
  Qed.

  Lemma cnt_nfa_kids : forall s t e (kids : list sid), NoDup kids ->
    cnt (nfa ev_bad s) (map (fun x => (TCh x, [IYield PX0; IKidLoad t x e false; IKidDone t x])) kids) = B (mem s kids && negb (ev_bad e)).
  Proof.
    intros s t e kids Hn. induction kids as [|a l]; simpl; auto. inversion Hn; subst. rewrite IHl by auto.
    unfold cntl. simpl. rewrite (Nat.eqb_sym s a). destruct (Nat.eqb_spec a s); simpl.
    - subst. rewrite (proj2 (mem_nIn s l)) by auto. simpl. destruct (ev_bad e); reflexivity.
    - reflexivity.
  Qed.
  Lemma cnt_nfl_kids : forall s e0 t e (kids : list sid), NoDup kids ->
    cnt (nfl ev_bad s e0) (map (fun x => (TCh x, [IYield PX0; IKidLoad t x e false; IKidDone t x])) kids)
    = B (mem s kids && negb (ev_bad e) && (e =? e0)).
  Proof.
    intros s e0 t e kids Hn. induction kids as [|a l]; simpl; auto. inversion Hn; subst. rewrite IHl by auto.
    unfold cntl. simpl. rewrite (Nat.eqb_sym s a). destruct (Nat.eqb_spec a s); simpl.
    - subst. rewrite (proj2 (mem_nIn s l)) by auto. simpl. destruct (ev_bad e); simpl; [reflexivity|]. destruct (e =? e0); reflexivity.
    - reflexivity.
  Qed.

  Lemma mem_filter_split : forall (f : sid -> bool) s l, mem s l = mem s (filter f l) || mem s (filter (fun x => negb (f x)) l).
  Proof.
    intros. induction l; simpl; auto. unfold mem in *. simpl. destruct (f a) eqn:E; simpl; rewrite IHl.
    - destruct (s =? a); simpl; auto.
    - destruct (s =? a); simpl; auto. rewrite orb_true_r. auto.
  Qed.

  (* removal regions do not touch deliveries *)
  Lemma DO_removal : forall st stp st0 r thr thr' s a0,
    DOp ev_bad st thr s -> RM stp st0 r -> log stp = a0 ++ log st ->
    acc ev_bad s (rev a0) = [] -> del s (rev a0) = [] -> mis ev_bad s (rev a0) = [] ->
    (forall x, subs stp x = subs st x) ->
    cnt (nfa ev_bad s) thr' = cnt (nfa ev_bad s) thr -> (forall e, cnt (nfl ev_bad s e) thr' = cnt (nfl ev_bad s e) thr) ->
    DOp ev_bad (emit st0 (dec_obs r)) thr' s.
  Proof.
    intros st stp st0 r thr thr' s a0 HD HM Hl A1 A2 A3 Hs Hn Hf.
    eapply (DO_keep ev_bad) with (a := rev (dec_obs r) ++ map GRemoved (rev (rr_close r)) ++ a0); [exact HD| | | | | |exact Hn|exact Hf].
    - unfold emit. simpl. rewrite (rm_log _ _ _ HM), Hl, !app_assoc. reflexivity.
    - rewrite !rev_app_distr, rev_involutive, !acc_app, A1. simpl.
      assert (acc ev_bad s (rev (map GRemoved (rev (rr_close r)))) = []) by (rewrite <- map_rev; induction (rev (rev (rr_close r))); simpl; auto).
      rewrite H. unfold dec_obs. destruct (rr_dec r =? 0); reflexivity.
    - rewrite !rev_app_distr, rev_involutive, !del_app, A2. simpl.
      assert (del s (rev (map GRemoved (rev (rr_close r)))) = []) by (rewrite <- map_rev; induction (rev (rev (rr_close r))); simpl; auto).
      rewrite H. unfold dec_obs. destruct (rr_dec r =? 0); reflexivity.
    - rewrite !rev_app_distr, rev_involutive, !mis_app, A3. simpl.
      assert (mis ev_bad s (rev (map GRemoved (rev (rr_close r)))) = []) by (rewrite <- map_rev; induction (rev (rev (rr_close r))); simpl; auto).
      rewrite H. unfold dec_obs. destruct (rr_dec r =? 0); reflexivity.
    - simpl. rewrite (rm_subs _ _ _ HM), Hs. destruct (mem s (rr_close r)); simpl; auto.
  Qed.
End DelivHelp2.

Section KWStep.
  Variable v : variant.
  Variable flt : sid -> ev -> fres.
  Variable wresf : sid -> ev -> wres.
  Variable ev_bad : ev -> bool.
  Variable hbfail : sid -> bool.
  Notation exec := (exec v flt wresf ev_bad hbfail).

  Definition kwbad (i : instr) : bool := match i with IKidWrite _ _ e _ => ev_bad e | _ => false end.

  Lemma KW_astep : forall st th i rest x st1 push sp,
    cnt kwbad (threads st) = 0 ->
    lookup_thr th (threads st) = Some (i :: rest) ->
    exec st i x = Some (st1, push, sp) ->
    cnt kwbad (set_thr th (push ++ rest) (threads st) ++ sp) = 0.
  Proof.
    intros st th i rest x st1 push sp H0 Hl He.
    assert (HQ : forall p, cnt p (set_thr th (push ++ rest) (threads st) ++ sp) + (if p i then 1 else 0)
                          = cnt p (threads st) + cntl p push + cnt p sp).
    { intros p. rewrite cnt_app. pose proof (cnt_set_thr p th i rest push (threads st) Hl). lia. }
    pose proof (HQ kwbad) as Hq. assert (Hp : cntl kwbad push + cnt kwbad sp = 0); [|destruct (kwbad i); lia].
    clear Hq HQ.
    exec_cases He; simpl in *; cnt_simpl; auto; try (rewrite ?Ec; reflexivity).
    all: unfold after_remove;
         match goal with |- length (filter ?p (?a ++ ?b)) + 0 = 0 =>
           change (cntl p (a ++ b) + 0 = 0); rewrite cntl_app, !cntl_map_zero by auto; reflexivity end.
  Qed.
End KWStep.

Section DelivStep2.
  Variable v : variant.
  Variable flt : sid -> ev -> fres.
  Variable wresf : sid -> ev -> wres.
  Variable ev_bad : ev -> bool.
  Variable hbfail : sid -> bool.
  Notation exec := (exec v flt wresf ev_bad hbfail).
  Notation DOp := (DOp ev_bad).
  Notation LogOK := (LogOK flt).

  Lemma DO_astep : forall st th i rest x st1 push sp,
    RG st -> UDfull st (threads st) -> WC st -> cnt (kwbad ev_bad) (threads st) = 0 -> (forall s, DOp st (threads st) s) ->
    lookup_thr th (threads st) = Some (i :: rest) ->
    exec st i x = Some (st1, push, sp) ->
    forall s, DOp st1 (set_thr th (push ++ rest) (threads st) ++ sp) s.
  Proof.
    intros st th i rest x st1 push sp HR HU HW HK HD Hl He s0.
    assert (HQ : forall p, cnt p (set_thr th (push ++ rest) (threads st) ++ sp) + (if p i then 1 else 0)
                          = cnt p (threads st) + cntl p push + cnt p sp).
    { intros p. rewrite cnt_app. pose proof (cnt_set_thr p th i rest push (threads st) Hl). lia. }
    assert (HI : forall p, p i = true -> cnt p (threads st) > 0) by (intros p Hp; eapply cnt_lookup_ge; eauto).
    specialize (HD s0) as HD0.
    set (thr' := set_thr th (push ++ rest) (threads st) ++ sp) in *.
    exec_cases He;
      try (solve [eapply (DO_keep ev_bad);
        [exact HD0
        |first [ instantiate (1 := []); reflexivity
               | simpl; match goal with |- ?a :: ?b :: log _ = _ => instantiate (1 := [a; b]); reflexivity end
               | simpl; match goal with |- ?a :: log _ = _ => instantiate (1 := [a]); reflexivity end
               | simpl; reflexivity ]
        |reflexivity|simpl; unfold del, writes_of; simpl; try reflexivity; repeat (destruct (_ =? _); simpl; try reflexivity)|reflexivity
        |simpl; unfold upd; repeat (match goal with |- context [Nat.eqb ?a ?b] => destruct (Nat.eqb_spec a b); subst end); simpl; auto
        |hq HQ (nfa ev_bad s0); lia
        |intros e0; hq HQ (nfl ev_bad s0 e0); lia]]).
    (* addSubscription: the new subscriber has nothing delivered, missed or in flight *)
    1-4: (eapply (DO_keep ev_bad);
          [exact HD0
          |simpl; match goal with |- ?a :: ?b :: log _ = _ => instantiate (1 := [a; b]); reflexivity end
          |reflexivity|reflexivity|reflexivity
          |simpl; unfold upd; destruct (Nat.eqb_spec s0 s); subst; simpl; auto;
           intros Hx; destruct (wc_fresh _ HW s (proj1 (mem_nIn _ _) Ec)); congruence
          |hq HQ (nfa ev_bad s0); lia
          |intros e0; hq HQ (nfl ev_bad s0 e0); lia]).
    (* removal regions *)
    1: { eapply (DO_removal ev_bad st (st_log st (if mem s (allsubs st) then [GLeft s] else [])));
         [exact HD0|eapply RM_remove_locked; [eapply RG_ext; [|exact HR]; reg_eq_tac|exact Erm]|reflexivity
         |destruct (mem s (allsubs st)); reflexivity|destruct (mem s (allsubs st)); reflexivity|destruct (mem s (allsubs st)); reflexivity
         |reflexivity
         |pose proof (HQ (nfa ev_bad s0)) as Hq; unfold after_remove in Hq; rewrite cntl_app, !cntl_map_zero in Hq by auto; simpl in Hq; lia
         |intros e0; pose proof (HQ (nfl ev_bad s0 e0)) as Hq; unfold after_remove in Hq; rewrite cntl_app, !cntl_map_zero in Hq by auto; simpl in Hq; lia]. }
    1: { assert (Hmq : forall (l0 : list sid), acc ev_bad s0 (rev (map GLeft l0)) = [] /\ del s0 (rev (map GLeft l0)) = [] /\ mis ev_bad s0 (rev (map GLeft l0)) = [])
           by (intros l0; rewrite <- map_rev; induction (rev l0); simpl; auto).
         destruct (Hmq (of_conn st c (allsubs st))) as (M1 & M2 & M3).
         eapply (DO_removal ev_bad st (st_log st (map GLeft (of_conn st c (allsubs st)))));
         [exact HD0|eapply RM_remove_many; [eapply RG_ext; [|exact HR]; reg_eq_tac|exact Erm]|reflexivity
         |exact M1|exact M2|exact M3
         |reflexivity
         |pose proof (HQ (nfa ev_bad s0)) as Hq; unfold after_remove in Hq; rewrite cntl_app, !cntl_map_zero in Hq by auto; simpl in Hq; lia
         |intros e0; pose proof (HQ (nfl ev_bad s0 e0)) as Hq; unfold after_remove in Hq; rewrite cntl_app, !cntl_map_zero in Hq by auto; simpl in Hq; lia]. }
    1: { assert (HM : RM (st_flags st true (rctx st)) st0 r).
         { eapply RM_detach_many; [eapply RG_ext; [|exact HR]; reg_eq_tac| | |exact Erm]; simpl; auto.
           apply (NoDup_tids (fun t => t_key (trigs st t))); [apply (rg_keys _ HR)|]. intros k t Hi. apply (rg_ent _ HR _ _ Hi). }
         assert (HX : DOp (emit st0 (dec_obs r)) thr' s0).
         { eapply (DO_removal ev_bad st (st_flags st true (rctx st))) with (a0 := []);
           [exact HD0|exact HM|reflexivity|reflexivity|reflexivity|reflexivity|reflexivity
           |pose proof (HQ (nfa ev_bad s0)) as Hq; unfold after_remove in Hq; rewrite cntl_app, !cntl_map_zero in Hq by auto; simpl in Hq; lia
           |intros e0; pose proof (HQ (nfl ev_bad s0 e0)) as Hq; unfold after_remove in Hq; rewrite cntl_app, !cntl_map_zero in Hq by auto; simpl in Hq; lia]. }
         exact HX. }
    1: { assert (Hreg0 : In (t_key (trigs st t0), t0) (reg st)).
         { destruct (fix_c v).
           - destruct (is_reg st t) eqn:Er; inversion Ec; subst. apply is_reg_true; auto.
           - apply lookup_reg_In in Ec. destruct (rg_ent _ HR _ _ Ec) as (_ & Bk & _). rewrite Bk. exact Ec. }
         eapply (DO_removal ev_bad st st) with (a0 := []);
         [exact HD0|eapply RM_detach_locked; eauto|reflexivity|reflexivity|reflexivity|reflexivity|reflexivity
         |pose proof (HQ (nfa ev_bad s0)) as Hq; unfold after_remove in Hq; rewrite cntl_app, !cntl_map_zero in Hq by auto; simpl in Hq; lia
         |intros e0; pose proof (HQ (nfl ev_bad s0 e0)) as Hq; unfold after_remove in Hq; rewrite cntl_app, !cntl_map_zero in Hq by auto; simpl in Hq; lia]. }
    1: { (* IUpdFilter: acceptance; by claim A nothing is in flight for the accepted subscribers *)
      destruct (eval_filter_sub _ _ _ _ _ _ Eflt) as (Hsub & Hnd & Hfp).
      destruct (mem s0 pass && negb (ev_bad e)) eqn:Em.
      - apply andb_true_iff in Em. destruct Em as [Em Eb].
        assert (Ht : s_tid (subs st s0) = t) by (apply mem_In in Em; apply Hsub in Em; apply (rg_tsubs _ HR _ _ Em)).
        assert (Hca : cnt (infl_t t) (threads st) = 0) by (eapply claimA; [exact HU|exact Hl|simpl; apply Nat.eqb_refl]).
        destruct HU as [(G1 & G2 & G2n & G3 & G4 & G5 & P1 & P2) G0].
        pose proof (nfa_zero ev_bad st (threads st) s0 t G5 Hca Ht) as Hz.
        destruct HD0 as (tail & H1 & H2 & [[-> Hc]|(e' & -> & Hc & _)]); [|lia].
        exists [e]. unfold chron in *. simpl. rewrite acc_app, del_app, mis_app. simpl. rewrite Em, Eb. simpl.
        rewrite !app_nil_r in *. split; [rewrite H1; rewrite <- !app_assoc; reflexivity|]. split; [exact H2|].
        right. exists e. split; auto. split.
        + hq HQ (nfa ev_bad s0); rewrite Em, Eb in Hq; simpl in Hq; lia.
        + pose proof (nfl_le_nfa ev_bad (threads st) s0 e).
          hq HQ (nfl ev_bad s0 e); rewrite Em, Eb, Nat.eqb_refl in Hq; simpl in Hq; lia.
      - eapply (DO_keep ev_bad) with (a := [GAccept t e pass]); [exact HD0|reflexivity|simpl; rewrite Em; reflexivity|reflexivity|reflexivity|auto| |].
        + hq HQ (nfa ev_bad s0); rewrite Em in Hq; simpl in Hq; lia.
        + intros e0. hq HQ (nfl ev_bad s0 e0); rewrite Em in Hq; simpl in Hq; lia. }
    1: { (* ISpawn: removed subscribers miss the event, the others get a child *)
      destruct HU as [(G1 & G2 & G2n & G3 & G4 & G5 & P1 & P2) G0].
      assert (Hnd : NoDup l)
        by (apply nodup_b_true; destruct (nodup_b l) eqn:En; auto; exfalso;
            pose proof (HI bad_spawn) as Hh; simpl in Hh; rewrite En in Hh; specialize (Hh eq_refl); lia).
      set (kids := filter (fun s1 => negb (s_removed (subs st s1))) l) in *.
      set (gone := filter (fun s1 => s_removed (subs st s1)) l) in *.
      assert (Hkn : NoDup kids) by (apply NoDup_filter; auto).
      assert (Hgn : NoDup gone) by (apply NoDup_filter; auto).
      assert (Hsplit : mem s0 l = mem s0 gone || mem s0 kids) by (apply (mem_filter_split (fun s1 => s_removed (subs st s1)))).
      assert (Hgr : mem s0 gone = true -> s_removed (subs st s0) = true)
        by (intros Hx; apply mem_In in Hx; apply filter_In in Hx; tauto).
      assert (Hkr : mem s0 kids = true -> s_removed (subs st s0) = false)
        by (intros Hx; apply mem_In in Hx; apply filter_In in Hx; destruct Hx as [_ Hx]; apply negb_true_iff in Hx; auto).
      destruct (acc_del_missed_map ev_bad s0 e gone) as [A1 A2].
      pose proof (mis_gone ev_bad s0 e gone Hgn) as A3.
      pose proof (HQ (nfa ev_bad s0)) as Qa. rewrite cnt_nfa_kids in Qa by auto. unfold cntl in Qa. simpl in Qa.
      assert (Qf : forall e0, cnt (nfl ev_bad s0 e0) thr' + (if nfl ev_bad s0 e0 (ISpawn t e l) then 1 else 0)
                             = cnt (nfl ev_bad s0 e0) (threads st) + 0 + B (mem s0 kids && negb (ev_bad e) && (e =? e0))).
      { intros e0. pose proof (HQ (nfl ev_bad s0 e0)) as Hq. rewrite cnt_nfl_kids in Hq by auto. unfold cntl in Hq. simpl in Hq. exact Hq. }
      assert (Hch : chron (st_log (st_trg st t (trg_set_wg (trigs st t) kids)) (map (fun s1 => GMissed s1 e) gone))
                    = chron st ++ rev (map (fun s1 => GMissed s1 e) gone)) by (unfold chron; simpl; rewrite rev_app_distr; reflexivity).
      destruct (mem s0 l && negb (ev_bad e)) eqn:Em.
      - apply andb_true_iff in Em. destruct Em as [Em Eb]. rewrite Em, Eb in *. simpl in Qa.
        pose proof (HI (nfl ev_bad s0 e)) as Hh. simpl in Hh. rewrite Em, Eb, Nat.eqb_refl in Hh. specialize (Hh eq_refl).
        destruct HD0 as (tail & H1 & H2 & [[-> Hc]|(e' & -> & Hc & Hce)]).
        + exfalso. pose proof (nfl_le_nfa ev_bad (threads st) s0 e). lia.
        + assert (e = e') by (eapply (nfl_unique ev_bad (threads st) s0); lia). subst e'.
          pose proof (Qf e) as Qe. simpl in Qe. rewrite Em, Eb, Nat.eqb_refl in Qe. simpl in Qe.
          destruct (s_removed (subs st s0)) eqn:Er.
          * assert (Ek : mem s0 kids = false) by (destruct (mem s0 kids) eqn:E1; auto; specialize (Hkr eq_refl); congruence).
            assert (Eg : mem s0 gone = true) by (rewrite Ek, orb_false_r in Hsplit; congruence).
            rewrite Eg in A3. simpl in A3. rewrite Ek in Qa. simpl in Qa.
            exists []. rewrite Hch, acc_app, del_app, mis_app, A1, A2, A3, !app_nil_r.
            split; [rewrite H1; rewrite ?app_nil_r, <- ?app_assoc; reflexivity|]. split; [intros _; exact Er|].
            left. split; auto. fold thr' in Qa. lia.
          * assert (Eg : mem s0 gone = false) by (destruct (mem s0 gone) eqn:E1; auto; specialize (Hgr eq_refl); congruence).
            assert (Ek : mem s0 kids = true) by (rewrite Eg in Hsplit; simpl in Hsplit; congruence).
            rewrite Eg in A3. simpl in A3. rewrite Ek in Qa, Qe. simpl in Qa, Qe.
            exists [e]. rewrite Hch, acc_app, del_app, mis_app, A1, A2, A3, !app_nil_r.
            split; [exact H1|]. split; [intros Hx; simpl; rewrite Er; exact (H2 Hx)|].
            right. exists e. split; auto. fold thr' in Qa. split; lia.
      - assert (Ek : mem s0 kids && negb (ev_bad e) = false).
        { destruct (mem s0 kids) eqn:E1; auto. rewrite orb_true_r in Hsplit. rewrite Hsplit in Em. exact Em. }
        assert (Eg : mem s0 gone && negb (ev_bad e) = false).
        { destruct (mem s0 gone) eqn:E1; auto. simpl in Hsplit. rewrite Hsplit in Em. exact Em. }
        rewrite Eg in A3. rewrite Ek in Qa. simpl in Qa.
        eapply (DO_keep ev_bad) with (a := map (fun s1 => GMissed s1 e) gone); [exact HD0|reflexivity|exact A1|exact A2|exact A3|auto| |].
        + fold thr' in Qa. lia.
        + intros e0. pose proof (Qf e0) as Qe. simpl in Qe. rewrite Em, Ek in Qe. simpl in Qe. lia. }
    (* IUSFilter (UpdateSubscription): acceptance for one subscriber *)
    1-2: (apply negb_false_iff in Ec; apply mem_In in Ec; destruct (rg_tsubs _ HR _ _ Ec) as (_ & Hb & Ht);
          assert (Hca : cnt (infl_t t) (threads st) = 0) by (eapply claimA; [exact HU|exact Hl|simpl; apply Nat.eqb_refl]);
          destruct HU as [(G1 & G2 & G2n & G3 & G4 & G5 & P1 & P2) G0];
          pose proof (nfa_zero ev_bad st (threads st) s t G5 Hca Ht) as Hz).
    1: { destruct ((s =? s0) && negb (ev_bad e)) eqn:Em.
      - apply andb_true_iff in Em. destruct Em as [Em Eb]. apply Nat.eqb_eq in Em. subst s0.
        destruct HD0 as (tail & H1 & H2 & [[-> Hc]|(e' & -> & Hc & _)]); [|lia].
        exists []. unfold chron in *. simpl. rewrite !acc_app, !del_app, !mis_app. simpl. unfold mem. simpl. rewrite Nat.eqb_refl, Eb. simpl.
        rewrite !app_nil_r in *. split; [rewrite H1; rewrite <- ?app_assoc; reflexivity|]. split; [intros _; exact Ec2|].
        left. split; auto. hq HQ (nfa ev_bad s). lia.
      - eapply (DO_keep ev_bad) with (a := [GMissed s e; GAccept t e [s]]); [exact HD0|reflexivity| |reflexivity| |auto| |].
        + simpl. unfold mem. simpl. rewrite (Nat.eqb_sym s0 s). destruct (s =? s0); simpl in *; [rewrite Em|]; reflexivity.
        + simpl. rewrite Em. reflexivity.
        + hq HQ (nfa ev_bad s0). lia.
        + intros e0. hq HQ (nfl ev_bad s0 e0). lia. }
    1: { destruct ((s =? s0) && negb (ev_bad e)) eqn:Em.
      - apply andb_true_iff in Em. destruct Em as [Em Eb]. apply Nat.eqb_eq in Em. subst s0.
        destruct HD0 as (tail & H1 & H2 & [[-> Hc]|(e' & -> & Hc & _)]); [|lia].
        exists [e]. unfold chron in *. simpl. rewrite !acc_app, !del_app, !mis_app. simpl. unfold mem. simpl. rewrite Nat.eqb_refl, Eb. simpl.
        rewrite !app_nil_r in *. split; [rewrite H1; rewrite <- ?app_assoc; reflexivity|]. split; [exact H2|].
        right. exists e. split; auto. split.
        + hq HQ (nfa ev_bad s). rewrite Nat.eqb_refl, Eb in Hq. simpl in Hq. lia.
        + hq HQ (nfl ev_bad s e). rewrite !Nat.eqb_refl, Eb in Hq. simpl in Hq. pose proof (nfl_le_nfa ev_bad (threads st) s e). lia.
      - eapply (DO_keep ev_bad) with (a := [GAccept t e [s]]); [exact HD0|reflexivity| |reflexivity|reflexivity|auto| |].
        + simpl. unfold mem. simpl. rewrite (Nat.eqb_sym s0 s). destruct (s =? s0); simpl in *; [rewrite Em|]; reflexivity.
        + hq HQ (nfa ev_bad s0). rewrite Em in Hq. simpl in Hq. lia.
        + intros e0. hq HQ (nfl ev_bad s0 e0). rewrite Em in Hq. simpl in Hq. lia. }
    1: { (* IKidLoad: same delivery, next stage *)
      eapply (DO_keep ev_bad) with (a := []); [exact HD0|reflexivity|reflexivity|reflexivity|reflexivity|auto| |].
      - pose proof (HQ (nfa ev_bad s0)) as Hq. unfold cntl in Hq. simpl in Hq. destruct (s =? s0); destruct (ev_bad e); simpl in Hq; lia.
      - intros e0. pose proof (HQ (nfl ev_bad s0 e0)) as Hq. unfold cntl in Hq. simpl in Hq.
        destruct (s =? s0); destruct (ev_bad e); destruct (e =? e0); simpl in Hq; lia. }
    (* IKidWrite: the W_s region decides between delivered and missed *)
    1-4: (assert (Eb : negb (ev_bad e) = true)
            by (destruct (ev_bad e) eqn:E0; auto; exfalso; pose proof (HI (kwbad ev_bad)) as Hh; simpl in Hh; specialize (Hh E0); lia)).
    1: { destruct (Nat.eqb_spec s s0) as [->|Hne].
      - pose proof (HI (nfl ev_bad s0 e)) as Hh. simpl in Hh. rewrite Nat.eqb_refl, Eb, Nat.eqb_refl in Hh. specialize (Hh eq_refl).
        destruct HD0 as (tail & H1 & H2 & [[-> Hc]|(e' & -> & Hc & Hce)]); [exfalso; pose proof (nfl_le_nfa ev_bad (threads st) s0 e); lia|].
        assert (e = e') by (eapply (nfl_unique ev_bad (threads st) s0); lia). subst e'.
        exists []. unfold chron in *. simpl. rewrite !acc_app, !del_app, !mis_app. simpl. rewrite Nat.eqb_refl, Eb. simpl.
        rewrite !app_nil_r in *. split; [rewrite H1; rewrite <- ?app_assoc; reflexivity|]. split; [intros _; assumption|].
        left. split; auto. hq HQ (nfa ev_bad s0). rewrite Nat.eqb_refl, Eb in Hq. simpl in Hq. lia.
      - eapply (DO_keep ev_bad) with (a := [GMissed s e]); [exact HD0|reflexivity|reflexivity|reflexivity| |auto| |].
        + simpl. destruct (Nat.eqb_spec s s0); [congruence|reflexivity].
        + hq HQ (nfa ev_bad s0). destruct (Nat.eqb_spec s s0); [congruence|]. simpl in Hq. lia.
        + intros e0. hq HQ (nfl ev_bad s0 e0). destruct (Nat.eqb_spec s s0); [congruence|]. simpl in Hq. lia. }
    1: { destruct (Nat.eqb_spec s s0) as [->|Hne].
      - pose proof (HI (nfl ev_bad s0 e)) as Hh. simpl in Hh. rewrite Nat.eqb_refl, Eb, Nat.eqb_refl in Hh. specialize (Hh eq_refl).
        destruct HD0 as (tail & H1 & H2 & [[-> Hc]|(e' & -> & Hc & Hce)]); [exfalso; pose proof (nfl_le_nfa ev_bad (threads st) s0 e); lia|].
        assert (e = e') by (eapply (nfl_unique ev_bad (threads st) s0); lia). subst e'.
        assert (Hm0 : mis ev_bad s0 (chron st) = []).
        { destruct (mis ev_bad s0 (chron st)) eqn:E0; auto. specialize (H2 ltac:(discriminate)). congruence. }
        exists []. unfold chron in *. simpl. rewrite !acc_app, !del_app, !mis_app. simpl. rewrite Nat.eqb_refl. simpl.
        rewrite Hm0 in *. rewrite !app_nil_r in *. simpl in *. split; [rewrite H1; rewrite <- ?app_assoc; reflexivity|]. split; [intros Hx; congruence|].
        left. split; auto. hq HQ (nfa ev_bad s0). rewrite Nat.eqb_refl, Eb in Hq. simpl in Hq. lia.
      - eapply (DO_keep ev_bad); [exact HD0|simpl; match goal with |- ?a :: log _ = _ => instantiate (1 := [a]); reflexivity end
          |reflexivity|simpl; unfold del, writes_of; simpl; destruct (Nat.eqb_spec s s0); [congruence|reflexivity]|reflexivity|auto| |].
        + hq HQ (nfa ev_bad s0). destruct (Nat.eqb_spec s s0); [congruence|]. simpl in Hq. lia.
        + intros e0. hq HQ (nfl ev_bad s0 e0). destruct (Nat.eqb_spec s s0); [congruence|]. simpl in Hq. lia. }
    1: { destruct (Nat.eqb_spec s s0) as [->|Hne].
      - pose proof (HI (nfl ev_bad s0 e)) as Hh. simpl in Hh. rewrite Nat.eqb_refl, Eb, Nat.eqb_refl in Hh. specialize (Hh eq_refl).
        destruct HD0 as (tail & H1 & H2 & [[-> Hc]|(e' & -> & Hc & Hce)]); [exfalso; pose proof (nfl_le_nfa ev_bad (threads st) s0 e); lia|].
        assert (e = e') by (eapply (nfl_unique ev_bad (threads st) s0); lia). subst e'.
        assert (Hm0 : mis ev_bad s0 (chron st) = []).
        { destruct (mis ev_bad s0 (chron st)) eqn:E0; auto. specialize (H2 ltac:(discriminate)). congruence. }
        exists []. unfold chron in *. simpl. rewrite !acc_app, !del_app, !mis_app. simpl. rewrite Nat.eqb_refl. simpl.
        rewrite Hm0 in *. rewrite !app_nil_r in *. simpl in *. split; [rewrite H1; rewrite <- ?app_assoc; reflexivity|]. split; [intros Hx; congruence|].
        left. split; auto. hq HQ (nfa ev_bad s0). rewrite Nat.eqb_refl, Eb in Hq. simpl in Hq. lia.
      - eapply (DO_keep ev_bad); [exact HD0|simpl; match goal with |- ?a :: log _ = _ => instantiate (1 := [a]); reflexivity end
          |reflexivity|simpl; unfold del, writes_of; simpl; destruct (Nat.eqb_spec s s0); [congruence|reflexivity]|reflexivity|auto| |].
        + hq HQ (nfa ev_bad s0). destruct (Nat.eqb_spec s s0); [congruence|]. simpl in Hq. lia.
        + intros e0. hq HQ (nfl ev_bad s0 e0). destruct (Nat.eqb_spec s s0); [congruence|]. simpl in Hq. lia. }
    1: { destruct (Nat.eqb_spec s s0) as [->|Hne].
      - pose proof (HI (nfl ev_bad s0 e)) as Hh. simpl in Hh. rewrite Nat.eqb_refl, Eb, Nat.eqb_refl in Hh. specialize (Hh eq_refl).
        destruct HD0 as (tail & H1 & H2 & [[-> Hc]|(e' & -> & Hc & Hce)]); [exfalso; pose proof (nfl_le_nfa ev_bad (threads st) s0 e); lia|].
        assert (e = e') by (eapply (nfl_unique ev_bad (threads st) s0); lia). subst e'.
        assert (Hm0 : mis ev_bad s0 (chron st) = []).
        { destruct (mis ev_bad s0 (chron st)) eqn:E0; auto. specialize (H2 ltac:(discriminate)). congruence. }
        exists []. unfold chron in *. simpl. rewrite !acc_app, !del_app, !mis_app. simpl. rewrite Nat.eqb_refl. simpl.
        rewrite Hm0 in *. rewrite !app_nil_r in *. simpl in *. split; [rewrite H1; rewrite <- ?app_assoc; reflexivity|]. split; [intros Hx; congruence|].
        left. split; auto. hq HQ (nfa ev_bad s0). rewrite Nat.eqb_refl, Eb in Hq. simpl in Hq. lia.
      - eapply (DO_keep ev_bad); [exact HD0|simpl; match goal with |- ?a :: log _ = _ => instantiate (1 := [a]); reflexivity end
          |reflexivity|simpl; unfold del, writes_of; simpl; destruct (Nat.eqb_spec s s0); [congruence|reflexivity]|reflexivity|auto| |].
        + hq HQ (nfa ev_bad s0). destruct (Nat.eqb_spec s s0); [congruence|]. simpl in Hq. lia.
        + intros e0. hq HQ (nfl ev_bad s0 e0). destruct (Nat.eqb_spec s s0); [congruence|]. simpl in Hq. lia. }
    1: { destruct c; (eapply (DO_keep ev_bad); [exact HD0|simpl; match goal with |- ?a :: log _ = _ => instantiate (1 := [a]); reflexivity end
           |reflexivity|reflexivity|reflexivity|auto|hq HQ (nfa ev_bad s0); lia|intros e0; hq HQ (nfl ev_bad s0 e0); lia]). }
    (* IWCont: the second call of a writer region is never a Write *)
    1: { destruct w; (eapply (DO_keep ev_bad); [exact HD0|simpl; match goal with |- ?a :: ?b :: log _ = _ => instantiate (1 := [a; b]); reflexivity end
           |reflexivity|reflexivity|reflexivity|auto|hq HQ (nfa ev_bad s0); lia|intros e0; hq HQ (nfl ev_bad s0 e0); lia]). }
  Qed.
End DelivStep2.

(* ---- along every run of the repaired model ---- *)
Section DelivMain.
  Variable flt : sid -> ev -> fres.
  Variable wresf : sid -> ev -> wres.
  Variable ev_bad : ev -> bool.
  Variable hbfail : sid -> bool.
  Notation reach := (reachable fixed flt wresf ev_bad hbfail).
  Notation stepf := (step fixed flt wresf ev_bad hbfail).
  Notation execf := (exec fixed flt wresf ev_bad hbfail).

  Definition AO (st : state) : Prop :=
    forall t e l, In (GAccept t e l) (log st) -> forall s, In s l -> flt s e = FPass.

  Definition DI (st : state) : Prop :=
    RG st /\ WC st /\ WT st /\ UDfull st (threads st) /\ cnt (hl st) (threads st) = 0 /\
    cnt (kwbad ev_bad) (threads st) = 0 /\ (forall s, DOp ev_bad st (threads st) s) /\ AO st.

  Lemma AO_exec : forall st i x st1 push sp, RG st -> AO st -> execf st i x = Some (st1, push, sp) -> AO st1.
  Proof.
    intros st i x st1 push sp HR H He. unfold AO in *.
    assert (Hgen : forall a, log st1 = a ++ log st -> (forall t e l, In (GAccept t e l) a -> forall s, In s l -> flt s e = FPass) ->
                   forall t e l, In (GAccept t e l) (log st1) -> forall s, In s l -> flt s e = FPass).
    { intros a Hl Ha t e l Hi s Hs. rewrite Hl in Hi. apply in_app_iff in Hi. destruct Hi; eauto. }
    exec_cases He;
      try (solve [apply (Hgen []); [reflexivity|intros ? ? ? []]]);
      try (solve [simpl; intros t0 e0 l0 [Hx|Hi]; [discriminate|eauto]]);
      try (solve [simpl; intros t0 e0 l0 [Hx|[Hx|Hi]]; [discriminate|discriminate|eauto]]).
    - (* UnsubscribeSubscription *)
      assert (HM := RM_remove_locked _ _ _ _ (RG_ext _ (st_log st (if mem s (allsubs st) then [GLeft s] else [])) ltac:(reg_eq_tac) HR) Erm).
      apply (Hgen (rev (dec_obs r) ++ map GRemoved (rev (rr_close r)) ++ (if mem s (allsubs st) then [GLeft s] else []))).
      + unfold emit. simpl. rewrite (rm_log _ _ _ HM). simpl. rewrite !app_assoc. reflexivity.
      + intros t0 e0 l0 Hi. exfalso. apply in_app_iff in Hi. destruct Hi as [Hi|Hi].
        * apply in_rev in Hi. unfold dec_obs in Hi. destruct (rr_dec r =? 0); simpl in Hi; intuition discriminate.
        * apply in_app_iff in Hi. destruct Hi as [Hi|Hi]; [apply in_map_iff in Hi; destruct Hi as [y [Hy _]]; discriminate|].
          destruct (mem s (allsubs st)); simpl in Hi; intuition discriminate.
    - (* removeClient *)
      assert (HM := RM_remove_many _ _ _ _ (RG_ext _ (st_log st (map GLeft (of_conn st c (allsubs st)))) ltac:(reg_eq_tac) HR) Erm).
      apply (Hgen (rev (dec_obs r) ++ map GRemoved (rev (rr_close r)) ++ map GLeft (of_conn st c (allsubs st)))).
      + unfold emit. simpl. rewrite (rm_log _ _ _ HM). simpl. rewrite !app_assoc. reflexivity.
      + intros t0 e0 l0 Hi. exfalso. apply in_app_iff in Hi. destruct Hi as [Hi|Hi].
        * apply in_rev in Hi. unfold dec_obs in Hi. destruct (rr_dec r =? 0); simpl in Hi; intuition discriminate.
        * apply in_app_iff in Hi. destruct Hi as [Hi|Hi]; apply in_map_iff in Hi; destruct Hi as [y [Hy _]]; discriminate.
    - (* shutdownResolver *)
      assert (HM : RM (st_flags st true (rctx st)) st0 r).
      { eapply RM_detach_many; [eapply RG_ext; [|exact HR]; reg_eq_tac| | |exact Erm]; simpl; auto.
        apply (NoDup_tids (fun t => t_key (trigs st t))); [apply (rg_keys _ HR)|]. intros k t Hi. apply (rg_ent _ HR _ _ Hi). }
      apply (Hgen (rev (dec_obs r) ++ map GRemoved (rev (rr_close r)))).
      + unfold emit. simpl. rewrite (rm_log _ _ _ HM). simpl. rewrite !app_assoc. reflexivity.
      + intros t0 e0 l0 Hi. exfalso. apply in_app_iff in Hi. destruct Hi as [Hi|Hi].
        * apply in_rev in Hi. unfold dec_obs in Hi. destruct (rr_dec r =? 0); simpl in Hi; intuition discriminate.
        * apply in_map_iff in Hi; destruct Hi as [y [Hy _]]; discriminate.
    - (* doneTriggerFromUpdater *)
      assert (Hreg0 : In (t_key (trigs st t0), t0) (reg st)).
      { simpl in Ec. destruct (is_reg st t) eqn:Er; inversion Ec; subst. apply is_reg_true; auto. }
      assert (HM := RM_detach_locked _ _ _ _ HR Hreg0 Erm).
      apply (Hgen (rev (dec_obs r) ++ map GRemoved (rev (rr_close r)))).
      + unfold emit. simpl. rewrite (rm_log _ _ _ HM). simpl. rewrite !app_assoc. reflexivity.
      + intros t1 e0 l0 Hi. exfalso. apply in_app_iff in Hi. destruct Hi as [Hi|Hi].
        * apply in_rev in Hi. unfold dec_obs in Hi. destruct (rr_dec r =? 0); simpl in Hi; intuition discriminate.
        * apply in_map_iff in Hi; destruct Hi as [y [Hy _]]; discriminate.
    - (* IUpdFilter *)
      destruct (eval_filter_sub _ _ _ _ _ _ Eflt) as (_ & _ & Hfp).
      simpl. intros t0 e0 l0 [Hx|Hi]; [inversion Hx; subst; auto|eauto].
    - (* ISpawn *)
      apply (Hgen (map (fun s1 => GMissed s1 e) (filter (fun s1 => s_removed (subs st s1)) l))); [reflexivity|].
      intros t0 e0 l0 Hi. apply in_map_iff in Hi. destruct Hi as [y [Hy _]]. discriminate.
    - simpl. intros t0 e0 l0 [Hx|[Hx|Hi]]; [discriminate|inversion Hx; subst; intros s1 [<-|[]]; auto|eauto].
    - simpl. intros t0 e0 l0 [Hx|Hi]; [inversion Hx; subst; intros s1 [<-|[]]; auto|eauto].
  Qed.

  Lemma DI_init : DI init.
  Proof.
    unfold DI. split; [apply RG_init; assumption|]. split; [apply WC_init; assumption|]. split; [apply WC_init; assumption|].
    split; [split; [unfold UDp; simpl; repeat split; auto; intros; try constructor; tauto|simpl; auto]|].
    split; [reflexivity|]. split; [reflexivity|]. split; [|intros t e l []].
    intros s. exists []. unfold chron. simpl. split; [reflexivity|]. split; [intros Hx; exfalso; apply Hx; reflexivity|].
    left. split; reflexivity.
  Qed.

  (* a parked new thread (client call, updater call, heartbeat tick) changes nothing *)
  Lemma DI_spawn : forall st n p st',
    DI st -> spawn st n p = Some st' ->
    (forall q, (q = bad_spawn \/ q = kwbad ev_bad \/ (exists t, q = is_unlock t) \/ (exists t s, q = is_kiddone t s) \/
                (exists t, q = is_wait t) \/ (exists s, q = nfa ev_bad s) \/ (exists s e, q = nfl ev_bad s e) \/ (exists S, q = bad_tid S)) -> cntl q p = 0) ->
    cntl (hl st) p = 0 -> (forall t, PT t p = true) -> (forall t s, PK t s p = true) ->
    (forall s, cntl (is_close s) p = 0 /\ cntl (is_wcont s) p = 0) ->
    DI st'.
  Proof.
    intros st n p st' (HR & HC & HT & [HU G0] & HH & HK & HD & HA) Hsp Hq Hh Hpt Hpk Hcl.
    apply spawn_spec in Hsp. destruct Hsp as [->|[_ ->]]; [exact (conj HR (conj HC (conj HT (conj (conj HU G0) (conj HH (conj HK (conj HD HA)))))))|].
    destruct HU as (G1 & G2 & G2n & G3 & G4 & G5 & P1 & P2).
    unfold DI. split; [eapply RG_ext; [|exact HR]; reg_eq_tac|].
    split; [eapply WC_neutral; [exact HC|instantiate (1 := []); reflexivity|reflexivity|intros; simpl; auto|simpl; auto|reflexivity]|].
    split; [intros s; simpl; rewrite !cnt_app; simpl; destruct (Hcl s) as [-> ->]; destruct (HT s); split; lia|].
    split.
    { split; [|exact G0]. unfold UDp. simpl. repeat split; intros; rewrite ?cnt_app; simpl.
      - rewrite Hq by (right; right; left; eauto). rewrite G1. lia.
      - rewrite Hq by (right; right; right; left; eauto). rewrite G2. lia.
      - auto.
      - rewrite Hq by (right; right; right; right; left; eauto). specialize (G3 t H). lia.
      - rewrite Hq by auto. lia.
      - assert (cnt (bad_tid (st_threads st (threads st ++ [(n, p)]))) (threads st) <= cnt (bad_tid st) (threads st))
          by (apply bad_tid_mono; intros; simpl; auto).
        rewrite Hq by (repeat right; eauto). lia.
      - rewrite allthr_app. simpl. rewrite P1, Hpt. auto.
      - rewrite allthr_app. simpl. rewrite P2, Hpk. auto. }
    split; [change (hl (st_threads st (threads st ++ [(n, p)]))) with (hl st); simpl; rewrite cnt_app; simpl; rewrite Hh; lia|].
    split; [simpl; rewrite cnt_app; simpl; rewrite Hq by auto; lia|].
    split; [|exact HA].
    intros s. eapply (DO_keep ev_bad) with (a := []); [apply HD|reflexivity|reflexivity|reflexivity|reflexivity|auto| |].
    - simpl. rewrite cnt_app. simpl. rewrite Hq by (right; right; right; right; right; left; eauto). lia.
    - intros e. simpl. rewrite cnt_app. simpl. rewrite Hq by (right; right; right; right; right; right; left; eauto). lia.
  Qed.

  Lemma DI_step : forall st a st', DI st -> stepf st a = Some st' -> DI st'.
  Proof.
    intros st a st' HDI Hs. pose proof HDI as (HR & HC & HT & HU & HH & HK & HD & HA). pose proof Hs as Hs0.
    destruct a; simpl in Hs.
    - eapply DI_spawn; [exact HDI|exact Hs| | | | |]; intros; try (destruct op; reflexivity); try (destruct op; split; reflexivity).
      destruct H as [->|[->|[[t ->]|[[t [s ->]]|[[t ->]|[[s ->]|[[s [e ->]]|[S ->]]]]]]]]; destruct op; reflexivity.
    - destruct (Nat.ltb_spec t (ntrig st)); [|discriminate].
      eapply DI_spawn; [exact HDI|exact Hs| | | | |]; intros; try (destruct op; reflexivity); try (destruct op; split; reflexivity).
      + destruct H0 as [->|[->|[[t0 ->]|[[t0 [s ->]]|[[t0 ->]|[[s ->]|[[s [e ->]]|[S ->]]]]]]]]; destruct op; reflexivity.
      + unfold uprog, cntl. simpl. rewrite (proj2 (Nat.leb_gt (ntrig st) t)) by lia. destruct op; reflexivity.
    - eapply DI_spawn; [exact HDI|exact Hs| | | | |]; intros; try reflexivity; try (split; reflexivity).
      destruct H as [->|[->|[[t ->]|[[t [s ->]]|[[t ->]|[[s ->]|[[s [e ->]]|[S ->]]]]]]]]; reflexivity.
    - apply step_AStep in Hs0. destruct Hs0 as (i & rest & st1 & push & sp & Hl & He & Heq).
      assert (Hlk : forall t, (exists op, i = IULock t op) -> t < ntrig st).
      { intros t [op ->]. destruct (hl st (IULock t op)) eqn:E.
        - pose proof (cnt_lookup_ge (hl st) _ _ _ _ Hl E). lia.
        - simpl in E. apply Nat.leb_gt in E. auto. }
      assert (Hs1 : stepf st (AStep th x) = Some st') by exact Hs.
      assert (HR' : RG st') by (exact (RG_step fixed flt wresf ev_bad hbfail _ _ _ HR Hs1)).
      destruct (WI_step fixed flt wresf ev_bad hbfail eq_refl _ _ _ HR HC HT Hs1) as [HC' HT'].
      unfold DI. split; auto. split; auto. split; auto. subst st'. simpl.
      split; [eapply UD_ext; [| | | |eapply (UD_astep fixed flt wresf ev_bad hbfail); eauto]; reflexivity|].
      split; [apply (HL_astep fixed flt wresf ev_bad hbfail _ _ _ _ _ _ _ _ HR HH Hl He)|].
      split; [apply (KW_astep fixed flt wresf ev_bad hbfail _ _ _ _ _ _ _ _ HK Hl He)|].
      split; [|intros t e l Hi; eapply (AO_exec _ _ _ _ _ _ HR HA He); eauto].
      intros s. pose proof (DO_astep fixed flt wresf ev_bad hbfail _ _ _ _ _ _ _ _ HR HU HC HK HD Hl He s) as (tail & A1 & A2 & A3).
      exists tail. auto.
  Qed.

  Lemma DI_reachable : forall st, reach st -> DI st.
  Proof. apply run_inv; [apply DI_init|apply DI_step]. Qed.

  (* delivery_order: what was written to s is a prefix of what was accepted for s -- exact, in
     order, one Write each; the rest was dropped only after the removal of s, or is the one
     delivery still in flight; everything accepted passed the filter of s. *)
  Lemma delivery_order_holds : forall st s, reach st ->
    exists missed inflight,
      acc ev_bad s (chron st) = del s (chron st) ++ missed ++ inflight /\
      (s_removed (subs st s) = false -> missed = []) /\
      length inflight <= 1 /\
      (cnt (nfa ev_bad s) (threads st) = 0 -> inflight = []) /\
      Forall (fun e => flt s e = FPass /\ ev_bad e = false) (acc ev_bad s (chron st)).
  Proof.
    intros st s H. apply DI_reachable in H. destruct H as (_ & _ & _ & _ & _ & _ & HD & HA).
    destruct (HD s) as (tail & H1 & H2 & H3).
    exists (mis ev_bad s (chron st)), tail. split; auto.
    split; [intros Hr; destruct (mis ev_bad s (chron st)) eqn:E; auto; specialize (H2 ltac:(discriminate)); congruence|].
    split; [destruct H3 as [[-> _]|(e & -> & _)]; simpl; lia|].
    split; [intros Hz; destruct H3 as [[-> _]|(e & _ & Hc & _)]; auto; lia|].
    apply Forall_forall. intros e He. unfold acc in He. apply in_flat_map in He. destruct He as (o & Ho & He).
    destruct o; simpl in He; try tauto. destruct (mem s l && negb (ev_bad e0)) eqn:E; [|inversion He].
    destruct He as [<-|[]]. apply andb_true_iff in E. destruct E as [E1 E2]. split; [|apply negb_true_iff; auto].
    eapply HA; [apply in_rev; exact Ho|apply mem_In; auto].
  Qed.
End DelivMain.
