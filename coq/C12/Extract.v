From Gv Require Import C12.Model C12.Spec C13.Spec.
From Coq Require Import ZArith.
Require Import ExtrOcamlBasic.
Extraction Language OCaml.
Extraction "model.ml" Model.step Model.init Model.fixed Model.at_yield Model.reg_sizes Model.lookup_thr
  Model.clprog Model.uprog
  C12.Spec.no_write_after_completed_b C12.Spec.completed_once_b C12.Spec.delivery_lite_b C12.Spec.writes_of
  C12.Spec.writes_exclusive_b C12.Spec.events_serial_b C12.Spec.serial_b
  C13.Spec.counters_balanced_b C13.Spec.one_start_b C13.Spec.all_started_cancelled_b C13.Spec.quiescent_ok_b C13.Spec.teardown_own_b C13.Spec.all_completed_b C13.Spec.ident_ok_b
  BinNat.N.succ BinInt.Z.succ.  (* the shared OCaml prelude expects the positive / N / Z datatypes *)
