(* C12: the property as predicates over the chronological observable log, with boolean checkers
   (extracted; evaluated on the implementation's own log by the driver), and the ghost-based
   statement of exact ordered delivery for the model. *)
From Gv Require Import C12.Model.
From Coq Require Import List Bool Arith PeanoNat.
Import ListNotations.

(* chronological log of a model state *)
Definition chron (st : state) : list obs := rev (log st).

(* ---- no writer call after the completed channel was closed ---- *)
Definition no_write_after_completed (l : list obs) : Prop :=
  forall l1 l2 s c, l = l1 ++ OClosed s :: l2 -> ~ In (OW s c) l2.

Fixpoint nwac_b (closed : list sid) (l : list obs) : bool :=
  match l with
  | [] => true
  | OClosed s :: r => nwac_b (s :: closed) r
  | OW s _ :: r => negb (mem s closed) && nwac_b closed r
  | _ :: r => nwac_b closed r
  end.
Definition no_write_after_completed_b (l : list obs) : bool := nwac_b [] l.

(* ---- completion is signalled exactly once ---- *)
Definition closes (l : list obs) : list sid :=
  flat_map (fun o => match o with OClosed s => [s] | _ => [] end) l.
Definition completed_once (l : list obs) : Prop := NoDup (closes l).
Fixpoint nodup_b (l : list nat) : bool :=
  match l with [] => true | x :: r => negb (mem x r) && nodup_b r end.
Definition completed_once_b (l : list obs) : bool := nodup_b (closes l).

(* ---- delivery: per subscriber, written events ---- *)
Definition writes_of (s : sid) (l : list obs) : list ev :=
  flat_map (fun o => match o with
                     | OW s' (CWrite e) => if s' =? s then [e] else []
                     | OW s' (CWriteFail e) => if s' =? s then [e] else []
                     | _ => [] end) l.

(* test oracle for the implementation's log (the theorem about the model is [delivery_order] in
   Proofs): every written event passes the subscriber's filter, is not a failing payload, and no
   event is written twice (the harness emits pairwise distinct events). *)
Definition delivery_lite_b (flt : sid -> ev -> fres) (ev_bad : ev -> bool) (ss : list sid) (l : list obs) : bool :=
  forallb (fun s =>
    let w := writes_of s l in
    nodup_b w && forallb (fun e => negb (ev_bad e) && match flt s e with FPass => true | _ => false end) w) ss.
