(* C12: the property as predicates over the chronological observable log, with boolean checkers
   (extracted; evaluated on the implementation's own log by the driver), and the ghost-based
   statement of exact ordered delivery for the model. *)
From Gv Require Import C12.Model.
From Coq Require Import List Bool Arith PeanoNat.
Import ListNotations.

(* chronological log of a model state *)
Definition chron (st : state) : list obs := rev (log st).

(* ---- writer calls as intervals: [OW s c] = call entered, [OWE s c] = call returned ---- *)
Definition is_ow (s : sid) (o : obs) : bool := match o with OW s' _ => s' =? s | _ => false end.
Definition is_owe (s : sid) (o : obs) : bool := match o with OWE s' _ => s' =? s | _ => false end.
Definition is_oclosed (s : sid) (o : obs) : bool := match o with OClosed s' => s' =? s | _ => false end.
Definition nw (s : sid) (l : list obs) : nat := length (filter (is_ow s) l).     (* calls entered *)
Definition nwe (s : sid) (l : list obs) : nat := length (filter (is_owe s) l).   (* calls returned *)

(* ---- no writer call after the completed channel was closed ----
   At the granularity of call intervals: after close(completed_s) no writer call of s is entered, none
   returns, and at the close no call of s is in progress (every call entered before it has returned).
   The last clause is what done() taking writeMu provides. *)
Definition no_write_after_completed (l : list obs) : Prop :=
  (forall l1 l2 s c, l = l1 ++ OClosed s :: l2 -> ~ In (OW s c) l2) /\
  (forall l1 l2 s c, l = l1 ++ OClosed s :: l2 -> ~ In (OWE s c) l2) /\
  (forall l1 l2 s, l = l1 ++ OClosed s :: l2 -> nw s l1 = nwe s l1).

(* checkers: a fold over the chronological log; [past] = the entries already seen, newest first *)
Fixpoint hist_b (cb : obs -> list obs -> bool) (past : list obs) (l : list obs) : bool :=
  match l with
  | [] => true
  | o :: r => cb o past && hist_b cb (o :: past) r
  end.
Definition nclosed (s : sid) (l : list obs) : nat := length (filter (is_oclosed s) l).
Definition nwac_cb (o : obs) (past : list obs) : bool :=
  match o with
  | OW s _ | OWE s _ => nclosed s past =? 0
  | OClosed s => nw s past =? nwe s past
  | _ => true
  end.
Definition nwac_b (past : list obs) (l : list obs) : bool := hist_b nwac_cb past l.
Definition no_write_after_completed_b (l : list obs) : bool := nwac_b [] l.

(* ---- writer calls of one subscriber never overlap ----
   A call of s is entered only while no call of s is in progress, and a return of s always closes
   the one call in progress: per subscriber the log reads enter, return, enter, return, ... *)
Definition writes_exclusive (l : list obs) : Prop :=
  forall l1 o l2, l = l1 ++ o :: l2 ->
    match o with
    | OW s _ => nw s l1 = nwe s l1
    | OWE s _ => nw s l1 = S (nwe s l1)
    | _ => True
    end.
Definition wx_cb (o : obs) (past : list obs) : bool :=
  match o with
  | OW s _ => nw s past =? nwe s past
  | OWE s _ => nw s past =? S (nwe s past)
  | _ => true
  end.
Definition wx_b (past : list obs) (l : list obs) : bool := hist_b wx_cb past l.
Definition writes_exclusive_b (l : list obs) : bool := wx_b [] l.

(* ---- completion is signalled exactly once ---- *)
Definition closes (l : list obs) : list sid :=
  flat_map (fun o => match o with OClosed s => [s] | _ => [] end) l.
Definition completed_once (l : list obs) : Prop := NoDup (closes l).
Fixpoint nodup_b (l : list nat) : bool :=
  match l with [] => true | x :: r => negb (mem x r) && nodup_b r end.
Definition completed_once_b (l : list obs) : bool := nodup_b (closes l).

(* ---- delivery: per subscriber, written events ---- *)
Definition writes_of (s : sid) (l : list obs) : list ev :=
  flat_map (fun o => match o with
                     | OW s' (CWrite e) => if s' =? s then [e] else []
                     | OW s' (CWriteFail e) => if s' =? s then [e] else []
                     | _ => [] end) l.

(* test oracle for the implementation's log (the theorem about the model is [delivery_order] in
   Proofs): every written event passes the subscriber's filter, is not a failing payload, and no
   event is written twice (the harness emits pairwise distinct events). *)
Definition delivery_lite_b (flt : sid -> ev -> fres) (ev_bad : ev -> bool) (ss : list sid) (l : list obs) : bool :=
  forallb (fun s =>
    let w := writes_of s l in
    nodup_b w && forallb (fun e => negb (ev_bad e) && match flt s e with FPass => true | _ => false end) w) ss.

(* ---- fan-out is serial: event A is completely delivered before event B is started ----
   [GAccept t e l] is logged inside the updater-mutex section of trigger instance t, at the trigger.mu
   filter snapshot: the order of these entries is the order in which the source's Update /
   UpdateSubscription calls acquired the updater mutex, i.e. the order of emission -- also when the
   source calls the updater from several goroutines. *)
Definition emitf (t : tid) (o : obs) : list ev :=
  match o with GAccept t' e _ => if t' =? t then [e] else [] | _ => [] end.
Definition emitted (t : tid) (l : list obs) : list ev := flat_map (emitf t) l.       (* chronological *)
Fixpoint last_emitted (t : tid) (past : list obs) : option ev :=                      (* past newest first *)
  match past with
  | [] => None
  | GAccept t' e _ :: r => if t' =? t then Some e else last_emitted t r
  | _ :: r => last_emitted t r
  end.
(* the entry is the start of the Write of event e to subscriber s *)
Definition wev (o : obs) : option (sid * ev) :=
  match o with OW s (CWrite e) | OW s (CWriteFail e) => Some (s, e) | _ => None end.
(* every Write of an event to a subscriber of trigger [g s] is entered while that event is the most
   recently emitted event of the trigger *)
Definition fanout_serial (g : sid -> tid) (l : list obs) : Prop :=
  forall l1 o l2 s e, l = l1 ++ o :: l2 -> wev o = Some (s, e) -> last_emitted (g s) (rev l1) = Some e.

(* subsequence *)
Fixpoint subseq (a b : list ev) : Prop :=
  match b with
  | [] => a = []
  | y :: b' => match a with [] => True | x :: a' => (x = y /\ subseq a' b') \/ subseq a b' end
  end.

(* the same without ghost entries (for the implementation's log; events pairwise distinct): the Writes
   made to the subscribers of one group never return to an earlier event: no a .. b .. a *)
Definition gwrites (g : sid -> nat) (k : nat) (l : list obs) : list ev :=
  flat_map (fun o => match wev o with Some (s, e) => if g s =? k then [e] else [] | None => [] end) l.
Definition serial (w : list ev) : Prop :=
  forall l1 a l2 b l3, w = l1 ++ a :: l2 ++ b :: l3 -> a <> b -> ~ In a l3.
Fixpoint serial_go (cur : option ev) (done : list ev) (w : list ev) : bool :=
  match w with
  | [] => true
  | e :: r =>
    match cur with
    | None => serial_go (Some e) done r
    | Some c => if c =? e then serial_go cur done r
                else negb (mem e done) && serial_go (Some e) (c :: done) r
    end
  end.
Definition serial_b (w : list ev) : bool := serial_go None [] w.
Definition events_serial_b (g : sid -> nat) (ks : list nat) (l : list obs) : bool :=
  forallb (fun k => serial_b (gwrites g k l)) ks.
