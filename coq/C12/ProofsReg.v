(* Registry structure invariant RG and explicit descriptions of the removal regions under RG. *)
From Gv Require Import C12.Model C12.ProofsBase.
From Coq Require Import List Bool Arith PeanoNat Lia.
Import ListNotations.

Record RG (st : state) : Prop := {
  rg_keys : NoDup (map fst (reg st));
  rg_ent : forall k t, In (k, t) (reg st) ->
             t < ntrig st /\ t_key (trigs st t) = k /\ t_subs (trigs st t) <> [];
  rg_byid : forall s, In s (byid st) ->
             In s (allsubs st) /\ In (s_key (subs st s), s_tid (subs st s)) (reg st) /\
             In s (t_subs (trigs st (s_tid (subs st s)))) /\ s_removed (subs st s) = false;
  rg_tsubs : forall t s, In s (t_subs (trigs st t)) ->
             In (t_key (trigs st t), t) (reg st) /\ In s (byid st) /\ s_tid (subs st s) = t;
  rg_nd_byid : NoDup (byid st);
  rg_nd_tsubs : forall t, NoDup (t_subs (trigs st t)) }.

(* the part of the state RG talks about *)
Definition reg_eq (st st' : state) : Prop :=
  reg st' = reg st /\ byid st' = byid st /\ allsubs st' = allsubs st /\ ntrig st' = ntrig st /\
  (forall s, s_key (subs st' s) = s_key (subs st s) /\ s_tid (subs st' s) = s_tid (subs st s) /\
             s_removed (subs st' s) = s_removed (subs st s)) /\
  (forall t, t_key (trigs st' t) = t_key (trigs st t) /\ t_subs (trigs st' t) = t_subs (trigs st t)).

Lemma reg_eq_refl : forall st, reg_eq st st.
Proof. unfold reg_eq; intros; repeat split; auto. Qed.

Lemma RG_ext : forall st st', reg_eq st st' -> RG st -> RG st'.
Proof.
  intros st st' (Hr & Hb & Ha & Hn & Hsub & Htr) H. destruct H.
  constructor.
  - rewrite Hr; auto.
  - intros k t Hin. rewrite Hr in Hin. destruct (Htr t) as [-> ->]. rewrite Hn. auto.
  - intros s Hin. rewrite Hb in Hin. destruct (Hsub s) as (-> & -> & ->).
    destruct (Htr (s_tid (subs st s))) as [_ ->]. rewrite Ha, Hr. auto.
  - intros t s Hin. destruct (Htr t) as [-> Ht]. rewrite Ht in Hin. destruct (Hsub s) as (_ & -> & _).
    rewrite Hr, Hb. auto.
  - rewrite Hb; auto.
  - intros t. destruct (Htr t) as [_ ->]. auto.
Qed.

Ltac reg_eq_tac :=
  unfold reg_eq; simpl; repeat split; auto; intros;
  unfold upd; repeat (match goal with |- context [Nat.eqb ?a ?b] => destruct (Nat.eqb_spec a b); subst end); simpl; auto.

(* ---- lookup_reg ---- *)
Lemma lookup_reg_In : forall k t r, lookup_reg k r = Some t -> In (k, t) r.
Proof.
  induction r as [|[k' t'] r]; simpl; intros; [discriminate|].
  destruct (Nat.eqb_spec k' k); [inversion H; subst; auto|auto].
Qed.
Lemma lookup_reg_None : forall k r, lookup_reg k r = None -> ~ In k (map fst r).
Proof.
  induction r as [|[k' t'] r]; simpl; intros; [tauto|].
  destruct (Nat.eqb_spec k' k); [discriminate|]. intros [?|?]; [congruence|]. apply IHr; auto.
Qed.
Lemma In_lookup_reg : forall k t r, NoDup (map fst r) -> In (k, t) r -> lookup_reg k r = Some t.
Proof.
  induction r as [|[k' t'] r]; simpl; intros Hn Hi; [tauto|].
  inversion Hn; subst. destruct Hi as [Heq|Hi].
  - inversion Heq; subst. rewrite Nat.eqb_refl; auto.
  - destruct (Nat.eqb_spec k' k); [|auto]. subst. exfalso. apply H1. apply in_map_iff. exists (k, t); auto.
Qed.
Lemma In_unreg_key : forall k k' t r, In (k', t) (unreg_key k r) <-> In (k', t) r /\ k' <> k.
Proof.
  unfold unreg_key; intros. rewrite filter_In. simpl. split; intros [H1 H2]; split; auto.
  - intro; subst. rewrite Nat.eqb_refl in H2; discriminate.
  - destruct (Nat.eqb_spec k' k); simpl; congruence.
Qed.
Lemma NoDup_unreg_key : forall k r, NoDup (map fst r) -> NoDup (map fst (unreg_key k r)).
Proof.
  induction r as [|[k' t'] r]; simpl; intros; auto.
  inversion H; subst. destruct (Nat.eqb_spec k' k); simpl; auto.
  constructor; auto. intro Hi. apply H2. apply in_map_iff in Hi. destruct Hi as [[a b] [Ha Hb]]. simpl in Ha; subst.
  apply In_unreg_key in Hb. apply in_map_iff. exists (k', b); tauto.
Qed.

(* is_reg under RG *)
Lemma is_reg_true : forall st t, RG st -> (is_reg st t = true <-> In (t_key (trigs st t), t) (reg st)).
Proof.
  unfold is_reg; intros st t H. destruct (lookup_reg _ _) eqn:E.
  - apply lookup_reg_In in E. split.
    + intros He. apply Nat.eqb_eq in He; subst; auto.
    + intros Hi. apply Nat.eqb_eq. pose proof (In_lookup_reg _ _ _ (rg_keys _ H) Hi).
      pose proof (In_lookup_reg _ _ _ (rg_keys _ H) E). congruence.
  - split; [discriminate|]. intros Hi. apply lookup_reg_None in E. exfalso; apply E.
    apply in_map_iff. exists (t_key (trigs st t), t); auto.
Qed.

Lemma reg_key_inj : forall st k t1 t2, RG st -> In (k, t1) (reg st) -> In (k, t2) (reg st) -> t1 = t2.
Proof.
  intros. pose proof (In_lookup_reg _ _ _ (rg_keys _ H) H0). pose proof (In_lookup_reg _ _ _ (rg_keys _ H) H1). congruence.
Qed.

(* ---- removeSubscriptionLocked, explicitly ---- *)
Definition rm_state (st : state) (s : sid) : state :=
  let sb := subs st s in
  let t := s_tid sb in
  let tr := trigs st t in
  let l' := rem s (t_subs tr) in
  let st1 := st_log (st_sub st s (sub_set_removed sb)) [GRemoved s] in
  let st2 := unregister (st_trg st1 t (trg_set_subs tr l')) s in
  match l' with [] => st_reg st2 (unreg_key (t_key tr) (reg st2)) | _ :: _ => st2 end.
Definition rm_res (st : state) (s : sid) : rmres :=
  let sb := subs st s in
  let t := s_tid sb in
  let tr := trigs st t in
  match rem s (t_subs tr) with
  | [] => {| rr_n := 1; rr_close := [s]; rr_cancel := [t]; rr_dec := if t_init tr then 1 else 0 |}
  | _ :: _ => {| rr_n := 1; rr_close := [s]; rr_cancel := []; rr_dec := 0 |}
  end.

Lemma remove_locked_out : forall st s, ~ In s (byid st) -> remove_locked st s = (st, rm0).
Proof. unfold remove_locked; intros. apply mem_nIn in H. rewrite H. auto. Qed.

Lemma remove_locked_in : forall st s, RG st -> In s (byid st) ->
  remove_locked st s = (rm_state st s, rm_res st s).
Proof.
  intros st s H Hin. destruct (rg_byid _ H s Hin) as (Ha & Hr & Ht & Hrm).
  unfold remove_locked, rm_state, rm_res.
  apply mem_In in Hin. rewrite Hin. simpl.
  rewrite (In_lookup_reg _ _ _ (rg_keys _ H) Hr).
  apply mem_In in Ht. rewrite Ht. simpl.
  unfold cas_removed. rewrite Hrm. simpl.
  destruct (rem s (t_subs (trigs st (s_tid (subs st s))))); auto.
Qed.

Lemma RG_rm_state : forall st s, RG st -> In s (byid st) -> RG (rm_state st s).
Proof.
  intros st s H Hin. destruct (rg_byid _ H s Hin) as (Ha & Hr & Ht & Hrm).
  set (t := s_tid (subs st s)) in *. set (tr := trigs st t) in *.
  destruct (rg_ent _ H _ _ Hr) as (Htn & Htk & _).
  assert (Hkey : forall k' t', In (k', t') (reg st) -> k' = t_key tr -> t' = t).
  { intros k' t' Hi ->. fold tr in Htk. rewrite Htk in Hi. eapply reg_key_inj; eauto. }
  unfold rm_state. fold t. fold tr.
  destruct (rem s (t_subs tr)) as [|x l'] eqn:El.
  - (* last subscriber: the trigger is unregistered *)
    constructor; simpl.
    + apply NoDup_unreg_key, (rg_keys _ H).
    + intros k' t' Hi. apply In_unreg_key in Hi. destruct Hi as [Hi Hk].
      destruct (rg_ent _ H _ _ Hi) as (A & B & C).
      assert (t' <> t). { intro; subst t'. apply Hk. fold tr in B. congruence. }
      rewrite upd_other by auto. auto.
    + intros s' Hi. apply In_rem in Hi. destruct Hi as [Hi Hne].
      rewrite upd_other by auto.
      destruct (rg_byid _ H s' Hi) as (A & B & C & D).
      assert (Hne2 : s_tid (subs st s') <> t).
      { intro E. rewrite E in C. fold tr in C. assert (In s' (rem s (t_subs tr))) by (apply In_rem; auto).
        rewrite El in H0. inversion H0. }
      rewrite upd_other by auto. repeat split; auto.
      apply In_unreg_key. split; auto. intro E. apply Hne2. eapply Hkey; eauto.
    + intros t' s' Hi. destruct (Nat.eq_dec t' t) as [->|Hne].
      * rewrite upd_same in Hi. simpl in Hi. inversion Hi.
      * rewrite upd_other in Hi |- * by auto.
        destruct (rg_tsubs _ H _ _ Hi) as (A & B & C).
        assert (s' <> s). { intro; subst s'. apply Hne. rewrite <- C. auto. }
        rewrite upd_other by auto. repeat split; auto.
        -- apply In_unreg_key. split; auto. intro E. apply Hne. eapply Hkey; eauto.
        -- apply In_rem; auto.
    + apply NoDup_rem, (rg_nd_byid _ H).
    + intros t'. destruct (Nat.eq_dec t' t) as [->|Hne].
      * rewrite upd_same. simpl. constructor.
      * rewrite upd_other by auto. apply (rg_nd_tsubs _ H).
  - constructor; simpl.
    + apply (rg_keys _ H).
    + intros k' t' Hi. destruct (rg_ent _ H _ _ Hi) as (A & B & C).
      destruct (Nat.eq_dec t' t) as [->|Hne].
      * rewrite upd_same. simpl. repeat split; auto. discriminate.
      * rewrite upd_other by auto. auto.
    + intros s' Hi. apply In_rem in Hi. destruct Hi as [Hi Hne].
      rewrite upd_other by auto.
      destruct (rg_byid _ H s' Hi) as (A & B & C & D).
      repeat split; auto.
      destruct (Nat.eq_dec (s_tid (subs st s')) t) as [E|E].
      * rewrite E, upd_same. cbn [t_subs trg_set_subs]. rewrite <- El. apply In_rem. rewrite E in C. auto.
      * rewrite upd_other by auto. auto.
    + intros t' s' Hi. destruct (Nat.eq_dec t' t) as [->|Hne].
      * rewrite upd_same in Hi |- *. cbn [t_subs t_key trg_set_subs] in Hi |- *. rewrite <- El in Hi. apply In_rem in Hi. destruct Hi as [Hi Hn].
        destruct (rg_tsubs _ H _ _ Hi) as (A & B & C).
        rewrite upd_other by auto. repeat split; auto. apply In_rem; auto.
      * rewrite upd_other in Hi |- * by auto.
        destruct (rg_tsubs _ H _ _ Hi) as (A & B & C).
        assert (s' <> s). { intro; subst s'. apply Hne. rewrite <- C. auto. }
        rewrite upd_other by auto. repeat split; auto. apply In_rem; auto.
    + apply NoDup_rem, (rg_nd_byid _ H).
    + intros t'. destruct (Nat.eq_dec t' t) as [->|Hne].
      * rewrite upd_same. cbn [t_subs trg_set_subs]. rewrite <- El. apply NoDup_rem, (rg_nd_tsubs _ H).
      * rewrite upd_other by auto. apply (rg_nd_tsubs _ H).
Qed.

Lemma RG_remove_locked : forall st s st' r, RG st -> remove_locked st s = (st', r) -> RG st'.
Proof.
  intros. destruct (in_dec Nat.eq_dec s (byid st)).
  - rewrite remove_locked_in in H0 by auto. inversion H0; subst. apply RG_rm_state; auto.
  - rewrite remove_locked_out in H0 by auto. inversion H0; subst; auto.
Qed.

Lemma RG_remove_many : forall l st st' r, RG st -> remove_many st l = (st', r) -> RG st'.
Proof.
  induction l; simpl; intros.
  - inversion H0; subst; auto.
  - destruct (remove_locked st a) as [st1 r1] eqn:E1. destruct (remove_many st1 l) as [st2 r2] eqn:E2.
    inversion H0; subst. eapply IHl; [|eauto]. eapply RG_remove_locked; eauto.
Qed.

Lemma filter_all : forall A (f : A -> bool) l, (forall x, f x = true) -> filter f l = l.
Proof. induction l; simpl; intros; auto. rewrite H. f_equal; auto. Qed.
Lemma filter_filter : forall A (f g : A -> bool) l, filter f (filter g l) = filter (fun x => g x && f x) l.
Proof. induction l; simpl; auto. destruct (g a); simpl; [destruct (f a)|]; rewrite IHl; auto. Qed.

(* ---- detachTriggerLocked, explicitly (pointwise: no functional extensionality) ---- *)
Lemma detach_subs_spec : forall l st st' cl,
  NoDup l -> (forall s, In s l -> In s (byid st) /\ s_removed (subs st s) = false) ->
  detach_subs st l = (st', cl) ->
  cl = l /\ reg st' = reg st /\ trigs st' = trigs st /\ same_frame st st' /\
  (forall x, subs st' x = if mem x l then sub_set_removed (subs st x) else subs st x) /\
  byid st' = filter (fun x => negb (mem x l)) (byid st) /\
  log st' = rev (map GRemoved l) ++ log st.
Proof.
  induction l as [|a l]; simpl; intros st st' cl Hnd Hall H.
  - inversion H; subst. split; [auto|]. split; [auto|]. split; [auto|]. split; [apply sf_refl|].
    split; [auto|]. split; [rewrite filter_all; auto|auto].
  - destruct (Hall a (or_introl eq_refl)) as [Ha Hr].
    unfold cas_removed in H. rewrite Hr in H.
    destruct (detach_subs _ l) as [st2 c2] eqn:E2. inversion H; subst; clear H.
    inversion Hnd; subst.
    apply IHl in E2; auto.
    + destruct E2 as (-> & Hreg & Htr & Hsf & Hsub & Hby & Hlog). simpl in *.
      split; [reflexivity|]. split; [auto|]. split; [auto|].
      split; [destruct Hsf as (?&?&?&?&?); unfold same_frame; simpl in *; auto|].
      split; [|split].
      * intros x. rewrite Hsub. unfold upd. destruct (Nat.eqb_spec a x).
        -- subst. rewrite (proj2 (mem_nIn x l) H1). rewrite Nat.eqb_refl. simpl. auto.
        -- destruct (Nat.eqb_spec x a); [congruence|]. simpl. auto.
      * rewrite Hby. unfold rem. rewrite filter_filter. apply filter_ext. intros x.
        unfold mem; simpl. destruct (x =? a); simpl; auto.
      * rewrite Hlog. simpl. rewrite <- app_assoc. reflexivity.
    + intros s Hs. simpl. destruct (Hall s (or_intror Hs)) as [A B].
      assert (s <> a) by (intro; subst; tauto).
      split; [apply In_rem; auto| rewrite upd_other; auto].
Qed.

Lemma detach_locked_spec : forall st t st' r, RG st -> In (t_key (trigs st t), t) (reg st) ->
  detach_locked st t = (st', r) ->
  let l := t_subs (trigs st t) in
  r = {| rr_n := length l; rr_close := l; rr_cancel := [t]; rr_dec := if t_init (trigs st t) then 1 else 0 |} /\
  reg st' = unreg_key (t_key (trigs st t)) (reg st) /\
  trigs st' = upd (trigs st) t (trg_set_subs (trigs st t) []) /\
  same_frame st st' /\
  (forall x, subs st' x = if mem x l then sub_set_removed (subs st x) else subs st x) /\
  byid st' = filter (fun x => negb (mem x l)) (byid st) /\
  log st' = rev (map GRemoved l) ++ log st.
Proof.
  intros st t st' r H Hreg Hd l. unfold detach_locked in Hd. fold l in Hd.
  destruct (detach_subs st l) as [st1 cl] eqn:E.
  apply detach_subs_spec in E.
  - destruct E as (-> & Hr & Ht & Hsf & Hsub & Hby & Hlog). inversion Hd; subst; clear Hd. simpl.
    rewrite Hr, Ht. split; [auto|]. split; [auto|]. split; [auto|].
    split; [destruct Hsf as (?&?&?&?&?); unfold same_frame; simpl; auto|]. auto.
  - apply (rg_nd_tsubs _ H).
  - intros s Hs. destruct (rg_tsubs _ H _ _ Hs) as (A & B & C). split; auto. apply (rg_byid _ H s B).
Qed.

Lemma RG_detach_locked : forall st t st' r, RG st -> In (t_key (trigs st t), t) (reg st) ->
  detach_locked st t = (st', r) -> RG st'.
Proof.
  intros st t st' r H Hreg Hd. pose proof (detach_locked_spec _ _ _ _ H Hreg Hd) as S. simpl in S.
  destruct S as (_ & Hr & Ht & Hsf & Hsub & Hby & _). destruct Hsf as (_ & Hn & Ha & Hs & _).
  set (l := t_subs (trigs st t)) in *.
  assert (Hkey : forall k' t', In (k', t') (reg st) -> k' = t_key (trigs st t) -> t' = t).
  { intros k' t' Hi ->. eapply reg_key_inj; eauto. }
  assert (Hl : forall s, In s l -> s_tid (subs st s) = t).
  { intros s Hi. apply (rg_tsubs _ H _ _ Hi). }
  constructor.
  - rewrite Hr. apply NoDup_unreg_key, (rg_keys _ H).
  - intros k' t' Hi. rewrite Hr in Hi. apply In_unreg_key in Hi. destruct Hi as [Hi Hk].
    destruct (rg_ent _ H _ _ Hi) as (A & B & C).
    assert (t' <> t). { intro; subst t'. apply Hk. congruence. }
    rewrite Ht, upd_other, Hn by auto. auto.
  - intros s Hi. rewrite Hby in Hi. apply filter_In in Hi. destruct Hi as [Hi Hm].
    apply negb_true_iff in Hm. rewrite Hsub, Hm.
    destruct (rg_byid _ H s Hi) as (A & B & C & D).
    assert (Hne : s_tid (subs st s) <> t).
    { intro E. rewrite E in C. apply mem_nIn in Hm. auto. }
    rewrite Ha, Hr, Ht, upd_other by auto. repeat split; auto.
    apply In_unreg_key. split; auto. intro E. apply Hne. eapply Hkey; eauto.
  - intros t' s Hi. rewrite Ht in Hi |- *. destruct (Nat.eq_dec t' t) as [->|Hne].
    + rewrite upd_same in Hi. simpl in Hi. inversion Hi.
    + rewrite upd_other in Hi |- * by auto.
      destruct (rg_tsubs _ H _ _ Hi) as (A & B & C).
      assert (Hm : mem s l = false). { apply mem_nIn. intro Hil. apply Hne. rewrite <- C. apply Hl; auto. }
      rewrite Hsub, Hm, Hr, Hby. repeat split; auto.
      * apply In_unreg_key. split; auto. intro E. apply Hne. eapply Hkey; eauto.
      * apply filter_In. rewrite Hm. auto.
  - rewrite Hby. apply NoDup_filter, (rg_nd_byid _ H).
  - intros t'. rewrite Ht. destruct (Nat.eq_dec t' t) as [->|Hne].
    + rewrite upd_same. simpl. constructor.
    + rewrite upd_other by auto. apply (rg_nd_tsubs _ H).
Qed.

(* detaching every registered trigger (shutdownResolver) *)
Lemma RG_detach_many : forall l st st' r, RG st ->
  (forall t, In t l -> In t (map snd (reg st))) -> NoDup l ->
  detach_many st l = (st', r) ->
  RG st' /\ (forall k t, In (k, t) (reg st') -> In (k, t) (reg st) /\ ~ In t l).
Proof.
  induction l as [|a l]; simpl; intros st st' r H Hall Hnd Hd.
  - inversion Hd; subst. split; auto.
  - destruct (detach_locked st a) as [st1 r1] eqn:E1. destruct (detach_many st1 l) as [st2 r2] eqn:E2.
    inversion Hd; subst; clear Hd. inversion Hnd; subst.
    assert (Hreg : In (t_key (trigs st a), a) (reg st)).
    { specialize (Hall a (or_introl eq_refl)). apply in_map_iff in Hall. destruct Hall as [[k t] [Hs Hi]]. simpl in Hs. subst t.
      destruct (rg_ent _ H _ _ Hi) as (_ & B & _). rewrite B. exact Hi. }
    pose proof (RG_detach_locked _ _ _ _ H Hreg E1) as H1'.
    pose proof (detach_locked_spec _ _ _ _ H Hreg E1) as S. simpl in S. destruct S as (_ & Hr & _).
    apply IHl in E2; auto.
    + destruct E2 as [Hrg Hsub]. split; auto. intros k t Hi. apply Hsub in Hi. destruct Hi as [Hi Hn].
      rewrite Hr in Hi. apply In_unreg_key in Hi. destruct Hi as [Hi Hk]. split; auto.
      intros [Ea|?]; [|tauto]. subst t. destruct (rg_ent _ H _ _ Hi) as (_ & B & _). congruence.
    + intros t Ht. specialize (Hall t (or_intror Ht)). apply in_map_iff in Hall. destruct Hall as [[k t'] [Hs Hi]]. simpl in Hs. subst t'.
      apply in_map_iff. exists (k, t). split; auto. rewrite Hr. apply In_unreg_key. split; auto.
      intro Ek. rewrite Ek in Hi.
      assert (t = a) by (exact (reg_key_inj _ _ _ _ H Hi Hreg)). subst; tauto.
Qed.

Lemma NoDup_snoc : forall (x : nat) l, NoDup l -> ~ In x l -> NoDup (l ++ [x]).
Proof.
  induction l; simpl; intros.
  - constructor; [simpl; tauto|constructor].
  - inversion H; subst. constructor.
    + rewrite in_app_iff. simpl. intros [?|[?|[]]]; [tauto|subst; tauto].
    + apply IHl; tauto.
Qed.

Lemma NoDup_tids : forall (f : tid -> key) (r : list (key * tid)),
  NoDup (map fst r) -> (forall k t, In (k, t) r -> f t = k) -> NoDup (map snd r).
Proof.
  induction r as [|[k t] r]; simpl; intros Hn Hf; [constructor|].
  inversion Hn; subst. constructor.
  - intro Hi. apply in_map_iff in Hi. destruct Hi as [[k' t'] [Hs Hi]]. simpl in Hs; subst t'.
    assert (k' = k). { rewrite <- (Hf k' t) by auto. apply Hf; auto. }
    subst. apply H1. apply in_map_iff. exists (k, t); auto.
  - apply IHr; auto.
Qed.

Section RegStep.
  Variable v : variant.
  Variable flt : sid -> ev -> fres.
  Variable wresf : sid -> ev -> wres.
  Variable ev_bad : ev -> bool.
  Variable hbfail : sid -> bool.
  Notation exec := (exec v flt wresf ev_bad hbfail).
  Notation step := (step v flt wresf ev_bad hbfail).

  Lemma RG_init : RG init.
  Proof. constructor; simpl; intros; try tauto; try constructor. Qed.

  Lemma RG_add_join : forall st s k c hb t cx,
    RG st -> ~ In s (allsubs st) -> lookup_reg k (reg st) = Some t ->
    RG {| shut := shut st; rctx := rctx st; reg := reg st; byid := byid st ++ [s]; allsubs := s :: allsubs st;
          subs := upd (subs st) s {| s_key := k; s_tid := t; s_conn := c; s_hb := hb; s_removed := false; s_closed := 0; s_ctxc := cx |};
          ntrig := ntrig st;
          trigs := upd (trigs st) t (trg_set_subs (trigs st t) (t_subs (trigs st t) ++ [s]));
          threads := threads st; log := log st; wlk := wlk st |}.
  Proof.
    intros st s k c hb t cx H Hf Hl. apply lookup_reg_In in Hl.
    destruct (rg_ent _ H _ _ Hl) as (Htn & Htk & Hne).
    assert (Hnb : ~ In s (byid st)) by (intro Hi; apply Hf, (rg_byid _ H s Hi)).
    assert (Hnt : forall t', ~ In s (t_subs (trigs st t'))) by (intros t' Hi; apply Hnb, (rg_tsubs _ H _ _ Hi)).
    constructor; simpl.
    - apply (rg_keys _ H).
    - intros k' t' Hi. destruct (rg_ent _ H _ _ Hi) as (A & B & C).
      destruct (Nat.eq_dec t' t) as [->|Hd].
      + rewrite upd_same. simpl. repeat split; auto. destruct (t_subs (trigs st t)); discriminate.
      + rewrite upd_other by auto. auto.
    - intros s' Hi. apply in_app_iff in Hi. destruct Hi as [Hi|[<-|[]]].
      + assert (s' <> s) by (intro; subst; tauto).
        rewrite upd_other by auto. destruct (rg_byid _ H s' Hi) as (A & B & C & D).
        repeat split; auto.
        destruct (Nat.eq_dec (s_tid (subs st s')) t) as [E|E].
        * rewrite E, upd_same. simpl. apply in_or_app. left. rewrite <- E. auto.
        * rewrite upd_other by auto. auto.
      + rewrite upd_same. simpl. rewrite upd_same. simpl. repeat split; auto. apply in_or_app; simpl; auto.
    - intros t' s' Hi. destruct (Nat.eq_dec t' t) as [->|Hd].
      + rewrite upd_same in Hi |- *. simpl in Hi |- *. rewrite Htk. apply in_app_iff in Hi. destruct Hi as [Hi|[<-|[]]].
        * destruct (rg_tsubs _ H _ _ Hi) as (A & B & C).
          assert (s' <> s) by (intro; subst; tauto). rewrite upd_other by auto.
          repeat split; auto. apply in_or_app; auto.
        * rewrite upd_same. simpl. repeat split; auto. apply in_or_app; simpl; auto.
      + rewrite upd_other in Hi |- * by auto. destruct (rg_tsubs _ H _ _ Hi) as (A & B & C).
        assert (s' <> s) by (intro; subst; tauto). rewrite upd_other by auto.
        repeat split; auto. apply in_or_app; auto.
    - apply NoDup_snoc; auto. apply (rg_nd_byid _ H).
    - intros t'. destruct (Nat.eq_dec t' t) as [->|Hd].
      + rewrite upd_same. simpl. apply NoDup_snoc; auto. apply (rg_nd_tsubs _ H).
      + rewrite upd_other by auto. apply (rg_nd_tsubs _ H).
  Qed.

  Lemma RG_add_new : forall st s k c hb cx,
    RG st -> ~ In s (allsubs st) -> lookup_reg k (reg st) = None ->
    RG {| shut := shut st; rctx := rctx st; reg := reg st ++ [(k, ntrig st)]; byid := byid st ++ [s]; allsubs := s :: allsubs st;
          subs := upd (subs st) s {| s_key := k; s_tid := ntrig st; s_conn := c; s_hb := hb; s_removed := false; s_closed := 0; s_ctxc := cx |};
          ntrig := S (ntrig st);
          trigs := upd (trigs st) (ntrig st) {| t_key := k; t_subs := [s]; t_init := false; t_cancelled := false; t_done := false;
                                              t_ulock := false; t_wg := []; t_started := 0 |};
          threads := threads st; log := log st; wlk := wlk st |}.
  Proof.
    intros st s k c hb cx H Hf Hl. apply lookup_reg_None in Hl.
    assert (Hnb : ~ In s (byid st)) by (intro Hi; apply Hf, (rg_byid _ H s Hi)).
    assert (Hreg : forall k' t', In (k', t') (reg st) -> t' <> ntrig st).
    { intros k' t' Hi. destruct (rg_ent _ H _ _ Hi). lia. }
    constructor; simpl.
    - rewrite map_app. simpl. apply NoDup_snoc; auto. apply (rg_keys _ H).
    - intros k' t' Hi. apply in_app_iff in Hi. destruct Hi as [Hi|[Hi|[]]].
      + destruct (rg_ent _ H _ _ Hi) as (A & B & C). rewrite upd_other by (eapply Hreg; eauto). repeat split; auto.
      + inversion Hi; subst. rewrite upd_same. simpl. repeat split; auto. discriminate.
    - intros s' Hi. apply in_app_iff in Hi. destruct Hi as [Hi|[<-|[]]].
      + assert (s' <> s) by (intro; subst; tauto). rewrite upd_other by auto.
        destruct (rg_byid _ H s' Hi) as (A & B & C & D).
        rewrite upd_other by (eapply Hreg; eauto). repeat split; auto. apply in_or_app; auto.
      + rewrite upd_same. simpl. rewrite upd_same. simpl. repeat split; auto. apply in_or_app; simpl; auto.
    - intros t' s' Hi. destruct (Nat.eq_dec t' (ntrig st)) as [->|Hd].
      + rewrite upd_same in Hi |- *. simpl in Hi |- *. destruct Hi as [<-|[]].
        rewrite upd_same. simpl. repeat split; auto; apply in_or_app; simpl; auto.
      + rewrite upd_other in Hi |- * by auto. destruct (rg_tsubs _ H _ _ Hi) as (A & B & C).
        assert (s' <> s) by (intro; subst; tauto). rewrite upd_other by auto.
        repeat split; auto; apply in_or_app; auto.
    - apply NoDup_snoc; auto. apply (rg_nd_byid _ H).
    - intros t'. destruct (Nat.eq_dec t' (ntrig st)) as [->|Hd].
      + rewrite upd_same. simpl. constructor; auto. constructor.
      + rewrite upd_other by auto. apply (rg_nd_tsubs _ H).
  Qed.

  Lemma RG_shutdown : forall st st1 r, RG st ->
    detach_many (st_flags st true (rctx st)) (map snd (reg st)) = (st1, r) ->
    RG (st_byid (st_reg st1 []) []).
  Proof.
    intros st st1 r H Hd.
    assert (H0 : RG (st_flags st true (rctx st))) by (eapply RG_ext; [|exact H]; reg_eq_tac).
    apply RG_detach_many in Hd; auto.
    - destruct Hd as [H1 Hsub].
      assert (Hempty : forall k t, ~ In (k, t) (reg st1)).
      { intros k t Hi. apply Hsub in Hi. simpl in Hi. destruct Hi as [Hi Hn]. apply Hn. apply in_map_iff. exists (k, t); auto. }
      constructor; simpl.
      + constructor.
      + intros k t [].
      + intros s [].
      + intros t0 s0 Hi. exfalso. destruct (rg_tsubs _ H1 _ _ Hi) as (A & _). eapply Hempty; eauto.
      + constructor.
      + apply (rg_nd_tsubs _ H1).
    - simpl. apply (NoDup_tids (fun t => t_key (trigs st t))); [apply (rg_keys _ H)|].
      intros k t Hi. apply (rg_ent _ H _ _ Hi).
  Qed.

  Lemma RG_exec : forall st i x st1 push sp, RG st -> exec st i x = Some (st1, push, sp) -> RG st1.
  Proof.
    intros st i x st1 push sp H He.
    exec_cases He;
      try (eapply RG_ext; [|exact H]; reg_eq_tac; fail).
    - eapply RG_ext; [|apply (RG_add_join st s k c hb t (s_ctxc (subs st s))); auto; apply mem_nIn; auto]; reg_eq_tac.
    - eapply RG_ext; [|apply (RG_add_join st s k c hb t (s_ctxc (subs st s))); auto; apply mem_nIn; auto]; reg_eq_tac.
    - eapply RG_ext; [|apply (RG_add_new st s k c hb (s_ctxc (subs st s))); auto; apply mem_nIn; auto]; reg_eq_tac.
    - eapply RG_ext; [|apply (RG_add_new st s k c hb (s_ctxc (subs st s))); auto; apply mem_nIn; auto]; reg_eq_tac.
    - eapply RG_ext; [|eapply RG_remove_locked; [|exact Erm]; eapply RG_ext; [|exact H]; reg_eq_tac]; reg_eq_tac.
    - eapply RG_ext; [|eapply RG_remove_many; [|exact Erm]; eapply RG_ext; [|exact H]; reg_eq_tac]; reg_eq_tac.
    - eapply RG_ext; [|eapply RG_shutdown; [exact H|exact Erm]]; reg_eq_tac.
    - assert (Hr : In (t_key (trigs st t0), t0) (reg st)).
      { destruct (fix_c v).
        - destruct (is_reg st t) eqn:E; inversion Ec; subst. apply is_reg_true; auto.
        - apply lookup_reg_In in Ec. destruct (rg_ent _ H _ _ Ec) as (_ & B & _). rewrite B. exact Ec. }
      eapply RG_ext; [|eapply RG_detach_locked; [exact H|exact Hr|exact Erm]]; reg_eq_tac.
  Qed.

  Lemma RG_step : forall st a st', RG st -> step st a = Some st' -> RG st'.
  Proof.
    intros st a st' H Hs. destruct a; simpl in Hs.
    - apply spawn_spec in Hs. destruct Hs as [->|[_ ->]]; auto. eapply RG_ext; [|exact H]; reg_eq_tac.
    - destruct (t <? ntrig st); [|discriminate]. apply spawn_spec in Hs. destruct Hs as [->|[_ ->]]; auto.
      eapply RG_ext; [|exact H]; reg_eq_tac.
    - apply spawn_spec in Hs. destruct Hs as [->|[_ ->]]; auto. eapply RG_ext; [|exact H]; reg_eq_tac.
    - apply step_AStep in Hs. destruct Hs as (i & rest & st1 & push & sp & Hl & He & ->).
      eapply RG_ext; [|eapply RG_exec; eauto]. reg_eq_tac.
  Qed.

  Lemma RG_reachable : forall st, reachable v flt wresf ev_bad hbfail st -> RG st.
  Proof. apply run_inv; [apply RG_init|apply RG_step]. Qed.
End RegStep.

(* ---- one contract for every removal region (under RG) ---- *)
Definition nin (l : list nat) (x : nat) : bool := negb (mem x l).

Definition trg_rest_eq (a b : trg) : Prop :=
  t_key a = t_key b /\ t_init a = t_init b /\ t_cancelled a = t_cancelled b /\ t_done a = t_done b /\
  t_ulock a = t_ulock b /\ t_wg a = t_wg b /\ t_started a = t_started b.

Record RM (st st' : state) (r : rmres) : Prop := {
  rm_frame : same_frame st st';
  rm_close_in : forall s, In s (rr_close r) -> In s (byid st) /\ s_removed (subs st s) = false;
  rm_close_nd : NoDup (rr_close r);
  rm_n : rr_n r = length (rr_close r);
  rm_subs : forall s, subs st' s = if mem s (rr_close r) then sub_set_removed (subs st s) else subs st s;
  rm_log : log st' = map GRemoved (rev (rr_close r)) ++ log st;
  rm_byid : byid st' = filter (nin (rr_close r)) (byid st);
  rm_tsubs : forall t, t_subs (trigs st' t) = filter (nin (rr_close r)) (t_subs (trigs st t));
  rm_tother : forall t, trg_rest_eq (trigs st' t) (trigs st t);
  rm_reg : reg st' = filter (fun p => nin (rr_cancel r) (snd p)) (reg st);
  rm_cancel_in : forall t, In t (rr_cancel r) -> In (t_key (trigs st t), t) (reg st);
  rm_cancel_nd : NoDup (rr_cancel r);
  rm_dec : rr_dec r = length (filter (fun t => t_init (trigs st t)) (rr_cancel r)) }.

Lemma nin_nil : forall x, nin [] x = true. Proof. reflexivity. Qed.
Lemma nin_app : forall a b x, nin (a ++ b) x = nin a x && nin b x.
Proof. unfold nin, mem; intros. rewrite existsb_app. destruct (existsb _ a); auto. Qed.
Lemma nin_true : forall l x, nin l x = true <-> ~ In x l.
Proof. unfold nin; intros. rewrite negb_true_iff. apply mem_nIn. Qed.
Lemma filter_id : forall A (f : A -> bool) l, (forall x, In x l -> f x = true) -> filter f l = l.
Proof. induction l; simpl; intros; auto. rewrite H by auto. f_equal; auto. Qed.
Lemma trg_rest_refl : forall a, trg_rest_eq a a. Proof. unfold trg_rest_eq; intros; repeat split; auto. Qed.

Lemma RM_id : forall st, RM st st rm0.
Proof.
  intros; constructor; simpl; intros; auto using sf_refl, trg_rest_refl; try tauto; try constructor;
    symmetry; apply filter_id; auto.
Qed.

Lemma RM_remove_locked : forall st s st' r, RG st -> remove_locked st s = (st', r) -> RM st st' r.
Proof.
  intros st s st' r H Hr. destruct (in_dec Nat.eq_dec s (byid st)) as [Hin|Hin].
  2:{ rewrite remove_locked_out in Hr by auto. inversion Hr; subst. apply RM_id. }
  rewrite remove_locked_in in Hr by auto. inversion Hr; subst; clear Hr.
  destruct (rg_byid _ H s Hin) as (Ha & Hrg & Ht & Hrm).
  set (t := s_tid (subs st s)) in *. set (tr := trigs st t) in *.
  destruct (rg_ent _ H _ _ Hrg) as (Htn & Htk & _). fold tr in Htk.
  assert (Hrem : forall l, rem s l = filter (nin [s]) l).
  { intros l. unfold rem. apply filter_ext. intros y. unfold nin, mem. simpl. destruct (y =? s); auto. }
  assert (Hclose : rr_close (rm_res st s) = [s]).
  { unfold rm_res. fold t. fold tr. destruct (rem s (t_subs tr)); auto. }
  assert (Hother : forall t', t' <> t -> filter (nin [s]) (t_subs (trigs st t')) = t_subs (trigs st t')).
  { intros t' Hne. apply filter_id. intros y Hy. apply nin_true. intros [<-|[]].
    apply Hne. symmetry. apply (rg_tsubs _ H _ _ Hy). }
  constructor; rewrite ?Hclose.
  - unfold rm_state. fold t. fold tr. destruct (rem s (t_subs tr)); unfold same_frame; simpl; auto.
  - intros s' [<-|[]]. auto.
  - constructor; [simpl; tauto|constructor].
  - unfold rm_res. fold t. fold tr. destruct (rem s (t_subs tr)); auto.
  - intros s'. unfold rm_state. fold t. fold tr. unfold mem. simpl. rewrite (Nat.eqb_sym s' s).
    destruct (rem s (t_subs tr)); simpl; unfold upd; rewrite (Nat.eqb_sym s s');
      destruct (Nat.eqb_spec s' s); subst; simpl; auto.
  - unfold rm_state. fold t. fold tr. destruct (rem s (t_subs tr)); simpl; auto.
  - unfold rm_state. fold t. fold tr. rewrite <- Hrem. destruct (rem s (t_subs tr)); simpl; auto.
  - intros t'. unfold rm_state. fold t. fold tr.
    destruct (Nat.eq_dec t' t) as [->|Hne].
    + fold tr. rewrite <- Hrem. destruct (rem s (t_subs tr)) eqn:E; simpl; rewrite upd_same; simpl; auto.
    + rewrite Hother by auto. destruct (rem s (t_subs tr)); simpl; rewrite upd_other; auto.
  - intros t'. unfold rm_state. fold t. fold tr.
    destruct (Nat.eq_dec t' t) as [->|Hne].
    + destruct (rem s (t_subs tr)); simpl; rewrite upd_same; unfold trg_rest_eq; simpl; fold tr; repeat split; auto.
    + destruct (rem s (t_subs tr)); simpl; rewrite upd_other by auto; apply trg_rest_refl.
  - unfold rm_state, rm_res. fold t. fold tr. destruct (rem s (t_subs tr)); simpl.
    + unfold unreg_key. apply filter_ext_in. intros [k' t'] Hi. simpl. unfold nin, mem. simpl.
      destruct (rg_ent _ H _ _ Hi) as (_ & B & _).
      destruct (Nat.eqb_spec k' (t_key tr)); destruct (Nat.eqb_spec t' t); simpl; auto.
      * exfalso. apply n. rewrite e, Htk in Hi. exact (reg_key_inj _ _ _ _ H Hi Hrg).
      * exfalso. apply n. rewrite e in B. fold tr in B. congruence.
    + symmetry. apply filter_id. auto.
  - intros t'. unfold rm_res. fold t. fold tr. destruct (rem s (t_subs tr)); simpl; [|tauto].
    intros [<-|[]]. fold tr. rewrite Htk. auto.
  - unfold rm_res. fold t. fold tr. destruct (rem s (t_subs tr)); simpl; constructor; [simpl; tauto|constructor].
  - unfold rm_res. fold t. fold tr. destruct (rem s (t_subs tr)); simpl; auto. fold tr. destruct (t_init tr); auto.
Qed.

Lemma RM_detach_locked : forall st t st' r, RG st -> In (t_key (trigs st t), t) (reg st) ->
  detach_locked st t = (st', r) -> RM st st' r.
Proof.
  intros st t st' r H Hreg Hd. pose proof (detach_locked_spec _ _ _ _ H Hreg Hd) as S. simpl in S.
  destruct S as (-> & Hr & Ht & Hsf & Hsub & Hby & Hlog).
  set (l := t_subs (trigs st t)) in *.
  assert (Hl : forall s, In s l -> In s (byid st) /\ s_tid (subs st s) = t) by (intros s Hi; apply (rg_tsubs _ H _ _ Hi)).
  constructor; simpl; auto.
  - intros s Hi. destruct (Hl s Hi) as [A _]. split; auto. apply (rg_byid _ H s A).
  - apply (rg_nd_tsubs _ H).
  - rewrite Hlog, map_rev. auto.
  - intros t'. rewrite Ht. destruct (Nat.eq_dec t' t) as [->|Hne].
    + rewrite upd_same. simpl. fold l. symmetry.
      assert (forall m, (forall x, In x m -> In x l) -> filter (nin l) m = []).
      { induction m; simpl; intros; auto. assert (nin l a = false).
        { unfold nin. apply negb_false_iff. apply mem_In. auto. } rewrite H1. auto. }
      apply H0; auto.
    + rewrite upd_other by auto. symmetry. apply filter_id. intros y Hy. apply nin_true. intro Hil.
      apply Hne. destruct (Hl y Hil) as [_ <-]. symmetry. apply (rg_tsubs _ H _ _ Hy).
  - intros t'. rewrite Ht. destruct (Nat.eq_dec t' t) as [->|Hne].
    + rewrite upd_same. unfold trg_rest_eq; simpl; repeat split; auto.
    + rewrite upd_other by auto. apply trg_rest_refl.
  - rewrite Hr. unfold unreg_key. apply filter_ext_in. intros [k' t'] Hi. simpl. unfold nin, mem. simpl.
    destruct (rg_ent _ H _ _ Hi) as (_ & B & _).
    destruct (Nat.eqb_spec k' (t_key (trigs st t))); destruct (Nat.eqb_spec t' t); simpl; auto.
    + exfalso. apply n. rewrite e in Hi. exact (reg_key_inj _ _ _ _ H Hi Hreg).
    + exfalso. apply n. rewrite e in B. congruence.
  - intros t' [<-|[]]. auto.
  - constructor; [simpl; tauto|constructor].
  - destruct (t_init (trigs st t)); auto.
Qed.

Lemma mem_app : forall x a b, mem x (a ++ b) = mem x a || mem x b.
Proof. unfold mem; intros; apply existsb_app. Qed.

Lemma NoDup_app2 : forall (a b : list nat), NoDup a -> NoDup b -> (forall x, In x b -> ~ In x a) -> NoDup (a ++ b).
Proof.
  induction a; simpl; intros; auto. inversion H; subst. constructor.
  - rewrite in_app_iff. intros [?|?]; [tauto|]. apply (H1 a); simpl; auto.
  - apply IHa; auto. intros x Hx Hi. apply (H1 x); simpl; auto.
Qed.

Lemma RM_trans : forall a b c r1 r2, RM a b r1 -> RM b c r2 -> RM a c (rm_add r1 r2).
Proof.
  intros a b c r1 r2 A B.
  assert (Hdis : forall s, In s (rr_close r2) -> ~ In s (rr_close r1)).
  { intros s Hi. destruct (rm_close_in _ _ _ B s Hi) as [Hb _]. rewrite (rm_byid _ _ _ A) in Hb.
    apply filter_In in Hb. destruct Hb as [_ Hb]. apply nin_true in Hb. auto. }
  assert (Hdisc : forall t, In t (rr_cancel r2) -> ~ In t (rr_cancel r1)).
  { intros t Hi. pose proof (rm_cancel_in _ _ _ B t Hi) as Hb. rewrite (rm_reg _ _ _ A) in Hb.
    apply filter_In in Hb. destruct Hb as [_ Hb]. simpl in Hb. apply nin_true in Hb. auto. }
  constructor; simpl.
  - eapply sf_trans; [apply (rm_frame _ _ _ A)|apply (rm_frame _ _ _ B)].
  - intros s Hi. apply in_app_iff in Hi. destruct Hi as [Hi|Hi]; [apply (rm_close_in _ _ _ A s Hi)|].
    destruct (rm_close_in _ _ _ B s Hi) as [Hb Hr]. rewrite (rm_byid _ _ _ A) in Hb. apply filter_In in Hb.
    destruct Hb as [Hb Hn]. split; auto. rewrite (rm_subs _ _ _ A) in Hr. unfold nin in Hn. apply negb_true_iff in Hn.
    rewrite Hn in Hr. auto.
  - apply NoDup_app2; [apply (rm_close_nd _ _ _ A)|apply (rm_close_nd _ _ _ B)|auto].
  - rewrite app_length, (rm_n _ _ _ A), (rm_n _ _ _ B). auto.
  - intros s. rewrite (rm_subs _ _ _ B), (rm_subs _ _ _ A), mem_app.
    destruct (mem s (rr_close r2)) eqn:E2; destruct (mem s (rr_close r1)) eqn:E1; simpl; auto.
  - rewrite (rm_log _ _ _ B), (rm_log _ _ _ A), rev_app_distr, map_app, app_assoc. auto.
  - rewrite (rm_byid _ _ _ B), (rm_byid _ _ _ A), filter_filter. apply filter_ext. intros x. rewrite nin_app. auto.
  - intros t. rewrite (rm_tsubs _ _ _ B), (rm_tsubs _ _ _ A), filter_filter. apply filter_ext. intros x. rewrite nin_app. auto.
  - intros t. destruct (rm_tother _ _ _ A t) as (?&?&?&?&?&?&?). destruct (rm_tother _ _ _ B t) as (?&?&?&?&?&?&?).
    unfold trg_rest_eq; repeat split; congruence.
  - rewrite (rm_reg _ _ _ B), (rm_reg _ _ _ A), filter_filter. apply filter_ext. intros x. rewrite nin_app. auto.
  - intros t Hi. apply in_app_iff in Hi. destruct Hi as [Hi|Hi]; [apply (rm_cancel_in _ _ _ A t Hi)|].
    pose proof (rm_cancel_in _ _ _ B t Hi) as Hb. rewrite (rm_reg _ _ _ A) in Hb. apply filter_In in Hb.
    destruct (rm_tother _ _ _ A t) as (Hk & _). rewrite Hk in Hb. tauto.
  - apply NoDup_app2; [apply (rm_cancel_nd _ _ _ A)|apply (rm_cancel_nd _ _ _ B)|auto].
  - rewrite filter_app, app_length, (rm_dec _ _ _ A), (rm_dec _ _ _ B). f_equal. f_equal. apply filter_ext.
    intros t. destruct (rm_tother _ _ _ A t) as (_ & Hi & _). auto.
Qed.

Lemma RM_remove_many : forall l st st' r, RG st -> remove_many st l = (st', r) -> RM st st' r.
Proof.
  induction l; simpl; intros.
  - inversion H0; subst. apply RM_id.
  - destruct (remove_locked st a) as [st1 r1] eqn:E1. destruct (remove_many st1 l) as [st2 r2] eqn:E2.
    inversion H0; subst. eapply RM_trans; [eapply RM_remove_locked; eauto|].
    eapply IHl; [|eauto]. eapply RG_remove_locked; eauto.
Qed.

Lemma RM_detach_many : forall l st st' r, RG st ->
  (forall t, In t l -> In t (map snd (reg st))) -> NoDup l ->
  detach_many st l = (st', r) -> RM st st' r.
Proof.
  induction l as [|a l]; simpl; intros st st' r H Hall Hnd Hd.
  - inversion Hd; subst. apply RM_id.
  - destruct (detach_locked st a) as [st1 r1] eqn:E1. destruct (detach_many st1 l) as [st2 r2] eqn:E2.
    inversion Hd; subst; clear Hd. inversion Hnd; subst.
    assert (Hreg : In (t_key (trigs st a), a) (reg st)).
    { specialize (Hall a (or_introl eq_refl)). apply in_map_iff in Hall. destruct Hall as [[k t] [Hs Hi]]. simpl in Hs. subst t.
      destruct (rg_ent _ H _ _ Hi) as (_ & B & _). rewrite B. exact Hi. }
    pose proof (RM_detach_locked _ _ _ _ H Hreg E1) as R1.
    eapply RM_trans; [exact R1|]. eapply IHl; [eapply RG_detach_locked; eauto| |auto|exact E2].
    intros t Ht. specialize (Hall t (or_intror Ht)). apply in_map_iff in Hall. destruct Hall as [[k t'] [Hs Hi]]. simpl in Hs. subst t'.
    apply in_map_iff. exists (k, t). split; auto. rewrite (rm_reg _ _ _ R1). apply filter_In. split; auto. simpl.
    apply nin_true. pose proof (detach_locked_spec _ _ _ _ H Hreg E1) as S. simpl in S. destruct S as (-> & _). simpl.
    intros [<-|[]]. tauto.
Qed.
