(* C12 property theorems: statements only; every proof is [exact lemma].
   Model: Gv.C12.Model (LTS of the subscription half of resolve.go, repaired code = variant [fixed]);
   [run fixed flt wresf ev_bad hbfail init acts = Some st] ranges over ALL action lists the LTS accepts
   (all histories, all interleavings at the granularity of DESIGN.md Appendix A, unbounded), for all
   oracles: filter outcome, write/flush outcome, failing payloads, failing heartbeats. *)
From Gv Require Import C12.Model C12.Spec C12.ProofsBase C12.ProofsC12 C12.ProofsDeliv C12.ProofsFinal C12.Witness.
From Coq Require Import List Bool Arith PeanoNat.
Import ListNotations.

(* no writer call of any kind after the subscriber's completed channel was closed *)
Theorem c12_no_write_after_completed :
  forall flt wresf ev_bad hbfail acts st,
    run fixed flt wresf ev_bad hbfail init acts = Some st -> no_write_after_completed (chron st).
Proof. exact final_no_write_after_completed. Qed.
Print Assumptions c12_no_write_after_completed.

(* completed is closed at most once per subscriber (a second close would panic) *)
Theorem c12_completed_once :
  forall flt wresf ev_bad hbfail acts st,
    run fixed flt wresf ev_bad hbfail init acts = Some st -> completed_once (chron st).
Proof. exact final_completed_once. Qed.
Print Assumptions c12_completed_once.

(* writes_exclusive: a transition that adds a writer call of subscriber s to the log executes an
   instruction that is a writeMu region of s ([w_region]: writeError, the Write/Flush region of
   executeSubscriptionUpdate, complete()/error(), sendHeartbeat); a region is ONE transition of the
   LTS, so two regions of the same subscriber never overlap -- this is what mutual exclusion of
   writer calls means in the model (instruction-level overlap is outside it, see DESIGN.md section 8). *)
Theorem c12_writes_exclusive :
  forall flt wresf ev_bad hbfail acts st th x st' s,
    run fixed flt wresf ev_bad hbfail init acts = Some st ->
    step fixed flt wresf ev_bad hbfail st (AStep th x) = Some st' ->
    nw s (log st') <> nw s (log st) ->
    exists i rest, lookup_thr th (threads st) = Some (i :: rest) /\ w_region i = Some s.
Proof. exact final_writes_exclusive. Qed.
Print Assumptions c12_writes_exclusive.

(* delivery_order: [acc s] = the events accepted for s (logged at the trigger.mu filter snapshot: s was
   registered on the trigger, its ctx live, its filter passed, payload well-formed), in source order
   (the updater mutex serialises events of one trigger).  What was written to s -- one Write per event --
   is exactly a prefix of it; the remainder was dropped only after the removal of s ([missed] is empty
   while s is not removed) or is the single delivery still in flight. *)
Theorem c12_delivery_order :
  forall flt wresf ev_bad hbfail acts st s,
    run fixed flt wresf ev_bad hbfail init acts = Some st ->
    exists missed inflight,
      acc ev_bad s (chron st) = writes_of s (chron st) ++ missed ++ inflight /\
      (s_removed (subs st s) = false -> missed = []) /\
      length inflight <= 1 /\
      (cnt (nfa ev_bad s) (threads st) = 0 -> inflight = []) /\
      Forall (fun e => flt s e = FPass /\ ev_bad e = false) (acc ev_bad s (chron st)).
Proof. exact final_delivery_order. Qed.
Print Assumptions c12_delivery_order.

(* the boolean checkers run on the implementation's log are exact *)
Theorem c12_checkers_exact :
  (forall l, no_write_after_completed_b l = true <-> no_write_after_completed l) /\
  (forall l, completed_once_b l = true <-> completed_once l).
Proof. exact (conj no_write_after_completed_b_ok completed_once_b_ok). Qed.
Print Assumptions c12_checkers_exact.

(* HISTORICAL (pre-repair code, variant hist_a: complete()/error() do not re-test removed under
   writeMu): writer.Complete() is called after the completed channel was closed. *)
Theorem c12_no_write_after_completed_refuted :
  exists acts st, run hist_a flt0 wres0 bad0 hb0 init acts = Some st /\ ~ no_write_after_completed (chron st).
Proof. exact no_write_after_completed_refuted_proof. Qed.
Print Assumptions c12_no_write_after_completed_refuted.

(* the hypotheses are satisfiable by a non-trivial run: two subscribers on one trigger, two events,
   one subscriber leaves in between *)
Example c12_example_run :
  exists st, run fixed flt0 wres0 bad0 hb0 init ex_run = Some st /\
    threads st = [] /\ writes_of 1 (chron st) = [7] /\ writes_of 2 (chron st) = [7; 8] /\
    acc bad0 1 (chron st) = [7] /\ acc bad0 2 (chron st) = [7; 8] /\ closes (chron st) = [1; 2].
Proof. exact example_run_proof. Qed.
