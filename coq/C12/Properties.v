(* C12 property theorems: statements only; every proof is [exact lemma].
   Model: Gv.C12.Model (LTS of the subscription half of resolve.go, repaired code = variant [fixed]);
   [run fixed flt wresf ev_bad hbfail init acts = Some st] ranges over ALL action lists the LTS accepts
   (all histories, all interleavings at the granularity of DESIGN.md Appendix A, unbounded), for all
   oracles: filter outcome, write/flush outcome, failing payloads, failing heartbeats.
   Writer calls are intervals: [OW s c] = the call is entered, [OWE s c] = it returns; a goroutine can
   be parked inside a call (DESIGN.md Appendix A), writeMu is explicit state ([wlk]). *)
From Gv Require Import C12.Model C12.Spec C12.ProofsBase C12.ProofsC12 C12.ProofsDeliv C12.ProofsOrder C12.ProofsFinal C12.Witness.
From Coq Require Import List Bool Arith PeanoNat.
Import ListNotations.

(* no writer call of any kind after the subscriber's completed channel was closed.
   STRENGTHENED (statement unchanged, definition in Spec.v): with writer calls as intervals the predicate
   now says that after close(completed_s) no call on the writer of s is entered, none returns, and that
   at the close no call of s is in progress -- close(completed) happens only between writer calls,
   which is what done() taking writeMu provides. *)
Theorem c12_no_write_after_completed :
  forall flt wresf ev_bad hbfail acts st,
    run fixed flt wresf ev_bad hbfail init acts = Some st -> no_write_after_completed (chron st).
Proof. exact final_no_write_after_completed. Qed.
Print Assumptions c12_no_write_after_completed.

(* completed is closed at most once per subscriber (a second close would panic) *)
Theorem c12_completed_once :
  forall flt wresf ev_bad hbfail acts st,
    run fixed flt wresf ev_bad hbfail init acts = Some st -> completed_once (chron st).
Proof. exact final_completed_once. Qed.
Print Assumptions c12_completed_once.

(* writes_exclusive.  CHANGED SHAPE (stronger): writer calls used to be atomic in the model, so mutual
   exclusion could only be stated as "a call is logged by a writeMu region, a region is one transition".
   Now calls are intervals and the statement is about the intervals themselves:
   (1) per subscriber the log reads enter, return, enter, return, ...: a call is entered only while no
       call of that subscriber is in progress and a return always closes the one call in progress;
   (2) writeMu of s is held exactly while a call of s is in progress;
   (3) the old statement, kept: every entry / return of a call of s is logged by an instruction that
       is part of a writeMu region of s ([w_region]: writeError, the Write/Flush region of
       executeSubscriptionUpdate, complete()/error(), sendHeartbeat, and their continuations [IWCont]). *)
Theorem c12_writes_exclusive :
  forall flt wresf ev_bad hbfail acts st,
    run fixed flt wresf ev_bad hbfail init acts = Some st ->
    writes_exclusive (chron st) /\
    (forall s, nw s (chron st) = nwe s (chron st) + (if mem s (wlk st) then 1 else 0)) /\
    (forall th x st' s, step fixed flt wresf ev_bad hbfail st (AStep th x) = Some st' ->
       nwc s (log st') <> nwc s (log st) ->
       exists i rest, lookup_thr th (threads st) = Some (i :: rest) /\ w_region i = Some s).
Proof. exact final_writes_exclusive. Qed.
Print Assumptions c12_writes_exclusive.

(* delivery_order: [acc s] = the events accepted for s (logged at the trigger.mu filter snapshot: s was
   registered on the trigger, its ctx live, its filter passed, payload well-formed), in source order
   (the updater mutex serialises events of one trigger).  What was written to s -- one Write per event --
   is exactly a prefix of it; the remainder was dropped only after the removal of s ([missed] is empty
   while s is not removed) or is the single delivery still in flight. *)
Theorem c12_delivery_order :
  forall flt wresf ev_bad hbfail acts st s,
    run fixed flt wresf ev_bad hbfail init acts = Some st ->
    exists missed inflight,
      acc ev_bad s (chron st) = writes_of s (chron st) ++ missed ++ inflight /\
      (s_removed (subs st s) = false -> missed = []) /\
      length inflight <= 1 /\
      (cnt (nfa ev_bad s) (threads st) = 0 -> inflight = []) /\
      Forall (fun e => flt s e = FPass /\ ev_bad e = false) (acc ev_bad s (chron st)).
Proof. exact final_delivery_order. Qed.
Print Assumptions c12_delivery_order.

(* Sources that call the updater from several goroutines.  [GAccept t e l] is logged inside the
   updater-mutex section of trigger instance t, so the order of these entries ([emitted t]) is the order
   in which the Update / UpdateSubscription calls acquired the updater mutex = the order of emission.
   (1) fanout_serial: every Write of an event to a subscriber of t is entered while that event is the
       most recently emitted event of t -- the whole fan-out of A is over before B is started;
   (2) what was written to s is a subsequence of the events emitted by its trigger, so all subscribers
       of a trigger see their events in one and the same order;
   (3) without ghost entries, for pairwise distinct events: the Writes made to the subscribers of one
       trigger never return to an earlier event (no a .. b .. a) -- the clause evaluated on the
       implementation's log ([events_serial_b]). *)
Theorem c12_fanout_serial :
  forall flt wresf ev_bad hbfail acts st,
    run fixed flt wresf ev_bad hbfail init acts = Some st ->
    fanout_serial (fun s => s_tid (subs st s)) (chron st) /\
    (forall s, subseq (writes_of s (chron st)) (emitted (s_tid (subs st s)) (chron st))) /\
    (forall t, NoDup (emitted t (chron st)) -> serial (gwrites (fun s => s_tid (subs st s)) t (chron st))).
Proof. exact final_fanout_serial. Qed.
Print Assumptions c12_fanout_serial.

(* the boolean checkers run on the implementation's log are exact *)
Theorem c12_checkers_exact :
  (forall l, no_write_after_completed_b l = true <-> no_write_after_completed l) /\
  (forall l, completed_once_b l = true <-> completed_once l) /\
  (forall l, writes_exclusive_b l = true <-> writes_exclusive l) /\
  (forall w, serial_b w = true <-> serial w).
Proof. exact (conj no_write_after_completed_b_ok (conj completed_once_b_ok (conj writes_exclusive_b_ok serial_b_ok))). Qed.
Print Assumptions c12_checkers_exact.

(* HISTORICAL (pre-repair code, variant hist_a: complete()/error() do not re-test removed under
   writeMu): writer.Complete() is called after the completed channel was closed. *)
Theorem c12_no_write_after_completed_refuted :
  exists acts st, run hist_a flt0 wres0 bad0 hb0 init acts = Some st /\ ~ no_write_after_completed (chron st).
Proof. exact no_write_after_completed_refuted_proof. Qed.
Print Assumptions c12_no_write_after_completed_refuted.

(* the hypotheses are satisfiable by a non-trivial run: two subscribers on one trigger, two events,
   one subscriber leaves in between *)
Example c12_example_run :
  exists st, run fixed flt0 wres0 bad0 hb0 init ex_run = Some st /\
    threads st = [] /\ writes_of 1 (chron st) = [7] /\ writes_of 2 (chron st) = [7; 8] /\
    acc bad0 1 (chron st) = [7] /\ acc bad0 2 (chron st) = [7; 8] /\ closes (chron st) = [1; 2].
Proof. exact example_run_proof. Qed.

(* a writer call in progress keeps close(completed) waiting: subscriber 1 is removed, writeMu is held by
   the Write in progress, the unsubscribing client has [IClose 1] next and no step of it is enabled *)
Example c12_example_close_waits :
  exists st, run fixed flt0 wres0 bad0 hb0 init ex_close_waits = Some st /\
    mem 1 (wlk st) = true /\ s_removed (subs st 1) = true /\
    lookup_thr (TCl 4) (threads st) = Some [ICloseLoop [1]; ICancel 0] /\
    step fixed flt0 wres0 bad0 hb0 st (AStep (TCl 4) (XPick 1)) = None.
Proof. exact close_waits_for_writer. Qed.

(* two goroutines of one source: Update(8) is called while Update(7) is inside the Write to
   subscriber 1; it waits for the updater mutex, nothing of 8 is delivered *)
Example c12_example_second_update_waits :
  exists st, run fixed flt0 wres0 bad0 hb0 init ex_two_updates = Some st /\
    step fixed flt0 wres0 bad0 hb0 st (AStep (TSrc 4) XNone) = None /\
    mem 1 (wlk st) = true /\ emitted 0 (chron st) = [7] /\ writes_of 1 (chron st) = [7] /\ writes_of 2 (chron st) = [].
Proof. exact second_update_waits. Qed.
